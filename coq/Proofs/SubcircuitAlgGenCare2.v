(* T21, _eval_dont_cares (part 2): the first loop as a whole; the columns of truth_table. *)
Require Import Cirbo.Model.Base Cirbo.Model.Gate Cirbo.Model.Circuit Cirbo.Model.Traverse Cirbo.Model.Eval.
Require Import Cirbo.Model.SubcircuitPrims Cirbo.Model.SubcircuitAlg.
Require Import Cirbo.Generated.GateTypes Cirbo.Generated.PatternOps Cirbo.Generated.SubcircuitAlgGen.
Require Import Cirbo.Proofs.DictFacts Cirbo.Proofs.SubcircuitPrimsFacts Cirbo.Proofs.SubcircuitAlgGenCare1.

(* ---- the initial assignment and zip_inputs ---- *)
Lemma dset_fresh {V} (d : dict V) k v : ~ In k (dkeys d) -> dset d k v = d ++ [(k, v)].
Proof.
  induction d as [|[k' v'] d IH]; intros H; simpl; [reflexivity|].
  destruct (leqb_spec k k') as [->|Hne]; [exfalso; apply H; left; reflexivity|].
  f_equal. apply IH. intros Hin; apply H; right; exact Hin.
Qed.

Lemma zip_inputs_combine : forall ins vals acc,
  NoDup (dkeys acc ++ ins) -> length vals = length ins ->
  zip_inputs ins vals acc = Ok (acc ++ combine ins vals).
Proof.
  induction ins as [|i ins IH]; intros [|v vals] acc Hnd Hl; simpl in *; try discriminate.
  - rewrite app_nil_r; reflexivity.
  - rewrite IH.
    + rewrite dset_fresh; [rewrite <- app_assoc; reflexivity|].
      intros Hin. apply NoDup_remove_2 in Hnd. apply Hnd. apply in_or_app. left; exact Hin.
    + rewrite dset_fresh by (intros Hin; apply NoDup_remove_2 in Hnd; apply Hnd; apply in_or_app; left; exact Hin).
      unfold dkeys in *. rewrite map_app. cbn [map fst]. rewrite <- app_assoc. exact Hnd.
    + lia.
Qed.

Lemma dict_of_pairs_const {V} (v : V) : forall ins acc, NoDup (dkeys acc ++ ins) ->
  fold_left (fun d kv => dset d (fst kv) (snd kv)) (map (fun i => (i, v)) ins) acc = acc ++ combine ins (repeat v (length ins)).
Proof.
  induction ins as [|i ins IH]; intros acc Hnd; simpl; [rewrite app_nil_r; reflexivity|].
  assert (Hi : ~ In i (dkeys acc)) by (intros Hin; apply NoDup_remove_2 in Hnd; apply Hnd; apply in_or_app; left; exact Hin).
  rewrite dset_fresh by exact Hi. rewrite IH; [rewrite <- app_assoc; reflexivity|].
  unfold dkeys in *. rewrite map_app. cbn [map fst]. rewrite <- app_assoc. exact Hnd.
Qed.

(* ---- sizes ---- *)
Lemma abv_len n : length (all_bool_vectors n) = 2 ^ n.
Proof. induction n as [|n IH]; [reflexivity|]. cbn [all_bool_vectors]. rewrite app_length, !map_length, IH. simpl; lia. Qed.

Lemma shiftl1_nat n : N.to_nat (N.shiftl 1 (N.of_nat n)) = 2 ^ n.
Proof.
  rewrite N.shiftl_1_l. induction n as [|n IH]; [reflexivity|].
  rewrite Nnat.Nat2N.inj_succ, N.pow_succ_r', Nnat.N2Nat.inj_mul, IH. simpl; lia.
Qed.

(* ---- the whole first loop ---- *)
Definition asg_of (ins : list label) (v : list bool) : dict st := combine ins (map inj v).

Lemma first_loop fuel c : NoDup (inputs c) -> length (inputs c) < fuel ->
  foldM (gen_eval_dont_cares_for1 fuel c (inputs c)) (nrange (N.shiftl 1 (py_len (inputs c))))
        (py_dict_of_pairs (map (fun i => (i, F)) (inputs c)), []) =
  do tb <- foldM (row_step c) (map (asg_of (inputs c)) (all_bool_vectors (length (inputs c)))) [];
  Ok (asg_of (inputs c) (repeat true (length (inputs c))), tb).
Proof.
  intros Hnd Hfuel. set (ins := inputs c) in *. set (n := length ins).
  destruct (abv_shape n) as (rest & E & Hc).
  assert (Hlen : length rest = 2 ^ n - 1).
  { pose proof (abv_len n) as H. rewrite E in H. simpl in H. lia. }
  unfold nrange, py_len. fold n. rewrite shiftl1_nat.
  assert (Hpos : 2 ^ n = S (2 ^ n - 1)) by (pose proof (Nat.pow_nonzero 2 n); lia).
  rewrite Hpos. cbn [seq map foldM]. rewrite for1_zero.
  assert (E0 : py_dict_of_pairs (map (fun i => (i, F)) ins) = asg_of ins (repeat false n)).
  { unfold py_dict_of_pairs, asg_of. rewrite (dict_of_pairs_const F ins []) by exact Hnd.
    rewrite map_inj_repeat. reflexivity. }
  rewrite E0, E. cbn [map foldM].
  destruct (row_step c [] (asg_of ins (repeat false n))) as [tb1|e]; cbn [bind]; [|reflexivity].
  apply (first_loop_chain fuel c ins Hnd Hfuel rest (repeat false n) (repeat true n)).
  - exact Hc.
  - apply repeat_length.
  - rewrite map_length, seq_length. symmetry; exact Hlen.
  - apply Forall_forall. intros i Hi. apply in_map_iff in Hi. destruct Hi as (k & <- & Hk).
    apply in_seq in Hk. lia.
Qed.

(* ---- the columns of truth_table ---- *)
Definition col (tb : dict (list N)) (l : label) : list N := py_ddict_get tb l [].
Definition cell (d : dict st) (l : label) : list N :=
  match dget d l with Some T => [1%N] | Some F => [0%N] | _ => [] end.

Lemma col_dset tb k v l : col (dset tb k v) l = if leqb l k then v else col tb l.
Proof.
  unfold col, py_ddict_get. destruct (leqb_spec l k) as [->|Hne].
  - rewrite dget_dset_same. reflexivity.
  - rewrite dget_dset_other by exact Hne. reflexivity.
Qed.

(* one evaluated row: every column gets the cell of its label (nothing for an undefined / absent value) *)
Lemma items_loop : forall (d : dict st) tb, NoDup (dkeys d) ->
  exists tb', foldM gen_eval_dont_cares_for3 d tb = Ok tb' /\ forall l, col tb' l = col tb l ++ cell d l.
Proof.
  induction d as [|[k v] d IH]; intros tb Hnd.
  - exists tb. split; [reflexivity|]. intros l. unfold cell. simpl. rewrite app_nil_r. reflexivity.
  - inversion Hnd as [|? ? Hk Hnd']; subst. cbn [foldM].
    unfold gen_eval_dont_cares_for3 at 1. cbv beta iota.
    set (tb1 := match v with U => tb | _ => dset tb k (col tb k ++ [match v with T => 1%N | _ => 0%N end]) end).
    assert (E1 : (do v_truth_table <-
                  (if negb (st_beq v U)
                   then do t7 <- py_int_of_state v;
                        Ok (dset tb k (py_ddict_get tb k [] ++ [t7]))
                   else Ok tb); Ok v_truth_table) = Ok tb1).
    { unfold tb1, col. destruct v; reflexivity. }
    rewrite E1. cbn [bind]. destruct (IH tb1 Hnd') as (tb' & E & Hcol). exists tb'. split; [exact E|].
    intros l. rewrite Hcol. unfold cell. cbn [dget].
    destruct (leqb_spec l k) as [->|Hne].
    + assert (Hd : dget d k = None) by (apply dget_None_keys; exact Hk). rewrite Hd, app_nil_r.
      unfold tb1. destruct v; try rewrite col_dset, leqb_refl; try reflexivity. rewrite app_nil_r; reflexivity.
    + f_equal. unfold tb1. destruct v; try rewrite col_dset; try reflexivity;
        destruct (leqb_spec l k); try contradiction; reflexivity.
Qed.

(* the keys of an evaluation result are distinct *)
Lemma dsetdefault_nodup {V} (d : dict V) k v : NoDup (dkeys d) -> NoDup (dkeys (dsetdefault d k v)).
Proof.
  intros H. unfold dsetdefault. destruct (dmem d k) eqn:E; [exact H|].
  unfold dkeys. rewrite map_app. apply NoDup_snoc; [exact H|].
  intros Hin. apply (proj2 (dmem_keys d k)) in Hin. rewrite E in Hin. discriminate.
Qed.

Lemma dset_nodup {V} (d : dict V) k v : NoDup (dkeys d) -> NoDup (dkeys (dset d k v)).
Proof.
  intros H. destruct (dmem d k) eqn:E.
  - rewrite dkeys_dset_mem by exact E. exact H.
  - rewrite dkeys_dset_new by exact E. apply NoDup_snoc; [exact H|].
    intros Hin. apply (proj2 (dmem_keys d k)) in Hin. rewrite E in Hin. discriminate.
Qed.

Lemma evaluate_full_nodup c a d : NoDup (dkeys a) -> evaluate_full_circuit c a = Ok d -> NoDup (dkeys d).
Proof.
  intros Ha. unfold evaluate_full_circuit. destruct (top_sort true c) as [order|e]; cbn [bind]; [|discriminate].
  assert (H0 : NoDup (dkeys (init_assignment c a))).
  { unfold init_assignment. apply fold_left_inv; [|exact Ha]. intros s x _ Hs. apply dsetdefault_nodup. exact Hs. }
  revert H0. generalize (init_assignment c a) as d0. induction order as [|l order IH]; intros d0 H0 E; cbn [foldM] in E.
  - inversion E; subst; exact H0.
  - destruct (get_gate c l) as [g|e]; cbn [bind] in E; [|discriminate].
    destruct (gtype_beq (gtyp g) INPUT); cbn [bind] in E; [apply (IH d0 H0 E)|].
    destruct (eval_gate d0 g) as [v|e]; cbn [bind] in E; [|discriminate].
    apply (IH _ (dset_nodup d0 l v H0) E).
Qed.
