(* C04: soundness of the whole-run validator Model/SubcircuitRun.check_run.
   If check_run accepts the recorded run (argument circuit c0, events, returned circuit cn),
   then cn has the inputs of c0, as many outputs, and under every Boolean input vector the i-th
   output of cn has the value of the i-th output of c0 (relational semantics Eval); when c0 is
   well formed with accepted arities, evaluate on Boolean vectors and get_truth_table return
   equal results.  Induction on the event list; the step is one of the single-step theorems
   ValidatorFacts.accepted_step_preserves_outputs / MergeFacts.merge_substitution, whose
   hypothesis "the leaves carry a compared Boolean vector" comes from
   CareFacts.care_covers_sound. *)
Require Import Cirbo.Model.Base Cirbo.Model.Gate Cirbo.Model.Den Cirbo.Model.Circuit Cirbo.Model.Traverse
        Cirbo.Model.Eval Cirbo.Model.Sem Cirbo.Model.History Cirbo.Model.WF Cirbo.Model.PatternSim
        Cirbo.Model.SubcircuitValidator Cirbo.Model.PatCases Cirbo.Model.SubcircuitRun.
Require Import Cirbo.Generated.GateTypes.
Require Import Cirbo.Proofs.DictFacts Cirbo.Proofs.SemFacts Cirbo.Proofs.EvalFacts Cirbo.Proofs.EvalComplete
        Cirbo.Proofs.EvalEntry Cirbo.Proofs.TruthTable Cirbo.Proofs.WFSound
        Cirbo.Proofs.ValidatorFacts Cirbo.Proofs.MergeFacts Cirbo.Proofs.CareFacts Cirbo.Proofs.EntryEq.

(* ---- the executable side conditions ---- *)
Lemma inputs_okb_sound c : inputs_okb c = true -> inputs_are_input_gates c.
Proof.
  unfold inputs_okb. rewrite forallb_forall. intros H l Hl. specialize (H l Hl).
  unfold is_input_gate in H. destruct (dget (gates c) l) as [g|]; [|discriminate].
  exists g. split; [reflexivity|apply gtype_beq_eq; exact H].
Qed.

Lemma run_arity_okb_sound c : run_arity_okb c = true -> arity_ok c.
Proof.
  intros H l g Hg Ht. unfold run_arity_okb in H. rewrite forallb_forall in H.
  specialize (H (l, g) (dget_In _ _ _ Hg)). simpl in H. apply orb_true_iff in H.
  destruct H as [H|H]; [apply gtype_beq_eq in H; contradiction|exact H].
Qed.

(* under every Boolean input vector the leaves carry a vector that the event's check compared *)
Lemma leaves_carry_compared c leaves care :
  inputs_are_input_gates c ->
  match care with Some K => care_covers c leaves K | None => true end = true ->
  leaves_boolean c leaves care = true ->
  forall x, length x = length (inputs c) ->
  exists a v, zip_inputs (inputs c) (map inj x) [] = Ok a /\
              compared (length leaves) care v /\
              Forall2 (fun l b => Eval c a l (inj b)) leaves v.
Proof.
  intros Hin Hcov Hbool x Hx. destruct care as [K|]; simpl in *.
  - destruct (care_covers_sound c leaves K Hin Hcov x Hx) as (a & v & Hz & Hv & HF).
    exists a, v. repeat split; assumption.
  - destruct (care_covers_sound c leaves _ Hin Hbool x Hx) as (a & v & Hz & _ & HF).
    exists a, v. repeat split; try assumption.
    symmetry. apply (Forall2_length_eq _ _ _ HF).
Qed.

(* what one accepted event gives: same inputs, as many outputs, every output position keeps its
   value under every Boolean input vector *)
Definition step_ok (old new : circuit) : Prop :=
  inputs new = inputs old /\ length (outputs new) = length (outputs old) /\
  forall x a, length x = length (inputs old) -> zip_inputs (inputs old) (map inj x) [] = Ok a ->
  forall i o v, nth_error (outputs old) i = Some o -> Eval old a o v ->
    exists o', nth_error (outputs new) i = Some o' /\ Eval new a o' v.

Lemma step_ok_refl c : step_ok c c.
Proof. split; [reflexivity|]. split; [reflexivity|]. intros x a _ _ i o v Hn He. exists o; split; assumption. Qed.

Lemma step_ok_trans c1 c2 c3 : step_ok c1 c2 -> step_ok c2 c3 -> step_ok c1 c3.
Proof.
  intros (Hi & Ho & Hs) (Hi' & Ho' & Hs').
  split; [congruence|]. split; [congruence|].
  intros x a Hx Hz i o v Hn He.
  destruct (Hs x a Hx Hz i o v Hn He) as (o' & Hn' & He').
  apply (Hs' x a) with (o := o'); [rewrite Hi; exact Hx|rewrite Hi; exact Hz|exact Hn'|exact He'].
Qed.

Lemma replace_event_ok before after leaves outs care :
  check_event (EvReplace (before, after, leaves, outs, care)) = true -> step_ok before after.
Proof.
  unfold check_event. cbn [ev_before ev_leaves ev_care check_val_case].
  intros H. apply andb_true_iff in H. destruct H as [H Hbool].
  apply andb_true_iff in H. destruct H as [H Hin].
  apply andb_true_iff in H. destruct H as [Hsub Hcov].
  apply inputs_okb_sound in Hin.
  destruct (accepted_step_preserves_outputs _ _ _ _ _ Hsub) as (Hi & Ho & Hkeep).
  split; [exact Hi|]. split; [rewrite Ho; reflexivity|].
  intros x a Hx Hz i o v Hn He.
  destruct (leaves_carry_compared before leaves care Hin Hcov Hbool x Hx) as (a' & w & Hz' & Hcmp & HF).
  assert (a' = a) by congruence; subst a'.
  exists o. split; [rewrite Ho; exact Hn|].
  apply (Hkeep a); [exists w; split; assumption|eapply nth_error_In; exact Hn|exact He].
Qed.

Lemma merge_event_ok before after leaves o l care :
  check_event (EvMerge (before, after, leaves, o, l, care)) = true -> step_ok before after.
Proof.
  unfold check_event. cbn [ev_before ev_leaves ev_care check_merge_case].
  intros H. apply andb_true_iff in H. destruct H as [H Hbool].
  apply andb_true_iff in H. destruct H as [H Hin].
  apply andb_true_iff in H. destruct H as [Hm Hcov].
  apply inputs_okb_sound in Hin.
  destruct (merge_parts _ _ _ _ _ _ Hm) as (_ & _ & Hi & Ho & _).
  split; [exact Hi|]. split; [rewrite Ho; unfold subst_label; apply map_length|].
  intros x a Hx Hz i o0 v Hn He.
  destruct (leaves_carry_compared before leaves care Hin Hcov Hbool x Hx) as (a' & w & Hz' & Hcmp & HF).
  assert (a' = a) by congruence; subst a'.
  destruct (merge_substitution _ _ _ _ _ _ a Hm) as (_ & _ & _ & Hpos);
    [exists w; split; assumption|].
  apply (Hpos i o0 v Hn He).
Qed.

Lemma event_ok e : check_event e = true -> step_ok (ev_before e) (ev_after e).
Proof.
  destruct e as [[[[[before after] leaves] outs] care]|[[[[[before after] leaves] o] l] care]].
  - apply replace_event_ok.
  - apply merge_event_ok.
Qed.

(* ---- the chain ---- *)
Lemma check_chain_sound evs : forall c cn, check_chain c evs cn = true -> step_ok c cn.
Proof.
  induction evs as [|e rest IH]; intros c cn H; simpl in H.
  - apply circuit_eqb_eq in H. subst cn. apply step_ok_refl.
  - apply andb_true_iff in H. destruct H as [H Hrest].
    apply andb_true_iff in H. destruct H as [Heq Hev].
    apply circuit_eqb_eq in Heq. subst c.
    eapply step_ok_trans; [apply event_ok; exact Hev|apply IH; exact Hrest].
Qed.

Lemma last_nonempty {A} (x : A) l d d' : last (x :: l) d = last (x :: l) d'.
Proof.
  revert x. induction l as [|y l IH]; intros x; [reflexivity|].
  change (last (y :: l) d = last (y :: l) d'). apply IH.
Qed.

(* the structure that check_run checks, as propositions (for the record: what "accepted" means) *)
Lemma check_chain_links evs : forall c cn, check_chain c evs cn = true ->
  Forall (fun e => check_event e = true) evs /\
  match evs with
  | [] => cn = c
  | e :: _ => ev_before e = c /\ ev_after (last evs e) = cn
  end /\
  forall i e e', nth_error evs i = Some e -> nth_error evs (S i) = Some e' -> ev_before e' = ev_after e.
Proof.
  induction evs as [|e rest IH]; intros c cn H; simpl in H.
  - apply circuit_eqb_eq in H. split; [constructor|]. split; [congruence|]. intros [|i]; discriminate.
  - apply andb_true_iff in H. destruct H as [H Hrest].
    apply andb_true_iff in H. destruct H as [Heq Hev].
    apply circuit_eqb_eq in Heq.
    destruct (IH _ _ Hrest) as (Hall & Hends & Hlinks).
    split; [constructor; assumption|]. split.
    + split; [congruence|]. destruct rest as [|e2 rest']; [simpl; congruence|].
      destruct Hends as [_ Hl]. rewrite <- Hl.
      change (last (e :: e2 :: rest') e) with (last (e2 :: rest') e).
      rewrite (last_nonempty e2 rest' e e2). reflexivity.
    + intros [|i] e1 e2 H1 H2; simpl in H1, H2.
      * injection H1 as <-. destruct rest as [|e3 r]; [discriminate|]. simpl in H2. injection H2 as <-.
        destruct Hends as [Hb _]. exact Hb.
      * apply (Hlinks i e1 e2 H1 H2).
Qed.

(* what acceptance of a run means, as propositions: every event is accepted, the first one starts
   from c0, consecutive events share a state, the last one ends in cn *)
Lemma check_run_structure c0 evs cn : check_run c0 evs cn = true ->
  Forall (fun e => check_event e = true) evs /\
  match evs with
  | [] => cn = c0
  | e :: _ => ev_before e = c0 /\ ev_after (last evs e) = cn
  end /\
  (forall i e e', nth_error evs i = Some e -> nth_error evs (S i) = Some e' -> ev_before e' = ev_after e) /\
  wfb cn = true /\ run_arity_okb cn = true.
Proof.
  unfold check_run. intros H.
  apply andb_true_iff in H. destruct H as [H Ha].
  apply andb_true_iff in H. destruct H as [Hc Hw].
  destruct (check_chain_links _ _ _ Hc) as (H1 & H2 & H3). repeat (split; [assumption|]). exact Ha.
Qed.

(* ---- semantic form: no hypothesis on c0 beyond acceptance of the run ---- *)
Theorem validated_run_sem c0 evs cn :
  check_run c0 evs cn = true ->
  inputs cn = inputs c0 /\ length (outputs cn) = length (outputs c0) /\
  WF cn /\ arity_ok cn /\
  forall x a, length x = length (inputs c0) -> zip_inputs (inputs c0) (map inj x) [] = Ok a ->
  forall i o v, nth_error (outputs c0) i = Some o -> Eval c0 a o v ->
    exists o', nth_error (outputs cn) i = Some o' /\ Eval cn a o' v.
Proof.
  unfold check_run. intros H.
  apply andb_true_iff in H. destruct H as [H Ha].
  apply andb_true_iff in H. destruct H as [Hc Hw].
  destruct (check_chain_sound _ _ _ Hc) as (Hi & Ho & Hs).
  split; [exact Hi|]. split; [exact Ho|].
  split; [apply wfb_sound; exact Hw|]. split; [apply run_arity_okb_sound; exact Ha|exact Hs].
Qed.

(* position-wise agreement as agreement of the output vectors *)
Lemma positions_to_vectors (c c' : circuit) (a a' : assignment) :
  length (outputs c') = length (outputs c) ->
  (forall i o v, nth_error (outputs c) i = Some o -> Eval c a o v ->
     exists o', nth_error (outputs c') i = Some o' /\ Eval c' a' o' v) ->
  forall vs, Forall2 (Eval c a) (outputs c) vs -> Forall2 (Eval c' a') (outputs c') vs.
Proof.
  generalize (outputs c) as os, (outputs c') as os'.
  induction os as [|o os IH]; intros os' Hlen Hpos vs HF; inversion HF; subst.
  - destruct os'; [constructor|discriminate].
  - destruct os' as [|o' os']; [discriminate|].
    destruct (Hpos 0 o y eq_refl H1) as (o2 & Hn & He). simpl in Hn. injection Hn as <-.
    constructor; [exact He|]. apply IH; [simpl in Hlen; congruence| |assumption].
    intros i o1 v Hn1 He1. apply (Hpos (S i) o1 v Hn1 He1).
Qed.

(* ---- THE THEOREM ---- *)
Theorem validated_run c0 evs cn :
  WF c0 -> arity_ok c0 ->
  check_run c0 evs cn = true ->
  inputs cn = inputs c0 /\ length (outputs cn) = length (outputs c0) /\
  (forall x, length x = length (inputs c0) ->
     (forall i o v, nth_error (outputs c0) i = Some o -> Eval c0 (bool_assignment c0 x) o v ->
        exists o', nth_error (outputs cn) i = Some o' /\ Eval cn (bool_assignment cn x) o' v) /\
     (forall vs, Forall2 (Eval cn (bool_assignment cn x)) (outputs cn) vs <->
                 Forall2 (Eval c0 (bool_assignment c0 x)) (outputs c0) vs) /\
     exists vs, evaluate c0 (map inj x) = Ok vs /\ evaluate cn (map inj x) = Ok vs) /\
  exists tt, get_truth_table c0 = Ok tt /\ get_truth_table cn = Ok tt.
Proof.
  intros W A H.
  destruct (validated_run_sem _ _ _ H) as (Hi & Ho & Wn & An & Hs).
  assert (Hba : forall x, bool_assignment cn x = bool_assignment c0 x)
    by (intros x; unfold bool_assignment, vec_assignment; rewrite Hi; reflexivity).
  assert (Hpos : forall x, length x = length (inputs c0) ->
            forall i o v, nth_error (outputs c0) i = Some o -> Eval c0 (bool_assignment c0 x) o v ->
              exists o', nth_error (outputs cn) i = Some o' /\ Eval cn (bool_assignment cn x) o' v).
  { intros x Hx. rewrite Hba. apply (Hs x); [exact Hx|].
    apply zip_inputs_wf; [exact W|]. rewrite map_length, Hx. apply le_n. }
  assert (Hvec : forall x, length x = length (inputs c0) ->
            forall vs, Forall2 (Eval cn (bool_assignment cn x)) (outputs cn) vs <->
                       Forall2 (Eval c0 (bool_assignment c0 x)) (outputs c0) vs).
  { intros x Hx vs.
    destruct (evaluate_complete c0 (map inj x) W A) as (vs0 & _ & HF0);
      [rewrite map_length, Hx; apply le_n|]. fold (bool_assignment c0 x) in HF0.
    pose proof (positions_to_vectors c0 cn _ _ Ho (Hpos x Hx)) as Hfw.
    split; intros HF.
    - rewrite (Forall2_Eval_fun _ _ _ _ _ HF (Hfw _ HF0)). exact HF0.
    - apply Hfw; exact HF. }
  assert (Hev : forall x, length x = length (inputs c0) ->
            evaluate cn (map inj x) = evaluate c0 (map inj x)).
  { intros x Hx. apply evaluate_eq_of_sem; try assumption; [rewrite Hi; reflexivity|].
    intros vs HF. apply (Hvec x Hx). exact HF. }
  split; [exact Hi|]. split; [exact Ho|]. split.
  - intros x Hx. split; [apply Hpos; exact Hx|]. split; [apply Hvec; exact Hx|].
    destruct (evaluate_complete c0 (map inj x) W A) as (vs0 & He0 & _);
      [rewrite map_length, Hx; apply le_n|].
    exists vs0. split; [exact He0|]. rewrite (Hev x Hx). exact He0.
  - destruct (get_truth_table_complete c0 W A) as (tt & Htt & _). exists tt. split; [exact Htt|].
    rewrite <- Htt. apply get_truth_table_eq_of_evaluate; [rewrite Hi; reflexivity|exact Ho|exact Hev].
Qed.

(* fully executable form: the hypotheses about c0 are checked as well *)
Corollary validated_run_closed c0 evs cn :
  check_run_closed c0 evs cn = true ->
  WF c0 /\ arity_ok c0 /\ WF cn /\ arity_ok cn /\
  inputs cn = inputs c0 /\ length (outputs cn) = length (outputs c0) /\
  (forall x, length x = length (inputs c0) ->
     exists vs, evaluate c0 (map inj x) = Ok vs /\ evaluate cn (map inj x) = Ok vs) /\
  exists tt, get_truth_table c0 = Ok tt /\ get_truth_table cn = Ok tt.
Proof.
  unfold check_run_closed. intros H.
  apply andb_true_iff in H. destruct H as [H Hr].
  apply andb_true_iff in H. destruct H as [Hw Ha].
  apply wfb_sound in Hw. apply run_arity_okb_sound in Ha.
  destruct (validated_run_sem _ _ _ Hr) as (_ & _ & Wn & An & _).
  destruct (validated_run c0 evs cn Hw Ha Hr) as (Hi & Ho & Hx & Htt).
  repeat (split; [assumption|]). split; [|exact Htt].
  intros x Hlen. destruct (Hx x Hlen) as (_ & _ & He). exact He.
Qed.
