(* T25: the protocol methods of Circuit whose text is the text of the generic algorithms of Model/FuncProto.v
   (g_is_constant(_at), g_is_symmetric(_at), g_is_dependent, g_equal_to_input, g_significant, g_find_negations),
   as regenerated from cirbo/core/circuit/circuit.py, equal those algorithms run on circ_rep c.
   Side condition: fuel_ok c (Proofs/CircuitProtoGenLib.v).  The fuel parameters are instantiated with the
   fuel of the hand model (outputs_fuel for evaluate, at_fuel for evaluate_at). *)
Require Import Cirbo.Model.Base Cirbo.Model.Gate Cirbo.Model.Circuit Cirbo.Model.Eval Cirbo.Model.FuncProto.
Require Import Cirbo.Generated.CircuitCore Cirbo.Generated.CircuitAlgos.
Require Import Cirbo.Proofs.CircuitAlgosGen Cirbo.Proofs.CircuitAlgosGen2.
Require Import Cirbo.Proofs.FuncProtoEnum Cirbo.Proofs.FuncProtoLoops.
Require Import Cirbo.Generated.TruthTableCore Cirbo.Proofs.TruthTableGenPrim Cirbo.Proofs.TruthTableGenIter.
Require Import Cirbo.Generated.CircuitProtoGen Cirbo.Proofs.CircuitProtoGenLib.

Section Generic.
  Variable c : circuit.
  Hypothesis Hb : fuel_ok c.

  Ltac sizes := rewrite ?gen_input_size_eq; change (r_n (circ_rep c)) with (length (inputs c)).

  (* ---- is_constant / is_constant_at ---- *)
  Theorem gen_is_constant_eq : gen_is_constant outputs_fuel outputs_fuel c = g_is_constant (circ_rep c).
  Proof.
    unfold gen_is_constant, g_is_constant, first_rest. sizes.
    rewrite py_product_bools_nat. cbn [bind].
    pose proof (abv_length (length (inputs c))) as Hlen.
    destruct (all_bool_vectors (length (inputs c))) as [|x0 rest]; [reflexivity|]. cbn [py_next bind].
    rewrite (gen_ev_bridge c Hb x0) by (apply Hlen; left; reflexivity).
    destruct (r_ev (circ_rep c) x0) as [v0|]; [|reflexivity]. cbn [rmap bind].
    apply loopM_forallM_in. intros x Hx. rewrite (gen_ev_bridge c Hb x) by (apply Hlen; right; exact Hx).
    destruct (r_ev (circ_rep c) x) as [v|]; [|reflexivity]. cbn [rmap bind]. rewrite all_eqb_st_inj.
    destruct (bvec_eqb v0 v); reflexivity.
  Qed.

  Theorem gen_is_constant_at_eq (j : nat) :
    gen_is_constant_at at_fuel at_fuel c (Z.of_nat j) = g_is_constant_at (circ_rep c) j.
  Proof.
    unfold gen_is_constant_at, g_is_constant_at, first_rest. sizes.
    rewrite py_product_bools_nat. cbn [bind].
    pose proof (abv_length (length (inputs c))) as Hlen.
    destruct (all_bool_vectors (length (inputs c))) as [|x0 rest]; [reflexivity|]. cbn [py_next bind].
    rewrite (gen_ev_at_bridge c Hb x0 j) by (apply Hlen; left; reflexivity).
    destruct (r_ev_at (circ_rep c) x0 j) as [v0|]; [|reflexivity]. cbn [rmap bind].
    apply loopM_forallM_in. intros x Hx. rewrite (gen_ev_at_bridge c Hb x j) by (apply Hlen; right; exact Hx).
    destruct (r_ev_at (circ_rep c) x j) as [v|]; [|reflexivity]. cbn [rmap bind]. rewrite st_beq_inj.
    destruct (Bool.eqb v0 v); reflexivity.
  Qed.

  (* ---- is_symmetric / is_symmetric_at ---- *)
  Theorem gen_is_symmetric_eq : gen_is_symmetric outputs_fuel outputs_fuel c = g_is_symmetric (circ_rep c).
  Proof.
    unfold gen_is_symmetric, g_is_symmetric, g_symmetric. sizes.
    rewrite py_range_succ, loopM_map.
    apply loopM_forallM. intros k. cbv beta. sizes.
    rewrite gen_input_iterator_with_fixed_sum_eq.
    pose proof (fixed_sum_lengths (length (inputs c)) k None) as Hlen.
    destruct (fixed_sum (length (inputs c)) k None) as [[|x0 rest]|]; [reflexivity| |reflexivity].
    specialize (Hlen _ eq_refl). cbv zeta. cbn [bind py_next sym_class].
    rewrite (gen_ev_bridge c Hb x0) by (apply Hlen; left; reflexivity).
    destruct (r_ev (circ_rep c) x0) as [v0|]; [|reflexivity]. cbn [rmap bind].
    apply (loopM_forallM_inner_in (fun x => do v <- r_ev (circ_rep c) x; Ok (bvec_eqb v0 v))).
    intros x Hx. cbv beta. rewrite (gen_ev_bridge c Hb x) by (apply Hlen; right; exact Hx).
    destruct (r_ev (circ_rep c) x) as [v|]; [|reflexivity]. cbn [rmap bind]. rewrite all_eqb_st_inj.
    destruct (bvec_eqb v0 v); reflexivity.
  Qed.

  Theorem gen_is_symmetric_at_eq (j : nat) :
    gen_is_symmetric_at at_fuel at_fuel c (Z.of_nat j) = g_is_symmetric_at (circ_rep c) j.
  Proof.
    unfold gen_is_symmetric_at, g_is_symmetric_at, g_symmetric. sizes.
    rewrite py_range_succ, loopM_map.
    apply loopM_forallM. intros k. cbv beta. sizes.
    rewrite gen_input_iterator_with_fixed_sum_eq.
    pose proof (fixed_sum_lengths (length (inputs c)) k None) as Hlen.
    destruct (fixed_sum (length (inputs c)) k None) as [[|x0 rest]|]; [reflexivity| |reflexivity].
    specialize (Hlen _ eq_refl). cbv zeta. cbn [bind py_next sym_class].
    rewrite (gen_ev_at_bridge c Hb x0 j) by (apply Hlen; left; reflexivity).
    destruct (r_ev_at (circ_rep c) x0 j) as [v0|]; [|reflexivity]. cbn [rmap bind].
    apply (loopM_forallM_inner_in (fun x => do v <- r_ev_at (circ_rep c) x j; Ok (Bool.eqb v0 v))).
    intros x Hx. cbv beta. rewrite (gen_ev_at_bridge c Hb x j) by (apply Hlen; right; exact Hx).
    destruct (r_ev_at (circ_rep c) x j) as [v|]; [|reflexivity]. cbn [rmap bind]. rewrite st_beq_inj.
    destruct (Bool.eqb v0 v); reflexivity.
  Qed.

  (* ---- is_dependent_on_input_at, get_significant_inputs_of ---- *)
  Theorem gen_is_dependent_on_input_at_eq (j i : nat) :
    gen_is_dependent_on_input_at at_fuel at_fuel c (Z.of_nat j) (Z.of_nat i) = g_is_dependent (circ_rep c) j i.
  Proof.
    unfold gen_is_dependent_on_input_at, g_is_dependent. sizes.
    rewrite py_product_bools_pred.
    destruct (Nat.eqb_spec (length (inputs c)) 0) as [En|En]; [reflexivity|]. cbn [bind].
    pose proof (abv_length (length (inputs c) - 1)) as Hlen.
    apply loopM_existsM_in. intros x Hx. cbv beta zeta. rewrite py_insert_nat.
    assert (L1 : length (insert_at i false x) = length (inputs c))
      by (rewrite insert_at_length, (Hlen x Hx); lia).
    rewrite (gen_ev_at_bridge c Hb _ j L1).
    destruct (r_ev_at (circ_rep c) (insert_at i false x) j) as [v1|]; [|reflexivity]. cbn [rmap bind].
    rewrite <- negate_at_eq.
    destruct (py_index (insert_at i false x) (Z.of_nat i)) as [b|]; [|reflexivity]. cbn [bind].
    destruct (py_setitem (insert_at i false x) (Z.of_nat i) (negb b)) as [x2|] eqn:E2; [|reflexivity]. cbn [bind].
    assert (L2 : length x2 = length (inputs c)).
    { rewrite <- L1. rewrite py_setitem_nat in E2.
      destruct (Nat.lt_ge_cases i (length (insert_at i false x))) as [Hi|Hi].
      - destruct (update_nth_ok (fun _ => negb b) false _ i Hi) as (l' & E & L & _).
        rewrite E in E2. injection E2 as <-. exact L.
      - rewrite update_nth_err in E2 by exact Hi. discriminate. }
    rewrite (gen_ev_at_bridge c Hb _ j L2).
    destruct (r_ev_at (circ_rep c) x2 j) as [v2|]; [|reflexivity]. cbn [rmap bind]. rewrite st_beq_inj.
    destruct (negb (Bool.eqb v1 v2)); reflexivity.
  Qed.

  Theorem gen_get_significant_inputs_of_eq (j : nat) :
    gen_get_significant_inputs_of at_fuel at_fuel c (Z.of_nat j) = rmap (map Z.of_nat) (g_significant (circ_rep c) j).
  Proof.
    unfold gen_get_significant_inputs_of, g_significant. sizes.
    rewrite bind_ret, py_range_nat, filterM_map.
    f_equal. apply filterM_ext. intros i. apply gen_is_dependent_on_input_at_eq.
  Qed.

  (* ---- is_output_equal_to_input(_negation) ---- *)
  Theorem gen_is_output_equal_to_input_eq (j i : nat) :
    gen_is_output_equal_to_input at_fuel c (Z.of_nat j) (Z.of_nat i) = g_equal_to_input false (circ_rep c) j i.
  Proof.
    unfold gen_is_output_equal_to_input, g_equal_to_input. sizes.
    rewrite py_product_bools_nat. cbn [bind].
    pose proof (abv_length (length (inputs c))) as Hlen.
    apply loopM_forallM_in. intros x Hx. rewrite (gen_ev_at_bridge c Hb x j (Hlen x Hx)).
    destruct (r_ev_at (circ_rep c) x j) as [v|]; [|reflexivity]. cbn [rmap bind]. rewrite py_index_nat.
    destruct (nth_res x i) as [b|]; [|reflexivity]. cbn [bind]. rewrite st_beq_inj. destruct v, b; reflexivity.
  Qed.

  Theorem gen_is_output_equal_to_input_negation_eq (j i : nat) :
    gen_is_output_equal_to_input_negation at_fuel c (Z.of_nat j) (Z.of_nat i)
    = g_equal_to_input true (circ_rep c) j i.
  Proof.
    unfold gen_is_output_equal_to_input_negation, g_equal_to_input. sizes.
    rewrite py_product_bools_nat. cbn [bind].
    pose proof (abv_length (length (inputs c))) as Hlen.
    apply loopM_forallM_in. intros x Hx. rewrite (gen_ev_at_bridge c Hb x j (Hlen x Hx)).
    destruct (r_ev_at (circ_rep c) x j) as [v|]; [|reflexivity]. cbn [rmap bind]. rewrite py_index_nat.
    destruct (nth_res x i) as [b|]; [|reflexivity]. cbn [bind]. rewrite st_beq_inj. destruct v, b; reflexivity.
  Qed.

  (* ---- find_negations_to_make_symmetric ---- *)
  Theorem gen_find_negations_to_make_symmetric_eq (outs : list nat) :
    gen_find_negations_to_make_symmetric outputs_fuel outputs_fuel c (map Z.of_nat outs)
    = g_find_negations (circ_rep c) outs.
  Proof.
    unfold gen_find_negations_to_make_symmetric, g_find_negations. cbv zeta. sizes.
    rewrite py_product_bools_nat. cbn [bind].
    apply loopM_findM. intros negs. cbv beta. unfold g_symmetric. sizes.
    rewrite py_range_succ, loopM_map.
    assert (F : forall v : bvec,
              mapM (fun v_idx => py_index (map inj v) v_idx) (map Z.of_nat outs) = rmap (map inj) (filter_outputs outs v)).
    { intros v. unfold filter_outputs. rewrite mapM_map. rewrite <- mapM_nth_res_map.
      apply mapM_ext. intros o. apply py_index_nat. }
    rewrite (loopM_flag (fun k => do vecs <- fixed_sum (length (inputs c)) k (Some negs);
                                   sym_class bvec_eqb (fun x => do v <- r_ev (circ_rep c) x; filter_outputs outs v) vecs)).
    - destruct (forallM _ (seq 0 (S (length (inputs c))))) as [[|]|]; reflexivity.
    - intros k. cbv beta. sizes. rewrite gen_input_iterator_with_fixed_sum_eq.
      pose proof (fixed_sum_lengths (length (inputs c)) k (Some negs)) as Hlen.
      destruct (fixed_sum (length (inputs c)) k (Some negs)) as [[|x0 rest]|]; [reflexivity| |reflexivity].
      specialize (Hlen _ eq_refl). cbn [bind py_next sym_class].
      rewrite (gen_ev_bridge c Hb x0) by (apply Hlen; left; reflexivity).
      destruct (r_ev (circ_rep c) x0) as [v0|]; [|reflexivity]. cbn [rmap bind]. rewrite F.
      destruct (filter_outputs outs v0) as [w0|]; [|reflexivity]. cbn [rmap bind].
      rewrite (loopM_flag_in (fun x => do v <- (do v <- r_ev (circ_rep c) x; filter_outputs outs v); Ok (bvec_eqb w0 v))).
      + destruct (forallM _ rest) as [[|]|]; reflexivity.
      + intros x Hx. cbv beta. rewrite (gen_ev_bridge c Hb x) by (apply Hlen; right; exact Hx).
        destruct (r_ev (circ_rep c) x) as [v|]; [|reflexivity]. cbn [rmap bind]. rewrite F.
        destruct (filter_outputs outs v) as [w|]; [|reflexivity]. cbn [rmap bind]. rewrite all_eqb_st_inj.
        destruct (bvec_eqb w0 w); reflexivity.
  Qed.
End Generic.
