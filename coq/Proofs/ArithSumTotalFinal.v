(* C07, normal termination, part 4: the statements used by the property file.

   `..._works`: the model run returns Ok for ALL sizes (hypothesis on the naming function of the
   uuid counter: injective, as in the C09 works-theorems).
   `..._total_exact`: the works theorem combined with the (conditional) value theorem of
   ArithSumFinal / ArithSumGenFacts into an unconditional statement. *)
Require Import Cirbo.Model.Base Cirbo.Model.Gate Cirbo.Model.Den Cirbo.Model.Circuit
  Cirbo.Model.Eval Cirbo.Model.Sem Cirbo.Model.Builder.
Require Import Cirbo.Generated.ArithTables Cirbo.Generated.ArithCells.
Require Import Cirbo.Model.ArithSub Cirbo.Model.ArithSum2 Cirbo.Model.ArithSumN Cirbo.Model.ArithSumW
  Cirbo.Model.ArithGen Cirbo.Model.SumCases.
Require Import Cirbo.Proofs.DictFacts Cirbo.Proofs.BuilderFacts Cirbo.Proofs.ArithFacts
  Cirbo.Proofs.ArithGenFacts Cirbo.Proofs.ArithSumCells Cirbo.Proofs.ArithSumNFacts
  Cirbo.Proofs.ArithSumTopFacts Cirbo.Proofs.ArithSumPow2Facts Cirbo.Proofs.ArithSumWFacts
  Cirbo.Proofs.ArithSumGenFacts Cirbo.Proofs.ArithSumFinal
  Cirbo.Proofs.TotalFacts Cirbo.Proofs.ArithTotalFacts Cirbo.Proofs.ArithSumTotalN
  Cirbo.Proofs.ArithSumTotalW Cirbo.Proofs.ArithSumMinted Cirbo.Proofs.ArithSumTotalP.
Require Import Coq.Logic.FinFun.
Open Scope Z_scope.

Section Works.
  Variable fresh : N -> label.
  Hypothesis Hinj : Injective fresh.
  Let Hf : fresh_total fresh := injective_fresh_total fresh Hinj.

  (* ---- bit counters ---- *)
  Theorem add_sum_n_bits_works basis b be xs s :
    resolve_basis basis = Ok b -> all_exist (bc s) xs ->
    exists rs s', run fresh (add_sum_n_bits basis be xs) s = Ok (rs, s').
  Proof.
    intros Hb Hx. destruct (add_sum_n_bits_ok fresh Hf basis b be xs s Hb Hx) as (r & s' & E & _). eauto.
  Qed.

  Theorem add_sum_n_bits_total_exact basis b be xs s :
    resolve_basis basis = Ok b -> all_exist (bc s) xs ->
    exists rs s', run fresh (add_sum_n_bits basis be xs) s = Ok (rs, s') /\
      ext (bc s) (bc s') /\ inputs (bc s') = inputs (bc s) /\ outputs (bc s') = outputs (bc s) /\
      (exists g, adds (t_of b) (bc s) (bc s') g /\ nbits_bound b g (length rs) (length xs)) /\
      forall asg xv, bvals (bc s) asg xs xv ->
        exists rv, bvals (bc s') asg rs rv /\ decode be rv = ones xv.
  Proof.
    intros Hb Hx. destruct (add_sum_n_bits_works basis b be xs s Hb Hx) as (rs & s' & E).
    exists rs, s'. split; [exact E|].
    destruct (add_sum_n_bits_final _ _ _ _ _ _ _ E) as (b' & Hb' & H). rewrite Hb in Hb'. injection Hb' as <-. exact H.
  Qed.

  Theorem add_sum_n_bits_easy_works be xs s :
    all_exist (bc s) xs -> exists rs s', run fresh (add_sum_n_bits_easy be xs) s = Ok (rs, s').
  Proof. intros Hx. destruct (add_sum_n_bits_easy_ok fresh Hf be xs s Hx) as (r & s' & E & _). eauto. Qed.

  Theorem add_sum_n_bits_easy_total_exact be xs s :
    all_exist (bc s) xs ->
    exists rs s', run fresh (add_sum_n_bits_easy be xs) s = Ok (rs, s') /\
      ext (bc s) (bc s') /\ inputs (bc s') = inputs (bc s) /\ outputs (bc s') = outputs (bc s) /\
      (exists g, adds t_xaig (bc s) (bc s') g /\ (g + 3 * length rs <= 5 * length xs)%nat) /\
      forall asg xv, bvals (bc s) asg xs xv ->
        exists rv, bvals (bc s') asg rs rv /\ decode be rv = ones xv.
  Proof.
    intros Hx. destruct (add_sum_n_bits_easy_works be xs s Hx) as (rs & s' & E).
    exists rs, s'. split; [exact E|eapply add_sum_n_bits_easy_final; exact E].
  Qed.

  (* ---- add_sum_pow2_m1 ---- *)
  Theorem add_sum_pow2_m1_works basis be xs s :
    xs <> [] -> all_exist (bc s) xs -> ((2 <= length xs)%nat -> exists b, resolve_basis basis = Ok b) ->
    has_gate (bc s) "" = false -> (forall k, fresh k <> ""%string) ->
    exists cols s', run fresh (add_sum_pow2_m1 basis be xs) s = Ok (cols, s').
  Proof. apply add_sum_pow2_m1_ok, Hf. Qed.

  Theorem add_sum_pow2_m1_total_exact basis be xs s :
    xs <> [] -> all_exist (bc s) xs -> ((2 <= length xs)%nat -> exists b, resolve_basis basis = Ok b) ->
    has_gate (bc s) "" = false -> (forall k, fresh k <> ""%string) ->
    exists cols s', run fresh (add_sum_pow2_m1 basis be xs) s = Ok (cols, s') /\
      ext (bc s) (bc s') /\ inputs (bc s') = inputs (bc s) /\ outputs (bc s') = outputs (bc s) /\
      (forall b, resolve_basis basis = Ok b -> exists g, adds (t_of b) (bc s) (bc s') g) /\
      (exists l0, hd_error cols = Some [l0]) /\
      has_gate (bc s') "" = false /\
      forall asg xv, bvals (bc s) asg xs xv ->
        exists cvs, Forall2 (bvals (bc s') asg) cols cvs /\ cols_val cvs = ones xv.
  Proof.
    intros Hne Hx Hb H0 Hfr. destruct (add_sum_pow2_m1_works basis be xs s Hne Hx Hb H0 Hfr) as (cols & s' & E).
    exists cols, s'. split; [exact E|].
    pose proof (gen_only_no_empty fresh _ _ _ _ (go_add_sum_pow2_m1 basis be xs) E H0 Hfr) as H0'.
    destruct (add_sum_pow2_m1_final _ _ _ _ _ _ _ E) as (X & I & O & _ & A & Sh & V).
    repeat split; auto.
  Qed.

  (* ---- weighted sums ---- *)
  Theorem add_sum_n_weighted_bits_works basis b inp s :
    resolve_basis basis = Ok b -> inp <> [] -> all_exist (bc s) (map snd inp) ->
    exists res s', run fresh (add_sum_n_weighted_bits basis inp) s = Ok (res, s').
  Proof.
    intros Hb Hne Hx. destruct (add_sum_n_weighted_bits_ok fresh Hf basis b inp s Hb Hne Hx) as (r & s' & E & _). eauto.
  Qed.

  Theorem add_sum_n_weighted_bits_total_exact basis b inp s :
    resolve_basis basis = Ok b -> inp <> [] -> all_exist (bc s) (map snd inp) ->
    exists res s', run fresh (add_sum_n_weighted_bits basis inp) s = Ok (res, s') /\
      ext (bc s) (bc s') /\ inputs (bc s') = inputs (bc s) /\ outputs (bc s') = outputs (bc s) /\
      (exists g, adds (t_of b) (bc s) (bc s') g /\ weighted_bound b g (length res) (length inp)) /\
      incr res /\
      forall asg vs, bvals (bc s) asg (map snd inp) vs ->
        exists rv, bvals (bc s') asg (map snd res) rv /\ wvalue (map fst res) rv = wvalue (map fst inp) vs.
  Proof.
    intros Hb Hne Hx. destruct (add_sum_n_weighted_bits_works basis b inp s Hb Hne Hx) as (res & s' & E).
    exists res, s'. split; [exact E|].
    destruct (add_sum_n_weighted_bits_final _ _ _ _ _ _ E) as (b' & Hb' & H). rewrite Hb in Hb'. injection Hb' as <-. exact H.
  Qed.

  Theorem add_sum_n_weighted_bits_naive_works basis b inp s :
    resolve_basis basis = Ok b -> inp <> [] -> all_exist (bc s) (map snd inp) ->
    exists res s', run fresh (add_sum_n_weighted_bits_naive basis inp) s = Ok (res, s').
  Proof.
    intros Hb Hne Hx.
    destruct (add_sum_n_weighted_bits_naive_ok fresh Hf basis b inp s Hb Hne Hx) as (r & s' & E & _). eauto.
  Qed.

  Theorem add_sum_n_weighted_bits_naive_total_exact basis b inp s :
    resolve_basis basis = Ok b -> inp <> [] -> all_exist (bc s) (map snd inp) ->
    exists res s', run fresh (add_sum_n_weighted_bits_naive basis inp) s = Ok (res, s') /\
      ext (bc s) (bc s') /\ inputs (bc s') = inputs (bc s) /\ outputs (bc s') = outputs (bc s) /\
      (exists g, adds (t_of b) (bc s) (bc s') g /\
                 (g + 3 * length res <= (match b with AIG => 7 | XAIG => 5 end) * length inp)%nat) /\
      incr res /\
      forall asg vs, bvals (bc s) asg (map snd inp) vs ->
        exists rv, bvals (bc s') asg (map snd res) rv /\ wvalue (map fst res) rv = wvalue (map fst inp) vs.
  Proof.
    intros Hb Hne Hx. destruct (add_sum_n_weighted_bits_naive_works basis b inp s Hb Hne Hx) as (res & s' & E).
    exists res, s'. split; [exact E|].
    destruct (add_sum_n_weighted_bits_naive_final _ _ _ _ _ _ E) as (b' & Hb' & H).
    rewrite Hb in Hb'. injection Hb' as <-. exact H.
  Qed.

  (* ---- two-number adders ---- *)
  Theorem add_sum_two_numbers_works xs ys be s :
    xs <> [] -> ys <> [] -> all_exist (bc s) xs -> all_exist (bc s) ys ->
    exists rs s', run fresh (add_sum_two_numbers xs ys be) s = Ok (rs, s').
  Proof.
    intros Hx Hy Ax Ay. destruct (add_sum_two_numbers_ok fresh Hf xs ys be s Hx Hy Ax Ay) as (r & s' & E & _). eauto.
  Qed.

  Theorem add_sum_two_numbers_total_exact xs ys be s :
    xs <> [] -> ys <> [] -> all_exist (bc s) xs -> all_exist (bc s) ys ->
    exists rs s', run fresh (add_sum_two_numbers xs ys be) s = Ok (rs, s') /\
      ext (bc s) (bc s') /\ inputs (bc s') = inputs (bc s) /\ outputs (bc s') = outputs (bc s) /\
      length rs = S (Nat.max (length xs) (length ys)) /\
      forall asg xv yv, bvals (bc s) asg xs xv -> bvals (bc s) asg ys yv ->
        exists rv, bvals (bc s') asg rs rv /\ decode be rv = decode be xv + decode be yv.
  Proof.
    intros Hx Hy Ax Ay. destruct (add_sum_two_numbers_works xs ys be s Hx Hy Ax Ay) as (rs & s' & E).
    exists rs, s'. split; [exact E|eapply add_sum_two_numbers_final; exact E].
  Qed.

  Theorem add_sum_two_numbers_with_shift_works sh xs ys be s :
    all_exist (bc s) xs -> all_exist (bc s) ys ->
    ((sh < length xs)%nat -> ys <> []) -> ((length xs < sh)%nat -> xs <> []) ->
    exists rs s', run fresh (add_sum_two_numbers_with_shift sh xs ys be) s = Ok (rs, s').
  Proof.
    intros Ax Ay H1 H2.
    destruct (add_sum_two_numbers_with_shift_ok fresh Hf sh xs ys be s Ax Ay H1 H2) as (r & s' & E & _). eauto.
  Qed.

  Theorem add_sum_two_numbers_with_shift_total_exact sh xs ys be s :
    all_exist (bc s) xs -> all_exist (bc s) ys ->
    ((sh < length xs)%nat -> ys <> []) -> ((length xs < sh)%nat -> xs <> []) ->
    exists rs s', run fresh (add_sum_two_numbers_with_shift sh xs ys be) s = Ok (rs, s') /\
      ext (bc s) (bc s') /\ inputs (bc s') = inputs (bc s) /\ outputs (bc s') = outputs (bc s) /\
      forall asg xv yv, bvals (bc s) asg xs xv -> bvals (bc s) asg ys yv ->
        exists rv, bvals (bc s') asg rs rv /\ decode be rv = decode be xv + decode be yv * 2 ^ Z.of_nat sh.
  Proof.
    intros Ax Ay H1 H2. destruct (add_sum_two_numbers_with_shift_works sh xs ys be s Ax Ay H1 H2) as (rs & s' & E).
    exists rs, s'. split; [exact E|eapply add_sum_two_numbers_with_shift_final; exact E].
  Qed.

  (* ---- the generate_* wrappers ---- *)
  Theorem generate_sum_n_bits_works k0 ins basis b be :
    NoDup ins -> resolve_basis basis = Ok b -> exists c, generate_sum_n_bits fresh k0 ins basis be = Ok c.
  Proof. apply generate_sum_n_bits_ok, Hf. Qed.

  Theorem generate_sum_n_bits_total_exact k0 ins basis b be :
    NoDup ins -> resolve_basis basis = Ok b ->
    exists c, generate_sum_n_bits fresh k0 ins basis be = Ok c /\
      inputs c = ins /\ only_basis (t_of b) c /\
      (exists g, length (gates c) = (length ins + g)%nat /\ nbits_bound b g (length (outputs c)) (length ins)) /\
      forall asg bs, assigns asg ins bs ->
        exists rv, bvals c asg (outputs c) rv /\ decode be rv = ones bs.
  Proof.
    intros Nd Hb. destruct (generate_sum_n_bits_works k0 ins basis b be Nd Hb) as (c & E).
    exists c. split; [exact E|].
    destruct (generate_sum_n_bits_correct _ _ _ _ _ _ E) as (b' & Hb' & H). rewrite Hb in Hb'. injection Hb' as <-. exact H.
  Qed.

  Theorem generate_sum_weighted_bits_efficient_works k0 ins weights basis b :
    NoDup ins -> ins <> [] -> length weights = length ins -> resolve_basis basis = Ok b ->
    exists c, generate_sum_weighted_bits_efficient fresh k0 ins weights basis = Ok c.
  Proof. apply generate_sum_weighted_bits_efficient_ok, Hf. Qed.

  Theorem generate_sum_weighted_bits_efficient_total_exact k0 ins weights basis b :
    NoDup ins -> ins <> [] -> length weights = length ins -> resolve_basis basis = Ok b ->
    exists c, generate_sum_weighted_bits_efficient fresh k0 ins weights basis = Ok c /\
      inputs c = ins /\ only_basis (t_of b) c /\
      (exists g, length (gates c) = (length ins + g)%nat /\
                 match b with
                 | AIG => (g + 3 * length (outputs c) <= 7 * length ins)%nat
                 | XAIG => (g + 2 * length (outputs c) <= 5 * length ins)%nat
                 end) /\
      exists res, outputs c = map snd res /\ incr res /\
        forall asg bs, assigns asg ins bs ->
          exists rv, bvals c asg (outputs c) rv /\ wvalue (map fst res) rv = wvalue weights bs.
  Proof.
    intros Nd Hne L Hb. destruct (generate_sum_weighted_bits_efficient_works k0 ins weights basis b Nd Hne L Hb) as (c & E).
    exists c. split; [exact E|].
    destruct (generate_sum_weighted_bits_efficient_correct _ _ _ _ _ _ E L) as (b' & Hb' & H).
    rewrite Hb in Hb'. injection Hb' as <-. exact H.
  Qed.

  Theorem generate_sum_weighted_bits_naive_works k0 ins weights basis b :
    NoDup ins -> ins <> [] -> length weights = length ins -> resolve_basis basis = Ok b ->
    exists c, generate_sum_weighted_bits_naive fresh k0 ins weights basis = Ok c.
  Proof. apply generate_sum_weighted_bits_naive_ok, Hf. Qed.

  Theorem generate_sum_weighted_bits_naive_total_exact k0 ins weights basis b :
    NoDup ins -> ins <> [] -> length weights = length ins -> resolve_basis basis = Ok b ->
    exists c, generate_sum_weighted_bits_naive fresh k0 ins weights basis = Ok c /\
      inputs c = ins /\ only_basis (t_of b) c /\
      (length (gates c) + 3 * length (outputs c) <= (match b with AIG => 8 | XAIG => 6 end) * length ins)%nat /\
      exists res, outputs c = map snd res /\ incr res /\
        forall asg bs, assigns asg ins bs ->
          exists rv, bvals c asg (outputs c) rv /\ wvalue (map fst res) rv = wvalue weights bs.
  Proof.
    intros Nd Hne L Hb. destruct (generate_sum_weighted_bits_naive_works k0 ins weights basis b Nd Hne L Hb) as (c & E).
    exists c. split; [exact E|].
    destruct (generate_sum_weighted_bits_naive_correct _ _ _ _ _ _ E L) as (b' & Hb' & H).
    rewrite Hb in Hb'. injection Hb' as <-. exact H.
  Qed.
End Works.

(* ---- the hypotheses are necessary / satisfiable ------------------------------------------------------- *)
(* a naming function that yields "" makes add_sum_pow2_m1 raise IndexError (out[0] is emptied by
   filter(None, .)): the hypothesis `forall k, fresh k <> ""` of add_sum_pow2_m1_works cannot be dropped *)
Definition empty_first (k : N) : label := match k with 0%N => ""%string | _ => short_label k end.

Lemma empty_first_injective : Injective empty_first.
Proof.
  intros [|p] [|q]; unfold empty_first; intros H; try reflexivity; try discriminate.
  apply short_label_injective in H. exact H.
Qed.

Lemma short_label_nonempty k : short_label k <> ""%string.
Proof. destruct k; discriminate. Qed.
