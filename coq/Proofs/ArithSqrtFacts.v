(* Digit-by-digit square root (sqrt.py). *)
Require Import Cirbo.Model.Base Cirbo.Model.Gate Cirbo.Model.Den Cirbo.Model.Circuit
  Cirbo.Model.Eval Cirbo.Model.Sem Cirbo.Model.Builder.
Require Import Cirbo.Generated.ArithTables Cirbo.Model.ArithSub Cirbo.Model.ArithSum2 Cirbo.Model.ArithSqrt.
Require Import Cirbo.Proofs.DictFacts Cirbo.Proofs.BuilderFacts Cirbo.Proofs.ArithFacts
  Cirbo.Proofs.ArithSubFacts Cirbo.Proofs.ArithSum2Facts Cirbo.Proofs.ArithDivFacts.
Open Scope Z_scope.

Lemma sel_loop_spec fresh per hi : forall alt s gs s',
  run fresh (sel_loop per alt hi) s = Ok (gs, s') ->
  outputs (bc s') = outputs (bc s) /\ length gs = length hi /\
  forall c, ext (bc s') c -> forall asg pv av hv,
    bval c asg per pv -> bvals c asg (firstn (length hi) alt) av -> bvals c asg hi hv ->
    bvals c asg gs (if pv then hv else av).
Proof.
  induction hi as [|h hi IH]; intros alt s gs s' H; cbn [sel_loop] in H.
  - apply run_ret_inv in H as (-> & ->). repeat split; auto.
    intros c _ asg pv av hv _ Ha Hh. cbn [length firstn] in Ha. inversion Ha; subst. inversion Hh; subst.
    destruct pv; constructor.
  - apply run_bind_inv in H as (s0 & s1 & Hs0 & H). apply nthP_inv in Hs0 as (Es & ->).
    destruct alt as [|s0' alt']; [discriminate|]. injection Es as ->. cbn [tl] in H.
    apply gate_tt_bind in H as (t1 & s2 & H & Hx1 & Ht1 & O1).
    apply gate_tt_bind in H as (t2 & s3 & H & Hx2 & Ht2 & O2).
    apply gate_tt_bind in H as (g & s4 & H & Hx3 & Ht3 & O3).
    apply run_bind_inv in H as (rest & s5 & Hr & H). apply run_ret_inv in H as (-> & ->).
    pose proof (run_ext _ _ _ _ _ Hr) as Hx4.
    apply IH in Hr as (O4 & L4 & V). split; [congruence|]. split; [simpl; congruence|].
    intros c Hc asg pv av hv Vp Ha Hh. cbn [length firstn] in Ha.
    inversion Ha as [|? a0v ? av' Va Ha']; subst. inversion Hh as [|? hv0 ? hv' Vh Hh']; subst.
    to_final c.
    pose proof (has_tt_val _ _ _ _ _ _ _ _ Ht1 Vp Va) as V1.
    pose proof (has_tt_val _ _ _ _ _ _ _ _ Ht2 Vh Vp) as V2.
    pose proof (has_tt_val _ _ _ _ _ _ _ _ Ht3 V1 V2) as V3.
    specialize (V c Hc asg pv av' hv' Vp Ha' Hh').
    destruct pv; (constructor; [|exact V]); destruct a0v, hv0; exact V3.
Qed.

Lemma bits_val_firstn_mod j v : (j <= length v)%nat -> bits_val (firstn j v) = bits_val v mod 2 ^ Z.of_nat j.
Proof.
  intros Hj. pose proof (bits_val_split j v) as E. rewrite firstn_length, Nat.min_l in E by lia.
  pose proof (bits_val_range (firstn j v)) as R. rewrite firstn_length, Nat.min_l in R by lia.
  symmetry. apply mod_unique_range with (q := bits_val (skipn j v)); [exact R|lia].
Qed.

Lemma bits_val_removelast v : bits_val (removelast v) = bits_val v mod 2 ^ Z.of_nat (length v - 1).
Proof.
  rewrite removelast_firstn_len. rewrite bits_val_firstn_mod by lia. do 3 f_equal. lia.
Qed.

Lemma bits_val_shift cv : bits_val (tl cv ++ [false]) = bits_val cv / 2.
Proof.
  rewrite bits_val_app. cbn [bits_val Z.b2z]. destruct cv as [|b r]; [reflexivity|].
  cbn [tl]. rewrite bits_val_cons. rewrite Z.mul_0_r, Z.add_0_r.
  apply Z.div_unique with (r := Z.b2z b); [left; destruct b; simpl; lia|lia].
Qed.

(* one stage, at the level of bit vectors *)
Lemma sqrt_stage_spec fresh ZERO UNO st x cl n s x' c' s' :
  run fresh (sqrt_stage ZERO UNO st (x, cl)) s = Ok ((x', c'), s') ->
  length x = n -> length cl = n -> (2 * st + 2 <= n)%nat ->
  outputs (bc s') = outputs (bc s) /\ length x' = n /\ length c' = n /\
  forall c, ext (bc s') c -> forall asg xv cv,
    bval c asg ZERO false -> bval c asg UNO true -> bvals c asg x xv -> bvals c asg cl cv ->
    exists x'v c'v, bvals c asg x' x'v /\ bvals c asg c' c'v /\
      let k := (2 * st)%nat in
      let w := (n - k)%nat in
      let c1v := tl cv ++ [false] in
      let Sm := (bits_val (skipn k cv) + 1) mod 2 ^ Z.of_nat w in
      let per := bits_val (skipn k xv) <? Sm in
      bits_val x'v = bits_val (firstn k xv) +
                     2 ^ Z.of_nat k * (if per then bits_val (skipn k xv)
                                       else (bits_val (skipn k xv) - Sm) mod 2 ^ Z.of_nat w) /\
      bits_val c'v = bits_val (firstn k c1v) +
                     2 ^ Z.of_nat k * (if per then bits_val (skipn k c1v)
                                       else (bits_val (skipn k c1v) + 1) mod 2 ^ Z.of_nat w).
Proof.
  intros H Lx Lc Hk. unfold sqrt_stage in H. set (k := (2 * st)%nat) in *.
  apply run_bind_inv in H as (sm0 & s1 & Hsm0 & H).
  apply run_bind_inv in H as ([sub per] & s2 & Hsub & H). cbn [fst snd] in H.
  apply run_bind_inv in H as (xhi & s3 & Hxhi & H).
  apply run_bind_inv in H as (sm1 & s4 & Hsm1 & H).
  apply run_bind_inv in H as (chi & s5 & Hchi & H).
  apply run_ret_inv in H as (E & ->). injection E as -> ->.
  pose proof (run_ext _ _ _ _ _ Hsm0) as Hx1. pose proof (run_ext _ _ _ _ _ Hsub) as Hx2.
  pose proof (run_ext _ _ _ _ _ Hxhi) as Hx3. pose proof (run_ext _ _ _ _ _ Hsm1) as Hx4.
  pose proof (run_ext _ _ _ _ _ Hchi) as Hx5.
  apply add_sum_two_numbers_correct in Hsm0 as (_ & _ & O1 & Lsm0 & Vsm0).
  apply add_subtract_with_compare_spec in Hsub as (O2 & Lsub & Vsub).
  apply sel_loop_spec in Hxhi as (O3 & Lxhi & Vxhi).
  apply add_sum_two_numbers_correct in Hsm1 as (_ & _ & O4 & Lsm1 & Vsm1).
  apply sel_loop_spec in Hchi as (O5 & Lchi & Vchi).
  set (w := (n - k)%nat) in *.
  assert (length (skipn k x) = w) as Lskx by (rewrite skipn_length; unfold w; lia).
  assert (length (skipn k cl) = w) as Lskc by (rewrite skipn_length; unfold w; lia).
  set (c1 := tl cl ++ [ZERO]) in *.
  assert (length c1 = n) as Lc1.
  { unfold c1. rewrite app_length. destruct cl; simpl in *; lia. }
  assert (length (skipn k c1) = w) as Lskc1 by (rewrite skipn_length; unfold w; lia).
  cbn [length] in Lsm0, Lsm1. rewrite Lskc in Lsm0. rewrite Lskc1 in Lsm1.
  assert (2 <= w)%nat as Hw by (unfold w, k; lia).
  rewrite Nat.max_l in Lsm0, Lsm1 by lia.
  assert (length (removelast sm0) = w) as Lrsm0 by (rewrite removelast_length', Lsm0; lia).
  assert (length (removelast sm1) = w) as Lrsm1 by (rewrite removelast_length', Lsm1; lia).
  rewrite Lskx, Lrsm0, Nat.max_id in Lsub, Vsub.
  split; [congruence|].
  split; [rewrite app_length, firstn_length, Lxhi, Lskx; unfold w; lia|].
  split; [rewrite app_length, firstn_length, Lchi, Lskc1; unfold w; lia|].
  intros c Hc asg xv cv VZ VU Hxv Hcv.
  pose proof (bvals_length _ _ _ _ Hxv) as Lxv. pose proof (bvals_length _ _ _ _ Hcv) as Lcv.
  assert (ext (bc s4) c) as Hc4 by (eapply ext_trans; [exact Hx5|exact Hc]).
  assert (ext (bc s3) c) as Hc3 by (eapply ext_trans; [exact Hx4|exact Hc4]).
  assert (ext (bc s2) c) as Hc2 by (eapply ext_trans; [exact Hx3|exact Hc3]).
  assert (ext (bc s1) c) as Hc1 by (eapply ext_trans; [exact Hx2|exact Hc2]).
  (* sm = (C_hi + 1) mod 2^w *)
  destruct (Vsm0 c Hc1 asg (skipn k cv) [true]) as (sm0v & Vs0 & Es0).
  { apply bvals_skipn, Hcv. } { constructor; [exact VU|constructor]. }
  unfold decode, rev_if in Es0. cbn [bits_val Z.b2z] in Es0.
  pose proof (Forall2_removelast _ _ _ Vs0) as Vrs0.
  pose proof (bvals_length _ _ _ _ Vs0) as Ls0v.
  assert (bits_val (removelast sm0v) = (bits_val (skipn k cv) + 1) mod 2 ^ Z.of_nat w) as Esm.
  { rewrite bits_val_removelast, Es0, <- Ls0v, Lsm0. do 3 f_equal; lia. }
  destruct (Vsub c Hc2 asg (skipn k xv) (removelast sm0v)) as (subv & perv & Vsb & Vper & Esub & Eper).
  { apply bvals_skipn, Hxv. } { exact Vrs0. }
  unfold decode, rev_if in Esub, Eper. rewrite Esm in Esub, Eper.
  specialize (Vxhi c Hc3 asg perv subv (skipn k xv) Vper).
  rewrite Lskx in Vxhi. rewrite firstn_all2 in Vxhi by lia.
  specialize (Vxhi Vsb (bvals_skipn _ _ _ _ _ Hxv)).
  (* the shifted c *)
  set (c1v := tl cv ++ [false]).
  assert (bvals c asg c1 c1v) as Hc1v.
  { unfold c1, c1v. apply Forall2_app; [|constructor; [exact VZ|constructor]].
    destruct Hcv; [constructor|assumption]. }
  destruct (Vsm1 c Hc4 asg (skipn k c1v) [true]) as (sm1v & Vs1 & Es1).
  { apply bvals_skipn, Hc1v. } { constructor; [exact VU|constructor]. }
  unfold decode, rev_if in Es1. cbn [bits_val Z.b2z] in Es1.
  pose proof (Forall2_removelast _ _ _ Vs1) as Vrs1.
  pose proof (bvals_length _ _ _ _ Vs1) as Ls1v.
  assert (bits_val (removelast sm1v) = (bits_val (skipn k c1v) + 1) mod 2 ^ Z.of_nat w) as Esm1.
  { rewrite bits_val_removelast, Es1, <- Ls1v, Lsm1. do 3 f_equal; lia. }
  specialize (Vchi c Hc asg perv (removelast sm1v) (skipn k c1v) Vper).
  rewrite Lskc1 in Vchi. rewrite firstn_all2 in Vchi by lia.
  specialize (Vchi Vrs1 (bvals_skipn _ _ _ _ _ Hc1v)).
  eexists _, _. split; [apply Forall2_app; [apply bvals_firstn, Hxv|exact Vxhi]|].
  split; [apply Forall2_app; [apply bvals_firstn, Hc1v|exact Vchi]|].
  cbv zeta. fold k w c1v.
  assert (length c1v = n) as Lc1v by (rewrite <- (bvals_length _ _ _ _ Hc1v); exact Lc1).
  rewrite !bits_val_app, !firstn_length, !Nat.min_l by lia.
  rewrite <- Eper. split; (destruct perv; [reflexivity|]); [rewrite Esub|rewrite Esm1]; reflexivity.
Qed.

(* ---- the arithmetic of one stage ---------------------------------------------------------- *)
Lemma sqrt_step_arith T W4 Xlo Xhi Clo Chi C1lo C1hi A R r :
  let W := 4 * W4 in
  1 <= T -> 1 <= W4 -> 0 <= r ->
  0 <= Xlo < T * T -> 0 <= Xhi < W -> 0 <= Clo < T * T -> 0 <= Chi < W ->
  0 <= C1lo < T * T -> 0 <= C1hi < W ->
  R = 2 * T * r ->
  Clo + T * T * Chi = R * (2 * T) ->
  C1lo + T * T * C1hi = (R * (2 * T)) / 2 ->
  Xlo + T * T * Xhi = A - R * R ->
  R * R <= A < (R + 2 * T) * (R + 2 * T) ->
  let Sm := (Chi + 1) mod W in
  let per := Xhi <? Sm in
  let X' := Xlo + T * T * (if per then Xhi else (Xhi - Sm) mod W) in
  let C' := C1lo + T * T * (if per then C1hi else (C1hi + 1) mod W) in
  exists R' r', 0 <= r' /\ R' = T * r' /\ C' = R' * T /\ X' = A - R' * R' /\
                R' * R' <= A < (R' + T) * (R' + T).
Proof.
  intros W HT HW4 Hr RXlo RXhi RClo RChi RC1lo RC1hi ER EC EC1 EX RA Sm per X' C'.
  assert (0 < T * T) as HTT by nia.
  (* C = T^2 * 4r *)
  assert (Chi = 4 * r /\ Clo = 0) as (EChi & EClo).
  { apply (Z.div_mod_unique (T * T)); [left; exact RClo|left; lia|]. rewrite ER in EC. lia. }
  assert ((R * (2 * T)) / 2 = T * T * (2 * r)) as Ehalf.
  { rewrite ER. replace (2 * T * r * (2 * T)) with ((T * T * (2 * r)) * 2) by ring.
    apply Z.div_mul. lia. }
  assert (C1hi = 2 * r /\ C1lo = 0) as (EC1hi & EC1lo).
  { apply (Z.div_mod_unique (T * T)); [left; exact RC1lo|left; lia|]. rewrite Ehalf in EC1. lia. }
  assert (Sm = 4 * r + 1) as ESm.
  { subst Sm. rewrite EChi. apply Z.mod_small. subst W. lia. }
  assert ((C1hi + 1) mod W = 2 * r + 1) as ES1.
  { rewrite EC1hi. apply Z.mod_small. subst W. lia. }
  subst X' C'. rewrite ES1, EC1lo, EC1hi. subst per. rewrite ESm.
  destruct (Xhi <? 4 * r + 1) eqn:Eper.
  - apply Z.ltb_lt in Eper. exists R, (2 * r). split; [lia|]. split; [lia|].
    split; [rewrite ER; ring|]. split; [exact EX|]. split; [lia|].
    assert (T * T * Xhi <= T * T * (4 * r)) by (apply Z.mul_le_mono_nonneg_l; lia).
    assert (A - R * R < T * T * (4 * r) + T * T) by lia.
    rewrite ER in *. nia.
  - apply Z.ltb_ge in Eper. exists (R + T), (2 * r + 1). split; [lia|]. split; [rewrite ER; ring|].
    split; [rewrite ER; ring|].
    rewrite Z.mod_small by (subst W; lia).
    assert (T * T * (4 * r + 1) <= T * T * Xhi) by (apply Z.mul_le_mono_nonneg_l; lia).
    split; [rewrite ER in *; nia|]. split; [rewrite ER in *; nia|].
    replace (R + T + T) with (R + 2 * T) by ring. lia.
Qed.

(* ---- the loop ------------------------------------------------------------------------------- *)
Lemma pow2_double n : 2 ^ Z.of_nat (2 * n) = 2 ^ Z.of_nat n * 2 ^ Z.of_nat n.
Proof. replace (2 * n)%nat with (n + n)%nat by lia. apply pow2_add. Qed.

Lemma sqrt_loop_spec fresh ZERO UNO n : forall h x cl s x' c' s',
  run fresh (sqrt_loop ZERO UNO h (x, cl)) s = Ok ((x', c'), s') ->
  length x = n -> length cl = n -> (2 * h <= n)%nat ->
  outputs (bc s') = outputs (bc s) /\ length c' = n /\
  forall c, ext (bc s') c -> forall asg xv cv,
    bval c asg ZERO false -> bval c asg UNO true -> bvals c asg x xv -> bvals c asg cl cv ->
    forall A R r, 0 <= r -> R = 2 ^ Z.of_nat h * r -> bits_val cv = R * 2 ^ Z.of_nat h ->
      bits_val xv = A - R * R -> R * R <= A < (R + 2 ^ Z.of_nat h) * (R + 2 ^ Z.of_nat h) ->
      exists c'v, bvals c asg c' c'v /\ 0 <= bits_val c'v /\
        bits_val c'v * bits_val c'v <= A < (bits_val c'v + 1) * (bits_val c'v + 1).
Proof.
  induction h as [|st IH]; intros x cl s x' c' s' H Lx Lc Hh; cbn [sqrt_loop] in H.
  - apply run_ret_inv in H as (E & ->). injection E as -> ->. repeat split; auto.
    intros c _ asg xv cv _ _ _ Hcv A R r Hr ER EC EX RA.
    change (Z.of_nat 0) with 0 in *. rewrite Z.pow_0_r in *.
    exists cv. split; [exact Hcv|]. rewrite EC, Z.mul_1_r. split; [lia|exact RA].
  - apply run_bind_inv in H as ([x1 c1] & s1 & Hst & H).
    pose proof (run_ext _ _ _ _ _ H) as Hx2.
    apply sqrt_stage_spec with (n := n) in Hst as (O1 & Lx1 & Lc1 & V1); [|assumption|assumption|lia].
    apply IH in H as (O2 & Lc' & V2); [|assumption|assumption|lia].
    split; [congruence|]. split; [exact Lc'|].
    intros c Hc asg xv cv VZ VU Hxv Hcv A R r Hr ER EC EX RA.
    assert (ext (bc s1) c) as Hc1 by (eapply ext_trans; eassumption).
    destruct (V1 c Hc1 asg xv cv VZ VU Hxv Hcv) as (x1v & c1v & Vx1 & Vc1 & EX1 & EC1).
    cbv zeta in EX1, EC1.
    pose proof (bvals_length _ _ _ _ Hxv) as Lxv. pose proof (bvals_length _ _ _ _ Hcv) as Lcv.
    set (k := (2 * st)%nat) in *. set (w := (n - k)%nat) in *.
    set (T := 2 ^ Z.of_nat st) in *.
    assert (1 <= T) as HT by (pose proof (pow2_pos st); unfold T; lia).
    assert (2 ^ Z.of_nat k = T * T) as Ek by (unfold k, T; apply pow2_double).
    assert (2 ^ Z.of_nat w = 4 * 2 ^ Z.of_nat (w - 2)) as Ew.
    { replace w with (2 + (w - 2))%nat at 1 by (unfold w, k; lia). rewrite pow2_add. reflexivity. }
    rewrite pow2_succ in ER, EC, RA. fold T in ER, EC, RA.
    set (c1s := tl cv ++ [false]) in *.
    assert (length c1s = n) as Lc1s.
    { unfold c1s. rewrite app_length. destruct cv; simpl in *; lia. }
    pose proof (bits_val_split k xv) as SX. pose proof (bits_val_split k cv) as SC.
    pose proof (bits_val_split k c1s) as SC1.
    rewrite firstn_length, Nat.min_l in SX, SC, SC1 by (unfold k; lia).
    pose proof (bits_val_range (firstn k xv)) as RXlo. pose proof (bits_val_range (skipn k xv)) as RXhi.
    pose proof (bits_val_range (firstn k cv)) as RClo. pose proof (bits_val_range (skipn k cv)) as RChi.
    pose proof (bits_val_range (firstn k c1s)) as RC1lo. pose proof (bits_val_range (skipn k c1s)) as RC1hi.
    rewrite firstn_length, Nat.min_l in RXlo, RClo, RC1lo by (unfold k; lia).
    rewrite skipn_length in RXhi, RChi, RC1hi.
    replace (length xv - k)%nat with w in RXhi by (unfold w; lia).
    replace (length cv - k)%nat with w in RChi by (unfold w; lia).
    replace (length c1s - k)%nat with w in RC1hi by (unfold w; lia).
    rewrite Ek in *. rewrite Ew in *.
    destruct (sqrt_step_arith T (2 ^ Z.of_nat (w - 2))
                (bits_val (firstn k xv)) (bits_val (skipn k xv))
                (bits_val (firstn k cv)) (bits_val (skipn k cv))
                (bits_val (firstn k c1s)) (bits_val (skipn k c1s)) A R r)
      as (R' & r' & Hr' & ER' & EC' & EX' & RA');
      try assumption; try lia.
    { rewrite <- SC1. unfold c1s. rewrite bits_val_shift, EC. reflexivity. }
    rewrite <- EX1 in EX'. rewrite <- EC1 in EC'.
    apply (V2 c Hc asg x1v c1v VZ VU Vx1 Vc1 A R' r' Hr'); fold T; assumption.
Qed.

(* ---- add_sqrt --------------------------------------------------------------------------------- *)
Lemma half_facts n0 :
  let half := if Nat.odd n0 then S (n0 / 2) else (n0 / 2)%nat in
  let n := if Nat.odd n0 then S n0 else n0 in
  n = (2 * half)%nat /\ half = ((n0 + 1) / 2)%nat.
Proof.
  cbv zeta. pose proof (Nat.div_mod n0 2 ltac:(lia)) as Edm.
  assert (n0 mod 2 = if Nat.odd n0 then 1 else 0)%nat as Em.
  { rewrite <- Nat.bit0_mod, Nat.bit0_odd. destruct (Nat.odd n0); reflexivity. }
  destruct (Nat.odd n0).
  - split; [lia|]. replace (n0 + 1)%nat with ((n0 / 2 + 1) * 2)%nat by lia.
    rewrite Nat.div_mul by lia. lia.
  - split; [lia|]. replace (n0 + 1)%nat with (1 + (n0 / 2) * 2)%nat by lia.
    rewrite Nat.div_add by lia. simpl. lia.
Qed.

Theorem add_sqrt_correct fresh xs be s rs s' :
  run fresh (add_sqrt xs be) s = Ok (rs, s') ->
  ext (bc s) (bc s') /\ inputs (bc s') = inputs (bc s) /\ outputs (bc s') = outputs (bc s) /\
  length rs = ((length xs + 1) / 2)%nat /\
  forall asg xv, bvals (bc s) asg xs xv ->
    exists rv, bvals (bc s') asg rs rv /\ decode be rv = Z.sqrt (decode be xv).
Proof.
  intros H. pose proof (run_ext _ _ _ _ _ H) as Hx. unfold add_sqrt in H.
  apply run_bind_inv in H as (x0 & s0 & Hx0 & H). apply nthP_inv in Hx0 as (Ex0 & ->).
  apply gate_tt_bind in H as (ZERO & s1 & H & Hx1 & HtZ & O1).
  apply gate_tt_bind in H as (UNO & s2 & H & Hx2 & HtU & O2).
  apply run_bind_inv in H as ([x' c'] & s3 & Hloop & H). apply run_ret_inv in H as (-> & ->).
  cbn [snd].
  pose proof (run_ext _ _ _ _ _ Hloop) as Hx3.
  set (n0 := length xs) in *.
  destruct (half_facts n0) as (En & Ehalf).
  set (half := if Nat.odd n0 then S (n0 / 2) else (n0 / 2)%nat) in *.
  set (n := if Nat.odd n0 then S n0 else n0) in *.
  set (x := if Nat.odd n0 then rev_if be xs ++ [ZERO] else rev_if be xs) in *.
  assert (length x = n) as Lx.
  { unfold x, n. destruct (Nat.odd n0); [rewrite app_length|]; rewrite rev_if_length; simpl; fold n0; lia. }
  apply sqrt_loop_spec with (n := n) in Hloop as (O3 & Lc' & V);
    [|exact Lx|apply repeat_length|lia].
  split; [exact Hx|]. split; [apply ext_inputs, Hx|]. split; [congruence|].
  split; [rewrite rev_if_length, firstn_length, Lc', <- Ehalf; lia|].
  intros asg xv Hxv. apply (bvals_ext _ _ _ _ _ Hx) in Hxv.
  set (c := bc s3) in *.
  apply (bvals_rev_if _ _ be) in Hxv.
  destruct (Forall2_nth_error _ _ _ _ _ Hxv Ex0) as (x0v & _ & Vx0).
  assert (ext (bc s2) c) as Hc2 by exact Hx3.
  assert (ext (bc s1) c) as Hc1 by (eapply ext_trans; eassumption).
  apply (has_tt_ext _ _ _ _ _ _ Hc1) in HtZ. apply (has_tt_ext _ _ _ _ _ _ Hc2) in HtU.
  pose proof (has_tt_val _ _ _ _ _ _ _ _ HtZ Vx0 Vx0) as VZ.
  pose proof (has_tt_val _ _ _ _ _ _ _ _ HtU Vx0 Vx0) as VU.
  replace (tt_fun tt_xor x0v x0v) with false in VZ by (destruct x0v; reflexivity).
  replace (tt_fun tt_nxor x0v x0v) with true in VU by (destruct x0v; reflexivity).
  set (xvv := if Nat.odd n0 then rev_if be xv ++ [false] else rev_if be xv).
  assert (bvals c asg x xvv) as Hxvv.
  { unfold x, xvv. destruct (Nat.odd n0); [apply Forall2_app; [exact Hxv|constructor; [exact VZ|constructor]]|exact Hxv]. }
  assert (bits_val xvv = decode be xv) as EA.
  { unfold xvv, decode. destruct (Nat.odd n0); [|reflexivity].
    rewrite bits_val_app. cbn [bits_val Z.b2z]. lia. }
  pose proof (bits_val_range xvv) as RA. rewrite <- (bvals_length _ _ _ _ Hxvv), Lx, En, pow2_double in RA.
  destruct (V c (ext_refl _) asg xvv (repeat false n) VZ VU Hxvv (bvals_repeat _ _ _ _ n VZ)
              (bits_val xvv) 0 0) as (c'v & Vc' & Hnn & Hsq).
  { lia. } { lia. } { rewrite bits_val_repeat_false. lia. } { lia. } { lia. }
  exists (rev_if be (firstn half c'v)). split; [apply bvals_rev_if, bvals_firstn, Vc'|].
  rewrite decode_rev_if, <- EA.
  set (Rt := bits_val c'v) in *. set (P := 2 ^ Z.of_nat half) in *.
  assert (0 < P) as HP by apply pow2_pos.
  assert (Rt < P) as HRt by nia.
  rewrite bits_val_firstn_mod by (rewrite <- (bvals_length _ _ _ _ Vc'), Lc'; lia).
  fold Rt P. rewrite Z.mod_small by lia.
  symmetry. apply Z.sqrt_unique. unfold Z.succ. lia.
Qed.
