(* Generated/ArithGen07.v (translator T18) equals the hand model, part F: add_sum_two_numbers (Model/ArithSum2.v)
   and add_sum_two_numbers_with_shift (Model/ArithSumN.v). *)
Require Import Cirbo.Model.Base Cirbo.Model.Gate Cirbo.Model.Circuit Cirbo.Model.Builder Cirbo.Model.PyPrims.
Require Import Cirbo.Generated.ArithTables Cirbo.Generated.ArithCells Cirbo.Generated.ArithGen09 Cirbo.Generated.ArithGen07.
Require Import Cirbo.Model.ArithSub Cirbo.Model.ArithSum2 Cirbo.Model.ArithSumN Cirbo.Model.ArithSumW Cirbo.Model.PyPrimsSum.
Require Import Cirbo.Proofs.ArithGen09Lib Cirbo.Proofs.ArithGen09A Cirbo.Proofs.ArithGen09B.
Require Import Cirbo.Proofs.ArithGen07Lib Cirbo.Proofs.ArithGen07A Cirbo.Proofs.ArithGen07B.
From Coq Require Import ZArith Lia Ascii.
Open Scope Z_scope.

(* symbolic execution of a program in tail position *)
Ltac tailx :=
  norm;
  lazymatch goal with
  | |- run ?f ?p ?s = _ =>
    lazymatch p with
    | Bind _ _ => idtac
    | _ => rewrite (run_ret_r f p s)
    end
  end.
Ltac sxx := repeat (tailx; sx).

(* ---- add_sum_n_bits (XAIG) on two and on three labels: the two shapes Model/ArithSum2.v is written with ---- *)
Lemma gen_add_sum_n_bits_2 p q :
  peq (gen_add_sum_n_bits [p; q] (BEnum XAIG) false) (bdo sc <- sum_bits2 p q; Ret [fst sc; snd sc]).
Proof.
  intros fr s. unfold gen_add_sum_n_bits, gen__add_sum_n_bits, sum_bits2, tt_xor, tt_gt.
  sxx.
Qed.

Lemma gen_add_sum_n_bits_3 p q r :
  peq (gen_add_sum_n_bits [p; q; r] (BEnum XAIG) false) (bdo sc <- sum_bits3 p q r; Ret [fst sc; snd sc]).
Proof.
  intros fr s. unfold gen_add_sum_n_bits, gen__add_sum_n_bits, sum_bits3, tt_xor.
  sxx.
Qed.

(* ---- the ripple of add_sum_two_numbers with all carries kept --------------------------------------- *)
Definition sum_cell (cy ai : label) (ob : option label) : prog (label * label) :=
  match ob with Some bi => sum_bits3 cy ai bi | None => sum_bits2 cy ai end.

Fixpoint sum_cells (a b : list label) (cy : label) : prog (list (list label)) :=
  match a with
  | [] => Ret []
  | ai :: a' =>
    bdo sc <- sum_cell cy ai (hd_error b);
    bdo rs <- sum_cells a' (tl b) (snd sc);
    Ret ([fst sc; snd sc] :: rs)
  end.

Definition col0 (c : list label) : label := nth 0 c ""%string.
Definition carry_of (cs : list (list label)) (cy : label) : label := nth 1 (last cs [""%string; cy]) ""%string.

Lemma carry_of_cons x y cs cy : carry_of ([x; y] :: cs) cy = carry_of cs y.
Proof.
  unfold carry_of. rewrite last_cons_default. destruct cs as [|c cs]; [reflexivity|].
  rewrite !last_cons_default. reflexivity.
Qed.

Lemma sum_cells_spec a : forall b cy,
  peq (sum_loop a b cy) (bdo cs <- sum_cells a b cy; Ret (map col0 cs ++ [carry_of cs cy])).
Proof.
  induction a as [|ai a IH]; intros b cy fr s; cbn [sum_loop sum_cells]; [reflexivity|].
  norm. replace (match b with bi :: _ => sum_bits3 cy ai bi | [] => sum_bits2 cy ai end)
    with (sum_cell cy ai (hd_error b)) by (destruct b; reflexivity).
  peel. rewrite (run_peq fr _ _ _ _ (IH _ _)). norm. peel. norm.
  rewrite carry_of_cons. reflexivity.
Qed.

Lemma sum_fold_gen (f : list (list label) -> Z -> prog (list (list label))) (a b : list label) n :
  length a = n ->
  (forall d i, (1 <= i < n)%nat -> length d = S n -> length (nth (i - 1) d []) = 2%nat ->
     peq (f d (Z.of_nat i))
         (bdo sc <- sum_cell (nth 1 (nth (i - 1) d []) ""%string) (nth i a ""%string) (nth_error b i);
          Ret (upd d i [fst sc; snd sc]))) ->
  forall k i d, (i + k = n)%nat -> (1 <= i)%nat -> length d = S n -> length (nth (i - 1) d []) = 2%nat ->
  peq (foldP f (map Z.of_nat (seq i k)) d)
      (bdo cs <- sum_cells (skipn i a) (skipn i b) (nth 1 (nth (i - 1) d []) ""%string);
       Ret (firstn i d ++ cs ++ skipn n d)).
Proof.
  intros Ha Hf. induction k as [|k IH]; intros i d Hi H1 Hd H2 fr s.
  - rewrite (skipn_all2 (n:=i) a) by lia. cbn [seq map foldP sum_cells]. norm.
    replace i with n by lia. cbn [app]. rewrite firstn_skipn. reflexivity.
  - rewrite (skipn_nth a i ""%string) by lia.
    cbn [seq map foldP sum_cells]. rewrite (run_peq fr _ _ _ _ (Hf d i ltac:(lia) Hd H2)). norm.
    rewrite hd_error_skipn, tl_skipn. peel. destruct a0 as [u v]. cbn [fst snd].
    norm. rewrite (IH (S i) (upd d i [u; v])); [|lia|lia|rewrite upd_length; exact Hd
      |replace (S i - 1)%nat with i by lia; rewrite nth_upd_same by lia; reflexivity].
    replace (S i - 1)%nat with i by lia. rewrite nth_upd_same by lia. cbn [nth].
    peel. norm. rewrite firstn_S_upd by lia. rewrite skipn_upd_lt by lia.
    rewrite <- app_assoc. reflexivity.
Qed.

(* [d[i][0] for i in range(len(d))] *)
Lemma mapP_col0 (F : Z -> prog label) (d : list (list label)) :
  (forall i, (i < length d)%nat -> peq (F (Z.of_nat i)) (bdo t <- py_nth (nth i d []) 0; Ret t)) ->
  Forall (fun c => c <> []) d ->
  forall k i, (i + k = length d)%nat ->
  peq (mapP F (map Z.of_nat (seq i k))) (Ret (map col0 (skipn i d))).
Proof.
  intros HF Hne. induction k as [|k IH]; intros i Hi fr s.
  - cbn [seq map mapP]. rewrite skipn_all2 by lia. reflexivity.
  - cbn [seq map mapP]. rewrite (run_peq fr _ _ _ _ (HF i ltac:(lia))). norm.
    rewrite (skipn_nth d i []) by lia.
    assert (Hc : nth i d [] <> []).
    { rewrite Forall_forall in Hne. apply Hne. apply nth_In. lia. }
    destruct (nth i d []) as [|x c]; [congruence|].
    change (py_nth (x :: c) 0) with (@Ret label x). norm.
    rewrite (run_peq fr _ _ _ _ (IH (S i) ltac:(lia))). norm. reflexivity.
Qed.

Lemma sum_cells_shape a : forall b cy,
  returns (sum_cells a b cy) (fun cs => length cs = length a /\ Forall (fun c => length c = 2%nat) cs).
Proof.
  induction a as [|ai a IH]; intros b cy fr s cs s'; cbn [sum_cells]; rs.
  - intros H; inversion H; subst. split; [reflexivity|constructor].
  - destruct (run fr (sum_cell cy ai (hd_error b)) s) as [[sc s1]|e]; rs; [|discriminate].
    destruct (run fr (sum_cells a (tl b) (snd sc)) s1) as [[r s2]|e] eqn:E; rs; [|discriminate].
    intros H; inversion H; subst. apply IH in E. destruct E as [E1 E2]. cbn [length].
    split; [lia|constructor; [reflexivity|exact E2]].
Qed.

Lemma nth1_last (cs : list (list label)) x x' y :
  nth 1 (last cs [x; y]) ""%string = nth 1 (last cs [x'; y]) ""%string.
Proof. destruct cs as [|c cs]; [reflexivity|]. rewrite !last_cons_default. reflexivity. Qed.

Lemma nth_last_app {A} (l : list A) x d : nth (length l) (l ++ [x]) d = x.
Proof. rewrite app_nth2 by lia. rewrite Nat.sub_diag. reflexivity. Qed.

Lemma upd_last_app {A} (l : list A) x y : upd (l ++ [x]) (length l) y = l ++ [y].
Proof. induction l as [|z l IH]; [reflexivity|]. cbn [app length upd]. rewrite IH. reflexivity. Qed.

Lemma last_Forall {A} (P : A -> Prop) l : forall d, Forall P l -> P d -> P (last l d).
Proof.
  induction l as [|x l IH]; intros d HF Hd; [exact Hd|]. inversion HF; subst.
  rewrite last_cons_default. apply IH; assumption.
Qed.

Theorem gen_add_sum_two_numbers_eq a0 b0 be :
  peq (gen_add_sum_two_numbers a0 b0 be) (add_sum_two_numbers a0 b0 be).
Proof.
  intros fr s. unfold gen_add_sum_two_numbers, add_sum_two_numbers. cbv zeta.
  rewrite run_bind, run_if_rev2. cbv beta iota.
  replace (py_len a0) with (py_len (rev_if be a0)) by (unfold py_len; rewrite rev_if_length; reflexivity).
  replace (py_len b0) with (py_len (rev_if be b0)) by (unfold py_len; rewrite rev_if_length; reflexivity).
  generalize (rev_if be a0) (rev_if be b0). clear a0 b0. intros a0 b0.
  unfold py_len at 1 2. rewrite Z_ltb_nat.
  match goal with |- run _ (Bind _ ?K) _ = _ => set (KK := K) end.
  assert (Core : forall a b : list label,
    run fr (KK (py_len a, py_len b, a, b)) s
    = run fr (bdo a1 <- nthP a 0; bdo b1 <- nthP b 0; bdo sc <- sum_bits2 a1 b1;
              bdo rs <- sum_loop (tl a) (tl b) (snd sc); Ret (rev_if be (fst sc :: rs))) s).
  { intros a b. unfold KK. cbv beta iota. clear KK. rewrite !py_nth_0.
    destruct a as [|x0 a']; [reflexivity|]. destruct b as [|y0 b']; [reflexivity|].
    cbn [nthP nth_res nth_error ret_res tl]. norm.
    rewrite (run_peq fr _ _ _ _ (gen_add_sum_n_bits_2 x0 y0)). norm. peel. destruct a as [u v]. cbn [fst snd].
    set (A := x0 :: a'). set (Bl := y0 :: b'). set (n := length A).
    assert (Hn : n = S (length a')) by reflexivity.
    replace (py_len A + 1) with (Z.of_nat (S n)) by (unfold py_len; fold n; lia).
    replace (py_len A - 1) with (Z.of_nat n - 1) by reflexivity.
    replace (py_len A) with (Z.of_nat n) by reflexivity.
    rewrite py_range_0_nat. cbn [seq map].
    change (py_set ([PLACEHOLDER_STR] :: ?l) 0 ?x) with (@Ret (list (list label)) (x :: l)).
    norm. rewrite py_range_1_nat.
    set (d := [u; v] :: map (fun _ : Z => [PLACEHOLDER_STR]) (map Z.of_nat (seq 1 n))).
    assert (Ld : length d = S n) by (unfold d; cbn [length]; rewrite !map_length, seq_length; reflexivity).
    match goal with |- run _ (Bind (foldP ?f _ _) _) _ = _ =>
      assert (Hbody : forall (d : list (list label)) i, (1 <= i < n)%nat -> length d = S n ->
                length (nth (i - 1) d []) = 2%nat ->
                peq (f d (Z.of_nat i))
                    (bdo sc <- sum_cell (nth 1 (nth (i - 1) d []) ""%string) (nth i A ""%string) (nth_error Bl i);
                     Ret (upd d i [fst sc; snd sc]))) end.
    { intros d0 i Hi Hd0 H2 fr' s0. cbv beta iota.
      rewrite py_nth_pred_nat by lia. rewrite (nthP_ok d0 (i - 1) []) by lia. norm.
      destruct (nth (i - 1) d0 []) as [|c0 [|c1 [|c2 cr]]]; try discriminate H2.
      change (py_nth [c0; c1] 1) with (@Ret label c1). norm.
      rewrite (py_nth_ok_label A i) by (fold n; lia). norm.
      rewrite Z_of_nat_ltb_len. cbn [nth].
      destruct (Nat.ltb_spec i (length Bl)) as [Hlt|Hge].
      - rewrite (nth_error_nth_lt _ _ Hlt). cbn [sum_cell]. norm.
        rewrite (py_nth_ok_label Bl i) by lia. norm. cbn [app].
        rewrite (run_peq fr' _ _ _ _ (gen_add_sum_n_bits_3 _ _ _)). norm. peel. norm.
        rewrite py_set_nat by lia. norm. reflexivity.
      - assert (E : nth_error Bl i = None) by (apply nth_error_None; lia). rewrite E. cbn [sum_cell]. norm.
        rewrite (run_peq fr' _ _ _ _ (gen_add_sum_n_bits_2 _ _)). norm. peel. norm.
        rewrite py_set_nat by lia. norm. reflexivity. }
    rewrite (run_peq fr _ _ _ _ (sum_fold_gen _ A Bl n eq_refl Hbody (n - 1) 1 d ltac:(lia) ltac:(lia) Ld eq_refl)).
    clear Hbody. norm. unfold A, Bl. cbn [skipn Nat.sub]. change (nth 1 (nth 0 d []) ""%string) with v.
    rewrite (run_peq fr _ _ _ _ (sum_cells_spec a' b' v)). norm.
    match goal with |- run _ (Bind ?p _) _ = _ =>
      destruct (run fr p s') as [[cs s2]|e] eqn:E; [|rewrite !run_bind, E; reflexivity] end.
    rewrite !run_bind, E. cbv beta iota.
    apply sum_cells_shape in E. destruct E as [Lc Fc].
    assert (Ed : firstn 1 d ++ cs ++ skipn n d = ([u; v] :: cs) ++ [[PLACEHOLDER_STR]]).
    { unfold d. cbn [firstn app]. f_equal. f_equal. rewrite Hn. cbn [skipn seq map].
      rewrite map_map. generalize 2%nat. clear. induction (length a') as [|k IH]; intros j; [reflexivity|].
      cbn [seq map skipn]. apply IH. }
    rewrite Ed. set (D := [u; v] :: cs).
    assert (LD : length D = n) by (unfold D; cbn [length]; lia).
    norm. rewrite py_nth_pred_nat by lia.
    rewrite (nthP_ok (D ++ [[PLACEHOLDER_STR]]) (n - 1) []) by (rewrite app_length; cbn [length]; lia).
    norm. rewrite app_nth1 by lia.
    assert (EL : nth (n - 1) D [] = last cs [u; v]).
    { unfold D. rewrite <- LD. unfold D. cbn [length]. replace (S (length cs) - 1)%nat with (length cs) by lia.
      apply nth_length_cons. }
    rewrite EL.
    assert (L2 : length (last cs [u; v]) = 2%nat).
    { apply (last_Forall (fun c : list label => length c = 2%nat)); [exact Fc|reflexivity]. }
    destruct (last cs [u; v]) as [|l0 [|l1 [|l2 lr]]] eqn:EQ; try discriminate L2.
    change (py_nth [l0; l1] 1) with (@Ret label l1). norm.
    replace (Z.of_nat n) with (Z.of_nat (length D)) by (rewrite LD; reflexivity).
    rewrite py_set_nat by (rewrite app_length; cbn [length]; lia). norm.
    rewrite upd_last_app.
    change (Z.of_nat 0 :: map Z.of_nat (seq 1 n)) with (map Z.of_nat (seq 0 (S n))).
    assert (LD1 : length (D ++ [[l1]]) = S n) by (rewrite app_length; cbn [length]; lia).
    match goal with |- run _ (Bind (mapP ?F _) _) _ = _ =>
      assert (HF : forall i, (i < length (D ++ [[l1]]))%nat ->
                peq (F (Z.of_nat i)) (bdo t <- py_nth (nth i (D ++ [[l1]]) []) 0; Ret t)) end.
    { intros i Hi fr' s0. cbv beta. rewrite py_nth_nat, (nthP_ok _ i []) by exact Hi. norm. reflexivity. }
    assert (Hne : Forall (fun c : list label => c <> []) (D ++ [[l1]])).
    { apply Forall_app. split; [|repeat constructor; discriminate].
      unfold D. constructor; [discriminate|]. eapply Forall_impl; [|exact Fc].
      intros c Hc Hn0. subst c. discriminate Hc. }
    rewrite (run_peq fr _ _ _ _ (mapP_col0 _ (D ++ [[l1]]) HF Hne (S n) 0 ltac:(lia))).
    norm. rewrite run_bind, gen_reverse_if_big_endian_run. cbv beta iota. norm.
    cbn [skipn]. unfold D. rewrite map_app. cbn [map app]. unfold col0 at 1 3. cbn [nth].
    replace (carry_of cs v) with l1; [reflexivity|].
    unfold carry_of. transitivity (nth 1 (last cs [u; v]) ""%string); [rewrite EQ; reflexivity|apply nth1_last]. }
  destruct (length a0 <? length b0)%nat; rewrite run_ret_l; apply Core.
Qed.
