(* "Every gate a generator adds carries a label handed out by the uuid counter."

   [fo p]: the program p creates gates only through gate_new (a Fresh [] immediately followed by
   the AddGate of that very label); it never calls AddGate with a label of its own choosing.
   For such programs every gate of the final circuit is a gate of the start circuit or is named
   [fresh j] for some j ([fo_labels]); hence a label that is no gate at the start and is not in
   the range of the naming function is no gate at the end ([fo_absent]).  This is what turns
   the side conditions  has_gate (bc s') "" = false  /  has_gate (bc s') PLACEHOLDER_STR = false
   of C07 / C08 (stated on the FINAL circuit) into conditions on the start circuit and on the
   naming function.

   All summation / multiplication / squaring generators are [fo]; the proofs are syntactic. *)
Require Import Cirbo.Model.Base Cirbo.Model.Gate Cirbo.Model.Circuit Cirbo.Model.Builder.
Require Import Cirbo.Generated.ArithTables Cirbo.Generated.ArithCells.
Require Import Cirbo.Model.ArithSub Cirbo.Model.ArithSum2 Cirbo.Model.ArithSumN Cirbo.Model.ArithSumW
  Cirbo.Model.ArithGen Cirbo.Model.ArithMul Cirbo.Model.ArithSquare.
Require Import Cirbo.Proofs.DictFacts Cirbo.Proofs.BuilderFacts.

Inductive fo : forall {A : Type}, prog A -> Prop :=
| fo_ret {A} (a : A) : fo (Ret a)
| fo_fail {A} e : fo (@Fail A e)
| fo_fresh r : fo (Fresh r)
| fo_mark l : fo (MarkOutput l)
| fo_bind {A B} (p : prog A) (k : A -> prog B) : fo p -> (forall a, fo (k a)) -> fo (Bind p k)
| fo_new t ops : fo (gate_new t ops).

Lemma fresh_loop_range fresh c restr : forall fuel k l k',
  fresh_loop fresh c restr fuel k = Ok (l, k') -> exists j, l = fresh j.
Proof.
  induction fuel as [|f IH]; intros k l k' H; cbn [fresh_loop] in H; [discriminate|].
  destruct (has_gate c (fresh k) || memb (fresh k) restr); [eapply IH; exact H|].
  injection H as <- _. eauto.
Qed.

Lemma has_gate_same_gates c c' l : gates c' = gates c -> has_gate c' l = has_gate c l.
Proof. unfold has_gate. intros ->. reflexivity. Qed.

Lemma has_gate_snoc c c' l0 g l :
  gates c' = gates c ++ [(l0, g)] -> has_gate c' l = true -> has_gate c l = true \/ l = l0.
Proof.
  unfold has_gate. intros -> H. apply dmem_keys in H. unfold dkeys in H. rewrite map_app, in_app_iff in H.
  destruct H as [H|[H|[]]]; [left; apply dmem_keys; exact H|right; simpl in H; congruence].
Qed.

Theorem fo_labels fresh {A} (p : prog A) : fo p -> forall s r s',
  run fresh p s = Ok (r, s') ->
  forall l, has_gate (bc s') l = true -> has_gate (bc s) l = true \/ exists j, l = fresh j.
Proof.
  induction 1 as [A a|A e|restr|l0|A B p k Hp IHp Hk IHk|t ops]; intros s r s' H l Hl.
  - apply run_ret_inv in H as (_ & ->). left; exact Hl.
  - discriminate.
  - apply run_fresh_inv in H as (E & _). rewrite E in Hl. left; exact Hl.
  - apply run_markoutput_inv in H as (H & _). apply mark_as_output_inv in H as (_ & G & _).
    rewrite (has_gate_same_gates _ _ _ G) in Hl. left; exact Hl.
  - apply run_bind_inv in H as (a & s1 & H1 & H2).
    destruct (IHk a _ _ _ H2 l Hl) as [Hl1|Hj]; [|right; exact Hj].
    exact (IHp _ _ _ H1 l Hl1).
  - unfold gate_new in H. apply run_bind_inv in H as (l0 & s1 & H1 & H).
    apply run_bind_inv in H as ([] & s2 & H2 & H). apply run_ret_inv in H as (_ & ->).
    assert (exists j, l0 = fresh j) as Hj.
    { cbn [run] in H1.
      destruct (fresh_loop fresh (bc s) [] (fresh_fuel (bc s) []) (bk s)) as [[l1 k1]|] eqn:E; [|discriminate].
      cbn [bind fst snd] in H1. injection H1 as <- _. eapply fresh_loop_range; exact E. }
    apply run_fresh_inv in H1 as (E1 & _).
    apply run_addgate_inv in H2 as (Ht & H2 & _). apply emplace_gate_inv in H2 as (_ & _ & G & _); [|exact Ht].
    destruct (has_gate_snoc _ _ _ _ _ G Hl) as [Hl1| ->]; [left; rewrite <- E1; exact Hl1|right; exact Hj].
Qed.

Corollary fo_absent fresh {A} (p : prog A) X s r s' :
  fo p -> run fresh p s = Ok (r, s') -> (forall j, fresh j <> X) -> has_gate (bc s) X = false ->
  has_gate (bc s') X = false.
Proof.
  intros Hp H HX H0. destruct (has_gate (bc s') X) eqn:E; [|reflexivity].
  destruct (fo_labels fresh p Hp _ _ _ H X E) as [H1|(j & Hj)]; [congruence|].
  exfalso. apply (HX j). congruence.
Qed.

(* ---- the syntactic proofs ------------------------------------------------------------------------- *)
Create HintDb fo discriminated.
#[export] Hint Constructors fo : fo.

Lemma fo_gate_tt t x y : fo (gate_tt t x y).
Proof. apply fo_new. Qed.
#[export] Hint Resolve fo_gate_tt : fo.

Ltac fo_step :=
  match goal with
  | |- fo (Ret _) => apply fo_ret
  | |- fo (Fail _) => apply fo_fail
  | |- fo (gate_tt _ _ _) => apply fo_new
  | |- fo (gate_new _ _) => apply fo_new
  | |- fo (Bind _ _) => apply fo_bind; [|intro]
  | |- fo (match ?x with _ => _ end) => destruct x
  end.
Ltac fo_tac := repeat (first [fo_step | solve [auto with fo]]).

Lemma fo_ret_res {A} (r : res A) : fo (ret_res r).
Proof. destruct r; constructor. Qed.
#[export] Hint Resolve fo_ret_res : fo.
Lemma fo_nthP {A} (l : list A) i : fo (nthP l i).
Proof. unfold nthP. apply fo_ret_res. Qed.
Lemma fo_lastP {A} (l : list A) : fo (lastP l).
Proof. unfold lastP. fo_tac. Qed.
Lemma fo_unpack2 {A} (l : list A) : fo (unpack2 l).
Proof. unfold unpack2. fo_tac. Qed.
Lemma fo_unpack3 {A} (l : list A) : fo (unpack3 l).
Proof. unfold unpack3. fo_tac. Qed.
#[export] Hint Resolve fo_nthP fo_lastP fo_unpack2 fo_unpack3 : fo.

Lemma fo_mapP {A B} (f : A -> prog B) l : (forall x, fo (f x)) -> fo (mapP f l).
Proof. intros Hf. induction l as [|x l IH]; cbn [mapP]; fo_tac. Qed.
Lemma fo_foldP {A S} (f : S -> A -> prog S) l : (forall s x, fo (f s x)) -> forall s, fo (foldP f l s).
Proof. intros Hf. induction l as [|x l IH]; intros s; cbn [foldP]; fo_tac. Qed.

(* cells *)
Lemma fo_add_sum2 l : fo (add_sum2 l). Proof. unfold add_sum2. fo_tac. Qed.
Lemma fo_add_sum3 l : fo (add_sum3 l). Proof. unfold add_sum3. fo_tac. Qed.
Lemma fo_add_sum2_aig l : fo (add_sum2_aig l). Proof. unfold add_sum2_aig. fo_tac. Qed.
Lemma fo_add_sum3_aig l : fo (add_sum3_aig l). Proof. unfold add_sum3_aig. fo_tac. Qed.
Lemma fo_add_stockmeyer_block l : fo (add_stockmeyer_block l). Proof. unfold add_stockmeyer_block. fo_tac. Qed.
Lemma fo_add_mdfa l : fo (add_mdfa l). Proof. unfold add_mdfa. fo_tac. Qed.
Lemma fo_add_simplified_mdfa l : fo (add_simplified_mdfa l). Proof. unfold add_simplified_mdfa. fo_tac. Qed.
Lemma fo_add_sub2 l be : fo (add_sub2 l be). Proof. unfold add_sub2. fo_tac. Qed.
Lemma fo_add_sub3 l be : fo (add_sub3 l be). Proof. unfold add_sub3. fo_tac. Qed.
#[export] Hint Resolve fo_add_sum2 fo_add_sum3 fo_add_sum2_aig fo_add_sum3_aig fo_add_stockmeyer_block
  fo_add_mdfa fo_add_simplified_mdfa fo_add_sub2 fo_add_sub3 : fo.

(* two-number adder / subtractor *)
Lemma fo_sum_bits2 p q : fo (sum_bits2 p q). Proof. unfold sum_bits2. fo_tac. Qed.
Lemma fo_sum_bits3 p q r : fo (sum_bits3 p q r). Proof. unfold sum_bits3. fo_tac. Qed.
#[export] Hint Resolve fo_sum_bits2 fo_sum_bits3 : fo.
Lemma fo_sum_loop a : forall b cy, fo (sum_loop a b cy).
Proof. induction a as [|ai a IH]; intros b cy; cbn [sum_loop]; fo_tac. Qed.
#[export] Hint Resolve fo_sum_loop : fo.
Lemma fo_add_sum_two_numbers a b be : fo (add_sum_two_numbers a b be).
Proof. unfold add_sum_two_numbers. fo_tac. Qed.
#[export] Hint Resolve fo_add_sum_two_numbers : fo.
Lemma fo_sub_loop a : forall b bal, fo (sub_loop a b bal).
Proof. induction a as [|ai a IH]; intros b bal; cbn [sub_loop]; fo_tac. Qed.
#[export] Hint Resolve fo_sub_loop : fo.
Lemma fo_sub_ripple a b : fo (sub_ripple a b).
Proof. unfold sub_ripple. fo_tac. Qed.
#[export] Hint Resolve fo_sub_ripple : fo.
Lemma fo_add_sub_two_numbers a b be : fo (add_sub_two_numbers a b be).
Proof. unfold add_sub_two_numbers. fo_tac. Qed.
#[export] Hint Resolve fo_add_sub_two_numbers : fo.
Lemma fo_with_shift sh a b be : fo (add_sum_two_numbers_with_shift sh a b be).
Proof. unfold add_sum_two_numbers_with_shift. fo_tac. Qed.
#[export] Hint Resolve fo_with_shift : fo.

(* the bit-count schedulers *)
Lemma list_step2 {A} (P : list A -> Prop) :
  P [] -> (forall a, P [a]) -> (forall a b l, P l -> P (a :: b :: l)) -> forall l, P l.
Proof.
  intros H0 H1 H2. assert (forall l, P l /\ forall a, P (a :: l)) as H; [|intros l; apply H].
  induction l as [|x l (IH1 & IH2)]; split; auto.
Qed.
Lemma list_step3 {A} (P : list A -> Prop) :
  P [] -> (forall a, P [a]) -> (forall a b, P [a; b]) -> (forall a b c l, P l -> P (a :: b :: c :: l)) -> forall l, P l.
Proof.
  intros H0 H1 H2 H3. assert (forall l, P l /\ (forall a, P (a :: l)) /\ forall a b, P (a :: b :: l)) as H; [|intros l; apply H].
  induction l as [|x l (IH1 & IH2 & IH3)]; repeat split; auto.
Qed.

Lemma fo_pair_up : forall solo xxy, fo (pair_up solo xxy).
Proof.
  induction solo as [|a|a b rest IH] using list_step2; intros xxy; cbn [pair_up]; fo_tac.
Qed.
#[export] Hint Resolve fo_pair_up : fo.
Lemma fo_solo_loop c3 c2 : (forall l, fo (c3 l)) -> (forall l, fo (c2 l)) ->
  forall rest top next, fo (solo_loop c3 c2 top rest next).
Proof.
  intros H3 H2. induction rest as [|b|b c rest IH] using list_step2; intros top next; cbn [solo_loop]; fo_tac.
Qed.
Lemma fo_level_loop c3 c2 : (forall l, fo (c3 l)) -> (forall l, fo (c2 l)) ->
  forall fuel now, fo (level_loop fuel c3 c2 now).
Proof.
  intros H3 H2. induction fuel as [|f IH]; intros [|top rest]; cbn [level_loop]; fo_tac; apply fo_solo_loop; assumption.
Qed.
Lemma fo_mdfa_loop : forall xxy solo nx, fo (mdfa_loop xxy solo nx).
Proof.
  induction xxy as [|[x1 xy1]|[x1 xy1] [x2 xy2] rest IH] using list_step2; intros solo nx; cbn [mdfa_loop]; fo_tac.
Qed.
#[export] Hint Resolve fo_mdfa_loop : fo.
Lemma fo_last_pair xxy solo : fo (last_pair xxy solo).
Proof. unfold last_pair. fo_tac. Qed.
#[export] Hint Resolve fo_last_pair : fo.
Lemma fo_xaig_level solo xxy : fo (xaig_level solo xxy).
Proof. unfold xaig_level. fo_tac. apply fo_solo_loop; auto with fo. Qed.
#[export] Hint Resolve fo_xaig_level : fo.
Lemma fo_xaig_loop : forall fuel solo xxy, fo (xaig_loop fuel solo xxy).
Proof. induction fuel as [|f IH]; intros [|? ?] [|? ?]; cbn [xaig_loop]; fo_tac. Qed.
#[export] Hint Resolve fo_xaig_loop : fo.
Lemma fo_add_sum_n_bits basis be l : fo (add_sum_n_bits basis be l).
Proof.
  unfold add_sum_n_bits, add_sum_n_bits_resolved, add_sum_n_bits_xaig, add_sum_n_bits_aig. fo_tac.
  apply fo_level_loop; auto with fo.
Qed.
#[export] Hint Resolve fo_add_sum_n_bits : fo.
Lemma fo_block_loop basis i : forall fuel labels out, fo (block_loop fuel basis i labels out).
Proof. induction fuel as [|f IH]; intros labels out; cbn [block_loop]; fo_tac. Qed.
#[export] Hint Resolve fo_block_loop : fo.
Lemma fo_blocks_outer basis : forall fuel labels out, fo (blocks_outer fuel basis labels out).
Proof.
  induction fuel as [|f IH]; intros labels out; cbn [blocks_outer]; fo_tac.
  apply fo_foldP. intros; apply fo_block_loop.
Qed.
#[export] Hint Resolve fo_blocks_outer : fo.
Lemma fo_add_sum_pow2_m1 basis be l : fo (add_sum_pow2_m1 basis be l).
Proof. unfold add_sum_pow2_m1. fo_tac. Qed.
#[export] Hint Resolve fo_add_sum_pow2_m1 : fo.

(* the weighted sum *)
Lemma fo_solo_level c3 c2 lev now rest : (forall l, fo (c3 l)) -> (forall l, fo (c2 l)) ->
  fo (solo_level c3 c2 lev now rest).
Proof. intros H3 H2. unfold solo_level. fo_tac. apply fo_solo_loop; assumption. Qed.
Lemma fo_eff_loop inf b : forall fuel single pairs, fo (eff_loop fuel inf b single pairs).
Proof.
  induction fuel as [|f IH]; intros [|? ?] [|? ?]; cbn [eff_loop]; fo_tac; apply fo_solo_level; auto with fo.
Qed.
#[export] Hint Resolve fo_eff_loop : fo.
Lemma fo_add_sum_n_weighted_bits basis inp : fo (add_sum_n_weighted_bits basis inp).
Proof. unfold add_sum_n_weighted_bits. fo_tac. Qed.
#[export] Hint Resolve fo_add_sum_n_weighted_bits : fo.

(* ---- multipliers ------------------------------------------------------------------------------------ *)
Lemma fo_pp_row a bi : fo (pp_row a bi).
Proof. unfold pp_row. apply fo_mapP. auto with fo. Qed.
Lemma fo_pp_matrix a b : fo (pp_matrix a b).
Proof. unfold pp_matrix. apply fo_mapP. intros; apply fo_pp_row. Qed.
#[export] Hint Resolve fo_pp_row fo_pp_matrix : fo.

Lemma fo_add_mul a b be : fo (add_mul a b be).
Proof. unfold add_mul. fo_tac. Qed.

Lemma fo_alter_loop rows : forall i res, fo (alter_loop i res rows).
Proof. induction rows as [|ci rows IH]; intros i res; cbn [alter_loop]; fo_tac. Qed.
#[export] Hint Resolve fo_alter_loop : fo.
Lemma fo_add_mul_alter a b be : fo (add_mul_alter a b be).
Proof. unfold add_mul_alter. fo_tac. Qed.

Lemma fo_reduce_col di hn : forall fuel cur nxt, fo (reduce_col fuel di hn cur nxt).
Proof. induction fuel as [|f IH]; intros cur nxt; cbn [reduce_col]; fo_tac. Qed.
#[export] Hint Resolve fo_reduce_col : fo.
Lemma fo_dadda_cols di rest : forall cur, fo (dadda_cols di cur rest).
Proof. induction rest as [|nx rest IH]; intros cur; cbn [dadda_cols]; fo_tac. Qed.
#[export] Hint Resolve fo_dadda_cols : fo.
Lemma fo_dadda_pass di cols : fo (dadda_pass di cols).
Proof. unfold dadda_pass. fo_tac. Qed.
#[export] Hint Resolve fo_dadda_pass : fo.
Lemma fo_dadda_main : forall fuel di cols, fo (dadda_main fuel di cols).
Proof. induction fuel as [|f IH]; intros di cols; cbn [dadda_main]; fo_tac. Qed.
#[export] Hint Resolve fo_dadda_main : fo.
Lemma fo_first_of col : fo (first_of col).
Proof. unfold first_of. fo_tac. Qed.
#[export] Hint Resolve fo_first_of : fo.
Lemma fo_add_mul_dadda a b be : fo (add_mul_dadda a b be).
Proof. unfold add_mul_dadda. fo_tac; apply fo_mapP; auto with fo. Qed.

Lemma fo_wallace_group ra : forall rb rc, fo (wallace_group ra rb rc).
Proof. induction ra as [|x ra IH]; intros [|y rb] [|z rc]; cbn [wallace_group]; fo_tac. Qed.
#[export] Hint Resolve fo_wallace_group : fo.
Lemma fo_wallace_round : forall rows, fo (wallace_round rows).
Proof. induction rows as [|ra|ra rb|ra rb rc rest IH] using list_step3; cbn [wallace_round]; fo_tac. Qed.
#[export] Hint Resolve fo_wallace_round : fo.
Lemma fo_wallace_loop : forall fuel rows, fo (wallace_loop fuel rows).
Proof. induction fuel as [|f IH]; intros rows; cbn [wallace_loop]; fo_tac. Qed.
#[export] Hint Resolve fo_wallace_loop : fo.
Lemma fo_wallace_final a r0 r1 : fo (wallace_final a r0 r1).
Proof. unfold wallace_final. fo_tac. Qed.
Lemma fo_cell_at rows r col : fo (cell_at rows r col).
Proof. unfold cell_at. fo_tac. Qed.
#[export] Hint Resolve fo_wallace_final fo_cell_at : fo.
Lemma fo_add_mul_wallace a b be : fo (add_mul_wallace a b be).
Proof. unfold add_mul_wallace. fo_tac; apply fo_mapP; auto with fo. Qed.

Lemma fo_pow2_level inp : fo (pow2_level inp).
Proof. unfold pow2_level. fo_tac. Qed.
Lemma fo_first_first o : fo (first_first o).
Proof. unfold first_first. fo_tac. Qed.
#[export] Hint Resolve fo_pow2_level fo_first_first : fo.
Lemma fo_pow2_levels : forall k act pend out, fo (pow2_levels k act pend out).
Proof. induction k as [|k IH]; intros act pend out; cbn [pow2_levels]; fo_tac. Qed.
#[export] Hint Resolve fo_pow2_levels : fo.
Lemma fo_add_mul_pow2_m1 a b be : fo (add_mul_pow2_m1 a b be).
Proof. unfold add_mul_pow2_m1. fo_tac; apply fo_mapP; auto with fo. Qed.
Lemma fo_last_step a b be : fo (last_step_sum_with_new_powers_sum a b be).
Proof. unfold last_step_sum_with_new_powers_sum. fo_tac; apply fo_mapP; intros; fo_tac. Qed.
#[export] Hint Resolve fo_add_mul fo_add_mul_alter fo_add_mul_dadda fo_add_mul_wallace fo_add_mul_pow2_m1
  fo_last_step : fo.

Lemma fo_kara_pad a : forall k, fo (kara_pad k a).
Proof. induction k as [|k IH]; cbn [kara_pad]; fo_tac. Qed.
#[export] Hint Resolve fo_kara_pad : fo.
Lemma fo_kara base : (forall x y, fo (base x y)) -> forall fuel a b be, fo (kara base fuel a b be).
Proof.
  intros Hb. induction fuel as [|f IH]; intros a b be; cbn [kara]; fo_tac.
Qed.
Lemma fo_add_mul_karatsuba a b be : fo (add_mul_karatsuba a b be).
Proof. unfold add_mul_karatsuba. apply fo_kara. auto with fo. Qed.
Lemma fo_add_mul_karatsuba_eff a b be : fo (add_mul_karatsuba_with_efficient_sum a b be).
Proof. unfold add_mul_karatsuba_with_efficient_sum. apply fo_kara. auto with fo. Qed.
#[export] Hint Resolve fo_add_mul_karatsuba fo_add_mul_karatsuba_eff : fo.
Lemma fo_process_mul t a b be : fo (process_mul t a b be).
Proof. destruct t; cbn [process_mul]; auto with fo. Qed.

(* ---- squarers ----------------------------------------------------------------------------------------- *)
Lemma fo_sq_rows : forall xs, fo (sq_rows xs).
Proof. induction xs as [|xi rest IH]; cbn [sq_rows]; fo_tac. apply fo_mapP. auto with fo. Qed.
#[export] Hint Resolve fo_sq_rows : fo.
Lemma fo_sq_levels : forall k even act pend diag d, fo (sq_levels k even act pend diag d).
Proof. induction k as [|k IH]; intros even act pend diag d; cbn [sq_levels]; fo_tac. Qed.
#[export] Hint Resolve fo_sq_levels : fo.
Lemma fo_add_square_pow2_m1 xs be : fo (add_square_pow2_m1 xs be).
Proof. unfold add_square_pow2_m1. fo_tac. apply fo_mapP; auto with fo. Qed.
#[export] Hint Resolve fo_add_square_pow2_m1 : fo.
Lemma fo_square_rec : forall fuel xs be, fo (square_rec fuel xs be).
Proof. induction fuel as [|f IH]; intros xs be; cbn [square_rec]; fo_tac. Qed.
Lemma fo_add_square xs be : fo (add_square xs be).
Proof. unfold add_square. apply fo_square_rec. Qed.
#[export] Hint Resolve fo_add_square : fo.
Lemma fo_process_square t xs be : fo (process_square t xs be).
Proof. destruct t; cbn [process_square]; auto with fo. Qed.
