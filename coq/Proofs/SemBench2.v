(* C14, part 2: one conversion step preserves the semantics of every existing gate under a
   total assignment; lift over the snapshot loop; gate types of the result; helper gates and
   blocks. *)
Require Import Cirbo.Model.Base Cirbo.Model.Gate Cirbo.Model.Den Cirbo.Model.Circuit Cirbo.Model.Traverse
        Cirbo.Model.Connect Cirbo.Model.Eval Cirbo.Model.Sem Cirbo.Model.WF.
Require Import Cirbo.Generated.Operators Cirbo.Generated.GateTypes.
Require Import Cirbo.Proofs.DictFacts Cirbo.Proofs.WFBase Cirbo.Proofs.WFSimple Cirbo.Proofs.WFEmplace
        Cirbo.Proofs.WFBench Cirbo.Proofs.OpFacts Cirbo.Proofs.SemFacts Cirbo.Proofs.SemExt
        Cirbo.Proofs.SemBench.

Lemma Forall2_defined c a ops vs : total_on c a -> Forall2 (Eval c a) ops vs -> Forall (fun v => v <> U) vs.
Proof.
  intros Ht H; induction H as [|o v ops vs Hov _ IH]; constructor; [eapply Eval_total; eassumption|exact IH].
Qed.

(* ------------------------------------------------------------------ *)
(* one step, semantics *)
Lemma conv_shape_forward cur l g c2 a :
  WF cur -> dget (gates cur) l = Some g -> conv_shape cur l g c2 -> total_on cur a ->
  forall x v, Eval cur a x v -> Eval c2 a x v.
Proof.
  intros W Hg S Ht.
  destruct S as [Hb ->|t nl on ops' Hlab Hnl Hon Hgates Hi Ho Hbl Hrule|t kept Hgates Hi Ho Hbl Hrule];
    [auto| |].
  - (* a helper gate nl = NOT [on] was created *)
    assert (Hne : nl <> l) by (intros ->; apply get_has_gate in Hg; congruence).
    assert (Hget : forall y, dget (gates c2) y =
                             if leqb y l then Some (mkGate t ops')
                             else if leqb y nl then Some (mkGate NOT [on]) else dget (gates cur) y).
    { intros y; rewrite Hgates, !dget_dset; reflexivity. }
    assert (Hty : gtyp g <> INPUT).
    { destruct Hrule as [(o0 & o1 & rest & _ & Hc)|(rest & _ & _ & Hc)]; intros E; rewrite E in Hc;
        repeat match goal with H : _ \/ _ |- _ => destruct H end;
        repeat match goal with H : _ /\ _ |- _ => destruct H end; discriminate. }
    assert (Hkeep : forall y gy, y <> l -> dget (gates cur) y = Some gy -> dget (gates c2) y = Some gy).
    { intros y gy Hy Hgy. rewrite Hget. apply leqb_neq in Hy; rewrite Hy.
      destruct (leqb_spec y nl) as [->|_]; [apply get_has_gate in Hgy; congruence|exact Hgy]. }
    apply Eval_redefine.
    + intros y gy Hy Hty'. apply Hkeep; [|exact Hy]. intros ->. congruence.
    + intros y gy vs v Hy Hty' Hvs0 Hvs Hop.
      destruct (leqb_spec y l) as [->|Hyl];
        [|eapply EvalGate; [apply Hkeep; eassumption|assumption|exact Hvs|exact Hop]].
      assert (gy = g) by congruence; subst gy.
      pose proof (Forall2_defined _ _ _ _ Ht Hvs0) as Hdef.
      assert (Hnl_eval : forall w, Eval c2 a on w -> Eval c2 a nl (opnot_ w)).
      { intros w Hw. eapply (EvalGate c2 a nl (mkGate NOT [on]) [w]);
          [rewrite Hget; apply leqb_neq in Hne; rewrite Hne, leqb_refl; reflexivity|discriminate
          |constructor; [exact Hw|constructor]|reflexivity]. }
      assert (Hl : dget (gates c2) l = Some (mkGate t ops')) by (rewrite Hget, leqb_refl; reflexivity).
      destruct Hrule as [(o0 & o1 & rest & Eops & Hc)|(rest & Eins & Eops' & Hc)].
      * rewrite Eops in Hvs.
        destruct Hc as [(Ety & -> & -> & ->)|[(Ety & -> & -> & ->)|[(Ety & -> & -> & ->)|(Ety & -> & -> & ->)]]];
          rewrite Ety in Hop; simpl in Hop; destruct vs as [|va [|vb [|? ?]]]; try discriminate;
          injection Hop as <-;
          inversion Hvs as [|? ? ? ? Ha Hr]; subst; inversion Hr as [|? ? ? ? Hb' Hr']; subst;
          inversion Hdef as [|? ? Da Dr]; subst; inversion Dr as [|? ? Db _]; subst.
        -- eapply (EvalGate c2 a l _ [opnot_ va; vb]); [exact Hl|discriminate| |].
           ++ constructor; [apply Hnl_eval, Ha|constructor; [exact Hb'|constructor]].
           ++ simpl. f_equal; symmetry; apply op_rule_lt; assumption.
        -- eapply (EvalGate c2 a l _ [opnot_ va; vb]); [exact Hl|discriminate| |].
           ++ constructor; [apply Hnl_eval, Ha|constructor; [exact Hb'|constructor]].
           ++ simpl. f_equal; symmetry; apply op_rule_leq; assumption.
        -- eapply (EvalGate c2 a l _ [va; opnot_ vb]); [exact Hl|discriminate| |].
           ++ constructor; [exact Ha|constructor; [apply Hnl_eval, Hb'|constructor]].
           ++ simpl. f_equal; symmetry; apply op_rule_gt; assumption.
        -- eapply (EvalGate c2 a l _ [va; opnot_ vb]); [exact Hl|discriminate| |].
           ++ constructor; [exact Ha|constructor; [apply Hnl_eval, Hb'|constructor]].
           ++ simpl. f_equal; symmetry; apply op_rule_geq; assumption.
      * (* constants: on is the first INPUT gate *)
        assert (In on (inputs cur)) as Hin by (rewrite Eins; left; reflexivity).
        apply (wf_inputs cur W) in Hin. destruct Hin as (gi & Hgi & Hti).
        assert (Eval c2 a on (aval a on)) as Hon_eval.
        { eapply EvalInput; [|exact Hti]. apply Hkeep; [|exact Hgi]. intros ->. congruence. }
        pose proof (Ht on gi Hgi Hti) as Don. subst ops'.
        destruct Hc as [(Ety & ->)|(Ety & ->)]; rewrite Ety in Hop; simpl in Hop; injection Hop as <-.
        -- eapply (EvalGate c2 a l _ [aval a on; opnot_ (aval a on)]); [exact Hl|discriminate| |].
           ++ constructor; [exact Hon_eval|constructor; [apply Hnl_eval, Hon_eval|constructor]].
           ++ simpl. f_equal; symmetry. change (opalways_true_ vs) with T. apply op_rule_true, Don.
        -- eapply (EvalGate c2 a l _ [aval a on; opnot_ (aval a on)]); [exact Hl|discriminate| |].
           ++ constructor; [exact Hon_eval|constructor; [apply Hnl_eval, Hon_eval|constructor]].
           ++ simpl. f_equal; symmetry. change (opalways_false_ vs) with F. apply op_rule_false, Don.
  - (* projections: exact for all three values *)
    assert (Hget : forall y, dget (gates c2) y =
                             if leqb y l then Some (mkGate t [kept]) else dget (gates cur) y).
    { intros y; rewrite Hgates, dget_dset; reflexivity. }
    destruct Hrule as (o0 & o1 & rest & Eops & Hc).
    assert (Hty : gtyp g <> INPUT).
    { intros E; rewrite E in Hc. repeat match goal with H : _ \/ _ |- _ => destruct H end;
        repeat match goal with H : _ /\ _ |- _ => destruct H end; discriminate. }
    assert (Hkeep : forall y gy, y <> l -> dget (gates cur) y = Some gy -> dget (gates c2) y = Some gy).
    { intros y gy Hy Hgy. rewrite Hget. apply leqb_neq in Hy; rewrite Hy. exact Hgy. }
    apply Eval_redefine.
    + intros y gy Hy Hty'. apply Hkeep; [|exact Hy]. intros ->. congruence.
    + intros y gy vs v Hy Hty' Hvs0 Hvs Hop.
      destruct (leqb_spec y l) as [->|Hyl];
        [|eapply EvalGate; [apply Hkeep; eassumption|assumption|exact Hvs|exact Hop]].
      assert (gy = g) by congruence; subst gy.
      assert (Hl : dget (gates c2) l = Some (mkGate t [kept])) by (rewrite Hget, leqb_refl; reflexivity).
      rewrite Eops in Hvs.
      destruct Hc as [(Ety & -> & ->)|[(Ety & -> & ->)|[(Ety & -> & ->)|(Ety & -> & ->)]]];
        rewrite Ety in Hop; simpl in Hop; destruct vs as [|va [|vb [|? ?]]]; try discriminate;
        injection Hop as <-;
        inversion Hvs as [|? ? ? ? Ha Hr]; subst; inversion Hr as [|? ? ? ? Hb' Hr']; subst.
      * eapply (EvalGate c2 a l _ [va]); [exact Hl|discriminate|constructor; [exact Ha|constructor]|reflexivity].
      * eapply (EvalGate c2 a l _ [vb]); [exact Hl|discriminate|constructor; [exact Hb'|constructor]|reflexivity].
      * eapply (EvalGate c2 a l _ [va]); [exact Hl|discriminate|constructor; [exact Ha|constructor]|reflexivity].
      * eapply (EvalGate c2 a l _ [vb]); [exact Hl|discriminate|constructor; [exact Hb'|constructor]|reflexivity].
Qed.

Lemma conv_shape_io cur l g c2 : conv_shape cur l g c2 -> inputs c2 = inputs cur /\ outputs c2 = outputs cur.
Proof. intros [Hb ->|? ? ? ? ? ? ? ? Hi Ho ? ?|? ? ? Hi Ho ? ?]; auto. Qed.

Lemma total_on_inputs c c2 a : WF c -> WF c2 -> inputs c2 = inputs c -> total_on c a -> total_on c2 a.
Proof.
  intros W W2 Hi Ht x g Hg Hty. assert (In x (inputs c2)) as Hin by (apply (wf_inputs c2 W2); eauto).
  rewrite Hi in Hin. apply (wf_inputs c W) in Hin. destruct Hin as (g0 & Hg0 & Ht0). eapply Ht; eassumption.
Qed.

(* ------------------------------------------------------------------ *)
(* the three loop invariants, relative to the original circuit c *)
Section Loop.
  Variable c : circuit.
  Hypothesis W : WF c.

  (* interface and semantics *)
  Definition Qsem (a : assignment) (rest : list (label * gate)) (cur : circuit) : Prop :=
    inputs cur = inputs c /\ outputs cur = outputs c /\ forall x v, Eval c a x v -> Eval cur a x v.

  Lemma Qsem_step a : total_on c a -> forall l g rest cur f c2,
      WF cur -> inputs_nullary cur -> dget (gates cur) l = Some g -> WF c2 -> inputs_nullary c2 ->
      ~ In l (map fst rest) ->
      Qsem a ((l, g) :: rest) cur -> convert_gate cur l g f = Ok c2 -> Qsem a rest c2.
  Proof.
    intros Ht l g rest cur f c2 Wc _ Hg _ _ _ (Hi & Ho & Hsim) Hcv.
    apply convert_gate_shape in Hcv. destruct (conv_shape_io _ _ _ _ Hcv) as [Hi2 Ho2].
    split; [congruence|]. split; [congruence|]. intros x v Hx.
    eapply conv_shape_forward; try eassumption; [|apply Hsim, Hx].
    eapply (total_on_inputs c cur); eassumption.
  Qed.

  (* gate types *)
  Definition Qty (rest : list (label * gate)) (cur : circuit) : Prop :=
    forall x gx, dget (gates cur) x = Some gx -> bench_type (gtyp gx) = true \/ In (x, gx) rest.

  Lemma helper_rule_bench ty ops ins t nl on ops' : helper_rule ty ops ins t nl on ops' -> bench_type t = true.
  Proof.
    intros [(o0 & o1 & rest & _ & Hc)|(rest & _ & _ & Hc)];
      repeat match goal with H : _ \/ _ |- _ => destruct H end;
      repeat match goal with H : _ /\ _ |- _ => destruct H end; subst; reflexivity.
  Qed.

  Lemma proj_rule_bench ty ops t kept : proj_rule ty ops t kept -> bench_type t = true.
  Proof.
    intros (o0 & o1 & rest & _ & Hc);
      repeat match goal with H : _ \/ _ |- _ => destruct H end;
      repeat match goal with H : _ /\ _ |- _ => destruct H end; subst; reflexivity.
  Qed.

  Lemma Qty_step : forall l g rest cur f c2,
      WF cur -> inputs_nullary cur -> dget (gates cur) l = Some g -> WF c2 -> inputs_nullary c2 ->
      ~ In l (map fst rest) ->
      Qty ((l, g) :: rest) cur -> convert_gate cur l g f = Ok c2 -> Qty rest c2.
  Proof.
    intros l g rest cur f c2 _ _ Hg _ _ _ HQ Hcv. apply convert_gate_shape in Hcv.
    destruct Hcv as [Hb ->|t nl on ops' Hlab Hnl Hon Hgates Hi Ho Hbl Hrule|t kept Hgates Hi Ho Hbl Hrule];
      intros x gx Hx.
    - destruct (HQ x gx Hx) as [Hy|[E|Hin]]; auto. injection E as <- <-. auto.
    - rewrite Hgates, !dget_dset in Hx. destruct (leqb_spec x l) as [->|Hxl].
      + injection Hx as <-. left; simpl. eapply helper_rule_bench; eassumption.
      + destruct (leqb x nl); [injection Hx as <-; left; reflexivity|].
        destruct (HQ x gx Hx) as [Hy|[E|Hin]]; auto. injection E as <- <-. congruence.
    - rewrite Hgates, dget_dset in Hx. destruct (leqb_spec x l) as [->|Hxl].
      + injection Hx as <-. left; simpl. eapply proj_rule_bench; eassumption.
      + destruct (HQ x gx Hx) as [Hy|[E|Hin]]; auto. injection E as <- <-. congruence.
  Qed.

  (* helper gates and blocks *)
  Definition Qblk (rest : list (label * gate)) (cur : circuit) : Prop :=
    (forall l g, In (l, g) rest -> has_gate c l = true) /\
    (forall x, has_gate c x = true -> has_gate cur x = true) /\
    dkeys (blocks cur) = dkeys (blocks c) /\
    (forall b, match dget (blocks c) b with
               | None => dget (blocks cur) b = None
               | Some b0 => exists extra,
                   dget (blocks cur) b = Some (mkBlock (binputs b0) (bgates b0 ++ extra) (boutputs b0)) /\
                   forall x, In x extra -> has_gate c x = false /\ has_gate cur x = true
               end) /\
    (forall x, has_gate cur x = true -> has_gate c x = false ->
       exists l, has_gate c l = true /\ is_helper_label l x /\
         ~ In l (map fst rest) /\ In x (ops_of cur l) /\
         forall b b0, dget (blocks c) b = Some b0 -> In l (bgates b0) ->
                      exists bc, dget (blocks cur) b = Some bc /\ In x (bgates bc)).

  Lemma helper_rule_In ty ops ins t nl on ops' : helper_rule ty ops ins t nl on ops' -> In nl ops'.
  Proof.
    intros [(o0 & o1 & rest & _ & Hc)|(rest & _ & -> & _)]; [|simpl; auto].
    repeat match goal with H : _ \/ _ |- _ => destruct H end;
      repeat match goal with H : _ /\ _ |- _ => destruct H end; subst; simpl; auto.
  Qed.

  Lemma anb_dget cur l nl b :
    dget (blocks (add_new_gate_to_blocks cur l nl)) b =
    option_map (fun blk => if memb l (bgates blk)
                           then mkBlock (binputs blk) (bgates blk ++ [nl]) (boutputs blk) else blk)
               (dget (blocks cur) b).
  Proof.
    unfold add_new_gate_to_blocks; simpl. induction (blocks cur) as [|[k b0] bs IH]; simpl; [reflexivity|].
    destruct (memb l (bgates b0)) eqn:E; simpl; destruct (leqb b k); simpl; rewrite ?E; auto.
  Qed.

  Lemma Qblk_step : forall l g rest cur f c2,
      WF cur -> inputs_nullary cur -> dget (gates cur) l = Some g -> WF c2 -> inputs_nullary c2 ->
      ~ In l (map fst rest) ->
      Qblk ((l, g) :: rest) cur -> convert_gate cur l g f = Ok c2 -> Qblk rest c2.
  Proof.
    intros l g rest cur f c2 _ _ Hg _ _ Hnotin (Hrest & Hmono & Hkeys & Hblk & Hhelp) Hcv.
    apply convert_gate_shape in Hcv.
    assert (Hweak : forall l0, ~ In l0 (map fst ((l, g) :: rest)) -> l0 <> l /\ ~ In l0 (map fst rest)).
    { simpl; intros l0 Hn; split; [intros ->; apply Hn; auto|intros Hin; apply Hn; auto]. }
    assert (Hrest' : forall l' g', In (l', g') rest -> has_gate c l' = true).
    { intros l' g' Hin; eapply Hrest; right; eassumption. }
    assert (Hlc : has_gate c l = true) by (eapply Hrest; left; reflexivity).
    destruct Hcv as [Hb ->|t nl on ops' Hlab Hnl Hon Hgates Hi Ho Hbl Hrule|t kept Hgates Hi Ho Hbl Hrule].
    - split; [exact Hrest'|]. split; [exact Hmono|]. split; [exact Hkeys|]. split; [exact Hblk|].
      intros x Hx Hxc. destruct (Hhelp x Hx Hxc) as (l0 & Hl0 & Hlab0 & Hn0 & Hop0 & Hb0).
      exists l0. destruct (Hweak l0 Hn0). auto 6.
    - assert (Hhas : forall x, has_gate c2 x = leqb x l || leqb x nl || has_gate cur x).
      { intros x; unfold has_gate; rewrite Hgates, !dmem_dset. rewrite orb_assoc; reflexivity. }
      assert (Hmono2 : forall x, has_gate cur x = true -> has_gate c2 x = true).
      { intros x Hx; rewrite Hhas, Hx; apply orb_true_r. }
      assert (Hnlc : has_gate c nl = false).
      { destruct (has_gate c nl) eqn:E; [|reflexivity]. apply Hmono in E; congruence. }
      split; [exact Hrest'|]. split; [intros x Hx; apply Hmono2, Hmono, Hx|].
      split; [rewrite Hbl, anb_blocks_keys; exact Hkeys|]. split.
      + intros b. specialize (Hblk b). rewrite Hbl, anb_dget.
        destruct (dget (blocks c) b) as [b0|]; [|rewrite Hblk; reflexivity].
        destruct Hblk as (extra & -> & Hex). simpl.
        destruct (memb l (bgates b0 ++ extra)).
        * exists (extra ++ [nl]). rewrite app_assoc. split; [reflexivity|].
          intros x Hx; apply in_app_or in Hx; destruct Hx as [Hx|[<-|[]]].
          -- destruct (Hex x Hx); split; [assumption|apply Hmono2; assumption].
          -- split; [exact Hnlc|]. rewrite Hhas, leqb_refl. apply orb_true_iff; left; apply orb_true_r.
        * exists extra; split; [reflexivity|].
          intros x Hx. destruct (Hex x Hx); split; [assumption|apply Hmono2; assumption].
      + intros x Hx Hxc. rewrite Hhas in Hx.
        destruct (has_gate cur x) eqn:Ecur.
        * destruct (Hhelp x Ecur Hxc) as (l0 & Hl0 & Hlab0 & Hn0 & Hop0 & Hb0). exists l0.
          destruct (Hweak l0 Hn0) as [Hl0l Hn0'].
          split; [assumption|]. split; [assumption|]. split; [assumption|]. split.
          { unfold ops_of; rewrite Hgates, !dget_dset. apply leqb_neq in Hl0l; rewrite Hl0l.
            destruct (leqb_spec l0 nl) as [->|_]; [congruence|exact Hop0]. }
          intros b b0 Hgb Hin. destruct (Hb0 b b0 Hgb Hin) as (bc & Hbc & Hxin).
          rewrite Hbl, anb_dget, Hbc; simpl. eexists; split; [reflexivity|].
          destruct (memb l (bgates bc)); simpl; [apply in_or_app; left|]; exact Hxin.
        * rewrite orb_false_r in Hx. destruct (leqb_spec x l) as [->|_]; [congruence|]. simpl in Hx.
          apply leqb_eq in Hx; subst x. exists l. split; [assumption|]. split; [assumption|].
          split; [exact Hnotin|]. split.
          { unfold ops_of; rewrite Hgates, dget_dset, leqb_refl; simpl. eapply helper_rule_In; eassumption. }
          intros b b0 Hgb Hin. specialize (Hblk b). rewrite Hgb in Hblk. destruct Hblk as (extra & Hbc & _).
          rewrite Hbl, anb_dget, Hbc; simpl. eexists; split; [reflexivity|].
          assert (memb l (bgates b0 ++ extra) = true) as ->
              by (apply memb_In, in_or_app; left; exact Hin).
          simpl. apply in_or_app; right; left; reflexivity.
    - assert (Hhas : forall x, has_gate c2 x = has_gate cur x).
      { intros x; unfold has_gate; rewrite Hgates, dmem_dset. destruct (leqb_spec x l) as [->|]; [|reflexivity].
        symmetry; eapply dget_dmem; eassumption. }
      split; [exact Hrest'|]. split; [intros x Hx; rewrite Hhas; apply Hmono, Hx|].
      split; [rewrite Hbl; exact Hkeys|]. split.
      + intros b. specialize (Hblk b). rewrite Hbl. destruct (dget (blocks c) b); [|exact Hblk].
        destruct Hblk as (extra & E & Hex). exists extra; split; [exact E|].
        intros x Hx; rewrite Hhas; apply Hex, Hx.
      + intros x Hx Hxc. rewrite Hhas in Hx. destruct (Hhelp x Hx Hxc) as (l0 & Hl0 & Hlab0 & Hn0 & Hop0 & Hb0).
        destruct (Hweak l0 Hn0) as [Hl0l Hn0'].
        exists l0. split; [assumption|]. split; [assumption|]. split; [assumption|]. split.
        { unfold ops_of; rewrite Hgates, dget_dset. apply leqb_neq in Hl0l; rewrite Hl0l. exact Hop0. }
        rewrite Hbl; exact Hb0.
  Qed.

  Lemma Qblk_init : Qblk (gates c) c.
  Proof.
    split; [|split; [auto|split; [reflexivity|split]]].
    - intros l g Hin. apply dmem_keys. apply (in_map fst) in Hin; exact Hin.
    - intros b. destruct (dget (blocks c) b) as [b0|] eqn:E; [|reflexivity].
      exists []. rewrite app_nil_r. split; [destruct b0; reflexivity|intros x []].
    - intros x Hx Hxc; congruence.
  Qed.
End Loop.

(* ------------------------------------------------------------------ *)
(* assembly *)
Section IntoBench.
  Variables (c c' : circuit) (fresh : list string).
  Hypothesis W : WF c.
  Hypothesis N : inputs_nullary c.
  Hypothesis A : arity_ok c.
  Hypothesis H : into_bench c fresh = Ok c'.

  Lemma into_bench_wf : WF c' /\ inputs_nullary c'.
  Proof. eapply into_bench_inv_le; try eassumption. apply arity_ok_binary_le, A. Qed.

  Lemma into_bench_sem_forward a : total_on c a ->
    inputs c' = inputs c /\ outputs c' = outputs c /\ forall x v, Eval c a x v -> Eval c' a x v.
  Proof.
    intros Ht. apply (into_bench_ind (Qsem c a) (Qsem_step c W a Ht) c fresh c' W N
                        (arity_ok_binary_le c A)); [|exact H].
    repeat split; auto.
  Qed.

  Theorem into_bench_io : inputs c' = inputs c /\ outputs c' = outputs c.
  Proof.
    apply (into_bench_ind (fun _ cur => inputs cur = inputs c /\ outputs cur = outputs c)) with (c := c)
      (fresh := fresh); try assumption; [|apply arity_ok_binary_le, A|auto].
    intros l g rest cur f c2 _ _ _ _ _ _ [Hi Ho] Hcv. apply convert_gate_shape, conv_shape_io in Hcv.
    destruct Hcv; split; congruence.
  Qed.

  (* every gate of the original circuit keeps its value under every total assignment *)
  Theorem into_bench_sem a : total_on c a ->
    forall l v, has_gate c l = true -> (Eval c' a l v <-> Eval c a l v).
  Proof.
    intros Ht l v Hl. destruct (into_bench_sem_forward a Ht) as (_ & _ & Hf). split; [|apply Hf].
    intros HE. destruct (Eval_exists c a W A l Hl) as [v0 Hv0].
    rewrite (Eval_functional _ _ _ _ _ HE (Hf _ _ Hv0)). exact Hv0.
  Qed.

  Corollary into_bench_outputs_sem a : total_on c a ->
    forall vs, Forall2 (Eval c' a) (outputs c') vs <-> Forall2 (Eval c a) (outputs c) vs.
  Proof.
    intros Ht vs. destruct into_bench_io as [_ ->].
    split; intros HF; (eapply Forall2_impl_In; [exact HF|]); intros o v Ho Hv;
      apply (into_bench_sem a Ht o v (wf_outs c W o Ho)); exact Hv.
  Qed.

  Theorem into_bench_total_on a : total_on c a <-> total_on c' a.
  Proof.
    destruct into_bench_wf as [W' _]. destruct into_bench_io as [Hi _].
    split; [apply total_on_inputs|apply total_on_inputs]; auto.
  Qed.

  Theorem into_bench_types : forall x gx, dget (gates c') x = Some gx -> bench_type (gtyp gx) = true.
  Proof.
    assert (Qty [] c') as HQ.
    { apply (into_bench_ind Qty Qty_step c fresh c' W N (arity_ok_binary_le c A)); [|exact H].
      intros x gx Hx; right; apply dget_In, Hx. }
    intros x gx Hx. destruct (HQ x gx Hx) as [Hb|[]]; exact Hb.
  Qed.

  Theorem into_bench_blocks : Qblk c [] c'.
  Proof.
    apply (into_bench_ind (Qblk c) (Qblk_step c) c fresh c' W N (arity_ok_binary_le c A)); [|exact H].
    apply Qblk_init.
  Qed.

  (* the same, spelled out: old gates survive; blocks keep their names, inputs and outputs and
     only gain helper gates; every new gate x is the helper (operand, helper label) of a rewritten
     gate l of c and lies in every block that had l among its gates *)
  Theorem into_bench_blocks_spec :
    (forall x, has_gate c x = true -> has_gate c' x = true) /\
    dkeys (blocks c') = dkeys (blocks c) /\
    (forall b, match dget (blocks c) b with
               | None => dget (blocks c') b = None
               | Some b0 => exists extra,
                   dget (blocks c') b = Some (mkBlock (binputs b0) (bgates b0 ++ extra) (boutputs b0)) /\
                   forall x, In x extra -> has_gate c x = false /\ has_gate c' x = true
               end) /\
    (forall x, has_gate c' x = true -> has_gate c x = false ->
       exists l, has_gate c l = true /\ is_helper_label l x /\ In x (ops_of c' l) /\
         forall b b0, dget (blocks c) b = Some b0 -> In l (bgates b0) ->
                      exists bc, dget (blocks c') b = Some bc /\ In x (bgates bc)).
  Proof.
    destruct into_bench_blocks as (_ & H1 & H2 & H3 & H4). repeat split; try assumption.
    intros x Hx Hxc. destruct (H4 x Hx Hxc) as (l & Ha & Hb & _ & Hc & Hd). exists l; auto.
  Qed.
End IntoBench.

(* ------------------------------------------------------------------ *)
(* The restriction to total assignments is necessary: with a partial assignment the rewritten
   comparison gate can be MORE defined than the original one (GT(U, True) = U, but
   AND(U, NOT True) = False). *)
Definition cex_partial : circuit :=
  mkCircuit ["a"; "b"] ["g"]
    [("a", mkGate INPUT []); ("b", mkGate INPUT []); ("g", mkGate GT ["a"; "b"])]
    [("a", ["g"]); ("b", ["g"])] [].

Example into_bench_partial_assignment_differs :
  wfb cex_partial = true /\ arity_ok cex_partial /\
  exists c', into_bench cex_partial ["X"] = Ok c' /\
             Eval cex_partial [("b", T)] "g" U /\ Eval c' [("b", T)] "g" F.
Proof.
  split; [vm_compute; reflexivity|]. split; [apply arity_okb_sound; vm_compute; reflexivity|].
  eexists; split; [vm_compute; reflexivity|]. split.
  - eapply (EvalGate _ _ "g" (mkGate GT ["a"; "b"]) [U; T]); [reflexivity|discriminate| |reflexivity].
    constructor; [apply (Eval_input_val _ _ "a" (mkGate INPUT [])); reflexivity|].
    constructor; [apply (Eval_input_val _ _ "b" (mkGate INPUT [])); reflexivity|constructor].
  - eapply (EvalGate _ _ "g" (mkGate AND ["a"; "new_gate_GT_for_gX"]) [U; F]);
      [reflexivity|discriminate| |reflexivity].
    constructor; [apply (Eval_input_val _ _ "a" (mkGate INPUT [])); reflexivity|].
    constructor; [|constructor].
    eapply (EvalGate _ _ "new_gate_GT_for_gX" (mkGate NOT ["b"]) [T]); [reflexivity|discriminate| |reflexivity].
    constructor; [apply (Eval_input_val _ _ "b" (mkGate INPUT [])); reflexivity|constructor].
Qed.
