(* Soundness of the executable checks of Model/CodecCheck.v. *)
Require Import Cirbo.Model.Base Cirbo.Model.Gate Cirbo.Model.Circuit Cirbo.Model.CodecCheck.
Require Import Cirbo.Generated.CodecTables.
Require Import Cirbo.Proofs.DictFacts Cirbo.Proofs.IsoFacts Cirbo.Proofs.CodecFacts.

Lemma is_input_type_spec g : is_input_type g = true <-> gtyp g = INPUT.
Proof. unfold is_input_type. apply gtype_beq_eq. Qed.

Lemma is_input_type_false g : is_input_type g = false <-> gtyp g <> INPUT.
Proof. rewrite <- is_input_type_spec. destruct (is_input_type g); split; congruence. Qed.

Theorem codec_wfb_sound c : codec_wfb c = true -> codec_wf c.
Proof.
  unfold codec_wfb. rewrite !andb_true_iff. intros [[[H1 H2] H3] H4].
  apply nodupb_NoDup in H1, H2. rewrite forallb_forall in H3, H4. split; [exact H1|exact H2|].
  intros l; split.
  - intros Hl. specialize (H3 l Hl). unfold is_input_gate in H3.
    destruct (dget (gates c) l) as [g|]; [|discriminate]. exists g. split; [reflexivity|apply gtype_beq_eq; exact H3].
  - intros (g & Hg & Ht). specialize (H4 (l, g) (dget_In _ _ _ Hg)). simpl in H4.
    apply is_input_type_spec in Ht. rewrite Ht in H4. simpl in H4. apply memb_In; exact H4.
Qed.

Theorem ops_existb_sound c : ops_existb c = true -> ops_exist c.
Proof.
  unfold ops_existb. rewrite forallb_forall. intros H l g o Hg Ht Ho.
  specialize (H (l, g) (dget_In _ _ _ Hg)). simpl in H. apply is_input_type_false in Ht. rewrite Ht in H.
  simpl in H. rewrite forallb_forall in H. apply (H o Ho).
Qed.

Theorem outputs_existb_sound c : outputs_existb c = true -> outputs_exist c.
Proof. unfold outputs_existb. rewrite forallb_forall. intros H o Ho. apply (H o Ho). Qed.

Theorem format_okb_sound c : format_okb c = true -> format_ok c.
Proof.
  unfold format_okb. rewrite forallb_forall. intros H l g Hg Ht.
  specialize (H (l, g) (dget_In _ _ _ Hg)). simpl in H. apply is_input_type_false in Ht. rewrite Ht in H.
  simpl in H. apply andb_true_iff in H as [H1 H2]. split.
  - destruct (gate_type_to_int (gtyp g)) as [code|]; [eauto|discriminate].
  - apply Nat.eqb_eq; exact H2.
Qed.

Theorem acyclicb_sound order c : acyclicb order c = true -> acyclic c.
Proof.
  unfold acyclicb. rewrite forallb_forall. intros H. exists (fun l => index_of l order).
  intros l g o Hg Ht Ho. specialize (H (l, g) (dget_In _ _ _ Hg)). simpl in H.
  apply is_input_type_false in Ht. rewrite Ht in H. simpl in H. rewrite forallb_forall in H.
  apply Nat.ltb_lt. apply (H o Ho).
Qed.

(* the users index is the inverse operand relation (multiset equality) *)
Definition users_exact (c : circuit) : Prop :=
  NoDup (dkeys (users c)) /\
  (forall l us, dget (users c) l = Some us -> dmem (gates c) l = true /\ forall u, In u us -> dmem (gates c) u = true) /\
  (forall l u, dmem (gates c) l = true -> dmem (gates c) u = true ->
               count u (users_of c l) = count l (ops_of c u)).

Theorem users_exactb_sound c : users_exactb c = true -> users_exact c.
Proof.
  unfold users_exactb. rewrite !andb_true_iff. intros [[H1 H2] H3].
  apply nodupb_NoDup in H1. rewrite forallb_forall in H2, H3. split; [exact H1|]. split.
  - intros l us Hl. specialize (H2 (l, us) (dget_In _ _ _ Hl)). simpl in H2.
    apply andb_true_iff in H2 as [Ha Hb]. split; [apply dmem_keys, memb_In; exact Ha|].
    rewrite forallb_forall in Hb. intros u Hu. apply dmem_keys, memb_In, Hb; exact Hu.
  - intros l u Hl Hu. apply dmem_keys in Hl, Hu. specialize (H3 l Hl). rewrite forallb_forall in H3.
    apply Nat.eqb_eq. apply (H3 u Hu).
Qed.

Definition in_basis (basis : list gtype) (c : circuit) : Prop :=
  forall l g, dget (gates c) l = Some g -> gtyp g = INPUT \/ In (gtyp g) basis.

Theorem in_basisb_sound basis c : in_basisb basis c = true -> in_basis basis c.
Proof.
  unfold in_basisb. rewrite forallb_forall. intros H l g Hg.
  specialize (H (l, g) (dget_In _ _ _ Hg)). simpl in H. apply orb_true_iff in H as [H|H].
  - left. apply is_input_type_spec; exact H.
  - right. apply existsb_exists in H as (t & Ht & E). apply gtype_beq_eq in E. subst; exact Ht.
Qed.
