(* C04: _generate_inputs_tt n returns the n projection truth tables: bit i of the j-th
   pattern is bit j of i (the value of the j-th input in row i), for every n. *)
Require Import Cirbo.Model.Base.
Require Import Cirbo.Generated.PatternOps Cirbo.Proofs.PatternBits.
Local Open Scope N_scope.

Lemma add_at_nat_length l j v : length (add_at_nat l j v) = length l.
Proof.
  revert j; induction l as [|x xs IH]; intros [|j]; simpl; try reflexivity.
  rewrite IH; reflexivity.
Qed.

Lemma nth_add_at_nat l j v k :
  nth k (add_at_nat l j v) 0 =
  if (Nat.eqb k j && Nat.ltb k (length l))%bool then nth k l 0 + v else nth k l 0.
Proof.
  revert j k; induction l as [|x xs IH]; intros j k.
  - simpl. rewrite andb_false_r. destruct j; reflexivity.
  - destruct j as [|j], k as [|k]; simpl; try reflexivity.
    rewrite IH. reflexivity.
Qed.

(* one pass of the inner loop: acc[j] += f j for j in range(s, s+m) *)
Lemma inner_seq (f : N -> N) : forall m s acc,
  let r := fold_left (fun acc j => add_at acc j (f j)) (map N.of_nat (seq s m)) acc in
  length r = length acc /\
  forall k, nth k r 0 =
    if (Nat.leb s k && Nat.ltb k (s + m) && Nat.ltb k (length acc))%bool
    then nth k acc 0 + f (N.of_nat k) else nth k acc 0.
Proof.
  induction m as [|m IH]; intros s acc; simpl.
  - split; [reflexivity|]. intros k.
    destruct (Nat.leb_spec s k), (Nat.ltb_spec k (s + 0)); simpl; try reflexivity; exfalso; lia.
  - destruct (IH (S s) (add_at acc (N.of_nat s) (f (N.of_nat s)))) as [Hl Hn].
    unfold add_at in *. rewrite Nat2N.id in *. rewrite add_at_nat_length in *.
    split; [exact Hl|]. intros k. rewrite Hn, nth_add_at_nat.
    destruct (Nat.eqb_spec k s) as [->|Hne].
    + replace (Nat.leb (S s) s) with false by (symmetry; apply Nat.leb_gt; lia).
      rewrite Nat.leb_refl. replace (Nat.ltb s (s + S m)) with true by (symmetry; apply Nat.ltb_lt; lia).
      simpl. destruct (Nat.ltb s (length acc)); reflexivity.
    + cbn [andb].
      destruct (Nat.leb_spec (S s) k), (Nat.leb_spec s k), (Nat.ltb_spec k (S s + m)),
        (Nat.ltb_spec k (s + S m)); cbn [andb]; try reflexivity; exfalso; lia.
Qed.

Definition tt_term (i j : N) : N := N.shiftl (N.land (N.shiftr i j) 1) i.

Definition tt_pass (size : N) (acc : list N) (i : N) : list N :=
  fold_left (fun acc j => add_at acc j (tt_term i j)) (nrange size) acc.

Lemma generate_inputs_tt_unfold size :
  generate_inputs_tt size = fold_left (tt_pass size) (nrange (N.shiftl 1 size)) (nrepeat 0 size).
Proof. reflexivity. Qed.

Lemma tt_pass_spec size acc i :
  length acc = N.to_nat size ->
  length (tt_pass size acc i) = N.to_nat size /\
  forall k, (k < N.to_nat size)%nat ->
    nth k (tt_pass size acc i) 0 = nth k acc 0 + tt_term i (N.of_nat k).
Proof.
  intros Hl. unfold tt_pass, nrange.
  destruct (inner_seq (tt_term i) (N.to_nat size) 0%nat acc) as [H1 H2].
  split; [rewrite H1; exact Hl|]. intros k Hk. rewrite H2.
  replace (Nat.ltb k (0 + N.to_nat size)) with true by (symmetry; apply Nat.ltb_lt; lia).
  replace (Nat.ltb k (length acc)) with true by (symmetry; apply Nat.ltb_lt; lia).
  reflexivity.
Qed.

(* invariant of the outer loop after the rows 0 .. K-1 *)
Definition tt_inv (size : N) (K : nat) (acc : list N) : Prop :=
  length acc = N.to_nat size /\
  forall k, (k < N.to_nat size)%nat -> forall m,
    N.testbit (nth k acc 0) m = (N.ltb m (N.of_nat K) && N.testbit m (N.of_nat k))%bool.

Lemma tt_inv_step size K acc :
  tt_inv size K acc -> tt_inv size (S K) (tt_pass size acc (N.of_nat K)).
Proof.
  intros [Hl Hb]. destruct (tt_pass_spec size acc (N.of_nat K) Hl) as [Hl' Hn].
  split; [exact Hl'|]. intros k Hk m. rewrite (Hn k Hk). unfold tt_term. rewrite shiftr_land_1.
  assert (nth k acc 0 < 2 ^ N.of_nat K) as Hlt.
  { apply bits_high_lt_pow2. intros m' Hm'. rewrite (Hb k Hk).
    replace (N.ltb m' (N.of_nat K)) with false by (symmetry; apply N.ltb_ge; exact Hm'). reflexivity. }
  rewrite testbit_add_high_bit by exact Hlt. rewrite (Hb k Hk).
  rewrite Nat2N.inj_succ.
  destruct (N.eqb_spec m (N.of_nat K)) as [->|Hne].
  - rewrite N.ltb_irrefl. replace (N.ltb (N.of_nat K) (N.succ (N.of_nat K))) with true
      by (symmetry; apply N.ltb_lt; lia). reflexivity.
  - cbn [andb]. rewrite orb_false_r.
    destruct (N.ltb_spec m (N.of_nat K)), (N.ltb_spec m (N.succ (N.of_nat K))); try reflexivity; lia.
Qed.

Lemma tt_inv_run size : forall K, tt_inv size K
  (fold_left (tt_pass size) (map N.of_nat (seq 0 K)) (nrepeat 0 size)).
Proof.
  induction K as [|K IH].
  - simpl. split; [unfold nrepeat; apply repeat_length|].
    intros k Hk m. unfold nrepeat.
    assert (nth k (repeat 0 (N.to_nat size)) 0 = 0) as ->.
    { generalize (N.to_nat size) as n; intros n; revert k Hk; clear.
      intros k _. revert k; induction n as [|n IH]; intros [|k]; simpl; auto. }
    rewrite N.bits_0. change (N.of_nat 0) with 0. destruct (N.ltb_spec m 0); [lia|reflexivity].
  - rewrite seq_S, map_app, fold_left_app. simpl. apply tt_inv_step. exact IH.
Qed.

Theorem generate_inputs_tt_spec n :
  length (generate_inputs_tt n) = N.to_nat n /\
  forall j, j < n ->
    nth (N.to_nat j) (generate_inputs_tt n) 0 < 2 ^ (2 ^ n) /\
    forall i, i < 2 ^ n -> N.testbit (nth (N.to_nat j) (generate_inputs_tt n) 0) i = N.testbit i j.
Proof.
  rewrite generate_inputs_tt_unfold. unfold nrange at 1.
  destruct (tt_inv_run n (N.to_nat (N.shiftl 1 n))) as [Hl Hb].
  rewrite N2Nat.id in Hb. rewrite N.shiftl_1_l in *.
  split; [exact Hl|]. intros j Hj.
  assert (N.to_nat j < N.to_nat n)%nat as Hj' by lia.
  pose proof (Hb _ Hj') as Hbits. rewrite N2Nat.id in Hbits.
  split.
  - apply bits_high_lt_pow2. intros m Hm. rewrite Hbits.
    replace (N.ltb m (2 ^ n)) with false by (symmetry; apply N.ltb_ge; exact Hm). reflexivity.
  - intros i Hi. rewrite Hbits.
    replace (N.ltb i (2 ^ n)) with true by (symmetry; apply N.ltb_lt; exact Hi). reflexivity.
Qed.
