(* One iteration of Model/Traverse.v: traverse_loop as a relation on configurations
   (states, work list, log), and the decomposition of a run into such steps.
   No assumption on the circuit is made here. *)
Require Import Cirbo.Model.Base Cirbo.Model.Gate Cirbo.Model.Circuit Cirbo.Model.Traverse Cirbo.Model.WF.
Require Import Cirbo.Proofs.DictFacts Cirbo.Proofs.TopSort Cirbo.Proofs.TopSortWF.

Definition cfg : Type := (dict tstate * list label * list event)%type.

(* the successor function followed by the traversal *)
Definition nxt (inverse : bool) (c : circuit) (l : label) : list label :=
  if inverse then users_of c l else ops_of c l.

Definition key (c : circuit) (l : label) : Prop := In l (dkeys (gates c)).

Definition pushed (sts1 : dict tstate) (ns : list label) : list label :=
  filter (fun ch => tstate_beq (state_of sts1 ch) UNVISITED) ns.
Definition dlog (sts1 : dict tstate) (ns : list label) : list event :=
  map (fun ch => EvDiscover ch (state_of sts1 ch)) ns.

Definition is_head {A} (mode : tmode) (queue : list A) (cur : A) (rest : list A) : Prop :=
  match mode with DFS => queue = rest ++ [cur] | BFS => queue = cur :: rest end.

Lemma state_of_dset sts k v l :
  state_of (dset sts k v) l = if leqb l k then v else state_of sts l.
Proof. unfold state_of. rewrite dget_dset. destruct (leqb l k); reflexivity. Qed.

Lemma tstate_beq_eq a b : tstate_beq a b = true <-> a = b.
Proof. split; [apply internal_tstate_dec_bl|apply internal_tstate_dec_lb]. Qed.

Lemma get_gate_ok_key c l g : get_gate c l = Ok g -> key c l /\ dget (gates c) l = Some g.
Proof.
  unfold get_gate, key. destruct (dget (gates c) l) as [g'|] eqn:E; [|discriminate].
  intros [= <-]. split; [eapply dget_In_keys; eauto|reflexivity].
Qed.

Lemma get_gate_err c l e : get_gate c l = Err e -> e = GateDoesntExistError /\ ~ key c l.
Proof.
  unfold get_gate, key. destruct (dget (gates c) l) as [g'|] eqn:E; [discriminate|].
  intros [= <-]. split; [reflexivity|apply dget_None_keys; exact E].
Qed.

Lemma next_of_nxt inverse c l g : get_gate c l = Ok g -> next_of inverse c l g = Ok (nxt inverse c l).
Proof.
  intros H. apply get_gate_ok_key in H. destruct H as [Hk Hd]. unfold next_of, nxt. destruct inverse.
  - apply get_gate_users_key; exact Hk.
  - unfold ops_of. rewrite Hd. reflexivity.
Qed.

Section Step.
  Variable mode : tmode.
  Variable inverse : bool.
  Variable c : circuit.
  Variable abort : label -> tstate -> option err.

  Notation nx := (nxt inverse c).

  Inductive Step : cfg -> cfg -> Prop :=
  | St_enter sts queue log cur rest :
      is_head mode queue cur rest ->
      state_of sts cur = UNVISITED -> key c cur ->
      (forall ch, In ch (nx cur) ->
                  key c ch /\ abort ch (state_of (dset sts cur ENTERED) ch) = None) ->
      let sts1 := dset sts cur ENTERED in
      Step (sts, queue, log)
           (match mode with DFS => sts1 | BFS => dset sts1 cur VISITED end,
            match mode with DFS => queue ++ pushed sts1 (nx cur) | BFS => rest ++ pushed sts1 (nx cur) end,
            log ++ EvEnter cur :: dlog sts1 (nx cur) ++ [EvYield cur])
  | St_exit sts queue log cur rest :
      is_head mode queue cur rest -> state_of sts cur = ENTERED -> key c cur ->
      Step (sts, queue, log) (dset sts cur VISITED, rest, log ++ [EvExit cur])
  | St_skip sts queue log cur rest :
      is_head mode queue cur rest -> state_of sts cur = VISITED -> key c cur ->
      Step (sts, queue, log) (sts, rest, log).

  (* an iteration that raises *)
  Definition StepErr (x : cfg) (e : err) : Prop :=
    let '(sts, queue, log) := x in
    exists cur rest, is_head mode queue cur rest /\
      ((e = GateDoesntExistError /\ ~ key c cur) \/
       (state_of sts cur = UNVISITED /\ key c cur /\
        exists ch, In ch (nx cur) /\
          ((e = GateDoesntExistError /\ ~ key c ch) \/
           abort ch (state_of (dset sts cur ENTERED) ch) = Some e))).

  Definition disc_step (sts1 : dict tstate) (st : list label * list event) (ch : label)
    : res (list label * list event) :=
    let '(q, lg) := st in
    do _ <- get_gate c ch;
    let s := state_of sts1 ch in
    match abort ch s with
    | Some e => Err e
    | None => Ok (if tstate_beq s UNVISITED then q ++ [ch] else q, lg ++ [EvDiscover ch s])
    end.

  Lemma disc_fold sts1 ns : forall q lg,
    (foldM (disc_step sts1) ns (q, lg) = Ok (q ++ pushed sts1 ns, lg ++ dlog sts1 ns) /\
     forall ch, In ch ns -> key c ch /\ abort ch (state_of sts1 ch) = None)
    \/ (exists e ch, foldM (disc_step sts1) ns (q, lg) = Err e /\ In ch ns /\
          ((e = GateDoesntExistError /\ ~ key c ch) \/ abort ch (state_of sts1 ch) = Some e)).
  Proof.
    induction ns as [|n ns IH]; intros q lg.
    - left. simpl. rewrite !app_nil_r. split; [reflexivity|tauto].
    - simpl foldM. unfold disc_step at 1.
      destruct (get_gate c n) as [g|e] eqn:Eg; simpl.
      + apply get_gate_ok_key in Eg. destruct Eg as [Hk _].
        destruct (abort n (state_of sts1 n)) as [e|] eqn:Ea; simpl.
        * right. exists e, n. split; [reflexivity|]. split; [left; reflexivity|right; exact Ea].
        * destruct (IH (if tstate_beq (state_of sts1 n) UNVISITED then q ++ [n] else q)
                       (lg ++ [EvDiscover n (state_of sts1 n)])) as [[Hf Hall]|(e & ch & Hf & Hin & Hc)].
          -- left. split.
             ++ refine (eq_trans Hf _). unfold pushed, dlog. simpl.
                destruct (tstate_beq (state_of sts1 n) UNVISITED); rewrite <- !app_assoc; reflexivity.
             ++ intros ch [<-|Hin]; [split; assumption|apply Hall; exact Hin].
          -- right. exists e, ch. split; [exact Hf|]. split; [right; exact Hin|exact Hc].
      + right. apply get_gate_err in Eg. destruct Eg as [-> Hk].
        exists GateDoesntExistError, n. split; [reflexivity|]. split; [left; reflexivity|left; split; [reflexivity|exact Hk]].
  Qed.

  Lemma head_cases (queue : list label) :
    (queue = [] /\ match mode with DFS => pop_last queue
                   | BFS => match queue with [] => None | x :: r => Some (x, r) end end = None) \/
    exists cur rest, is_head mode queue cur rest /\
      match mode with DFS => pop_last queue
      | BFS => match queue with [] => None | x :: r => Some (x, r) end end = Some (cur, rest).
  Proof.
    unfold is_head. destruct mode.
    - destruct (pop_last_cases queue) as [[-> H]|(x & r & -> & H)]; [left; auto|right; exists x, r; auto].
    - destruct queue as [|x r]; [left; auto|right; exists x, r; auto].
  Qed.

  Lemma loop_unfold f sts queue log :
    traverse_loop (S f) mode inverse c abort sts queue log =
    match match mode with DFS => pop_last queue
          | BFS => match queue with [] => None | x :: r => Some (x, r) end end with
    | None => Ok (sts, log)
    | Some (cur, rest) =>
      do g <- get_gate c cur;
      match state_of sts cur with
      | UNVISITED =>
        do ns <- next_of inverse c cur g;
        do st <- foldM (disc_step (dset sts cur ENTERED)) ns (queue, log ++ [EvEnter cur]);
        let '(q2, log2) := st in
        match mode with
        | BFS => traverse_loop f mode inverse c abort (dset (dset sts cur ENTERED) cur VISITED)
                               (tl q2) (log2 ++ [EvYield cur])
        | DFS => traverse_loop f mode inverse c abort (dset sts cur ENTERED) q2 (log2 ++ [EvYield cur])
        end
      | ENTERED =>
        traverse_loop f mode inverse c abort (dset sts cur VISITED) rest (log ++ [EvExit cur])
      | VISITED => traverse_loop f mode inverse c abort sts rest log
      end
    end.
  Proof. reflexivity. Qed.

  Lemma loop_S_cases f sts queue log :
    (queue = [] /\ traverse_loop (S f) mode inverse c abort sts queue log = Ok (sts, log)) \/
    (exists sts' queue' log', Step (sts, queue, log) (sts', queue', log') /\
        traverse_loop (S f) mode inverse c abort sts queue log =
        traverse_loop f mode inverse c abort sts' queue' log') \/
    (exists e, StepErr (sts, queue, log) e /\
        traverse_loop (S f) mode inverse c abort sts queue log = Err e).
  Proof.
    rewrite loop_unfold.
    destruct (head_cases queue) as [[-> ->]|(cur & rest & Hh & ->)]; [left; auto|right].
    destruct (get_gate c cur) as [g|e] eqn:Eg; simpl.
    2:{ right. apply get_gate_err in Eg. destruct Eg as [-> Hk]. exists GateDoesntExistError.
        split; [|reflexivity]. exists cur, rest. split; [exact Hh|left; auto]. }
    pose proof (next_of_nxt inverse c cur g Eg) as Hn.
    apply get_gate_ok_key in Eg. destruct Eg as [Hk _].
    destruct (state_of sts cur) eqn:Es.
    - rewrite Hn. simpl bind.
      destruct (disc_fold (dset sts cur ENTERED) (nx cur) queue (log ++ [EvEnter cur]))
        as [[Hf Hall]|(e & ch & Hf & Hin & Hc)].
      + left. rewrite Hf. simpl bind.
        pose proof (St_enter sts queue log cur rest Hh Es Hk Hall) as HS. simpl in HS.
        do 3 eexists. split; [exact HS|].
        rewrite <- !app_assoc. simpl.
        destruct mode; [reflexivity|]. unfold is_head in Hh. subst queue. reflexivity.
      + right. exists e. split; [|rewrite Hf; reflexivity].
        exists cur, rest. split; [exact Hh|]. right. split; [exact Es|]. split; [exact Hk|].
        exists ch. split; [exact Hin|exact Hc].
    - left. do 3 eexists. split; [eapply St_exit; eauto|reflexivity].
    - left. do 3 eexists. split; [eapply St_skip; eauto|reflexivity].
  Qed.

  Inductive Steps : cfg -> cfg -> Prop :=
  | Steps_refl x : Steps x x
  | Steps_step x y z : Step x y -> Steps y z -> Steps x z.

  Lemma Steps_trans x y z : Steps x y -> Steps y z -> Steps x z.
  Proof. induction 1; [auto|]. intros; econstructor; eauto. Qed.

  Lemma Steps_inv (P : cfg -> Prop) :
    (forall x y, P x -> Step x y -> P y) -> forall x y, Steps x y -> P x -> P y.
  Proof. intros H x y HS; induction HS; intros; eauto. Qed.

  Lemma loop_ok_steps : forall f sts queue log sts' log',
    traverse_loop f mode inverse c abort sts queue log = Ok (sts', log') ->
    Steps (sts, queue, log) (sts', [], log').
  Proof.
    induction f as [|f IH]; intros sts queue log sts' log'; [discriminate|].
    destruct (loop_S_cases f sts queue log)
      as [[-> ->]|[(s1 & q1 & l1 & HS & ->)|(e & _ & ->)]]; [|intros H|discriminate].
    - intros [= <- <-]. constructor.
    - econstructor; [exact HS|apply IH; exact H].
  Qed.

  Lemma loop_err_steps : forall f sts queue log e,
    traverse_loop f mode inverse c abort sts queue log = Err e ->
    e = OutOfFuel \/ exists y, Steps (sts, queue, log) y /\ StepErr y e.
  Proof.
    induction f as [|f IH]; intros sts queue log e; [intros [= <-]; left; reflexivity|].
    destruct (loop_S_cases f sts queue log)
      as [[-> ->]|[(s1 & q1 & l1 & HS & ->)|(e' & HE & ->)]]; [discriminate|intros H|].
    - destruct (IH _ _ _ _ H) as [->|(y & HSs & HE)]; [left; reflexivity|right].
      exists y. split; [econstructor; eauto|exact HE].
    - intros [= <-]. right. eexists. split; [constructor|exact HE].
  Qed.
End Step.
