(* C07, part 10: gate count of the efficient weighted sum in XAIG.
   The bound documented in the pinned source, gates <= 4.5 n - 2 m, is FALSE (weighted_bound_refuted
   below: 25 bits with the level counts 6,3,3,3,3,3,3,1 need 4.5 n - 2 m + 0.5 gates; every further
   level with three bits loses another half gate).  What holds for all weight vectors, and what
   fixes/D27.patch documents instead, is gates <= 5 n - 2 m: potential 5 per pending single bit
   (4 for the at most one pending carry bit), 8 per pending pair. *)
Require Import Cirbo.Model.Base Cirbo.Model.Gate Cirbo.Model.Den Cirbo.Model.Circuit
  Cirbo.Model.Eval Cirbo.Model.Sem Cirbo.Model.Builder.
Require Import Cirbo.Generated.ArithTables Cirbo.Generated.ArithCells.
Require Import Cirbo.Model.ArithSub Cirbo.Model.ArithSum2 Cirbo.Model.ArithSumN Cirbo.Model.ArithSumW
  Cirbo.Model.SumCases.
Require Import Cirbo.Proofs.DictFacts Cirbo.Proofs.BuilderFacts Cirbo.Proofs.ArithFacts
  Cirbo.Proofs.ArithSumCells Cirbo.Proofs.ArithSumNFacts Cirbo.Proofs.ArithSumXaigCount
  Cirbo.Proofs.ArithSumTopFacts Cirbo.Proofs.ArithSumWFacts Cirbo.Proofs.ArithSumStruct.

Lemma take_level_pairs_length lev l : forall now rest,
  take_level_pairs lev l = (now, rest) -> length l = (length now + length rest)%nat.
Proof.
  induction l as [|[[lv x] y] l IH]; simpl; intros now rest E.
  - injection E as <- <-. reflexivity.
  - destruct (lv =? lev)%N.
    + destruct (take_level_pairs lev l) as [a b]. injection E as <- <-. simpl. rewrite (IH a b eq_refl). lia.
    + injection E as <- <-. reflexivity.
Qed.

Lemma add_pairs_length lev next : forall pairs,
  length (add_pairs lev next pairs) = (length next + length pairs)%nat.
Proof.
  unfold add_pairs. induction next as [|p next IH]; simpl; intros pairs; [reflexivity|].
  rewrite IH, sl_add_length. lia.
Qed.

(* a sorted list whose levels are all >= lo and which contains an item of level lo starts with one *)
Lemma sorted_head_level {A} (levf : A -> N) inf l lo x :
  lsorted levf l -> lb levf lo l -> In x l -> levf x = lo -> head_level inf levf l = lo.
Proof.
  intros Hs Hl Hin Ex. destruct Hs as [|a l Ha _]; [destruct Hin|]. simpl.
  inversion Hl as [|? ? Hlo _]; subst. destruct Hin as [->|Hin]; [reflexivity|].
  unfold lb in Ha. rewrite Forall_forall in Ha. specialize (Ha _ Hin). lia.
Qed.

Lemma sl_add_In {A} (ltb : A -> A -> bool) x l : In x (sl_add ltb x l).
Proof. induction l as [|y l IH]; simpl; [auto|]. destruct (ltb x y); simpl; auto. Qed.

Lemma sl_add_incl {A} (ltb : A -> A -> bool) x y l : In y l -> In y (sl_add ltb x l).
Proof.
  induction l as [|z l IH]; simpl; [tauto|]. destruct (ltb x z); simpl; intros [->|H]; auto.
Qed.

Lemma add_singles_In lev next single x : In x next -> In (lev, x) (add_singles lev next single).
Proof.
  unfold add_singles. revert single. induction next as [|y next IH]; simpl; intros single; [tauto|].
  intros [->|H]; [|apply IH, H].
  assert (forall l acc, In (lev, x) acc ->
            In (lev, x) (fold_left (fun acc0 x0 => sl_add witem_ltb (lev, x0) acc0) l acc)) as Hk.
  { induction l as [|z l IHl]; simpl; intros acc Hacc; [exact Hacc|]. apply IHl, sl_add_incl, Hacc. }
  apply Hk, sl_add_In.
Qed.

Lemma eff_loop_count fresh inf : forall fuel single pairs k s res s',
  run fresh (eff_loop fuel inf XAIG single pairs) s = Ok (res, s') ->
  ssorted single -> psorted pairs -> (k <= 1)%nat ->
  (k = 1%nat -> single <> [] /\ (head_level inf fst single <= head_level inf plev pairs)%N) ->
  exists g, adds t_xaig (bc s) (bc s') g /\ (g + 2 * length res + k <= 5 * length single + 8 * length pairs)%nat.
Proof.
  induction fuel as [|f IH]; intros single pairs k s res s' H Hs Hp Hk Hk1.
  { destruct single, pairs; try discriminate. apply run_ret_inv in H as (-> & ->).
    exists 0%nat. split; [apply adds_refl|]. simpl. destruct (Nat.eq_dec k 1) as [E|E]; [|lia].
    destruct (Hk1 E) as (NE & _). contradiction. }
  set (lev := N.min (head_level inf fst single) (head_level inf (fun p : wpair => fst (fst p)) pairs)).
  assert (Hstep : run fresh
      (if (inf <=? lev)%N then Fail PyAssertionError
       else let '(now_singles, single1) := take_level lev single in
            let '(now_pairs, pairs1) := take_level_pairs lev pairs in
            bdo st <- pair_up (rev now_singles) (rev now_pairs);
            bdo lv <- xaig_level (fst st) (snd st);
            let '(r, next_solo, next_xxy) := lv in
            bdo rs <- eff_loop f inf XAIG (add_singles (lev + 1) (rev next_solo) single1)
                                       (add_pairs (lev + 1) (rev next_xxy) pairs1);
            Ret ((lev, r) :: rs)) s = Ok (res, s') ->
    exists g, adds t_xaig (bc s) (bc s') g /\ (g + 2 * length res + k <= 5 * length single + 8 * length pairs)%nat).
  { clear H. intros H. destruct (inf <=? lev)%N eqn:Einf; [discriminate|]. apply N.leb_gt in Einf.
    assert (slb lev single) as Hlb.
    { eapply lb_weaken; [|apply (head_lb (@fst N label) inf), Hs]. unfold lev. lia. }
    assert (plb lev pairs) as Hplb.
    { eapply lb_weaken; [|apply (head_lb plev inf), Hp]. unfold lev, plev. lia. }
    destruct (take_level lev single) as [now single1] eqn:Et.
    destruct (take_level_pairs lev pairs) as [nowp pairs1] eqn:Etp.
    pose proof (take_level_pairs_length _ _ _ _ Etp) as Lp.
    destruct (take_level_spec lev _ _ _ Et Hs Hlb) as (Lt & Srest & Brest & _).
    destruct (take_level_pairs_spec lev _ _ _ Etp Hp Hplb) as (Sprest & Bprest & _).
    assert (k = 1%nat -> (1 <= length now)%nat) as Hnow.
    { intros E. destruct (Hk1 E) as (NE & Hle). destruct single as [|[l0 x0] single']; [contradiction|].
      assert (lev = l0) as El by (unfold lev in *; cbn [head_level fst] in *; unfold plev in Hle; lia).
      cbn [take_level] in Et. rewrite El, N.eqb_refl in Et.
      destruct (take_level l0 single') as [a b]. injection Et as <- <-. simpl. lia. }
    apply run_bind_inv in H as (st & s1 & Hpu & H).
    apply run_bind_inv in H as ([[r ns] nx] & s2 & Hlv & H).
    apply run_bind_inv in H as (rs & s3 & Hrec & H). apply run_ret_inv in H as (-> & ->).
    apply pair_up_count in Hpu as (g1 & A1 & L1 & L2 & L3). rewrite !rev_length in *.
    apply xaig_level_count in Hlv as (g2 & A2 & L4 & B2); [|exact L3]. cbn [fst snd] in *.
    destruct (add_singles_spec (lev + 1) (rev ns) single1 Srest) as (S3 & B3 & L5 & _).
    destruct (add_pairs_spec (lev + 1) (rev nx) pairs1 Sprest) as (S4 & B4 & _).
    pose proof (add_pairs_length (lev + 1) (rev nx) pairs1) as L6. rewrite rev_length in L5, L6.
    apply (IH _ _ (length ns)) in Hrec as (g3 & A3 & B5); [|exact S3|exact S4|exact L4|].
    - exists (g1 + g2 + g3)%nat. split; [eapply adds_trans; [eapply adds_trans; eassumption|exact A3]|].
      cbn [length]. unfold witem, wpair in *. rewrite L5, L6 in B5. rewrite Lt, Lp.
      assert (k <= g1 + length (fst st))%nat by (destruct (Nat.eq_dec k 1) as [E|E]; [specialize (Hnow E)|]; lia).
      lia.
    - intros E. destruct ns as [|c0 [|c1 ns']]; try discriminate. simpl rev in *.
      assert (slb (lev + 1) (add_singles (lev + 1) [c0] single1)) as Hb3 by (apply B3; [lia|exact Brest]).
      assert (plb (lev + 1) (add_pairs (lev + 1) (rev nx) pairs1)) as Hb4 by (apply B4; [lia|exact Bprest]).
      assert (In (lev + 1, c0)%N (add_singles (lev + 1) [c0] single1)) as Hin by (apply add_singles_In; left; reflexivity).
      split; [intros E0; rewrite E0 in Hin; destruct Hin|].
      rewrite (sorted_head_level (@fst N label) inf _ (lev + 1)%N (lev + 1, c0)%N S3 Hb3 Hin eq_refl).
      destruct (add_pairs (lev + 1) (rev nx) pairs1) as [|p0 ps]; cbn [head_level]; [lia|].
      inversion Hb4; subst. assumption. }
  destruct single, pairs; [|apply Hstep, H..].
  apply run_ret_inv in H as (-> & ->). exists 0%nat. split; [apply adds_refl|]. simpl.
  destruct (Nat.eq_dec k 1) as [E|E]; [|lia]. destruct (Hk1 E) as (NE & _). contradiction.
Qed.

(* gates <= 5 n - 2 m in XAIG, for every weight vector and every host *)
Theorem add_sum_n_weighted_bits_xaig_count fresh basis inp s res s' :
  run fresh (add_sum_n_weighted_bits basis inp) s = Ok (res, s') -> resolve_basis basis = Ok XAIG ->
  exists g, adds t_xaig (bc s) (bc s') g /\ (g + 2 * length res <= 5 * length inp)%nat.
Proof.
  intros H Hb. unfold add_sum_n_weighted_bits in H.
  apply run_bind_inv in H as (b & s0 & Hb' & H). apply run_resolve in Hb' as (Hb' & ->).
  assert (b = XAIG) as -> by congruence.
  apply run_bind_inv in H as (inf & s0 & Hi & H). apply run_w_inf in Hi as (_ & ->).
  pose proof (sl_of_list_sorted (@fst N label) witem_ltb witem_ltb_true witem_ltb_false inp) as Hs.
  apply (eff_loop_count fresh inf _ _ _ 0%nat) in H as (g & A & B); [|exact Hs|constructor|lia|discriminate].
  exists g. split; [exact A|]. rewrite sl_of_list_length in B. simpl in B. lia.
Qed.

(* ---- the bound documented in the pinned source is false ------------------------------------------ *)
(* six bits of weight 2^0, three of each weight 2^1 .. 2^6, one of weight 2^7 *)
Definition refuting_weights : list N :=
  (repeat 0 6 ++ repeat 1 3 ++ repeat 2 3 ++ repeat 3 3 ++ repeat 4 3 ++ repeat 5 3 ++ repeat 6 3 ++ [7])%N.

Definition refuted_check : bool :=
  let n := length refuting_weights in
  match bare n with
  | Ok c =>
    match run hex_label (add_sum_n_weighted_bits (BEnum XAIG) (combine refuting_weights (in_labels n 0))) (mkB c 1) with
    | Ok (res, s') => (9 * N.of_nat n <? 2 * N.of_nat (length (added c (bc s'))) + 4 * N.of_nat (length res))%N
    | Err _ => false
    end
  | Err _ => false
  end.

Lemma refuted_check_true : refuted_check = true.
Proof. vm_cast_no_check (@eq_refl bool true). Qed.

Theorem weighted_bound_refuted :
  exists c res s',
    bare (length refuting_weights) = Ok c /\
    run hex_label (add_sum_n_weighted_bits (BEnum XAIG)
                     (combine refuting_weights (in_labels (length refuting_weights) 0))) (mkB c 1) = Ok (res, s') /\
    (9 * N.of_nat (length refuting_weights) <
     2 * N.of_nat (length (added c (bc s'))) + 4 * N.of_nat (length res))%N.
Proof.
  pose proof refuted_check_true as H. unfold refuted_check in H. cbv zeta in H.
  destruct (bare (length refuting_weights)) as [c|]; [|discriminate].
  destruct (run hex_label (add_sum_n_weighted_bits (BEnum XAIG)
              (combine refuting_weights (in_labels (length refuting_weights) 0))) (mkB c 1)) as [[res s']|] eqn:Er;
    [|discriminate].
  exists c, res, s'. split; [reflexivity|]. split; [exact Er|]. apply N.ltb_lt, H.
Qed.
