(* Generated/ArithGen08.v, add_mul_wallace (translator T22) equals the hand model, part 2: shapes of the hand model's
   reduction ([wallace_group], [round_groups], [wallace_round], [wallace_loop] keep the width and the placeholder-free
   cells), the rows that a pass copies, ranges, and the `while` loop against [wallace_loop], generically in the loop
   bodies (a specification of each body is a hypothesis). *)
Require Import Cirbo.Model.Base Cirbo.Model.Gate Cirbo.Model.Circuit Cirbo.Model.Builder Cirbo.Model.PyPrims.
Require Import Cirbo.Model.ArithSub Cirbo.Model.ArithSum2 Cirbo.Model.ArithSumN Cirbo.Model.ArithSumW.
Require Import Cirbo.Model.PyPrims08 Cirbo.Model.PyPrimsWal Cirbo.Model.ArithMul.
Require Import Cirbo.Generated.ArithTables.
Require Import Cirbo.Proofs.ArithGen09Lib Cirbo.Proofs.ArithGen08Lib.
Require Import Cirbo.Proofs.ArithMulWallaceShape Cirbo.Proofs.ArithGen08WLib.
From Coq Require Import ZArith Lia Ascii.
Open Scope Z_scope.

(* ---- inversion of runs ------------------------------------------------------------------------------------------- *)
Lemma w_bind_inv fresh {A B} (p : prog A) (k : A -> prog B) s r s' :
  run fresh (Bind p k) s = Ok (r, s') -> exists a s1, run fresh p s = Ok (a, s1) /\ run fresh (k a) s1 = Ok (r, s').
Proof.
  rewrite run_bind. destruct (run fresh p s) as [[a s1]|e]; [|discriminate]. intros H. exists a, s1. split; [reflexivity|exact H].
Qed.
Lemma w_ret_inv fresh {A} (a : A) s r s' : run fresh (Ret a) s = Ok (r, s') -> r = a /\ s' = s.
Proof. rewrite run_ret. intros H. injection H as <- <-. split; reflexivity. Qed.

Lemma removelast_length {A} (l : list A) : length (removelast l) = (length l - 1)%nat.
Proof.
  induction l as [|x l IH]; [reflexivity|]. destruct l as [|y l]; [reflexivity|].
  change (removelast (x :: y :: l)) with (x :: removelast (y :: l)). cbn [length] in *. rewrite IH. lia.
Qed.

Lemma Forall_skipn {A} (P : A -> Prop) : forall k l, Forall P l -> Forall P (skipn k l).
Proof.
  induction k as [|k IH]; intros l H; [exact H|]. destruct l as [|x l]; [constructor|].
  cbn [skipn]. apply IH. inversion H; assumption.
Qed.

Lemma div3_SSS n : (S (S (S n)) / 3 = S (n / 3))%nat.
Proof.
  replace (S (S (S n))) with (1 * 3 + n)%nat by lia. rewrite Nat.div_add_l by lia. lia.
Qed.

Lemma list_ind3 {A} (P : list A -> Prop) :
  (forall l, (length l < 3)%nat -> P l) -> (forall a b c l, P l -> P (a :: b :: c :: l)) -> forall l, P l.
Proof.
  intros H0 H3. assert (X : forall n l, (length l <= n)%nat -> P l).
  { induction n as [|n IH]; intros l Hl.
    - apply H0. lia.
    - destruct l as [|a [|b [|c l]]]; try (apply H0; cbn [length]; lia).
      apply H3. apply IH. cbn [length] in Hl. lia. }
  intros l. apply (X (length l)). lia.
Qed.

(* ---- shapes of the hand model ---------------------------------------------------------------------------------- *)
Lemma wallace_col_good x y z :
  returns (wallace_col x y z) (fun sc => fst sc <> Some PLACEHOLDER_STR /\ snd sc <> Some PLACEHOLDER_STR).
Proof.
  intros fresh s sc s' H. unfold wallace_col in H.
  destruct (cell_list x ++ cell_list y ++ cell_list z) as [|l0 inp].
  - apply w_ret_inv in H as (-> & _). cbn [fst snd]. split; discriminate.
  - apply w_bind_inv in H as (res & s1 & _ & H).
    destruct res as [|r1 [|r2 [|r3 res]]].
    + rewrite run_fail in H. discriminate.
    + apply w_ret_inv in H as (-> & _). cbn [fst snd]. split; [apply cell_of_good|discriminate].
    + apply w_ret_inv in H as (-> & _). cbn [fst snd]. split; apply cell_of_good.
    + rewrite run_fail in H. discriminate.
Qed.

Lemma wallace_group_ok N : forall ra rb rc, length ra = N -> length rb = N -> length rc = N ->
  returns (wallace_group ra rb rc)
          (fun sc => length (fst sc) = N /\ length (snd sc) = N /\ good (fst sc) /\ good (snd sc)).
Proof.
  intros ra. revert N. induction ra as [|x ra IH]; intros N rb rc Ha Hb Hc fresh s sc s' H.
  - cbn [wallace_group] in H. apply w_ret_inv in H as (-> & _). cbn [fst snd length] in *.
    split; [exact Ha|]. split; [exact Ha|]. split; constructor.
  - destruct rb as [|y rb]; [cbn [length] in *; lia|]. destruct rc as [|z rc]; [cbn [length] in *; lia|].
    rewrite wallace_group_cons in H.
    apply w_bind_inv in H as (sc1 & s1 & Hcol & H). apply w_bind_inv in H as (rest & s2 & Hrest & H).
    apply w_ret_inv in H as (-> & _). cbn [fst snd length] in *.
    apply wallace_col_good in Hcol as (G1 & G2).
    apply (IH (length ra) rb rc eq_refl) in Hrest as (L1 & L2 & G3 & G4); [|lia|lia].
    split; [lia|]. split; [lia|]. split; constructor; assumption.
Qed.

Lemma round_groups_ok N : (1 <= N)%nat -> forall k rows, widths N rows -> (3 * k <= length rows)%nat ->
  returns (round_groups k rows) (fun out => okm N out /\ length out = (2 * k)%nat).
Proof.
  intros HN. induction k as [|k IH]; intros rows W Hk fresh s out s' H.
  - assert (E : round_groups 0 rows = Ret []) by (destruct rows; reflexivity).
    rewrite E in H. apply w_ret_inv in H as (-> & _). split; [split; constructor|reflexivity].
  - destruct rows as [|ra [|rb [|rc rest]]]; try (cbn [length] in Hk; lia).
    cbn [round_groups] in H.
    apply w_bind_inv in H as (sc & s1 & Hg & H). apply w_bind_inv in H as (t & s2 & Ht & H).
    apply w_ret_inv in H as (-> & _).
    unfold widths in W. pose proof (Forall_inv W) as Wa. apply Forall_inv_tail in W.
    pose proof (Forall_inv W) as Wb. apply Forall_inv_tail in W.
    pose proof (Forall_inv W) as Wc. apply Forall_inv_tail in W. cbv beta in Wa, Wb, Wc. rename W into W3.
    apply (wallace_group_ok _ _ _ _ Wa Wb Wc) in Hg as (L1 & L2 & G1 & G2).
    apply IH in Ht as ((Wt & Gt) & Lt); [|exact W3|cbn [length] in Hk; lia].
    split; [split|].
    + constructor; [exact L1|]. constructor; [|exact Wt]. cbn [length]. rewrite removelast_length. lia.
    + constructor; [exact G1|]. constructor; [|exact Gt]. constructor; [discriminate|apply good_removelast, G2].
    + cbn [length]. rewrite Lt. lia.
Qed.

Lemma wallace_round_groups rows :
  peq (wallace_round rows)
      (bdo out <- round_groups (length rows / 3) rows; Ret (out ++ skipn (3 * (length rows / 3)) rows)).
Proof.
  induction rows as [rows Hl|ra rb rc rest IH] using list_ind3; intros fresh s.
  - rewrite Nat.div_small by exact Hl.
    assert (E : round_groups 0 rows = Ret []) by (destruct rows; reflexivity). rewrite E. rs.
    destruct rows as [|a [|b [|c l]]]; try reflexivity. cbn [length] in Hl. lia.
  - cbn [length]. rewrite div3_SSS. cbn [wallace_round round_groups]. rs.
    destruct (run fresh (wallace_group ra rb rc) s) as [[sc s1]|e]; rs; [|reflexivity].
    rewrite IH. rs.
    destruct (run fresh (round_groups (length rest / 3) rest) s1) as [[t s2]|e]; rs; [|reflexivity].
    replace (3 * S (length rest / 3))%nat with (S (S (S (3 * (length rest / 3))))) by lia.
    reflexivity.
Qed.

Lemma wallace_round_ok N R : (1 <= N)%nat -> okm N R -> returns (wallace_round R) (okm N).
Proof.
  intros HN (W & G) fresh s out s' H. rewrite wallace_round_groups in H.
  apply w_bind_inv in H as (o & s1 & Ho & H). apply w_ret_inv in H as (-> & _).
  apply (round_groups_ok N HN) in Ho as ((Wo & Go) & _); [|exact W|apply Nat.mul_div_le; lia].
  split.
  - unfold widths in *. apply Forall_app. split; [exact Wo|apply Forall_skipn, W].
  - unfold goodm in *. apply Forall_app. split; [exact Go|apply Forall_skipn, G].
Qed.

Lemma wallace_loop_ok N : (1 <= N)%nat -> forall fuel R, okm N R ->
  returns (wallace_loop fuel R) (fun R' => okm N R' /\ length R' = 2%nat).
Proof.
  intros HN. induction fuel as [|f IH]; intros R HR fresh s out s' H; cbn [wallace_loop] in H;
    destruct (Nat.eqb_spec (length R) 2) as [E|E].
  - apply w_ret_inv in H as (-> & _). split; assumption.
  - rewrite run_fail in H. discriminate.
  - apply w_ret_inv in H as (-> & _). split; assumption.
  - apply w_bind_inv in H as (r & s1 & Hr & H). apply (wallace_round_ok N R HN HR) in Hr.
    exact (IH r Hr _ _ _ _ H).
Qed.

(* ---- the rows that are copied ------------------------------------------------------------------------------------------ *)
Lemma nth_firstn_skipn {A} (d : A) : forall (a b : list A) j k, length a = length b ->
  nth k (firstn j a ++ skipn j b) d = if (k <? j)%nat then nth k a d else nth k b d.
Proof.
  induction a as [|x a IH]; intros [|y b] j k Hl; cbn [length] in Hl; try discriminate.
  - destruct j, k; cbn [firstn skipn app nth]; destruct (_ <? _)%nat; reflexivity.
  - destruct j as [|j]; [reflexivity|]. destruct k as [|k]; [reflexivity|].
    cbn [firstn skipn app nth]. rewrite IH by lia. reflexivity.
Qed.

(* for col in range(n + m): cn[col].append(<cell col of row rr>) *)
Lemma tail_cols_eq fresh N (F : lmat -> Z -> prog lmat) (rr : list cell) :
  (forall cn col s, (col < N)%nat -> length cn = N ->
     run fresh (F cn (Z.of_nat col)) s = Ok (upd cn col (nth col cn [] ++ [cell_label (nth col rr None)]), s)) ->
  forall R s, run fresh (foldP F (py_range 0 (Z.of_nat N)) (colsof N R)) s = Ok (colsof N (R ++ [rr]), s).
Proof.
  intros HF R s. rewrite py_range_0_nat.
  assert (X : forall k i st, (i + k = N)%nat -> st = firstn i (colsof N (R ++ [rr])) ++ skipn i (colsof N R) ->
              run fresh (foldP F (map Z.of_nat (seq i k)) st) s = Ok (colsof N (R ++ [rr]), s)).
  { induction k as [|k IH]; intros i st Hi Hst.
    - cbn [seq map foldP]. rs. subst st. rewrite firstn_all2 by (rewrite colsof_length; lia).
      rewrite skipn_all2 by (rewrite colsof_length; lia). rewrite app_nil_r. reflexivity.
    - cbn [seq map foldP]. rs.
      assert (Lst : length st = N).
      { subst st. rewrite app_length, firstn_length, skipn_length, !colsof_length. lia. }
      rewrite HF by (try exact Lst; lia). rs. apply IH; [lia|].
      apply (nth_ext _ _ [] []).
      { rewrite upd_length, Lst, app_length, firstn_length, skipn_length, !colsof_length. lia. }
      intros c Hc. rewrite upd_length, Lst in Hc.
      rewrite upd_nth_ext, Lst. subst st. rewrite !nth_firstn_skipn by (rewrite !colsof_length; reflexivity).
      rewrite Nat.ltb_irrefl.
      destruct (Nat.eqb_spec c i) as [->|Hne]; cbn [andb].
      + destruct (Nat.ltb_spec i N); [|lia]. destruct (Nat.ltb_spec i (S i)); [|lia].
        rewrite !colsof_nth by lia. symmetry. apply col_of_snoc.
      + destruct (Nat.ltb_spec c i), (Nat.ltb_spec c (S i)); try lia; reflexivity. }
  apply (X N 0%nat); reflexivity.
Qed.

(* for row in range(lo, len): <F cn row> *)
Lemma tail_rows_eq fresh N (F : lmat -> Z -> prog lmat) (rows : cmat) lo :
  (forall r out s, (lo <= r < length rows)%nat ->
     run fresh (F (colsof N out) (Z.of_nat r)) s = Ok (colsof N (out ++ [nth r rows []]), s)) ->
  forall out s, (lo <= length rows)%nat ->
  run fresh (foldP F (py_range (Z.of_nat lo) (Z.of_nat (length rows))) (colsof N out)) s
  = Ok (colsof N (out ++ skipn lo rows), s).
Proof.
  intros HF out s Hlo. rewrite py_range_nat.
  assert (X : forall k r out, (r + k = length rows)%nat -> (lo <= r)%nat ->
              run fresh (foldP F (map Z.of_nat (seq r k)) (colsof N out)) s = Ok (colsof N (out ++ skipn r rows), s)).
  { induction k as [|k IH]; intros r o Hr Hl.
    - cbn [seq map foldP]. rs. rewrite skipn_all2 by lia. rewrite app_nil_r. reflexivity.
    - cbn [seq map foldP]. rs. rewrite HF by lia. rs. rewrite IH by lia.
      rewrite <- app_assoc. cbn [app]. rewrite <- (skipn_nth rows r []) by lia. reflexivity. }
  apply X; lia.
Qed.

(* ---- ranges and sizes ---------------------------------------------------------------------------------------------------- *)
Lemma len_sub_mod3 L : Z.of_nat L - Z.of_nat L mod 3 = Z.of_nat (3 * (L / 3)).
Proof.
  rewrite Nat2Z.inj_mul, Nat2Z.inj_div. change (Z.of_nat 3) with 3. Z.div_mod_to_equations. lia.
Qed.

Lemma row_div3 g : Z.of_nat (3 * g) / 3 = Z.of_nat g.
Proof.
  rewrite Nat2Z.inj_mul. change (Z.of_nat 3) with 3. Z.div_mod_to_equations. lia.
Qed.

Lemma py_range_step3 L :
  py_range_step 0 (Z.of_nat (3 * (L / 3))) 3 = map (fun g => Z.of_nat (3 * g)) (seq 0 (L / 3)).
Proof.
  unfold py_range_step. generalize (L / 3)%nat. intros G.
  assert (E : (Z.of_nat (3 * G) - 0 + 3 - 1) / 3 = Z.of_nat G).
  { rewrite Nat2Z.inj_mul. change (Z.of_nat 3) with 3. Z.div_mod_to_equations. lia. }
  rewrite E, Nat2Z.id. apply map_ext. intros i. lia.
Qed.

Lemma two_len_div3 L : 2 * (Z.of_nat L / 3) = Z.of_nat (2 * (L / 3)).
Proof.
  rewrite Nat2Z.inj_mul, Nat2Z.inj_div. reflexivity.
Qed.

(* [e for _ in range(k)] for an element that reads only *)
Lemma mapP_const fresh {A B} (P : prog B) (v : B) (l : list A) s :
  (forall s, run fresh P s = Ok (v, s)) -> run fresh (mapP (fun _ => P) l) s = Ok (repeat v (length l), s).
Proof.
  intros HP. induction l as [|x l IH]; cbn [mapP length repeat]; rs; [reflexivity|].
  rewrite HP. rs. rewrite IH. rs. reflexivity.
Qed.

(* ---- the while loop --------------------------------------------------------------------------------------------------------- *)
Lemma wal_while_eq fresh N (cond : lmat -> prog bool) (body : lmat -> prog lmat) : (1 <= N)%nat ->
  (forall R s, run fresh (cond (colsof N R)) s = Ok (negb (length R =? 2)%nat, s)) ->
  (forall R s, okm N R ->
     run fresh (body (colsof N R)) s
     = match run fresh (wallace_round R) s with Ok (R', s') => Ok (colsof N R', s') | Err e => Err e end) ->
  forall fuel R s, okm N R ->
  run fresh (py_while_m fuel cond body (colsof N R)) s
  = match run fresh (wallace_loop fuel R) s with Ok (R', s') => Ok (colsof N R', s') | Err e => Err e end.
Proof.
  intros HN Hcond Hbody. induction fuel as [|f IH]; intros R s HR; cbn [py_while_m wallace_loop]; rs;
    rewrite Hcond; rs; destruct (Nat.eqb_spec (length R) 2) as [E|E]; cbn [negb]; rs; try reflexivity.
  rewrite Hbody by exact HR.
  destruct (run fresh (wallace_round R) s) as [[R' s1]|e] eqn:ER; rs; [|reflexivity].
  apply IH. exact (wallace_round_ok N R HN HR _ _ _ _ ER).
Qed.
