(* Generated/ArithGen08.v, add_mul_wallace (translator T22) equals the hand model, part 2: shapes of the hand model's
   reduction ([wallace_group], [round_groups], [wallace_round], [wallace_loop] keep the width and the placeholder-free
   cells), the rows that a pass copies, ranges, and the `while` loop against [wallace_loop], generically in the loop
   bodies (a specification of each body is a hypothesis). *)
Require Import Cirbo.Model.Base Cirbo.Model.Gate Cirbo.Model.Circuit Cirbo.Model.Builder Cirbo.Model.PyPrims.
Require Import Cirbo.Model.ArithSub Cirbo.Model.ArithSum2 Cirbo.Model.ArithSumN Cirbo.Model.ArithSumW.
Require Import Cirbo.Model.PyPrims08 Cirbo.Model.PyPrimsWal Cirbo.Model.ArithMul.
Require Import Cirbo.Generated.ArithTables.
Require Import Cirbo.Proofs.ArithGen09Lib Cirbo.Proofs.ArithGen08Lib.
Require Import Cirbo.Proofs.ArithMulWallaceShape Cirbo.Proofs.ArithGen08WLib.
From Coq Require Import ZArith Lia Ascii.
Open Scope Z_scope.

(* ---- shapes of the hand model ---------------------------------------------------------------------------------- *)
Lemma wallace_col_good x y z :
  returns (wallace_col x y z) (fun sc => fst sc <> Some PLACEHOLDER_STR /\ snd sc <> Some PLACEHOLDER_STR).
Proof.
Admitted.

Lemma wallace_group_ok N : forall ra rb rc, length ra = N -> length rb = N -> length rc = N ->
  returns (wallace_group ra rb rc)
          (fun sc => length (fst sc) = N /\ length (snd sc) = N /\ good (fst sc) /\ good (snd sc)).
Proof.
Admitted.

Lemma round_groups_ok N : (1 <= N)%nat -> forall k rows, widths N rows -> (3 * k <= length rows)%nat ->
  returns (round_groups k rows) (fun out => okm N out /\ length out = (2 * k)%nat).
Proof.
Admitted.

Lemma wallace_round_groups rows :
  peq (wallace_round rows)
      (bdo out <- round_groups (length rows / 3) rows; Ret (out ++ skipn (3 * (length rows / 3)) rows)).
Proof.
Admitted.

Lemma wallace_round_ok N R : (1 <= N)%nat -> okm N R -> returns (wallace_round R) (okm N).
Proof.
Admitted.

Lemma wallace_loop_ok N : (1 <= N)%nat -> forall fuel R, okm N R ->
  returns (wallace_loop fuel R) (fun R' => okm N R' /\ length R' = 2%nat).
Proof.
Admitted.

(* ---- the rows that are copied ------------------------------------------------------------------------------------------ *)
(* for col in range(n + m): cn[col].append(<cell col of row rr>) *)
Lemma tail_cols_eq fresh N (F : lmat -> Z -> prog lmat) (rr : list cell) :
  (forall cn col s, (col < N)%nat -> length cn = N ->
     run fresh (F cn (Z.of_nat col)) s = Ok (upd cn col (nth col cn [] ++ [cell_label (nth col rr None)]), s)) ->
  forall R s, run fresh (foldP F (py_range 0 (Z.of_nat N)) (colsof N R)) s = Ok (colsof N (R ++ [rr]), s).
Proof.
Admitted.

(* for row in range(lo, len): <F cn row> *)
Lemma tail_rows_eq fresh N (F : lmat -> Z -> prog lmat) (rows : cmat) lo :
  (forall r out s, (lo <= r < length rows)%nat ->
     run fresh (F (colsof N out) (Z.of_nat r)) s = Ok (colsof N (out ++ [nth r rows []]), s)) ->
  forall out s, (lo <= length rows)%nat ->
  run fresh (foldP F (py_range (Z.of_nat lo) (Z.of_nat (length rows))) (colsof N out)) s
  = Ok (colsof N (out ++ skipn lo rows), s).
Proof.
Admitted.

(* ---- ranges and sizes ---------------------------------------------------------------------------------------------------- *)
Lemma len_sub_mod3 L : Z.of_nat L - Z.of_nat L mod 3 = Z.of_nat (3 * (L / 3)).
Proof.
Admitted.

Lemma py_range_step3 L :
  py_range_step 0 (Z.of_nat (3 * (L / 3))) 3 = map (fun g => Z.of_nat (3 * g)) (seq 0 (L / 3)).
Proof.
Admitted.

Lemma two_len_div3 L : 2 * (Z.of_nat L / 3) = Z.of_nat (2 * (L / 3)).
Proof.
Admitted.

Lemma row_div3 g : Z.of_nat (3 * g) / 3 = Z.of_nat g.
Proof.
Admitted.

(* [e for _ in range(k)] for an element that reads only *)
Lemma mapP_const fresh {A B} (P : prog B) (v : B) (l : list A) s :
  (forall s, run fresh P s = Ok (v, s)) -> run fresh (mapP (fun _ => P) l) s = Ok (repeat v (length l), s).
Proof.
Admitted.

(* ---- the while loop --------------------------------------------------------------------------------------------------------- *)
Lemma wal_while_eq fresh N (cond : lmat -> prog bool) (body : lmat -> prog lmat) : (1 <= N)%nat ->
  (forall R s, run fresh (cond (colsof N R)) s = Ok (negb (length R =? 2)%nat, s)) ->
  (forall R s, okm N R ->
     run fresh (body (colsof N R)) s
     = match run fresh (wallace_round R) s with Ok (R', s') => Ok (colsof N R', s') | Err e => Err e end) ->
  forall fuel R s, okm N R ->
  run fresh (py_while_m fuel cond body (colsof N R)) s
  = match run fresh (wallace_loop fuel R) s with Ok (R', s') => Ok (colsof N R', s') | Err e => Err e end.
Proof.
Admitted.
