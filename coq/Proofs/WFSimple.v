(* C02: mutators that touch only inputs / outputs / blocks. *)
Require Import Cirbo.Model.Base Cirbo.Model.Gate Cirbo.Model.Circuit Cirbo.Model.WF.
Require Import Cirbo.Proofs.DictFacts Cirbo.Proofs.WFBase.
Require Import Coq.Sorting.Permutation.

Ltac binv H x Hx := apply bind_ok in H; destruct H as [x [Hx H]].

(* ---------------- generic frame lemmas ---------------- *)
Lemma WF_set_outputs_raw c outs :
  WF c -> (forall o, In o outs -> has_gate c o = true) -> WF (set_outputs_raw c outs).
Proof. intros W H; destruct W; constructor; simpl; auto. Qed.

Lemma WF_set_inputs_raw c ins :
  WF c -> Permutation (inputs c) ins -> WF (set_inputs_raw c ins).
Proof.
  intros W P; destruct W; constructor; simpl; auto.
  - eapply Permutation_NoDup; eassumption.
  - intros l; rewrite <- wf_inputs. split; apply Permutation_in; [apply Permutation_sym|]; assumption.
Qed.

Lemma WF_set_blocks c bs :
  WF c -> NoDup (dkeys bs) ->
  (forall b blk l, dget bs b = Some blk -> In l (bgates blk ++ binputs blk ++ boutputs blk) ->
                   has_gate c l = true) ->
  WF (set_blocks c bs).
Proof. intros W H1 H2; destruct W; constructor; simpl; auto. Qed.

(* ---------------- mark_as_output / set_outputs ---------------- *)
Lemma mark_as_output_wf c l c' : WF c -> mark_as_output c l = Ok c' -> WF c'.
Proof.
  unfold mark_as_output; intros W H. binv H u Hu. injection H as <-.
  apply WF_set_outputs_raw; [assumption|]. intros o Ho; apply in_app_or in Ho; destruct Ho as [Ho|Ho].
  - apply (wf_outs c W), Ho.
  - eapply check_gates_exist_unit; eassumption.
Qed.

Lemma set_outputs_wf c ls c' : WF c -> set_outputs c ls = Ok c' -> WF c'.
Proof.
  unfold set_outputs; intros W H. binv H u Hu. injection H as <-.
  apply WF_set_outputs_raw; [assumption|]. eapply check_gates_exist_unit; eassumption.
Qed.

(* ---------------- set_inputs ---------------- *)
Lemma set_inputs_loop_spec c ins : forall acc r,
  set_inputs_loop c ins acc = Ok r -> NoDup acc ->
  r = acc ++ ins /\ NoDup r /\
  forall i, In i ins -> exists g, dget (gates c) i = Some g /\ gtyp g = INPUT.
Proof.
  induction ins as [|i ins IH]; simpl; intros acc r H Hnd.
  - injection H as <-. rewrite app_nil_r; repeat split; [assumption|intros ? []].
  - binv H g Hg. apply get_gate_ok in Hg.
    destruct (gtype_beq (gtyp g) INPUT) eqn:Et; simpl in H; [|discriminate].
    destruct (memb i acc) eqn:Em; [discriminate|].
    apply IH in H.
    + destruct H as (-> & Hn & Hall). rewrite <- app_assoc in *; simpl in *.
      split; [reflexivity|]. split; [assumption|].
      intros j [<-|Hj]; [|auto]. exists g; split; [assumption|apply gtype_beq_eq, Et].
    + apply memb_nIn in Em. apply NoDup_count; intros x; rewrite count_app; simpl.
      apply NoDup_count with (x := x) in Hnd. destruct (leqb_spec x i) as [->|]; [|lia].
      apply count_zero_nIn in Em; lia.
Qed.

Lemma set_inputs_wf c ls c' : WF c -> set_inputs c ls = Ok c' -> WF c'.
Proof.
  unfold set_inputs; intros W H. binv H u Hu.
  destruct (forallb _ (gates c)) eqn:Ef; [|discriminate]. binv H acc Hacc. injection H as <-.
  apply set_inputs_loop_spec in Hacc; [|constructor]. simpl in Hacc. destruct Hacc as (-> & Hnd & Hall).
  apply WF_set_inputs_raw; [assumption|]. apply NoDup_Permutation; [apply (wf_inputs_nodup c W)|assumption|].
  intros l; rewrite (wf_inputs c W). split; [|apply Hall].
  intros [g [Hg Ht]]. rewrite forallb_forall in Ef. specialize (Ef (l, g) (dget_In _ _ _ Hg)); simpl in Ef.
  rewrite Ht in Ef; simpl in Ef. apply memb_In, Ef.
Qed.

(* ---------------- order_list ---------------- *)
Lemma remove1_perm e l : In e l -> Permutation l (e :: remove1 e l).
Proof.
  intros H; apply count_perm; intros x; simpl; rewrite count_remove1.
  apply count_pos_In in H. destruct (leqb_spec x e) as [->|]; lia.
Qed.

Lemma order_list_loop_perm ordered : forall oc acc new oc',
  order_list_loop ordered oc acc = Ok (new, oc') -> Permutation (acc ++ oc) (new ++ oc').
Proof.
  induction ordered as [|e rest IH]; simpl; intros oc acc new oc' H.
  - injection H as <- <-; apply Permutation_refl.
  - destruct (memb e oc) eqn:Em; [|discriminate]. apply IH in H. apply memb_In in Em.
    eapply Permutation_trans; [|exact H]. rewrite <- app_assoc; simpl.
    apply Permutation_app_head, remove1_perm, Em.
Qed.

Lemma order_list_perm ordered old new : order_list ordered old = Ok new -> Permutation old new.
Proof.
  unfold order_list; intros H. binv H r Hr. destruct r as [nw oc'].
  apply order_list_loop_perm in Hr; simpl in Hr.
  destruct (Nat.eqb (length nw) (length old)) eqn:El; injection H as <-; [|assumption].
  apply Nat.eqb_eq in El. pose proof (Permutation_length Hr) as Hl. rewrite app_length in Hl.
  destruct oc'; [rewrite app_nil_r in Hr; assumption|simpl in Hl; lia].
Qed.

Lemma order_inputs_wf c ls c' : WF c -> order_inputs c ls = Ok c' -> WF c'.
Proof.
  unfold order_inputs; intros W H. binv H l Hl. injection H as <-.
  apply WF_set_inputs_raw; [assumption|eapply order_list_perm; eassumption].
Qed.

Lemma order_outputs_wf c ls c' : WF c -> order_outputs c ls = Ok c' -> WF c'.
Proof.
  unfold order_outputs; intros W H. binv H l Hl. injection H as <-.
  apply WF_set_outputs_raw; [assumption|]. intros o Ho. apply (wf_outs c W).
  eapply Permutation_in; [apply Permutation_sym; eapply order_list_perm; eassumption|assumption].
Qed.

(* ---------------- blocks ---------------- *)
Lemma delete_block_wf c b c' : WF c -> delete_block c b = Ok c' -> WF c'.
Proof.
  unfold delete_block; intros W H. destruct (dmem (blocks c) b); [|discriminate]. injection H as <-.
  apply WF_set_blocks; [assumption|apply NoDup_dkeys_ddel, (wf_bkeys c W)|].
  intros b' blk l Hg Hin. rewrite dget_ddel in Hg by apply (wf_bkeys c W).
  destruct (leqb b' b); [discriminate|]. eapply (wf_blocks c W); eassumption.
Qed.

Lemma collect_block_inputs_exist c gs r :
  WF c -> collect_block_inputs c gs = Ok r -> forall l, In l r -> has_gate c l = true.
Proof.
  intros W; unfold collect_block_inputs.
  apply (foldM_ok_inv _ (fun acc => forall l, In l acc -> has_gate c l = true)); [|intros ? []].
  intros acc g acc' _ Hacc H. binv H gt0 Hgt. injection H as <-. apply get_gate_ok in Hgt.
  intros l Hl; apply in_app_or in Hl; destruct Hl as [Hl|Hl]; [auto|].
  apply filter_In in Hl; destruct Hl as [Hl _]. eapply (wf_ops c W); eassumption.
Qed.

Lemma WF_add_block c name ins gs outs :
  WF c -> (forall l, In l gs -> has_gate c l = true) -> (forall l, In l outs -> has_gate c l = true) ->
  (forall l, In l ins -> has_gate c l = true) ->
  WF (set_blocks c (dset (blocks c) name (mkBlock ins gs outs))).
Proof.
  intros W Hgs Houts Hins.
  apply WF_set_blocks; [assumption|apply NoDup_dkeys_dset, (wf_bkeys c W)|].
  intros b blk l Hg Hin. rewrite dget_dset in Hg. destruct (leqb b name).
  - injection Hg as <-; simpl in Hin. apply in_app_or in Hin; destruct Hin as [Hin|Hin]; [auto|].
    apply in_app_or in Hin; destruct Hin as [Hin|Hin]; auto.
  - eapply (wf_blocks c W); eassumption.
Qed.

Lemma make_block_wf c name gs outs ins c' : WF c -> make_block c name gs outs ins = Ok c' -> WF c'.
Proof.
  unfold make_block; intros W H. binv H u0 H0. binv H u1 H1. binv H u2 H2. binv H ins' Hi.
  injection H as <-.
  apply WF_add_block; try assumption; try (eapply check_gates_exist_unit; eassumption).
  destruct ins as [i|].
  - binv Hi u3 H3. injection Hi as <-. eapply check_gates_exist_unit; eassumption.
  - eapply collect_block_inputs_exist; eassumption.
Qed.

Lemma make_block_from_slice_wf c name ins outs c' :
  WF c -> make_block_from_slice c name ins outs = Ok c' -> WF c'.
Proof.
  unfold make_block_from_slice; intros W H. binv H u0 H0. binv H u1 H1. binv H u2 H2. binv H gs Hgs.
  eapply make_block_wf; eassumption.
Qed.
