(* Additional facts about the DFS of Model/Traverse.v used by the pass proofs (C18):
   determinism of the step relation, transport of a run between two circuits that agree on a
   closed set of labels, the exit list of a completed run without any assumption on the
   circuit, and the post-order property as a statement about the exit LIST. *)
Require Import Cirbo.Model.Base Cirbo.Model.Gate Cirbo.Model.Circuit Cirbo.Model.Traverse Cirbo.Model.WF.
Require Import Cirbo.Proofs.DictFacts Cirbo.Proofs.TopSort Cirbo.Proofs.TopSortWF.
Require Import Cirbo.Proofs.TraverseStep Cirbo.Proofs.TraverseInv Cirbo.Proofs.TraverseDfs
               Cirbo.Proofs.TraverseFuel Cirbo.Proofs.TraverseSpec Cirbo.Proofs.TraverseFinal.

(* ---------------- determinism ---------------- *)
Section Det.
  Variable inverse : bool.
  Variable c : circuit.
  Variable abort : label -> tstate -> option err.

  Lemma Step_queue_nonempty x y : Step DFS inverse c abort x y -> snd (fst x) <> [].
  Proof.
    intros HS. destruct HS as [sts queue log cur rest Hh|sts queue log cur rest Hh|sts queue log cur rest Hh];
      simpl; unfold is_head in Hh; subst queue; intros E; apply app_eq_nil in E; destruct E; discriminate.
  Qed.

  Lemma Step_det x y y' : Step DFS inverse c abort x y -> Step DFS inverse c abort x y' -> y = y'.
  Proof.
    intros H1 H2.
    destruct H1 as [sts queue log cur rest Hh Hs Hk Hall sts1|sts queue log cur rest Hh Hs Hk|sts queue log cur rest Hh Hs Hk];
      inversion H2 as [sts' queue' log' cur' rest' Hh' Hs' Hk' Hall' sts1' E1 E2
                      |sts' queue' log' cur' rest' Hh' Hs' Hk' E1 E2
                      |sts' queue' log' cur' rest' Hh' Hs' Hk' E1 E2];
      subst; unfold is_head in Hh, Hh'; rewrite Hh in Hh'; apply app_inj_tail in Hh'; destruct Hh' as [-> ->];
      try congruence; reflexivity.
  Qed.

  Lemma Steps_det_final x sts log sts' log' :
    Steps DFS inverse c abort x (sts, [], log) -> Steps DFS inverse c abort x (sts', [], log') ->
    sts = sts' /\ log = log'.
  Proof.
    intros H1. remember (sts, @nil label, log) as fin eqn:Ef. revert Ef.
    induction H1 as [x|x y z HS HSs IH]; intros Ef H2.
    - subst x. inversion H2 as [|x' y' z' HS' HSs']; subst; [split; congruence|].
      exfalso. apply Step_queue_nonempty in HS'. apply HS'. reflexivity.
    - inversion H2 as [|x' y' z' HS' HSs']; subst.
      + exfalso. apply Step_queue_nonempty in HS. apply HS. reflexivity.
      + rewrite (Step_det _ _ _ HS HS') in IH. apply IH; [reflexivity|exact HSs'].
  Qed.
End Det.

(* ---------------- transport between two circuits ---------------- *)
Section Lift.
  Variables c c' : circuit.
  Variable K : label -> Prop.
  Hypothesis HK : forall l, K l -> key c l /\ ops_of c l = ops_of c' l /\ forall o, In o (ops_of c l) -> K o.

  Lemma Step_lift x y :
    (forall l, In l (snd (fst x)) -> K l) -> Step DFS false c' no_abort x y ->
    Step DFS false c no_abort x y /\ (forall l, In l (snd (fst y)) -> K l).
  Proof.
    intros Hq HS.
    destruct HS as [sts queue log cur rest Hh Hs Hk Hall sts1|sts queue log cur rest Hh Hs Hk|sts queue log cur rest Hh Hs Hk];
      simpl in Hq; assert (Hc : K cur) by (apply Hq; unfold is_head in Hh; subst queue; apply in_or_app; right; left; reflexivity);
      destruct (HK cur Hc) as (Hkc & Hops & Hcl).
    - assert (En : nxt false c' cur = nxt false c cur) by (simpl; symmetry; exact Hops).
      rewrite En. split.
      + apply (St_enter DFS false c no_abort sts queue log cur rest Hh Hs Hkc).
        intros ch Hch. split; [|reflexivity]. simpl in Hch. apply Hcl in Hch. apply HK in Hch. tauto.
      + simpl. intros l Hl. apply in_app_or in Hl. destruct Hl as [Hl|Hl]; [apply Hq; exact Hl|].
        apply pushed_In in Hl. destruct Hl as [Hl _]. apply Hcl; exact Hl.
    - split; [apply (St_exit DFS false c no_abort sts queue log cur rest Hh Hs Hkc)|].
      simpl. intros l Hl. apply Hq. unfold is_head in Hh; subst queue. apply in_or_app; left; exact Hl.
    - split; [apply (St_skip DFS false c no_abort sts queue log cur rest Hh Hs Hkc)|].
      simpl. intros l Hl. apply Hq. unfold is_head in Hh; subst queue. apply in_or_app; left; exact Hl.
  Qed.

  Lemma Steps_lift x y :
    Steps DFS false c' no_abort x y -> (forall l, In l (snd (fst x)) -> K l) ->
    Steps DFS false c no_abort x y.
  Proof.
    induction 1 as [x|x y z HS _ IH]; intros Hq; [constructor|].
    destruct (Step_lift x y Hq HS) as [HS' Hq']. econstructor; [exact HS'|apply IH; exact Hq'].
  Qed.
End Lift.

(* ---------------- a completed DFS, no assumption on the circuit ---------------- *)
Lemma dfs_final_exits inverse c abort sl sts log0 :
  Steps DFS inverse c abort ([], sl, []) (sts, [], log0) ->
  NoDup (exits log0) /\ forall l, In l (exits log0) <-> reach (nxt inverse c) sl l.
Proof.
  intros HSt.
  pose proof (InvA_steps DFS inverse c abort sl _ _ HSt (InvA_init DFS inverse c sl)) as HA.
  unfold InvA' in HA; simpl in HA.
  pose proof (InvP_steps inverse c abort _ _ HSt (InvP_init inverse c sl)) as HP.
  unfold InvP' in HP; simpl in HP.
  split; [exact (A_exits _ _ _ _ _ _ _ HA)|].
  intros l. rewrite <- (InvA_final DFS inverse c sl sts log0 HA l).
  rewrite exits_In, (A_exit _ _ _ _ _ _ _ HA), (A_yield _ _ _ _ _ _ _ HA). split.
  - intros [_ H]; congruence.
  - intros H. split; [reflexivity|]. destruct (state_of sts l) eqn:E; [congruence| |reflexivity].
    destruct (P_in _ _ _ _ HP l E).
Qed.

(* the traversal as loop run + tail *)
Lemma traverse_dfs_inv c outs log :
  traverse DFS false c (Some outs) false no_abort = Ok log ->
  (gates c = [] /\ log = []) \/
  (gates c <> [] /\ exists sts log0,
     Steps DFS false c no_abort ([], outs, []) (sts, [], log0) /\ exits log = exits log0).
Proof.
  intros H. assert (Hcase : gates c = [] \/ gates c <> []).
  { destruct (gates c); [left; reflexivity|right; discriminate]. }
  destruct Hcase as [Eg|Hne].
  - left. rewrite traverse_empty in H by exact Eg. injection H as <-. auto.
  - right. split; [exact Hne|]. rewrite (traverse_nonempty _ _ _ _ _ _ Hne) in H. simpl in H.
    apply bind_ok in H. destruct H as ([sts log0] & Hrun & H). simpl in H. injection H as <-.
    exists sts, log0. split; [eapply loop_ok_steps; exact Hrun|].
    rewrite exits_app. fold (tail_evs (filter (fun l => tstate_beq (state_of sts l) UNVISITED) (dkeys (gates c)))).
    rewrite exits_tail, app_nil_r. reflexivity.
Qed.

(* ---------------- post-order on the exit list ---------------- *)
Lemma exits_split log : forall pre a post, exits log = pre ++ a :: post ->
  exists L1 L2, log = L1 ++ EvExit a :: L2 /\ exits L1 = pre /\ exits L2 = post.
Proof.
  induction log as [|e log IH]; intros pre a post E; [destruct pre; discriminate|].
  assert (Hother : exits [e] = [] -> exists L1 L2, e :: log = L1 ++ EvExit a :: L2 /\ exits L1 = pre /\ exits L2 = post).
  { intros He. change (e :: log) with ([e] ++ log) in E. rewrite exits_app, He in E. simpl in E.
    destruct (IH pre a post E) as (L1 & L2 & -> & H1 & H2). exists (e :: L1), L2.
    split; [reflexivity|]. split; [|exact H2].
    change (e :: L1) with ([e] ++ L1). rewrite exits_app, He. exact H1. }
  destruct e as [l|l s|l|l|l|]; try (apply Hother; reflexivity).
  change (EvExit l :: log) with ([EvExit l] ++ log) in E. rewrite exits_app in E. simpl in E.
  destruct pre as [|p pre]; simpl in E.
  - injection E as -> E. exists [], log. auto.
  - injection E as -> E. destruct (IH pre a post E) as (L1 & L2 & -> & H1 & H2).
    exists (EvExit p :: L1), L2. split; [reflexivity|]. split; [|exact H2].
    change (EvExit p :: L1) with ([EvExit p] ++ L1). rewrite exits_app, H1. reflexivity.
Qed.

Lemma precedes_exits log a b pre post :
  precedes (EvExit b) (EvExit a) log -> exits log = pre ++ a :: post -> In b pre.
Proof.
  intros Hp E. destruct (exits_split log pre a post E) as (L1 & L2 & -> & <- & _).
  apply exits_In. apply (Hp L1 L2). reflexivity.
Qed.

(* exits of a DFS over a well-formed circuit: exactly the reachable gates, each once, every gate
   after all of its operands *)
Definition ops_before (c : circuit) (order : list label) : Prop :=
  forall pre a post, order = pre ++ a :: post -> forall b, In b (ops_of c a) -> In b pre.

Lemma dfs_exits_wf c outs tu log :
  WF c -> (forall o, In o outs -> has_gate c o = true) ->
  traverse DFS false c (Some outs) tu no_abort = Ok log ->
  NoDup (exits log) /\ (forall l, In l (exits log) <-> reach (ops_of c) outs l) /\
  ops_before c (exits log).
Proof.
  intros Hwf Hs Hl.
  assert (Hse : starts_exist false c (Some outs)) by exact Hs.
  destruct (traverse_hooks DFS false c (Some outs) tu log Hwf Hse Hl) as (_ & _ & Hnd & _ & Hex).
  destruct (traverse_yields_reachable DFS false c (Some outs) tu log Hwf Hse Hl) as (_ & Hre).
  split; [exact Hnd|]. split.
  - intros l. rewrite (Hex eq_refl l). apply Hre.
  - intros pre a post E b Hb.
    assert (Ha : In a (yielded log)).
    { apply (Hex eq_refl). rewrite E. apply in_elt. }
    destruct (dfs_post_order false c (Some outs) tu log Hwf Hse Hl a b Ha (tc_one _ a b Hb)) as (_ & _ & Hp).
    eapply precedes_exits; eassumption.
Qed.
