(* C10: Block.into_circuit.
   (1) block_into_circuit_spec: a closed description of the circuit that block_into_circuit
       returns, and the conditions under which it returns (for any circuit and block);
   (2) connect_block_extract: after connect_circuit with a block name, extracting that block
       gives a well formed circuit that computes the attached circuit's gates (its outputs
       in particular) as functions of the attached circuit's inputs - for both directions. *)
Require Import Cirbo.Model.Base Cirbo.Model.Gate Cirbo.Model.Circuit Cirbo.Model.Eval Cirbo.Model.Sem
        Cirbo.Model.Connect Cirbo.Model.WF.
Require Import Cirbo.Proofs.DictFacts Cirbo.Proofs.WFBase Cirbo.Proofs.WFSimple Cirbo.Proofs.WFEmplace
        Cirbo.Proofs.WFCopy Cirbo.Proofs.WFConnect1 Cirbo.Proofs.WFConnect2 Cirbo.Proofs.SemFacts
        Cirbo.Proofs.SemExtConnect Cirbo.Proofs.SemConnectStruct Cirbo.Proofs.SemConnectLeft.

Lemma memb_app x a b : memb x (a ++ b) = memb x a || memb x b.
Proof. induction a as [|y a IH]; simpl; [reflexivity|]. destruct (leqb x y); [reflexivity|exact IH]. Qed.

(* keep the first occurrence of every label, in order *)
Fixpoint nub_acc (acc l : list label) : list label :=
  match l with
  | [] => acc
  | x :: l' => if memb x acc then nub_acc acc l' else nub_acc (acc ++ [x]) l'
  end.
Definition nub_first (l : list label) : list label := nub_acc [] l.

Lemma memb_nub_acc : forall l acc x, memb x (nub_acc acc l) = memb x acc || memb x l.
Proof.
  induction l as [|y l IH]; intros acc x; simpl; [rewrite orb_false_r; reflexivity|].
  destruct (memb y acc) eqn:E; rewrite IH.
  - destruct (leqb_spec x y) as [->|_]; [rewrite E; reflexivity|reflexivity].
  - rewrite memb_app; simpl. destruct (leqb x y), (memb x acc), (memb x l); reflexivity.
Qed.

Lemma nub_acc_nodup : forall l acc, NoDup l -> (forall x, In x l -> ~ In x acc) -> nub_acc acc l = acc ++ l.
Proof.
  induction l as [|y l IH]; intros acc Hnd Hd; simpl; [rewrite app_nil_r; reflexivity|].
  inversion Hnd as [|? ? Hy Hnd']; subst.
  assert (E : memb y acc = false) by (apply memb_nIn, Hd; left; reflexivity). rewrite E.
  rewrite IH; [rewrite <- app_assoc; reflexivity|exact Hnd'|].
  intros x Hx Hin. apply in_app_or in Hin. destruct Hin as [Hin|[<-|[]]]; [|contradiction].
  apply (Hd x); [right; exact Hx|exact Hin].
Qed.

Lemma nub_first_nodup l : NoDup l -> nub_first l = l.
Proof. intros H. unfold nub_first. rewrite nub_acc_nodup; [reflexivity|exact H|intros x _ []]. Qed.

(* ------------------------------------------------------------------ *)
Definition bic_in_step (n : circuit) (i : label) : circuit :=
  if has_gate n i then n else emplace_gate_raw n i INPUT [].
Definition bic_gate_step (c : circuit) (n : circuit) (l : label) : res circuit :=
  if has_gate n l then Ok n else do g <- get_gate c l; Ok (emplace_gate_raw n l (gtyp g) (gops g)).

Lemma block_into_circuit_unfold c b :
  block_into_circuit c b =
  (do n1 <- foldM (bic_gate_step c) (bgates b) (fold_left bic_in_step (binputs b) empty_circuit);
   do n2 <- set_outputs n1 (boutputs b);
   do _ <- foldM (fun (_ : unit) (kg : label * gate) => check_gates_exist (gops (snd kg)) n2) (gates n2) tt;
   Ok n2).
Proof. reflexivity. Qed.

Lemma bic_inputs_stage : forall ins n,
  (forall i, has_gate n i = memb i (inputs n)) ->
  (forall x g, dget (gates n) x = Some g -> g = mkGate INPUT []) ->
  outputs n = [] -> NoDup (dkeys (gates n)) ->
  inputs (fold_left bic_in_step ins n) = nub_acc (inputs n) ins /\
  (forall i, has_gate (fold_left bic_in_step ins n) i = memb i (inputs (fold_left bic_in_step ins n))) /\
  (forall x g, dget (gates (fold_left bic_in_step ins n)) x = Some g -> g = mkGate INPUT []) /\
  outputs (fold_left bic_in_step ins n) = [] /\
  NoDup (dkeys (gates (fold_left bic_in_step ins n))).
Proof.
  induction ins as [|i ins IH]; intros n Hh Hg Ho Hnd; simpl; [auto|].
  assert (Es : bic_in_step n i = if memb i (inputs n) then n else emplace_gate_raw n i INPUT []).
  { unfold bic_in_step; rewrite Hh; reflexivity. }
  rewrite Es. destruct (memb i (inputs n)) eqn:E; [apply IH; assumption|].
  assert (Ei : inputs (emplace_gate_raw n i INPUT []) = inputs n ++ [i]) by (rewrite emplace_raw_inputs; reflexivity).
  rewrite <- Ei. apply IH.
  - intros x. rewrite emplace_raw_has_gate, Ei, memb_app, (Hh x); simpl.
    destruct (leqb x i), (memb x (inputs n)); reflexivity.
  - intros x g. rewrite emplace_raw_gates, dget_dset. destruct (leqb x i); [congruence|apply Hg].
  - rewrite emplace_raw_outputs; exact Ho.
  - rewrite emplace_raw_gates. apply NoDup_dkeys_dset, Hnd.
Qed.

Lemma bic_gates_stage c n0 bg n1 :
  foldM (bic_gate_step c) bg n0 = Ok n1 ->
  (forall x, dget (gates n1) x = match dget (gates n0) x with
                                 | Some g => Some g
                                 | None => if memb x bg then dget (gates c) x else None
                                 end) /\
  outputs n1 = outputs n0 /\
  ((forall l, In l bg -> has_gate n0 l = false -> is_input_gate c l = false) -> inputs n1 = inputs n0) /\
  (NoDup (dkeys (gates n0)) -> NoDup (dkeys (gates n1))).
Proof.
  apply (foldM_prefix_inv _ (fun done n =>
    (forall x, dget (gates n) x = match dget (gates n0) x with
                                  | Some g => Some g
                                  | None => if memb x done then dget (gates c) x else None
                                  end) /\
    outputs n = outputs n0 /\
    ((forall l, In l done -> has_gate n0 l = false -> is_input_gate c l = false) -> inputs n = inputs n0) /\
    (NoDup (dkeys (gates n0)) -> NoDup (dkeys (gates n))))).
  - intros done l rest n n' _ (Hg & Ho & Hi & Hk) Hs. unfold bic_gate_step in Hs.
    assert (Hi' : (forall l0, In l0 (done ++ [l]) -> has_gate n0 l0 = false -> is_input_gate c l0 = false) ->
                  inputs n = inputs n0).
    { intros Hp. apply Hi. intros l0 Hl0; apply Hp, in_or_app; left; exact Hl0. }
    destruct (has_gate n l) eqn:El.
    + injection Hs as <-. split; [|split; [assumption|split; assumption]].
      intros x. rewrite Hg, memb_app; simpl. destruct (dget (gates n0) x) eqn:E0; [reflexivity|].
      destruct (leqb_spec x l) as [->|_]; [|rewrite orb_false_r; reflexivity].
      destruct (memb l done) eqn:Ed; [reflexivity|]. exfalso.
      unfold has_gate, dmem in El. rewrite Hg, E0, Ed in El. discriminate.
    + binv Hs g Hgc. injection Hs as <-. apply get_gate_ok in Hgc.
      apply has_gate_false_get in El. pose proof El as El0. rewrite Hg in El0.
      destruct (dget (gates n0) l) eqn:E0; [discriminate|].
      split; [|split; [|split]].
      4:{ intros Hn0. rewrite emplace_raw_gates. apply NoDup_dkeys_dset, Hk, Hn0. }
      * intros x. rewrite emplace_raw_gates, dget_dset, memb_app; simpl.
        destruct (leqb_spec x l) as [->|_].
        -- rewrite E0, orb_true_r, Hgc. destruct g; reflexivity.
        -- rewrite Hg, orb_false_r. reflexivity.
      * rewrite emplace_raw_outputs; exact Ho.
      * intros Hp. rewrite emplace_raw_inputs.
        assert (Hil : is_input_gate c l = false).
        { apply Hp; [apply in_or_app; right; left; reflexivity|]. unfold has_gate, dmem; rewrite E0; reflexivity. }
        unfold is_input_gate in Hil. rewrite Hgc in Hil. rewrite Hil. apply Hi', Hp.
  - split; [|split; [reflexivity|split; [intros _; reflexivity|auto]]].
    intros x. destruct (dget (gates n0) x); reflexivity.
Qed.

Lemma bic_gates_total c : forall bg n,
  (forall l, In l bg -> has_gate c l = true) -> exists n1, foldM (bic_gate_step c) bg n = Ok n1.
Proof.
  induction bg as [|l bg IH]; intros n H; simpl; [eauto|].
  unfold bic_gate_step at 1. destruct (has_gate n l).
  - simpl. apply IH. intros x Hx; apply H; right; exact Hx.
  - destruct (has_gate_get c l (H l (or_introl eq_refl))) as [g Hg].
    apply get_gate_ok in Hg. rewrite Hg. simpl. apply IH. intros x Hx; apply H; right; exact Hx.
Qed.

Lemma check_all_ops_total n : forall d : dict gate,
  (forall l g o, In (l, g) d -> In o (gops g) -> has_gate n o = true) ->
  foldM (fun (_ : unit) (kg : label * gate) => check_gates_exist (gops (snd kg)) n) d tt = Ok tt.
Proof.
  induction d as [|[k g] d IH]; intros H; simpl; [reflexivity|].
  assert (E : check_gates_exist (gops g) n = Ok tt).
  { apply check_gates_exist_ok. intros o Ho. eapply H; [left; reflexivity|exact Ho]. }
  rewrite E. simpl. apply IH. intros l g' o Hin. apply (H l g' o). right; exact Hin.
Qed.

(* (1) closed description of Block.into_circuit *)
Theorem block_into_circuit_spec c b :
  (forall l, In l (bgates b) -> has_gate c l = true) ->
  (forall l g o, In l (bgates b) -> ~ In l (binputs b) -> dget (gates c) l = Some g -> In o (gops g) ->
                 In o (binputs b) \/ In o (bgates b)) ->
  (forall o, In o (boutputs b) -> In o (binputs b) \/ In o (bgates b)) ->
  exists s, block_into_circuit c b = Ok s /\
    (forall x, dget (gates s) x =
               if memb x (binputs b) then Some (mkGate INPUT [])
               else if memb x (bgates b) then dget (gates c) x else None) /\
    outputs s = boutputs b /\
    ((forall l, In l (bgates b) -> ~ In l (binputs b) -> is_input_gate c l = false) ->
     inputs s = nub_first (binputs b)).
Proof.
  intros Hbg Hcl Hout. rewrite block_into_circuit_unfold.
  set (n0 := fold_left bic_in_step (binputs b) empty_circuit).
  destruct (bic_inputs_stage (binputs b) empty_circuit) as (I0 & H0 & G0 & O0 & K0);
    [reflexivity|intros x g Hx; discriminate|reflexivity|constructor|]. fold n0 in I0, H0, G0, O0, K0. simpl in I0.
  assert (Gn0 : forall x, dget (gates n0) x = if memb x (binputs b) then Some (mkGate INPUT []) else None).
  { intros x. pose proof (H0 x) as Hx. rewrite I0, memb_nub_acc in Hx. simpl in Hx.
    unfold has_gate, dmem in Hx. destruct (dget (gates n0) x) as [g|] eqn:E.
    - rewrite <- Hx. rewrite (G0 x g E). reflexivity.
    - rewrite <- Hx. reflexivity. }
  destruct (bic_gates_total c (bgates b) n0 Hbg) as [n1 H1]. rewrite H1. simpl.
  destruct (bic_gates_stage c n0 (bgates b) n1 H1) as (G1 & O1 & I1 & K1).
  assert (Gn1 : forall x, dget (gates n1) x =
               if memb x (binputs b) then Some (mkGate INPUT [])
               else if memb x (bgates b) then dget (gates c) x else None).
  { intros x. rewrite G1, Gn0. destruct (memb x (binputs b)); reflexivity. }
  assert (Hh1 : forall x, In x (binputs b) \/ In x (bgates b) -> has_gate n1 x = true).
  { intros x Hx. unfold has_gate, dmem. rewrite Gn1.
    destruct (memb x (binputs b)) eqn:Ei; [reflexivity|]. apply memb_nIn in Ei.
    destruct Hx as [Hx|Hx]; [contradiction|]. pose proof Hx as Hm. apply memb_In in Hm. rewrite Hm.
    destruct (has_gate_get c x (Hbg x Hx)) as [g Hg]. rewrite Hg. reflexivity. }
  assert (E2 : set_outputs n1 (boutputs b) = Ok (set_outputs_raw n1 (boutputs b))).
  { unfold set_outputs. replace (check_gates_exist (boutputs b) n1) with (Ok (A := unit) tt); [reflexivity|].
    symmetry. apply check_gates_exist_ok. intros o Ho. apply Hh1, Hout, Ho. }
  rewrite E2. simpl bind at 1.
  rewrite check_all_ops_total.
  - simpl. eexists; split; [reflexivity|]. split; [exact Gn1|]. split; [reflexivity|].
    intros Hni. simpl. rewrite I1, I0; [reflexivity|].
    intros l Hl Hn0. apply Hni; [exact Hl|]. intros Hin. apply memb_In in Hin.
    unfold has_gate, dmem in Hn0. rewrite Gn0, Hin in Hn0. discriminate.
  - simpl. intros l g o Hin Ho.
    assert (Hnd : NoDup (dkeys (gates n1))) by (apply K1, K0).
    apply (In_dget _ _ _ Hnd) in Hin. rewrite Gn1 in Hin.
    destruct (memb l (binputs b)) eqn:Ei; [injection Hin as <-; destruct Ho|].
    destruct (memb l (bgates b)) eqn:Eg; [|discriminate].
    apply memb_In in Eg. apply memb_nIn in Ei.
    change (has_gate n1 o = true). apply Hh1. eapply Hcl; eassumption.
Qed.

(* ------------------------------------------------------------------ *)
(* (2) the block created by connect_circuit *)
Section Block.
  Variables (base other : circuit) (tc oc : list label) (right : bool) (name : label) (ap : bool) (r : circuit).
  Hypothesis Wb : WF base.
  Hypothesis Nb : inputs_nullary base.
  Hypothesis Wo : WF other.
  Hypothesis No : inputs_nullary other.
  Hypothesis Hr : connect_circuit base other tc oc right name ap = Ok r.
  Hypothesis Hname : name <> "".
  Let mapping := build_mapping oc tc [].
  Let ren := ren_of mapping (conn_prefix name ap).

  Lemma blk_spec : ConnSpec base other tc oc right name (conn_prefix name ap) r.
  Proof. apply connect_circuit_spec; assumption. Qed.

  Lemma blk_noninput_copied l g :
    dget (gates other) l = Some g -> gtyp g <> INPUT -> copied tc oc right l.
  Proof.
    intros Hg Ht. unfold copied. destruct (Bool.bool_dec right true) as [Er|Er]; [left; exact Er|right].
    apply Bool.not_true_is_false in Er.
    destruct (dget (build_mapping oc tc []) l) as [t|] eqn:Em; [|reflexivity]. exfalso.
    apply bm_nil_key_in in Em.
    destruct (cs_left _ _ _ _ _ _ _ _ blk_spec Er) as [_ Hi]. specialize (Hi l Em).
    unfold is_input_gate in Hi. rewrite Hg in Hi. apply gtype_beq_eq in Hi. contradiction.
  Qed.

  Lemma blk_gate_in_r l g :
    dget (gates other) l = Some g -> gtyp g <> INPUT ->
    dget (gates r) (ren l) = Some (mkGate (gtyp g) (map ren (gops g))).
  Proof.
    intros Hg Ht. apply (cs_copy _ _ _ _ _ _ _ _ blk_spec l g Hg). eapply blk_noninput_copied; eassumption.
  Qed.

  (* an internal gate and an input of other never get the same label *)
  Lemma blk_disjoint l g x :
    dget (gates other) l = Some g -> gtyp g <> INPUT -> In x (inputs other) -> ren l <> ren x.
  Proof.
    intros Hg Ht Hx E. apply (wf_inputs other Wo) in Hx. destruct Hx as (gx & Hgx & Htx).
    pose proof (blk_gate_in_r l g Hg Ht) as Hl.
    assert (Hc : copied tc oc right x \/ (right = false /\ exists t, dget mapping x = Some t)).
    { unfold copied. destruct (Bool.bool_dec right true) as [Er|Er]; [left; left; exact Er|].
      apply Bool.not_true_is_false in Er.
      destruct (dget mapping x) as [t|] eqn:Em; [right; split; [exact Er|eauto]|left; right; exact Em]. }
    destruct Hc as [Hc|(Er & t & Em)].
    - pose proof (cs_copy _ _ _ _ _ _ _ _ blk_spec x gx Hgx Hc) as Hxr. fold mapping ren in Hxr.
      rewrite <- E, Hl in Hxr. injection Hxr as Hty _. congruence.
    - pose proof (blk_noninput_copied l g Hg Ht) as Hcl. destruct Hcl as [Hcl|Hcl]; [congruence|].
      assert (Hl' : has_gate other l = true) by (eapply get_has_gate; exact Hg).
      pose proof (cs_fresh _ _ _ _ _ _ _ _ blk_spec l Hl' Hcl) as Hf. fold mapping ren in Hf.
      rewrite E in Hf. unfold ren, ren_of in Hf. rewrite Em in Hf.
      assert (Ht' : has_gate base t = true).
      { apply (cs_tc _ _ _ _ _ _ _ _ blk_spec). eapply bm_nil_vals; exact Em. }
      congruence.
  Qed.

  Theorem connect_block_extract :
    exists blk s,
      dget (blocks r) name = Some blk /\
      binputs blk = map ren (inputs other) /\ boutputs blk = map ren (outputs other) /\
      block_into_circuit r blk = Ok s /\ WF s /\
      inputs s = nub_first (map ren (inputs other)) /\
      outputs s = map ren (outputs other) /\
      forall a a', (forall x, In x (inputs other) -> aval a' x = aval a (ren x)) ->
                   forall l v, has_gate other l = true -> (Eval s a (ren l) v <-> Eval other a' l v).
  Proof.
    destruct (cs_block _ _ _ _ _ _ _ _ blk_spec Hname) as (bg & Hblk & Hbg). fold mapping ren in Hblk, Hbg.
    set (blk := mkBlock (map ren (inputs other)) bg (map ren (outputs other))) in *.
    assert (Hgate_lbl : forall l, has_gate other l = true -> In (ren l) (binputs blk) \/ In (ren l) (bgates blk)).
    { intros l Hl. destruct (has_gate_get _ _ Hl) as [g Hg].
      destruct (gtype_eq_dec (gtyp g) INPUT) as [Ht|Ht].
      - left. simpl. apply in_map. apply (wf_inputs other Wo). exists g; split; assumption.
      - right. simpl. apply Hbg. exists l, g. split; [exact Hg|]. split; [exact Ht|].
        split; [eapply blk_noninput_copied; eassumption|reflexivity]. }
    destruct (block_into_circuit_spec r blk) as (s & Hs & Gs & Os & Is).
    - intros x Hx. simpl in Hx. apply Hbg in Hx. destruct Hx as (l & g & Hg & Ht & _ & ->).
      eapply get_has_gate. apply blk_gate_in_r; eassumption.
    - intros x gx o Hx _ Hgx Ho. simpl in Hx. apply Hbg in Hx. destruct Hx as (l & g & Hg & Ht & _ & ->).
      rewrite (blk_gate_in_r l g Hg Ht) in Hgx. injection Hgx as <-. simpl in Ho.
      apply in_map_iff in Ho. destruct Ho as (o' & <- & Ho'). apply Hgate_lbl.
      eapply (wf_ops other Wo); eassumption.
    - intros o Ho. simpl in Ho. apply in_map_iff in Ho. destruct Ho as (o' & <- & Ho').
      apply Hgate_lbl. apply (wf_outs other Wo), Ho'.
    - exists blk, s. split; [exact Hblk|]. split; [reflexivity|]. split; [reflexivity|]. split; [exact Hs|].
      destruct (connect_circuit_inv _ _ _ _ _ _ _ _ Wb Nb Wo No Hr) as [Wr Nr].
      split; [apply (block_into_circuit_wf r blk s Wr Nr Hs)|]. split.
      + apply Is. intros x Hx _. simpl in Hx. apply Hbg in Hx. destruct Hx as (l & g & Hg & Ht & _ & ->).
        unfold is_input_gate. rewrite (blk_gate_in_r l g Hg Ht). simpl.
        destruct (gtype_beq (gtyp g) INPUT) eqn:E; [apply gtype_beq_eq in E; contradiction|reflexivity].
      + split; [exact Os|]. intros a a' Ha l v Hl. symmetry. apply Eval_sim; [| | |exact Hl].
        * intros x g Hg Ht.
          assert (Hx : In x (inputs other)) by (apply (wf_inputs other Wo); exists g; split; assumption).
          rewrite (Ha x Hx). apply (EvalInput s a (ren x) (mkGate INPUT [])); [|reflexivity]. rewrite Gs. simpl.
          replace (memb (ren x) (map ren (inputs other))) with true; [reflexivity|].
          symmetry. apply memb_In, in_map, Hx.
        * intros x g Hg Ht. rewrite Gs. simpl.
          replace (memb (ren x) (map ren (inputs other))) with false.
          -- replace (memb (ren x) bg) with true; [apply blk_gate_in_r; assumption|].
             symmetry. apply memb_In, Hbg. exists x, g. split; [exact Hg|]. split; [exact Ht|].
             split; [eapply blk_noninput_copied; eassumption|reflexivity].
          -- symmetry. apply memb_nIn. intros Hin. apply in_map_iff in Hin. destruct Hin as (y & E & Hy).
             eapply blk_disjoint; [exact Hg|exact Ht|exact Hy|symmetry; exact E].
        * intros x g o Hg _ Ho. eapply (wf_ops other Wo); eassumption.
  Qed.
End Block.
