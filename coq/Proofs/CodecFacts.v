(* C16, circuit level: what encode_circuit returns decodes to an isomorphic circuit; encoding
   fails only with codec errors on well-formed circuits and succeeds on every acyclic circuit
   inside the format whatever the storage order (repaired code, fixes/D13.patch). *)
Require Import Cirbo.Model.Base Cirbo.Model.Gate Cirbo.Model.Den Cirbo.Model.Circuit.
Require Import Cirbo.Model.BitIO Cirbo.Model.Codec Cirbo.Generated.CodecTables.
Require Import Cirbo.Proofs.DictFacts Cirbo.Proofs.DictIOFacts Cirbo.Proofs.BitIOFacts.
Require Import Cirbo.Proofs.CodecTableFacts Cirbo.Proofs.CodecIds Cirbo.Proofs.IsoFacts.
From Coq Require Import Permutation.

(* ------------------------------------------------------------------ *)
(* well-formedness the encoder relies on *)
Record codec_wf (c : circuit) : Prop := {
  wf_keys : NoDup (dkeys (gates c));
  wf_inputs_nodup : NoDup (inputs c);
  wf_inputs : forall l, In l (inputs c) <-> exists g, dget (gates c) l = Some g /\ gtyp g = INPUT }.

Definition outputs_exist (c : circuit) : Prop := forall o, In o (outputs c) -> dmem (gates c) o = true.

Lemma In_keys_dget {V} (d : dict V) k : In k (dkeys d) -> exists v, dget d k = Some v.
Proof.
  intros H. destruct (dget d k) eqn:E; [eauto|]. apply dget_None_keys in E; contradiction.
Qed.

Lemma NoDup_map_filter {A B} (f : A -> B) (p : A -> bool) l : NoDup (map f l) -> NoDup (map f (filter p l)).
Proof.
  induction l as [|x l IH]; simpl; [auto|]. intros H; inversion H as [|? ? Hx Hn]; subst.
  destruct (p x); simpl; [|auto]. constructor; [|auto].
  intros Hi; apply Hx. apply in_map_iff in Hi as (y & <- & Hy). apply filter_In in Hy as [Hy _].
  apply in_map; exact Hy.
Qed.

Lemma non_input_labels_spec c l :
  NoDup (dkeys (gates c)) ->
  (In l (non_input_labels c) <-> exists g, dget (gates c) l = Some g /\ gtyp g <> INPUT).
Proof.
  intros Hnd. unfold non_input_labels. rewrite in_map_iff. split.
  - intros ([l' g] & <- & H). apply filter_In in H as [Hin Hp]. simpl in *.
    exists g. split; [apply In_dget; assumption|].
    intros E; rewrite E in Hp; discriminate.
  - intros (g & Hg & Ht). exists (l, g). split; [reflexivity|]. apply filter_In. split; [apply dget_In; exact Hg|].
    simpl. destruct (gtype_beq (gtyp g) INPUT) eqn:E; [apply gtype_beq_eq in E; contradiction|reflexivity].
Qed.

Lemma non_input_labels_nodup c : NoDup (dkeys (gates c)) -> NoDup (non_input_labels c).
Proof. apply NoDup_map_filter. Qed.

Lemma intermediates_length c : intermediates c = length (non_input_labels c).
Proof. unfold intermediates, non_input_labels. rewrite map_length; reflexivity. Qed.

Lemma keys_partition c :
  codec_wf c -> Permutation (inputs c ++ non_input_labels c) (dkeys (gates c)).
Proof.
  intros [Hk Hi Hin]. apply NoDup_Permutation.
  - apply NoDup_app_iff. repeat split; [exact Hi|apply non_input_labels_nodup; exact Hk|].
    intros x Hx Hx'. apply Hin in Hx as (g & Hg & Ht).
    apply non_input_labels_spec in Hx' as (g' & Hg' & Ht'); [|exact Hk]. congruence.
  - exact Hk.
  - intros x. rewrite in_app_iff. split.
    + intros [H|H].
      * apply Hin in H as (g & Hg & _). eapply dget_In_keys; exact Hg.
      * apply non_input_labels_spec in H as (g & Hg & _); [|exact Hk]. eapply dget_In_keys; exact Hg.
    + intros H. apply In_keys_dget in H as (g & Hg).
      destruct (gtype_beq (gtyp g) INPUT) eqn:E.
      * left. apply Hin. exists g. apply gtype_beq_eq in E. auto.
      * right. apply non_input_labels_spec; [exact Hk|]. exists g. split; [exact Hg|].
        intros E'; rewrite E' in E; discriminate.
Qed.

(* ------------------------------------------------------------------ *)
(* _enumerate_gates *)
Lemma enumerate_spec c d :
  codec_wf c -> enumerate_gates c = Ok d ->
  enum_inv c d /\ exists pl, dkeys d = inputs c ++ pl /\ Permutation pl (non_input_labels c).
Proof.
  intros Hwf H. pose proof Hwf as [Hk Hi Hin]. unfold enumerate_gates in H.
  destruct (fold_ids_add (inputs c) [] ids_ok_nil Hi) as (Hok0 & Hk0); [reflexivity|]. simpl in Hk0.
  set (d0 := fold_left ids_add (inputs c) []) in *.
  assert (enum_inv c d0) as Hinv0.
  { split; [exact Hok0|]. intros l g il Hl Hg Ht. exfalso.
    apply dget_In_keys in Hl. rewrite Hk0 in Hl. apply Hin in Hl as (g' & Hg' & Ht'). congruence. }
  apply enum_loop_spec in H; [|exact Hinv0|apply non_input_labels_nodup; exact Hk|].
  - destruct H as (Hinv & pl & Hkd & Hp). split; [exact Hinv|]. exists pl. rewrite Hkd, Hk0. auto.
  - intros l Hl. destruct (dmem d0 l) eqn:E; [|reflexivity]. apply dmem_keys in E. rewrite Hk0 in E.
    apply Hin in E as (g & Hg & Ht). apply non_input_labels_spec in Hl as (g' & Hg' & Ht'); [|exact Hk]. congruence.
Qed.

Lemma enumerate_err c e : codec_wf c -> enumerate_gates c = Err e -> e = CircuitEncodingError.
Proof.
  intros Hwf H. pose proof Hwf as [Hk Hi Hin]. unfold enumerate_gates in H.
  destruct (fold_ids_add (inputs c) [] ids_ok_nil Hi) as (Hok0 & Hk0); [reflexivity|]. simpl in Hk0.
  set (d0 := fold_left ids_add (inputs c) []) in *.
  eapply enum_loop_err; [exact H| | |apply non_input_labels_nodup; exact Hk| |apply le_n].
  - intros l Hl. apply non_input_labels_spec in Hl as (g & Hg & _); [|exact Hk]. unfold dmem; rewrite Hg; reflexivity.
  - split; [exact Hok0|]. intros l g il Hl Hg Ht. exfalso.
    apply dget_In_keys in Hl. rewrite Hk0 in Hl. apply Hin in Hl as (g' & Hg' & Ht'). congruence.
  - intros l Hl. destruct (dmem d0 l) eqn:E; [|reflexivity]. apply dmem_keys in E. rewrite Hk0 in E.
    apply Hin in E as (g & Hg & Ht). apply non_input_labels_spec in Hl as (g' & Hg' & Ht'); [|exact Hk]. congruence.
Qed.

(* `length pending` rounds are always enough: the model's fuel is never exhausted *)
Theorem enumeration_fuel_adequate c : codec_wf c -> enumerate_gates c <> Err OutOfFuel.
Proof. intros Hwf H. apply enumerate_err in H; [discriminate|exact Hwf]. Qed.

(* ------------------------------------------------------------------ *)
(* the renaming: a label goes to the generated label of its identifier *)
Definition relabel (d : ids) (l : label) : label :=
  match dget d l with Some i => gen_label i | None => EmptyString end.

Definition gimg (c : circuit) (d : ids) (l : label) : gate :=
  match dget (gates c) l with
  | Some g => if gtype_beq (gtyp g) INPUT then mkGate INPUT [] else mkGate (gtyp g) (map (relabel d) (gops g))
  | None => mkGate INPUT []
  end.

Lemma relabel_keys d : ids_ok d -> forall ls pre post,
  dkeys d = pre ++ ls ++ post -> map (relabel d) ls = map glab (seq (length pre) (length ls)).
Proof.
  intros Hok. induction ls as [|l ls IH]; intros pre post H; [reflexivity|]. simpl. f_equal.
  - unfold relabel. rewrite (ids_nth_get d l (length pre) Hok); [reflexivity|].
    rewrite H, nth_error_app2, Nat.sub_diag by lia. reflexivity.
  - rewrite (IH (pre ++ [l]) post); [rewrite app_length, Nat.add_1_r; reflexivity|].
    rewrite H, <- app_assoc. reflexivity.
Qed.

(* ------------------------------------------------------------------ *)
(* effect of add_gate / mark_as_output on the observable fields *)
Lemma add_users_core ops : forall c u,
  gates (add_users c ops u) = gates c /\ inputs (add_users c ops u) = inputs c /\
  outputs (add_users c ops u) = outputs c /\ blocks (add_users c ops u) = blocks c.
Proof.
  unfold add_users. induction ops as [|o ops IH]; intros c u; simpl; [auto|].
  destruct (IH (add_user c o u) u) as (H1 & H2 & H3 & H4). rewrite H1, H2, H3, H4.
  unfold add_user. destruct (dget (users c) o); simpl; auto.
Qed.

Lemma check_gates_exist_ok ops c :
  (forall o, In o ops -> dmem (gates c) o = true) -> check_gates_exist ops c = Ok tt.
Proof.
  induction ops as [|o ops IH]; intros H; simpl; [reflexivity|].
  unfold has_gate. rewrite (H o (or_introl eq_refl)). apply IH. intros x Hx; apply H; right; exact Hx.
Qed.

Lemma emplace_gate_core c l t ops :
  dmem (gates c) l = false -> (forall o, In o ops -> dmem (gates c) o = true) ->
  exists c', emplace_gate c l t ops = Ok c' /\ gates c' = gates c ++ [(l, mkGate t ops)] /\
    inputs c' = (if gtype_beq t INPUT then inputs c ++ [l] else inputs c) /\
    outputs c' = outputs c /\ blocks c' = blocks c.
Proof.
  intros Hl Hops. unfold emplace_gate, check_label_doesnt_exist, has_gate. rewrite Hl. simpl.
  rewrite check_gates_exist_ok by exact Hops. simpl. eexists; split; [reflexivity|].
  unfold emplace_gate_raw. destruct (add_users_core ops c l) as (H1 & H2 & H3 & H4).
  destruct (gtype_beq t INPUT); simpl; rewrite H1, H2, H3, H4, dset_new by exact Hl; auto.
Qed.

(* ------------------------------------------------------------------ *)
(* the decoder's loop state *)
Definition dec_ok (k : nat) (gl : list label) (c' : circuit) : Prop :=
  gl = map glab (seq 0 k) /\ dkeys (gates c') = gl.

Lemma dec_ok_fresh k gl c' : dec_ok k gl c' -> dmem (gates c') (glab k) = false.
Proof.
  intros [-> Hk]. destruct (dmem (gates c') (glab k)) eqn:E; [|reflexivity].
  apply dmem_keys in E. rewrite Hk in E. exfalso; eapply glab_fresh; exact E.
Qed.

Lemma dec_ok_length k gl c' : dec_ok k gl c' -> length gl = k.
Proof. intros [-> _]. rewrite map_length, seq_length; reflexivity. Qed.

Lemma dec_ok_has k gl c' j : dec_ok k gl c' -> (j < k)%nat -> dmem (gates c') (glab j) = true.
Proof.
  intros [-> Hk] Hj. apply dmem_keys. rewrite Hk. apply in_map. apply in_seq. lia.
Qed.

Lemma dec_ok_step k gl c' c'' g :
  dec_ok k gl c' -> gates c'' = gates c' ++ [(glab k, g)] -> dec_ok (S k) (gl ++ [glab k]) c''.
Proof.
  intros [-> Hk] Hg. split.
  - rewrite seq_S, map_app. reflexivity.
  - rewrite Hg. unfold dkeys in *. rewrite map_app, Hk. reflexivity.
Qed.

Lemma iterM_S {S} n (f : S -> res S) s : iterM (Datatypes.S n) f s = (do s' <- f s; iterM n f s').
Proof. reflexivity. Qed.

(* inputs *)
Lemma decode_inputs_run r : forall n k gl c',
  dec_ok k gl c' ->
  exists c'', iterM n decode_input (r, gl, c') = Ok (r, gl ++ map glab (seq k n), c'')
    /\ gates c'' = gates c' ++ map (fun i => (glab i, mkGate INPUT [])) (seq k n)
    /\ inputs c'' = inputs c' ++ map glab (seq k n)
    /\ outputs c'' = outputs c' /\ blocks c'' = blocks c'
    /\ dec_ok (k + n) (gl ++ map glab (seq k n)) c''.
Proof.
  induction n as [|n IH]; intros k gl c' Hok.
  - exists c'. simpl. rewrite !app_nil_r, Nat.add_0_r. repeat split; auto; apply Hok.
  - rewrite iterM_S. unfold decode_input at 1. rewrite (dec_ok_length _ _ _ Hok). fold (glab k).
    destruct (emplace_gate_core c' (glab k) INPUT [] (dec_ok_fresh _ _ _ Hok)) as (c1 & E & Hg & Hi & Ho & Hb);
      [intros o []|].
    unfold add_gate. rewrite E. simpl bind.
    destruct (IH (S k) _ c1 (dec_ok_step _ _ _ _ _ Hok Hg)) as (c2 & E2 & Hg2 & Hi2 & Ho2 & Hb2 & Hok2).
    exists c2. simpl seq. simpl map. rewrite E2, Hg2, Hi2, Ho2, Hb2, Hg, Hi, Ho, Hb. simpl.
    rewrite <- !app_assoc. simpl. replace (k + S n)%nat with (S k + n)%nat by lia.
    rewrite <- app_assoc in Hok2. repeat split; auto; apply Hok2.
Qed.

(* ------------------------------------------------------------------ *)
(* what the encoder writes *)
Lemma write_id_inv d ws o b :
  write_id d ws o = Ok b -> exists io, dget d o = Some io /\ (io < 2 ^ N.of_nat ws)%N /\ b = number_bits io ws.
Proof.
  unfold write_id. destruct (dget d o) as [io|]; [|discriminate]. intros H.
  apply write_number_inv in H as [H ->]. eauto.
Qed.

Lemma encode_gate_input c d ws l g :
  dget (gates c) l = Some g -> gtyp g = INPUT -> encode_gate c d ws l = Ok [].
Proof.
  intros Hg Ht. unfold encode_gate. apply get_gate_ok in Hg. rewrite Hg. simpl. rewrite Ht. reflexivity.
Qed.

Lemma encode_gate_inv c d ws l g chunk :
  dget (gates c) l = Some g -> gtyp g <> INPUT -> encode_gate c d ws l = Ok chunk ->
  exists code obs, gate_type_to_int (gtyp g) = Some code /\ length (gops g) = get_arity (gtyp g) /\
    mapM (write_id d ws) (gops g) = Ok obs /\ chunk = number_bits code GATE_TYPE_BIT_SIZE ++ concat obs.
Proof.
  intros Hg Ht. unfold encode_gate. apply get_gate_ok in Hg. rewrite Hg. simpl.
  destruct (gtype_beq (gtyp g) INPUT) eqn:E; [apply gtype_beq_eq in E; contradiction|].
  destruct (gate_type_to_int (gtyp g)) as [code|]; [|discriminate].
  destruct (Nat.eqb_spec (length (gops g)) (get_arity (gtyp g))) as [Ha|]; simpl; [|discriminate].
  destruct (write_number code GATE_TYPE_BIT_SIZE) as [tb|] eqn:Etb; simpl; [|discriminate].
  destruct (mapM (write_id d ws) (gops g)) as [obs|] eqn:Eo; simpl; [|discriminate].
  intros [= <-]. apply write_number_inv in Etb as [_ ->]. exists code, obs. auto.
Qed.

Lemma encode_bits_inv c b :
  encode_bits c = Ok b ->
  exists d gb ob,
    (N.of_nat (word_size c) < 2 ^ N.of_nat 8)%N /\
    (N.of_nat (length (inputs c)) < 2 ^ N.of_nat (word_size c))%N /\
    (N.of_nat (length (outputs c)) < 2 ^ N.of_nat (word_size c))%N /\
    (N.of_nat (intermediates c) < 2 ^ N.of_nat (word_size c))%N /\
    enumerate_gates c = Ok d /\
    mapM (encode_gate c d (word_size c)) (dkeys d) = Ok gb /\
    mapM (write_id d (word_size c)) (outputs c) = Ok ob /\
    b = number_bits (N.of_nat (word_size c)) 8 ++ number_bits (N.of_nat (length (inputs c))) (word_size c)
        ++ number_bits (N.of_nat (length (outputs c))) (word_size c)
        ++ number_bits (N.of_nat (intermediates c)) (word_size c) ++ concat gb ++ concat ob.
Proof.
  unfold encode_bits, write_byte. set (ws := word_size c).
  destruct (write_number (N.of_nat ws) 8) as [h|] eqn:E0; simpl; [|discriminate].
  destruct (write_number (N.of_nat (length (inputs c))) ws) as [p1|] eqn:E1; simpl; [|discriminate].
  destruct (write_number (N.of_nat (length (outputs c))) ws) as [p2|] eqn:E2; simpl; [|discriminate].
  destruct (write_number (N.of_nat (intermediates c)) ws) as [p3|] eqn:E3; simpl; [|discriminate].
  destruct (enumerate_gates c) as [d|] eqn:E4; simpl; [|discriminate].
  destruct (mapM (encode_gate c d ws) (dkeys d)) as [gb|] eqn:E5; simpl; [|discriminate].
  destruct (mapM (write_id d ws) (outputs c)) as [ob|] eqn:E6; simpl; [|discriminate].
  intros [= <-].
  apply write_number_inv in E0 as [H0 ->]. apply write_number_inv in E1 as [H1 ->].
  apply write_number_inv in E2 as [H2 ->]. apply write_number_inv in E3 as [H3 ->].
  exists d, gb, ob. repeat split; auto.
Qed.

(* ------------------------------------------------------------------ *)
(* the decoder on what the encoder wrote *)
Lemma nth_label_glab k gl c' io :
  dec_ok k gl c' -> (io < N.of_nat k)%N -> nth_label gl io = Some (gen_label io).
Proof.
  intros Hok Hio. unfold nth_label. rewrite (dec_ok_length _ _ _ Hok).
  apply N.ltb_lt in Hio as Hio'. rewrite Hio'. destruct Hok as [-> _].
  rewrite nth_error_map_seq by lia. simpl. unfold glab. rewrite N2Nat.id. reflexivity.
Qed.

Lemma read_operands_app d ws k gl c' rest :
  dec_ok k gl c' ->
  forall ops obs acc, mapM (write_id d ws) ops = Ok obs ->
    (forall o, In o ops -> exists io, dget d o = Some io /\ (io < N.of_nat k)%N) ->
    read_operands (length ops) ws (concat obs ++ rest) gl acc = Ok (acc ++ map (relabel d) ops, rest).
Proof.
  intros Hok. induction ops as [|o ops IH]; intros obs acc Hm Hb.
  - simpl in Hm; injection Hm as <-. simpl. rewrite app_nil_r; reflexivity.
  - apply mapM_cons_inv in Hm as (b & obs' & Hb1 & Hm' & ->).
    apply write_id_inv in Hb1 as (io & Hio & Hlt & ->).
    destruct (Hb o (or_introl eq_refl)) as (io' & Hio' & Hk). rewrite Hio in Hio'; injection Hio' as <-.
    simpl concat. rewrite <- app_assoc. simpl length. simpl read_operands.
    rewrite read_number_app by exact Hlt. simpl.
    rewrite (nth_label_glab _ _ _ _ Hok Hk).
    rewrite IH; [|exact Hm'|intros x Hx; apply Hb; right; exact Hx].
    rewrite <- app_assoc. simpl. unfold relabel at 2. rewrite Hio. reflexivity.
Qed.

Lemma decode_gate_step c d ws k gl c' l g chunk rest :
  enum_inv c d -> dec_ok k gl c' ->
  dget d l = Some (N.of_nat k) -> dget (gates c) l = Some g -> gtyp g <> INPUT ->
  encode_gate c d ws l = Ok chunk ->
  exists c'', decode_gate ws (chunk ++ rest, gl, c') = Ok (rest, gl ++ [glab k], c'')
    /\ gates c'' = gates c' ++ [(glab k, mkGate (gtyp g) (map (relabel d) (gops g)))]
    /\ inputs c'' = inputs c' /\ outputs c'' = outputs c' /\ blocks c'' = blocks c'.
Proof.
  intros Hinv Hok Hl Hg Ht He.
  destruct (encode_gate_inv _ _ _ _ _ _ Hg Ht He) as (code & obs & Hc & Ha & Hm & ->).
  assert (forall o, In o (gops g) -> exists io, dget d o = Some io /\ (io < N.of_nat k)%N) as Hb.
  { intros o Ho. eapply (ei_before _ _ Hinv); eassumption. }
  unfold decode_gate. rewrite <- app_assoc.
  rewrite read_number_app by (eapply code_fits; exact Hc). simpl.
  rewrite (code_to_type _ _ Hc). rewrite <- Ha.
  rewrite (read_operands_app d ws k gl c' rest Hok _ _ [] Hm Hb). simpl.
  rewrite (dec_ok_length _ _ _ Hok). fold (glab k).
  destruct (emplace_gate_core c' (glab k) (gtyp g) (map (relabel d) (gops g)) (dec_ok_fresh _ _ _ Hok))
    as (c1 & E & Hg1 & Hi1 & Ho1 & Hb1).
  { intros x Hx. apply in_map_iff in Hx as (o & <- & Ho). destruct (Hb o Ho) as (io & Hio & Hk).
    unfold relabel. rewrite Hio. replace (gen_label io) with (glab (N.to_nat io)) by (unfold glab; rewrite N2Nat.id; reflexivity).
    eapply dec_ok_has; [exact Hok|lia]. }
  unfold add_gate. rewrite E. simpl. exists c1. split; [reflexivity|]. split; [exact Hg1|].
  destruct (gtype_beq (gtyp g) INPUT) eqn:Et; [apply gtype_beq_eq in Et; contradiction|]. auto.
Qed.

Lemma gimg_noninput c d l g :
  dget (gates c) l = Some g -> gtyp g <> INPUT -> gimg c d l = mkGate (gtyp g) (map (relabel d) (gops g)).
Proof.
  intros Hg Ht. unfold gimg. rewrite Hg.
  destruct (gtype_beq (gtyp g) INPUT) eqn:E; [apply gtype_beq_eq in E; contradiction|reflexivity].
Qed.

Lemma decode_gates_run c d ws rest :
  enum_inv c d ->
  forall pl pre chunks gl c',
    dkeys d = pre ++ pl -> dec_ok (length pre) gl c' ->
    mapM (encode_gate c d ws) pl = Ok chunks ->
    (forall l, In l pl -> exists g, dget (gates c) l = Some g /\ gtyp g <> INPUT) ->
    exists c'', iterM (length pl) (decode_gate ws) (concat chunks ++ rest, gl, c')
                = Ok (rest, gl ++ map glab (seq (length pre) (length pl)), c'')
      /\ gates c'' = gates c' ++ map (fun l => (relabel d l, gimg c d l)) pl
      /\ inputs c'' = inputs c' /\ outputs c'' = outputs c' /\ blocks c'' = blocks c'
      /\ dec_ok (length pre + length pl) (gl ++ map glab (seq (length pre) (length pl))) c''.
Proof.
  intros Hinv. induction pl as [|l pl IH]; intros pre chunks gl c' Hk Hok Hm Hty.
  - simpl in Hm; injection Hm as <-. exists c'. simpl. rewrite !app_nil_r, Nat.add_0_r. repeat split; auto; apply Hok.
  - apply mapM_cons_inv in Hm as (chunk & chunks' & He & Hm' & ->).
    destruct (Hty l (or_introl eq_refl)) as (g & Hg & Ht).
    assert (dget d l = Some (N.of_nat (length pre))) as Hl.
    { apply ids_nth_get; [apply Hinv|]. rewrite Hk, nth_error_app2, Nat.sub_diag by lia. reflexivity. }
    simpl concat. rewrite <- app_assoc. simpl length. rewrite iterM_S.
    destruct (decode_gate_step _ _ _ _ _ _ _ _ _ (concat chunks' ++ rest) Hinv Hok Hl Hg Ht He)
      as (c1 & E1 & Hg1 & Hi1 & Ho1 & Hb1).
    rewrite E1. simpl bind.
    destruct (IH (pre ++ [l]) chunks' (gl ++ [glab (length pre)]) c1) as (c2 & E2 & Hg2 & Hi2 & Ho2 & Hb2 & Hok2).
    + rewrite Hk, <- app_assoc; reflexivity.
    + rewrite app_length, Nat.add_1_r. eapply dec_ok_step; eassumption.
    + exact Hm'.
    + intros x Hx; apply Hty; right; exact Hx.
    + rewrite app_length, Nat.add_1_r in E2, Hok2. exists c2. simpl seq. simpl map.
      rewrite <- !app_assoc in *. simpl in *. rewrite E2, Hg2, Hg1, Hi2, Hi1, Ho2, Ho1, Hb2, Hb1.
      rewrite <- app_assoc. simpl.
      replace (relabel d l) with (glab (length pre)) by (unfold relabel; rewrite Hl; reflexivity).
      rewrite (gimg_noninput _ _ _ _ Hg Ht).
      replace (length pre + S (length pl))%nat with (S (length pre) + length pl)%nat by lia.
      repeat split; auto; apply Hok2.
Qed.

Lemma decode_outputs_run d ws gl c' rest k :
  ids_ok d -> length d = k -> dec_ok k gl c' ->
  forall outs obs c1, mapM (write_id d ws) outs = Ok obs ->
    gates c1 = gates c' ->
    exists c'', iterM (length outs) (decode_output ws) (concat obs ++ rest, gl, c1) = Ok (rest, gl, c'')
      /\ gates c'' = gates c1 /\ inputs c'' = inputs c1 /\ blocks c'' = blocks c1
      /\ outputs c'' = outputs c1 ++ map (relabel d) outs.
Proof.
  intros Hids Hlen Hok. induction outs as [|o outs IH]; intros obs c1 Hm Hg1.
  - simpl in Hm; injection Hm as <-. exists c1. simpl. rewrite app_nil_r. auto.
  - apply mapM_cons_inv in Hm as (b & obs' & Hb1 & Hm' & ->).
    apply write_id_inv in Hb1 as (io & Hio & Hlt & ->).
    simpl concat. rewrite <- app_assoc. simpl length. rewrite iterM_S.
    unfold decode_output at 1. rewrite read_number_app by exact Hlt. simpl.
    assert (dmem (gates c1) (gen_label io) = true) as Hex.
    { rewrite Hg1. replace (gen_label io) with (glab (N.to_nat io)) by (unfold glab; rewrite N2Nat.id; reflexivity).
      eapply dec_ok_has; [exact Hok|]. pose proof (ids_get_lt _ _ _ Hids Hio). lia. }
    unfold mark_as_output. rewrite check_gates_exist_ok by (intros x [<-|[]]; exact Hex). simpl.
    destruct (IH obs' (set_outputs_raw c1 (outputs c1 ++ [gen_label io])) Hm' Hg1) as (c2 & E2 & H1 & H2 & H3 & H4).
    exists c2. split; [exact E2|]. simpl in *. rewrite H1, H2, H3, H4. rewrite <- app_assoc. simpl.
    unfold relabel at 2. rewrite Hio. auto.
Qed.

(* ------------------------------------------------------------------ *)
(* assembling: encode, then decode *)
Lemma mapM_const {A B} (f : A -> res B) (y : B) l :
  (forall x, In x l -> f x = Ok y) -> mapM f l = Ok (map (fun _ => y) l).
Proof.
  induction l as [|x l IH]; intros H; simpl; [reflexivity|].
  rewrite (H x (or_introl eq_refl)). simpl. rewrite IH by (intros z Hz; apply H; right; exact Hz). reflexivity.
Qed.

Lemma inputs_image c d : ids_ok d -> forall ls pre post,
  dkeys d = pre ++ ls ++ post -> (forall l, In l ls -> gimg c d l = mkGate INPUT []) ->
  map (fun l => (relabel d l, gimg c d l)) ls
  = map (fun i => (glab i, mkGate INPUT [])) (seq (length pre) (length ls)).
Proof.
  intros Hok. induction ls as [|l ls IH]; intros pre post H Hg; [reflexivity|]. simpl. f_equal.
  - rewrite (Hg l (or_introl eq_refl)). f_equal.
    unfold relabel. rewrite (ids_nth_get d l (length pre) Hok); [reflexivity|].
    rewrite H, nth_error_app2, Nat.sub_diag by lia. reflexivity.
  - rewrite (IH (pre ++ [l]) post); [rewrite app_length, Nat.add_1_r; reflexivity| |].
    + rewrite H, <- app_assoc. reflexivity.
    + intros x Hx; apply Hg; right; exact Hx.
Qed.

Lemma ids_cover c d :
  codec_wf c -> enumerate_gates c = Ok d -> forall l, In l (dkeys d) <-> In l (dkeys (gates c)).
Proof.
  intros Hwf He l. destruct (enumerate_spec _ _ Hwf He) as (_ & pl & Hk & Hp). rewrite Hk.
  pose proof (keys_partition _ Hwf) as Hkp. split; intros H.
  - eapply Permutation_in; [exact Hkp|]. apply in_app_or in H as [H|H]; apply in_or_app; [left; exact H|right].
    eapply Permutation_in; eassumption.
  - eapply Permutation_in in H; [|apply Permutation_sym; exact Hkp].
    apply in_app_or in H as [H|H]; apply in_or_app; [left; exact H|right].
    eapply Permutation_in; [apply Permutation_sym; exact Hp|exact H].
Qed.

Lemma relabel_inj d a b : ids_ok d -> In a (dkeys d) -> In b (dkeys d) -> relabel d a = relabel d b -> a = b.
Proof.
  intros Hok Ha Hb. apply In_keys_dget in Ha as (ia & Ha). apply In_keys_dget in Hb as (ib & Hb).
  unfold relabel. rewrite Ha, Hb. intros E. apply gen_label_inj in E; subst ib. eapply ids_get_inj; eassumption.
Qed.

Opaque number_bits.
Theorem encode_decode_iso c bs :
  codec_wf c -> encode_circuit c = Ok bs ->
  exists c' d, decode_circuit bs = Ok c' /\ iso (relabel d) c c' /\ ops_exist c /\ outputs_exist c.
Proof.
  intros Hwf He. unfold encode_circuit in He.
  destruct (encode_bits c) as [b|] eqn:Eb; simpl in He; [|discriminate]. injection He as <-.
  destruct (encode_bits_inv _ _ Eb) as (d & gb & ob & H0 & H1 & H2 & H3 & Hen & Hgb & Hob & ->).
  destruct (enumerate_spec _ _ Hwf Hen) as (Hinv & pl & Hk & Hp).
  pose proof (ei_ok _ _ Hinv) as Hids. pose proof Hwf as [Hkeys Hindup Hin].
  set (ws := word_size c) in *.
  (* the chunks of the inputs are empty *)
  rewrite Hk in Hgb. apply mapM_app_inv in Hgb as (ra & rb & Hra & Hrb & ->).
  assert (concat ra = []) as Hra0.
  { rewrite (mapM_const (encode_gate c d ws) [] (inputs c)) in Hra.
    - injection Hra as <-. apply concat_all_nil. apply Forall_forall. intros x Hx.
      apply in_map_iff in Hx as (? & <- & _). reflexivity.
    - intros i Hi. apply Hin in Hi as (g & Hg & Ht). eapply encode_gate_input; eassumption. }
  rewrite concat_app, Hra0, app_nil_l.
  assert (forall l, In l pl -> exists g, dget (gates c) l = Some g /\ gtyp g <> INPUT) as Hpl.
  { intros l Hl. apply (non_input_labels_spec c l Hkeys). eapply Permutation_in; eassumption. }
  assert (length pl = intermediates c) as Hlen.
  { rewrite intermediates_length. apply Permutation_length; exact Hp. }
  (* decoding *)
  unfold decode_circuit.
  match goal with |- context [unpack (pack ?bb)] => destruct (unpack_pack bb) as (pad & Hpad & _); rewrite Hpad end.
  repeat rewrite <- app_assoc. unfold decode_bits, read_byte.
  rewrite read_number_app by exact H0. simpl fst; simpl snd. simpl bind. rewrite Nat2N.id.
  rewrite read_number_app by exact H1. simpl fst; simpl snd. simpl bind.
  rewrite read_number_app by exact H2. simpl fst; simpl snd. simpl bind.
  rewrite read_number_app by exact H3. simpl fst; simpl snd. simpl bind. rewrite !Nat2N.id.
  destruct (decode_inputs_run (concat rb ++ concat ob ++ pad) (length (inputs c)) 0 [] empty_circuit)
    as (c1 & E1 & Hg1 & Hi1 & Ho1 & Hb1 & Hok1); [split; reflexivity|].
  rewrite E1. simpl bind.
  change (gates empty_circuit) with (@nil (label * gate)) in Hg1. change (inputs empty_circuit) with (@nil label) in Hi1.
  change (outputs empty_circuit) with (@nil label) in Ho1. rewrite app_nil_l in Hg1, Hi1.
  destruct (decode_gates_run c d ws (concat ob ++ pad) Hinv pl (inputs c) rb _ c1 Hk Hok1 Hrb Hpl)
    as (c2 & E2 & Hg2 & Hi2 & Ho2 & Hb2 & Hok2).
  rewrite <- Hlen. rewrite !app_nil_l in E2, Hok2. unfold bits in *. rewrite E2. simpl bind.
  assert (length d = (length (inputs c) + length pl)%nat) as Hld.
  { rewrite <- (map_length fst d). fold (dkeys d). rewrite Hk, app_length. reflexivity. }
  destruct (decode_outputs_run d ws _ c2 pad _ Hids Hld Hok2 (outputs c) ob c2 Hob eq_refl)
    as (c3 & E3 & Hg3 & Hi3 & Hb3 & Ho3).
  unfold bits in *. rewrite E3. simpl.
  exists c3, d. split; [reflexivity|].
  (* the fields of the decoded circuit *)
  assert (gates c3 = map (fun l => (relabel d l, gimg c d l)) (dkeys d)) as HG.
  { rewrite Hg3, Hg2, Hg1, Hk, map_app. f_equal. symmetry.
    apply (inputs_image c d Hids (inputs c) [] pl Hk).
    intros l Hl. apply Hin in Hl as (g & Hg & Ht). unfold gimg. rewrite Hg, Ht. reflexivity. }
  assert (inputs c3 = map (relabel d) (inputs c)) as HI.
  { rewrite Hi3, Hi2, Hi1. symmetry. apply (relabel_keys d Hids (inputs c) [] pl Hk). }
  assert (outputs c3 = map (relabel d) (outputs c)) as HO by (rewrite Ho3, Ho2, Ho1; reflexivity).
  pose proof (ids_cover _ _ Hwf Hen) as Hcov.
  assert (forall l g, dget (gates c) l = Some g -> In l (dkeys d)) as Hmem.
  { intros l g Hg. apply Hcov. eapply dget_In_keys; exact Hg. }
  split; [|split].
  - split.
    + intros a b Ha Hb. apply dmem_keys in Ha, Hb. apply Hcov in Ha, Hb. apply relabel_inj; assumption.
    + exact HI.
    + exact HO.
    + intros l g Hg. exists (gimg c d l). split.
      * rewrite HG. apply (dget_map_inj (relabel d) (gimg c d)); [|eapply Hmem; exact Hg].
        intros a b Ha Hb; apply relabel_inj; assumption.
      * unfold gimg. rewrite Hg. destruct (gtype_beq (gtyp g) INPUT) eqn:Et.
        -- apply gtype_beq_eq in Et. split; [symmetry; exact Et|left; exact Et].
        -- split; [reflexivity|right; reflexivity].
    + intros l' Hl'. apply dmem_keys in Hl'. rewrite HG in Hl'. unfold dkeys in Hl'. rewrite map_map in Hl'. simpl in Hl'.
      apply in_map_iff in Hl' as (l & <- & Hl). exists l. split; [|reflexivity]. apply dmem_keys, Hcov; exact Hl.
    + rewrite HG, map_length. unfold dkeys. rewrite map_length.
      rewrite <- (map_length fst d), <- (map_length fst (gates c)). fold (dkeys d). fold (dkeys (gates c)).
      rewrite Hk. rewrite <- (Permutation_length (keys_partition _ Hwf)), !app_length.
      rewrite (Permutation_length Hp). reflexivity.
  - intros l g o Hg Ht Ho. apply dmem_keys, Hcov.
    destruct (In_keys_dget d l (Hmem _ _ Hg)) as (il & Hil).
    destruct (ei_before _ _ Hinv _ _ _ Hil Hg Ht o Ho) as (io & Hio & _). eapply dget_In_keys; exact Hio.
  - intros o Ho. apply dmem_keys, Hcov. apply mapM_ok_Forall2 in Hob.
    clear -Hob Ho. induction Hob as [|x y xs ys Hxy _ IH]; [contradiction|].
    destruct Ho as [<-|Ho]; [|apply IH; exact Ho].
    apply write_id_inv in Hxy as (io & Hio & _). eapply dget_In_keys; exact Hio.
Qed.

(* ------------------------------------------------------------------ *)
(* encoding fails only with codec errors *)
Lemma mapM_err {A B} (f : A -> res B) l e : mapM f l = Err e -> exists x, In x l /\ f x = Err e.
Proof.
  induction l as [|x l IH]; simpl; [discriminate|].
  destruct (f x) eqn:E; simpl.
  - destruct (mapM f l); simpl; [discriminate|]. intros [= <-]. destruct (IH eq_refl) as (y & Hy & Ey). eauto.
  - intros [= <-]. eauto.
Qed.

Lemma write_id_err d ws o e : write_id d ws o = Err e -> dmem d o = true -> e = BitIOError.
Proof.
  unfold write_id, dmem. destruct (dget d o); [|discriminate]. intros H _. eapply write_number_err; exact H.
Qed.

Definition codec_error (e : err) : Prop := e = CircuitEncodingError \/ e = BitIOError.

Theorem encode_errors_are_codec_errors c e :
  codec_wf c -> outputs_exist c -> encode_circuit c = Err e -> codec_error e.
Proof.
  intros Hwf Hout He. unfold encode_circuit in He.
  destruct (encode_bits c) as [b|] eqn:Eb; simpl in He; [discriminate|]. injection He as <-.
  unfold encode_bits, write_byte in Eb. set (ws := word_size c) in *.
  destruct (write_number (N.of_nat ws) 8) eqn:E0; simpl in Eb;
    [|injection Eb as <-; right; eapply write_number_err; eassumption].
  destruct (write_number (N.of_nat (length (inputs c))) ws) eqn:E1; simpl in Eb;
    [|injection Eb as <-; right; eapply write_number_err; eassumption].
  destruct (write_number (N.of_nat (length (outputs c))) ws) eqn:E2; simpl in Eb;
    [|injection Eb as <-; right; eapply write_number_err; eassumption].
  destruct (write_number (N.of_nat (intermediates c)) ws) eqn:E3; simpl in Eb;
    [|injection Eb as <-; right; eapply write_number_err; eassumption].
  destruct (enumerate_gates c) as [d|] eqn:Een; simpl in Eb;
    [|injection Eb as <-; left; eapply enumerate_err; eassumption].
  destruct (enumerate_spec _ _ Hwf Een) as (Hinv & _). pose proof (ids_cover _ _ Hwf Een) as Hcov.
  destruct (mapM (encode_gate c d ws) (dkeys d)) eqn:Eg; simpl in Eb.
  - destruct (mapM (write_id d ws) (outputs c)) eqn:Eo; simpl in Eb; [discriminate|]. injection Eb as <-.
    apply mapM_err in Eo as (o & Ho & Eo). right. eapply write_id_err; [exact Eo|].
    apply dmem_keys, Hcov, dmem_keys, Hout; exact Ho.
  - injection Eb as <-. apply mapM_err in Eg as (l & Hl & Eg).
    destruct (In_keys_dget _ _ (proj1 (Hcov l) Hl)) as (g & Hg).
    unfold encode_gate in Eg. rewrite (proj2 (get_gate_ok c l g) Hg) in Eg. simpl in Eg.
    destruct (gtype_beq (gtyp g) INPUT) eqn:Et; [discriminate|].
    destruct (gate_type_to_int (gtyp g)) as [code|]; [|injection Eg as <-; left; reflexivity].
    destruct (negb _); [injection Eg as <-; left; reflexivity|].
    destruct (write_number code GATE_TYPE_BIT_SIZE) eqn:Ec; simpl in Eg;
      [|injection Eg as <-; right; eapply write_number_err; eassumption].
    destruct (mapM (write_id d ws) (gops g)) eqn:Em; simpl in Eg; [discriminate|]. injection Eg as <-.
    apply mapM_err in Em as (o & Ho & Eo). right. eapply write_id_err; [exact Eo|].
    destruct (In_keys_dget _ _ Hl) as (il & Hil).
    assert (gtyp g <> INPUT) as Hnt by (intros E; rewrite E in Et; discriminate).
    destruct (ei_before _ _ Hinv _ _ _ Hil Hg Hnt o Ho) as (io & Hio & _). unfold dmem; rewrite Hio; reflexivity.
Qed.

(* ------------------------------------------------------------------ *)
(* circuits inside the format are encoded whatever the storage order *)
Definition format_ok (c : circuit) : Prop :=
  forall l g, dget (gates c) l = Some g -> gtyp g <> INPUT ->
    (exists code, gate_type_to_int (gtyp g) = Some code) /\ length (gops g) = get_arity (gtyp g).

Definition acyclic (c : circuit) : Prop :=
  exists rank : label -> nat, forall l g o,
    dget (gates c) l = Some g -> gtyp g <> INPUT -> In o (gops g) -> (rank o < rank l)%nat.

Lemma exists_min (rank : label -> nat) (l : list label) :
  l <> [] -> exists m, In m l /\ forall x, In x l -> (rank m <= rank x)%nat.
Proof.
  induction l as [|a l IH]; [congruence|]. intros _. destruct l as [|b l].
  - exists a. split; [left; reflexivity|]. intros x [<-|[]]; lia.
  - destruct IH as (m & Hm & Hmin); [discriminate|].
    destruct (Nat.le_gt_cases (rank a) (rank m)).
    + exists a. split; [left; reflexivity|]. intros x [<-|Hx]; [lia|]. specialize (Hmin x Hx). lia.
    + exists m. split; [right; exact Hm|]. intros x [<-|Hx]; [lia|]. apply Hmin; exact Hx.
Qed.

Lemma mapM_total {A B} (f : A -> res B) l : (forall x, In x l -> exists y, f x = Ok y) -> exists r, mapM f l = Ok r.
Proof.
  induction l as [|x l IH]; intros H; simpl; [eauto|].
  destruct (H x (or_introl eq_refl)) as (y & ->). destruct IH as (r & ->); [intros z Hz; apply H; right; exact Hz|].
  simpl. eauto.
Qed.

Lemma enum_loop_total c (rank : label -> nat) :
  ops_exist c ->
  (forall l g o, dget (gates c) l = Some g -> gtyp g <> INPUT -> In o (gops g) -> (rank o < rank l)%nat) ->
  forall fuel P d,
    enum_inv c d -> NoDup P -> (forall l, In l P -> dmem d l = false) ->
    (forall l, dmem (gates c) l = true -> dmem d l = true \/ In l P) ->
    (forall l, In l P -> exists g, dget (gates c) l = Some g /\ gtyp g <> INPUT) ->
    (length P <= fuel)%nat -> exists d', enum_loop fuel c P d = Ok d'.
Proof.
  intros Hex Hrank. induction fuel as [|fuel IH]; intros P d Hinv Hnd Hfresh Hcov Hty Hlen.
  - destruct P; [simpl; eauto|simpl in Hlen; lia].
  - destruct P as [|l0 P0]; [simpl; eauto|]. rewrite enum_loop_S. set (P := l0 :: P0) in *.
    destruct (enum_pass_total c P d []) as ([d1 post] & Ep).
    { intros l Hl. destruct (Hty l Hl) as (g & Hg & _). unfold dmem; rewrite Hg; reflexivity. }
    rewrite Ep. cbv beta iota delta [bind fst snd].
    assert (length post < length P)%nat as Hlt.
    { change (length post < length (@nil label) + length P)%nat.
      eapply enum_pass_progress; [exact Ep|apply Hinv|exact Hnd|exact Hfresh|].
      destruct (exists_min rank P) as (m & Hm & Hmin); [unfold P; discriminate|].
      destruct (Hty m Hm) as (g & Hg & Ht). exists m, g. split; [exact Hm|]. split; [exact Hg|].
      apply forallb_forall. intros o Ho.
      destruct (Hcov o (Hex _ _ _ Hg Ht Ho)) as [Hd|Hp]; [exact Hd|].
      specialize (Hmin o Hp). specialize (Hrank _ _ _ Hg Ht Ho). lia. }
    destruct (Nat.eqb_spec (length post) (length P)) as [E|_]; [lia|].
    destruct (enum_pass_spec _ _ _ _ _ _ Ep Hinv Hnd Hfresh) as (pl & pp & Epost & Hk & Hi & Hp).
    simpl in Epost; subst post.
    assert (NoDup (pl ++ pp)) as Hnd' by (eapply Permutation_NoDup; eassumption).
    apply NoDup_app_iff in Hnd' as (_ & Hndpp & Hdisj).
    apply IH; [exact Hi|exact Hndpp| | | |unfold P in *; simpl in *; lia].
    + intros x Hxin. destruct (dmem d1 x) eqn:E; [|reflexivity]. apply dmem_keys in E. rewrite Hk in E.
      apply in_app_or in E as [E|E].
      * apply dmem_keys in E. rewrite Hfresh in E; [discriminate|].
        eapply Permutation_in; [apply Permutation_sym; exact Hp|]. apply in_or_app; right; exact Hxin.
      * exfalso; eapply Hdisj; eassumption.
    + intros l Hl. destruct (Hcov l Hl) as [Hd|Hpin].
      * left. apply dmem_keys. rewrite Hk. apply in_or_app; left. apply dmem_keys; exact Hd.
      * eapply Permutation_in in Hpin; [|exact Hp]. apply in_app_or in Hpin as [H|H]; [|right; exact H].
        left. apply dmem_keys. rewrite Hk. apply in_or_app; right; exact H.
    + intros l Hl. apply Hty. eapply Permutation_in; [apply Permutation_sym; exact Hp|]. apply in_or_app; right; exact Hl.
Qed.

Lemma bit_length_gt n m : (n <= m)%nat -> (N.of_nat n < 2 ^ N.of_nat (bit_length m))%N.
Proof.
  intros H. unfold bit_length. rewrite N2Nat.id. pose proof (N.size_gt (N.of_nat m)). lia.
Qed.

Lemma arity_positive g code : gate_type_to_int g = Some code -> (1 <= get_arity g)%nat.
Proof. destruct g; simpl; intros H; try discriminate; lia. Qed.

Theorem format_circuits_encode c :
  codec_wf c -> ops_exist c -> outputs_exist c -> acyclic c -> format_ok c ->
  (word_size c < 256)%nat -> exists bs, encode_circuit c = Ok bs.
Proof.
  intros Hwf Hex Hout (rank & Hrank) Hfmt Hws. pose proof Hwf as [Hkeys Hindup Hin].
  pose proof (keys_partition _ Hwf) as Hpart. pose proof (Permutation_length Hpart) as Hlen.
  rewrite app_length in Hlen. unfold dkeys in Hlen. rewrite map_length in Hlen. fold (size c) in Hlen.
  rewrite <- intermediates_length in Hlen.
  (* without inputs an acyclic circuit inside the format has no gate at all *)
  assert (length (inputs c) = 0%nat -> intermediates c = 0%nat) as Hnoin.
  { intros H0. rewrite intermediates_length. destruct (non_input_labels c) as [|a ls] eqn:El; [reflexivity|exfalso].
    destruct (exists_min rank (a :: ls)) as (m & Hm & Hmin); [discriminate|]. rewrite <- El in Hm, Hmin.
    apply (non_input_labels_spec c m Hkeys) in Hm as (g & Hg & Ht).
    destruct (Hfmt _ _ Hg Ht) as ((code & Hc) & Ha). pose proof (arity_positive _ _ Hc) as Hpos.
    destruct (gops g) as [|o ops] eqn:Eo; [simpl in Ha; lia|].
    assert (In o (gops g)) as Ho by (rewrite Eo; left; reflexivity).
    pose proof (Hex _ _ _ Hg Ht Ho) as Hoe. unfold dmem in Hoe.
    destruct (dget (gates c) o) as [go|] eqn:Ego; [|discriminate].
    destruct (gtype_beq (gtyp go) INPUT) eqn:Eto.
    - apply gtype_beq_eq in Eto. assert (In o (inputs c)) as Hoi by (apply Hin; eauto).
      destruct (inputs c); [contradiction|simpl in H0; lia].
    - assert (In o (non_input_labels c)) as Hon.
      { apply non_input_labels_spec; [exact Hkeys|]. exists go. split; [exact Ego|]. intros E; rewrite E in Eto; discriminate. }
      specialize (Hmin o Hon). specialize (Hrank _ _ _ Hg Ht Ho). lia. }
  (* sizes fit the word size *)
  assert ((size c =? 0)%nat = false -> forall n, (n <= size c - 1)%nat \/ n = length (inputs c) \/ n = length (outputs c) ->
          (N.of_nat n < 2 ^ N.of_nat (word_size c))%N) as Hfit.
  { intros Hs n Hn. unfold word_size. rewrite Hs. apply bit_length_gt. lia. }
  assert ((N.of_nat (length (inputs c)) < 2 ^ N.of_nat (word_size c))%N /\
          (N.of_nat (length (outputs c)) < 2 ^ N.of_nat (word_size c))%N /\
          (N.of_nat (intermediates c) < 2 ^ N.of_nat (word_size c))%N /\
          (forall i, (i < N.of_nat (size c))%N -> (i < 2 ^ N.of_nat (word_size c))%N)) as (F1 & F2 & F3 & F4).
  { destruct (size c =? 0)%nat eqn:Hs.
    - apply Nat.eqb_eq in Hs. assert (outputs c = []) as Ho0.
      { destruct (outputs c) as [|o os] eqn:Eo; [reflexivity|exfalso].
        assert (dmem (gates c) o = true) as H by (apply Hout; rewrite Eo; left; reflexivity).
        unfold size in Hs. destruct (gates c); [discriminate|discriminate]. }
      unfold word_size. rewrite Hs, Ho0. simpl.
      replace (length (inputs c)) with 0%nat by lia. replace (intermediates c) with 0%nat by lia.
      repeat split; try reflexivity. intros i Hi. lia.
    - repeat split.
      + apply Hfit; auto.
      + apply Hfit; auto.
      + apply Hfit; [reflexivity|]. destruct (length (inputs c)) as [|k] eqn:Ek; [|left; lia].
        rewrite (Hnoin eq_refl). left; lia.
      + intros i Hi. apply Nat.eqb_neq in Hs.
        pose proof (Hfit eq_refl (size c - 1)%nat (or_introl (le_n _))) as H. lia. }
  (* enumeration *)
  assert (exists d, enumerate_gates c = Ok d) as (d & Hen).
  { unfold enumerate_gates.
    destruct (fold_ids_add (inputs c) [] ids_ok_nil Hindup) as (Hok0 & Hk0); [reflexivity|]. simpl in Hk0.
    set (d0 := fold_left ids_add (inputs c) []) in *.
    apply (enum_loop_total c rank Hex Hrank); [| | | | |apply le_n].
    - split; [exact Hok0|]. intros l g il Hl Hg Ht. exfalso.
      apply dget_In_keys in Hl. rewrite Hk0 in Hl. apply Hin in Hl as (g' & Hg' & Ht'). congruence.
    - apply non_input_labels_nodup; exact Hkeys.
    - intros l Hl. destruct (dmem d0 l) eqn:E; [|reflexivity]. apply dmem_keys in E. rewrite Hk0 in E.
      apply Hin in E as (g & Hg & Ht). apply non_input_labels_spec in Hl as (g' & Hg' & Ht'); [|exact Hkeys]. congruence.
    - intros l Hl. apply dmem_keys in Hl. eapply Permutation_in in Hl; [|apply Permutation_sym; exact Hpart].
      apply in_app_or in Hl as [H|H]; [left; apply dmem_keys; rewrite Hk0; exact H|right; exact H].
    - intros l Hl. apply non_input_labels_spec; assumption. }
  destruct (enumerate_spec _ _ Hwf Hen) as (Hinv & pl & Hk & Hp). pose proof (ids_cover _ _ Hwf Hen) as Hcov.
  assert (length d = size c) as Hld.
  { rewrite <- (map_length fst d). fold (dkeys d). rewrite Hk, app_length, (Permutation_length Hp), <- intermediates_length. lia. }
  assert (forall o, dmem d o = true -> exists b, write_id d (word_size c) o = Ok b) as Hwid.
  { intros o Ho. unfold write_id, dmem in *. destruct (dget d o) as [io|] eqn:Eo; [|discriminate].
    rewrite write_number_ok; [eauto|]. apply F4. rewrite <- Hld. eapply ids_get_lt; [apply Hinv|exact Eo]. }
  assert (exists gb, mapM (encode_gate c d (word_size c)) (dkeys d) = Ok gb) as (gb & Hgb).
  { apply mapM_total. intros l Hl. destruct (In_keys_dget _ _ (proj1 (Hcov l) Hl)) as (g & Hg).
    destruct (gtype_beq (gtyp g) INPUT) eqn:Et.
    - apply gtype_beq_eq in Et. exists []. eapply encode_gate_input; eassumption.
    - assert (gtyp g <> INPUT) as Hnt by (intros E; rewrite E in Et; discriminate).
      destruct (Hfmt _ _ Hg Hnt) as ((code & Hc) & Ha).
      unfold encode_gate. rewrite (proj2 (get_gate_ok c l g) Hg). simpl. rewrite Et, Hc, Ha, Nat.eqb_refl. simpl.
      rewrite write_number_ok by (eapply code_fits; exact Hc). simpl.
      destruct (mapM_total (write_id d (word_size c)) (gops g)) as (obs & ->); [|simpl; eauto].
      intros o Ho. apply Hwid. destruct (In_keys_dget _ _ Hl) as (il & Hil).
      destruct (ei_before _ _ Hinv _ _ _ Hil Hg Hnt o Ho) as (io & Hio & _). unfold dmem; rewrite Hio; reflexivity. }
  assert (exists ob, mapM (write_id d (word_size c)) (outputs c) = Ok ob) as (ob & Hob).
  { apply mapM_total. intros o Ho. apply Hwid. apply dmem_keys, Hcov, dmem_keys, Hout; exact Ho. }
  unfold encode_circuit, encode_bits, write_byte.
  rewrite write_number_ok by (change (2 ^ N.of_nat 8)%N with 256%N; lia). simpl.
  rewrite (write_number_ok _ _ F1). simpl. rewrite (write_number_ok _ _ F2). simpl.
  rewrite (write_number_ok _ _ F3). simpl. rewrite Hen. simpl. rewrite Hgb. simpl. rewrite Hob. simpl. eauto.
Qed.
Transparent number_bits.
