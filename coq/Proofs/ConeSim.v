(* C04, pattern simulation of a cone: simulating a cone node by node with eval_pattern,
   starting from the patterns of _generate_inputs_tt on the leaves, gives for every node the
   pattern whose bit i is the node's value under the i-th leaf assignment - the patterns
   are the truth tables of the cone's nodes over the cut. *)
Require Import Cirbo.Model.Base Cirbo.Model.Gate Cirbo.Model.Den Cirbo.Model.Circuit
        Cirbo.Model.ConeSem Cirbo.Model.PatternSim.
Require Import Cirbo.Generated.GateTypes Cirbo.Generated.PatternOps.
Require Import Cirbo.Proofs.DictFacts Cirbo.Proofs.PatternBits Cirbo.Proofs.PatternFacts
        Cirbo.Proofs.InputsTT.
Local Open Scope N_scope.

Lemma nth_error_seq s m j : (j < m)%nat -> nth_error (seq s m) j = Some (s + j)%nat.
Proof.
  revert s j; induction m as [|m IH]; intros s j Hj; [lia|].
  destruct j as [|j]; simpl; [f_equal; lia|]. rewrite IH by lia. f_equal; lia.
Qed.

Lemma nth_error_nrange n j : (j < N.to_nat n)%nat -> nth_error (nrange n) j = Some (N.of_nat j).
Proof.
  intros Hj. unfold nrange. apply map_nth_error. rewrite nth_error_seq by exact Hj. reflexivity.
Qed.

Lemma dget_combine_nth {V} : forall (ls : list label) (vs : list V) j l v,
  NoDup ls -> nth_error ls j = Some l -> nth_error vs j = Some v ->
  dget (combine ls vs) l = Some v.
Proof.
  induction ls as [|x xs IH]; intros vs j l v Hnd Hl Hv; [destruct j; discriminate|].
  destruct vs as [|y ys]; [destruct j; discriminate|].
  inversion Hnd as [|? ? Hx Hnd']; subst. destruct j as [|j]; simpl in *.
  - injection Hl as ->. injection Hv as ->. rewrite leqb_refl. reflexivity.
  - destruct (leqb_spec l x) as [->|Hne].
    + exfalso. apply Hx. eapply nth_error_In; eassumption.
    + eapply IH; eassumption.
Qed.

Lemma dget_combine_notin {V} : forall (ls : list label) (vs : list V) l,
  ~ In l ls -> dget (combine ls vs) l = None.
Proof.
  induction ls as [|x xs IH]; intros vs l Hl; [reflexivity|].
  destruct vs as [|y ys]; [reflexivity|]. simpl.
  destruct (leqb_spec l x) as [->|Hne]; [exfalso; apply Hl; left; reflexivity|].
  apply IH. intros H; apply Hl; right; exact H.
Qed.

Lemma row_assign_leaf leaves i j l :
  NoDup leaves -> nth_error leaves j = Some l ->
  dget (row_assign leaves i) l = Some (N.testbit i (N.of_nat j)).
Proof.
  intros Hnd Hl. unfold row_assign. eapply dget_combine_nth; [exact Hnd|exact Hl|].
  apply map_nth_error. apply nth_error_nrange. rewrite Nat2N.id.
  apply nth_error_Some. congruence.
Qed.

Section Sim.
  Variables (c : circuit) (leaves : list label).
  Hypothesis Hnd : NoDup leaves.
  Let n := N.of_nat (length leaves).

  Definition good (l : label) (p : N) : Prop :=
    p < 2 ^ (2 ^ n) /\
    forall i, i < 2 ^ n -> ConeEval c (row_assign leaves i) l (N.testbit p i).

  Definition inv (seen : list label) (d : dict N) : Prop :=
    (forall l p, dget d l = Some p -> good l p) /\
    (forall l, In l leaves \/ In l seen -> dmem d l = true).

  Lemma assign_leaves_inv : forall ls tts d d' k,
    assign_leaves ls tts d = Ok d' ->
    (forall l p, dget d l = Some p -> good l p) ->
    (forall j l t, nth_error ls j = Some l -> nth_error tts j = Some t -> good l t) ->
    (forall l, In l k -> dmem d l = true) ->
    (forall l p, dget d' l = Some p -> good l p) /\
    (forall l, In l k \/ In l ls -> dmem d' l = true).
  Proof.
    induction ls as [|x xs IH]; intros tts d d' k Ha Hd Hq Hk; simpl in Ha.
    - injection Ha as <-. split; [exact Hd|]. intros l [H|[]]; auto.
    - destruct tts as [|t ts]; [discriminate|].
      destruct (IH ts (dset d x t) d' (x :: k) Ha) as [H1 H2].
      + intros l p. rewrite dget_dset. destruct (leqb_spec l x) as [->|Hne]; [|apply Hd].
        intros [= <-]. apply (Hq 0%nat); reflexivity.
      + intros j l t' Hl Ht. apply (Hq (S j)); assumption.
      + intros l [<-|Hl]; rewrite dmem_dset; [rewrite leqb_refl; reflexivity|].
        rewrite (Hk l Hl). apply orb_true_r.
      + split; [exact H1|]. intros l [Hl|[<-|Hl]]; apply H2; simpl; auto.
  Qed.

  Lemma init_inv d0 :
    assign_leaves leaves (generate_inputs_tt n) [] = Ok d0 -> inv [] d0.
  Proof.
    intros Ha. destruct (generate_inputs_tt_spec n) as [Hlen Hspec].
    destruct (assign_leaves_inv leaves (generate_inputs_tt n) [] d0 [] Ha) as [H1 H2].
    - intros l p; discriminate.
    - intros j l t Hl Ht.
      assert (j < length leaves)%nat as Hj by (apply nth_error_Some; congruence).
      assert (N.of_nat j < n) as Hjn by (unfold n; lia).
      destruct (Hspec _ Hjn) as [Hlt Hbits]. rewrite Nat2N.id in Hlt, Hbits.
      assert (nth j (generate_inputs_tt n) 0 = t) as Et by (apply nth_error_nth; exact Ht).
      rewrite Et in Hlt, Hbits.
      split; [exact Hlt|]. intros i Hi. apply CELeaf.
      rewrite (Hbits i Hi). apply row_assign_leaf; assumption.
    - intros l [].
    - split; [exact H1|]. intros l [Hl|[]]. apply H2; right; exact Hl.
  Qed.

  Lemma step_good seen d node g p :
    inv seen d -> ~ In node leaves ->
    dget (gates c) node = Some g -> arity_okb g = true ->
    forallb (fun o => memb o leaves || memb o seen) (gops g) = true ->
    eval_pattern (max_pattern n) (gtyp g) (map (pat_get d) (gops g)) = Ok p ->
    good node p.
  Proof.
    intros [Hd Hk] Hnl Hg Har Hops He.
    assert (Forall (fun o => good o (pat_get d o)) (gops g)) as Hgood.
    { apply Forall_forall; intros o Ho.
      rewrite forallb_forall in Hops. specialize (Hops o Ho).
      apply orb_true_iff in Hops. rewrite !memb_In in Hops.
      specialize (Hk o Hops). unfold dmem in Hk. unfold pat_get.
      destruct (dget d o) as [q|] eqn:E; [|discriminate]. apply Hd; exact E. }
    unfold arity_okb in Har.
    destruct (eval_pattern_den n (gtyp g) (map (pat_get d) (gops g))) as (r & Hr & Hlt & Hbits).
    - rewrite map_length; exact Har.
    - apply Forall_map. eapply Forall_impl; [|exact Hgood]. intros o [Ho _]; exact Ho.
    - rewrite He in Hr; injection Hr as <-.
      split; [exact Hlt|]. intros i Hi.
      eapply CEGate; [apply dget_combine_notin; exact Hnl|exact Hg| |apply Hbits; exact Hi].
      rewrite map_map. clear -Hgood Hi. induction Hgood as [|o os [_ Ho] _ IH]; simpl; constructor;
        [apply Ho; exact Hi|exact IH].
  Qed.

  Lemma step_ok seen d g :
    inv seen d -> arity_okb g = true ->
    forallb (fun o => memb o leaves || memb o seen) (gops g) = true ->
    exists p, eval_pattern (max_pattern n) (gtyp g) (map (pat_get d) (gops g)) = Ok p.
  Proof.
    intros [Hd Hk] Har Hops.
    unfold arity_okb in Har.
    destruct (eval_pattern_den n (gtyp g) (map (pat_get d) (gops g))) as (r & Hr & _).
    - rewrite map_length; exact Har.
    - apply Forall_map. apply Forall_forall; intros o Ho.
      rewrite forallb_forall in Hops. specialize (Hops o Ho).
      apply orb_true_iff in Hops. rewrite !memb_In in Hops.
      specialize (Hk o Hops). unfold dmem in Hk. unfold pat_get.
      destruct (dget d o) as [q|] eqn:E; [|discriminate]. apply (Hd o q E).
    - exists r; exact Hr.
  Qed.

  Lemma sim_loop_total : forall nodes seen d,
    inv seen d -> cone_okb c leaves seen nodes = true ->
    exists d', foldM (fun d node =>
             if memb node leaves then Ok d else
             do g <- get_gate c node;
             do p <- eval_pattern (max_pattern n) (gtyp g) (map (pat_get d) (gops g));
             Ok (dset d node p)) nodes d = Ok d'.
  Proof.
    induction nodes as [|x xs IH]; intros seen d Hinv Hok; simpl in *; [eexists; reflexivity|].
    destruct (memb x leaves) eqn:Em; simpl; [apply (IH seen d Hinv Hok)|].
    unfold get_gate. destruct (dget (gates c) x) as [g|] eqn:Eg; [|discriminate]. simpl.
    apply andb_true_iff in Hok. destruct Hok as [Hok Hrest].
    apply andb_true_iff in Hok. destruct Hok as [Har Hops].
    destruct (step_ok seen d g Hinv Har Hops) as (p & Hp). rewrite Hp. simpl.
    apply (IH (x :: seen)); [|exact Hrest].
    assert (good x p) as Hgx.
    { eapply step_good; try eassumption. apply memb_nIn; exact Em. }
    destruct Hinv as [Hd Hk]. split.
    - intros l q. rewrite dget_dset. destruct (leqb_spec l x) as [->|Hne]; [|apply Hd].
      intros [= <-]; exact Hgx.
    - intros l Hl. rewrite dmem_dset. destruct (leqb_spec l x) as [->|Hne]; [reflexivity|].
      simpl. apply Hk. destruct Hl as [Hl|[Hl|Hl]]; auto. congruence.
  Qed.

  Lemma sim_loop : forall nodes seen d d',
    inv seen d -> cone_okb c leaves seen nodes = true ->
    foldM (fun d node =>
             if memb node leaves then Ok d else
             do g <- get_gate c node;
             do p <- eval_pattern (max_pattern n) (gtyp g) (map (pat_get d) (gops g));
             Ok (dset d node p)) nodes d = Ok d' ->
    inv (rev nodes ++ seen) d'.
  Proof.
    induction nodes as [|x xs IH]; intros seen d d' Hinv Hok Hf; simpl in *.
    - injection Hf as <-. exact Hinv.
    - destruct (memb x leaves) eqn:Em; simpl in Hf.
      + specialize (IH seen d d' Hinv Hok Hf). destruct IH as [H1 H2]. split; [exact H1|].
        intros l [Hl|Hl]; [apply H2; left; exact Hl|].
        rewrite <- app_assoc in Hl. apply in_app_or in Hl. destruct Hl as [Hl|Hl].
        * apply H2; right; apply in_or_app; left; exact Hl.
        * simpl in Hl. destruct Hl as [<-|Hl]; [apply H2; left; apply memb_In; exact Em|].
          apply H2; right; apply in_or_app; right; exact Hl.
      + unfold get_gate in Hf. destruct (dget (gates c) x) as [g|] eqn:Eg; [|discriminate].
        simpl in Hf. apply andb_true_iff in Hok. destruct Hok as [Hok Hrest].
        apply andb_true_iff in Hok. destruct Hok as [Har Hops].
        destruct (eval_pattern (max_pattern n) (gtyp g) (map (pat_get d) (gops g))) as [p|] eqn:Ep;
          [|discriminate]. simpl in Hf.
        assert (good x p) as Hgx.
        { eapply step_good; try eassumption. apply memb_nIn; exact Em. }
        assert (inv (x :: seen) (dset d x p)) as Hinv'.
        { destruct Hinv as [Hd Hk]. split.
          - intros l q. rewrite dget_dset. destruct (leqb_spec l x) as [->|Hne]; [|apply Hd].
            intros [= <-]; exact Hgx.
          - intros l Hl. rewrite dmem_dset. destruct (leqb_spec l x) as [->|Hne]; [reflexivity|].
            simpl. apply Hk. destruct Hl as [Hl|[Hl|Hl]]; auto. congruence. }
        specialize (IH (x :: seen) (dset d x p) d' Hinv' Hrest Hf).
        rewrite <- app_assoc. exact IH.
  Qed.
End Sim.

Theorem simulate_cone_truth_tables c leaves nodes d :
  NoDup leaves -> cone_okb c leaves [] nodes = true ->
  simulate_cone c leaves nodes = Ok d ->
  (forall l p, dget d l = Some p ->
     p < 2 ^ (2 ^ N.of_nat (length leaves)) /\
     forall i, i < 2 ^ N.of_nat (length leaves) ->
       ConeEval c (row_assign leaves i) l (N.testbit p i)) /\
  (forall l, In l leaves \/ In l nodes -> dmem d l = true).
Proof.
  intros Hnd Hok Hs. unfold simulate_cone in Hs.
  destruct (assign_leaves leaves (generate_inputs_tt (N.of_nat (length leaves))) []) as [d0|] eqn:Ea;
    [|discriminate]. simpl in Hs.
  pose proof (init_inv c leaves Hnd d0 Ea) as Hinv.
  pose proof (sim_loop c leaves nodes [] d0 d Hinv Hok Hs) as [H1 H2].
  split; [exact H1|]. intros l [Hl|Hl]; apply H2; [left; exact Hl|].
  right. rewrite app_nil_r. apply -> in_rev. exact Hl.
Qed.


Lemma assign_leaves_ok : forall ls tts d,
  (length ls <= length tts)%nat -> exists d', assign_leaves ls tts d = Ok d'.
Proof.
  induction ls as [|x xs IH]; intros tts d Hl; simpl; [eexists; reflexivity|].
  destruct tts as [|t ts]; simpl in Hl; [lia|]. apply IH. lia.
Qed.

(* on a cone that satisfies the side conditions the simulation raises nothing
   (no IndexError, no UnsupportedOperationError) *)
Theorem simulate_cone_total c leaves nodes :
  NoDup leaves -> cone_okb c leaves [] nodes = true ->
  exists d, simulate_cone c leaves nodes = Ok d.
Proof.
  intros Hnd Hok. unfold simulate_cone.
  destruct (assign_leaves_ok leaves (generate_inputs_tt (N.of_nat (length leaves))) []) as (d0 & Hd0).
  { destruct (generate_inputs_tt_spec (N.of_nat (length leaves))) as [Hl _].
    rewrite Hl, Nat2N.id. apply Nat.le_refl. }
  rewrite Hd0. simpl.
  apply (sim_loop_total c leaves nodes [] d0); [|exact Hok].
  apply init_inv; assumption.
Qed.
