(* validation.check_circuit_has_no_cycles on arbitrary netlists (no acyclicity assumed):
   it raises CircuitValidationError exactly when a cycle is reachable from the start set. *)
Require Import Cirbo.Model.Base Cirbo.Model.Gate Cirbo.Model.Circuit Cirbo.Model.Traverse Cirbo.Model.WF.
Require Import Cirbo.Proofs.DictFacts Cirbo.Proofs.TopSort Cirbo.Proofs.TopSortWF.
Require Import Cirbo.Proofs.TraverseStep Cirbo.Proofs.TraverseInv Cirbo.Proofs.TraverseDfs
               Cirbo.Proofs.TraverseFuel Cirbo.Proofs.TraverseSpec.

(* position of a label in a list (length if absent) *)
Fixpoint idx (a : label) (l : list label) : nat :=
  match l with [] => 0 | x :: r => if leqb a x then 0 else S (idx a r) end.

Lemma idx_app_in a l1 l2 : In a l1 -> idx a (l1 ++ l2) = idx a l1 /\ idx a l1 < length l1.
Proof.
  induction l1 as [|x r IH]; simpl; [contradiction|]. intros Hin.
  destruct (leqb_spec a x) as [->|Hne]; [split; [reflexivity|lia]|].
  destruct Hin as [H|H]; [congruence|]. destruct (IH H). split; lia.
Qed.

Lemma idx_app_notin a l1 l2 : ~ In a l1 -> idx a (l1 ++ a :: l2) = length l1.
Proof.
  induction l1 as [|x r IH]; simpl; intros Hn; [rewrite leqb_refl; reflexivity|].
  destruct (leqb_spec a x) as [->|Hne]; [exfalso; apply Hn; left; reflexivity|].
  rewrite IH; [reflexivity|]. intros H; apply Hn; right; exact H.
Qed.

Lemma precedes_idx a b log :
  NoDup (exits log) -> In (EvExit a) log -> precedes (EvExit b) (EvExit a) log ->
  idx b (exits log) < idx a (exits log).
Proof.
  intros Hnd Hin Hpr. apply in_split in Hin. destruct Hin as (pre & post & E).
  pose proof (Hpr pre post E) as Hb. apply exits_In in Hb.
  rewrite E, exits_app in *. simpl in *.
  apply NoDup_remove_2 in Hnd.
  assert (Ha : ~ In a (exits pre)) by (intros H; apply Hnd, in_or_app; left; exact H).
  rewrite (idx_app_notin a _ _ Ha). destruct (idx_app_in b (exits pre) (a :: exits post) Hb). lia.
Qed.

Lemma cycle_abort_entered l s e : cycle_abort l s = Some e -> s = ENTERED /\ e = CircuitValidationError.
Proof. destruct s; simpl; intros H; inversion H; auto. Qed.

Lemma cycle_abort_hab inverse c :
  (forall l, cycle_abort l ENTERED <> None) \/ (forall x, ~ tc (nxt inverse c) x x).
Proof. left. intros l; discriminate. Qed.

Section Cycle.
  Variable c : circuit.
  Variable starts : option (list label).
  Let sl := start_list false c starts.
  Notation nx := (nxt false c).

  Lemma check_from_unfold : gates c <> [] ->
    check_circuit_has_no_cycles_from c starts =
    match traverse_loop (traverse_fuel c sl) DFS false c cycle_abort [] sl [] with
    | Ok _ => Ok tt
    | Err e => Err e
    end.
  Proof.
    intros Hne. unfold check_circuit_has_no_cycles_from. rewrite (traverse_nonempty _ _ _ _ _ _ Hne).
    fold sl. destruct (traverse_loop _ _ _ _ _ _ _ _) as [[sts log]|e]; reflexivity.
  Qed.

  Lemma check_from_empty : gates c = [] -> check_circuit_has_no_cycles_from c starts = Ok tt.
  Proof. intros E. unfold check_circuit_has_no_cycles_from. rewrite traverse_empty by exact E. reflexivity. Qed.

  (* soundness: no assumption on the netlist *)
  Theorem check_from_sound :
    check_circuit_has_no_cycles_from c starts = Err CircuitValidationError ->
    exists x, reach (ops_of c) sl x /\ tc (ops_of c) x x.
  Proof.
    assert (Hcase : gates c = [] \/ gates c <> []).
    { clear. destruct (gates c); [left; reflexivity|right; discriminate]. }
    destruct Hcase as [Eg|Hne]; [rewrite (check_from_empty Eg); discriminate|].
    rewrite (check_from_unfold Hne).
    destruct (traverse_loop _ _ _ _ _ _ _ _) as [r|e] eqn:El; [discriminate|]. intros [= ->].
    apply loop_err_steps in El. destruct El as [El|(y & HSt & HE)]; [discriminate|].
    destruct y as [[sts q] lg].
    pose proof (InvA_steps DFS false c cycle_abort sl _ _ HSt (InvA_init DFS false c sl)) as HA.
    pose proof (InvP_steps false c cycle_abort _ _ HSt (InvP_init false c sl)) as HP.
    unfold InvA', InvP' in *; simpl in *.
    destruct HE as (cur & rest & Hh & [[He _]|(Hs & Hk & ch & Hch & [[He _]|Ha])]); try discriminate.
    apply cycle_abort_entered in Ha. destruct Ha as [Ha _].
    unfold is_head in Hh. subst q. exists ch. split.
    - eapply reach_step; [|exact Hch]. apply (A_reach _ _ _ _ _ _ _ HA). left.
      apply in_or_app; right; left; reflexivity.
    - eapply (InvP_back_edge false c); eauto.
  Qed.

  (* completeness: no assumption on the netlist either *)
  Theorem check_from_ok_no_cycle :
    check_circuit_has_no_cycles_from c starts = Ok tt ->
    forall x, reach (ops_of c) sl x -> ~ tc (ops_of c) x x.
  Proof.
    assert (Hcase : gates c = [] \/ gates c <> []).
    { clear. destruct (gates c); [left; reflexivity|right; discriminate]. }
    destruct Hcase as [Eg|Hne].
    - intros _ x _ Htc.
      assert (H : forall a b, tc (ops_of c) a b -> False).
      { intros a b Hab. induction Hab as [a b Hb|]; [|assumption].
        unfold ops_of in Hb. rewrite Eg in Hb. exact Hb. }
      eapply H; eauto.
    - rewrite (check_from_unfold Hne).
      destruct (traverse_loop _ _ _ _ _ _ _ _) as [[sts log]|e] eqn:El; [|discriminate]. intros _.
      apply loop_ok_steps in El.
      pose proof (InvAll_steps false c cycle_abort sl (cycle_abort_hab false c) _ _ El (InvAll_init false c sl)) as HI.
      intros x Hx. apply (InvAll_final_acyclic false c sl sts log HI).
      destruct HI as (HA & _). unfold InvA' in HA; simpl in HA.
      apply (A_yield _ _ _ _ _ _ _ HA). apply (InvA_final DFS false c sl sts log HA). exact Hx.
  Qed.

  (* a numeric rank on everything reachable *)
  Theorem check_from_ok_rank :
    check_circuit_has_no_cycles_from c starts = Ok tt ->
    exists rank : label -> nat,
      forall l o, reach (ops_of c) sl l -> In o (ops_of c l) -> rank o < rank l.
  Proof.
    assert (Hcase : gates c = [] \/ gates c <> []).
    { clear. destruct (gates c); [left; reflexivity|right; discriminate]. }
    destruct Hcase as [Eg|Hne].
    - intros _. exists (fun _ => 0). intros l o _ Ho. unfold ops_of in Ho. rewrite Eg in Ho. destruct Ho.
    - rewrite (check_from_unfold Hne).
      destruct (traverse_loop _ _ _ _ _ _ _ _) as [[sts log]|e] eqn:El; [|discriminate]. intros _.
      apply loop_ok_steps in El.
      pose proof (InvAll_steps false c cycle_abort sl (cycle_abort_hab false c) _ _ El (InvAll_init false c sl)) as HI.
      exists (fun x => idx x (exits log)). intros l o Hl Ho.
      pose proof HI as (HA & HP & _). unfold InvA', InvP' in HA, HP; simpl in HA, HP.
      assert (Hv : state_of sts l <> UNVISITED).
      { apply (A_yield _ _ _ _ _ _ _ HA). apply (InvA_final DFS false c sl sts log HA). exact Hl. }
      destruct (InvAll_final_post false c sl sts log HI l o Hv (tc_one _ _ _ Ho)) as [_ Hpr].
      apply precedes_idx; [exact (A_exits _ _ _ _ _ _ _ HA)| |exact Hpr].
      apply (A_exit _ _ _ _ _ _ _ HA). split; [reflexivity|].
      destruct (state_of sts l) eqn:E; [congruence| |reflexivity].
      destruct (P_in _ _ _ _ HP l E).
  Qed.

  (* totality, for netlists whose operands and start labels exist *)
  Hypothesis Hnd : NoDup (dkeys (gates c)).
  Hypothesis Hops : forall l g o, dget (gates c) l = Some g -> In o (gops g) -> has_gate c o = true.
  Hypothesis Hsl : forall s, In s sl -> has_gate c s = true.

  Lemma ops_closed : forall l ch, key c l -> In ch (nx l) -> key c ch.
  Proof.
    intros l ch _ Hch. simpl in Hch. unfold ops_of in Hch.
    destruct (dget (gates c) l) as [g|] eqn:E; [|contradiction].
    apply has_gate_key. eapply Hops; eauto.
  Qed.

  Theorem check_from_total :
    check_circuit_has_no_cycles_from c starts = Ok tt \/
    check_circuit_has_no_cycles_from c starts = Err CircuitValidationError.
  Proof.
    assert (Hcase : gates c = [] \/ gates c <> []).
    { clear. destruct (gates c); [left; reflexivity|right; discriminate]. }
    destruct Hcase as [Eg|Hne]; [left; apply check_from_empty; exact Eg|].
    rewrite (check_from_unfold Hne).
    assert (Hfuel : mu false c ([], sl, []) < traverse_fuel c sl).
    { rewrite mu_init. unfold traverse_fuel, size. simpl nxt. rewrite (sum_ops_arity c Hnd). lia. }
    destruct (loop_total DFS false c cycle_abort (traverse_fuel c sl) [] sl [] Hfuel)
      as [(sts & log0 & ->)|(e & y & -> & H2 & H3)]; [left; reflexivity|right].
    destruct y as [[sts q] lg].
    assert (HK : InvK c (sts, q, lg)).
    { eapply (InvK_steps DFS false c cycle_abort ops_closed); [exact H2|].
      intros l Hl. simpl in Hl. apply has_gate_key, Hsl; exact Hl. }
    destruct (StepErr_abort DFS false c cycle_abort ops_closed _ _ _ _ HK H3)
      as (cur & rest & ch & _ & _ & _ & _ & Hab).
    apply cycle_abort_entered in Hab. destruct Hab as [_ ->]. reflexivity.
  Qed.

  Theorem check_from_iff :
    check_circuit_has_no_cycles_from c starts = Err CircuitValidationError <->
    exists x, reach (ops_of c) sl x /\ tc (ops_of c) x x.
  Proof.
    split; [apply check_from_sound|].
    intros (x & Hr & Hc). destruct check_from_total as [H|H]; [|exact H].
    exfalso. eapply check_from_ok_no_cycle; eauto.
  Qed.

  Theorem check_from_ok_iff :
    check_circuit_has_no_cycles_from c starts = Ok tt <->
    forall x, reach (ops_of c) sl x -> ~ tc (ops_of c) x x.
  Proof.
    split; [apply check_from_ok_no_cycle|].
    intros Hno. destruct check_from_total as [H|H]; [exact H|].
    apply check_from_sound in H. destruct H as (x & Hr & Hc). exfalso. eapply Hno; eauto.
  Qed.
End Cycle.

(* ---- the two instances used elsewhere ---- *)
Theorem check_no_cycles_iff c :
  NoDup (dkeys (gates c)) ->
  (forall l g o, dget (gates c) l = Some g -> In o (gops g) -> has_gate c o = true) ->
  (forall o, In o (outputs c) -> has_gate c o = true) ->
  (check_circuit_has_no_cycles c = Err CircuitValidationError <->
   exists x, reach (ops_of c) (outputs c) x /\ tc (ops_of c) x x).
Proof. intros H1 H2 H3. apply (check_from_iff c None H1 H2 H3). Qed.

Theorem check_no_cycles_total c :
  NoDup (dkeys (gates c)) ->
  (forall l g o, dget (gates c) l = Some g -> In o (gops g) -> has_gate c o = true) ->
  (forall o, In o (outputs c) -> has_gate c o = true) ->
  check_circuit_has_no_cycles c = Ok tt \/ check_circuit_has_no_cycles c = Err CircuitValidationError.
Proof. intros H1 H2 H3. apply (check_from_total c None H1 H2 H3). Qed.

(* started from every gate, success gives the acyclicity clause of WF (no assumption at all) *)
Theorem check_all_gates_acyclic c :
  check_circuit_has_no_cycles_from c (Some (dkeys (gates c))) = Ok tt ->
  exists rank : label -> nat,
    forall l g o, dget (gates c) l = Some g -> In o (gops g) -> rank o < rank l.
Proof.
  intros H. destruct (check_from_ok_rank c _ H) as [rank Hrank]. exists rank.
  intros l g o Hg Ho. apply Hrank.
  - apply reach_start. simpl. eapply dget_In_keys; eauto.
  - unfold ops_of. rewrite Hg. exact Ho.
Qed.

(* and conversely, on a netlist whose operands exist *)
Theorem acyclic_check_all_gates c :
  NoDup (dkeys (gates c)) ->
  (forall l g o, dget (gates c) l = Some g -> In o (gops g) -> has_gate c o = true) ->
  (exists rank : label -> nat,
     forall l g o, dget (gates c) l = Some g -> In o (gops g) -> rank o < rank l) ->
  check_circuit_has_no_cycles_from c (Some (dkeys (gates c))) = Ok tt.
Proof.
  intros H1 H2 [rank Hrank].
  apply (check_from_ok_iff c (Some (dkeys (gates c))) H1 H2).
  - intros s Hs. apply has_gate_key. exact Hs.
  - intros x _ Htc.
    assert (H : forall a b, tc (ops_of c) a b -> rank b < rank a).
    { assert (Hedge : forall a b, In b (ops_of c a) -> rank b < rank a).
      { intros a b Hb. unfold ops_of in Hb. destruct (dget (gates c) a) as [g|] eqn:E; [|contradiction].
        eapply Hrank; eauto. }
      induction 1 as [a b Hb|a b d _ IH Hd]; [apply Hedge; exact Hb|apply Hedge in Hd; lia]. }
    apply H in Htc. lia.
Qed.

(* a well-formed circuit passes the check *)
Theorem wf_check_no_cycles c : WF c -> check_circuit_has_no_cycles c = Ok tt.
Proof.
  intros Hwf.
  apply (check_from_ok_iff c None (wf_gkeys c Hwf) (wf_ops c Hwf) (wf_outs c Hwf)).
  intros x _. apply (wf_no_cycle false c Hwf).
Qed.
