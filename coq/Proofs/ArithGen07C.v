(* Generated/ArithGen07.v (translator T18) equals the hand model, part C: add_sum_pow2_m1
   (blocks of 31 / 15 / 7 / 3 labels counted by add_sum_n_bits, the final half adder, the columns).
   The loop lemmas are generic in the loop bodies and conditions (a per-iteration specification is a hypothesis):
   they do not repeat the generated text.  The state of the generated loops is the triple (out, input_labels, it)
   with the invariant it = len(out), under which out[it] after out.append(blk) is blk. *)
Require Import Cirbo.Model.Base Cirbo.Model.Gate Cirbo.Model.Circuit Cirbo.Model.Builder Cirbo.Model.PyPrims.
Require Import Cirbo.Generated.ArithTables Cirbo.Generated.ArithCells Cirbo.Generated.ArithGen09 Cirbo.Generated.ArithGen07.
Require Import Cirbo.Model.ArithSub Cirbo.Model.ArithSum2 Cirbo.Model.ArithSumN Cirbo.Model.ArithSumW Cirbo.Model.PyPrimsSum.
Require Import Cirbo.Proofs.ArithGen09Lib Cirbo.Proofs.ArithGen09A Cirbo.Proofs.ArithGen07Lib Cirbo.Proofs.ArithGen07A
  Cirbo.Proofs.ArithGen07B.
From Coq Require Import ZArith Lia Ascii.
Open Scope Z_scope.

(* ---- pure facts --------------------------------------------------------------------------------------- *)
(* l[0:i] *)
Lemma py_slice_0_to {A} (l : list A) i : py_slice l (Some 0) (Some (Z.of_nat i)) = firstn i l.
Proof.
  change 0 with (Z.of_nat 0). unfold py_slice. rewrite !py_clamp_nat.
  rewrite Nat.min_0_r, Nat.sub_0_r. cbn [skipn].
  destruct (Nat.le_gt_cases (length l) i) as [H|H].
  - rewrite Nat.min_l by lia. rewrite !firstn_all2 by lia. reflexivity.
  - rewrite Nat.min_r by lia. reflexivity.
Qed.

(* l[0:2] when len(l) == 2 *)
Lemma py_slice_pair {A} (x y : A) : py_slice [x; y] (Some 0) (Some 2) = [x; y].
Proof. reflexivity. Qed.

(* out.append(x); out[it] with it = len(out) before the append *)
Lemma py_nth_snoc {A} (l : list A) x : py_nth (l ++ [x]) (Z.of_nat (length l)) = Ret x.
Proof.
  rewrite py_nth_nat. unfold nthP, nth_res. rewrite nth_error_app2, Nat.sub_diag by lia. reflexivity.
Qed.

Lemma flat_map_map {A B C} (g : A -> B) (f : B -> list C) l : flat_map f (map g l) = flat_map (fun x => f (g x)) l.
Proof. induction l as [|a l IH]; cbn [map flat_map]; [reflexivity|]. rewrite IH. reflexivity. Qed.

(* [list(filter(None, x)) for x in zip_longest( *out)] *)
Lemma zip_longest_columns (out : list (list label)) :
  map (fun x => py_filter_none x) (py_zip_longest out) = columns out.
Proof.
  unfold py_zip_longest, columns. rewrite map_map. apply map_ext. intros k.
  unfold py_filter_none, column. apply flat_map_map.
Qed.

(* range(5, 1, -1) against the sizes of the hand model *)
Definition pw_size (pw : Z) (i : nat) : Prop := 2 ^ pw - 1 = Z.of_nat i.
Lemma pw_sizes_ok : Forall2 pw_size (py_range_down 5 1) pow2_m1_sizes.
Proof. change (py_range_down 5 1) with [5; 4; 3; 2]. unfold pow2_m1_sizes. repeat constructor. Qed.

(* a comprehension whose element program is pure *)
Lemma mapP_pure fresh {A B} (F : A -> prog B) (g : A -> B) :
  (forall a s, run fresh (F a) s = Ok (g a, s)) ->
  forall l s, run fresh (mapP F l) s = Ok (map g l, s).
Proof.
  intros H l. induction l as [|a l IH]; intros s; cbn [mapP map]; [reflexivity|].
  rewrite run_bind, H. cbv beta iota. rewrite run_bind, IH. reflexivity.
Qed.

(* the generated code passes the RESOLVED basis to add_sum_n_bits, the hand model the original one *)
Lemma gen_add_sum_n_bits_resolved_eq xs basis b be :
  resolve_basis basis = Ok b -> peq (gen_add_sum_n_bits xs (BEnum b) be) (add_sum_n_bits basis be xs).
Proof.
  intros H fr s. rewrite gen_add_sum_n_bits_eq. unfold add_sum_n_bits. rewrite H. reflexivity.
Qed.

(* ---- the loops ------------------------------------------------------------------------------------------ *)
Section Schemas.
  Variable fresh : N -> label.
  Variable basis : basis_arg.
  Notation st3 := (list (list label) * list label * Z)%type.

  (* while len(input_labels) >= i: out.append(add_sum_n_bits(input_labels[0:i])); input_labels = input_labels[i:];
     input_labels.append(out[it][0]); it += 1 *)
  Lemma while_block (i : nat) (cond : st3 -> bool) body :
    (forall out l it, cond (out, l, it) = (py_len l >=? Z.of_nat i)) ->
    (forall out l B (K : st3 -> prog B) s,
        run fresh (Bind (body (out, l, Z.of_nat (length out))) K) s
      = run fresh (bdo blk <- add_sum_n_bits basis false (firstn i l); bdo b0 <- nthP blk 0;
                   K (out ++ [blk], skipn i l ++ [b0], Z.of_nat (length out) + 1)) s) ->
    forall f l out B (K : st3 -> prog B) s,
        run fresh (Bind (py_while f cond body (out, l, Z.of_nat (length out))) K) s
      = run fresh (Bind (block_loop f basis i l out) (fun r => K (snd r, fst r, Z.of_nat (length (snd r))))) s.
  Proof.
    intros Hc Hb. induction f as [|f IH]; intros l out B K s.
    - cbn [block_loop]. destruct (Nat.ltb_spec (length l) i) as [H|H].
      + rewrite py_while_false by (rewrite Hc, py_len_geb; apply Nat.leb_gt; exact H). reflexivity.
      + rewrite py_while_true0 by (rewrite Hc, py_len_geb; apply Nat.leb_le; exact H). reflexivity.
    - cbn [block_loop]. destruct (Nat.ltb_spec (length l) i) as [H|H].
      + rewrite py_while_false by (rewrite Hc, py_len_geb; apply Nat.leb_gt; exact H). reflexivity.
      + rewrite py_while_true by (rewrite Hc, py_len_geb; apply Nat.leb_le; exact H).
        rewrite run_assoc, Hb. rewrite run_assoc. apply run_bind_cong. intros blk s1.
        rewrite run_assoc. apply run_bind_cong. intros b0 s2.
        replace (Z.of_nat (length out) + 1) with (Z.of_nat (length (out ++ [blk])))
          by (rewrite app_length; cbn [length]; lia).
        apply IH.
  Qed.

  (* for pw in range(5, 1, -1): i = 2**pw - 1; <while_block> *)
  Lemma fold_blocks_gen (F : st3 -> Z -> prog st3) :
    (forall pw i out l B (K : st3 -> prog B) s, pw_size pw i ->
        run fresh (Bind (F (out, l, Z.of_nat (length out)) pw) K) s
      = run fresh (Bind (block_loop (S (length l)) basis i l out)
                        (fun r => K (snd r, fst r, Z.of_nat (length (snd r))))) s) ->
    forall pws sizes, Forall2 pw_size pws sizes ->
    forall out l B (K : st3 -> prog B) s,
        run fresh (Bind (foldP F pws (out, l, Z.of_nat (length out))) K) s
      = run fresh (Bind (foldP (fun st i => block_loop (S (length (fst st))) basis i (fst st) (snd st)) sizes (l, out))
                        (fun r => K (snd r, fst r, Z.of_nat (length (snd r))))) s.
  Proof.
    intros HF pws sizes H. induction H as [|pw i pws sizes Hpw _ IH]; intros out l B K s; cbn [foldP].
    - reflexivity.
    - rewrite run_assoc, (HF pw i) by exact Hpw. cbn [fst snd]. rewrite run_assoc.
      apply run_bind_cong. intros [l1 out1] s1. cbn [fst snd]. apply IH.
  Qed.

  Lemma fold_blocks (F : st3 -> Z -> prog st3) :
    (forall pw i out l B (K : st3 -> prog B) s, pw_size pw i ->
        run fresh (Bind (F (out, l, Z.of_nat (length out)) pw) K) s
      = run fresh (Bind (block_loop (S (length l)) basis i l out)
                        (fun r => K (snd r, fst r, Z.of_nat (length (snd r))))) s) ->
    forall out l B (K : st3 -> prog B) s,
        run fresh (Bind (foldP F (py_range_down 5 1) (out, l, Z.of_nat (length out))) K) s
      = run fresh (Bind (foldP (fun st i => block_loop (S (length (fst st))) basis i (fst st) (snd st))
                               pow2_m1_sizes (l, out))
                        (fun r => K (snd r, fst r, Z.of_nat (length (snd r))))) s.
  Proof. intros HF. apply fold_blocks_gen; [exact HF|exact pw_sizes_ok]. Qed.

  (* while len(input_labels) > 2: <fold_blocks> *)
  Lemma while_outer (cond : st3 -> bool) body :
    (forall out l it, cond (out, l, it) = (py_len l >? 2)) ->
    (forall out l B (K : st3 -> prog B) s,
        run fresh (Bind (body (out, l, Z.of_nat (length out))) K) s
      = run fresh (Bind (foldP (fun st i => block_loop (S (length (fst st))) basis i (fst st) (snd st))
                               pow2_m1_sizes (l, out))
                        (fun r => K (snd r, fst r, Z.of_nat (length (snd r))))) s) ->
    forall f l out B (K : st3 -> prog B) s,
        run fresh (Bind (py_while f cond body (out, l, Z.of_nat (length out))) K) s
      = run fresh (Bind (blocks_outer f basis l out) (fun r => K (snd r, fst r, Z.of_nat (length (snd r))))) s.
  Proof.
    intros Hc Hb. induction f as [|f IH]; intros l out B K s.
    - cbn [blocks_outer]. destruct (Nat.leb_spec (length l) 2) as [H|H].
      + rewrite py_while_false by (rewrite Hc, py_len_gtb2; apply Nat.ltb_ge; exact H). reflexivity.
      + rewrite py_while_true0 by (rewrite Hc, py_len_gtb2; apply Nat.ltb_lt; exact H). reflexivity.
    - cbn [blocks_outer]. destruct (Nat.leb_spec (length l) 2) as [H|H].
      + rewrite py_while_false by (rewrite Hc, py_len_gtb2; apply Nat.ltb_ge; exact H). reflexivity.
      + rewrite py_while_true by (rewrite Hc, py_len_gtb2; apply Nat.ltb_lt; exact H).
        rewrite run_assoc, Hb. rewrite run_assoc. apply run_bind_cong. intros [l1 out1] s1. cbn [fst snd].
        apply IH.
  Qed.

  (* the loop as it is entered: out = [], it = 0 *)
  Lemma while_outer0 (cond : st3 -> bool) body :
    (forall out l it, cond (out, l, it) = (py_len l >? 2)) ->
    (forall out l B (K : st3 -> prog B) s,
        run fresh (Bind (body (out, l, Z.of_nat (length out))) K) s
      = run fresh (Bind (foldP (fun st i => block_loop (S (length (fst st))) basis i (fst st) (snd st))
                               pow2_m1_sizes (l, out))
                        (fun r => K (snd r, fst r, Z.of_nat (length (snd r))))) s) ->
    forall f l B (K : st3 -> prog B) s,
        run fresh (Bind (py_while f cond body ([], l, 0)) K) s
      = run fresh (Bind (blocks_outer f basis l []) (fun r => K (snd r, fst r, Z.of_nat (length (snd r))))) s.
  Proof. intros Hc Hb f l B K s. exact (while_outer cond body Hc Hb f l [] B K s). Qed.
End Schemas.

(* ---- the last statements: out[0] = [out[0][len(out[0]) - 1]]; [reverse_if_big_endian(i) for i in out] ---------- *)
Lemma py_nth_cons0 {A} (c0 : A) rest : py_nth (c0 :: rest) 0 = Ret c0.
Proof. reflexivity. Qed.
Lemma py_nth_nil0 {A} : py_nth (@nil A) 0 = Fail PyIndexError.
Proof. reflexivity. Qed.
Lemma py_set_cons0 {A} (c0 x : A) rest : py_set (c0 :: rest) 0 x = Ret (x :: rest).
Proof. rewrite py_set_0_ok by (cbn [length]; lia). reflexivity. Qed.

(* one iteration of the inner loop, against the hand model's add_sum_n_bits on the original basis *)
Ltac block_body fr H :=
  intros; cbv beta iota zeta; norm;
  rewrite (run_peq fr _ _ _ _ (gen_add_sum_n_bits_resolved_eq _ _ _ _ H));
  rewrite py_slice_0_to; apply run_bind_cong; intros ? ?; norm;
  rewrite py_nth_snoc; norm; rewrite py_nth_0; apply run_bind_cong; intros ? ?; norm;
  rewrite py_slice_from; reflexivity.

(* out = [list(filter(None, x)) for x in zip_longest( *out)]; out[0] = [out[0][len(out[0]) - 1]]; the comprehension *)
Ltac columns_tail fr be :=
  rewrite zip_longest_columns;
  match goal with |- context [columns ?o] => destruct (columns o) as [|? ?] end;
  [ rewrite py_nth_nil0; norm; reflexivity
  | rewrite !py_nth_cons0; norm; unfold py_len; rewrite py_nth_len_m1; apply run_bind_cong; intros ? ?; norm;
    rewrite py_set_cons0; norm; rewrite run_bind, (mapP_pure fr _ (rev_if be));
    [ reflexivity | intros; rewrite run_bind, gen_reverse_if_big_endian_run; reflexivity ] ].

Theorem gen_add_sum_pow2_m1_eq xs be basis :
  peq (gen_add_sum_pow2_m1 xs be basis) (add_sum_pow2_m1 basis be xs).
Proof.
  intros fr s. unfold gen_add_sum_pow2_m1, add_sum_pow2_m1. cbv zeta.
  destruct xs as [|x [|y xs']].
  - reflexivity.
  - lendec. cbv iota. rewrite py_nth_cons0. rs. rewrite gen_reverse_if_big_endian_run. reflexivity.
  - lendec. cbv iota.
    remember (x :: y :: xs') as l eqn:El. clear El.
    rewrite (run_resolve_basis fr basis).
    destruct (resolve_basis basis) as [b|e] eqn:Hb; cbn [ret_res]; [|reflexivity].
    norm.
    rewrite (while_outer0 fr basis).
    + apply run_bind_cong. intros [l1 out1] s1. cbn [fst snd]. cbv beta iota zeta.
      destruct l1 as [|x0 [|y0 [|z0 r0]]]; lendec; cbv iota; norm.
      * columns_tail fr be.
      * columns_tail fr be.
      * rewrite !py_slice_pair.
        destruct b; cbn [gen_basis_eqb]; cbv iota; norm.
        -- apply run_bind_cong; intros blk s2; norm. rewrite py_nth_snoc; norm. rewrite py_nth_0.
           apply run_bind_cong; intros b1 s3; norm. columns_tail fr be.
        -- apply run_bind_cong; intros blk s2; norm. rewrite py_nth_snoc; norm. rewrite py_nth_0.
           apply run_bind_cong; intros b1 s3; norm. columns_tail fr be.
      * columns_tail fr be.
    + intros; reflexivity.
    + intros out l0 B K s1. cbv beta iota zeta. rewrite run_assoc. rewrite (fold_blocks fr basis).
      * apply run_bind_cong. intros [l1 out1] s2. cbn [fst snd]. norm. reflexivity.
      * intros pw i out0 l1 B0 K0 s2 Hpw. cbv beta iota zeta. rewrite run_assoc. unfold pw_size in Hpw. rewrite Hpw.
        rewrite (while_block fr basis i).
        -- apply run_bind_cong. intros [l2 out2] s3. cbn [fst snd]. norm. reflexivity.
        -- intros; reflexivity.
        -- block_body fr Hb.
Qed.
