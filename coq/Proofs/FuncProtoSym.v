(* C12: symmetric queries and find_negations_to_make_symmetric. *)
From Coq Require Import Permutation Sorted.
Require Import Cirbo.Model.Base Cirbo.Model.Gate Cirbo.Model.Circuit Cirbo.Model.Eval
        Cirbo.Model.FuncProto Cirbo.Proofs.FuncProtoEnum Cirbo.Proofs.FuncProtoLoops
        Cirbo.Proofs.FuncProtoQueries.

(* symmetric <-> constant on every weight class *)
Lemma symmetric_at_weight f n j :
  symmetric_at f n j <->
  forall x y, length x = n -> length y = n -> popcount x = popcount y -> out f j x = out f j y.
Proof.
  unfold symmetric_at. split.
  - intros H x y Hx Hy Hp. apply H; [exact Hx|]. apply perm_bool. split; [lia|exact Hp].
  - intros H x y Hx Hp. apply perm_bool in Hp. destruct Hp as [Hl Hp]. apply H; [exact Hx|lia|exact Hp].
Qed.

Lemma map_eq_in {A B} (g h : A -> B) l : map g l = map h l <-> forall a, In a l -> g a = h a.
Proof.
  split; [|apply map_ext_in].
  induction l as [|a l IH]; simpl; intros E b Hb; [destruct Hb|].
  injection E as E1 E2. destruct Hb as [<-|Hb]; [exact E1|apply IH; assumption].
Qed.

Section SymLoop.
  Context {V : Type}.
  Variables (veqb : V -> V -> bool) (ev : bvec -> res V) (g : bvec -> V) (n : nat).
  Hypothesis Hveqb : forall a b, veqb a b = true <-> a = b.
  Hypothesis Hev : forall x, length x = n -> ev x = Ok (g x).

  Definition class_const (L : list bvec) : bool :=
    match L with [] => true | x0 :: rest => forallb (fun x => veqb (g x0) (g x)) rest end.

  Lemma class_const_spec L : class_const L = true <-> forall x y, In x L -> In y L -> g x = g y.
  Proof.
    destruct L as [|x0 rest]; simpl; [split; [intros _ x y []|reflexivity]|].
    rewrite forallb_forall. split.
    - intros H x y Hx Hy.
      assert (Hc : forall z, x0 = z \/ In z rest -> g x0 = g z).
      { intros z [<-|Hz]; [reflexivity|apply Hveqb, H, Hz]. }
      rewrite <- (Hc x Hx), <- (Hc y Hy). reflexivity.
    - intros H x Hx. apply Hveqb. apply H; [left; reflexivity|right; exact Hx].
  Qed.

  Lemma sym_class_ok L : L <> [] -> (forall x, In x L -> length x = n) ->
    sym_class veqb ev L = Ok (class_const L).
  Proof.
    intros Hne HL. destruct L as [|x0 rest]; [congruence|]. simpl.
    rewrite Hev by (apply HL; left; reflexivity). simpl.
    apply forallM_pure. intros x Hx. rewrite Hev by (apply HL; right; exact Hx). reflexivity.
  Qed.

  Lemma g_symmetric_spec negs : length negs = n ->
    exists b, g_symmetric veqb ev n (Some negs) = Ok b /\
              (b = true <-> forall x y, length x = n -> length y = n ->
                              popcount (xor_vec x negs) = popcount (xor_vec y negs) -> g x = g y).
  Proof.
    intros Hnegs. unfold g_symmetric.
    set (cls := fun k => map (fun w => xor_vec w negs) (weight_vectors n k)).
    assert (Hin : forall k x, In x (cls k) <-> length x = n /\ popcount (xor_vec x negs) = k).
    { intros k x. destruct (fixed_sum_enumerates n k negs Hnegs) as (l & Hl & _ & Hmem).
      rewrite fixed_sum_weight in Hl by exact Hnegs. injection Hl as <-. apply Hmem. }
    rewrite (forallM_pure _ (fun k => class_const (cls k))).
    - eexists; split; [reflexivity|]. rewrite forallb_forall. split.
      + intros H x y Hx Hy Hp.
        assert (Hk : In (popcount (xor_vec x negs)) (seq 0 (S n))).
        { apply in_seq. assert (Hle := popcount_le (xor_vec x negs)).
          rewrite xor_vec_length in Hle by lia. lia. }
        specialize (H _ Hk). rewrite class_const_spec in H. apply H; apply Hin; split; auto.
      + intros H k Hk. apply class_const_spec. intros x y Hx Hy. apply Hin in Hx, Hy.
        apply H; try tauto. destruct Hx as [_ ->], Hy as [_ ->]. reflexivity.
    - intros k Hk. apply in_seq in Hk. rewrite fixed_sum_weight by exact Hnegs. simpl.
      apply sym_class_ok.
      + intros E. apply map_eq_nil in E. apply (weight_vectors_nonempty n k); [lia|exact E].
      + intros x Hx. apply (Hin k x) in Hx. tauto.
  Qed.

  Lemma g_symmetric_none_spec :
    exists b, g_symmetric veqb ev n None = Ok b /\
              (b = true <-> forall x y, length x = n -> length y = n ->
                              popcount x = popcount y -> g x = g y).
  Proof.
    destruct (g_symmetric_spec (repeat false n) (repeat_length _ _)) as (b & Hb & Hiff).
    exists b. split; [exact Hb|]. rewrite Hiff. clear.
    assert (Hx0 : forall x : bvec, length x = n -> xor_vec x (repeat false n) = x)
      by (intros x <-; apply xor_vec_false).
    split; intros H x y Hx Hy Hp; apply H; try assumption.
    - rewrite !Hx0 by assumption. exact Hp.
    - rewrite !Hx0 in Hp by assumption. exact Hp.
  Qed.
End SymLoop.

Section Generic3.
  Variables (r : frep) (f : bvec -> bvec) (n m : nat).
  Hypothesis Hrep : rep_computes r f n m.
  Hypothesis Har : arity_ok f n m.

  Lemma g_is_symmetric_at_spec j : j < m ->
    exists b, g_is_symmetric_at r j = Ok b /\ (b = true <-> symmetric_at f n j).
  Proof.
    intros Hj. unfold g_is_symmetric_at. rewrite (proj1 Hrep).
    destruct (g_symmetric_none_spec Bool.eqb (fun x => r_ev_at r x j) (out f j) n) as (b & Hb & Hiff).
    - intros a b; apply Bool.eqb_true_iff.
    - intros x Hx. apply (proj2 (proj2 (proj2 Hrep))); assumption.
    - exists b. split; [exact Hb|]. rewrite Hiff, symmetric_at_weight. reflexivity.
  Qed.

  Lemma g_is_symmetric_spec :
    exists b, g_is_symmetric r = Ok b /\ (b = true <-> symmetric f n m).
  Proof.
    unfold g_is_symmetric. rewrite (proj1 Hrep).
    destruct (g_symmetric_none_spec bvec_eqb (r_ev r) f n bvec_eqb_eq (proj1 (proj2 (proj2 Hrep))))
      as (b & Hb & Hiff).
    exists b. split; [exact Hb|]. rewrite Hiff. unfold symmetric. split.
    - intros H j Hj. apply symmetric_at_weight. intros x y Hx Hy Hp. unfold out.
      rewrite (H x y Hx Hy Hp). reflexivity.
    - intros H x y Hx Hy Hp. apply (out_ext f m); [apply Har; exact Hx|apply Har; exact Hy|].
      intros j Hj. apply (proj1 (symmetric_at_weight f n j) (H j Hj)); assumption.
  Qed.

  (* find_negations_to_make_symmetric *)
  Lemma filtered_ev_ok outs x : (forall j, In j outs -> j < m) -> length x = n ->
    (do v <- r_ev r x; filter_outputs outs v) = Ok (map (fun j => out f j x) outs).
  Proof.
    intros Houts Hx. rewrite (proj1 (proj2 (proj2 Hrep)) x Hx). simpl. unfold filter_outputs.
    apply mapM_pure. intros j Hj. apply nth_res_ok. rewrite (Har x Hx). apply Houts; exact Hj.
  Qed.

  Lemma negations_criterion outs negs : length negs = n ->
    ((forall x y, length x = n -> length y = n ->
        popcount (xor_vec x negs) = popcount (xor_vec y negs) ->
        map (fun j => out f j x) outs = map (fun j => out f j y) outs)
     <-> negations_make_symmetric f n outs negs).
  Proof.
    intros Hnegs. unfold negations_make_symmetric. split.
    - intros H. split; [exact Hnegs|]. intros j Hj. apply symmetric_at_weight.
      intros u v Hu Hv Hp. unfold out.
      assert (E := H (xor_vec u negs) (xor_vec v negs)).
      rewrite !xor_vec_length, !xor_vec_invol in E by lia.
      specialize (E Hu Hv Hp). rewrite map_eq_in in E. apply (E j Hj).
    - intros [_ H] x y Hx Hy Hp. apply map_eq_in. intros j Hj.
      specialize (H j Hj). rewrite symmetric_at_weight in H.
      specialize (H (xor_vec x negs) (xor_vec y negs)).
      rewrite !xor_vec_length in H by lia. specialize (H Hx Hy Hp).
      unfold out in H. rewrite !xor_vec_invol in H by lia. exact H.
  Qed.

  Lemma g_find_negations_spec outs : (forall j, In j outs -> j < m) ->
    exists o, g_find_negations r outs = Ok o /\
              match o with
              | Some negs => negations_make_symmetric f n outs negs
              | None => forall negs, ~ negations_make_symmetric f n outs negs
              end.
  Proof.
    intros Houts. unfold g_find_negations. rewrite (proj1 Hrep).
    set (ev := fun x => do v <- r_ev r x; filter_outputs outs v).
    set (symb := fun negs => match g_symmetric bvec_eqb ev n (Some negs) with Ok b => b | Err _ => false end).
    assert (Hs : forall negs, length negs = n ->
              g_symmetric bvec_eqb ev n (Some negs) = Ok (symb negs) /\
              (symb negs = true <-> negations_make_symmetric f n outs negs)).
    { intros negs Hnegs.
      destruct (g_symmetric_spec bvec_eqb ev (fun x => map (fun j => out f j x) outs) n bvec_eqb_eq
                                 (fun x Hx => filtered_ev_ok outs x Houts Hx) negs Hnegs) as (b & Hb & Hiff).
      unfold symb. rewrite Hb. split; [reflexivity|]. rewrite Hiff. apply negations_criterion; exact Hnegs. }
    rewrite (findM_pure _ symb) by (intros negs Hn; apply Hs, abv_length, Hn).
    eexists; split; [reflexivity|].
    destruct (find symb (all_bool_vectors n)) as [negs|] eqn:E.
    - apply find_some in E. destruct E as [Hin Hb]. apply (Hs negs (abv_length _ _ Hin)). exact Hb.
    - intros negs Hneg. assert (Hl : length negs = n) by apply Hneg.
      assert (Hf := find_none _ _ E negs (proj2 (abv_In n negs) Hl)).
      apply (Hs negs Hl) in Hneg. congruence.
  Qed.

  (* the answer is the first vector of the product order accepted by any decision procedure for the
     specification: this is what makes the three classes return the same witness *)
  Lemma g_find_negations_find outs (dec : bvec -> bool) : (forall j, In j outs -> j < m) ->
    (forall negs, length negs = n -> (dec negs = true <-> negations_make_symmetric f n outs negs)) ->
    g_find_negations r outs = Ok (find dec (all_bool_vectors n)).
  Proof.
    intros Houts Hdec. unfold g_find_negations. rewrite (proj1 Hrep).
    set (ev := fun x => do v <- r_ev r x; filter_outputs outs v).
    set (symb := fun negs => match g_symmetric bvec_eqb ev n (Some negs) with Ok b => b | Err _ => false end).
    assert (Hs : forall negs, length negs = n ->
              g_symmetric bvec_eqb ev n (Some negs) = Ok (symb negs) /\
              (symb negs = true <-> negations_make_symmetric f n outs negs)).
    { intros negs Hnegs.
      destruct (g_symmetric_spec bvec_eqb ev (fun x => map (fun j => out f j x) outs) n bvec_eqb_eq
                                 (fun x Hx => filtered_ev_ok outs x Houts Hx) negs Hnegs) as (b & Hb & Hiff).
      unfold symb. rewrite Hb. split; [reflexivity|]. rewrite Hiff. apply negations_criterion; exact Hnegs. }
    rewrite (findM_pure _ symb) by (intros negs Hn; apply Hs, abv_length, Hn).
    f_equal. generalize (abv_length n). generalize (all_bool_vectors n) as l.
    induction l as [|a l IH]; intros Hl; simpl; [reflexivity|].
    assert (Ha : length a = n) by (apply Hl; left; reflexivity).
    assert (E : symb a = dec a).
    { destruct (Hs a Ha) as [_ H1]. specialize (Hdec a Ha).
      destruct (symb a), (dec a); try reflexivity; intuition congruence. }
    rewrite E. destruct (dec a); [reflexivity|]. apply IH. intros x Hx; apply Hl; right; exact Hx.
  Qed.
End Generic3.
