(* Facts about the fixed prelude Model/SubcircuitPrims.v of translator T21. *)
Require Import Cirbo.Model.Base Cirbo.Model.Gate Cirbo.Model.Circuit Cirbo.Model.Eval.
Require Import Cirbo.Generated.PatternOps Cirbo.Model.SubcircuitPrims Cirbo.Model.SubcircuitAlg.
From Coq Require Import Permutation.

(* ---- monadic folds ---- *)
Lemma foldM_pure {A S} (f : S -> A -> res S) (g : S -> A -> S) :
  (forall s x, f s x = Ok (g s x)) -> forall l s, foldM f l s = Ok (fold_left g l s).
Proof. intros H l; induction l as [|x xs IH]; intros s; simpl; [reflexivity|]. rewrite H; simpl. apply IH. Qed.

Lemma foldM_ext {A S} (f g : S -> A -> res S) :
  (forall s x, f s x = g s x) -> forall l s, foldM f l s = foldM g l s.
Proof. intros H l; induction l as [|x xs IH]; intros s; simpl; [reflexivity|]. rewrite H. destruct (g s x); simpl; auto. Qed.

Lemma foldM_app {A S} (f : S -> A -> res S) l1 l2 s :
  foldM f (l1 ++ l2) s = do s' <- foldM f l1 s; foldM f l2 s'.
Proof. revert s; induction l1 as [|x xs IH]; intros s; simpl; [reflexivity|]. destruct (f s x); simpl; auto. Qed.

Lemma mapM_pure {A B} (f : A -> res B) (g : A -> B) :
  (forall x, f x = Ok (g x)) -> forall l, mapM f l = Ok (map g l).
Proof. intros H l; induction l as [|x xs IH]; simpl; [reflexivity|]. rewrite H, IH. reflexivity. Qed.

Lemma mapM_ext {A B} (f g : A -> res B) : (forall x, f x = g x) -> forall l, mapM f l = mapM g l.
Proof. intros H l; induction l as [|x xs IH]; simpl; [reflexivity|]. rewrite H, IH. reflexivity. Qed.

(* loopB whose body never fails: `existsb`-like search *)
Lemma loopB_nil {A S} (body : S -> A -> res (bool * S)) s : loopB body [] s = Ok s.
Proof. reflexivity. Qed.

(* ---- indices ---- *)
Lemma nrange_py_len {A} (l : list A) : nrange (py_len l) = map N.of_nat (seq 0 (length l)).
Proof. unfold nrange, py_len. rewrite Nnat.Nat2N.id. reflexivity. Qed.

Lemma py_enumerate_seq {A} (l : list A) : py_enumerate l = combine (map N.of_nat (seq 0 (length l))) l.
Proof. unfold py_enumerate. rewrite nrange_py_len. reflexivity. Qed.

Lemma py_index_app_len {A} (pre : list A) x suf :
  py_index (pre ++ x :: suf) (N.of_nat (length pre)) = Ok x.
Proof.
  unfold py_index, nth_res. rewrite Nnat.Nat2N.id, nth_error_app2 by lia.
  rewrite Nat.sub_diag. reflexivity.
Qed.

Lemma set_nth_app_len {A} (pre : list A) x y suf :
  set_nth (pre ++ x :: suf) (length pre) y = Ok (pre ++ y :: suf).
Proof. induction pre as [|a pre IH]; simpl; [reflexivity|]. rewrite IH. reflexivity. Qed.

Lemma py_setitem_app_len {A} (pre : list A) x y suf :
  py_setitem (pre ++ x :: suf) (N.of_nat (length pre)) y = Ok (pre ++ y :: suf).
Proof. unfold py_setitem. rewrite Nnat.Nat2N.id. apply set_nth_app_len. Qed.

Lemma py_index_nth_error {A} (l : list A) i :
  py_index l (N.of_nat i) = match nth_error l i with Some x => Ok x | None => Err PyIndexError end.
Proof. unfold py_index, nth_res. rewrite Nnat.Nat2N.id. reflexivity. Qed.

(* ---- strings ---- *)
Lemma concat_empty_cons x l : String.concat "" (x :: l) = (x ++ String.concat "" l)%string.
Proof.
  destruct l as [|y l]; simpl.
  - induction x as [|c x IH]; simpl; [reflexivity|]. rewrite <- IH. reflexivity.
  - reflexivity.
Qed.

(* ---- product ---- *)


Lemma py_product_bits n :
  py_product_nat ["0"; "1"] n = map (map bit_str) (all_bool_vectors n).
Proof.
  induction n as [|n IH]; simpl; [reflexivity|].
  rewrite IH, app_nil_r, map_app, !map_map. reflexivity.
Qed.

(* ---- sets ---- *)
Lemma memb_app x l1 l2 : memb x (l1 ++ l2) = memb x l1 || memb x l2.
Proof. induction l1 as [|y l1 IH]; simpl; [reflexivity|]. destruct (leqb x y); simpl; auto. Qed.

Lemma py_set_add_memb s x y : memb y (py_set_add s x) = memb y s || leqb y x.
Proof.
  unfold py_set_add. destruct (memb x s) eqn:E.
  - destruct (leqb_spec y x) as [->|Hne]; [rewrite E; reflexivity|rewrite orb_false_r; reflexivity].
  - rewrite memb_app. simpl. destruct (leqb y x); reflexivity.
Qed.

Lemma fold_set_add_memb l s y : memb y (fold_left py_set_add l s) = memb y s || memb y l.
Proof.
  revert s; induction l as [|x l IH]; intros s; simpl; [rewrite orb_false_r; reflexivity|].
  rewrite IH, py_set_add_memb, <- orb_assoc. reflexivity.
Qed.

Lemma py_set_of_list_memb l y : memb y (py_set_of_list l) = memb y l.
Proof. unfold py_set_of_list. rewrite fold_set_add_memb. reflexivity. Qed.

Lemma py_set_update_memb s t y : memb y (py_set_update s t) = memb y s || memb y t.
Proof. apply fold_set_add_memb. Qed.

Lemma NoDup_snoc {A} (s : list A) x : NoDup s -> ~ In x s -> NoDup (s ++ [x]).
Proof.
  intros Hs Hx. induction Hs as [|y s Hy Hs IH]; simpl; [constructor; [intros []|constructor]|].
  constructor.
  - rewrite in_app_iff. simpl. intros [H|[H|[]]]; [auto|subst; apply Hx; left; reflexivity].
  - apply IH. intros H; apply Hx; right; exact H.
Qed.

Lemma fold_set_add_nodup l s : NoDup s -> NoDup (fold_left py_set_add l s).
Proof.
  revert s; induction l as [|x l IH]; intros s Hs; simpl; [exact Hs|]. apply IH.
  unfold py_set_add. destruct (memb x s) eqn:E; [exact Hs|].
  apply memb_nIn in E. apply NoDup_snoc; assumption.
Qed.

Lemma py_set_of_list_nodup l : NoDup (py_set_of_list l).
Proof. apply fold_set_add_nodup. constructor. Qed.

(* on a list without repetition set(l) is l itself *)
Lemma fold_set_add_fresh l s : NoDup (s ++ l) -> fold_left py_set_add l s = s ++ l.
Proof.
  revert s; induction l as [|x l IH]; intros s H; simpl; [rewrite app_nil_r; reflexivity|].
  assert (Hx : memb x s = false).
  { apply memb_nIn. intros Hin. apply NoDup_remove_2 in H. apply H. rewrite in_app_iff. left; exact Hin. }
  unfold py_set_add at 2. rewrite Hx. rewrite IH; rewrite <- app_assoc; simpl; [reflexivity|exact H].
Qed.

Lemma py_set_of_list_nodup_id l : NoDup l -> py_set_of_list l = l.
Proof. intros H. unfold py_set_of_list. rewrite fold_set_add_fresh; [reflexivity|exact H]. Qed.

(* ---- stable sort by key ---- *)
Lemma py_sort_insert_perm {A} k (x : A) l : Permutation ((k, x) :: l) (py_sort_insert k x l).
Proof.
  induction l as [|[k' y] l IH]; simpl; [reflexivity|].
  destruct (k' <=? k)%N; [|reflexivity].
  rewrite perm_swap. constructor. exact IH.
Qed.

Lemma py_sort_fold_perm {A} (kxs acc : list (N * A)) :
  Permutation (fold_left (fun acc kx => py_sort_insert (fst kx) (snd kx) acc) kxs acc) (kxs ++ acc).
Proof.
  revert acc; induction kxs as [|[k x] kxs IH]; intros acc; simpl; [reflexivity|].
  rewrite IH. rewrite <- py_sort_insert_perm. symmetry. apply Permutation_middle.
Qed.

Lemma map_snd_combine {A B} (ks : list A) (xs : list B) :
  length ks = length xs -> map snd (combine ks xs) = xs.
Proof.
  revert xs; induction ks as [|k ks IH]; intros [|x xs] H; simpl in *; try discriminate; [reflexivity|].
  rewrite IH; [reflexivity|lia].
Qed.

Lemma py_sort_keyed_perm {A} (ks : list N) (xs : list A) :
  length ks = length xs -> Permutation (py_sort_keyed ks xs) xs.
Proof.
  intros H. unfold py_sort_keyed. rewrite py_sort_fold_perm, app_nil_r, map_snd_combine; [reflexivity|exact H].
Qed.

Lemma memb_perm x l1 l2 : Permutation l1 l2 -> memb x l1 = memb x l2.
Proof.
  intros H. destruct (memb x l1) eqn:E1, (memb x l2) eqn:E2; try reflexivity.
  - apply memb_In in E1. apply memb_nIn in E2. exfalso; apply E2. eapply Permutation_in; eauto.
  - apply memb_nIn in E1. apply memb_In in E2. exfalso; apply E1. eapply Permutation_in; [symmetry|]; eauto.
Qed.

(* ---- patterns ---- *)
Lemma py_bool_of_land1 p : py_bool_of_N (N.land p 1) = N.odd p.
Proof. destruct p as [|[q|q|]]; reflexivity. Qed.
