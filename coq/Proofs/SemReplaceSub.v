(* C19, replace_subcircuit, part 1: the composite renaming of the mapped gates, the pieces of
   the operation seen through the gate map, and the abstract splice argument. *)
Require Import Cirbo.Model.Base Cirbo.Model.Gate Cirbo.Model.Den Cirbo.Model.Circuit Cirbo.Model.Traverse
        Cirbo.Model.Connect Cirbo.Model.Eval Cirbo.Model.Sem Cirbo.Model.WF.
Require Import Cirbo.Proofs.DictFacts Cirbo.Proofs.WFBase Cirbo.Proofs.WFSimple Cirbo.Proofs.WFEmplace
        Cirbo.Proofs.WFRemove Cirbo.Proofs.WFRename Cirbo.Proofs.WFRename2 Cirbo.Proofs.WFReplaceSub1
        Cirbo.Proofs.SemFacts Cirbo.Proofs.SemExt Cirbo.Proofs.SemRenameGate.

(* ------------------------------------------------------------------ *)
(* the composite renaming: the renamings of the mapping applied one after the other *)
Definition ren_all (m : dict label) (l : label) : label :=
  fold_left (fun l kv => ren (fst kv) (snd kv) l) m l.

Lemma ren_all_cons k v m l : ren_all ((k, v) :: m) l = ren_all m (ren k v l).
Proof. reflexivity. Qed.

Lemma ren_all_app m1 m2 l : ren_all (m1 ++ m2) l = ren_all m2 (ren_all m1 l).
Proof. unfold ren_all; apply fold_left_app. Qed.

Lemma ren_same k x : ren k k x = x.
Proof. unfold ren; destruct (leqb_spec x k); congruence. Qed.

Lemma map_ren_same k L : map (ren k k) L = L.
Proof. induction L as [|y L IH]; simpl; [reflexivity|rewrite ren_same, IH; reflexivity]. Qed.

Lemma ren_all_notkey m : forall l, ~ In l (dkeys m) -> ren_all m l = l.
Proof.
  induction m as [|[k v] m IH]; intros l Hn; [reflexivity|]. simpl in Hn.
  rewrite ren_all_cons. unfold ren at 1. destruct (leqb_spec l k) as [->|Hne]; [exfalso; auto|].
  apply IH; auto.
Qed.

(* one step *)
Lemma ren_step_struct c k v c1 :
  WF c -> ren_step c (k, v) = Ok c1 ->
  WF c1 /\
  (forall x g, dget (gates c) x = Some g ->
     dget (gates c1) (ren k v x) = Some (mkGate (gtyp g) (map (ren k v) (gops g)))) /\
  (forall y g', dget (gates c1) y = Some g' ->
     exists x g, y = ren k v x /\ dget (gates c) x = Some g) /\
  inputs c1 = map (ren k v) (inputs c) /\ outputs c1 = map (ren k v) (outputs c) /\
  (forall x, x <> k -> has_gate c x = true -> has_gate c1 x = true) /\
  (k <> v -> has_gate c v = false).
Proof.
  unfold ren_step; simpl. intros W H. destruct (leqb_spec k v) as [->|Hne].
  - injection H as <-. split; [assumption|]. split.
    { intros x g Hg. rewrite ren_same, map_ren_same. destruct g; exact Hg. }
    split; [intros y g' Hy; exists y, g'; rewrite ren_same; auto|].
    rewrite !map_ren_same. repeat split; auto. congruence.
  - split; [eapply rename_gate_wf; eassumption|].
    split; [apply (rename_gate_get c c1 k v W H)|].
    split.
    { intros y g' Hy. destruct (rename_gate_get_inv c c1 k v W H y g' Hy) as (_ & g & Hg & Hr & _).
      exists (ren v k y), g; auto. }
    split; [apply (rename_inputs c c1 k v W H)|]. split; [apply (rename_outputs c c1 k v H)|].
    split.
    + intros x Hx Hh. rewrite (rename_gate_has_gate c k v c1 W H), Hh.
      apply leqb_neq in Hx; rewrite Hx. simpl; apply orb_true_r.
    + intros _. apply rename_gate_inv in H. tauto.
Qed.

Lemma ren_fold_struct m : forall c c2,
  WF c -> foldM ren_step m c = Ok c2 ->
  WF c2 /\
  (forall x g, dget (gates c) x = Some g ->
     dget (gates c2) (ren_all m x) = Some (mkGate (gtyp g) (map (ren_all m) (gops g)))) /\
  (forall y g', dget (gates c2) y = Some g' ->
     exists x g, y = ren_all m x /\ dget (gates c) x = Some g) /\
  inputs c2 = map (ren_all m) (inputs c) /\ outputs c2 = map (ren_all m) (outputs c).
Proof.
  induction m as [|[k v] m IH]; intros c c2 W H; simpl in H.
  - injection H as <-. split; [assumption|]. split.
    { intros x g Hg. unfold ren_all; simpl. rewrite map_id. destruct g; exact Hg. }
    split; [intros y g' Hy; exists y, g'; auto|].
    unfold ren_all; simpl. rewrite !map_id; auto.
  - binv H c1 H1. destruct (ren_step_struct c k v c1 W H1) as (W1 & G1 & G1' & I1 & O1 & _).
    destruct (IH c1 c2 W1 H) as (W2 & G2 & G2' & I2 & O2).
    split; [assumption|]. split.
    { intros x g Hg. rewrite ren_all_cons. rewrite (G2 _ _ (G1 x g Hg)); simpl.
      rewrite map_map. reflexivity. }
    split.
    { intros y g' Hy. destruct (G2' y g' Hy) as (x1 & g1 & -> & Hx1).
      destruct (G1' x1 g1 Hx1) as (x & g & -> & Hx). exists x, g; auto. }
    rewrite I2, I1, O2, O1, !map_map. auto.
Qed.

(* the keys are mapped to their values *)
Lemma ren_all_keys m : forall c c2,
  WF c -> NoDup (dkeys m) -> (forall k, In k (dkeys m) -> has_gate c k = true) ->
  foldM ren_step m c = Ok c2 -> forall k v, In (k, v) m -> ren_all m k = v.
Proof.
  induction m as [|[k1 v1] m IH]; intros c c2 W Hnd Hkeys H k v Hin;
    simpl in H, Hnd, Hkeys, Hin; [destruct Hin|].
  binv H c1 H1. inversion Hnd as [|? ? Hk1 Hnd']; subst.
  destruct (ren_step_struct c k1 v1 c1 W H1) as (W1 & _ & _ & _ & _ & Hmono & Hfresh).
  rewrite ren_all_cons. destruct Hin as [E|Hin].
  - injection E as <- <-. unfold ren; rewrite leqb_refl. apply ren_all_notkey.
    intros Hv. destruct (leqb_spec k1 v1) as [->|Hne]; [contradiction|].
    rewrite (Hkeys v1 (or_intror Hv)) in Hfresh. specialize (Hfresh Hne); discriminate.
  - assert (k <> k1) as Hne.
    { intros ->. apply Hk1. apply (in_map fst) in Hin; exact Hin. }
    unfold ren. apply leqb_neq in Hne; rewrite Hne.
    apply (IH c1 c2 W1 Hnd'); [|assumption|assumption].
    intros k' Hk'. apply Hmono; [intros ->; contradiction|apply Hkeys; right; exact Hk'].
Qed.

Lemma ren_all_vals m c c2 :
  WF c -> NoDup (dkeys m) -> (forall k, In k (dkeys m) -> has_gate c k = true) ->
  foldM ren_step m c = Ok c2 -> map (ren_all m) (dkeys m) = dvals m.
Proof.
  intros W Hnd Hk H. unfold dkeys, dvals. rewrite map_map. apply map_ext_in.
  intros [k v] Hin; simpl. eapply ren_all_keys; eassumption.
Qed.

(* arities are not changed by the renaming *)
Lemma ren_fold_arity m c c2 : WF c -> foldM ren_step m c = Ok c2 -> arity_ok c -> arity_ok c2.
Proof.
  intros W H A y g' Hy Ht. destruct (ren_fold_struct m c c2 W H) as (_ & G & G' & _).
  destruct (G' y g' Hy) as (x & g & -> & Hx). rewrite (G x g Hx) in Hy. injection Hy as <-.
  simpl in *. rewrite map_length. apply (A x g Hx Ht).
Qed.

(* ------------------------------------------------------------------ *)
(* the slice never contains a cut gate *)
Lemma slice_loop_disj c ins fuel : forall gs q r,
  slice_loop fuel c ins gs q = Ok r -> (forall g, In g gs -> ~ In g ins) -> forall g, In g r -> ~ In g ins.
Proof.
  induction fuel as [|fuel IH]; simpl; intros gs q r H Hgs; [discriminate|].
  destruct (rev q) as [|cur rq]; [injection H as <-; exact Hgs|].
  binv H g Hg. binv H st1 Hst. eapply IH; [exact H|].
  revert Hst. apply (foldM_ok_inv _ (fun s : list label * list label => forall g, In g (fst s) -> ~ In g ins));
    [|exact Hgs].
  intros [gs1 q1] op st' _ Hs Hstep; simpl in *.
  destruct (memb op ins) eqn:Em; [injection Hstep as <-; assumption|].
  binv Hstep og Hog. destruct (gtype_beq (gtyp og) INPUT); [discriminate|].
  destruct (memb op gs1); injection Hstep as <-; simpl; [assumption|].
  intros x Hx; apply in_app_or in Hx; destruct Hx as [Hx|[<-|[]]]; [auto|apply memb_nIn, Em].
Qed.

Lemma make_block_from_slice_inv' c name ins outs c' :
  make_block_from_slice c name ins outs = Ok c' ->
  exists gs, incl (dedup (filter (fun o => negb (memb o ins)) outs)) gs /\
    (forall g, In g gs -> ~ In g ins) /\
    c' = set_blocks c (dset (blocks c) name (mkBlock ins (canonical_block_gates c gs) outs)).
Proof.
  unfold make_block_from_slice, make_block; intros H.
  binv H u0 H0. binv H u1 H1. binv H u2 H2. binv H gs Hgs. binv H u3 H3. binv H u4 H4. binv H u5 H5.
  binv H i Hi. binv Hi u6 H6. injection Hi as <-. injection H as <-.
  exists gs; split; [eapply slice_loop_incl; eassumption|]. split; [|reflexivity].
  eapply slice_loop_disj; [eassumption|].
  intros g Hin. apply In_dedup, filter_In in Hin. destruct Hin as [_ Hn].
  apply negb_true_iff, memb_nIn in Hn; exact Hn.
Qed.

(* ------------------------------------------------------------------ *)
(* the re-insertion loop through the gate map *)
Lemma reinsert_gates sub skip order : NoDup order -> forall c c',
  foldM (fun c l => if memb l skip then Ok c else
                    do g <- get_gate sub l; add_gate c l (gtyp g) (gops g)) order c = Ok c' ->
  (forall y, dget (gates c') y =
             if memb y order && negb (memb y skip) then dget (gates sub) y else dget (gates c) y) /\
  (forall l, In l order -> ~ In l skip -> has_gate c l = false).
Proof.
  induction order as [|l order IH]; simpl; intros Hnd c c' H.
  - injection H as <-. split; [reflexivity|intros ? []].
  - inversion Hnd as [|? ? Hl Hnd']; subst. binv H c1 H1.
    destruct (IH Hnd' _ _ H) as [Hget Hfresh].
    destruct (memb l skip) eqn:Em.
    + injection H1 as <-. split.
      * intros y; rewrite Hget. destruct (leqb_spec y l) as [->|Hne]; [|reflexivity].
        rewrite Em. apply memb_nIn in Hl; rewrite Hl; reflexivity.
      * intros x [<-|Hx] Hs; [apply memb_In in Em; contradiction|apply Hfresh; assumption].
    + binv H1 g Hg. apply get_gate_ok in Hg. unfold add_gate in H1.
      apply emplace_gate_inv in H1. destruct H1 as (Hlc & _ & ->). split.
      * intros y; rewrite Hget, emplace_raw_gates, dget_dset.
        destruct (leqb_spec y l) as [->|Hne].
        -- rewrite Em; simpl. apply memb_nIn in Hl; rewrite Hl; simpl.
           rewrite Hg; destruct g; reflexivity.
        -- reflexivity.
      * intros x [<-|Hx] Hs; [exact Hlc|].
        specialize (Hfresh x Hx Hs). rewrite emplace_raw_has_gate in Hfresh.
        apply orb_false_iff in Hfresh; tauto.
Qed.

(* ------------------------------------------------------------------ *)
(* the abstract splice: c7 is c2 with the gates of bg removed and the gates of sub (except its
   inputs I) added; surviving gates read removed gates only at D; sub reproduces the values of D
   from the values of I *)
Section Splice.
  Variables (c2 c7 sub : circuit) (a b : assignment) (I D bg : list label).
  Hypothesis W7 : WF c7.
  Hypothesis Hkeep : forall y g, memb y bg = false -> dget (gates c2) y = Some g -> dget (gates c7) y = Some g.
  Hypothesis Hsub : forall y g, dget (gates sub) y = Some g -> ~ In y I -> dget (gates c7) y = Some g.
  Hypothesis Hsubin : forall y g, dget (gates sub) y = Some g -> (gtyp g = INPUT <-> In y I).
  Hypothesis HIbg : forall i, In i I -> memb i bg = false.
  Hypothesis Hops : forall y g o, memb y bg = false -> dget (gates c2) y = Some g -> gtyp g <> INPUT ->
                                  In o (gops g) -> memb o bg = false \/ In o D.
  Hypothesis Hb : forall i, In i I -> Eval c2 a i (aval b i).
  Hypothesis Hequiv : forall o v, In o D -> Eval c2 a o v -> Eval sub b o v.
  Hypothesis HDI : forall o, In o D -> ~ In o I.

  Definition surv (y : label) : Prop := memb y bg = false \/ In y D.

  Theorem splice_forward : forall x v, surv x -> Eval c2 a x v -> Eval c7 a x v.
  Proof.
    destruct (wf_acyclic c7 W7) as [rank Hr].
    assert (forall n x v, rank x < n -> surv x -> Eval c2 a x v -> Eval c7 a x v) as Hn.
    { induction n as [|n IH]; intros x v Hlt Hs HE; [lia|].
      destruct (memb x D) eqn:ExD.
      - (* a mapped output: defined by sub in c7 *)
        apply memb_In in ExD. pose proof (Hequiv x v ExD HE) as HEs.
        assert (forall y w, Eval sub b y w -> rank y < n \/ (rank y <= n /\ ~ In y I) -> Eval c7 a y w) as HB.
        { intros y w Hy. induction Hy as [y g Hg Ht|y g vs w Hg Ht Hops' IHops Hop] using Eval_ind2; intros Hc.
          - assert (In y I) as HyI by (apply (Hsubin y g Hg), Ht).
            destruct Hc as [Hc|[_ Hc]]; [|contradiction].
            apply IH; [exact Hc|left; apply HIbg, HyI|apply Hb, HyI].
          - assert (~ In y I) as HyI by (intros Hi; apply (Hsubin y g Hg) in Hi; contradiction).
            pose proof (Hsub y g Hg HyI) as Hg7.
            eapply EvalGate; [exact Hg7|exact Ht| |exact Hop].
            eapply Forall2_impl_In; [exact IHops|]. intros o w' Ho Hw; simpl in Hw. apply Hw.
            left. specialize (Hr y g o Hg7 Ho). destruct Hc as [Hc|[Hc _]]; lia. }
        apply HB; [exact HEs|]. right. split; [lia|apply HDI, ExD].
      - (* a gate outside the removed slice: same definition *)
        assert (memb x bg = false) as Hxb.
        { destruct Hs as [Hs|Hs]; [exact Hs|]. apply memb_In in Hs; congruence. }
        inversion HE as [x' g Hg Ht|x' g vs v' Hg Ht Hvs Hop]; subst.
        + eapply EvalInput; [apply Hkeep; eassumption|exact Ht].
        + pose proof (Hkeep x g Hxb Hg) as Hg7.
          eapply EvalGate; [exact Hg7|exact Ht| |exact Hop].
          eapply Forall2_impl_In; [exact Hvs|]. intros o w Ho Hw.
          apply IH; [specialize (Hr x g o Hg7 Ho); lia|apply (Hops x g o Hxb Hg Ht Ho)|exact Hw]. }
    intros x v; apply (Hn (S (rank x))); lia.
  Qed.
End Splice.
