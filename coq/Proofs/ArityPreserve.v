(* arity_ok (every operand count is accepted by its operator) is preserved by emplace_gate with
   an accepted arity, add_inputs, connect_circuit (both directions) and build_miter: the results
   are again in the domain of the completeness theorems of C01, so the evaluators return on
   them.  Used for the entry-point theorems of C10 / C13. *)
Require Import Cirbo.Model.Base Cirbo.Model.Gate Cirbo.Model.Den Cirbo.Model.Circuit Cirbo.Model.Eval
        Cirbo.Model.Sem Cirbo.Model.Connect Cirbo.Model.WF Cirbo.Model.Miter.
Require Import Cirbo.Generated.Operators Cirbo.Generated.GateTypes.
Require Import Cirbo.Proofs.DictFacts Cirbo.Proofs.WFBase Cirbo.Proofs.WFSimple Cirbo.Proofs.WFEmplace
        Cirbo.Proofs.WFConnect1 Cirbo.Proofs.WFConnect2 Cirbo.Proofs.SemConnectStruct
        Cirbo.Proofs.SemConnectLeft Cirbo.Proofs.SemMiterXor Cirbo.Proofs.SemMiter Cirbo.Proofs.EvalEntry.

Lemma arity_ok_same_gates c c' : gates c' = gates c -> arity_ok c -> arity_ok c'.
Proof. intros E A l g Hg. rewrite E in Hg. exact (A l g Hg). Qed.

Lemma emplace_gate_arity_ok c l t ops c' :
  emplace_gate c l t ops = Ok c' -> arity_ok c ->
  (t <> INPUT -> den_accepts t (length ops) = true) -> arity_ok c'.
Proof.
  intros H A Ht. apply emplace_gate_inv in H. destruct H as (_ & _ & ->).
  intros x g Hg Hty. rewrite emplace_raw_gates, dget_dset in Hg.
  destruct (leqb x l); [injection Hg as <-; simpl in *; apply Ht, Hty|exact (A x g Hg Hty)].
Qed.

Lemma add_inputs_arity_ok ls : forall c c', add_inputs c ls = Ok c' -> arity_ok c -> arity_ok c'.
Proof.
  induction ls as [|l ls IH]; intros c c' H A; simpl in H; [injection H as <-; exact A|].
  binv H u Hu. binv H c1 H1. apply (IH c1 c' H).
  apply (emplace_gate_arity_ok c l INPUT [] c1 H1 A). intros E; contradiction E; reflexivity.
Qed.

Lemma arity_ok_empty : arity_ok empty_circuit.
Proof. intros l g Hg. discriminate Hg. Qed.

Lemma generate_pairwise_xor_arity_ok n px : generate_pairwise_xor n = Ok px -> arity_ok px.
Proof.
  unfold generate_pairwise_xor. intros H. binv H c1 H1. binv H c2 H2.
  pose proof (add_inputs_arity_ok _ _ _ H2 (add_inputs_arity_ok _ _ _ H1 arity_ok_empty)) as A2.
  revert H. apply (foldM_ok_inv _ arity_ok); [|exact A2].
  intros c [[x y] r0] c' _ A Hs. binv Hs c3 H3. unfold add_gate in H3.
  unfold mark_as_output in Hs. binv Hs u Hu. injection Hs as <-.
  apply (arity_ok_same_gates c3); [reflexivity|].
  apply (emplace_gate_arity_ok c r0 XOR [x; y] c3 H3 A). intros _. reflexivity.
Qed.

(* a dictionary either maps some key to x or none *)
Lemma dict_value_dec (d : dict label) x :
  (exists o, dget d o = Some x) \/ (forall o, dget d o <> Some x).
Proof.
  destruct (existsb (fun kv : label * label =>
                       match dget d (fst kv) with Some y => leqb y x | None => false end) d) eqn:E.
  - left. apply existsb_exists in E. destruct E as ([k v] & _ & Hk). simpl in Hk.
    destruct (dget d k) as [y|] eqn:Ey; [|discriminate]. apply leqb_eq in Hk. subst y. eauto.
  - right. intros o Ho. assert (In (o, x) d) as Hin by (apply dget_In; exact Ho).
    assert (existsb (fun kv : label * label =>
                       match dget d (fst kv) with Some y => leqb y x | None => false end) d = true); [|congruence].
    apply existsb_exists. exists (o, x). split; [exact Hin|]. simpl. rewrite Ho. apply leqb_refl.
Qed.

Theorem connect_circuit_arity_ok base other tc oc right name ap r :
  WF other -> connect_circuit base other tc oc right name ap = Ok r ->
  arity_ok base -> arity_ok other -> arity_ok r.
Proof.
  intros Wo H Ab Ao. pose proof (connect_circuit_spec _ _ _ _ _ _ _ _ Wo H) as S.
  assert (Hcopy : forall l, has_gate other l = true -> copied tc oc right l ->
            forall g, dget (gates r) (ren_of (build_mapping oc tc []) (conn_prefix name ap) l) = Some g -> gtyp g <> INPUT ->
                      den_accepts (gtyp g) (length (gops g)) = true).
  { intros l Hl Hc g Hg Hty. destruct (has_gate_get _ _ Hl) as [gl Hgl].
    rewrite (cs_copy _ _ _ _ _ _ _ _ S l gl Hgl Hc) in Hg. injection Hg as <-. simpl in *.
    rewrite map_length. exact (Ao l gl Hgl Hty). }
  intros x g Hg Hty.
  assert (Hx : has_gate r x = true) by (unfold has_gate, dmem; rewrite Hg; reflexivity).
  destruct (cs_only _ _ _ _ _ _ _ _ S x Hx) as [Hb|(l & Hl & Hnone & ->)].
  - destruct (has_gate_get _ _ Hb) as [gb Hgb].
    destruct right eqn:Er.
    + destruct (dict_value_dec (build_mapping oc tc []) x) as [[o Ho]|Hno].
      * assert (In o oc) as Hoc.
        { destruct (memb o oc) eqn:Em; [apply memb_In; exact Em|exfalso].
          apply memb_nIn in Em. apply (bm_nil_none_iff oc tc o (cs_len _ _ _ _ _ _ _ _ S)) in Em.
          congruence. }
        assert (ren_of (build_mapping oc tc []) (conn_prefix name ap) o = x) as Hr by (unfold ren_of; rewrite Ho; reflexivity).
        rewrite <- Hr in Hg. apply (Hcopy o (cs_oc _ _ _ _ _ _ _ _ S o Hoc)); [left; reflexivity|exact Hg|exact Hty].
      * rewrite (cs_base _ _ _ _ _ _ _ _ S x gb Hgb) in Hg; [injection Hg as <-; exact (Ab x gb Hgb Hty)|].
        intros [_ [o Ho]]. exact (Hno o Ho).
    + rewrite (cs_base _ _ _ _ _ _ _ _ S x gb Hgb) in Hg; [injection Hg as <-; exact (Ab x gb Hgb Hty)|].
      intros [E _]. discriminate E.
  - apply (Hcopy l Hl); [right; exact Hnone|exact Hg|exact Hty].
Qed.

(* hence evaluate returns on the composed circuit, with the semantic values of its outputs *)
Theorem connect_circuit_evaluates base other tc oc right name ap r vals :
  WF base -> inputs_nullary base -> WF other -> inputs_nullary other ->
  arity_ok base -> arity_ok other ->
  connect_circuit base other tc oc right name ap = Ok r -> length (inputs r) <= length vals ->
  exists vs, evaluate r vals = Ok vs /\ Forall2 (Eval r (vec_assignment r vals)) (outputs r) vs.
Proof.
  intros Wb Nb Wo No Ab Ao H Hlen.
  destruct (connect_circuit_inv base other tc oc right name ap r Wb Nb Wo No H) as [Wr _].
  apply evaluate_complete; [exact Wr| |exact Hlen].
  exact (connect_circuit_arity_ok base other tc oc right name ap r Wo H Ab Ao).
Qed.

Theorem build_miter_arity_ok l r ln rn m :
  WF l -> WF r -> outputs l <> [] ->
  build_miter l r ln rn = Ok m -> arity_ok l -> arity_ok r -> arity_ok m.
Proof.
  intros Wl Wr Hne Hm Al Ar. pose proof Hm as H. unfold build_miter in H.
  destruct (negb (Nat.eqb (length (inputs l)) (length (inputs r)))
            || negb (Nat.eqb (length (outputs l)) (length (outputs r)))); [discriminate|].
  binv H m1 H1. binv H bl Hbl. binv H m2 H2. binv H px Hpx. binv H bl2 Hbl2. binv H br2 Hbr2.
  binv H m3 H3. binv H bx Hbx. binv H m4 H4. unfold add_circuit in H1.
  pose proof (connect_circuit_arity_ok _ _ _ _ _ _ _ _ Wl H1 arity_ok_empty Al) as A1.
  pose proof (connect_circuit_arity_ok _ _ _ _ _ _ _ _ Wr H2 A1 Ar) as A2.
  pose proof (generate_pairwise_xor_arity_ok _ _ Hpx) as Apx.
  destruct (generate_pairwise_xor_spec _ _ Hpx) as (xs & ys & rs & Px).
  pose proof (connect_circuit_arity_ok _ _ _ _ _ _ _ _ (px_wf _ _ _ _ _ Px) H3 A2 Apx) as A3.
  pose proof (connect_circuit_spec _ _ _ _ _ _ _ _ (px_wf _ _ _ _ _ Px) H3) as S3.
  assert (Hpxn : "pairwise_xor" <> "") by discriminate.
  destruct (cs_block _ _ _ _ _ _ _ _ S3 Hpxn) as (bg3 & B3 & _).
  apply get_block_ok in Hbx. rewrite B3 in Hbx. injection Hbx as <-. cbn [boutputs] in H4.
  assert (A4 : arity_ok m4).
  { apply (emplace_gate_arity_ok _ _ _ _ _ H4 A3). intros _.
    rewrite map_length, (px_outputs _ _ _ _ _ Px). destruct (px_len _ _ _ _ _ Px) as (_ & _ & ->).
    destruct (length (outputs l)) as [|[|n]] eqn:En; simpl; try reflexivity.
    destruct (outputs l); [contradiction Hne; reflexivity|discriminate En]. }
  unfold set_outputs in H. binv H u Hu. injection H as <-.
  apply (arity_ok_same_gates m4); [reflexivity|exact A4].
Qed.
