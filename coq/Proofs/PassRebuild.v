(* C03: the generic "rebuild-with-remap" lemma shared by the four simplification passes.

   Every pass builds its result n from empty_circuit by emplace_gate / add_inputs and then
   set_inputs / set_outputs.  What all of them establish is the structural relation
       sim c R n :  every gate l of n is a gate of c with the same label and the same type and
                    (unless it is an INPUT) operands related pointwise by R to the operands in c.
   rebuild_sem: if n is well formed (closed under operands, acyclic: both follow from the C02
   lemmas because n is built by checked mutators) and R x' x implies that x' and x have the
   same value in c under the assignment a, then every gate of n has in n exactly the value it
   has in c.  "Each gate emitted at most once, operands already present" of DESIGN 7/C03 is what
   emplace_gate's checks enforce; in the statement it appears as WF n.

   The model is immutable, so "the argument is not modified" holds by construction (the harness
   compares the dump of the argument before and after every call on the implementation). *)
Require Import Cirbo.Model.Base Cirbo.Model.Gate Cirbo.Model.Den Cirbo.Model.Circuit
        Cirbo.Model.Eval Cirbo.Model.Sem Cirbo.Model.WF.
Require Import Cirbo.Generated.Operators Cirbo.Generated.GateTypes.
Require Import Cirbo.Proofs.DictFacts Cirbo.Proofs.OpFacts Cirbo.Proofs.SemFacts
        Cirbo.Proofs.WFBase Cirbo.Proofs.WFSimple Cirbo.Proofs.WFEmplace.

(* ---------------- small list helpers ---------------- *)
Lemma Forall2_remap_fwd {A B} (P Q : A -> B -> Prop) (R : A -> A -> Prop) l1 : forall l2 vs,
  Forall2 R l1 l2 -> Forall2 P l1 vs ->
  (forall x' x v, In x' l1 -> R x' x -> P x' v -> Q x v) -> Forall2 Q l2 vs.
Proof.
  induction l1 as [|x' l1 IH]; intros l2 vs HR HP Hs; inversion HR; subst; inversion HP; subst; constructor.
  - eapply Hs; [left; reflexivity|eassumption|eassumption].
  - eapply IH; [eassumption|eassumption|]. intros; eapply Hs; [right|..]; eassumption.
Qed.

Lemma Forall2_remap_bwd {A B} (P Q : A -> B -> Prop) (R : A -> A -> Prop) l1 : forall l2 vs,
  Forall2 R l1 l2 -> Forall2 Q l2 vs ->
  (forall x' x v, In x' l1 -> R x' x -> Q x v -> P x' v) -> Forall2 P l1 vs.
Proof.
  induction l1 as [|x' l1 IH]; intros l2 vs HR HQ Hs; inversion HR; subst; inversion HQ; subst; constructor.
  - eapply Hs; [left; reflexivity|eassumption|eassumption].
  - eapply IH; [eassumption|eassumption|]. intros; eapply Hs; [right|..]; eassumption.
Qed.

Lemma Forall2_length' {A B} (R : A -> B -> Prop) l1 l2 : Forall2 R l1 l2 -> length l1 = length l2.
Proof. induction 1; simpl; congruence. Qed.

Lemma Forall2_nth_rel {A B} (R : A -> B -> Prop) l1 l2 d1 d2 i :
  Forall2 R l1 l2 -> i < length l2 -> R (nth i l1 d1) (nth i l2 d2).
Proof.
  intros H; revert i; induction H as [|x y l1 l2 Hxy _ IH]; intros i Hi; simpl in *; [lia|].
  destruct i; [exact Hxy|apply IH; lia].
Qed.

Lemma Forall2_refl_on {A} (R : A -> A -> Prop) l : (forall x, In x l -> R x x) -> Forall2 R l l.
Proof. induction l; intros H; constructor; [apply H; left; reflexivity|apply IHl; intros; apply H; right; assumption]. Qed.

Lemma Forall2_impl_in {A B} (R S : A -> B -> Prop) l1 l2 :
  Forall2 R l1 l2 -> (forall x y, In x l1 -> In y l2 -> R x y -> S x y) -> Forall2 S l1 l2.
Proof.
  induction 1 as [|x y l1 l2 Hxy _ IH]; intros Hs; constructor.
  - apply Hs; [left; reflexivity|left; reflexivity|exact Hxy].
  - apply IH. intros; apply Hs; [right|right|]; assumption.
Qed.

(* ---------------- facts about Eval ---------------- *)
Lemma Eval_inv c a l v g : dget (gates c) l = Some g -> Eval c a l v ->
  (gtyp g = INPUT /\ v = aval a l) \/
  (gtyp g <> INPUT /\ exists vs, Forall2 (Eval c a) (gops g) vs /\ operator_of (gtyp g) vs = Ok v).
Proof.
  intros Hg H. inversion H as [l' g' Hg' Ht'|l' g' vs v' Hg' Ht' Hops Hop]; subst;
    rewrite Hg in Hg'; injection Hg' as <-; [left; auto|right; eauto].
Qed.

(* the value of a gate depends only on the gate map ... *)
Lemma Eval_gates c1 c2 a l v : gates c1 = gates c2 -> Eval c1 a l v -> Eval c2 a l v.
Proof.
  intros E H. induction H as [l g Hg Ht|l g vs v Hg Ht _ IH Hop] using Eval_ind2.
  - rewrite E in Hg. econstructor; eassumption.
  - rewrite E in Hg. eapply EvalGate; eassumption.
Qed.

(* ... and on the assignment of the INPUT gates only *)
Lemma Eval_ext c a a' l v :
  (forall i g, dget (gates c) i = Some g -> gtyp g = INPUT -> aval a i = aval a' i) ->
  Eval c a l v -> Eval c a' l v.
Proof.
  intros E H. induction H as [l g Hg Ht|l g vs v Hg Ht _ IH Hop] using Eval_ind2.
  - rewrite (E l g Hg Ht). econstructor; eassumption.
  - eapply EvalGate; eassumption.
Qed.

Lemma operator_of_accepts t vs :
  t <> INPUT -> den_accepts t (length vs) = true -> exists v, operator_of t vs = Ok v.
Proof.
  intros Ht H. destruct t; try congruence;
    destruct vs as [|v1 [|v2 [|v3 r]]]; simpl in *; try discriminate; eauto.
Qed.

(* on a well-formed circuit whose gates have accepted arities every gate has a value *)
Theorem Eval_exists c a : WF c -> arity_ok c ->
  forall l, has_gate c l = true -> exists v, Eval c a l v.
Proof.
  intros W A. destruct (wf_acyclic c W) as [rank Hrank].
  assert (H : forall k l, rank l < k -> has_gate c l = true -> exists v, Eval c a l v).
  { induction k as [|k IH]; intros l Hk Hl; [lia|].
    apply has_gate_get in Hl. destruct Hl as [g Hg].
    destruct (gtype_eq_dec (gtyp g) INPUT) as [Ht|Ht].
    - exists (aval a l). econstructor; eassumption.
    - assert (Hvs : exists vs, Forall2 (Eval c a) (gops g) vs).
      { assert (Hall : forall o, In o (gops g) -> exists v, Eval c a o v).
        { intros o Ho. apply IH; [pose proof (Hrank l g o Hg Ho); lia|eapply (wf_ops c W); eassumption]. }
        clear Hg. induction (gops g) as [|o os IHo]; [exists []; constructor|].
        destruct (Hall o (or_introl eq_refl)) as [v Hv].
        destruct IHo as [vs Hvs]; [intros; apply Hall; right; assumption|].
        exists (v :: vs); constructor; assumption. }
      destruct Hvs as [vs Hvs].
      destruct (operator_of_accepts (gtyp g) vs Ht) as [v Hv].
      { rewrite <- (Forall2_length' _ _ _ Hvs). apply (A l g Hg Ht). }
      exists v. eapply EvalGate; eassumption. }
  intros l Hl. apply (H (S (rank l))); [lia|exact Hl].
Qed.

(* same value in c under a *)
Definition eqv (c : circuit) (a : assignment) (x y : label) : Prop :=
  forall v, Eval c a x v <-> Eval c a y v.

Lemma eqv_refl c a x : eqv c a x x.
Proof. intros v; tauto. Qed.
Lemma eqv_sym c a x y : eqv c a x y -> eqv c a y x.
Proof. intros H v; symmetry; apply H. Qed.
Lemma eqv_trans c a x y z : eqv c a x y -> eqv c a y z -> eqv c a x z.
Proof. intros H1 H2 v; rewrite (H1 v); apply H2. Qed.

(* ---------------- the structural relation ---------------- *)
Definition sim (c : circuit) (R : label -> label -> Prop) (n : circuit) : Prop :=
  forall l g', dget (gates n) l = Some g' ->
    exists g, dget (gates c) l = Some g /\ gtyp g' = gtyp g /\
              (gtyp g <> INPUT -> Forall2 R (gops g') (gops g)).

Lemma sim_empty c R : sim c R empty_circuit.
Proof. intros l g' H; discriminate. Qed.

Lemma sim_gates c R n n' : gates n' = gates n -> sim c R n -> sim c R n'.
Proof. unfold sim; intros ->; auto. Qed.

Lemma sim_weaken c (R S : label -> label -> Prop) n :
  (forall x' x, R x' x -> S x' x) -> sim c R n -> sim c S n.
Proof.
  intros HRS Hs l g' Hg'. destruct (Hs l g' Hg') as (g & Hg & Ht & Hops).
  exists g. split; [exact Hg|]. split; [exact Ht|]. intros Hn.
  eapply Forall2_impl_in; [apply Hops; exact Hn|]. intros x y _ _; apply HRS.
Qed.

Lemma sim_emplace c R n l g t ops n' :
  sim c R n -> dget (gates c) l = Some g -> t = gtyp g ->
  (gtyp g <> INPUT -> Forall2 R ops (gops g)) ->
  emplace_gate n l t ops = Ok n' -> sim c R n'.
Proof.
  intros Hs Hg -> Hops H. apply emplace_gate_inv in H. destruct H as (_ & _ & ->).
  intros l' g' Hg'. rewrite emplace_raw_gates, dget_dset in Hg'.
  destruct (leqb_spec l' l) as [->|Hne]; [|apply Hs; exact Hg'].
  injection Hg' as <-. exists g. simpl. auto.
Qed.

Lemma sim_add_inputs c R ls : forall n n',
  sim c R n -> (forall l, In l ls -> exists g, dget (gates c) l = Some g /\ gtyp g = INPUT) ->
  add_inputs n ls = Ok n' -> sim c R n'.
Proof.
  induction ls as [|l ls IH]; simpl; intros n n' Hs Hin H; [injection H as <-; exact Hs|].
  binv H u0 H0. binv H n1 H1.
  destruct (Hin l (or_introl eq_refl)) as (g & Hg & Ht).
  eapply IH; [|intros; apply Hin; right; assumption|exact H].
  eapply sim_emplace; [exact Hs|exact Hg|symmetry; exact Ht| |exact H1]. intros Hn; contradiction.
Qed.

Lemma sim_has_gate c R n l : sim c R n -> has_gate n l = true -> has_gate c l = true.
Proof.
  intros Hs H. apply has_gate_get in H. destruct H as [g' Hg'].
  destruct (Hs l g' Hg') as (g & Hg & _). eapply get_has_gate; eassumption.
Qed.

Lemma sim_arity c R n : sim c R n -> arity_ok c -> arity_ok n.
Proof.
  intros Hs A l g' Hg' Ht. destruct (Hs l g' Hg') as (g & Hg & Et & Hops).
  rewrite Et in *. rewrite (Forall2_length' _ _ _ (Hops Ht)). apply (A l g Hg Ht).
Qed.

Lemma sim_size c R n : sim c R n -> NoDup (dkeys (gates n)) -> size n <= size c.
Proof.
  intros Hs Hnd. unfold size. rewrite <- (map_length fst (gates n)), <- (map_length fst (gates c)).
  apply NoDup_incl_length; [exact Hnd|]. intros l Hl.
  apply dmem_keys in Hl. apply dmem_keys. eapply (sim_has_gate c R n); eassumption.
Qed.

(* ---------------- rebuild-with-remap ---------------- *)
Theorem rebuild_sem c a R n :
  WF n -> sim c R n -> (forall x' x, R x' x -> eqv c a x' x) ->
  forall l, has_gate n l = true -> forall v, Eval n a l v <-> Eval c a l v.
Proof.
  intros W Hs HR. destruct (wf_acyclic n W) as [rank Hrank].
  assert (H : forall k l, rank l < k -> has_gate n l = true -> forall v, Eval n a l v <-> Eval c a l v).
  { induction k as [|k IH]; intros l Hk Hl v; [lia|].
    apply has_gate_get in Hl. destruct Hl as [g' Hg'].
    destruct (Hs l g' Hg') as (g & Hg & Et & Hops).
    assert (Hsub : forall x', In x' (gops g') -> forall w, Eval n a x' w <-> Eval c a x' w).
    { intros x' Hx'. apply IH; [pose proof (Hrank l g' x' Hg' Hx'); lia|eapply (wf_ops n W); eassumption]. }
    split; intros He.
    - destruct (Eval_inv _ _ _ _ _ Hg' He) as [[Ht ->]|[Ht (vs & Hvs & Hop)]].
      + econstructor; [exact Hg|congruence].
      + rewrite Et in Ht, Hop. eapply EvalGate; [exact Hg|exact Ht| |exact Hop].
        eapply Forall2_remap_fwd; [apply Hops; exact Ht|exact Hvs|].
        intros x' x w Hx' HRx Hw. apply (HR _ _ HRx). apply Hsub; assumption.
    - destruct (Eval_inv _ _ _ _ _ Hg He) as [[Ht ->]|[Ht (vs & Hvs & Hop)]].
      + econstructor; [exact Hg'|congruence].
      + eapply EvalGate; [exact Hg'|congruence| |rewrite Et; exact Hop].
        eapply Forall2_remap_bwd; [apply Hops; exact Ht|exact Hvs|].
        intros x' x w Hx' HRx Hw. apply Hsub; [assumption|]. apply (HR _ _ HRx). exact Hw. }
  intros l Hl. apply (H (S (rank l))); [lia|exact Hl].
Qed.

(* what a pass establishes about its result *)
Record Rebuilt (c : circuit) (R : label -> label -> Prop) (c' : circuit) : Prop := mkRebuilt {
  rb_wf : WF c';
  rb_sim : sim c R c';
  rb_outs : Forall2 R (outputs c') (outputs c) }.

(* pointwise equivalence of the outputs (in particular: as many outputs) *)
Definition out_equiv (c c' : circuit) (a : assignment) : Prop :=
  Forall2 (fun o' o => forall v, Eval c' a o' v <-> Eval c a o v) (outputs c') (outputs c).

Theorem rebuilt_out_equiv c a R c' :
  Rebuilt c R c' -> (forall x' x, R x' x -> eqv c a x' x) -> out_equiv c c' a.
Proof.
  intros [W Hs Ho] HR. unfold out_equiv.
  eapply Forall2_impl_in; [exact Ho|]. intros o' o Ho' _ HRo v.
  rewrite (rebuild_sem c a R c' W Hs HR o' (wf_outs c' W o' Ho') v). apply (HR _ _ HRo).
Qed.

Lemma out_equiv_nth c c' a d d' i :
  out_equiv c c' a -> i < length (outputs c) ->
  forall v, Eval c' a (nth i (outputs c') d') v <-> Eval c a (nth i (outputs c) d) v.
Proof. intros H Hi. exact (Forall2_nth_rel _ _ _ d' d i H Hi). Qed.

Lemma out_equiv_length c c' a : out_equiv c c' a -> length (outputs c') = length (outputs c).
Proof. apply Forall2_length'. Qed.

Lemma out_equiv_refl c a : out_equiv c c a.
Proof. apply Forall2_refl_on. intros; tauto. Qed.

Lemma out_equiv_trans c c1 c2 a : out_equiv c c1 a -> out_equiv c1 c2 a -> out_equiv c c2 a.
Proof.
  unfold out_equiv. generalize (outputs c) (outputs c1) (outputs c2). intros l l1 l2 H1; revert l2.
  induction H1 as [|x1 x l1 l Hx _ IH]; intros l2 H2; inversion H2; subst; constructor.
  - intros v. rewrite <- (Hx v). auto.
  - apply IH; assumption.
Qed.

(* ---------------- the mutators used after the rebuild ---------------- *)
Lemma set_inputs_spec c ls c' : set_inputs c ls = Ok c' -> c' = set_inputs_raw c ls.
Proof.
  unfold set_inputs; intros H. binv H u Hu.
  destruct (forallb _ (gates c)); [|discriminate]. binv H acc Hacc. injection H as <-.
  apply set_inputs_loop_spec in Hacc; [|constructor]. destruct Hacc as (-> & _). reflexivity.
Qed.

Lemma set_outputs_spec c ls c' : set_outputs c ls = Ok c' -> c' = set_outputs_raw c ls.
Proof. unfold set_outputs; intros H. binv H u Hu. injection H as <-. reflexivity. Qed.

Lemma add_inputs_spec ls : forall n n', add_inputs n ls = Ok n' ->
  outputs n' = outputs n /\ inputs n' = inputs n ++ ls /\
  forall x, has_gate n' x = has_gate n x || memb x ls.
Proof.
  induction ls as [|l ls IH]; simpl; intros n n' H.
  - injection H as <-. rewrite app_nil_r. repeat split; try reflexivity. intros; rewrite orb_false_r; reflexivity.
  - binv H u0 H0. binv H n1 H1. apply emplace_gate_inv in H1. destruct H1 as (_ & _ & ->).
    destruct (IH _ _ H) as (Ho & Hi & Hh). rewrite emplace_raw_outputs in Ho. rewrite emplace_raw_inputs in Hi.
    simpl in Hi. rewrite <- app_assoc in Hi. split; [exact Ho|]. split; [exact Hi|].
    intros x. rewrite Hh, emplace_raw_has_gate. destruct (leqb x l), (has_gate n x); reflexivity.
Qed.

(* an emplace of a non-INPUT gate leaves inputs alone; of an INPUT gate appends it *)
Lemma emplace_gate_frame n l t ops n' : emplace_gate n l t ops = Ok n' ->
  outputs n' = outputs n /\
  inputs n' = (if gtype_beq t INPUT then inputs n ++ [l] else inputs n) /\
  (forall x, has_gate n' x = leqb x l || has_gate n x) /\
  has_gate n l = false /\ (forall o, In o ops -> has_gate n o = true).
Proof.
  intros H. apply emplace_gate_inv in H. destruct H as (H1 & H2 & ->).
  split; [apply emplace_raw_outputs|]. split; [apply emplace_raw_inputs|].
  split; [intros; apply emplace_raw_has_gate|]. split; assumption.
Qed.

(* ---------------- folds with the processed prefix in the invariant ---------------- *)
Lemma foldM_prefix {A S} (f : S -> A -> res S) (P : list A -> S -> Prop) (l0 : list A) :
  (forall pre x post s s', l0 = pre ++ x :: post -> P pre s -> f s x = Ok s' -> P (pre ++ [x]) s') ->
  forall l pre s s', l0 = pre ++ l -> P pre s -> foldM f l s = Ok s' -> P l0 s'.
Proof.
  intros Hstep. induction l as [|x xs IH]; intros pre s s' E Hp H; simpl in H.
  - injection H as <-. rewrite app_nil_r in E. subst; exact Hp.
  - binv H s1 H1. apply (IH (pre ++ [x]) s1 s'); [rewrite <- app_assoc; exact E| |exact H].
    eapply Hstep; eassumption.
Qed.

Lemma foldM_prefix_total {A S} (f : S -> A -> res S) (P : list A -> S -> Prop) (l0 : list A) :
  (forall pre x post s, l0 = pre ++ x :: post -> P pre s -> exists s', f s x = Ok s' /\ P (pre ++ [x]) s') ->
  forall l pre s, l0 = pre ++ l -> P pre s -> exists s', foldM f l s = Ok s' /\ P l0 s'.
Proof.
  intros Hstep. induction l as [|x xs IH]; intros pre s E Hp; simpl.
  - rewrite app_nil_r in E. subst. eauto.
  - destruct (Hstep pre x xs s E Hp) as (s1 & H1 & Hp1). rewrite H1; simpl.
    apply (IH (pre ++ [x]) s1); [rewrite <- app_assoc; exact E|exact Hp1].
Qed.

Lemma filter_true {A} (f : A -> bool) l : (forall x, In x l -> f x = true) -> filter f l = l.
Proof.
  induction l as [|x l IH]; intros H; simpl; [reflexivity|].
  rewrite (H x (or_introl eq_refl)), IH; [reflexivity|]. intros; apply H; right; assumption.
Qed.

Lemma filter_filter_sub {A} (f g : A -> bool) l :
  (forall x, In x l -> f x = true -> g x = true) -> filter f (filter g l) = filter f l.
Proof.
  induction l as [|x l IH]; intros H; simpl; [reflexivity|].
  assert (IH' : filter f (filter g l) = filter f l) by (apply IH; intros; apply H; [right|]; assumption).
  destruct (g x) eqn:Eg; simpl; [rewrite IH'; reflexivity|].
  destruct (f x) eqn:Ef; [|exact IH']. rewrite (H x (or_introl eq_refl) Ef) in Eg; discriminate.
Qed.

(* ---------------- what C03 asks of a pass / a pipeline ---------------- *)
(* tv = true: the function is preserved for every three-valued assignment, otherwise for the
   total ones; keep = true: the input list is unchanged, otherwise it is the sublist (order kept)
   of the inputs that are still gates of the result *)
Record Pres (tv keep : bool) (c c' : circuit) : Prop := mkPres {
  pr_wf : WF c';
  pr_arity : arity_ok c';
  pr_keys : forall l, has_gate c' l = true -> has_gate c l = true;
  pr_inputs : inputs c' = filter (has_gate c') (inputs c);
  pr_keep : keep = true -> inputs c' = inputs c;
  pr_outs : length (outputs c') = length (outputs c);
  pr_fun : forall a, tv = true \/ total_on c a -> out_equiv c c' a;
  pr_size : size c' <= size c }.

Lemma Pres_of_rebuilt tv keep c R c' :
  arity_ok c -> Rebuilt c R c' ->
  inputs c' = filter (has_gate c') (inputs c) -> (keep = true -> inputs c' = inputs c) ->
  (forall a, tv = true \/ total_on c a -> forall x' x, R x' x -> eqv c a x' x) ->
  Pres tv keep c c'.
Proof.
  intros A Hr Hi Hk HR. pose proof Hr as [W Hs Ho]. constructor.
  - exact W.
  - eapply sim_arity; eassumption.
  - intros l. eapply sim_has_gate; eassumption.
  - exact Hi.
  - exact Hk.
  - apply (Forall2_length' _ _ _ Ho).
  - intros a Ha. eapply rebuilt_out_equiv; [exact Hr|apply HR; exact Ha].
  - eapply sim_size; [exact Hs|apply (wf_gkeys c' W)].
Qed.

Lemma wf_inputs_filter c : WF c -> inputs c = filter (has_gate c) (inputs c).
Proof.
  intros W. symmetry. apply filter_true. intros x Hx. apply (wf_inputs c W) in Hx.
  destruct Hx as (g & Hg & _). eapply get_has_gate; eassumption.
Qed.

Lemma Pres_refl c : WF c -> arity_ok c -> Pres true true c c.
Proof.
  intros W A. constructor; auto.
  - apply wf_inputs_filter; exact W.
  - intros a _. apply out_equiv_refl.
Qed.

Lemma total_on_sub c c' a :
  WF c -> WF c' -> incl (inputs c') (inputs c) -> total_on c a -> total_on c' a.
Proof.
  intros W W' Hi Ht l g Hg Hty.
  assert (In l (inputs c)) as Hl by (apply Hi, (wf_inputs c' W'); eauto).
  apply (wf_inputs c W) in Hl. destruct Hl as (g0 & Hg0 & Ht0). eapply Ht; eassumption.
Qed.

Lemma Pres_trans tv1 k1 tv2 k2 c c1 c2 :
  WF c -> Pres tv1 k1 c c1 -> Pres tv2 k2 c1 c2 -> Pres (tv1 && tv2) (k1 && k2) c c2.
Proof.
  intros W [W1 A1 K1 I1 P1 O1 F1 S1] [W2 A2 K2 I2 P2 O2 F2 S2]. constructor.
  - exact W2.
  - exact A2.
  - intros l Hl. apply K1, K2, Hl.
  - rewrite I2, I1. apply filter_filter_sub. intros x _. apply K2.
  - intros Hk. apply andb_true_iff in Hk. destruct Hk as [Hk1 Hk2]. rewrite (P2 Hk2). apply P1, Hk1.
  - congruence.
  - intros a Ha. eapply out_equiv_trans.
    + apply F1. destruct Ha as [Ha|Ha]; [left; apply andb_true_iff in Ha; tauto|right; exact Ha].
    + apply F2. destruct Ha as [Ha|Ha]; [left; apply andb_true_iff in Ha; tauto|right].
      eapply total_on_sub; [exact W|exact W1| |exact Ha].
      rewrite I1. intros x Hx. apply filter_In in Hx. tauto.
  - lia.
Qed.

Lemma Pres_weaken tv k tv' k' c c' :
  (tv' = true -> tv = true) -> (k' = true -> k = true) -> Pres tv k c c' -> Pres tv' k' c c'.
Proof.
  intros Ht Hk [W1 A1 K1 I1 P1 O1 F1 S1]. constructor; auto.
  intros a [Ha|Ha]; apply F1; [left; auto|right; exact Ha].
Qed.

(* inputs that are no longer gates of the result cannot matter: the assignment may be changed
   arbitrarily outside the inputs of the result *)
Lemma Pres_restrict tv k c c' a a' d d' i :
  Pres tv k c c' -> tv = true \/ total_on c a ->
  (forall x, In x (inputs c') -> aval a x = aval a' x) -> i < length (outputs c) ->
  forall v, Eval c' a' (nth i (outputs c') d') v <-> Eval c a (nth i (outputs c) d) v.
Proof.
  intros P Ha Hag Hi v.
  rewrite <- (out_equiv_nth c c' a d d' i (pr_fun _ _ _ _ P a Ha) Hi v).
  pose proof (pr_wf _ _ _ _ P) as W'.
  split; apply Eval_ext; intros x g Hg Ht; [symmetry|]; apply Hag, (wf_inputs c' W'); eauto.
Qed.

Lemma Pres_nth tv k c c' a d d' i :
  Pres tv k c c' -> tv = true \/ total_on c a -> i < length (outputs c) ->
  forall v, Eval c' a (nth i (outputs c') d') v <-> Eval c a (nth i (outputs c) d) v.
Proof. intros P Ha Hi. eapply out_equiv_nth; [apply (pr_fun _ _ _ _ P a Ha)|exact Hi]. Qed.

(* ---------------- the common tail of MU / MD / ME ---------------- *)
Lemma set_inputs_exist n ls n' : set_inputs n ls = Ok n' -> forall l, In l ls -> has_gate n l = true.
Proof. unfold set_inputs; intros H. binv H u Hu. eapply check_gates_exist_unit; eassumption. Qed.

Lemma set_outputs_exist n ls n' : set_outputs n ls = Ok n' -> forall l, In l ls -> has_gate n l = true.
Proof. unfold set_outputs; intros H. binv H u Hu. eapply check_gates_exist_unit; eassumption. Qed.

Lemma finish_rebuilt c R n1 n2 outs c' :
  WF n1 -> sim c R n1 -> set_inputs n1 (inputs c) = Ok n2 -> Forall2 R outs (outputs c) ->
  set_outputs n2 outs = Ok c' ->
  Rebuilt c R c' /\ inputs c' = inputs c /\ inputs c' = filter (has_gate c') (inputs c) /\
  gates c' = gates n1.
Proof.
  intros W1 S1 H2 Ho H.
  pose proof (set_inputs_wf _ _ _ W1 H2) as W2. pose proof (set_inputs_exist _ _ _ H2) as Hex.
  apply set_inputs_spec in H2. subst n2.
  pose proof (set_outputs_wf _ _ _ W2 H) as W'. apply set_outputs_spec in H. subst c'.
  split; [constructor|].
  - exact W'.
  - eapply sim_gates; [|exact S1]. reflexivity.
  - exact Ho.
  - simpl. split; [reflexivity|]. split; [|reflexivity].
    symmetry. apply filter_true. intros x Hx. apply Hex, Hx.
Qed.

Lemma set_inputs_total n ls :
  WF n -> NoDup ls -> (forall i, In i ls <-> In i (inputs n)) -> exists n', set_inputs n ls = Ok n'.
Proof.
  intros W Hnd Hiff. unfold set_inputs.
  assert (Hex : check_gates_exist ls n = Ok tt).
  { apply check_gates_exist_ok. intros l Hl. apply Hiff, (wf_inputs n W) in Hl.
    destruct Hl as (g & Hg & _). eapply get_has_gate; eassumption. }
  rewrite Hex. simpl.
  assert (Hall : forallb (fun kg => negb (gtype_beq (gtyp (snd kg)) INPUT) || memb (fst kg) ls) (gates n) = true).
  { apply forallb_forall. intros [l g] Hlg. simpl.
    destruct (gtype_beq (gtyp g) INPUT) eqn:Et; [simpl|reflexivity]. apply gtype_beq_eq in Et.
    apply In_dget in Hlg; [|apply (wf_gkeys n W)].
    apply memb_In, Hiff, (wf_inputs n W). eauto. }
  rewrite Hall.
  assert (Hloop : forall rest acc, NoDup (acc ++ rest) -> (forall i, In i rest -> In i (inputs n)) ->
                  exists r, set_inputs_loop n rest acc = Ok r).
  { induction rest as [|i rest IH]; intros acc Hnd' Hin; simpl; [eauto|].
    assert (Hi : In i (inputs n)) by (apply Hin; left; reflexivity).
    apply (wf_inputs n W) in Hi. destruct Hi as (g & Hg & Ht).
    unfold get_gate. rewrite Hg. simpl. rewrite Ht. simpl.
    assert (Hm : memb i acc = false).
    { apply memb_nIn. intros Hi. apply NoDup_remove_2 in Hnd'. apply Hnd', in_or_app; left; exact Hi. }
    rewrite Hm. apply IH; [rewrite <- app_assoc; exact Hnd'|intros; apply Hin; right; assumption]. }
  destruct (Hloop ls []) as [r Hr]; [exact Hnd|intros i Hi; apply Hiff, Hi|].
  rewrite Hr. simpl. eauto.
Qed.

Lemma set_outputs_total n ls : (forall l, In l ls -> has_gate n l = true) -> exists n', set_outputs n ls = Ok n'.
Proof. intros H. unfold set_outputs. apply check_gates_exist_ok in H. rewrite H. simpl. eauto. Qed.

(* gates already present are untouched by an emplace *)
Lemma emplace_gate_old n l t ops n' d g :
  emplace_gate n l t ops = Ok n' -> dget (gates n) d = Some g -> dget (gates n') d = Some g.
Proof.
  intros H Hd. apply emplace_gate_inv in H. destruct H as (Hl & _ & ->).
  rewrite emplace_raw_gates, dget_dset. destruct (leqb_spec d l) as [->|]; [|exact Hd].
  apply get_has_gate in Hd. congruence.
Qed.

Lemma emplace_gate_new n l t ops n' :
  emplace_gate n l t ops = Ok n' -> dget (gates n') l = Some (mkGate t ops).
Proof.
  intros H. apply emplace_gate_inv in H. destruct H as (_ & _ & ->).
  rewrite emplace_raw_gates. apply dget_dset_same.
Qed.

Lemma emplace_gate_total n l t ops :
  has_gate n l = false -> (forall o, In o ops -> has_gate n o = true) ->
  exists n', emplace_gate n l t ops = Ok n'.
Proof.
  intros Hl Ho. unfold emplace_gate, check_label_doesnt_exist. rewrite Hl. simpl.
  apply check_gates_exist_ok in Ho. rewrite Ho. simpl. eauto.
Qed.

Lemma mapM_total {A B} (f : A -> res B) l :
  (forall x, In x l -> exists y, f x = Ok y) -> exists r, mapM f l = Ok r.
Proof.
  induction l as [|x l IH]; intros H; simpl; [eauto|].
  destruct (H x (or_introl eq_refl)) as [y Hy]. rewrite Hy. simpl.
  destruct IH as [r Hr]; [intros; apply H; right; assumption|]. rewrite Hr. simpl. eauto.
Qed.

Lemma Forall2_flip {A B} (R : A -> B -> Prop) l1 l2 : Forall2 R l1 l2 -> Forall2 (fun y x => R x y) l2 l1.
Proof. induction 1; constructor; assumption. Qed.

(* same value under every (three-valued) assignment *)
Definition eqv_all (c : circuit) (x' x : label) : Prop := forall a, eqv c a x' x.
Lemma eqv_all_refl c x : eqv_all c x x.
Proof. intros a; apply eqv_refl. Qed.
