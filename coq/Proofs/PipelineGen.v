(* The hand model of the pipeline machinery (Model/Passes.v: as_distinct, is_leaf_idempotent, reduce_from /
   linearize_reduce, cleanup) against what translator T15 regenerates from the class definitions of the passes,
   transformer.py and cleanup.py (Generated/PipelineGen.v). *)
Require Import Cirbo.Model.Base Cirbo.Model.Gate Cirbo.Model.Circuit Cirbo.Model.Passes.
Require Import Cirbo.Generated.PipelineGen.

(* the flag that Transformer.is_idempotent returns *)
Lemma gen_is_idempotent_eq t : gen_is_idempotent t = is_leaf_idempotent t.
Proof. destruct t; reflexivity. Qed.

(* Transformer.as_distinct (imply_deps=True) of a leaf: its pre transformers linearised, itself, its post
   transformers linearised, with the lists that the constructors hand to Transformer.__init__ *)
Lemma as_distinct_leaf t : (forall ts, t <> TComp ts) ->
  as_distinct t = linearize (gen_pre_transformers t) ++ [t] ++ linearize (gen_post_transformers t).
Proof. destruct t; intros H; try reflexivity. exfalso. eapply H; reflexivity. Qed.

Lemma as_distinct_comp ts : as_distinct (TComp ts) = linearize ts /\
  gen_pre_transformers (TComp ts) = [] /\ gen_post_transformers (TComp ts) = [].
Proof. repeat split. Qed.

(* Transformer.linearize_reduce_transformers *)
Lemma reduce_fold l : forall acc prev, exists p,
  foldM (fun '(yielded_, v__prev) v__cur =>
           if gen_is_idempotent v__cur && py_transformer_eq_opt v__cur v__prev then Ok (yielded_, v__prev)
           else Ok (yielded_ ++ [v__cur], Some v__cur)) l (acc, prev)
  = Ok (acc ++ reduce_from prev l, p).
Proof.
  induction l as [|t l IH]; intros acc prev; simpl.
  - rewrite app_nil_r. eexists; reflexivity.
  - rewrite gen_is_idempotent_eq. unfold py_transformer_eq_opt at 1.
    destruct (is_leaf_idempotent t && match prev with Some p => transformer_eqb t p | None => false end) eqn:E;
      cbn [bind].
    + apply IH.
    + destruct (IH (acc ++ [t]) (Some t)) as [p Hp]. exists p. rewrite Hp, <- app_assoc. reflexivity.
Qed.

Theorem gen_linearize_reduce_eq ts : gen_linearize_reduce_transformers ts = Ok (linearize_reduce ts).
Proof.
  unfold gen_linearize_reduce_transformers, linearize_reduce. cbv zeta.
  destruct (reduce_fold (linearize ts) [] None) as [p Hp].
  match goal with |- bind (foldM ?f ?l ?i) ?k = _ =>
    replace (foldM f l i) with (Ok (A := list transformer * option transformer) ([] ++ reduce_from None l, p))
      by (symmetry; exact Hp) end.
  reflexivity.
Qed.

(* cleanup *)
Theorem gen_cleanup_eq c heavy : gen_cleanup c heavy = cleanup c heavy.
Proof. unfold gen_cleanup, cleanup. destruct heavy; reflexivity. Qed.

Theorem pipeline_regenerated :
  (forall t, gen_is_idempotent t = is_leaf_idempotent t) /\
  (forall t, (forall ts, t <> TComp ts) ->
     as_distinct t = linearize (gen_pre_transformers t) ++ [t] ++ linearize (gen_post_transformers t)) /\
  (forall ts, gen_linearize_reduce_transformers ts = Ok (linearize_reduce ts)) /\
  (forall c heavy, gen_cleanup c heavy = cleanup c heavy).
Proof.
  split; [exact gen_is_idempotent_eq|]. split; [exact as_distinct_leaf|].
  split; [exact gen_linearize_reduce_eq|exact gen_cleanup_eq].
Qed.
