(* C06 soundness: every assignment that satisfies the CNF decodes into a circuit of the
   class `Valid` (exactly r gates, predecessors a < b among inputs / earlier gates, operation
   in the basis, normalised when asked, every fix_gate / forbid_wire constraint obeyed, every
   output at a gate, agreement with the model on every entry that is not a don't-care). *)
Require Import Cirbo.Model.Base Cirbo.Model.Gate Cirbo.Model.Den Cirbo.Model.Search.
Require Import Cirbo.Proofs.SearchFacts.
From Coq Require Import Wf_nat.
Local Open Scope nat_scope.

Definition sigma_tt (s : asg) (g : nat) : tt4 :=
  (s (VF g false false), s (VF g false true), s (VF g true false), s (VF g true true)).

Lemma sigma_tt_get s g p q : tt_get (sigma_tt s g) p q = s (VF g p q).
Proof. unfold sigma_tt. apply (tt_get_tuple (fun p q => s (VF g p q))). Qed.

(* the decoded gate, total version *)
Definition dgate (s : asg) (g : nat) : sgate :=
  match find_pair s g with
  | Some ab => mkSG (fst ab) (snd ab) (sigma_tt s g)
  | None => mkSG 0 0 (sigma_tt s g)
  end.

Definition douts (sp : spec) (s : asg) : list nat :=
  flat_map (fun h => filter (fun g => s (VG h g)) (internal sp)) (seq 0 (sp_m sp)).

Lemma decode_gate_dgate s g ab : find_pair s g = Some ab -> decode_gate s g = Ok (dgate s g).
Proof. unfold decode_gate, dgate, sigma_tt. intros ->. reflexivity. Qed.

Section Sound.
  Variable sp : spec.
  Variable s : asg.
  Hypothesis Hwf : spec_wf sp.
  Hypothesis Hsat : Sat s (encode sp).

  Let n := sp_n sp.
  Let r := sp_r sp.

  Lemma sat_default : Sat s (default_cnf sp).
  Proof. unfold encode in Hsat. rewrite !Sat_app in Hsat. tauto. Qed.

  Lemma sat_families :
    Sat s (fam_preds sp) /\ Sat s (fam_outs sp) /\ Sat s (fam_inputs sp) /\ Sat s (fam_gates sp) /\
    Sat s (fam_outvals sp) /\ Sat s (fam_basis sp) /\ Sat s (fam_norm sp).
  Proof. pose proof sat_default as H. unfold default_cnf in H. rewrite !Sat_app in H. tauto. Qed.

  Lemma sat_cons k : In k (sp_pre sp ++ sp_post sp) -> Sat s (cons_clauses k).
  Proof.
    intros Hk. unfold encode in Hsat. rewrite !Sat_app, !Sat_flat_map in Hsat.
    apply in_app_iff in Hk. destruct Hsat as [H1 [_ H2]]. destruct Hk; auto.
  Qed.

  (* every internal gate has exactly one predecessor pair *)
  Lemma gate_pair g : In g (internal sp) ->
    exists a b, a < b < g /\ s (VS g a b) = true /\
      forall a' b', a' < b' < g -> s (VS g a' b') = true -> a' = a /\ b' = b.
  Proof.
    intros Hg. destruct sat_families as [H _]. unfold fam_preds in H. rewrite Sat_flat_map in H.
    specialize (H g Hg).
    rewrite <- (map_map (fun ab => VS g (fst ab) (snd ab)) pos) in H.
    apply exactly_one_sound in H. destruct H as [v [Hv [Hs Hu]]].
    apply in_map_iff in Hv. destruct Hv as [[a b] [<- Hab]]. apply in_pairs in Hab. simpl in *.
    exists a, b. split; [lia|]. split; [exact Hs|]. intros a' b' Hab' Hs'.
    assert (E : VS g a' b' = VS g a b).
    { apply Hu; [|exact Hs']. apply in_map_iff. exists (a', b'). split; [reflexivity|apply in_pairs; lia]. }
    inversion E; auto.
  Qed.

  Lemma find_pair_internal g : In g (internal sp) ->
    exists a b, find_pair s g = Some (a, b) /\ a < b < g /\ s (VS g a b) = true /\
      forall a' b', a' < b' < g -> s (VS g a' b') = true -> a' = a /\ b' = b.
  Proof.
    intros Hg. destruct (gate_pair g Hg) as [a [b [Hab [Hs Hu]]]]. exists a, b.
    split; [apply find_pair_unique; assumption|]. auto.
  Qed.

  Definition dgates : list sgate := map (dgate s) (internal sp).

  Lemma decode_ok : decode sp s = Ok (mkCkt dgates (douts sp s)).
  Proof.
    unfold decode. rewrite (mapM_total (decode_gate s) (dgate s)); [reflexivity|].
    intros g Hg. destruct (find_pair_internal g Hg) as [a [b [E _]]]. eapply decode_gate_dgate, E.
  Qed.

  Lemma dgates_length : length dgates = r.
  Proof. unfold dgates, internal. rewrite map_length, seq_length. reflexivity. Qed.

  Lemma dgates_nth i : i < r -> nth_error dgates i = Some (dgate s (n + i)).
  Proof. intros H. unfold dgates, internal. apply nth_error_map_seq, H. Qed.

  Lemma dgates_nth_inv i g : nth_error dgates i = Some g -> i < r /\ g = dgate s (n + i).
  Proof.
    intros E. assert (Hi : i < r).
    { rewrite <- dgates_length. apply nth_error_Some. congruence. }
    split; [exact Hi|]. rewrite (dgates_nth i Hi) in E. congruence.
  Qed.

  Lemma dgate_spec i : i < r ->
    exists a b, dgate s (n + i) = mkSG a b (sigma_tt s (n + i)) /\ a < b < n + i /\ s (VS (n + i) a b) = true /\
      forall a' b', a' < b' < n + i -> s (VS (n + i) a' b') = true -> a' = a /\ b' = b.
  Proof.
    intros Hi. assert (Hg : In (n + i) (internal sp)) by (apply in_internal; fold n r; lia).
    destruct (find_pair_internal _ Hg) as [a [b [E H]]]. exists a, b.
    split; [unfold dgate; rewrite E; reflexivity|exact H].
  Qed.

  Lemma in_fam_gates g a b A B C t :
    In g (internal sp) -> a < b < g -> In t (live_rows sp) ->
    In (gate_clause g a b A B C t) (fam_gates sp).
  Proof.
    intros Hg Hab Ht. unfold fam_gates.
    apply in_flat_map. exists g. split; [exact Hg|].
    apply in_flat_map. exists (a, b). split; [apply in_pairs; lia|].
    apply in_flat_map. exists A. split; [apply in_bools|].
    apply in_flat_map. exists B. split; [apply in_bools|].
    apply in_flat_map. exists C. split; [apply in_bools|].
    apply in_map. exact Ht.
  Qed.

  (* the x-variables are the values of the decoded circuit on every row that is not an
     all-don't-care row *)
  Lemma x_is_value t : In t (live_rows sp) -> forall j, j < n + r -> s (VX j t) = value n dgates t j.
  Proof.
    intros Ht j. induction j as [j IH] using lt_wf_ind. intros Hj.
    destruct (Nat.lt_ge_cases j n) as [Hlt|Hge].
    - rewrite value_input by exact Hlt.
      destruct sat_families as [_ [_ [H _]]]. unfold fam_inputs in H. rewrite Sat_flat_map in H.
      specialize (H j). rewrite Sat_map in H. fold n in H.
      assert (Hin : In j (seq 0 n)) by (apply in_seq; lia).
      specialize (H Hin t Ht). apply unit_holds in H. exact H.
    - replace j with (n + (j - n)) in * by lia. set (i := j - n) in *. assert (Hi : i < r) by lia.
      destruct (dgate_spec i Hi) as [a [b [Eg [Hab [Hs _]]]]].
      rewrite (value_gate n dgates t i _ (dgates_nth i Hi)); rewrite Eg; cbn [gtt ga gb]; [|lia|lia].
      rewrite <- (IH a) by lia. rewrite <- (IH b) by lia.
      rewrite sigma_tt_get.
      destruct sat_families as [_ [_ [_ [H _]]]].
      assert (Hg : In (n + i) (internal sp)) by (apply in_internal; fold n r; lia).
      specialize (H _ (in_fam_gates (n + i) a b (s (VX (n + i) t)) (s (VX a t)) (s (VX b t)) t Hg Hab Ht)).
      destruct H as [l [Hl Hh]]. unfold gate_clause in Hl. unfold lit_holds in Hh. simpl in Hl.
      destruct Hl as [<-|[<-|[<-|[<-|[<-|[]]]]]]; simpl in Hh.
      + congruence.
      + destruct (s (VX (n + i) t)); discriminate.
      + destruct (s (VX a t)); discriminate.
      + destruct (s (VX b t)); discriminate.
      + symmetry. exact Hh.
  Qed.

  (* every output is taken at exactly one internal gate *)
  Lemma out_gate h : h < sp_m sp ->
    exists g, In g (internal sp) /\ s (VG h g) = true /\ filter (fun g => s (VG h g)) (internal sp) = [g].
  Proof.
    intros Hh. destruct sat_families as [_ [H _]]. unfold fam_outs in H. rewrite Sat_flat_map in H.
    specialize (H h). assert (Hin : In h (seq 0 (sp_m sp))) by (apply in_seq; lia). specialize (H Hin).
    rewrite <- (map_map (fun g => VG h g) pos) in H.
    apply exactly_one_sound in H. destruct H as [v [Hv [Hs Hu]]].
    apply in_map_iff in Hv. destruct Hv as [g [<- Hg]]. exists g. split; [exact Hg|]. split; [exact Hs|].
    apply filter_unique; [apply seq_NoDup|exact Hg|exact Hs|].
    intros g' Hg' Hs'. assert (E : VG h g' = VG h g) by (apply Hu; [apply in_map, Hg'|exact Hs']).
    inversion E; reflexivity.
  Qed.

  Definition dout (h : nat) : nat := hd 0 (filter (fun g => s (VG h g)) (internal sp)).

  Lemma douts_map : douts sp s = map dout (seq 0 (sp_m sp)).
  Proof.
    unfold douts. apply flat_map_single. intros h Hh. apply in_seq in Hh.
    destruct (out_gate h) as [g [_ [_ E]]]; [lia|]. unfold dout. rewrite E. reflexivity.
  Qed.

  Lemma dout_spec h : h < sp_m sp -> In (dout h) (internal sp) /\ s (VG h (dout h)) = true.
  Proof.
    intros Hh. destruct (out_gate h Hh) as [g [Hg [Hs E]]]. unfold dout. rewrite E. simpl. auto.
  Qed.

  Lemma douts_nth h o : nth_error (douts sp s) h = Some o -> h < sp_m sp /\ o = dout h.
  Proof.
    rewrite douts_map. intros E.
    assert (Hh : h < sp_m sp).
    { rewrite <- (seq_length (sp_m sp) 0), <- (map_length dout). apply nth_error_Some. congruence. }
    split; [exact Hh|]. rewrite nth_error_map_seq in E by exact Hh. simpl in E. congruence.
  Qed.

  (* the operation of every gate belongs to the basis *)
  Lemma gate_in_basis g : In g (internal sp) -> In (sigma_tt s g) (sp_basis sp).
  Proof.
    intros Hg. destruct (in_dec tt4_eq_dec (sigma_tt s g) (sp_basis sp)) as [H|H]; [exact H|exfalso].
    apply (wf_forb sp Hwf) in H.
    destruct sat_families as [_ [_ [_ [_ [_ [Hb _]]]]]]. unfold fam_basis in Hb.
    rewrite Sat_flat_map in Hb. specialize (Hb g Hg). rewrite Sat_map in Hb. specialize (Hb _ H).
    destruct Hb as [l [Hl Hh]]. unfold forb_clause in Hl. apply in_map_iff in Hl.
    destruct Hl as [[p q] [<- _]]. unfold lit_holds in Hh. cbn [fst snd] in Hh.
    rewrite <- sigma_tt_get in Hh. destruct (tt_get (sigma_tt s g) p q); discriminate.
  Qed.

  Lemma gate_normalized g : In g (internal sp) -> sp_norm sp = true -> tt_get (sigma_tt s g) false false = false.
  Proof.
    intros Hg Hn. destruct sat_families as [_ [_ [_ [_ [_ [_ H]]]]]]. unfold fam_norm in H. rewrite Hn in H.
    rewrite Sat_map in H. specialize (H g Hg). apply unit_holds in H. rewrite sigma_tt_get. exact H.
  Qed.

  (* the user constraints *)
  Lemma cons_obeyed k : In k (sp_pre sp ++ sp_post sp) -> cons_holds sp (mkCkt dgates (douts sp s)) k.
  Proof.
    intros Hk. pose proof (sat_cons k Hk) as Hs. pose proof (wf_cons sp Hwf k Hk) as Hok.
    unfold constraint_ok in Hok. apply andb_true_iff in Hok. destruct Hok as [Hc Ht].
    destruct k as [g fp sd gt|from to]; simpl.
    - (* fix_gate *)
      unfold check_constraint in Hc. fold n r in Hc.
      destruct ((n <=? g) && (g <? n + r)) eqn:Eg; simpl in Hc; [|discriminate].
      apply andb_true_iff in Eg. destruct Eg as [Eg1 Eg2]. apply Nat.leb_le in Eg1. apply Nat.ltb_lt in Eg2.
      assert (Hi : g - n < r) by lia.
      destruct (dgate_spec (g - n) Hi) as [a [b [Eg [Hab [Hsab Hu]]]]].
      replace (n + (g - n)) with g in * by lia.
      exists (dgate s g). split; [rewrite dgates_nth by exact Hi; f_equal; f_equal; lia|].
      cbn [cons_clauses] in Hs. rewrite Sat_app in Hs. destruct Hs as [Hs1 Hs2]. rewrite Eg. simpl. split.
      + (* predecessors *)
        destruct fp as [f|], sd as [d|]; simpl.
        * (* both *)
          simpl in Hc. destruct (negb (f <? n + r)); [discriminate|]. destruct (negb (d <? n + r)); [discriminate|].
          destruct ((d <? g) && (f <? d)) eqn:Eo; [|discriminate].
          apply andb_true_iff in Eo. destruct Eo as [Eo1 Eo2]. apply Nat.ltb_lt in Eo1, Eo2.
          specialize (Hs1 _ (or_introl eq_refl)). apply unit_holds in Hs1.
          destruct (Hu f d) as [-> ->]; [lia|exact Hs1|auto].
        * (* first only *)
          destruct (Nat.eq_dec a f) as [E|Hna]; [left; exact E|].
          destruct (Nat.eq_dec b f) as [E|Hnb]; [right; exact E|exfalso].
          rewrite Sat_map in Hs1. specialize (Hs1 (a, b)).
          assert (Hin : In (a, b) (filter (reads_neither f) (pairs g))).
          { apply filter_In. split; [apply in_pairs; lia|]. unfold reads_neither; simpl.
            apply andb_true_iff. split; apply negb_true_iff, Nat.eqb_neq; assumption. }
          specialize (Hs1 Hin). apply unit_holds in Hs1. simpl in Hs1. congruence.
        * (* second only *)
          destruct (Nat.eq_dec a d) as [E|Hna]; [left; exact E|].
          destruct (Nat.eq_dec b d) as [E|Hnb]; [right; exact E|exfalso].
          rewrite Sat_map in Hs1. specialize (Hs1 (a, b)).
          assert (Hin : In (a, b) (filter (reads_neither d) (pairs g))).
          { apply filter_In. split; [apply in_pairs; lia|]. unfold reads_neither; simpl.
            apply andb_true_iff. split; apply negb_true_iff, Nat.eqb_neq; assumption. }
          specialize (Hs1 Hin). apply unit_holds in Hs1. simpl in Hs1. congruence.
        * exact I.
      + (* gate type *)
        destruct gt as [t|]; [|exact I]. simpl in Ht.
        destruct (fix_table t) as [tb|] eqn:Etb; [|discriminate]. f_equal.
        apply tt4_ext. intros p q. rewrite sigma_tt_get.
        rewrite Sat_map in Hs2. specialize (Hs2 (p, q) (in_pq4 p q)). apply unit_holds in Hs2. simpl in Hs2.
        symmetry. exact Hs2.
    - (* forbid_wire *)
      unfold check_constraint in Hc. fold n r in Hc.
      destruct (negb (from <? n + r)); [discriminate|].
      destruct ((n <=? to) && (to <? n + r)) eqn:Eg; simpl in Hc; [|discriminate].
      destruct (to <=? from) eqn:Eo; [discriminate|]. apply Nat.leb_gt in Eo.
      apply andb_true_iff in Eg. destruct Eg as [Eg1 Eg2]. apply Nat.leb_le in Eg1. apply Nat.ltb_lt in Eg2.
      assert (Hi : to - n < r) by lia.
      destruct (dgate_spec (to - n) Hi) as [a [b [Eg [Hab [Hsab Hu]]]]].
      replace (n + (to - n)) with to in * by lia.
      exists (dgate s to). split; [rewrite dgates_nth by exact Hi; f_equal; f_equal; lia|].
      rewrite Eg. simpl. cbn [cons_clauses] in Hs. rewrite Sat_map in Hs.
      split; intros E.
      + (* a = from: the other is b *)
        specialize (Hs b). assert (Hin : In b (filter (fun o => negb (o =? from)) (seq 0 to))).
        { apply filter_In. split; [apply in_seq; lia|]. apply negb_true_iff, Nat.eqb_neq. lia. }
        specialize (Hs Hin). apply unit_holds in Hs. simpl in Hs.
        rewrite Nat.min_r, Nat.max_l in Hs by lia. rewrite E in Hsab. congruence.
      + specialize (Hs a). assert (Hin : In a (filter (fun o => negb (o =? from)) (seq 0 to))).
        { apply filter_In. split; [apply in_seq; lia|]. apply negb_true_iff, Nat.eqb_neq. lia. }
        specialize (Hs Hin). apply unit_holds in Hs. simpl in Hs.
        rewrite Nat.min_l, Nat.max_r in Hs by lia. rewrite E in Hsab. congruence.
  Qed.

  Theorem decode_valid : exists c, decode sp s = Ok c /\ Valid sp c.
  Proof.
    exists (mkCkt dgates (douts sp s)). split; [apply decode_ok|]. constructor; simpl.
    - apply dgates_length.
    - intros i g E. apply dgates_nth_inv in E. destruct E as [Hi ->].
      destruct (dgate_spec i Hi) as [a [b [Eg [Hab _]]]]. rewrite Eg. unfold gate_ok; simpl. fold n.
      assert (Hg : In (n + i) (internal sp)) by (apply in_internal; fold n r; lia).
      split; [lia|]. split; [lia|]. split; [apply gate_in_basis, Hg|apply gate_normalized, Hg].
    - rewrite douts_map, map_length, seq_length. reflexivity.
    - intros o Ho. rewrite douts_map in Ho. apply in_map_iff in Ho. destruct Ho as [h [<- Hh]].
      apply in_seq in Hh. destruct (dout_spec h) as [Hg _]; [lia|]. apply in_internal in Hg. exact Hg.
    - intros h t v o Ht Eo En. apply douts_nth in En. destruct En as [Hh ->].
      destruct (out_at_live sp h t v Ht Eo) as [Hlive _].
      destruct (dout_spec h Hh) as [Hg Hs]. pose proof Hg as Hg'. apply in_internal in Hg'. fold n r in Hg'.
      fold n. rewrite <- x_is_value by (try exact Hlive; lia).
      destruct sat_families as [_ [_ [_ [_ [H _]]]]]. unfold fam_outvals in H. rewrite Sat_flat_map in H.
      specialize (H h). assert (Hin : In h (seq 0 (sp_m sp))) by (apply in_seq; lia). specialize (H Hin).
      rewrite Sat_flat_map in H. specialize (H t). assert (Hin' : In t (rows sp)) by (apply in_seq; lia).
      specialize (H Hin'). rewrite Eo in H. rewrite Sat_map in H. specialize (H _ Hg).
      destruct H as [l [Hl Hh']]. unfold lit_holds in Hh'. destruct Hl as [<-|[<-|[]]]; simpl in Hh'; congruence.
    - apply cons_obeyed.
  Qed.
End Sound.

Theorem encode_sound sp s : spec_wf sp -> Sat s (encode sp) -> exists c, decode sp s = Ok c /\ Valid sp c.
Proof. intros Hwf Hsat. exact (decode_valid sp s Hwf Hsat). Qed.
