(* T21: the conjunction behind C04_cone_code_regenerated. *)
Require Import Cirbo.Model.Base Cirbo.Model.Gate Cirbo.Model.Circuit Cirbo.Model.Traverse Cirbo.Model.Eval
        Cirbo.Model.PatternSim.
Require Import Cirbo.Generated.GateTypes Cirbo.Generated.PatternOps Cirbo.Model.SubcircuitPrims Cirbo.Model.SubcircuitAlg.
Require Import Cirbo.Generated.SubcircuitAlgGen Cirbo.Model.SubcircuitGlue.
Require Import Cirbo.Proofs.SubcircuitAlgGenTT Cirbo.Proofs.SubcircuitAlgGenCone Cirbo.Proofs.SubcircuitAlgGenBfs
        Cirbo.Proofs.SubcircuitAlgGenClass Cirbo.Proofs.SubcircuitAlgGenCare3 Cirbo.Proofs.SubcircuitAlgGenCareSet
        Cirbo.Proofs.SubcircuitAlgGenCuts Cirbo.Proofs.SubcircuitAlgGenAll.
From Coq Require Import Permutation.

Theorem cone_code_regenerated :
  (* (b) _Subcircuit.evaluate_truth_table_with_dont_cares, all objects *)
  (forall self,
     gen_Subcircuit_evaluate_truth_table_with_dont_cares self =
     Ok (tt_with_dont_cares (length (Subcircuit_inputs self))
                            (map (pat_get (Subcircuit_patterns self)) (Subcircuit_outputs self))
                            (care_of_strings (Subcircuit_inputs_tt self)))) /\
  (* (a) the body of the loop over the good cuts of _get_subcircuits *)
  (forall set_iter c cut_nodes node_pos outputs_set inputs_tt subs cut,
     Permutation (set_iter (py_set_of_list cut)) (py_set_of_list cut) ->
     Permutation (set_iter (cm_get cut_nodes cut [])) (cm_get cut_nodes cut []) ->
     length (set_iter (py_set_of_list cut)) = length cut ->
     (forall x, memb x outputs_set = memb x (outputs c)) ->
     py_adict_getitem N.eqb inputs_tt (py_len cut) = Ok (generate_inputs_tt (py_len cut)) ->
     gen_get_subcircuits_for9 set_iter c cut_nodes node_pos outputs_set inputs_tt subs cut =
     do s <- subcircuit_of_cut set_iter c cut_nodes node_pos cut; Ok (subs ++ [s])) /\
  (* (a) _get_subcircuits as a whole: sorting, cut filtering, node sets, per-cut simulation *)
  (forall set_iter fuel c cuts cn max_size cut_size,
     (forall s, Permutation (set_iter s) s) ->
     Forall (fun cut => NoDup cut /\ (py_len cut <= cut_size)%N) cuts ->
     gen_get_subcircuits set_iter fuel c cuts cn max_size cut_size =
     get_subcircuits_model set_iter fuel c cuts cn max_size) /\
  (forall cn cut1 cut2, gen_get_subcircuits_is_nested_cut cn cut1 cut2 = Ok (nested_cut cn cut1 cut2)) /\
  (* (c) _eval_dont_cares *)
  (forall fuel c subs, NoDup (inputs c) -> length (inputs c) < fuel ->
     gen_eval_dont_cares fuel c subs =
     do _ <- mapM (fun x => do a <- zip_inputs (inputs c) (map inj x) []; evaluate_full_circuit c a)
                  (all_bool_vectors (length (inputs c)));
     mapM (fun sub => do vs <- reachable_vectors c (Subcircuit_inputs sub);
                      Ok (set_Subcircuit_inputs_tt sub (dont_care_strings vs))) subs) /\
  (forall vs v, vec_mem v (care_of_strings (dont_care_strings vs)) = vec_mem v vs) /\
  (* (d) _get_internal_gates, every fuel *)
  (forall fuel c ins outs, gen_get_internal_gates fuel c ins outs = internal_gates fuel c ins outs) /\
  (* (e) the classification of the outputs inside minimize_subcircuits *)
  (forall sub inputs,
     gen_classify_outputs sub inputs =
     let r := classify_outputs (Subcircuit_patterns sub) inputs (Subcircuit_outputs sub) in
     Ok (cl_found r, max_pattern (N.of_nat (length inputs)), cl_filtered r, cl_filtered_lst r, cl_trivial r,
         cl_negated r)) /\
  (forall pats leaves outs,
     let r := classify_outputs pats leaves outs in
     let mx := max_pattern (N.of_nat (length leaves)) in
     (forall o l, dget (cl_trivial r) o = Some l ->
        pat_get pats o = pat_get pats l /\ (In l leaves \/ In l (cl_filtered_lst r))) /\
     (forall o l, dget (cl_negated r) o = Some l ->
        pat_get pats l = (mx - pat_get pats o)%N /\ (In l leaves \/ In l (cl_filtered_lst r)))).
Proof.
  split; [exact gen_evaluate_truth_table_with_dont_cares_eq|].
  split.
  { intros set_iter c cut_nodes node_pos outputs_set inputs_tt subs cut H1 H2 H3 H4 H5.
    rewrite (gen_get_subcircuits_cut_eq set_iter c cut_nodes node_pos outputs_set inputs_tt subs cut H1 H2 H3 H4 H5).
    unfold subcircuit_of_cut. cbv zeta. change (py_adict_get labels_eqb cut_nodes cut []) with (cm_get cut_nodes cut []).
    destruct (mapM (py_dict_getitem node_pos) (set_iter (cm_get cut_nodes cut []))); cbn [bind]; [|reflexivity].
    destruct (simulate_cone _ _ _); cbn [bind]; [|reflexivity].
    destruct (cone_size _ _ _); cbn [bind]; [|reflexivity].
    destruct (cone_outputs _ _ _); reflexivity. }
  split; [exact gen_get_subcircuits_eq|].
  split; [exact gen_is_nested_cut_eq|].
  split; [exact gen_eval_dont_cares_eq|].
  split; [exact dont_care_strings_set|].
  split; [exact gen_get_internal_gates_eq|].
  split; [exact gen_classify_outputs_eq|exact classify_outputs_meaning].
Qed.

(* ---- non-vacuity: the regenerated code run on the example circuit of Proofs/C04Examples.v (set_iter = identity),
   the same call as harness: cuts and node sets as the enumerator would report them ---- *)
Require Import Cirbo.Proofs.C04Examples.
Definition regen_cut_nodes : list (list label * list label) :=
  [(["a"], ["a"]); (["b"], ["b"]); (["c"], ["c"]); (["a"; "b"], ["x"; "w"; "y"]); (["x"], ["x"; "y"]); (["y"], ["y"]);
   (["y"; "c"], ["z"]); (["a"; "b"; "c"], ["z"]); (["w"], ["w"]); (["z"], ["z"]); (["x"; "c"], ["z"])].

Lemma regenerated_example :
  exists s1 s2 s3,
    gen_get_subcircuits (fun s => s) 20 c04_old (map fst regen_cut_nodes) regen_cut_nodes 9 5 = Ok [s1; s2; s3] /\
    s1 = mk_gen_Subcircuit ["b"; "a"] ["b"; "a"; "w"; "x"; "y"] ["w"; "y"] 2 []
                           [("a", 10%N); ("b", 12%N); ("w", 6%N); ("x", 8%N); ("y", 7%N)] /\
    (exists t1 t2 t3, gen_eval_dont_cares 10 c04_old [s1; s2; s3] = Ok [t1; t2; t3] /\
                      Subcircuit_inputs_tt t1 = ["00"; "01"; "10"; "11"]) /\
    gen_classify_outputs s1 (Subcircuit_inputs s1) =
      Ok ([(12%N, "b"); (10%N, "a"); (6%N, "w"); (7%N, "y")], 15%N, ["w"; "y"], ["w"; "y"], [], []) /\
    gen_get_internal_gates 20 c04_old ["a"; "b"] ["y"] = Ok ["x"] /\
    gen_get_internal_gates 1 c04_old ["a"; "b"] ["y"] = Err OutOfFuel.
Proof.
  eexists _, _, _. split; [vm_compute; reflexivity|]. split; [reflexivity|].
  split; [eexists _, _, _; split; vm_compute; reflexivity|].
  split; [vm_compute; reflexivity|]. split; vm_compute; reflexivity.
Qed.
