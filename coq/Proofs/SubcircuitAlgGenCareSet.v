(* T21: the strings that _eval_dont_cares stores denote exactly the reachable leaf vectors (as a set). *)
Require Import Cirbo.Model.Base Cirbo.Model.Gate Cirbo.Model.Circuit Cirbo.Model.Eval Cirbo.Model.PatternSim.
Require Import Cirbo.Model.SubcircuitPrims Cirbo.Model.SubcircuitAlg Cirbo.Model.SubcircuitGlue.
Require Import Cirbo.Proofs.SubcircuitPrimsFacts Cirbo.Proofs.SubcircuitAlgGenTT Cirbo.Proofs.SubcircuitAlgGenCare3.
From Coq Require Import Permutation.

Lemma py_str_insert_perm x l : Permutation (x :: l) (py_str_insert x l).
Proof.
  induction l as [|y l IH]; simpl; [reflexivity|]. destruct (String.leb x y); [reflexivity|].
  rewrite perm_swap. constructor. exact IH.
Qed.

Lemma py_sorted_strs_perm l : Permutation l (py_sorted_strs l).
Proof.
  induction l as [|x l IH]; simpl; [reflexivity|]. rewrite <- py_str_insert_perm. constructor. exact IH.
Qed.

Lemma memb_map_bits v vs : memb (str_of_bits v) (map str_of_bits vs) = vec_mem v vs.
Proof.
  unfold vec_mem. induction vs as [|w vs IH]; [reflexivity|]. cbn [map memb existsb]. rewrite IH.
  destruct (leqb_spec (str_of_bits v) (str_of_bits w)) as [Heq|Hne].
  - assert (v = w) by (apply (f_equal bits_of_string) in Heq; rewrite !bits_of_str_of_bits in Heq; congruence).
    subst. replace (vec_eqb w w) with true by (symmetry; apply vec_eqb_eq; reflexivity). reflexivity.
  - destruct (vec_eqb v w) eqn:Ev; [apply vec_eqb_eq in Ev; subst; congruence|reflexivity].
Qed.

Theorem dont_care_strings_set : forall vs v,
  vec_mem v (care_of_strings (dont_care_strings vs)) = vec_mem v vs.
Proof.
  intros vs v. rewrite <- memb_care. unfold dont_care_strings.
  rewrite <- (memb_perm _ _ _ (py_sorted_strs_perm _)), py_set_of_list_memb. apply memb_map_bits.
Qed.

Corollary dont_care_strings_same_set : forall vs,
  same_vector_set vs (care_of_strings (dont_care_strings vs)) = true.
Proof.
  intros vs. unfold same_vector_set. apply andb_true_iff. split; apply forallb_forall; intros v Hv.
  - rewrite dont_care_strings_set. unfold vec_mem. apply existsb_exists. exists v. split; [exact Hv|apply vec_eqb_eq; reflexivity].
  - rewrite <- dont_care_strings_set. unfold vec_mem. apply existsb_exists. exists v. split; [exact Hv|apply vec_eqb_eq; reflexivity].
Qed.
