(* C07, part 2: the scheduling loops of the bit counters (add_sum_n_bits in both bases,
   add_sum_n_bits_easy) by loop invariants over the values in the final circuit:
     "sum over the current level + 2 * sum over the next level (+ emitted bits) = target",
   pairs (x, x xor y) counted as x + y ([gsum], Proofs/ArithSumCells.v). *)
Require Import Cirbo.Model.Base Cirbo.Model.Gate Cirbo.Model.Den Cirbo.Model.Circuit
  Cirbo.Model.Eval Cirbo.Model.Sem Cirbo.Model.Builder.
Require Import Cirbo.Generated.ArithTables Cirbo.Generated.ArithCells.
Require Import Cirbo.Model.ArithSub Cirbo.Model.ArithSum2 Cirbo.Model.ArithSumN.
Require Import Cirbo.Proofs.DictFacts Cirbo.Proofs.BuilderFacts Cirbo.Proofs.ArithFacts
  Cirbo.Proofs.ArithSumCells.
Open Scope Z_scope.

(* ---- the sum3 / sum2 loop on one level ------------------------------------------------------- *)
Lemma solo_loop_spec T n3 n2 cell3 cell2 :
  cell3_spec T n3 cell3 -> cell2_spec T n2 cell2 ->
  forall fresh rest top next s r s',
    run fresh (solo_loop cell3 cell2 top rest next) s = Ok (r, s') ->
    outputs (bc s') = outputs (bc s) /\
    (exists k3 k2, adds T (bc s) (bc s') (n3 * k3 + n2 * k2) /\ (k2 <= 1)%nat /\
                   length rest = (2 * k3 + k2)%nat /\ length (snd r) = (length next + k3 + k2)%nat) /\
    forall c, ext (bc s') c -> forall asg vt R Nx,
      bval c asg top vt -> gsum (vsolo c asg) rest R -> gsum (vsolo c asg) next Nx ->
      exists vr Nx', bval c asg (fst r) vr /\ gsum (vsolo c asg) (snd r) Nx' /\
                     Z.b2z vt + R + 2 * Nx = Z.b2z vr + 2 * Nx'.
Proof.
  intros C3 C2 fresh rest. induction rest as [|b|b d rest IH] using list_ind2; intros top next s r s' H.
  - apply run_ret_inv in H as (-> & ->). split; [reflexivity|]. split.
    + exists 0%nat, 0%nat. rewrite !Nat.mul_0_r. simpl. repeat split; [apply adds_refl|lia|lia].
    + intros c Hc asg vt R Nx Vt HR HN. apply gsum_inv_nil in HR as ->.
      exists vt, Nx. simpl. repeat split; auto. lia.
  - cbn [solo_loop] in H.
    apply run_bind_inv in H as (r1 & s1 & Hcell & H).
    apply run_bind_inv in H as (xy & s2 & Hun & H).
    apply unpack2_inv in Hun as (-> & ->). apply run_ret_inv in H as (-> & ->).
    apply C2 in Hcell as (x & y & E & O & A & V). injection E as <- <-.
    split; [exact O|]. split.
    + exists 0%nat, 1%nat. repeat split; [eapply adds_eq; [exact A|lia]|lia|simpl; lia].
    + intros c Hc asg vt R Nx Vt HR HN. cbn [fst snd].
      apply gsum_inv_cons in HR as (vb & t0 & (bb & Vb & ->) & HR & ->). apply gsum_inv_nil in HR as ->.
      destruct (V c Hc asg _ _ Vt Vb) as (vx & vy & Vx & Vy & E).
      exists vx, (Z.b2z vy + Nx). repeat split; [exact Vx|constructor; [apply vsolo_intro, Vy|exact HN]|lia].
  - cbn [solo_loop] in H.
    apply run_bind_inv in H as (r1 & s1 & Hcell & H).
    apply run_bind_inv in H as (xy & s2 & Hun & H).
    apply unpack2_inv in Hun as (-> & ->).
    pose proof (run_ext _ _ _ _ _ H) as Hrec.
    apply C3 in Hcell as (x & y & E & O & A & V). injection E as <- <-.
    apply IH in H as (O' & (k3 & k2 & A' & K2 & L & L') & V').
    split; [congruence|]. split.
    + exists (S k3), k2. repeat split; [|exact K2|simpl length; lia|simpl length in L'; lia].
      eapply adds_eq; [eapply adds_trans; [exact A|exact A']|lia].
    + intros c Hc asg vt R Nx Vt HR HN.
      apply gsum_inv_cons in HR as (vb & t0 & (bb & Vb & ->) & HR & ->).
      apply gsum_inv_cons in HR as (vd & t1 & (bd & Vd & ->) & HR & ->).
      assert (ext (bc s1) c) as Hc1 by (eapply ext_trans; eassumption).
      destruct (V c Hc1 asg _ _ _ Vt Vb Vd) as (vx & vy & Vx & Vy & E).
      destruct (V' c Hc asg vx t1 (Z.b2z vy + Nx) Vx HR) as (vr & Nx' & Vr & HN' & E').
      { constructor; [apply vsolo_intro, Vy|exact HN]. }
      exists vr, Nx'. repeat split; auto. lia.
Qed.

(* cost of one level against the drop in the number of pending bits: whenever the two cells
   satisfy n3 <= 2 * a - 3 ... this is what the documented bounds rest on *)
Lemma level_cost a n3 n2 k3 k2 :
  (k2 <= 1)%nat -> (n3 + 3 <= a + a)%nat -> (n3 <= a)%nat -> (n2 + 3 <= a)%nat ->
  (n3 * k3 + n2 * k2 + 3 <= a * k3 + a)%nat.
Proof. intros. destruct k2 as [|[|k2]]; [destruct k3; nia|nia|lia]. Qed.

(* ---- all levels: add_sum_n_bits_easy, _add_sum_n_bits_aig --------------------------------------- *)
(* gates <= a * n - 3 * m  for a = 7 (AIG cells) and a = 5 (XAIG cells) *)
Lemma level_loop_spec T n3 n2 a cell3 cell2 :
  cell3_spec T n3 cell3 -> cell2_spec T n2 cell2 ->
  (n3 + 3 <= a + a)%nat -> (n3 <= a)%nat -> (n2 + 3 <= a)%nat ->
  forall fresh fuel now s rs s',
    run fresh (level_loop fuel cell3 cell2 now) s = Ok (rs, s') ->
    outputs (bc s') = outputs (bc s) /\
    (exists g, adds T (bc s) (bc s') g /\ (g + 3 * length rs <= a * length now)%nat) /\
    forall c, ext (bc s') c -> forall asg S0, gsum (vsolo c asg) now S0 ->
      exists rv, bvals c asg rs rv /\ bits_val rv = S0.
Proof.
  intros C3 C2 A1 A2 A3 fresh fuel. induction fuel as [|f IH]; intros now s rs s' H.
  - destruct now; [|discriminate]. apply run_ret_inv in H as (-> & ->).
    split; [reflexivity|]. split; [exists 0%nat; split; [apply adds_refl|simpl; lia]|].
    intros c _ asg S0 H0. apply gsum_inv_nil in H0 as ->. exists []. split; [constructor|reflexivity].
  - destruct now as [|top rest].
    { apply run_ret_inv in H as (-> & ->).
      split; [reflexivity|]. split; [exists 0%nat; split; [apply adds_refl|simpl; lia]|].
      intros c _ asg S0 H0. apply gsum_inv_nil in H0 as ->. exists []. split; [constructor|reflexivity]. }
    cbn [level_loop] in H.
    apply run_bind_inv in H as (r & s1 & Hl & H).
    apply run_bind_inv in H as (rs1 & s2 & Hrec & H).
    apply run_ret_inv in H as (-> & ->).
    pose proof (run_ext _ _ _ _ _ Hrec) as Hxrec.
    apply (solo_loop_spec _ _ _ _ _ C3 C2) in Hl as (O1 & (k3 & k2 & Ad1 & K2 & L & L') & V1).
    apply IH in Hrec as (O2 & (g & Ad2 & B2) & V2).
    split; [congruence|]. split.
    + eexists. split; [eapply adds_trans; eassumption|].
      simpl length in *. pose proof (level_cost a n3 n2 k3 k2 K2 A1 A2 A3). rewrite L, L' in *. nia.
    + intros c Hc asg S0 H0.
      apply gsum_inv_cons in H0 as (vt & R & (bt & Vt & ->) & HR & ->).
      assert (ext (bc s1) c) as Hc1 by (eapply ext_trans; eassumption).
      destruct (V1 c Hc1 asg bt R 0 Vt HR (gsum_nil _)) as (vr & Nx' & Vr & HN' & E).
      destruct (V2 c Hc asg Nx' HN') as (rv & Vrv & Erv).
      exists (vr :: rv). split; [constructor; assumption|]. rewrite bits_val_cons, Erv. lia.
Qed.

(* ---- the XAIG scheduler ----------------------------------------------------------------------- *)
Lemma pair_up_spec fresh solo : forall xxy s r s',
  run fresh (pair_up solo xxy) s = Ok (r, s') ->
  outputs (bc s') = outputs (bc s) /\ (exists g, adds t_xaig (bc s) (bc s') g) /\
  forall c, ext (bc s') c -> forall asg S0 P0,
    gsum (vsolo c asg) solo S0 -> gsum (vpair c asg) xxy P0 ->
    exists S1 P1, gsum (vsolo c asg) (fst r) S1 /\ gsum (vpair c asg) (snd r) P1 /\ S0 + P0 = S1 + P1.
Proof.
  induction solo as [|a|a b rest IH] using list_ind2; intros xxy s r s' H.
  - apply run_ret_inv in H as (-> & ->). split; [reflexivity|]. split; [exists 0%nat; apply adds_refl|].
    intros c _ asg S0 P0 HS HP. exists S0, P0. auto.
  - apply run_ret_inv in H as (-> & ->). split; [reflexivity|]. split; [exists 0%nat; apply adds_refl|].
    intros c _ asg S0 P0 HS HP. exists S0, P0. auto.
  - cbn [pair_up] in H. apply gate_tt_bind2 in H as (xy & s1 & H & Hx1 & Ht1 & O1 & G1).
    pose proof (run_ext _ _ _ _ _ H) as Hrec.
    apply IH in H as (O2 & (g & A2) & V2).
    split; [congruence|]. split.
    + eexists. eapply adds_trans; [eapply (adds_one t_xaig); [exact G1|reflexivity]|exact A2].
    + intros c Hc asg S0 P0 HS HP.
      apply gsum_inv_cons in HS as (va & t0 & (ba & Va & ->) & HS & ->).
      apply gsum_inv_cons in HS as (vb & t1 & (bb & Vb & ->) & HS & ->).
      assert (ext (bc s1) c) as Hc1 by (eapply ext_trans; eassumption).
      apply (has_tt_ext _ _ _ _ _ _ Hc1) in Ht1.
      pose proof (has_tt_val _ _ _ _ _ _ _ _ Ht1 Va Vb) as Vxy.
      destruct (V2 c Hc asg t1 (Z.b2z ba + Z.b2z (xorb ba (tt_fun tt_xor ba bb)) + P0) HS) as (S1 & P1 & H1 & H2 & E).
      { constructor; [apply vpair_intro; assumption|exact HP]. }
      exists S1, P1. repeat split; auto. rewrite <- E. destruct ba, bb; simpl; lia.
Qed.

Lemma mdfa_loop_spec fresh xxy : forall solo nx s r s',
  run fresh (mdfa_loop xxy solo nx) s = Ok (r, s') ->
  outputs (bc s') = outputs (bc s) /\ (exists g, adds t_xaig (bc s) (bc s') g) /\
  forall c, ext (bc s') c -> forall asg P0 S0 N0,
    gsum (vpair c asg) xxy P0 -> gsum (vsolo c asg) solo S0 -> gsum (vpair c asg) nx N0 ->
    exists P1 S1 N1, gsum (vpair c asg) (fst (fst r)) P1 /\ gsum (vsolo c asg) (snd (fst r)) S1 /\
                     gsum (vpair c asg) (snd r) N1 /\ P0 + S0 + 2 * N0 = P1 + S1 + 2 * N1.
Proof.
  induction xxy as [|p|[x1 xy1] [x2 xy2] rest IH] using list_ind2; intros solo nx s r s' H.
  - apply run_ret_inv in H as (-> & ->). split; [reflexivity|]. split; [exists 0%nat; apply adds_refl|].
    intros c _ asg P0 S0 N0 HP HS HN. exists P0, S0, N0. auto.
  - destruct p as [x xy]. apply run_ret_inv in H as (-> & ->).
    split; [reflexivity|]. split; [exists 0%nat; apply adds_refl|].
    intros c _ asg P0 S0 N0 HP HS HN. exists P0, S0, N0. auto.
  - cbn [mdfa_loop] in H. destruct solo as [|z solo'].
    + apply run_bind_inv in H as (r1 & s1 & Hcell & H).
      apply run_bind_inv in H as ([[z' a] ab] & s2 & Hun & H).
      apply unpack3_inv in Hun as (-> & ->). cbn [fst snd] in *.
      pose proof (run_ext _ _ _ _ _ H) as Hrec.
      apply add_simplified_mdfa_cell in Hcell as (z0 & a0 & ab0 & E & O1 & A1 & V1). injection E as <- <- <-.
      apply IH in H as (O2 & (g & A2) & V2).
      split; [congruence|]. split; [eexists; eapply adds_trans; eassumption|].
      intros c Hc asg P0 S0 N0 HP HS HN.
      apply gsum_inv_cons in HP as (v1 & t0 & (b1 & w1 & Vx1 & Vxy1 & ->) & HP & ->).
      apply gsum_inv_cons in HP as (v2 & t1 & (b2 & w2 & Vx2 & Vxy2 & ->) & HP & ->).
      apply gsum_inv_nil in HS as ->. cbn [fst snd] in *.
      assert (ext (bc s1) c) as Hc1 by (eapply ext_trans; eassumption).
      destruct (V1 c Hc1 asg _ _ _ _ Vx1 Vxy1 Vx2 Vxy2) as (uz & ua & uab & Vz & Va & Vab & E).
      destruct (V2 c Hc asg t1 (Z.b2z uz) (Z.b2z ua + Z.b2z (xorb ua uab) + N0) HP) as (P1 & S1 & N1 & H1 & H2 & H3 & E').
      { apply gsum_single, vsolo_intro, Vz. }
      { constructor; [apply vpair_intro; assumption|exact HN]. }
      exists P1, S1, N1. repeat split; auto. lia.
    + apply run_bind_inv in H as (r1 & s1 & Hcell & H).
      apply run_bind_inv in H as ([[z' a] ab] & s2 & Hun & H).
      apply unpack3_inv in Hun as (-> & ->). cbn [fst snd] in *.
      pose proof (run_ext _ _ _ _ _ H) as Hrec.
      apply add_mdfa_cell in Hcell as (z0 & a0 & ab0 & E & O1 & A1 & V1). injection E as <- <- <-.
      apply IH in H as (O2 & (g & A2) & V2).
      split; [congruence|]. split; [eexists; eapply adds_trans; eassumption|].
      intros c Hc asg P0 S0 N0 HP HS HN.
      apply gsum_inv_cons in HP as (v1 & t0 & (b1 & w1 & Vx1 & Vxy1 & ->) & HP & ->).
      apply gsum_inv_cons in HP as (v2 & t1 & (b2 & w2 & Vx2 & Vxy2 & ->) & HP & ->).
      apply gsum_inv_cons in HS as (vz & S0' & (bz & Vz0 & ->) & HS & ->). cbn [fst snd] in *.
      assert (ext (bc s1) c) as Hc1 by (eapply ext_trans; eassumption).
      destruct (V1 c Hc1 asg _ _ _ _ _ Vz0 Vx1 Vxy1 Vx2 Vxy2) as (uz & ua & uab & Vz & Va & Vab & E).
      destruct (V2 c Hc asg t1 (Z.b2z uz + S0') (Z.b2z ua + Z.b2z (xorb ua uab) + N0) HP) as (P1 & S1 & N1 & H1 & H2 & H3 & E').
      { constructor; [apply vsolo_intro, Vz|exact HS]. }
      { constructor; [apply vpair_intro; assumption|exact HN]. }
      exists P1, S1, N1. repeat split; auto. lia.
Qed.

Lemma last_pair_spec fresh xxy solo s r s' :
  run fresh (last_pair xxy solo) s = Ok (r, s') ->
  outputs (bc s') = outputs (bc s) /\ (exists g, adds t_xaig (bc s) (bc s') g) /\
  forall c, ext (bc s') c -> forall asg P0 S0,
    gsum (vpair c asg) xxy P0 -> gsum (vsolo c asg) solo S0 -> (length xxy <= 1)%nat ->
    exists S1 N1, gsum (vsolo c asg) (fst r) S1 /\ gsum (vsolo c asg) (snd r) N1 /\ P0 + S0 = S1 + 2 * N1.
Proof.
  intros H. unfold last_pair in H.
  destruct xxy as [|[x xy] [|p rest]].
  - apply run_ret_inv in H as (-> & ->). split; [reflexivity|]. split; [exists 0%nat; apply adds_refl|].
    intros c _ asg P0 S0 HP HS _. apply gsum_inv_nil in HP as ->. exists S0, 0. repeat split; [exact HS|constructor|lia].
  - destruct solo as [|z solo'].
    + apply gate_tt_bind2 in H as (g & s1 & H & Hx1 & Ht1 & O1 & G1). apply run_ret_inv in H as (-> & ->).
      split; [exact O1|]. split; [eexists; eapply (adds_one t_xaig); [exact G1|reflexivity]|].
      intros c Hc asg P0 S0 HP HS _. apply gsum_inv_nil in HS as ->.
      apply gsum_inv_cons in HP as (v1 & t0 & (b1 & w1 & Vx & Vxy & ->) & HP & ->). apply gsum_inv_nil in HP as ->.
      cbn [fst snd] in *. apply (has_tt_ext _ _ _ _ _ _ Hc) in Ht1.
      pose proof (has_tt_val _ _ _ _ _ _ _ _ Ht1 Vx Vxy) as Vg.
      exists (Z.b2z w1), (Z.b2z (tt_fun tt_gt b1 w1)).
      repeat split; [apply gsum_single, vsolo_intro, Vxy|apply gsum_single, vsolo_intro, Vg|].
      destruct b1, w1; simpl; lia.
    + apply run_bind_inv in H as (r1 & s1 & Hcell & H).
      apply run_bind_inv in H as (wy & s2 & Hun & H).
      apply unpack2_inv in Hun as (-> & ->). apply run_ret_inv in H as (-> & ->).
      apply add_stockmeyer_block_cell in Hcell as (w0 & w1 & E & O1 & A1 & V1). injection E as <- <-.
      split; [exact O1|]. split; [eexists; exact A1|].
      intros c Hc asg P0 S0 HP HS _.
      apply gsum_inv_cons in HP as (v1 & t0 & (b1 & bxy & Vx & Vxy & ->) & HP & ->). apply gsum_inv_nil in HP as ->.
      apply gsum_inv_cons in HS as (vz & S0' & (bz & Vz & ->) & HS & ->). cbn [fst snd] in *.
      destruct (V1 c Hc asg _ _ _ Vz Vx Vxy) as (v0 & vc & V0 & Vc & E).
      exists (Z.b2z v0 + S0'), (Z.b2z vc).
      repeat split; [constructor; [apply vsolo_intro, V0|exact HS]|apply gsum_single, vsolo_intro, Vc|lia].
  - apply run_ret_inv in H as (-> & ->). split; [reflexivity|]. split; [exists 0%nat; apply adds_refl|].
    intros c _ asg P0 S0 _ _ L. simpl in L. lia.
Qed.

Lemma mdfa_loop_length fresh xxy : forall solo nx s r s',
  run fresh (mdfa_loop xxy solo nx) s = Ok (r, s') -> (length (fst (fst r)) <= 1)%nat.
Proof.
  induction xxy as [|p|[x1 xy1] [x2 xy2] rest IH] using list_ind2; intros solo nx s r s' H.
  - apply run_ret_inv in H as (-> & ->). simpl. lia.
  - destruct p. apply run_ret_inv in H as (-> & ->). simpl. lia.
  - cbn [mdfa_loop] in H. destruct solo as [|z solo'];
      apply run_bind_inv in H as (r1 & s1 & Hcell & H);
      apply run_bind_inv in H as ([[z' a] ab] & s2 & Hun & H);
      apply IH in H; exact H.
Qed.

(* one level of the XAIG scheduler: value of the level = emitted bit + 2 * value of the next level *)
Lemma xaig_level_spec fresh solo xxy s r s' :
  run fresh (xaig_level solo xxy) s = Ok (r, s') ->
  outputs (bc s') = outputs (bc s) /\ (exists g, adds t_xaig (bc s) (bc s') g) /\
  forall c, ext (bc s') c -> forall asg S0 P0,
    gsum (vsolo c asg) solo S0 -> gsum (vpair c asg) xxy P0 ->
    exists vr S1 P1, bval c asg (fst (fst r)) vr /\ gsum (vsolo c asg) (snd (fst r)) S1 /\
                     gsum (vpair c asg) (snd r) P1 /\ S0 + P0 = Z.b2z vr + 2 * (S1 + P1).
Proof.
  intros H. unfold xaig_level in H.
  apply run_bind_inv in H as ([[xxy1 solo1] nxxy] & s1 & Hm & H).
  apply run_bind_inv in H as ([solo2 nsolo] & s2 & Hl & H).
  destruct solo2 as [|top rest]; [discriminate|].
  apply run_bind_inv in H as (r3 & s3 & Hs & H). apply run_ret_inv in H as (-> & ->).
  pose proof (run_ext _ _ _ _ _ Hl) as Hx2. pose proof (run_ext _ _ _ _ _ Hs) as Hx3.
  pose proof (mdfa_loop_length _ _ _ _ _ _ _ Hm) as Len. cbn [fst snd] in Len.
  apply mdfa_loop_spec in Hm as (O1 & (g1 & A1) & V1). cbn [fst snd] in V1.
  apply last_pair_spec in Hl as (O2 & (g2 & A2) & V2). cbn [fst snd] in V2.
  apply (solo_loop_spec _ _ _ _ _ add_sum3_cell add_sum2_cell) in Hs as (O3 & (k3 & k2 & A3 & _) & V3).
  split; [congruence|]. split; [eexists; eapply adds_trans; [eapply adds_trans; eassumption|exact A3]|].
  intros c Hc asg S0 P0 HS HP. cbn [fst snd].
  assert (ext (bc s2) c) as Hc2 by (eapply ext_trans; eassumption).
  assert (ext (bc s1) c) as Hc1 by (eapply ext_trans; eassumption).
  destruct (V1 c Hc1 asg P0 S0 0 HP HS (gsum_nil _)) as (Pa & Sa & Na & HPa & HSa & HNa & Ea).
  destruct (V2 c Hc2 asg Pa Sa HPa HSa Len) as (Sb & Nb & HSb & HNb & Eb).
  apply gsum_inv_cons in HSb as (vt & R & (bt & Vt & ->) & HR & ->).
  destruct (V3 c Hc asg bt R Nb Vt HR HNb) as (vr & Nc & Vr & HNc & Ec).
  exists vr, Nc, Na. repeat split; auto. lia.
Qed.

Lemma xaig_loop_spec fresh fuel : forall solo xxy s rs s',
  run fresh (xaig_loop fuel solo xxy) s = Ok (rs, s') ->
  outputs (bc s') = outputs (bc s) /\ (exists g, adds t_xaig (bc s) (bc s') g) /\
  forall c, ext (bc s') c -> forall asg S0 P0,
    gsum (vsolo c asg) solo S0 -> gsum (vpair c asg) xxy P0 ->
    exists rv, bvals c asg rs rv /\ bits_val rv = S0 + P0.
Proof.
  assert (Hnil : forall s rs s', run fresh (Ret (@nil label)) s = Ok (rs, s') ->
    outputs (bc s') = outputs (bc s) /\ (exists g, adds t_xaig (bc s) (bc s') g) /\
    forall c, ext (bc s') c -> forall asg S0 P0,
      gsum (vsolo c asg) [] S0 -> gsum (vpair c asg) [] P0 ->
      exists rv, bvals c asg rs rv /\ bits_val rv = S0 + P0).
  { intros s rs s' H. apply run_ret_inv in H as (-> & ->).
    split; [reflexivity|]. split; [exists 0%nat; apply adds_refl|].
    intros c _ asg S0 P0 HS HP. apply gsum_inv_nil in HS as ->. apply gsum_inv_nil in HP as ->.
    exists []. split; [constructor|reflexivity]. }
  induction fuel as [|f IH]; intros solo xxy s rs s' H.
  - destruct solo, xxy; try discriminate. apply Hnil, H.
  - assert (Hstep : run fresh (bdo st <- xaig_level solo xxy;
                               let '(r, next_solo, next_xxy) := st in
                               bdo rs <- xaig_loop f next_solo next_xxy; Ret (r :: rs)) s = Ok (rs, s') ->
      outputs (bc s') = outputs (bc s) /\ (exists g, adds t_xaig (bc s) (bc s') g) /\
      forall c, ext (bc s') c -> forall asg S0 P0,
        gsum (vsolo c asg) solo S0 -> gsum (vpair c asg) xxy P0 ->
        exists rv, bvals c asg rs rv /\ bits_val rv = S0 + P0).
    { clear H. intros H.
      apply run_bind_inv in H as ([[r ns] nx] & s1 & Hl & H).
      apply run_bind_inv in H as (rs1 & s2 & Hrec & H). apply run_ret_inv in H as (-> & ->).
      pose proof (run_ext _ _ _ _ _ Hrec) as Hxrec.
      apply xaig_level_spec in Hl as (O1 & (g1 & A1) & V1). cbn [fst snd] in V1.
      apply IH in Hrec as (O2 & (g2 & A2) & V2).
      split; [congruence|]. split; [eexists; eapply adds_trans; eassumption|].
      intros c Hc asg S0 P0 HS HP.
      assert (ext (bc s1) c) as Hc1 by (eapply ext_trans; eassumption).
      destruct (V1 c Hc1 asg S0 P0 HS HP) as (vr & S1 & P1 & Vr & HS1 & HP1 & E).
      destruct (V2 c Hc asg S1 P1 HS1 HP1) as (rv & Vrv & Erv).
      exists (vr :: rv). split; [constructor; assumption|]. rewrite bits_val_cons, Erv. lia. }
    destruct solo, xxy; [apply Hnil, H|apply Hstep, H..].
Qed.

(* ---- _add_sum_n_bits, _add_sum_n_bits_aig, add_sum_n_bits_easy -------------------------------- *)
Theorem add_sum_n_bits_xaig_spec fresh xs s rs s' :
  run fresh (add_sum_n_bits_xaig xs) s = Ok (rs, s') ->
  outputs (bc s') = outputs (bc s) /\ (exists g, adds t_xaig (bc s) (bc s') g) /\
  forall c, ext (bc s') c -> forall asg xv, bvals c asg xs xv ->
    exists rv, bvals c asg rs rv /\ bits_val rv = ones xv.
Proof.
  unfold add_sum_n_bits_xaig. intros H.
  apply run_bind_inv in H as (st & s1 & Hp & H).
  pose proof (run_ext _ _ _ _ _ H) as Hx2.
  apply pair_up_spec in Hp as (O1 & (g1 & A1) & V1).
  apply xaig_loop_spec in H as (O2 & (g2 & A2) & V2).
  split; [congruence|]. split; [eexists; eapply adds_trans; eassumption|].
  intros c Hc asg xv Hxv.
  assert (ext (bc s1) c) as Hc1 by (eapply ext_trans; eassumption).
  destruct (V1 c Hc1 asg (ones xv) 0) as (S1 & P1 & HS1 & HP1 & E).
  { apply gsum_rev, bvals_gsum, Hxv. } { constructor. }
  destruct (V2 c Hc asg S1 P1 HS1 HP1) as (rv & Vrv & Erv).
  exists rv. split; [exact Vrv|lia].
Qed.

Theorem add_sum_n_bits_aig_spec fresh xs s rs s' :
  run fresh (add_sum_n_bits_aig xs) s = Ok (rs, s') ->
  outputs (bc s') = outputs (bc s) /\
  (exists g, adds t_aig (bc s) (bc s') g /\ (g + 3 * length rs <= 7 * length xs)%nat) /\
  forall c, ext (bc s') c -> forall asg xv, bvals c asg xs xv ->
    exists rv, bvals c asg rs rv /\ bits_val rv = ones xv.
Proof.
  unfold add_sum_n_bits_aig. intros H.
  apply (level_loop_spec t_aig 7 3 7 _ _ add_sum3_aig_cell add_sum2_aig_cell) in H as (O & (g & A & Bd) & V);
    [|lia..].
  split; [exact O|]. split; [exists g; split; [exact A|rewrite rev_length in Bd; exact Bd]|].
  intros c Hc asg xv Hxv. apply V; [exact Hc|]. apply gsum_rev, bvals_gsum, Hxv.
Qed.

Theorem add_sum_n_bits_easy_spec fresh be xs s rs s' :
  run fresh (add_sum_n_bits_easy be xs) s = Ok (rs, s') ->
  outputs (bc s') = outputs (bc s) /\
  (exists g, adds t_xaig (bc s) (bc s') g /\ (g + 3 * length rs <= 5 * length xs)%nat) /\
  forall c, ext (bc s') c -> forall asg xv, bvals c asg xs xv ->
    exists rv, bvals c asg rs rv /\ decode be rv = ones xv.
Proof.
  unfold add_sum_n_bits_easy. intros H.
  apply run_bind_inv in H as (r & s1 & H & Hr). apply run_ret_inv in Hr as (-> & ->).
  apply (level_loop_spec t_xaig 5 2 5 _ _ add_sum3_cell add_sum2_cell) in H as (O & (g & A & Bd) & V);
    [|lia..].
  split; [exact O|]. split.
  - exists g. split; [exact A|]. rewrite rev_length, !rev_if_length in *. exact Bd.
  - intros c Hc asg xv Hxv. destruct (V c Hc asg (ones xv)) as (rv & Vrv & Erv).
    { apply gsum_rev. eapply gsum_eq; [apply bvals_gsum, bvals_rev_if, Hxv|apply ones_rev_if]. }
    exists (rev_if be rv). split; [apply bvals_rev_if, Vrv|]. rewrite decode_rev_if. exact Erv.
Qed.
