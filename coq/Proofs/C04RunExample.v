(* C04: a concrete recorded run of minimize_subcircuits with two events (harness/patcorr.py,
   seed 0: basis with LNOT; an output equal to the cut leaf z_81 is merged into it, then the cone
   of the two remaining gates is replaced by a smaller one).  check_run accepts it; it rejects
   the same record when an event is missing, when the returned circuit was edited after the last
   event, and when the events are listed in the wrong order. *)
Require Import Cirbo.Model.Base Cirbo.Model.Gate Cirbo.Model.Circuit Cirbo.Model.Eval Cirbo.Model.History
        Cirbo.Model.WF Cirbo.Model.SubcircuitValidator Cirbo.Model.PatCases Cirbo.Model.SubcircuitRun.
Require Import Cirbo.Proofs.WFSound Cirbo.Proofs.C04Run.

(* the argument circuit: outputs T61 = NAND(in_17, T0) and z_83 = NXOR(in_17, z_81) *)
Definition c04_run_c0 : circuit :=
  mkCircuit ["n30"; "z_81"] ["T61"; "z_83"]
    [("n30", mkGate INPUT []); ("z_81", mkGate INPUT []); ("T0", mkGate XOR ["n30"; "z_81"]);
     ("in_17", mkGate NAND ["n30"; "T0"; "z_81"]); ("T61", mkGate NAND ["in_17"; "T0"]);
     ("z_83", mkGate NXOR ["in_17"; "z_81"]); ("x41", mkGate NXOR ["T0"; "in_17"])]
    [("n30", ["T0"; "in_17"]); ("z_81", ["T0"; "in_17"; "z_83"]); ("T0", ["in_17"; "T61"; "x41"]);
     ("in_17", ["T61"; "z_83"; "x41"])] [].

(* after the merge of the output z_83 (equal to the leaf z_81 over the cut z_81, n30) *)
Definition c04_run_c1 : circuit :=
  mkCircuit ["n30"; "z_81"] ["T61"; "z_81"]
    [("n30", mkGate INPUT []); ("z_81", mkGate INPUT []); ("T0", mkGate XOR ["n30"; "z_81"]);
     ("in_17", mkGate NAND ["n30"; "T0"; "z_81"]); ("T61", mkGate NAND ["in_17"; "T0"]);
     ("x41", mkGate NXOR ["T0"; "in_17"])]
    [("n30", ["T0"; "in_17"]); ("z_81", ["T0"; "in_17"]); ("T0", ["in_17"; "T61"; "x41"]);
     ("in_17", ["T61"; "x41"])] [].

(* after the replacement of the cone of x41, T61 over the same cut: the returned circuit *)
Definition c04_run_c2 : circuit :=
  mkCircuit ["n30"; "z_81"] ["T61"; "z_81"]
    [("n30", mkGate INPUT []); ("z_81", mkGate INPUT []); ("T0", mkGate LNOT ["z_81"; "n30"]);
     ("x41", mkGate NXOR ["n30"; "T0"]); ("T61", mkGate NOT ["x41"])]
    [("n30", ["T0"; "x41"]); ("z_81", ["T0"]); ("T0", ["x41"]); ("x41", ["T61"])] [].

Definition c04_run_merge : run_event :=
  EvMerge (c04_run_c0, c04_run_c1, ["z_81"; "n30"], "z_83", "z_81", None).
Definition c04_run_replace : run_event :=
  EvReplace (c04_run_c1, c04_run_c2, ["z_81"; "n30"], ["x41"; "T61"], None).
Definition c04_run_events : list run_event := [c04_run_merge; c04_run_replace].

(* an unrecorded edit right before `return`: the two outputs swapped *)
Definition c04_run_c2_edited : circuit :=
  mkCircuit (inputs c04_run_c2) ["z_81"; "T61"] (gates c04_run_c2) (users c04_run_c2) (blocks c04_run_c2).

Lemma c04_run_accepted :
  WF c04_run_c0 /\ arity_ok c04_run_c0 /\
  length c04_run_events = 2 /\
  check_run c04_run_c0 c04_run_events c04_run_c2 = true /\
  check_run_closed c04_run_c0 c04_run_events c04_run_c2 = true /\
  get_truth_table c04_run_c0 = Ok [[T; F; F; T]; [F; T; F; T]] /\
  get_truth_table c04_run_c2 = Ok [[T; F; F; T]; [F; T; F; T]].
Proof.
  split; [apply wfb_sound; vm_compute; reflexivity|].
  split; [apply run_arity_okb_sound; vm_compute; reflexivity|].
  repeat split; vm_compute; reflexivity.
Qed.

Lemma c04_run_rejected :
  (* an event is missing: the first recorded event does not start from the argument circuit *)
  check_run c04_run_c0 [c04_run_replace] c04_run_c2 = false /\
  (* the last recorded state is not the returned circuit *)
  check_run c04_run_c0 [c04_run_merge] c04_run_c2 = false /\
  check_run c04_run_c0 c04_run_events c04_run_c2_edited = false /\
  (* wrong order *)
  check_run c04_run_c0 [c04_run_replace; c04_run_merge] c04_run_c2 = false /\
  (* no event at all: the returned circuit must be the argument *)
  check_run c04_run_c0 [] c04_run_c2 = false /\ check_run c04_run_c0 [] c04_run_c0 = true /\
  (* although every single event is accepted by its validator *)
  check_event c04_run_merge = true /\ check_event c04_run_replace = true.
Proof. repeat split; vm_compute; reflexivity. Qed.
