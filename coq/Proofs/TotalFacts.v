(* Normal termination ("the generator works") of builder programs: the primitives return Ok
   when their operands exist and their label is new; the fresh-label retry loop succeeds within
   its fuel whenever the naming function is injective (pigeonhole); short_label is injective. *)
Require Import Cirbo.Model.Base Cirbo.Model.Gate Cirbo.Model.Circuit Cirbo.Model.Builder.
Require Import Cirbo.Generated.ArithTables.
Require Import Cirbo.Proofs.DictFacts Cirbo.Proofs.BuilderFacts Cirbo.Proofs.ArithFacts.
Require Import Coq.Logic.FinFun.

(* ---- the retry loop ---------------------------------------------------------------------- *)
Definition blocked (c : circuit) (restr : list label) : list label := dkeys (gates c) ++ restr.

Lemma blocked_spec c restr l :
  has_gate c l || memb l restr = true <-> In l (blocked c restr).
Proof.
  unfold blocked, has_gate. rewrite orb_true_iff, in_app_iff, dmem_keys, memb_In. tauto.
Qed.

Lemma fresh_loop_err fresh c restr : forall fuel k e,
  fresh_loop fresh c restr fuel k = Err e ->
  forall j, (j < fuel)%nat -> In (fresh (k + N.of_nat j)%N) (blocked c restr).
Proof.
  induction fuel as [|f IH]; intros k e H j Hj; [lia|]. cbn [fresh_loop] in H.
  destruct (has_gate c (fresh k) || memb (fresh k) restr) eqn:E; [|discriminate].
  destruct j as [|j].
  - rewrite N.add_0_r. apply blocked_spec, E.
  - replace (k + N.of_nat (S j))%N with (N.succ k + N.of_nat j)%N by lia.
    eapply IH; [exact H|lia].
Qed.

Definition fresh_total (fresh : N -> label) : Prop :=
  forall c restr k, exists l k', fresh_loop fresh c restr (fresh_fuel c restr) k = Ok (l, k').

Theorem injective_fresh_total fresh : Injective fresh -> fresh_total fresh.
Proof.
  intros Hinj c restr k.
  destruct (fresh_loop fresh c restr (fresh_fuel c restr) k) as [[l k']|e] eqn:E; [eauto|].
  exfalso. pose proof (fresh_loop_err _ _ _ _ _ _ E) as Hall.
  set (fuel := fresh_fuel c restr) in *.
  set (cands := map (fun j => fresh (k + N.of_nat j)%N) (seq 0 fuel)).
  assert (NoDup cands) as Hnd.
  { unfold cands. apply Injective_map_NoDup; [|apply seq_NoDup].
    intros a b Hab. apply Hinj in Hab. lia. }
  assert (incl cands (blocked c restr)) as Hincl.
  { intros x Hx. unfold cands in Hx. apply in_map_iff in Hx as (j & <- & Hj).
    apply in_seq in Hj. apply Hall. lia. }
  pose proof (NoDup_incl_length Hnd Hincl) as Hlen.
  unfold cands in Hlen. rewrite map_length, seq_length in Hlen.
  unfold blocked in Hlen. rewrite app_length in Hlen. unfold dkeys in Hlen. rewrite map_length in Hlen.
  unfold fuel, fresh_fuel, size in Hlen. lia.
Qed.

Lemma pos_digits_nonempty p : pos_digits p <> "".
Proof. destruct p; discriminate. Qed.

Lemma pos_digits_inj p : forall q, pos_digits p = pos_digits q -> p = q.
Proof.
  induction p as [p IH|p IH|]; intros q; destruct q as [q|q|]; simpl; intros H;
    try discriminate; try reflexivity;
    try (injection H as H; f_equal; apply IH; exact H);
    injection H as H; exfalso;
    first [apply (pos_digits_nonempty _ H)|apply (pos_digits_nonempty _ (eq_sym H))].
Qed.

Lemma short_label_injective : Injective short_label.
Proof.
  intros [|p] [|q]; unfold short_label; intros H.
  - reflexivity.
  - injection H as H. exfalso. apply (pos_digits_nonempty _ (eq_sym H)).
  - injection H as H. exfalso. apply (pos_digits_nonempty _ H).
  - injection H as H. f_equal. apply pos_digits_inj, H.
Qed.

Corollary short_label_total : fresh_total short_label.
Proof. apply injective_fresh_total, short_label_injective. Qed.

(* ---- the primitives return Ok ------------------------------------------------------------- *)
Lemma bind_ok fresh {A B} (p : prog A) (k : A -> prog B) s a s1 :
  run fresh p s = Ok (a, s1) -> run fresh (Bind p k) s = run fresh (k a) s1.
Proof. intros H. cbn [run]. rewrite H. reflexivity. Qed.

Lemma fresh_ok fresh restr s :
  fresh_total fresh ->
  exists l s', run fresh (Fresh restr) s = Ok (l, s') /\ bc s' = bc s /\
               has_gate (bc s) l = false /\ ~ In l restr.
Proof.
  intros Hf. destruct (Hf (bc s) restr (bk s)) as (l & k' & E).
  exists l, (mkB (bc s) k'). cbn [run]. rewrite E. cbn [bind fst snd].
  apply fresh_loop_inv in E as (H1 & H2 & _). auto.
Qed.

Lemma check_gates_exist_ok' ls c : Forall (fun l => has_gate c l = true) ls -> check_gates_exist ls c = Ok tt.
Proof. apply check_gates_exist_ok. Qed.

Lemma addgate_ok fresh l t ops s :
  t <> INPUT -> has_gate (bc s) l = false -> Forall (fun o => has_gate (bc s) o = true) ops ->
  exists s', run fresh (AddGate l t ops) s = Ok (tt, s') /\ has_gate (bc s') l = true /\ bk s' = bk s.
Proof.
  intros Ht Hl Hops. cbn [run].
  destruct (gtype_beq t INPUT) eqn:E; [apply gtype_beq_eq in E; contradiction|].
  unfold add_gate, emplace_gate, check_label_doesnt_exist. rewrite Hl. cbn [bind].
  rewrite (check_gates_exist_ok' _ _ Hops). cbn [bind].
  eexists. split; [reflexivity|]. split; [|reflexivity]. cbn [bc].
  unfold emplace_gate_raw. rewrite E. unfold has_gate. cbn [gates set_gates].
  rewrite dmem_dset, leqb_refl. reflexivity.
Qed.

Lemma markoutput_ok fresh l s :
  has_gate (bc s) l = true -> exists s', run fresh (MarkOutput l) s = Ok (tt, s').
Proof.
  intros Hl. cbn [run]. unfold mark_as_output. cbn [check_gates_exist]. rewrite Hl. cbn [bind].
  eexists. reflexivity.
Qed.

Lemma gate_new_ok fresh t ops s :
  fresh_total fresh -> t <> INPUT -> Forall (fun o => has_gate (bc s) o = true) ops ->
  exists l s', run fresh (gate_new t ops) s = Ok (l, s') /\ has_gate (bc s') l = true.
Proof.
  intros Hf Ht Hops. unfold gate_new.
  destruct (fresh_ok fresh [] s Hf) as (l & s1 & E1 & Ec & Hl & _).
  rewrite (bind_ok _ _ _ _ _ _ E1).
  destruct (addgate_ok fresh l t ops s1 Ht) as (s2 & E2 & Hl2 & _); [rewrite Ec; exact Hl|rewrite Ec; exact Hops|].
  rewrite (bind_ok _ _ _ _ _ _ E2). exists l, s2. split; [reflexivity|exact Hl2].
Qed.

Lemma gate_tt_ok fresh t x y s :
  fresh_total fresh -> has_gate (bc s) x = true -> has_gate (bc s) y = true ->
  exists l s', run fresh (gate_tt t x y) s = Ok (l, s') /\ has_gate (bc s') l = true.
Proof.
  intros Hf Hx Hy. apply gate_new_ok; [exact Hf|apply binary_tt_to_type_not_input|].
  unfold gate_tt_operands. constructor; [exact Hx|constructor; [exact Hy|constructor]].
Qed.

Definition all_exist (c : circuit) (ls : list label) : Prop := Forall (fun l => has_gate c l = true) ls.

Lemma all_exist_ext c c' ls : ext c c' -> all_exist c ls -> all_exist c' ls.
Proof. intros Hx H. eapply Forall_impl; [|exact H]. intros l; apply ext_has_gate, Hx. Qed.

(* prove  has_gate (bc sk) x = true  from a fact about an earlier state and a chain of runs *)
Ltac has_solve :=
  match goal with
  | H : has_gate ?c ?x = true |- has_gate ?c ?x = true => exact H
  | H : run _ _ ?s0 = Ok (_, ?s1) |- has_gate (bc ?s1) ?x = true =>
    apply (ext_has_gate _ _ _ (run_ext _ _ _ _ _ H)); has_solve
  | H : all_exist ?c ?ls |- has_gate ?c ?x = true =>
    (eapply Forall_forall in H; [exact H|simpl; tauto])
  end.
