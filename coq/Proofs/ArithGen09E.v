(* Generated/ArithGen09.v (translator T14) equals the hand model, part E: add_div_mod of div_mod.py. *)
Require Import Cirbo.Model.Base Cirbo.Model.Gate Cirbo.Model.Circuit Cirbo.Model.Builder Cirbo.Model.PyPrims.
Require Import Cirbo.Generated.ArithTables Cirbo.Generated.ArithCells Cirbo.Generated.ArithGen09.
Require Import Cirbo.Model.ArithSub Cirbo.Model.ArithSum2 Cirbo.Model.ArithDiv.
Require Import Cirbo.Proofs.ArithGen09Lib Cirbo.Proofs.ArithGen09A Cirbo.Proofs.ArithGen09B.
From Coq Require Import ZArith Lia Ascii.
Open Scope Z_scope.

Lemma nthP_skipn0 {A} (l : list A) j : nthP (skipn j l) 0 = nthP l j.
Proof.
  unfold nthP, nth_res. f_equal.
  revert j; induction l as [|x l IH]; intros [|j]; cbn [skipn nth_error]; try reflexivity. apply IH.
Qed.

(* ---- the select loop: for j in range(m): now[j + i] = OR(AND(q, sub_res[j]), GT(now[j + i], q)) ---------- *)
Definition mux_cell (q : label) (sub_res : list label) (h : label) (j : nat) : prog label :=
  bdo s <- nthP sub_res j;
  bdo t1 <- gate_tt tt_and q s;
  bdo t2 <- gate_tt tt_gt h q;
  gate_tt tt_or t1 t2.

Lemma mux_fold_gen (G : list label -> Z -> prog (list label)) (q : label) (sub_res : list label) (i m n : nat) :
  (i + m = n)%nat ->
  (forall now j, (j < m)%nat -> length now = n ->
     peq (G now (Z.of_nat j))
         (bdo g <- mux_cell q sub_res (nth (i + j) now ""%string) j; Ret (upd now (i + j) g))) ->
  forall k j now, (j + k = m)%nat -> length now = n ->
  peq (foldP G (map Z.of_nat (seq j k)) now)
      (bdo hi <- mux_loop q (skipn j sub_res) (skipn (i + j) now); Ret (firstn (i + j) now ++ hi)).
Proof.
  intros Hn HG. induction k as [|k IH]; intros j now Hj Hl fresh s.
  - rewrite (skipn_all2 (n:=(i + j)%nat) now) by lia. cbn [seq map foldP mux_loop]. rs.
    rewrite firstn_all2, app_nil_r by lia. reflexivity.
  - rewrite (skipn_nth now (i + j) ""%string) by lia.
    cbn [seq map foldP mux_loop]. rs. rewrite HG by lia. unfold mux_cell. rs.
    rewrite nthP_skipn0. step. step. step. step.
    rewrite IH by (rewrite ?upd_length; lia). rs. rewrite tl_skipn.
    replace (i + S j)%nat with (S (i + j)) by lia.
    rewrite skipn_upd_lt by lia. step.
    rewrite (upd_firstn_skipn now (i + j)) by lia.
    rewrite firstn_app, firstn_firstn, Nat.min_r by lia.
    rewrite firstn_length, Nat.min_l by lia.
    replace (S (i + j) - (i + j))%nat with 1%nat by lia. cbn [firstn]. rewrite <- app_assoc. reflexivity.
Qed.

Lemma mux_loop_length q : forall hi sub_res,
  returns (mux_loop q sub_res hi) (fun r => length r = length hi).
Proof.
  induction hi as [|h hi IH]; intros sub_res fresh s r s'; cbn [mux_loop]; rs.
  - intros H; inversion H; reflexivity.
  - destruct (run fresh (nthP sub_res 0) s) as [[x s0]|e]; rs; [|discriminate].
    destruct (run fresh (gate_tt tt_and q x) s0) as [[t1 s1]|e]; rs; [|discriminate].
    destruct (run fresh (gate_tt tt_gt h q) s1) as [[t2 s2]|e]; rs; [|discriminate].
    destruct (run fresh (gate_tt tt_or t1 t2) s2) as [[g s3]|e]; rs; [|discriminate].
    destruct (run fresh (mux_loop q (tl sub_res) hi) s3) as [[rest s4]|e] eqn:E; rs; [|discriminate].
    intros H; inversion H; subst. cbn [length]. f_equal. eapply IH; eauto.
Qed.

(* ---- the OR prefix: for i in range(n - 2, 0, -1): pref.append(OR(pref[-1], b[i])) ------------------------ *)
Lemma or_fold_gen (b : list label) (is_ : list nat) : forall pref,
  pref <> [] -> Forall (fun i => (i < length b)%nat) is_ ->
  peq (foldP (fun pref i => bdo p <- py_nth pref (-1); bdo bi <- py_nth b i;
                bdo g <- gate_tt (TT false true true true) p bi; let pref := pref ++ [g] in Ret pref)
             (map Z.of_nat is_) pref)
      (bdo pr <- or_chain (last pref ""%string) (map (fun i => nth i b ""%string) is_); Ret (pref ++ pr)).
Proof.
  induction is_ as [|i is_ IH]; intros pref Hp Hall fresh s; cbn [map foldP or_chain]; rs.
  - rewrite app_nil_r. reflexivity.
  - inversion Hall as [|? ? Hi Hall']; subst.
    rewrite py_nth_last. unfold lastP.
    destruct (rev pref) as [|x rp] eqn:Er.
    { apply (f_equal (@rev label)) in Er. rewrite rev_involutive in Er. contradiction. }
    assert (El : last pref ""%string = x).
    { apply (f_equal (@rev label)) in Er. rewrite rev_involutive in Er. subst pref. cbn [rev].
      apply last_last. }
    rs. step. rewrite El. change (TT false true true true) with tt_or. step.
    rewrite IH by (try assumption; destruct pref; discriminate). rs.
    rewrite last_last. step. rewrite <- app_assoc. reflexivity.
Qed.

Lemma map_nth_seq {A} (l : list A) d : map (fun i => nth i l d) (seq 0 (length l)) = l.
Proof.
  induction l as [|x l IH]; [reflexivity|]. cbn [length seq map nth]. f_equal.
  rewrite <- seq_shift, map_map. exact IH.
Qed.

Lemma removelast_tl_rev (b : list label) :
  map (fun i => nth i b ""%string) (rev (seq 1 (length b - 2))) = removelast (tl (rev b)).
Proof.
  destruct b as [|b0 b] using rev_ind; [reflexivity|].
  rewrite rev_app_distr. cbn [rev app tl]. rewrite app_length. cbn [length].
  replace (length b + 1 - 2)%nat with (length b - 1)%nat by lia. clear IHb.
  destruct b as [|b1 b]; [reflexivity|]. cbn [length]. replace (S (length b) - 1)%nat with (length b) by lia.
  cbn [rev]. rewrite removelast_last.
  rewrite map_rev. f_equal. rewrite <- seq_shift, map_map.
  rewrite <- (map_nth_seq b ""%string) at 2.
  apply map_ext_in. intros i Hi. apply in_seq in Hi.
  change (nth (S i) ((b1 :: b) ++ [b0]) ""%string) with (nth i (b ++ [b0]) ""%string).
  rewrite app_nth1 by lia. reflexivity.
Qed.

(* ---- the final masks: for i in range(n): l[i] = AND(l[i], nz) ----------------------------------------------- *)
Lemma mask_fold_gen (M : list label -> Z -> prog (list label)) (nz : label) (n : nat) :
  (forall l i, (i < n)%nat -> length l = n ->
     peq (M l (Z.of_nat i)) (bdo g <- gate_tt tt_and (nth i l ""%string) nz; Ret (upd l i g))) ->
  forall k j l, (j + k = n)%nat -> length l = n ->
  peq (foldP M (map Z.of_nat (seq j k)) l)
      (bdo r <- mapP (fun x => gate_tt tt_and x nz) (skipn j l); Ret (firstn j l ++ r)).
Proof.
  intros HM. induction k as [|k IH]; intros j l Hj Hl fresh s.
  - rewrite (skipn_all2 (n:=j) l) by lia. cbn [seq map foldP mapP]. rs.
    rewrite firstn_all2, app_nil_r by lia. reflexivity.
  - rewrite (skipn_nth l j ""%string) by lia. cbn [seq map foldP mapP]. rs. rewrite HM by lia. rs. step.
    rewrite IH by (rewrite ?upd_length; lia). rs. rewrite skipn_upd_lt by lia. step.
    rewrite firstn_S_upd by lia. rewrite <- app_assoc. reflexivity.
Qed.

(* ---- the stages ------------------------------------------------------------------------------------------------ *)
Lemma div_stage_length b n prov i now : (i <= length now)%nat ->
  returns (div_stage b n prov i now) (fun r => length (snd r) = length now).
Proof.
  intros Hi fresh s r s'. unfold div_stage. rs.
  destruct (run fresh (add_subtract_with_compare (skipn i now) (firstn (n - i) b) false) s) as [[sp s1]|e]; rs; [|discriminate].
  destruct (run fresh (gate_tt tt_nor match prov with Some p => p | None => snd sp end (snd sp)) s1) as [[q s2]|e]; rs; [|discriminate].
  destruct (run fresh (mux_loop q (fst sp) (skipn i now)) s2) as [[hi s3]|e] eqn:E; rs; [|discriminate].
  intros H; inversion H; subst. cbn [snd]. apply mux_loop_length in E.
  rewrite app_length, firstn_length, E, skipn_length. lia.
Qed.

Lemma div_fold_gen (F : list label * list label -> Z -> prog (list label * list label)) b pref n :
  (forall result now i, (1 <= i <= n - 1)%nat -> length result = n -> length now = n ->
     peq (F (result, now) (Z.of_nat i))
         (bdo prov <- nthP pref (i - 1); bdo r <- div_stage b n (Some prov) i now;
          Ret (upd result i (fst r), snd r))) ->
  forall i result now, (i <= n - 1)%nat -> length result = n -> length now = n ->
  peq (foldP F (map Z.of_nat (rev (seq 1 i))) (result, now))
      (bdo r <- div_loop b pref n i now; Ret (firstn 1 result ++ fst r ++ skipn (S i) result, snd r)).
Proof.
  intros HF. induction i as [|i IH]; intros result now Hi Hr Hn fresh s.
  - cbn [seq rev map foldP div_loop]. rs. cbn [fst snd app]. rewrite firstn_skipn. reflexivity.
  - rewrite seq_S, rev_app_distr. cbn [rev app map foldP div_loop Nat.add]. rs.
    rewrite HF by lia. rs. replace (S i - 1)%nat with i by lia. step.
    destruct (run fresh (div_stage b n (Some l) (S i) now) b0) as [[r s1]|e] eqn:E; rs; [|reflexivity].
    apply div_stage_length in E; [|lia].
    rewrite IH by (rewrite ?upd_length; lia). rs. step. destruct p as [qs now']. cbn [fst snd].
    rewrite firstn_upd_ge by lia.
    rewrite (upd_firstn_skipn result (S i)) by lia.
    rewrite skipn_app, skipn_firstn_comm, Nat.sub_diag, firstn_length, Nat.min_l by lia.
    replace (S i - S i)%nat with 0%nat by lia. cbn [firstn skipn app]. rewrite <- app_assoc. reflexivity.
Qed.

Lemma lastP_nth {A} (l : list A) d : l <> [] -> lastP l = Ret (last l d).
Proof.
  intros H. unfold lastP. destruct l as [|x l] using rev_ind; [contradiction|].
  rewrite rev_app_distr, last_last. reflexivity.
Qed.

Lemma div_loop_lengths b pref n : forall i now, (i <= length now)%nat ->
  returns (div_loop b pref n i now) (fun r => length (fst r) = i /\ length (snd r) = length now).
Proof.
  induction i as [|i IH]; intros now Hi fresh s r s'; cbn [div_loop]; rs.
  - intros H; inversion H; split; reflexivity.
  - destruct (run fresh (nthP pref i) s) as [[prov s0]|e]; rs; [|discriminate].
    destruct (run fresh (div_stage b n (Some prov) (S i) now) s0) as [[r1 s1]|e] eqn:E1; rs; [|discriminate].
    apply div_stage_length in E1; [|exact Hi].
    destruct (run fresh (div_loop b pref n i (snd r1)) s1) as [[r2 s2]|e] eqn:E2; rs; [|discriminate].
    apply IH in E2; [|lia].
    intros H; inversion H; subst. cbn [fst snd]. rewrite app_length. cbn [length]. lia.
Qed.

Ltac tt_names :=
  change (TT true false false false) with tt_nor in *;
  change (TT false false false true) with tt_and in *;
  change (TT false false true false) with tt_gt in *;
  change (TT false true true true) with tt_or in *.

(* one stage as the generated code spells it (the loop body for a shift i >= 1, and the last stage i = 0), for
   any select-loop body G that does what mux_cell says and any continuation K *)
Lemma div_stage_gen_eq fresh {B} (G : list label -> list label -> list label -> Z -> prog (list label))
      (pv : label -> label) (K : list label -> list label -> prog B)
      (b result now xs ys : list label) (n i m : nat) (prov : option label) s :
  length b = n -> length result = n -> length now = n -> (i < n)%nat -> m = (n - i)%nat ->
  xs = skipn i now -> ys = firstn m b ->
  (forall per, pv per = match prov with Some p => p | None => per end) ->
  (forall result' sub_res now' j, (j < m)%nat -> length now' = n -> length result' = n ->
     peq (G result' sub_res now' (Z.of_nat j))
         (bdo g <- mux_cell (nth i result' ""%string) sub_res (nth (i + j) now' ""%string) j;
          Ret (upd now' (i + j) g))) ->
  run fresh
    (bdo (sub_res, per) <- gen_add_subtract_with_compare xs ys false;
     bdo q <- gate_tt tt_nor (pv per) per;
     bdo result0 <- py_set result (Z.of_nat i) q;
     bdo now0 <- foldP (G result0 sub_res) (py_range 0 (Z.of_nat m)) now;
     K result0 now0) s
  = run fresh (bdo r <- div_stage b n prov i now; K (upd result i (fst r)) (snd r)) s.
Proof.
  intros Hb Hr Hn Hi Hm -> -> Hpv HG. subst m. unfold div_stage. rs. rewrite gen_add_subtract_with_compare_eq.
  step. destruct p as [sub_res per]. cbn [fst snd]. rewrite Hpv. step. rename l into q.
  step. rewrite py_range_0_nat.
  rewrite (mux_fold_gen _ q sub_res i (n - i) n); [ | lia | | lia | exact Hn ].
  - cbn [skipn]. rewrite Nat.add_0_r. rs. step.
  - intros now' j Hj Hl. eapply peq_trans; [apply HG; rewrite ?upd_length; lia|].
    rewrite nth_upd_same by lia. apply peq_refl.
Qed.

Theorem gen_add_div_mod_eq a0 b0 be :
  peq (gen_add_div_mod a0 b0 be) (add_div_mod a0 b0 be).
Proof.
  unfold gen_add_div_mod, add_div_mod. intros fresh s. cbv zeta. tt_names.
  rewrite run_bind, run_if_rev2. cbv beta iota.
  set (a := rev_if be a0). set (b := rev_if be b0).
  rewrite run_bind, gen_validate_equal_sizes_eq.
  destruct (Nat.eqb_spec (length a) (length b)) as [Hab|Hab]; cbn [negb]; rs; [|reflexivity].
  unfold py_len. rewrite Hab. rewrite py_nth_len_m1. set (n := length b).
  unfold lastP at 1 2.
  destruct (rev b) as [|top rb] eqn:Erb; rs; [reflexivity|].
  assert (Hb : b = rev rb ++ [top]).
  { apply (f_equal (@rev label)) in Erb. rewrite rev_involutive in Erb. exact Erb. }
  assert (Hn : (1 <= n)%nat) by (unfold n; rewrite Hb, app_length; cbn [length]; lia).
  (* the OR prefix *)
  rewrite py_range_down_m2.
  rewrite or_fold_gen; [|discriminate|].
  2:{ apply Forall_forall. intros i Hi. apply in_rev, in_seq in Hi. fold n. lia. }
  rs. cbn [last tl]. unfold n at 1. rewrite removelast_tl_rev, Erb. cbn [tl].
  step. rename l into pr. cbn [app].
  (* the stages i = n - 1 .. 1 *)
  rewrite py_range_down_to0, py_mul_single.
  rewrite (div_fold_gen _ b (top :: pr) n); [ | | lia | apply repeat_length | exact Hab ].
  2:{ intros result now i Hi Hr Hl fresh' s'. cbv beta iota.
      rewrite py_nth_pred_nat by lia. rs. step. rename l into prov.
      replace (Z.of_nat n - (Z.of_nat n - Z.of_nat i)) with (Z.of_nat i) by lia.
      replace (Z.of_nat n - Z.of_nat i) with (Z.of_nat (n - i)) by lia.
      rewrite py_slice_from, py_slice_to.
      rewrite <- !run_bind.
      erewrite (div_stage_gen_eq fresh' _ (fun _ => prov) (fun r n => Ret (r, n)) b result now _ _ n i (n - i) (Some prov));
        try reflexivity; try lia.
      intros result' sub_res now' j Hj Hl' Hr' fresh'' s''. unfold mux_cell.
      replace (Z.of_nat j + Z.of_nat n - Z.of_nat (n - i)) with (Z.of_nat (i + j)) by lia.
      rewrite (py_nth_nat sub_res). steps. }
  rs.
  match goal with |- context [run fresh (div_loop b (top :: pr) n (n - 1) a) ?st] =>
    destruct (run fresh (div_loop b (top :: pr) n (n - 1) a) st) as [[[qs now1] s2]|e] eqn:E1 end; rs; [|reflexivity].
  apply div_loop_lengths in E1; [|lia]. cbn [fst snd] in E1. destruct E1 as [Lq Ln1].
  assert (ER : firstn 1 (repeat PLACEHOLDER_STR n) ++ qs ++ skipn (S (n - 1)) (repeat PLACEHOLDER_STR n)
               = PLACEHOLDER_STR :: qs).
  { replace (S (n - 1)) with n by lia. rewrite skipn_all2 by (rewrite repeat_length; lia).
    rewrite app_nil_r. destruct n; [lia|reflexivity]. }
  cbn [fst snd]. rewrite ER.
  (* the last stage *)
  rewrite <- !run_bind.
  erewrite (div_stage_gen_eq fresh _ (fun per => per) _ b (PLACEHOLDER_STR :: qs) now1 now1 b n 0 n None);
    try reflexivity; try (cbn [length]; lia).
  2:{ symmetry. apply firstn_all. }
  2:{ intros result' sub_res now' j Hj Hl' Hr' fresh'' s''. unfold mux_cell.
      rewrite (py_nth_nat sub_res). rewrite (py_nth_nat now'). cbn [Nat.add].
      rewrite (nthP_ok now' j ""%string) by lia. steps. }
  rs.
  match goal with |- context [run fresh (div_stage b n None 0 now1) ?st] =>
    destruct (run fresh (div_stage b n None 0 now1) st) as [[[q0 now2] s3]|e] eqn:E2 end; rs; [|reflexivity].
  apply div_stage_length in E2; [|lia]. cbn [fst snd upd] in *.
  (* A % 0 = 0 and B / 0 = 0: the masks *)
  rewrite py_nth_last, py_nth_0. step. rename l into plast. step. rename l into b_0. step. rename l into nz.
  change (top :: pr ++ [nz]) with ((top :: pr) ++ [nz]). rewrite py_nth_last, lastP_app1.
  rewrite py_range_0_nat.
  rewrite (mask_fold_gen _ nz n); [ | | lia | cbn [length]; lia ].
  2:{ intros l i Hi Hl fresh' s'. steps. }
  rs. cbn [skipn firstn app]. step. rename l into result'.
  rewrite (mask_fold_gen _ nz n); [ | | lia | lia ].
  2:{ intros l i Hi Hl fresh' s'. steps. }
  rs. cbn [skipn firstn app]. step. rewrite run_if_rev2. reflexivity.
Qed.
