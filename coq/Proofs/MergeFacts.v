(* C04: soundness of the validator for the "all outputs trivial" branch of
   minimize_subcircuits, where a cone output o with the pattern of a leaf l is merged into l
   (every user of o reads l instead, o is removed, o is replaced by l in the output list).
   If check_merge accepts the states before / after, every gate other than o keeps its value,
   l has the value o had, and the i-th circuit output keeps its value. *)
Require Import Cirbo.Model.Base Cirbo.Model.Gate Cirbo.Model.Den Cirbo.Model.Circuit Cirbo.Model.Traverse
        Cirbo.Model.Eval Cirbo.Model.Sem Cirbo.Model.ConeSem Cirbo.Model.PatternSim
        Cirbo.Model.SubcircuitValidator.
Require Import Cirbo.Generated.GateTypes.
Require Import Cirbo.Proofs.DictFacts Cirbo.Proofs.OpFacts Cirbo.Proofs.SemFacts
        Cirbo.Proofs.ConeFacts Cirbo.Proofs.ValidatorFacts.

Lemma subst_label_notin o l ops : ~ In o ops -> subst_label o l ops = ops.
Proof.
  unfold subst_label. induction ops as [|x xs IH]; simpl; intros H; [reflexivity|].
  destruct (leqb_spec x o) as [->|Hne]; [exfalso; apply H; left; reflexivity|].
  f_equal. apply IH. intros Hin; apply H; right; exact Hin.
Qed.

Section Merge.
  Variables (old new : circuit) (leaves : list label) (o l : label)
            (care : option (list (list bool))).
  Hypothesis Hcheck : check_merge old new leaves o l care = true.

  Lemma merge_parts :
    o <> l /\ In l leaves /\ inputs new = inputs old /\
    outputs new = subst_label o l (outputs old) /\
    (forall x g, dget (gates old) x = Some g -> x <> o ->
                 dget (gates new) x = Some (merge_gate o l g)) /\
    frame_order new = true /\
    check_step_map old old (map dup leaves) [(o, l)] care = true.
  Proof.
    unfold check_merge in Hcheck.
    apply andb_true_iff in Hcheck. destruct Hcheck as [H Hstep].
    apply andb_true_iff in H. destruct H as [H Horder].
    apply andb_true_iff in H. destruct H as [H Hgates].
    apply andb_true_iff in H. destruct H as [H Houts].
    apply andb_true_iff in H. destruct H as [H Hins].
    apply andb_true_iff in H. destruct H as [Hol Hl].
    apply negb_true_iff, leqb_neq in Hol. apply memb_In in Hl.
    apply labels_eqb_eq in Hins. apply labels_eqb_eq in Houts.
    rewrite forallb_forall in Hgates.
    repeat split; try assumption; try congruence.
    intros x g Hg Hx. specialize (Hgates (x, g) (dget_In _ _ _ Hg)). cbn [fst snd] in Hgates.
    apply orb_true_iff in Hgates. destruct Hgates as [He|He]; [apply leqb_eq in He; contradiction|].
    apply gate_opt_eqb_eq in He. exact He.
  Qed.

  Variable a : assignment.
  Hypothesis Hvec : exists v, compared (length leaves) care v /\
                              Forall2 (fun x b => Eval old a x (inj b)) leaves v.

  (* in the old circuit the leaf l already has the value of o *)
  Lemma merge_same_value v : Eval old a o v -> Eval old a l v.
  Proof.
    destruct merge_parts as (_ & _ & _ & _ & _ & _ & Hstep).
    destruct Hvec as (w & Hw & Hold). intros H.
    rewrite <- (map_length dup leaves) in Hw.
    destruct (check_step_map_sound_Eval old old (map dup leaves) [(o, l)] care a a w Hstep Hw)
      with (o := o) (o' := l) as (b & H1 & H2).
    - rewrite map_fst_dup; exact Hold.
    - rewrite map_snd_dup; exact Hold.
    - left; reflexivity.
    - rewrite (Eval_functional _ _ _ _ _ H H1). exact H2.
  Qed.

  Definition mkeeps (x : label) : Prop := x <> o -> forall v, Eval old a x v -> Eval new a x v.

  Lemma merge_step x g s :
    dget (gates new) x = Some g -> (forall op, In op (gops g) -> In op s) ->
    closed_in new s -> (forall y, In y s -> mkeeps y) -> mkeeps x.
  Proof.
    destruct merge_parts as (Hol & _ & _ & _ & Hg' & _).
    intros Hg Hops _ Hp Hx v Hev.
    inversion Hev as [? g0 Hg0 Ht|? g0 vs ? Hg0 Ht Hvs Hop]; subst.
    - apply EvalInput with (g := merge_gate o l g0); [apply Hg'; assumption|exact Ht].
    - pose proof (Hg' x g0 Hg0 Hx) as Hgn. rewrite Hg in Hgn; injection Hgn as ->.
      apply EvalGate with (g := merge_gate o l g0) (vs := vs); [exact Hg|exact Ht| |exact Hop].
      cbn [merge_gate gops] in *. unfold subst_label in *.
      clear -Hvs Hops Hp Hol Hcheck Hvec. induction Hvs as [|y w ys ws Hyw _ IH]; simpl; constructor.
      + destruct (leqb_spec y o) as [->|Hne].
        * apply (Hp l); [apply Hops; simpl; rewrite leqb_refl; left; reflexivity|congruence|].
          apply merge_same_value; exact Hyw.
        * apply (Hp y); [apply Hops; simpl|exact Hne|exact Hyw].
          destruct (leqb_spec y o); [contradiction|left; reflexivity].
      + apply IH. intros op Hop'. apply Hops. simpl; right; exact Hop'.
  Qed.

  Theorem merge_stable x v : x <> o -> Eval old a x v -> Eval new a x v.
  Proof.
    destruct merge_parts as (_ & _ & _ & _ & Hg' & Horder & _).
    destruct (frame_order_parts _ Horder) as (order & Hok & Hall).
    intros Hx Hev.
    assert (exists g, dget (gates new) x = Some g) as (g & Hg).
    { inversion Hev as [? g0 Hg0 _|? g0 ? ? Hg0 _ _ _]; subst; eexists; apply Hg'; eassumption. }
    assert (In x order) as Hin by (apply Hall; eapply dget_In_keys; exact Hg).
    apply (ordered_induction new mkeeps merge_step order [] Hok); try assumption.
    - intros y gy [].
    - intros y [].
  Qed.

  Lemma merge_output v : Eval old a o v -> Eval new a l v.
  Proof.
    destruct merge_parts as (Hol & _).
    intros H. apply merge_stable; [congruence|apply merge_same_value; exact H].
  Qed.
End Merge.

(* validator theorem for the all-outputs-trivial branch *)
Theorem merge_substitution old new leaves o l care a :
  check_merge old new leaves o l care = true ->
  (exists v, compared (length leaves) care v /\
             Forall2 (fun x b => Eval old a x (inj b)) leaves v) ->
  inputs new = inputs old /\
  (forall x v, x <> o -> Eval old a x v -> Eval new a x v) /\
  (forall v, Eval old a o v -> Eval new a l v) /\
  (forall i x v, nth_error (outputs old) i = Some x -> Eval old a x v ->
     exists x', nth_error (outputs new) i = Some x' /\ Eval new a x' v).
Proof.
  intros Hc Hv. destruct (merge_parts _ _ _ _ _ _ Hc) as (_ & _ & Hi & Ho & _).
  split; [exact Hi|]. split; [intros x v; apply (merge_stable _ _ _ _ _ _ Hc a Hv)|].
  split; [intros v; apply (merge_output _ _ _ _ _ _ Hc a Hv)|].
  intros i x v Hn He. rewrite Ho. unfold subst_label.
  exists (if leqb x o then l else x).
  split; [apply (map_nth_error (fun y => if leqb y o then l else y)); exact Hn|].
  destruct (leqb_spec x o) as [->|Hne].
  - apply (merge_output _ _ _ _ _ _ Hc a Hv); exact He.
  - apply (merge_stable _ _ _ _ _ _ Hc a Hv); assumption.
Qed.
