(* T16 tie, part 1: the regenerated BitWriter / BitReader (Generated/CodecAlgGen.v, from
   cirbo/circuits_db/bit_io.py) against the hand model Model/BitIO.v.

   The Python objects carry (bytearray, bit_pos) resp. (bytes, byte_pos, bit_pos); the hand model carries the
   sequence of bits written so far resp. the bits not yet read.  `bw_of_bits bs` is THE writer state after
   writing the bits bs (every state reachable from BitWriter() is of this form: gen_BitWriter_init_eq,
   gen_BitWriter_write_eq); `br_at data n` is THE reader state after reading n bits of data.
   Side conditions: numbers and bit lengths are natural numbers (Z.of_N / Z.of_nat); a reader position is
   inside the data (n <= 8 * length data), which every reachable position is. *)
Require Import Cirbo.Model.Base Cirbo.Model.BitIO.
Require Import Cirbo.Generated.CodecAlgGen.
Require Import Cirbo.Proofs.BitIOFacts.

Definition bw_pos (n : nat) : Z := if (n =? 0)%nat then 8%Z else (Z.of_nat ((n - 1) mod 8) + 1)%Z.
Definition bw_of_bits (bs : bits) : gen_BitWriter := mk_gen_BitWriter (pack bs) (bw_pos (length bs)).
Definition br_at (data : bytes) (n : nat) : gen_BitReader :=
  mk_gen_BitReader data (Z.of_nat (n / 8)) (Z.of_nat (n mod 8)).

(* ---- the Python built-ins at the positions the bit I/O uses ---- *)
Lemma py_index_last {A} (l : list A) a : py_index (l ++ [a]) (-1) = Ok a.
Proof.
  unfold py_index, py_len. rewrite app_length. cbn [length].
  replace ((-1 <? - Z.of_nat (length l + 1)) || (Z.of_nat (length l + 1) <=? -1))%Z with false
    by (symmetry; apply orb_false_iff; split; [apply Z.ltb_ge|apply Z.leb_gt]; lia).
  change (-1 <? 0)%Z with true. cbv iota.
  replace (Z.to_nat (-1 + Z.of_nat (length l + 1))) with (length l) by lia.
  unfold nth_res. rewrite nth_error_app2, Nat.sub_diag by lia. reflexivity.
Qed.

Lemma list_set_nat_last {A} (l : list A) a v : list_set_nat (l ++ [a]) (length l) v = Ok (l ++ [v]).
Proof. induction l as [|y l IH]; [reflexivity|]. cbn [app length list_set_nat]. rewrite IH. reflexivity. Qed.

Lemma py_list_set_last {A} (l : list A) a v : py_list_set (l ++ [a]) (-1) v = Ok (l ++ [v]).
Proof.
  unfold py_list_set, py_len. rewrite app_length. cbn [length].
  replace ((-1 <? - Z.of_nat (length l + 1)) || (Z.of_nat (length l + 1) <=? -1))%Z with false
    by (symmetry; apply orb_false_iff; split; [apply Z.ltb_ge|apply Z.leb_gt]; lia).
  change (-1 <? 0)%Z with true. cbv iota.
  replace (Z.to_nat (-1 + Z.of_nat (length l + 1))) with (length l) by lia.
  apply list_set_nat_last.
Qed.

Lemma py_bytes_index_last (l : bytes) a : py_bytes_index (l ++ [a]) (-1) = Ok (byte_to_int a).
Proof. unfold py_bytes_index. rewrite py_index_last. reflexivity. Qed.

Lemma py_bytearray_set_last (l : bytes) a v :
  py_bytearray_set (l ++ [a]) (-1) v = do a' <- py_byte_of_int v; Ok (l ++ [a']).
Proof.
  unfold py_bytearray_set. destruct (py_byte_of_int v); [|reflexivity]. cbn [bind]. apply py_list_set_last.
Qed.

Lemma py_index_mid {A} (pre : list A) a post :
  py_index (pre ++ a :: post) (Z.of_nat (length pre)) = Ok a.
Proof.
  unfold py_index, py_len. rewrite app_length. cbn [length].
  replace ((Z.of_nat (length pre) <? - Z.of_nat (length pre + S (length post)))
           || (Z.of_nat (length pre + S (length post)) <=? Z.of_nat (length pre)))%Z with false
    by (symmetry; apply orb_false_iff; split; [apply Z.ltb_ge|apply Z.leb_gt]; lia).
  replace (Z.of_nat (length pre) <? 0)%Z with false by (symmetry; apply Z.ltb_ge; lia).
  rewrite Nat2Z.id. unfold nth_res. rewrite nth_error_app2, Nat.sub_diag by lia. reflexivity.
Qed.

Lemma py_range_cons lo hi : (lo < hi)%Z -> py_range lo hi = lo :: py_range (lo + 1) hi.
Proof.
  intros H. unfold py_range. replace (Z.to_nat (hi - lo)) with (S (Z.to_nat (hi - (lo + 1)))) by lia.
  cbn [seq map]. rewrite <- seq_shift, map_map. f_equal; [lia|]. apply map_ext. intros; lia.
Qed.

Lemma py_range_nil lo : py_range lo lo = [].
Proof. unfold py_range. rewrite Z.sub_diag. reflexivity. Qed.

(* ---- BitWriter ---- *)
Lemma gen_BitWriter_init_eq : gen_BitWriter___init__ = Ok (bw_of_bits []).
Proof. reflexivity. Qed.

Lemma gen_BitWriter_bytes_eq bs : gen_BitWriter___bytes__ (bw_of_bits bs) = Ok (pack bs).
Proof. reflexivity. Qed.

Lemma bw_pos_add8 n : bw_pos (8 + n) = bw_pos n.
Proof.
  unfold bw_pos. destruct n as [|n]; [reflexivity|].
  replace (8 + S n - 1)%nat with (n + 1 * 8)%nat by lia. rewrite Nat.mod_add by lia.
  cbn [Nat.eqb plus]. replace (S n - 1)%nat with n by lia. reflexivity.
Qed.

(* a write into the last, partly filled byte (or into a fresh one); the bytes before it are arbitrary *)
Lemma write_short pre bs b : (length bs < 8)%nat ->
  gen_BitWriter_write (mk_gen_BitWriter (pre ++ pack bs) (bw_pos (length bs))) b
  = Ok (mk_gen_BitWriter (pre ++ pack (bs ++ [b])) (bw_pos (length (bs ++ [b])))).
Proof.
  intros H.
  destruct bs as [|b0 [|b1 [|b2 [|b3 [|b4 [|b5 [|b6 [|b7 r]]]]]]]]; try (exfalso; simpl in H; lia); clear H;
    rewrite ?app_nil_r; unfold gen_BitWriter_write;
    repeat match goal with x : bool |- _ => destruct x end;
    cbn -[py_bytes_index py_bytearray_set];
    rewrite py_bytes_index_last; cbn -[py_bytearray_set];
    rewrite py_bytearray_set_last; reflexivity.
Qed.

Lemma gen_BitWriter_write_eq bs b : gen_BitWriter_write (bw_of_bits bs) b = Ok (bw_of_bits (bs ++ [b])).
Admitted.

Lemma gen_BitWriter_write_number_eq bs x k :
  gen_BitWriter_write_number (bw_of_bits bs) (Z.of_N x) (Z.of_nat k)
  = do nb <- write_number x k; Ok (bw_of_bits (bs ++ nb)).
Admitted.

Lemma gen_BitWriter_write_byte_eq bs x :
  gen_BitWriter_write_byte (bw_of_bits bs) (Z.of_N x) = do nb <- write_byte x; Ok (bw_of_bits (bs ++ nb)).
Admitted.

Lemma gen_BitReader_init_eq data : gen_BitReader___init__ data = Ok (br_at data 0).
Admitted.

Lemma gen_BitReader_read_eq data n : (n <= 8 * length data)%nat ->
  gen_BitReader_read (br_at data n) = do br <- br_read (skipn n (unpack data)); Ok (fst br, br_at data (S n)).
Admitted.

(* what the hand model's readers leave is the stream without the bits read *)
Lemma br_read_rest r b r' : br_read r = Ok (b, r') -> r' = skipn 1 r /\ (1 <= length r)%nat.
Admitted.

Lemma read_number_rest k r x r' : read_number k r = Ok (x, r') -> r' = skipn k r /\ (k <= length r)%nat.
Admitted.

Lemma gen_BitReader_read_number_eq data n k : (n <= 8 * length data)%nat ->
  gen_BitReader_read_number (br_at data n) (Z.of_nat k)
  = do xr <- read_number k (skipn n (unpack data)); Ok (Z.of_N (fst xr), br_at data (n + k)).
Admitted.

Lemma gen_BitReader_read_byte_eq data n : (n <= 8 * length data)%nat ->
  gen_BitReader_read_byte (br_at data n)
  = do xr <- read_byte (skipn n (unpack data)); Ok (Z.of_N (fst xr), br_at data (n + 8)).
Admitted.
