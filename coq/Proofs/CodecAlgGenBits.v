(* T16 tie, part 1: the regenerated BitWriter / BitReader (Generated/CodecAlgGen.v, from
   cirbo/circuits_db/bit_io.py) against the hand model Model/BitIO.v.

   The Python objects carry (bytearray, bit_pos) resp. (bytes, byte_pos, bit_pos); the hand model carries the
   sequence of bits written so far resp. the bits not yet read.  `bw_of_bits bs` is THE writer state after
   writing the bits bs (every state reachable from BitWriter() is of this form: gen_BitWriter_init_eq,
   gen_BitWriter_write_eq); `br_at data n` is THE reader state after reading n bits of data.
   Side conditions: numbers and bit lengths are natural numbers (Z.of_N / Z.of_nat); a reader position is
   inside the data (n <= 8 * length data), which every reachable position is. *)
Require Import Cirbo.Model.Base Cirbo.Model.BitIO.
Require Import Cirbo.Generated.CodecAlgGen.
Require Import Cirbo.Proofs.BitIOFacts.

Definition bw_pos (n : nat) : Z := if (n =? 0)%nat then 8%Z else (Z.of_nat ((n - 1) mod 8) + 1)%Z.
Definition bw_of_bits (bs : bits) : gen_BitWriter := mk_gen_BitWriter (pack bs) (bw_pos (length bs)).
Definition br_at (data : bytes) (n : nat) : gen_BitReader :=
  mk_gen_BitReader data (Z.of_nat (n / 8)) (Z.of_nat (n mod 8)).

(* ---- the Python built-ins at the positions the bit I/O uses ---- *)
Lemma py_index_last {A} (l : list A) a : py_index (l ++ [a]) (-1) = Ok a.
Proof.
  unfold py_index, py_len. rewrite app_length. cbn [length].
  replace ((-1 <? - Z.of_nat (length l + 1)) || (Z.of_nat (length l + 1) <=? -1))%Z with false
    by (symmetry; apply orb_false_iff; split; [apply Z.ltb_ge|apply Z.leb_gt]; lia).
  change (-1 <? 0)%Z with true. cbv iota.
  replace (Z.to_nat (-1 + Z.of_nat (length l + 1))) with (length l) by lia.
  unfold nth_res. rewrite nth_error_app2, Nat.sub_diag by lia. reflexivity.
Qed.

Lemma list_set_nat_last {A} (l : list A) a v : list_set_nat (l ++ [a]) (length l) v = Ok (l ++ [v]).
Proof. induction l as [|y l IH]; [reflexivity|]. cbn [app length list_set_nat]. rewrite IH. reflexivity. Qed.

Lemma py_list_set_last {A} (l : list A) a v : py_list_set (l ++ [a]) (-1) v = Ok (l ++ [v]).
Proof.
  unfold py_list_set, py_len. rewrite app_length. cbn [length].
  replace ((-1 <? - Z.of_nat (length l + 1)) || (Z.of_nat (length l + 1) <=? -1))%Z with false
    by (symmetry; apply orb_false_iff; split; [apply Z.ltb_ge|apply Z.leb_gt]; lia).
  change (-1 <? 0)%Z with true. cbv iota.
  replace (Z.to_nat (-1 + Z.of_nat (length l + 1))) with (length l) by lia.
  apply list_set_nat_last.
Qed.

Lemma py_bytes_index_last (l : bytes) a : py_bytes_index (l ++ [a]) (-1) = Ok (byte_to_int a).
Proof. unfold py_bytes_index. rewrite py_index_last. reflexivity. Qed.

Lemma py_bytearray_set_last (l : bytes) a v :
  py_bytearray_set (l ++ [a]) (-1) v = do a' <- py_byte_of_int v; Ok (l ++ [a']).
Proof.
  unfold py_bytearray_set. destruct (py_byte_of_int v); [|reflexivity]. cbn [bind]. apply py_list_set_last.
Qed.

Lemma py_index_mid {A} (pre : list A) a post :
  py_index (pre ++ a :: post) (Z.of_nat (length pre)) = Ok a.
Proof.
  unfold py_index, py_len. rewrite app_length. cbn [length].
  replace ((Z.of_nat (length pre) <? - Z.of_nat (length pre + S (length post)))
           || (Z.of_nat (length pre + S (length post)) <=? Z.of_nat (length pre)))%Z with false
    by (symmetry; apply orb_false_iff; split; [apply Z.ltb_ge|apply Z.leb_gt]; lia).
  replace (Z.of_nat (length pre) <? 0)%Z with false by (symmetry; apply Z.ltb_ge; lia).
  rewrite Nat2Z.id. unfold nth_res. rewrite nth_error_app2, Nat.sub_diag by lia. reflexivity.
Qed.

Lemma py_range_cons lo hi : (lo < hi)%Z -> py_range lo hi = lo :: py_range (lo + 1) hi.
Proof.
  intros H. unfold py_range. replace (Z.to_nat (hi - lo)) with (S (Z.to_nat (hi - (lo + 1)))) by lia.
  cbn [seq map]. rewrite <- seq_shift, map_map. f_equal; [lia|]. apply map_ext. intros; lia.
Qed.

Lemma py_range_nil lo : py_range lo lo = [].
Proof. unfold py_range. rewrite Z.sub_diag. reflexivity. Qed.

(* ---- BitWriter ---- *)
Lemma gen_BitWriter_init_eq : gen_BitWriter___init__ = Ok (bw_of_bits []).
Proof. reflexivity. Qed.

Lemma gen_BitWriter_bytes_eq bs : gen_BitWriter___bytes__ (bw_of_bits bs) = Ok (pack bs).
Proof. reflexivity. Qed.

Lemma bw_pos_add8 n : bw_pos (8 + n) = bw_pos n.
Proof.
  unfold bw_pos. destruct n as [|n]; [reflexivity|].
  replace (8 + S n - 1)%nat with (n + 1 * 8)%nat by lia. rewrite Nat.mod_add by lia.
  cbn [Nat.eqb plus]. replace (S n - 1)%nat with n by lia. reflexivity.
Qed.

(* a write into the last, partly filled byte (or into a fresh one); the bytes before it are arbitrary *)
Lemma write_short pre bs b : (length bs < 8)%nat ->
  gen_BitWriter_write (mk_gen_BitWriter (pre ++ pack bs) (bw_pos (length bs))) b
  = Ok (mk_gen_BitWriter (pre ++ pack (bs ++ [b])) (bw_pos (length (bs ++ [b])))).
Proof.
  intros H.
  destruct bs as [|b0 [|b1 [|b2 [|b3 [|b4 [|b5 [|b6 [|b7 r]]]]]]]]; try (exfalso; simpl in H; lia); clear H;
    rewrite ?app_nil_r; unfold gen_BitWriter_write;
    repeat match goal with x : bool |- _ => destruct x end;
    cbn -[py_bytes_index py_bytearray_set];
    rewrite py_bytes_index_last; cbn -[py_bytearray_set];
    rewrite py_bytearray_set_last; reflexivity.
Qed.

Lemma write_gen n : forall bs, (length bs <= n)%nat -> forall pre b,
  gen_BitWriter_write (mk_gen_BitWriter (pre ++ pack bs) (bw_pos (length bs))) b
  = Ok (mk_gen_BitWriter (pre ++ pack (bs ++ [b])) (bw_pos (length (bs ++ [b])))).
Proof.
  induction n as [|n IH]; intros bs H pre b.
  - apply write_short. lia.
  - destruct (Nat.lt_ge_cases (length bs) 8) as [Hs|Hl]; [apply write_short; exact Hs|].
    destruct bs as [|b0 [|b1 [|b2 [|b3 [|b4 [|b5 [|b6 [|b7 r]]]]]]]]; try (exfalso; simpl in Hl; lia).
    change ((b0 :: b1 :: b2 :: b3 :: b4 :: b5 :: b6 :: b7 :: r) ++ [b])
      with (b0 :: b1 :: b2 :: b3 :: b4 :: b5 :: b6 :: b7 :: (r ++ [b])).
    change (pack (b0 :: b1 :: b2 :: b3 :: b4 :: b5 :: b6 :: b7 :: r))
      with (Ascii b0 b1 b2 b3 b4 b5 b6 b7 :: pack r).
    change (pack (b0 :: b1 :: b2 :: b3 :: b4 :: b5 :: b6 :: b7 :: (r ++ [b])))
      with (Ascii b0 b1 b2 b3 b4 b5 b6 b7 :: pack (r ++ [b])).
    change (length (b0 :: b1 :: b2 :: b3 :: b4 :: b5 :: b6 :: b7 :: r)) with (8 + length r)%nat.
    change (length (b0 :: b1 :: b2 :: b3 :: b4 :: b5 :: b6 :: b7 :: (r ++ [b]))) with (8 + length (r ++ [b]))%nat.
    rewrite !bw_pos_add8.
    rewrite (app_assoc pre [Ascii b0 b1 b2 b3 b4 b5 b6 b7] (pack r) : pre ++ _ :: pack r = _).
    rewrite (app_assoc pre [Ascii b0 b1 b2 b3 b4 b5 b6 b7] (pack (r ++ [b])) : pre ++ _ :: pack (r ++ [b]) = _).
    apply IH. simpl in H. lia.
Qed.

Lemma gen_BitWriter_write_eq bs b : gen_BitWriter_write (bw_of_bits bs) b = Ok (bw_of_bits (bs ++ [b])).
Proof. exact (write_gen (length bs) bs (le_n _) [] b). Qed.

(* ---- numbers: Z shifts of naturals are N shifts ---- *)
Lemma Z_shiftr_of_N x n : Z.shiftr (Z.of_N x) (Z.of_N n) = Z.of_N (N.shiftr x n).
Proof.
  rewrite Z.shiftr_div_pow2 by lia. rewrite N.shiftr_div_pow2, N2Z.inj_div, N2Z.inj_pow. reflexivity.
Qed.

Lemma Z_shiftr_of_N_nat x k : Z.shiftr (Z.of_N x) (Z.of_nat k) = Z.of_N (N.shiftr x (N.of_nat k)).
Proof. rewrite <- nat_N_Z. apply Z_shiftr_of_N. Qed.

Lemma py_rshift_of_N x k : py_rshift (Z.of_N x) (Z.of_nat k) = Ok (Z.of_N (N.shiftr x (N.of_nat k))).
Proof.
  unfold py_rshift. replace (Z.of_nat k <? 0)%Z with false by (symmetry; apply Z.ltb_ge; lia).
  rewrite Z_shiftr_of_N_nat. reflexivity.
Qed.

Lemma py_bool_land1 y : py_bool_of_int (Z.land (Z.of_N y) 1) = N.odd y.
Proof. destruct y as [|[p|p|]]; reflexivity. Qed.

Lemma write_number_loop x j : forall i bs,
  foldM (fun (self : gen_BitWriter) (v_i : Z) =>
           do t2 <- py_rshift (Z.of_N x) v_i;
           do self <- gen_BitWriter_write self (py_bool_of_int (Z.land t2 1));
           Ok self)
        (py_range (Z.of_nat i) (Z.of_nat (i + j))) (bw_of_bits bs)
  = Ok (bw_of_bits (bs ++ number_bits (N.shiftr x (N.of_nat i)) j)).
Proof.
  induction j as [|j IH]; intros i bs.
  - rewrite Nat.add_0_r, py_range_nil. cbn [foldM number_bits]. rewrite app_nil_r. reflexivity.
  - rewrite py_range_cons by lia. cbn [foldM number_bits].
    rewrite py_rshift_of_N. cbn [bind]. rewrite py_bool_land1, gen_BitWriter_write_eq. cbn [bind].
    replace (Z.of_nat i + 1)%Z with (Z.of_nat (S i)) by lia.
    replace (i + S j)%nat with (S i + j)%nat by lia.
    rewrite IH, <- app_assoc. cbn [app].
    rewrite Nat2N.inj_succ, N.shiftr_succ_r. reflexivity.
Qed.

Lemma gen_BitWriter_write_number_eq bs x k :
  gen_BitWriter_write_number (bw_of_bits bs) (Z.of_N x) (Z.of_nat k)
  = do nb <- write_number x k; Ok (bw_of_bits (bs ++ nb)).
Proof.
  unfold gen_BitWriter_write_number, write_number. rewrite py_rshift_of_N. cbn [bind].
  replace (Z.of_N (N.shiftr x (N.of_nat k)) =? 0)%Z with (N.shiftr x (N.of_nat k) =? 0)%N
    by (destruct (N.shiftr x (N.of_nat k)); reflexivity).
  destruct (N.shiftr x (N.of_nat k) =? 0)%N; cbn [negb bind]; [|reflexivity].
  pose proof (write_number_loop x k 0 bs) as L. cbn [Z.of_nat Nat.add N.of_nat] in L.
  rewrite L. cbn [bind]. rewrite N.shiftr_0_r. reflexivity.
Qed.

Lemma gen_BitWriter_write_byte_eq bs x :
  gen_BitWriter_write_byte (bw_of_bits bs) (Z.of_N x) = do nb <- write_byte x; Ok (bw_of_bits (bs ++ nb)).
Proof.
  unfold gen_BitWriter_write_byte, write_byte. change 8%Z with (Z.of_nat 8).
  rewrite (gen_BitWriter_write_number_eq bs x 8).
  destruct (write_number x 8); reflexivity.
Qed.

(* ---- BitReader ---- *)
Lemma gen_BitReader_init_eq data : gen_BitReader___init__ data = Ok (br_at data 0).
Proof. reflexivity. Qed.

Lemma br_at_qr data q r : (r < 8)%nat ->
  br_at data (8 * q + r) = mk_gen_BitReader data (Z.of_nat q) (Z.of_nat r).
Proof.
  intros H. unfold br_at. replace (8 * q + r)%nat with (r + q * 8)%nat by lia.
  rewrite Nat.div_add, Nat.mod_add, Nat.div_small, Nat.mod_small by lia. reflexivity.
Qed.

Lemma br_at_q7 data q : br_at data (S (8 * q + 7)) = mk_gen_BitReader data (Z.of_nat q + 1) 0.
Proof.
  replace (S (8 * q + 7)) with (8 * S q + 0)%nat by lia. rewrite br_at_qr by lia.
  rewrite Nat2Z.inj_succ. reflexivity.
Qed.

(* reading bit r of byte q *)
Lemma read_at data q r a : (r < 8)%nat ->
  (py_len data <=? Z.of_nat q)%Z = false ->
  py_bytes_index data (Z.of_nat q) = Ok (byte_to_int a) ->
  gen_BitReader_read (mk_gen_BitReader data (Z.of_nat q) (Z.of_nat r))
  = Ok (nth r (byte_bits a) false, br_at data (S (8 * q + r))).
Proof.
  intros Hr H1 H2.
  destruct r as [|[|[|[|[|[|[|[|r]]]]]]]]; try (exfalso; lia); clear Hr;
    [rewrite <- (Nat.add_succ_r (8 * q)), br_at_qr by lia ..|rewrite br_at_q7];
    unfold gen_BitReader_read;
    cbn [BitReader__bytes BitReader__byte_pos BitReader__bit_pos]; rewrite H1, H2; cbn [bind];
    destruct a as [b0 b1 b2 b3 b4 b5 b6 b7];
    destruct b0, b1, b2, b3, b4, b5, b6, b7; reflexivity.
Qed.

Lemma skipn_S_cons {A} n : forall (l : list A) b r, skipn n l = b :: r -> skipn (S n) l = r.
Proof.
  induction n as [|n IH]; intros l b r H.
  - simpl in H. subst l. reflexivity.
  - destruct l as [|x l]; [discriminate|]. rewrite skipn_cons in *. eapply IH; eassumption.
Qed.

Lemma gen_BitReader_read_eq data n : (n <= 8 * length data)%nat ->
  gen_BitReader_read (br_at data n) = do br <- br_read (skipn n (unpack data)); Ok (fst br, br_at data (S n)).
Proof.
  intros H.
  assert (Hn : n = (8 * (n / 8) + n mod 8)%nat) by (apply Nat.div_mod; lia).
  assert (Hr : (n mod 8 < 8)%nat) by (apply Nat.mod_upper_bound; lia).
  set (q := (n / 8)%nat) in *. set (r := (n mod 8)%nat) in *. clearbody q r. subst n.
  rewrite br_at_qr by exact Hr.
  destruct (Nat.eq_dec q (length data)) as [->|Hq].
  - assert (r = 0)%nat by lia. subst r.
    rewrite skipn_all2 by (rewrite length_unpack; lia).
    unfold gen_BitReader_read. cbn [BitReader__bytes BitReader__byte_pos br_read bind].
    unfold py_len. rewrite Z.leb_refl. reflexivity.
  - destruct (@nth_split _ q data zero) as (pre & post & Hd & Hl); [lia|].
    set (a := nth q data zero) in *. clearbody a.
    assert (Hs : skipn (8 * q + r) (unpack data) = skipn r (byte_bits a) ++ unpack post).
    { rewrite Hd, unpack_app, skipn_app, skipn_all2 by (rewrite length_unpack; lia).
      rewrite length_unpack, Hl. replace (8 * q + r - 8 * q)%nat with r by lia.
      change (unpack (a :: post)) with (byte_bits a ++ unpack post).
      destruct a as [b0 b1 b2 b3 b4 b5 b6 b7].
      destruct r as [|[|[|[|[|[|[|[|r]]]]]]]]; try (exfalso; lia); reflexivity. }
    rewrite Hs, (read_at data q r a Hr).
    + destruct a as [b0 b1 b2 b3 b4 b5 b6 b7].
      destruct r as [|[|[|[|[|[|[|[|r]]]]]]]]; try (exfalso; lia); reflexivity.
    + apply Z.leb_gt. unfold py_len. lia.
    + unfold py_bytes_index. rewrite Hd at 1. rewrite <- Hl, py_index_mid. reflexivity.
Qed.

(* what the hand model's readers leave is the stream without the bits read *)
Lemma br_read_rest r b r' : br_read r = Ok (b, r') -> r' = skipn 1 r /\ (1 <= length r)%nat.
Proof. destruct r as [|x r]; [discriminate|]. intros [= _ <-]. split; [reflexivity|simpl; lia]. Qed.

Lemma read_number_rest k r x r' : read_number k r = Ok (x, r') -> r' = skipn k r /\ (k <= length r)%nat.
Proof.
  revert r x r'. induction k as [|k IH]; intros r x r'.
  - intros [= _ <-]. split; [reflexivity|lia].
  - destruct r as [|b r]; [discriminate|]. rewrite read_number_S.
    destruct (read_number k r) as [[y r2]|] eqn:E; [|discriminate]. cbn [bind fst snd]. intros [= _ <-].
    apply IH in E as [-> E]. split; [reflexivity|simpl; lia].
Qed.

Lemma lor_bit_shift b y : Z.of_N (b2n b + 2 * y) = Z.lor (Z.b2z b) (Z.shiftl (Z.of_N y) 1).
Proof. destruct b, y; reflexivity. Qed.

Lemma read_number_loop data j : forall i n acc, (n <= 8 * length data)%nat ->
  foldM (fun '((self, v_number) : gen_BitReader * Z) (v_i : Z) =>
           do (v_bit, self) <- gen_BitReader_read self;
           do t1 <- py_lshift (Z.b2z v_bit) v_i;
           let v_number := Z.lor v_number t1 in
           Ok (self, v_number))
        (py_range (Z.of_nat i) (Z.of_nat (i + j))) (br_at data n, acc)
  = do xr <- read_number j (skipn n (unpack data));
    Ok (br_at data (n + j), Z.lor acc (Z.shiftl (Z.of_N (fst xr)) (Z.of_nat i))).
Proof.
  induction j as [|j IH]; intros i n acc H.
  - rewrite !Nat.add_0_r, py_range_nil. cbn [foldM read_number bind fst].
    rewrite Z.shiftl_0_l, Z.lor_0_r. reflexivity.
  - rewrite py_range_cons by lia. cbn [foldM]. rewrite gen_BitReader_read_eq by exact H.
    destruct (skipn n (unpack data)) as [|b r] eqn:E; [reflexivity|].
    rewrite read_number_S. cbn [br_read bind fst snd].
    unfold py_lshift at 1. replace (Z.of_nat i <? 0)%Z with false by (symmetry; apply Z.ltb_ge; lia).
    cbn [bind].
    replace (Z.of_nat i + 1)%Z with (Z.of_nat (S i)) by lia.
    replace (i + S j)%nat with (S i + j)%nat by lia.
    assert (Hn : (S n <= 8 * length data)%nat).
    { assert (Hl : length (skipn n (unpack data)) = S (length r)) by (rewrite E; reflexivity).
      rewrite skipn_length, length_unpack in Hl. lia. }
    rewrite IH by exact Hn. rewrite (skipn_S_cons n _ b r E).
    replace (S n + j)%nat with (n + S j)%nat by lia.
    destruct (read_number j r) as [[y r2]|]; [|reflexivity]. cbn [bind fst snd].
    rewrite lor_bit_shift, Z.shiftl_lor, Z.shiftl_shiftl, Z.lor_assoc by lia.
    replace (1 + Z.of_nat i)%Z with (Z.of_nat (S i)) by lia. reflexivity.
Qed.

Lemma gen_BitReader_read_number_eq data n k : (n <= 8 * length data)%nat ->
  gen_BitReader_read_number (br_at data n) (Z.of_nat k)
  = do xr <- read_number k (skipn n (unpack data)); Ok (Z.of_N (fst xr), br_at data (n + k)).
Proof.
  intros H. unfold gen_BitReader_read_number.
  pose proof (read_number_loop data k 0 n 0%Z H) as L. cbn [Z.of_nat Nat.add] in L. rewrite L.
  destruct (read_number k (skipn n (unpack data))) as [[y r2]|]; [|reflexivity]. cbn [bind fst].
  rewrite Z.shiftl_0_r, Z.lor_0_l. reflexivity.
Qed.

Lemma gen_BitReader_read_byte_eq data n : (n <= 8 * length data)%nat ->
  gen_BitReader_read_byte (br_at data n)
  = do xr <- read_byte (skipn n (unpack data)); Ok (Z.of_N (fst xr), br_at data (n + 8)).
Proof.
  intros H. unfold gen_BitReader_read_byte, read_byte. change 8%Z with (Z.of_nat 8).
  rewrite (gen_BitReader_read_number_eq data n 8 H).
  destruct (read_number 8 (skipn n (unpack data))) as [[y r2]|]; reflexivity.
Qed.
