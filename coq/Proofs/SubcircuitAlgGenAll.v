(* T21: _get_subcircuits as a whole regenerated = the composition of the hand models. *)
Require Import Cirbo.Model.Base Cirbo.Model.Gate Cirbo.Model.Circuit Cirbo.Model.Traverse Cirbo.Model.Eval
        Cirbo.Model.PatternSim.
Require Import Cirbo.Generated.GateTypes Cirbo.Generated.PatternOps Cirbo.Model.SubcircuitPrims Cirbo.Model.SubcircuitAlg.
Require Import Cirbo.Generated.SubcircuitAlgGen Cirbo.Model.SubcircuitGlue Cirbo.Proofs.SubcircuitPrimsFacts Cirbo.Proofs.SubcircuitAlgGenCone
        Cirbo.Proofs.SubcircuitAlgGenCuts.
From Coq Require Import Permutation.

(* ---- the table of input patterns ---- *)
Lemma adict_find_set_same {V} (d : list (N * V)) k v : py_adict_find N.eqb (py_adict_set N.eqb d k v) k = Some v.
Proof.
  induction d as [|[k' v'] d IH]; simpl; [rewrite N.eqb_refl; reflexivity|].
  destruct (N.eqb_spec k k') as [->|Hne]; simpl; [rewrite N.eqb_refl; reflexivity|].
  destruct (N.eqb_spec k k'); [contradiction|exact IH].
Qed.

Lemma adict_find_set_other {V} (d : list (N * V)) k k' v :
  k' <> k -> py_adict_find N.eqb (py_adict_set N.eqb d k v) k' = py_adict_find N.eqb d k'.
Proof.
  intros Hne. induction d as [|[k0 v0] d IH]; simpl.
  - destruct (N.eqb_spec k' k); [contradiction|reflexivity].
  - destruct (N.eqb_spec k k0) as [->|H0]; simpl.
    + destruct (N.eqb_spec k' k0); [contradiction|reflexivity].
    + destruct (N.eqb_spec k' k0); [reflexivity|exact IH].
Qed.

Lemma table_find {V} (f : N -> V) : forall l d k,
  py_adict_find N.eqb (fold_left (fun d kv => py_adict_set N.eqb d (fst kv) (snd kv)) (map (fun x => (x, f x)) l) d) k =
  if existsb (N.eqb k) l then Some (f k) else py_adict_find N.eqb d k.
Proof.
  induction l as [|x l IH]; intros d k; [reflexivity|]. cbn [map fold_left existsb fst snd]. rewrite IH.
  destruct (existsb (N.eqb k) l); [rewrite orb_true_r; reflexivity|]. rewrite orb_false_r.
  destruct (N.eqb_spec k x) as [->|Hne]; [apply adict_find_set_same|apply adict_find_set_other; exact Hne].
Qed.

Lemma inputs_tt_lookup cut_size n : (n <= cut_size)%N ->
  py_adict_getitem N.eqb
    (py_adict_of_pairs N.eqb (map (fun x => (x, generate_inputs_tt x)) (nrange (N.add cut_size 1)))) n =
  Ok (generate_inputs_tt n).
Proof.
  intros Hn. unfold py_adict_getitem, py_adict_of_pairs. rewrite table_find.
  replace (existsb (N.eqb n) (nrange (N.add cut_size 1))) with true; [reflexivity|].
  symmetry. apply existsb_exists. exists n. split; [|apply N.eqb_refl].
  unfold nrange. apply in_map_iff. exists (N.to_nat n). split; [apply Nnat.N2Nat.id|]. apply in_seq. lia.
Qed.

(* ---- a loop that appends one object per element ---- *)
Lemma foldM_append {A B} (f : list B -> A -> res (list B)) (g : A -> res B) : forall l acc,
  (forall acc x, In x l -> f acc x = do y <- g x; Ok (acc ++ [y])) ->
  foldM f l acc = do ys <- mapM g l; Ok (acc ++ ys).
Proof.
  induction l as [|x l IH]; intros acc H; [cbn [foldM mapM bind]; rewrite app_nil_r; reflexivity|].
  cbn [foldM mapM]. rewrite (H acc x (or_introl eq_refl)).
  destruct (g x) as [y|e]; cbn [bind]; [|reflexivity].
  rewrite IH by (intros acc' x' Hx; apply H; right; exact Hx).
  destruct (mapM g l); cbn [bind]; [rewrite <- app_assoc; reflexivity|reflexivity].
Qed.

(* ---- the kept cuts are cuts ---- *)
Lemma filter_cuts_incl cn cuts cut : In cut (filter_cuts cn cuts) -> In cut cuts.
Proof.
  unfold filter_cuts.
  assert (H : forall (l : list (N * list label)) st, (forall ic, In ic l -> In (snd ic) cuts) ->
             (forall x, In x (fst st) -> In x cuts) ->
             forall x, In x (fst (fold_left (filter_step cn cuts) l st)) -> In x cuts).
  { induction l as [|ic l IH]; intros st Hl Hst x; [apply Hst|]. cbn [fold_left]. apply IH.
    - intros ic' Hic. apply Hl. right; exact Hic.
    - intros y. unfold filter_step. cbv zeta.
      repeat match goal with |- context [if ?b then _ else _] => destruct b end; cbn [fst]; intros Hy;
        try (apply Hst; exact Hy).
      all: apply in_app_or in Hy; destruct Hy as [Hy|[<-|[]]]; [apply Hst; exact Hy|apply Hl; left; reflexivity]. }
  apply H; [|intros x []].
  intros [i cu] Hic. apply in_combine_r in Hic. exact Hic.
Qed.

(* ---- the whole function ---- *)
Theorem gen_get_subcircuits_eq : forall set_iter fuel c cuts cn max_size cut_size,
  (forall s, Permutation (set_iter s) s) ->
  Forall (fun cut => NoDup cut /\ (py_len cut <= cut_size)%N) cuts ->
  gen_get_subcircuits set_iter fuel c cuts cn max_size cut_size =
  get_subcircuits_model set_iter fuel c cuts cn max_size.
Proof.
  intros set_iter fuel c cuts cn max_size cut_size Hperm Hcuts.
  unfold gen_get_subcircuits, get_subcircuits_model. cbv beta iota zeta.
  rewrite (map_ext (fun v_x => py_len v_x) py_len) by reflexivity.
  set (scuts := py_sort_keyed (map py_len cuts) cuts).
  assert (Hs : Forall (fun cut => NoDup cut /\ (py_len cut <= cut_size)%N) scuts).
  { apply Forall_forall. intros x Hx. rewrite Forall_forall in Hcuts. apply Hcuts.
    eapply Permutation_in; [apply py_sort_keyed_perm; apply map_length|exact Hx]. }
  rewrite gen_filter_loop_eq. cbn [bind].
  fold (filter_cuts cn scuts).
  destruct (fold_left (filter_step cn scuts) (py_enumerate scuts) ([], [])) as [good rem] eqn:Eg.
  assert (Egood : good = filter_cuts cn scuts) by (unfold filter_cuts; rewrite Eg; reflexivity).
  cbn [fst]. rewrite <- Egood.
  rewrite (foldM_ext _ (fill_cut set_iter fuel c)) by (intros s x; apply gen_fill_cut_eq).
  destruct (foldM (fill_cut set_iter fuel c) good cn) as [cn'|e]; cbn [bind]; [|reflexivity].
  destruct (top_sort true c) as [order|e]; cbn [bind]; [|reflexivity].
  rewrite (map_ext (fun '(v_i, v_node) => (v_node, v_i)) (fun il : N * label => (snd il, fst il)))
    by (intros [i l]; reflexivity).
  set (node_pos := py_dict_of_pairs _).
  rewrite map_id.
  set (good' := filter _ good).
  rewrite (foldM_append _ (subcircuit_of_cut set_iter c cn' node_pos)).
  - cbn [app]. destruct (mapM _ good'); reflexivity.
  - intros acc cut Hin.
    assert (Hc : NoDup cut /\ (py_len cut <= cut_size)%N).
    { rewrite Forall_forall in Hs. apply Hs. apply (filter_cuts_incl cn). rewrite <- Egood.
      unfold good' in Hin. apply filter_In in Hin. apply Hin. }
    destruct Hc as [Hnd Hle].
    rewrite gen_get_subcircuits_cut_eq.
    + unfold subcircuit_of_cut. cbv zeta. change (py_adict_get labels_eqb cn' cut []) with (cm_get cn' cut []).
      destruct (mapM (py_dict_getitem node_pos) (set_iter (cm_get cn' cut []))); cbn [bind]; [|reflexivity].
      destruct (simulate_cone _ _ _); cbn [bind]; [|reflexivity].
      destruct (cone_size _ _ _); cbn [bind]; [|reflexivity].
      destruct (cone_outputs _ _ _); reflexivity.
    + apply Hperm.
    + apply Hperm.
    + rewrite (Permutation_length (Hperm _)), py_set_of_list_nodup_id by exact Hnd. reflexivity.
    + intros x. apply py_set_of_list_memb.
    + apply inputs_tt_lookup. exact Hle.
Qed.
