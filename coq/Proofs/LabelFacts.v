(* _truth_table_to_label is injective on tables without empty rows. *)
Require Import Cirbo.Model.Base Cirbo.Model.Db.

Definition bit_char (b : bool) : ascii := if b then "1"%char else "0"%char.

Lemma list_ascii_of_string_app a b :
  list_ascii_of_string (a ++ b)%string = list_ascii_of_string a ++ list_ascii_of_string b.
Proof. induction a as [|x a IH]; simpl; [reflexivity|rewrite IH; reflexivity]. Qed.

Fixpoint enc_rows (t : table) : list ascii :=
  match t with
  | [] => []
  | [x] => map bit_char x
  | x :: r => map bit_char x ++ "_"%char :: enc_rows r
  end.

Lemma enc_rows_label t : list_ascii_of_string (truth_table_to_label t) = enc_rows t.
Proof.
  unfold truth_table_to_label. induction t as [|x t IH]; [reflexivity|].
  destruct t as [|y t].
  - simpl. unfold row_label. apply list_ascii_of_string_of_list_ascii.
  - change (map row_label (x :: y :: t)) with (row_label x :: map row_label (y :: t)).
    change (join_labels (row_label x :: map row_label (y :: t)))
      with (row_label x ++ "_" ++ join_labels (map row_label (y :: t)))%string.
    rewrite !list_ascii_of_string_app, IH. unfold row_label at 1. rewrite list_ascii_of_string_of_list_ascii.
    reflexivity.
Qed.

Definition sep_or_end (r : list ascii) : Prop := r = [] \/ exists r', r = "_"%char :: r'.

Lemma chars_split : forall r1 r2 rest1 rest2,
  map bit_char r1 ++ rest1 = map bit_char r2 ++ rest2 -> sep_or_end rest1 -> sep_or_end rest2 ->
  r1 = r2 /\ rest1 = rest2.
Proof.
  induction r1 as [|b1 r1 IH]; intros [|b2 r2] rest1 rest2 H H1 H2; simpl in H.
  - auto.
  - exfalso. destruct H1 as [->|(r' & ->)]; [discriminate|]. destruct b2; discriminate.
  - exfalso. destruct H2 as [->|(r' & ->)]; [discriminate|]. destruct b1; discriminate.
  - injection H as Hb H. destruct (IH _ _ _ H H1 H2) as (-> & ->).
    split; [|reflexivity]. f_equal. destruct b1, b2; simpl in Hb; congruence.
Qed.

Definition rows_nonempty (t : table) : Prop := Forall (fun row : list bool => row <> []) t.

Lemma enc_rows_cons x y t : enc_rows (x :: y :: t) = map bit_char x ++ "_"%char :: enc_rows (y :: t).
Proof. reflexivity. Qed.

Lemma enc_rows_inj : forall t1 t2, rows_nonempty t1 -> rows_nonempty t2 -> enc_rows t1 = enc_rows t2 -> t1 = t2.
Proof.
  induction t1 as [|x1 t1 IH]; intros t2 H1 H2 E.
  - destruct t2 as [|x2 [|y2 t2]]; [reflexivity| |].
    + inversion H2; subst. simpl in E. destruct x2; [congruence|discriminate].
    + rewrite enc_rows_cons in E. simpl in E. destruct x2; discriminate.
  - inversion H1 as [|? ? Hx1 H1']; subst. destruct t1 as [|y1 t1].
    + destruct t2 as [|x2 [|y2 t2]].
      * simpl in E. destruct x1; [congruence|discriminate].
      * simpl in E. rewrite <- (app_nil_r (map bit_char x1)), <- (app_nil_r (map bit_char x2)) in E.
        apply chars_split in E as [-> _]; [reflexivity|left; reflexivity|left; reflexivity].
      * rewrite enc_rows_cons in E. simpl in E. rewrite <- (app_nil_r (map bit_char x1)) in E.
        apply chars_split in E as [_ E]; [discriminate|left; reflexivity|right; eauto].
    + rewrite enc_rows_cons in E. destruct t2 as [|x2 [|y2 t2]].
      * simpl in E. destruct x1; discriminate.
      * simpl in E. rewrite <- (app_nil_r (map bit_char x2)) in E.
        apply chars_split in E as [_ E]; [discriminate|right; eauto|left; reflexivity].
      * rewrite enc_rows_cons in E. inversion H2 as [|? ? Hx2 H2']; subst.
        apply chars_split in E as [-> E]; [|right; eauto|right; eauto]. injection E as E.
        f_equal. apply IH; assumption.
Qed.

Theorem label_injective t1 t2 :
  rows_nonempty t1 -> rows_nonempty t2 -> truth_table_to_label t1 = truth_table_to_label t2 -> t1 = t2.
Proof.
  intros H1 H2 E. apply enc_rows_inj; [exact H1|exact H2|]. rewrite <- !enc_rows_label, E. reflexivity.
Qed.
