(* C10: TOTALITY of a left connection.  connect_circuit base other tc oc false name ap
   returns normally as soon as
     - base and other are well formed, the block name is not a block of base,
     - the connectors exist, oc are pairwise distinct INPUT gates of other, |tc| = |oc|,
     - no copied gate clashes with a gate of base:  prefix ++ l is not a gate of base for
       every gate l of other that is not a connector,
     - no copied block clashes with a block of base:  prefix ++ k is not a block of base for
       every block k of other.
   (The copied labels cannot clash with each other: prefixing is injective.)
   Each condition is also necessary (the corresponding check raises). *)
Require Import Cirbo.Model.Base Cirbo.Model.Gate Cirbo.Model.Circuit Cirbo.Model.Traverse
        Cirbo.Model.Connect Cirbo.Model.WF.
Require Import Cirbo.Proofs.DictFacts Cirbo.Proofs.WFBase Cirbo.Proofs.WFSimple Cirbo.Proofs.WFEmplace
        Cirbo.Proofs.WFConnect1 Cirbo.Proofs.WFConnect2 Cirbo.Proofs.TopSortWF Cirbo.Proofs.SemExtConnect
        Cirbo.Proofs.SemConnectStruct Cirbo.Proofs.SemConnectLeft.
From Coq Require Import Permutation.

Lemma append_inj_l (p x y : string) : (p ++ x)%string = (p ++ y)%string -> x = y.
Proof. induction p as [|c p IH]; simpl; intros H; [exact H|]. injection H as H. apply IH, H. Qed.

Lemma map_list_total (m : dict label) : forall ls,
  (forall x, In x ls -> dmem m x = true) -> exists r, map_list m ls = Ok r.
Proof.
  induction ls as [|x ls IH]; intros H; [exists []; reflexivity|].
  destruct IH as [r Hr]; [intros y Hy; apply H; right; exact Hy|].
  pose proof (H x (or_introl eq_refl)) as Hx. apply dmem_true_iff in Hx. destruct Hx as [v Hv].
  exists (v :: r). unfold map_list in *. simpl. unfold map_get at 1. rewrite Hv. simpl. rewrite Hr. reflexivity.
Qed.

Lemma set_inputs_loop_total c : forall ins acc,
  (forall i, In i ins -> is_input_gate c i = true) -> NoDup (acc ++ ins) ->
  exists r, set_inputs_loop c ins acc = Ok r.
Proof.
  induction ins as [|i ins IH]; intros acc Hi Hnd; simpl; [eauto|].
  pose proof (Hi i (or_introl eq_refl)) as H1. unfold is_input_gate in H1.
  destruct (dget (gates c) i) as [g|] eqn:Eg; [|discriminate].
  apply get_gate_ok in Eg. rewrite Eg. simpl. rewrite H1. simpl.
  assert (Hm : memb i acc = false).
  { apply memb_nIn. intros Hin. apply NoDup_remove_2 in Hnd. apply Hnd, in_or_app. left; exact Hin. }
  rewrite Hm. apply IH.
  - intros j Hj; apply Hi; right; exact Hj.
  - rewrite <- app_assoc. exact Hnd.
Qed.

Lemma NoDup_map_inj {A B} (f : A -> B) l :
  (forall x y, In x l -> In y l -> f x = f y -> x = y) -> NoDup l -> NoDup (map f l).
Proof.
  intros Hinj Hnd; induction Hnd as [|x l Hx Hnd IH]; simpl; constructor.
  - intros Hin. apply in_map_iff in Hin. destruct Hin as (y & E & Hy).
    assert (y = x) by (apply Hinj; [right; exact Hy|left; reflexivity|exact E]). subst y. contradiction.
  - apply IH. intros a b Ha Hb; apply Hinj; right; assumption.
Qed.

Lemma NoDup_app_intro {A} (l m : list A) :
  NoDup l -> NoDup m -> (forall x, In x l -> ~ In x m) -> NoDup (l ++ m).
Proof.
  intros Hl Hm Hd; induction Hl as [|x l Hx Hl IH]; simpl; [exact Hm|]. constructor.
  - intros Hin. apply in_app_or in Hin. destruct Hin as [Hin|Hin]; [contradiction|].
    apply (Hd x); [left; reflexivity|exact Hin].
  - apply IH. intros y Hy; apply Hd; right; exact Hy.
Qed.


Lemma keep_ins_total c2 : forall ins,
  (forall i, In i ins -> has_gate c2 i = true) ->
  exists k, mapM (fun i => match dget (gates c2) i with
                           | Some g => Ok (i, gtype_beq (gtyp g) INPUT)
                           | None => Err PyKeyError end) ins = Ok k.
Proof.
  induction ins as [|i ins IH]; intros H; [exists []; reflexivity|].
  destruct IH as [k Hk]; [intros j Hj; apply H; right; exact Hj|].
  destruct (has_gate_get _ _ (H i (or_introl eq_refl))) as [g Hg].
  eexists. simpl. rewrite Hg. simpl. rewrite Hk. reflexivity.
Qed.

Lemma blocks_loop_total (prefix : string) (o2n : dict label) : forall (bs : dict block) (c : circuit),
  (forall kb l, In kb bs -> In l (binputs (snd kb) ++ bgates (snd kb) ++ boutputs (snd kb)) ->
                dmem o2n l = true) ->
  NoDup (dkeys bs) ->
  (forall kb, In kb bs -> dmem (blocks c) (prefix ++ fst kb)%string = false) ->
  exists c4, foldM (fun c (kb : label * block) =>
             let nb := (prefix ++ fst kb)%string in
             do _ <- check_block_doesnt_exist nb c;
             do bi <- map_list o2n (binputs (snd kb));
             do bg <- map_list o2n (bgates (snd kb));
             do bo <- map_list o2n (boutputs (snd kb));
             Ok (set_blocks c (dset (blocks c) nb (mkBlock bi bg bo)))) bs c = Ok c4.
Proof.
  induction bs as [|[k b] bs IH]; intros c Hl Hnd Hf; [exists c; reflexivity|].
  cbn [foldM]. cbv zeta. cbn [fst snd].
  pose proof (Hf (k, b) (or_introl eq_refl)) as Hf0. cbn [fst] in Hf0.
  unfold check_block_doesnt_exist at 1. rewrite Hf0. cbn [bind].
  destruct (map_list_total o2n (binputs b)) as [bi Hbi].
  { intros x Hx. apply (Hl (k, b) x (or_introl eq_refl)). simpl. apply in_or_app; left; exact Hx. }
  destruct (map_list_total o2n (bgates b)) as [bg Hbg].
  { intros x Hx. apply (Hl (k, b) x (or_introl eq_refl)). simpl. apply in_or_app; right; apply in_or_app; left; exact Hx. }
  destruct (map_list_total o2n (boutputs b)) as [bo Hbo].
  { intros x Hx. apply (Hl (k, b) x (or_introl eq_refl)). simpl. apply in_or_app; right; apply in_or_app; right; exact Hx. }
  rewrite Hbi, Hbg, Hbo. cbn [bind].
  simpl in Hnd. inversion Hnd as [|? ? Hk Hnd']; subst.
  apply IH.
  - intros kb x Hin; apply Hl; right; exact Hin.
  - exact Hnd'.
  - intros kb Hin. simpl. rewrite dmem_dset.
    destruct (leqb_spec (prefix ++ fst kb)%string (prefix ++ k)%string) as [E|_].
    + exfalso. apply append_inj_l in E. apply Hk. rewrite <- E. apply in_map, Hin.
    + simpl. apply Hf. right; exact Hin.
Qed.

Section Total.
  Variables (base other : circuit) (tc oc : list label) (name : label) (prefix : string).
  Let mapping := build_mapping oc tc [].
  Let ren := ren_of mapping prefix.
  Hypothesis Wb : WF base.
  Hypothesis Wo : WF other.
  Hypothesis Hname : dmem (blocks base) name = false.
  Hypothesis Htc : forall t, In t tc -> has_gate base t = true.
  Hypothesis Hoc : forall o, In o oc -> is_input_gate other o = true.
  Hypothesis Hnd : NoDup oc.
  Hypothesis Hlen : length tc = length oc.
  Hypothesis Hfresh : forall l, has_gate other l = true -> ~ In l oc -> has_gate base (prefix ++ l)%string = false.
  Hypothesis Hbfresh : forall k, dmem (blocks other) k = true -> dmem (blocks base) (prefix ++ k)%string = false.

  Lemma tot_vals o t : dget mapping o = Some t -> has_gate base t = true.
  Proof. intros H. apply Htc. eapply bm_nil_vals; exact H. Qed.

  Lemma tot_unmapped l : dget mapping l = None <-> ~ In l oc.
  Proof. apply bm_nil_none_iff, Hlen. Qed.

  Lemma tot_ren_unmapped l : dget mapping l = None -> ren l = (prefix ++ l)%string.
  Proof. unfold ren, ren_of; intros ->; reflexivity. Qed.

  Definition KeysInv (done : list label) (o2n : dict label) : Prop :=
    (forall o, dmem mapping o = true -> dmem o2n o = true) /\ (forall l, In l done -> dmem o2n l = true).

  Variable order : list label.
  Hypothesis Hord : top_sort true other = Ok order.

  Lemma tot_order l : has_gate other l = true <-> In l order.
  Proof.
    pose proof (top_sort_perm other true order Wo Hord) as Hperm. rewrite has_gate_key. split; intros Hl.
    - eapply Permutation_in; [apply Permutation_sym, Hperm|exact Hl].
    - eapply Permutation_in; [exact Hperm|exact Hl].
  Qed.

  Lemma tot_step done l rest cur o2n blk :
    order = done ++ l :: rest ->
    CInv base other tc oc false prefix done cur o2n blk -> KeysInv done o2n ->
    exists cur' o2n' blk', conn_step other mapping prefix false (cur, o2n, blk) l = Ok (cur', o2n', blk') /\
                           KeysInv (done ++ [l]) o2n'.
  Proof.
    intros Eo CI [K1 K2]. destruct CI as [Io Im Ic Ib If Iy Ik Iu Ibl].
    fold mapping in Io, Ic, If, Iy. fold ren in Io, Ic, If, Iy.
    pose proof (top_sort_nodup other true order Wo Hord) as Hndo. rewrite Eo in Hndo.
    assert (Hl_notdone : ~ In l done).
    { apply NoDup_remove_2 in Hndo. intros Hin; apply Hndo, in_or_app; left; exact Hin. }
    assert (Hl : has_gate other l = true) by (apply tot_order; rewrite Eo; apply in_or_app; right; left; reflexivity).
    destruct (has_gate_get _ _ Hl) as [g Hg].
    unfold conn_step. apply get_gate_ok in Hg. rewrite Hg. apply get_gate_ok in Hg. simpl bind.
    destruct (dmem mapping l) eqn:Em; simpl negb; cbv iota.
    - (* a connector: nothing to do *)
      exists cur, o2n, blk. split; [reflexivity|]. split; [exact K1|].
      intros x Hx. apply in_app_or in Hx. destruct Hx as [Hx|[<-|[]]]; [apply K2, Hx|apply K1, Em].
    - apply dmem_false_iff in Em. pose proof (tot_ren_unmapped l Em) as Rl.
      set (nl := (prefix ++ l)%string) in *. set (o2n' := dset o2n l nl).
      assert (Io' : forall o t, dget o2n' o = Some t -> t = ren o).
      { intros o t Ho. unfold o2n' in Ho. rewrite dget_dset in Ho. destruct (leqb_spec o l) as [->|_].
        - injection Ho as <-. symmetry; exact Rl.
        - apply Io, Ho. }
      assert (Hopsdone : forall o, In o (gops g) -> In o done).
      { intros o Ho. eapply (top_sort_true_prefix other order Wo Hord done l rest Eo).
        rewrite (ops_of_get _ _ _ Hg). exact Ho. }
      destruct (map_list_total o2n' (gops g)) as [ops Hops].
      { intros o Ho. unfold o2n'. rewrite dmem_dset. rewrite (K2 o (Hopsdone o Ho)). apply orb_true_r. }
      cbv zeta. fold nl o2n'. rewrite Hops. simpl bind.
      pose proof (map_list_ren _ ren _ _ Io' Hops) as Eops.
      assert (Hnew : has_gate cur nl = false).
      { destruct (has_gate cur nl) eqn:E; [|reflexivity]. exfalso.
        destruct (Iy nl E) as [Hb|(l' & Hin & Hm & E')].
        - pose proof (Hfresh l Hl (proj1 (tot_unmapped l) Em)) as Hf. fold nl in Hf. congruence.
        - rewrite (tot_ren_unmapped l' Hm) in E'. apply append_inj_l in E'. subst l'. contradiction. }
      assert (Hex : forall o, In o ops -> has_gate cur o = true).
      { intros x Hx. rewrite Eops in Hx. apply in_map_iff in Hx. destruct Hx as (o & <- & Ho).
        pose proof (Hopsdone o Ho) as Hod.
        destruct (dget mapping o) as [t|] eqn:Emo.
        - unfold ren, ren_of. fold mapping. rewrite Emo. apply Im. eapply tot_vals; exact Emo.
        - assert (Hgo : has_gate other o = true) by (eapply (wf_ops other Wo); eassumption).
          destruct (has_gate_get _ _ Hgo) as [go Hgo'].
          eapply get_has_gate. apply (Ic o go Hod Hgo'). right; exact Emo. }
      unfold emplace_gate, check_label_doesnt_exist. rewrite Hnew. simpl bind.
      replace (check_gates_exist ops cur) with (Ok (A := unit) tt)
        by (symmetry; apply check_gates_exist_ok; exact Hex).
      simpl bind. eexists; eexists; eexists. split; [reflexivity|]. split.
      + intros o Ho. unfold o2n'. rewrite dmem_dset, (K1 o Ho). apply orb_true_r.
      + intros x Hx. unfold o2n'. rewrite dmem_dset. apply in_app_or in Hx.
        destruct Hx as [Hx|[<-|[]]]; [rewrite (K2 x Hx); apply orb_true_r|rewrite leqb_refl; reflexivity].
  Qed.

  Lemma tot_loop : forall rest done cur o2n blk,
    order = done ++ rest ->
    CInv base other tc oc false prefix done cur o2n blk -> KeysInv done o2n ->
    exists c1 o2n1 blk1,
      foldM (conn_step other mapping prefix false) rest (cur, o2n, blk) = Ok (c1, o2n1, blk1) /\
      KeysInv order o2n1.
  Proof.
    induction rest as [|l rest IH]; intros done cur o2n blk Eo CI K.
    - rewrite app_nil_r in Eo. subst done. exists cur, o2n, blk. split; [reflexivity|exact K].
    - destruct (tot_step done l rest cur o2n blk Eo CI K) as (cur' & o2n' & blk' & Hs & K').
      cbn [foldM]. rewrite Hs. cbn [bind].
      apply (IH (done ++ [l])); [rewrite <- app_assoc; exact Eo| |exact K'].
      pose proof (top_sort_nodup other true order Wo Hord) as Hndo. rewrite Eo in Hndo.
      apply (cinv_step base other tc oc false prefix tot_vals (fun E => False_ind _ (Bool.diff_false_true E))
                       done l rest (cur, o2n, blk) (cur', o2n', blk') Hndo CI Hs).
  Qed.

  (* every gate of other has its image in the circuit after the loop *)
  Lemma tot_image c1 o2n blk :
    CInv base other tc oc false prefix order c1 o2n blk ->
    forall o, has_gate other o = true -> has_gate c1 (ren o) = true.
  Proof.
    intros CI o Ho. destruct CI as [Io Im Ic Ib If Iy Ik Iu Ibl].
    destruct (dget mapping o) as [t|] eqn:Em.
    - unfold ren, ren_of. fold mapping. rewrite Em. apply Im. eapply tot_vals; exact Em.
    - destruct (has_gate_get _ _ Ho) as [g Hg]. eapply get_has_gate.
      apply (Ic o g); [apply tot_order, Ho|exact Hg|right; exact Em].
  Qed.

  Lemma tot_tail c1 o2n blk :
    CInv base other tc oc false prefix order c1 o2n blk -> KeysInv order o2n -> WF c1 ->
    exists r, conn_tail base other tc oc name prefix (c1, o2n, blk) = Ok r.
  Proof.
    intros CI [K1 K2] W1. pose proof (tot_image c1 o2n blk CI) as Himg.
    destruct CI as [Io Im Ic Ib If Iy Ik Iu Ibl].
    fold mapping in Io, Ic, If, Iy. fold ren in Io, Ic, If, Iy.
    assert (Kg : forall x, has_gate other x = true -> dmem o2n x = true).
    { intros x Hx. apply K2, tot_order, Hx. }
    unfold conn_tail; cbv beta iota.
    (* outputs *)
    destruct (map_list_total o2n (filter (fun o => negb (memb o oc)) (outputs other))) as [new_outs Hno].
    { intros x Hx. apply filter_In in Hx. apply Kg, (wf_outs other Wo), Hx. }
    rewrite Hno. cbn [bind]. pose proof (map_list_ren _ ren _ _ Io Hno) as Eno.
    set (outs := filter (fun o => negb (memb o tc)) (outputs c1) ++ new_outs).
    assert (E2 : set_outputs c1 outs = Ok (set_outputs_raw c1 outs)).
    { unfold set_outputs. replace (check_gates_exist outs c1) with (Ok (A := unit) tt); [reflexivity|].
      symmetry. apply check_gates_exist_ok. intros x Hx. unfold outs in Hx. apply in_app_or in Hx.
      destruct Hx as [Hx|Hx].
      - apply filter_In in Hx. destruct Hx as [Hx _]. rewrite Iu in Hx. apply Im, (wf_outs base Wb), Hx.
      - rewrite Eno in Hx. apply in_map_iff in Hx. destruct Hx as (o & <- & Ho). apply filter_In in Ho.
        apply Himg, (wf_outs other Wo), Ho. }
    rewrite E2. cbn [bind]. set (c2 := set_outputs_raw c1 outs).
    assert (G2 : gates c2 = gates c1) by reflexivity.
    (* inputs *)
    destruct (keep_ins_total c2 (inputs base)) as [keep Hk].
    { intros i Hi. unfold has_gate. rewrite G2. apply Im. apply (wf_inputs base Wb) in Hi.
      destruct Hi as (g & Hg & _). eapply get_has_gate; exact Hg. }
    rewrite Hk. cbn [bind]. apply keep_ins_spec in Hk. rewrite Hk.
    destruct (map_list_total o2n (filter (fun i => negb (memb i oc)) (inputs other))) as [new_ins Hni].
    { intros x Hx. apply filter_In in Hx. destruct Hx as [Hx _]. apply Kg.
      apply (wf_inputs other Wo) in Hx. destruct Hx as (g & Hg & _). eapply get_has_gate; exact Hg. }
    rewrite Hni. cbn [bind]. pose proof (map_list_ren _ ren _ _ Io Hni) as Eni.
    set (ins := filter (is_input_gate c2) (inputs base) ++ new_ins).
    assert (Hnew_in : forall x, In x new_ins ->
              exists y g, x = ren y /\ In y (inputs other) /\ ~ In y oc /\ dget (gates other) y = Some g /\
                          gtyp g = INPUT /\ dget (gates c1) x = Some (mkGate (gtyp g) (map ren (gops g)))).
    { intros x Hx. rewrite Eni in Hx. apply in_map_iff in Hx. destruct Hx as (y & <- & Hy).
      apply filter_In in Hy. destruct Hy as [Hy Hm]. apply negb_true_iff, memb_nIn in Hm.
      pose proof Hy as Hy'. apply (wf_inputs other Wo) in Hy'. destruct Hy' as (g & Hg & Ht).
      exists y, g. repeat split; try assumption.
      apply (Ic y g); [apply tot_order; eapply get_has_gate; exact Hg|exact Hg|right; apply tot_unmapped, Hm]. }
    assert (Hins_input : forall i, In i ins -> is_input_gate c2 i = true).
    { intros i Hi. unfold ins in Hi. apply in_app_or in Hi. destruct Hi as [Hi|Hi].
      - apply filter_In in Hi. apply Hi.
      - destruct (Hnew_in i Hi) as (y & g & -> & _ & _ & _ & Ht & Hc).
        unfold is_input_gate. rewrite G2, Hc. simpl. apply gtype_beq_eq, Ht. }
    assert (E3 : exists c3, set_inputs c2 ins = Ok c3 /\ gates c3 = gates c1 /\ blocks c3 = blocks c1).
    { unfold set_inputs.
      replace (check_gates_exist ins c2) with (Ok (A := unit) tt).
      2:{ symmetry. apply check_gates_exist_ok. intros x Hx. apply Hins_input in Hx.
          unfold is_input_gate in Hx. unfold has_gate, dmem. destruct (dget (gates c2) x); [reflexivity|discriminate]. }
      cbn [bind].
      replace (forallb (fun kg : label * gate => negb (gtype_beq (gtyp (snd kg)) INPUT) || memb (fst kg) ins)
                       (gates c2)) with true.
      2:{ symmetry. apply forallb_forall. intros [x g] Hin. cbn [fst snd].
          destruct (gtype_beq (gtyp g) INPUT) eqn:Et; [|reflexivity]. simpl. apply gtype_beq_eq in Et.
          apply memb_In. rewrite G2 in Hin. apply (In_dget _ _ _ (wf_gkeys c1 W1)) in Hin.
          unfold ins. apply in_or_app.
          destruct (Iy x (get_has_gate _ _ _ Hin)) as [Hb|(y & Hy & Hm & ->)].
          - left. destruct (has_gate_get _ _ Hb) as [gb Hgb].
            assert (Hkeep : dget (gates c1) x = Some gb).
            { apply Ib; [exact Hgb|]. intros [E _]; discriminate. }
            rewrite Hkeep in Hin. injection Hin as ->. apply filter_In. split.
            + apply (wf_inputs base Wb). exists g; split; assumption.
            + unfold is_input_gate. rewrite G2, Hkeep. apply gtype_beq_eq, Et.
          - right. rewrite Eni. apply in_map. apply tot_order in Hy. destruct (has_gate_get _ _ Hy) as [gy Hgy].
            pose proof (Ic y gy (proj1 (tot_order y) Hy) Hgy (or_intror Hm)) as Hc. rewrite Hc in Hin.
            injection Hin as <-. simpl in Et. apply filter_In. split.
            + apply (wf_inputs other Wo). exists gy; split; assumption.
            + apply negb_true_iff, memb_nIn, tot_unmapped, Hm. }
      destruct (set_inputs_loop_total c2 ins [] Hins_input) as [acc Hacc].
      { simpl. unfold ins. apply NoDup_app_intro.
        - apply NoDup_filter, (wf_inputs_nodup base Wb).
        - rewrite Eni. apply NoDup_map_inj; [|apply NoDup_filter, (wf_inputs_nodup other Wo)].
          intros x y Hx Hy E. apply filter_In in Hx, Hy. destruct Hx as [_ Hx], Hy as [_ Hy].
          apply negb_true_iff, memb_nIn, tot_unmapped in Hx. apply negb_true_iff, memb_nIn, tot_unmapped in Hy.
          rewrite (tot_ren_unmapped x Hx), (tot_ren_unmapped y Hy) in E. eapply append_inj_l; exact E.
        - intros x Hx Hx2. apply filter_In in Hx. destruct Hx as [Hx _].
          apply (wf_inputs base Wb) in Hx. destruct Hx as (g & Hg & _). apply get_has_gate in Hg.
          destruct (Hnew_in x Hx2) as (y & gy & -> & _ & Hn & Hgy & _).
          rewrite (tot_ren_unmapped y (proj2 (tot_unmapped y) Hn)) in Hg.
          rewrite (Hfresh y (get_has_gate _ _ _ Hgy) Hn) in Hg. discriminate. }
      rewrite Hacc. cbn [bind]. eexists. split; [reflexivity|]. split; reflexivity. }
    destruct E3 as (c3 & E3 & G3 & B3). fold ins. rewrite E3. cbn [bind].
    (* blocks *)
    destruct (blocks_loop_total prefix o2n (blocks other) c3) as [c4 H4].
    { intros kb x Hin Hx. apply Kg. destruct kb as [k b]. simpl in Hx.
      apply (wf_blocks other Wo k b x); [apply In_dget; [apply (wf_bkeys other Wo)|exact Hin]|].
      apply in_app_or in Hx. destruct Hx as [Hx|Hx]; [apply in_or_app; right; apply in_or_app; left; exact Hx|].
      apply in_app_or in Hx. destruct Hx as [Hx|Hx]; [apply in_or_app; left; exact Hx|].
      apply in_or_app; right; apply in_or_app; right; exact Hx. }
    { apply (wf_bkeys other Wo). }
    { intros kb Hin. rewrite B3, Ibl. apply Hbfresh. apply dmem_keys. apply in_map, Hin. }
    cbv zeta in H4. rewrite H4. cbn [bind].
    destruct (negb (leqb name "")); [|eauto].
    destruct (map_list_total o2n (inputs other)) as [bi Hbi].
    { intros x Hx. apply Kg. apply (wf_inputs other Wo) in Hx. destruct Hx as (g & Hg & _).
      eapply get_has_gate; exact Hg. }
    destruct (map_list_total o2n (outputs other)) as [bo Hbo].
    { intros x Hx. apply Kg, (wf_outs other Wo), Hx. }
    rewrite Hbi, Hbo. cbn [bind]. eauto.
  Qed.
End Total.

(* ------------------------------------------------------------------ *)
Theorem connect_left_total base other tc oc name ap :
  WF base -> WF other ->
  dmem (blocks base) name = false ->
  (forall t, In t tc -> has_gate base t = true) ->
  (forall o, In o oc -> is_input_gate other o = true) -> NoDup oc -> length tc = length oc ->
  (forall l, has_gate other l = true -> ~ In l oc ->
             has_gate base (conn_prefix name ap ++ l)%string = false) ->
  (forall k, dmem (blocks other) k = true -> dmem (blocks base) (conn_prefix name ap ++ k)%string = false) ->
  exists r, connect_circuit base other tc oc false name ap = Ok r.
Proof.
  intros Wb Wo Hname Htc Hoc Hnd Hlen Hfresh Hbfresh.
  rewrite connect_circuit_unfold.
  unfold check_block_doesnt_exist at 1. rewrite Hname. cbn [bind].
  replace (check_gates_exist tc base) with (Ok (A := unit) tt)
    by (symmetry; apply check_gates_exist_ok; exact Htc).
  cbn [bind].
  replace (check_gates_exist oc other) with (Ok (A := unit) tt).
  2:{ symmetry; apply check_gates_exist_ok. intros o Ho. apply Hoc in Ho. unfold is_input_gate in Ho.
      unfold has_gate, dmem. destruct (dget (gates other) o); [reflexivity|discriminate]. }
  cbn [bind].
  replace (nodupb oc) with true by (symmetry; apply nodupb_NoDup, Hnd). cbn [bind].
  replace (Nat.eqb (length tc) (length oc)) with true by (symmetry; apply Nat.eqb_eq, Hlen). cbn [bind].
  replace (forallb (is_input_gate other) oc) with true by (symmetry; apply forallb_forall; exact Hoc).
  cbn [bind].
  destruct (top_sort_total other true Wo) as [order Hord]. rewrite Hord. cbn [bind].
  set (prefix := conn_prefix name ap) in *.
  assert (Hvals : forall o t, dget (build_mapping oc tc []) o = Some t -> has_gate base t = true).
  { intros o t H. apply Htc. eapply bm_nil_vals; exact H. }
  destruct (tot_loop base other tc oc prefix Wo Htc Hlen Hfresh order Hord order [] base (build_mapping oc tc []) [])
    as (c1 & o2n1 & blk1 & Hloop & K).
  - reflexivity.
  - apply (cinv_init base other tc oc false prefix).
  - split; [auto|intros l []].
  - rewrite Hloop. cbn [bind].
    pose proof (cinv_loop base other tc oc false prefix Hvals (fun E => False_ind _ (Bool.diff_false_true E))
                          order _ (top_sort_nodup other true order Wo Hord) Hloop) as CI. simpl in CI.
    assert (W1 : WF c1).
    { assert (Hi : LInv False (base, build_mapping oc tc [], [])).
      { split; [exact Wb|]. split; [intros []|exact Hvals]. }
      pose proof (left_loop False other (build_mapping oc tc []) prefix order _ _ (fun f => False_ind _ f) Hi Hloop)
        as (W1 & _). exact W1. }
    apply (tot_tail base other tc oc name prefix Wb Wo Htc Hlen Hfresh Hbfresh order Hord c1 o2n1 blk1 CI K W1).
Qed.
