(* Facts about the regenerated bench tables (Generated/BenchDispatch.v): everything here is
   re-proved by computation against what bench.py / gate.py say now.  The hand proofs about the
   parser (BenchLines.v, BenchFile.v) use the generated definitions only through these lemmas. *)
Require Import Cirbo.Model.Base Cirbo.Model.Gate Cirbo.Model.Den Cirbo.Model.Circuit Cirbo.Model.Bench
        Cirbo.Model.BenchLayout.
Require Import Cirbo.Generated.GateTypes Cirbo.Generated.BenchDispatch.
Require Import Cirbo.Proofs.BenchStrings.
Local Open Scope string_scope.

(* ---- the repaired parser: the guards of fixes D11 and D22 are present ---- *)
Lemma guards_present :
  input_eq_guard = true /\ output_eq_guard = true /\ const_keeps_operands = true.
Proof. repeat split; reflexivity. Qed.

(* ---- the dispatch table ---- *)
Lemma lookup_In tbl key h : lookup_processing tbl key = Some h -> In (key, h) tbl.
Proof.
  induction tbl as [|[k h'] tbl IH]; simpl; [discriminate|].
  destruct (String.eqb_spec key k) as [->|N]; [intros [= ->]; left; reflexivity|right; auto].
Qed.

(* characters that may not occur in an operator name *)
Definition opn_char_ok (a : ascii) : bool :=
  negb (amem a [ch_sp; ch_lb; ch_rb; ch_comma; ch_eq; ch_nl]).

Ltac each_key H :=
  apply lookup_In in H; unfold processings in H; simpl in H;
  repeat (destruct H as [H|H]; [inversion H; subst; clear H|]); [..|contradiction].

Lemma key_clean key h :
  lookup_processing processings key = Some h -> all_chars opn_char_ok key = true /\ key <> "".
Proof. intros H. each_key H; (split; [reflexivity|discriminate]). Qed.

Lemma key_upper key h : lookup_processing processings key = Some h -> upper key = key.
Proof. intros H. each_key H; reflexivity. Qed.

Lemma key_type_not_input key h : lookup_processing processings key = Some h -> htype h <> INPUT.
Proof. intros H. each_key H; discriminate. Qed.

(* the test  _body[:3].upper() == VDD_NAME  is false on a body that starts with another key *)
Lemma vdd_test_key key h r :
  lookup_processing processings key = Some h -> key <> VDD_NAME ->
  String.eqb (take vdd_prefix_len (key ++ r)) VDD_NAME = false.
Proof. intros H N. each_key H; try reflexivity; exfalso; apply N; reflexivity. Qed.

(* the only handlers that bind with no operand are the constants (and the vdd alias) *)
Lemma zero_arity_keys key h :
  lookup_processing processings key = Some h -> handler_accepts h 0 = true -> key <> VDD_NAME ->
  key = gname ALWAYS_FALSE \/ key = gname ALWAYS_TRUE.
Proof.
  intros H A N. each_key H; try discriminate A; try (left; reflexivity); try (right; reflexivity).
  exfalso; apply N; reflexivity.
Qed.

(* a constant handler binds any number of operands; other handlers never bind the single
   empty operand the parser produces for "()" in place of no operand *)
Lemma vdd_handler :
  exists h, lookup_processing processings VDD_NAME = Some h /\ htype h = ALWAYS_TRUE
            /\ handler_accepts h 0 = true.
Proof. eexists; repeat split; reflexivity. Qed.

Lemma vdd_name_length : String.length VDD_NAME = vdd_prefix_len.
Proof. reflexivity. Qed.

(* ---- keywords, cuts and strip sets of the declaration lines ---- *)
Lemma input_cut_spec : input_cut = S (String.length input_kw).
Proof. reflexivity. Qed.
Lemma output_cut_spec : output_cut = S (String.length output_kw).
Proof. reflexivity. Qed.

Lemma kw_no_eq : has_char ch_eq input_kw = false /\ has_char ch_eq output_kw = false.
Proof. split; reflexivity. Qed.

Lemma output_is_not_input r : String.prefix input_kw (output_kw ++ r) = false.
Proof. reflexivity. Qed.

Lemma strip_sets_spec a :
  (amem a input_strip = true \/ amem a output_strip = true) <->
  (a = ch_sp \/ a = ch_rb \/ a = ch_nl).
Proof.
  unfold input_strip, output_strip, amem; simpl. rewrite !orb_false_r, !orb_true_iff, !aeqb_eq.
  unfold ch_sp, ch_rb, ch_nl. simpl. tauto.
Qed.

Lemma strip_sets_equal : input_strip = output_strip.
Proof. reflexivity. Qed.

(* the first character of a keyword spelled in any letter case is neither "#" nor a newline,
   and a keyword holds no "=" *)
Lemma upper_cons_inv s k r :
  upper s = String k r -> exists a s', s = String a s' /\ upper_char a = k /\ upper s' = r.
Proof. destruct s as [|a s']; simpl; [discriminate|]. intros [= <- <-]. eauto. Qed.

Lemma upper_char_fixes_specials :
  upper_char comment_char = comment_char /\ upper_char ch_nl = ch_nl /\ upper_char ch_eq = ch_eq
  /\ upper_char ch_sp = ch_sp /\ upper_char ch_lb = ch_lb /\ upper_char ch_rb = ch_rb
  /\ upper_char ch_comma = ch_comma.
Proof. repeat split; reflexivity. Qed.

Lemma kw_first kw K :
  (K = input_kw \/ K = output_kw \/ K = VDD_NAME) -> upper kw = K ->
  exists a r, kw = String a r /\ a <> comment_char /\ a <> ch_nl.
Proof.
  intros HK E.
  assert (exists k r, K = String k r /\ k <> comment_char /\ k <> ch_nl) as [k [r [-> [N1 N2]]]].
  { destruct HK as [-> | [-> | ->]]; eexists; eexists; (split; [reflexivity|split; discriminate]). }
  apply upper_cons_inv in E as [a [s' [-> [Ha _]]]]. exists a, s'. split; [reflexivity|].
  split; intros ->; [apply N1|apply N2]; rewrite <- Ha; reflexivity.
Qed.

(* ---- the printer ---- *)
Lemma format_gate_shape l g :
  gtyp g <> INPUT ->
  format_gate l g = l ++ " = " ++ opname (gtyp g) ++ "(" ++ String.concat ", " (gops g) ++ ")".
Proof. destruct g as [t ops]; simpl; intros N. destruct t; try contradiction; reflexivity. Qed.

(* printing a type name and dispatching on it gives a handler that builds the same type *)
Lemma opname_dispatch t :
  t <> INPUT ->
  exists h, lookup_processing processings (upper (opname t)) = Some h /\ htype h = t.
Proof. intros N. destruct t; try contradiction; eexists; split; reflexivity. Qed.

Lemma opname_not_vdd t : t <> INPUT -> upper (opname t) <> VDD_NAME.
Proof. intros N. destruct t; try contradiction; discriminate. Qed.

(* the handler of the printed name binds exactly the operand counts the operator accepts *)
Lemma opname_arity t n h :
  t <> INPUT -> lookup_processing processings (upper (opname t)) = Some h ->
  handler_accepts h n = den_accepts t n.
Proof.
  intros N. destruct t; try contradiction; intros [= <-]; unfold handler_accepts; simpl;
    try reflexivity; destruct n; reflexivity.
Qed.

(* aliases *)
Lemma alias_types :
  (exists h, lookup_processing processings BUFF_NAME = Some h /\ htype h = IFF) /\
  (exists h, lookup_processing processings VDD_NAME = Some h /\ htype h = ALWAYS_TRUE).
Proof. split; eexists; split; reflexivity. Qed.

(* every key of the table builds the type it names (aliases apart) *)
Lemma dispatch_own_name t :
  t <> INPUT -> exists h, lookup_processing processings (gname t) = Some h /\ htype h = t.
Proof. intros N. destruct t; try contradiction; eexists; split; reflexivity. Qed.

Lemma opname_no_cr t : t <> INPUT -> has_char ch_cr (opname t) = false.
Proof. intros N. destruct t; try contradiction; reflexivity. Qed.

(* T7's theorem in one statement: the name format_gate prints for a type, read back through the
   dispatch table (the parser upper-cases it), gives a handler that builds that type and binds
   exactly the operand counts the type's operator accepts *)
Theorem print_then_dispatch t :
  t <> INPUT ->
  exists h, lookup_processing processings (upper (opname t)) = Some h /\ htype h = t
            /\ forall n, handler_accepts h n = den_accepts t n.
Proof.
  intros N. destruct (opname_dispatch t N) as [h [H1 H2]]. exists h. repeat split; auto.
  intros n. apply opname_arity; assumption.
Qed.
