(* Depth-first mode: the ENTERED labels form a path in stack order (every element above
   the own entry of an ENTERED label is reachable from it), hence a discovered ENTERED
   label closes a cycle; and, when no ENTERED label is ever discovered, exits are in
   post-order.  No assumption on the circuit. *)
Require Import Cirbo.Model.Base Cirbo.Model.Gate Cirbo.Model.Circuit Cirbo.Model.Traverse Cirbo.Model.WF.
Require Import Cirbo.Proofs.DictFacts Cirbo.Proofs.TopSort Cirbo.Proofs.TopSortWF.
Require Import Cirbo.Proofs.TraverseStep Cirbo.Proofs.TraverseInv.

(* the part of the stack above the last occurrence of a *)
Fixpoint after (a : label) (q : list label) : list label :=
  match q with
  | [] => []
  | x :: r => if memb a r then after a r else if leqb a x then r else []
  end.

Lemma after_app_notin a l1 l2 : In a l1 -> ~ In a l2 -> after a (l1 ++ l2) = after a l1 ++ l2.
Proof.
  intros H1 H2. induction l1 as [|x r IH]; simpl; [contradiction|].
  rewrite memb_app. apply memb_nIn in H2. rewrite H2, orb_false_r.
  destruct (memb a r) eqn:Em.
  - apply IH. apply memb_In; exact Em.
  - apply memb_nIn in Em. destruct H1 as [->|H1]; [|contradiction]. rewrite leqb_refl. reflexivity.
Qed.

Lemma after_snoc_same a l : after a (l ++ [a]) = [].
Proof.
  induction l as [|x r IH]; simpl; [rewrite leqb_refl; reflexivity|].
  rewrite memb_app. simpl. rewrite leqb_refl, orb_true_r. exact IH.
Qed.

Lemma after_snoc_other a l x : In a l -> a <> x -> after a (l ++ [x]) = after a l ++ [x].
Proof. intros H1 H2. apply after_app_notin; [exact H1|]. simpl. intros [H|[]]; congruence. Qed.

Section Dfs.
  Variable inverse : bool.
  Variable c : circuit.
  Variable abort : label -> tstate -> option err.
  Variable starts : list label.
  Notation nx := (nxt inverse c).

  Record InvP (sts : dict tstate) (queue : list label) : Prop := mkInvP {
    P_in : forall a, state_of sts a = ENTERED -> In a queue;
    P_path : forall a x, state_of sts a = ENTERED -> In x (after a queue) -> tc nx a x }.

  Definition InvP' (x : cfg) : Prop := InvP (fst (fst x)) (snd (fst x)).

  Lemma InvP_init : InvP' ([], starts, []).
  Proof. unfold InvP'; simpl. constructor; unfold state_of; simpl; intros; discriminate. Qed.

  Lemma InvP_step x y : InvP' x -> Step DFS inverse c abort x y -> InvP' y.
  Proof.
    unfold InvP'. intros HI HS. destruct HS as [sts queue log cur rest Hh Hs Hk Hall sts1
                                               |sts queue log cur rest Hh Hs Hk
                                               |sts queue log cur rest Hh Hs Hk]; simpl in *;
      destruct HI as [Pin Ppath]; subst queue.
    - assert (Hnp : forall a, state_of sts1 a = ENTERED -> ~ In a (pushed sts1 (nx cur))).
      { intros a Ha Hin. apply pushed_In in Hin. destruct Hin as [_ Hin]. congruence. }
      constructor.
      + intros a Ha. unfold sts1 in Ha. rewrite state_of_dset in Ha.
        destruct (leqb_spec a cur) as [Heq|Hne]; [subst a|].
        * apply in_or_app; left. apply in_or_app; right; left; reflexivity.
        * apply in_or_app; left. apply Pin; exact Ha.
      + intros a x Ha Hx. pose proof (Hnp a Ha) as Hn.
        unfold sts1 in Ha. rewrite state_of_dset in Ha.
        destruct (leqb_spec a cur) as [Heq|Hne]; [subst a|].
        * rewrite after_app_notin in Hx; [|apply in_or_app; right; left; reflexivity|exact Hn].
          rewrite after_snoc_same in Hx. simpl in Hx. apply pushed_In in Hx. apply tc_one. tauto.
        * pose proof (Pin a Ha) as Hq.
          rewrite after_app_notin in Hx; [|exact Hq|exact Hn].
          apply in_app_or in Hx. destruct Hx as [Hx|Hx]; [apply Ppath; assumption|].
          apply pushed_In in Hx. destruct Hx as [Hx _].
          eapply tc_step; [|exact Hx]. apply Ppath; [exact Ha|].
          apply in_app_or in Hq. destruct Hq as [Hq|[Hq|[]]]; [|congruence].
          rewrite after_snoc_other by assumption. apply in_or_app; right; left; reflexivity.
    - constructor.
      + intros a Ha. rewrite state_of_dset in Ha. destruct (leqb_spec a cur) as [Heq|Hne]; [subst a|]; [discriminate|].
        pose proof (Pin a Ha) as Hq. apply in_app_or in Hq. destruct Hq as [Hq|[Hq|[]]]; [exact Hq|congruence].
      + intros a x Ha Hx. rewrite state_of_dset in Ha. destruct (leqb_spec a cur) as [Heq|Hne]; [subst a|]; [discriminate|].
        apply Ppath; [exact Ha|].
        pose proof (Pin a Ha) as Hq. apply in_app_or in Hq. destruct Hq as [Hq|[Hq|[]]]; [|congruence].
        rewrite after_snoc_other by assumption. apply in_or_app; left; exact Hx.
    - constructor.
      + intros a Ha. assert (Hne : a <> cur) by congruence.
        pose proof (Pin a Ha) as Hq. apply in_app_or in Hq. destruct Hq as [Hq|[Hq|[]]]; [exact Hq|congruence].
      + intros a x Ha Hx. assert (Hne : a <> cur) by congruence.
        apply Ppath; [exact Ha|].
        pose proof (Pin a Ha) as Hq. apply in_app_or in Hq. destruct Hq as [Hq|[Hq|[]]]; [|congruence].
        rewrite after_snoc_other by assumption. apply in_or_app; left; exact Hx.
  Qed.

  Lemma InvP_steps x y : Steps DFS inverse c abort x y -> InvP' x -> InvP' y.
  Proof. apply Steps_inv. intros; eapply InvP_step; eauto. Qed.

  (* discovering an ENTERED label from the top of the stack closes a cycle *)
  Lemma InvP_back_edge sts rest cur ch :
    InvP sts (rest ++ [cur]) -> state_of sts cur = UNVISITED ->
    In ch (nx cur) -> state_of (dset sts cur ENTERED) ch = ENTERED -> tc nx ch ch.
  Proof.
    intros [Pin Ppath] Hs Hch He. rewrite state_of_dset in He.
    destruct (leqb_spec ch cur) as [Heq|Hne]; [subst ch|]; [apply tc_one; exact Hch|].
    eapply tc_step; [|exact Hch]. apply Ppath; [exact He|].
    pose proof (Pin ch He) as Hq. apply in_app_or in Hq. destruct Hq as [Hq|[Hq|[]]]; [|congruence].
    rewrite after_snoc_other by assumption. apply in_or_app; right; left; reflexivity.
  Qed.

  (* ---- post-order, provided no ENTERED label is ever discovered ---- *)
  Hypothesis Hab : (forall l, abort l ENTERED <> None) \/ (forall x, ~ tc nx x x).

  Record InvO (sts : dict tstate) (queue : list label) (log : list event) : Prop := mkInvO {
    O_next : forall a b, state_of sts a = ENTERED -> In b (nx a) ->
                         state_of sts b = VISITED \/ In b (after a queue);
    O_post : forall a b, state_of sts a = VISITED -> In b (nx a) ->
                         state_of sts b = VISITED /\ precedes (EvExit b) (EvExit a) log }.

  Definition InvO' (x : cfg) : Prop := InvO (fst (fst x)) (snd (fst x)) (snd x).

  Lemma InvO_init : InvO' ([], starts, []).
  Proof. unfold InvO'; simpl. constructor; unfold state_of; simpl; intros; discriminate. Qed.

  Lemma InvO_step x y :
    InvA' DFS inverse c starts x -> InvP' x -> InvO' x -> Step DFS inverse c abort x y -> InvO' y.
  Proof.
    unfold InvA', InvP', InvO'. intros HA HP HI HS.
    destruct HS as [sts queue log cur rest Hh Hs Hk Hall sts1
                   |sts queue log cur rest Hh Hs Hk
                   |sts queue log cur rest Hh Hs Hk]; simpl in *;
      destruct HI as [Onext Opost]; subst queue.
    - fold (enter_evs sts1 cur (nx cur)).
      assert (Hnp : forall a, state_of sts1 a = ENTERED -> ~ In a (pushed sts1 (nx cur))).
      { intros a Ha Hin. apply pushed_In in Hin. destruct Hin as [_ Hin]. congruence. }
      assert (Hclean : forall b, In b (nx cur) -> state_of sts1 b <> ENTERED).
      { intros b Hb He. destruct Hab as [H|H].
        - destruct (Hall b Hb) as [_ Hn]. fold sts1 in Hn. rewrite He in Hn. exact (H b Hn).
        - apply (H b). eapply InvP_back_edge; eauto. }
      constructor.
      + intros a b Ha Hb. pose proof (Hnp a Ha) as Hn.
        unfold sts1 in Ha. rewrite state_of_dset in Ha.
        destruct (leqb_spec a cur) as [Heq|Hne]; [subst a|].
        * rewrite after_app_notin; [|apply in_or_app; right; left; reflexivity|exact Hn].
          rewrite after_snoc_same. simpl.
          destruct (state_of sts1 b) eqn:Eb; [right; apply pushed_In; split; assumption| |left; reflexivity].
          exfalso. eapply Hclean; eauto.
        * rewrite after_app_notin; [|apply (P_in _ _ HP); exact Ha|exact Hn].
          destruct (Onext a b Ha Hb) as [H|H]; [left|right; apply in_or_app; left; exact H].
          unfold sts1. rewrite state_of_dset. destruct (leqb_spec b cur) as [Heq|_]; [subst b|]; [congruence|exact H].
      + intros a b Ha Hb. unfold sts1 in Ha. rewrite state_of_dset in Ha.
        destruct (leqb_spec a cur) as [Heq|Hne]; [subst a|]; [discriminate|].
        destruct (Opost a b Ha Hb) as [H1 H2]. split.
        * unfold sts1. rewrite state_of_dset. destruct (leqb_spec b cur) as [Heq|_]; [subst b|]; [congruence|exact H1].
        * apply precedes_app; [exact H2|]. intros H. exfalso; eapply exit_nin_enter_evs; eauto.
    - constructor.
      + intros a b Ha Hb. rewrite state_of_dset in Ha. destruct (leqb_spec a cur) as [Heq|Hne]; [subst a|]; [discriminate|].
        rewrite state_of_dset. destruct (leqb_spec b cur) as [Heq|Hnb]; [subst b|]; [left; reflexivity|].
        destruct (Onext a b Ha Hb) as [H|H]; [left; exact H|right].
        pose proof (P_in _ _ HP a Ha) as Hq. apply in_app_or in Hq. destruct Hq as [Hq|[Hq|[]]]; [|congruence].
        rewrite after_snoc_other in H by assumption.
        apply in_app_or in H. destruct H as [H|[H|[]]]; [exact H|congruence].
      + intros a b Ha Hb. rewrite state_of_dset in Ha. destruct (leqb_spec a cur) as [Heq|Hne]; [subst a|].
        * destruct (Onext cur b Hs Hb) as [H|H]; [|rewrite after_snoc_same in H; contradiction].
          assert (Hnb : b <> cur) by congruence. split.
          -- rewrite state_of_dset. destruct (leqb_spec b cur); [reflexivity|exact H].
          -- apply precedes_app.
             ++ apply precedes_absent. rewrite (A_exit _ _ _ _ _ _ _ HA). intros [_ Hv]; congruence.
             ++ intros _. apply (A_exit _ _ _ _ _ _ _ HA). split; [reflexivity|exact H].
        * destruct (Opost a b Ha Hb) as [H1 H2]. split.
          -- rewrite state_of_dset. destruct (leqb_spec b cur); [reflexivity|exact H1].
          -- apply precedes_app; [exact H2|]. intros [H|[]]. congruence.
    - constructor.
      + intros a b Ha Hb. assert (Hne : a <> cur) by congruence.
        destruct (Onext a b Ha Hb) as [H|H]; [left; exact H|].
        pose proof (P_in _ _ HP a Ha) as Hq. apply in_app_or in Hq. destruct Hq as [Hq|[Hq|[]]]; [|congruence].
        rewrite after_snoc_other in H by assumption.
        apply in_app_or in H. destruct H as [H|[H|[]]]; [right; exact H|left; congruence].
      + exact Opost.
  Qed.

  Definition InvAll (x : cfg) : Prop := InvA' DFS inverse c starts x /\ InvP' x /\ InvO' x.

  Lemma InvAll_init : InvAll ([], starts, []).
  Proof. split; [exact (InvA_init DFS inverse c starts)|split; [exact InvP_init|exact InvO_init]]. Qed.

  Lemma InvAll_steps x y : Steps DFS inverse c abort x y -> InvAll x -> InvAll y.
  Proof.
    apply Steps_inv. intros a b (HA & HP & HO) HS. split; [|split].
    - eapply InvA_step; eauto.
    - eapply InvP_step; eauto.
    - eapply InvO_step; eauto.
  Qed.

  (* at the end of a run: everything reachable from a visited label exited earlier *)
  Lemma InvAll_final_post sts log : InvAll (sts, [], log) ->
    forall a b, state_of sts a <> UNVISITED -> tc nx a b ->
                state_of sts b = VISITED /\ precedes (EvExit b) (EvExit a) log.
  Proof.
    intros (HA & HP & HO). unfold InvA', InvP', InvO' in *; simpl in *.
    assert (Hv : forall a, state_of sts a <> UNVISITED -> state_of sts a = VISITED).
    { intros a Ha. destruct (state_of sts a) eqn:E; [congruence| |reflexivity].
      destruct (P_in _ _ HP a E). }
    intros a b Ha Htc. induction Htc as [a b Hb|a b d Htc IH Hd].
    - apply (O_post _ _ _ HO); [apply Hv; exact Ha|exact Hb].
    - destruct (IH Ha) as [Hbv Hpr].
      destruct (O_post _ _ _ HO b d Hbv Hd) as [Hdv Hpr'].
      split; [exact Hdv|]. eapply precedes_trans; eauto.
  Qed.

  Lemma InvAll_final_acyclic sts log : InvAll (sts, [], log) ->
    forall a, state_of sts a <> UNVISITED -> ~ tc nx a a.
  Proof.
    intros HI a Ha Htc. destruct (InvAll_final_post sts log HI a a Ha Htc) as [Hv Hpr].
    eapply precedes_irrefl; [|exact Hpr].
    destruct HI as (HA & _). unfold InvA' in HA; simpl in HA.
    apply (A_exit _ _ _ _ _ _ _ HA). split; [reflexivity|exact Hv].
  Qed.
End Dfs.
