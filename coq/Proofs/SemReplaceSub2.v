(* C19, replace_subcircuit, part 2: the semantic theorem.  If the replacement computes, from the
   values of the mapped inputs, the values of the replaced slice at the mapped outputs, every
   surviving gate (in particular every output) keeps its value, modulo the renaming of the
   mapped gates. *)
Require Import Cirbo.Model.Base Cirbo.Model.Gate Cirbo.Model.Den Cirbo.Model.Circuit Cirbo.Model.Traverse
        Cirbo.Model.Connect Cirbo.Model.Eval Cirbo.Model.Sem Cirbo.Model.WF.
Require Import Cirbo.Proofs.DictFacts Cirbo.Proofs.WFBase Cirbo.Proofs.WFSimple Cirbo.Proofs.WFEmplace
        Cirbo.Proofs.WFRemove Cirbo.Proofs.WFRename Cirbo.Proofs.WFRename2 Cirbo.Proofs.WFReplaceSub1
        Cirbo.Proofs.WFReplaceSub Cirbo.Proofs.TopSortWF
        Cirbo.Proofs.SemFacts Cirbo.Proofs.SemExt Cirbo.Proofs.SemRenameGate Cirbo.Proofs.SemReplaceSub.
Require Import Coq.Sorting.Permutation.

(* the INPUT check on the mapped inputs *)
Lemma check_sub_inputs sub ls u :
  foldM (fun (_ : unit) i => do g <- get_gate sub i;
           if gtype_beq (gtyp g) INPUT then Ok tt else Err ReplaceSubcircuitError) ls tt = Ok u ->
  forall i, In i ls -> exists g, dget (gates sub) i = Some g /\ gtyp g = INPUT.
Proof.
  induction ls as [|l ls IH]; simpl; intros H i Hi; [destruct Hi|].
  binv H u1 H1. binv H1 g Hg. apply get_gate_ok in Hg.
  destruct (gtype_beq (gtyp g) INPUT) eqn:Et; [|discriminate]. apply gtype_beq_eq in Et.
  destruct u1. destruct Hi as [<-|Hi]; [eauto|eapply IH; eassumption].
Qed.

(* an assignment that records one value per label of a duplicate-free image *)
Lemma build_assignment c a (f : label -> label) ks :
  NoDup (map f ks) -> (forall k, In k ks -> exists v, Eval c a k v) ->
  exists b : assignment, forall k, In k ks -> Eval c a k (aval b (f k)).
Proof.
  induction ks as [|k ks IH]; simpl; intros Hnd Hex; [exists []; intros ? []|].
  inversion Hnd as [|? ? Hk Hnd']; subst.
  destruct IH as [b Hb]; [assumption|intros k' Hk'; apply Hex; right; exact Hk'|].
  destruct (Hex k (or_introl eq_refl)) as [v Hv].
  exists ((f k, v) :: b). intros k' [<-|Hk'].
  - unfold aval; simpl; rewrite leqb_refl; exact Hv.
  - unfold aval; simpl. destruct (leqb_spec (f k') (f k)) as [E|_].
    + exfalso; apply Hk. rewrite <- E. apply in_map, Hk'.
    + apply Hb, Hk'.
Qed.

Section ReplaceSub.
  Variables (c sub : circuit) (imap omap : dict label) (fresh : string) (c' : circuit).
  Hypothesis W : WF c.
  Hypothesis N : inputs_nullary c.
  Hypothesis Ws : WF sub.
  Hypothesis Ns : inputs_nullary sub.
  Hypothesis A : arity_ok c.
  Hypothesis H : replace_subcircuit c sub imap omap fresh = Ok c'.

  Local Notation rho := (ren_all (imap ++ omap)).

  (* everything the semantic argument needs, with the removed slice bg kept abstract *)
  Lemma replace_subcircuit_core a a' :
    (forall l, In l (inputs c) -> aval a' (rho l) = aval a l) ->
    (forall b, (forall k, In k (dkeys imap) -> Eval c a k (aval b (rho k))) ->
               forall k v, In k (dkeys omap) -> Eval c a k v -> Eval sub b (rho k) v) ->
    exists bg : list label,
      outputs c' = map rho (outputs c) /\
      (forall o, In o (outputs c) -> memb (rho o) bg = false \/ In (rho o) (dvals omap)) /\
      (forall x, has_gate c x = true -> has_gate c' (rho x) = true ->
                 has_gate sub (rho x) = false \/ In (rho x) (dvals imap ++ dvals omap) ->
                 memb (rho x) bg = false \/ In (rho x) (dvals omap)) /\
      (forall x v, has_gate c x = true -> memb (rho x) bg = false \/ In (rho x) (dvals omap) ->
                   (Eval c' a' (rho x) v <-> Eval c a x v)).
  Proof.
    intros Ha Heq.
    destruct (replace_subcircuit_inv c sub imap omap fresh c' W N Ws Ns H) as [W7 _].
    pose proof H as H'. unfold replace_subcircuit in H'.
    binv H' u0 H0. binv H' u1 H1. binv H' u2 H2. binv H' u3 H3. binv H' u4 H4. binv H' u5 H5.
    binv H' c1 Hc1. binv H' c2 Hc2. binv H' c3 Hc3. binv H' blk Hblk. binv H' u6 H6. binv H' saved Hsaved.
    binv H' u7 H7. binv H' c4 Hc4. binv H' order Hord. binv H' c5 Hc5. binv H' u8 H8. injection H' as E7.
    destruct (nodupb (dkeys imap ++ dkeys omap)) eqn:Enk; [|discriminate]. apply nodupb_NoDup in Enk.
    (* A: the renamings *)
    assert (HA : foldM ren_step (imap ++ omap) c = Ok c2).
    { rewrite foldM_app. unfold ren_step. rewrite Hc1; simpl. exact Hc2. }
    assert (Hkeys : forall k, In k (dkeys (imap ++ omap)) -> has_gate c k = true).
    { intros k Hk; rewrite dkeys_app in Hk; apply in_app_or in Hk; destruct Hk as [Hk|Hk];
        [apply (check_gates_exist_unit _ _ _ H1)|apply (check_gates_exist_unit _ _ _ H2)]; exact Hk. }
    assert (Hndk : NoDup (dkeys (imap ++ omap))) by (rewrite dkeys_app; assumption).
    destruct (ren_fold_struct _ c c2 W HA) as (W2 & G2 & G2' & I2 & O2).
    pose proof (ren_all_keys _ c c2 W Hndk Hkeys HA) as Hkv.
    pose proof (ren_fold_arity _ c c2 W HA A) as A2.
    pose proof HA as HA'.
    apply (ren_fold _ c c2 []) in HA'; try assumption; [|intros v []|constructor|intros v []].
    simpl in HA'. destruct HA' as (_ & N2 & Hvn & Hvg). rewrite dvals_app in Hvn, Hvg.
    set (I := dvals imap) in *. set (D := dvals omap) in *.
    assert (HD : NoDup D).
    { apply NoDup_count; intros x. pose proof (proj1 (NoDup_count _) Hvn x) as Hx.
      rewrite count_app in Hx; lia. }
    assert (HDI : forall o, In o D -> ~ In o I).
    { intros o Ho Hi. pose proof (proj1 (NoDup_count _) Hvn o) as Hx. rewrite count_app in Hx.
      apply count_pos_In in Ho, Hi. lia. }
    assert (HIk : forall i, In i I -> exists k, In k (dkeys imap) /\ rho k = i).
    { intros i Hi. unfold I, dvals in Hi. apply in_map_iff in Hi. destruct Hi as ([k v] & <- & Hin).
      exists k; split; [apply (in_map fst) in Hin; exact Hin|]. apply Hkv, in_or_app; left; exact Hin. }
    assert (HDk : forall o, In o D -> exists k, In k (dkeys omap) /\ rho k = o).
    { intros o Ho. unfold D, dvals in Ho. apply in_map_iff in Ho. destruct Ho as ([k v] & <- & Hin).
      exists k; split; [apply (in_map fst) in Hin; exact Hin|]. apply Hkv, in_or_app; right; exact Hin. }
    (* semantics of the renaming, both directions *)
    assert (Fwd2 : forall x v, Eval c a x v -> Eval c2 a' (rho x) v).
    { intros x v HE. apply (Eval_sim_struct c c2 a a' rho (fun _ => True)); [tauto| | |exact HE|exact Logic.I].
      - intros y g _ Hy. eexists; split; [apply G2, Hy|]. split; reflexivity.
      - intros y g _ Hy Ht. apply Ha, (wf_inputs c W). eauto. }
    assert (Bwd2 : forall x v, has_gate c x = true -> Eval c2 a' (rho x) v -> Eval c a x v).
    { intros x v Hx HE. destruct (Eval_exists c a W A x Hx) as [v0 Hv0].
      rewrite (Eval_functional _ _ _ _ _ HE (Fwd2 _ _ Hv0)). exact Hv0. }
    (* B: the block *)
    pose proof (make_block_from_slice_wf _ _ _ _ _ W2 Hc3) as W3.
    apply make_block_from_slice_inv' in Hc3. destruct Hc3 as (gs & Hincl & Hgsd & Ec3).
    set (bg := canonical_block_gates c2 gs) in *.
    assert (G3 : gates c3 = gates c2) by (rewrite Ec3; reflexivity).
    assert (O3 : outputs c3 = outputs c2) by (rewrite Ec3; reflexivity).
    assert (Eblk : blk = mkBlock I bg D).
    { unfold get_block in Hblk. rewrite Ec3 in Hblk; simpl in Hblk. rewrite dget_dset_same in Hblk.
      injection Hblk as <-; reflexivity. }
    assert (Ebg : bgates blk = bg) by (rewrite Eblk; reflexivity).
    assert (HIbg : forall i, In i I -> memb i bg = false).
    { intros i Hi. apply memb_nIn. intros Hb. unfold bg, canonical_block_gates in Hb.
      apply filter_In in Hb. destruct Hb as [_ Hb]. apply memb_In in Hb. exact (Hgsd i Hb Hi). }
    (* D: the removal *)
    unfold remove_block_raw in Hc4. binv Hc4 blk' Hblk'. assert (blk' = blk) by congruence. subst blk'.
    rewrite Ebg in Hc4.
    pose proof (remove_loop_gates bg c3 c4 (wf_gkeys c3 W3) Hc4) as G4.
    (* E: the re-insertion *)
    pose proof (top_sort_nodup sub true order Ws Hord) as Hond.
    pose proof (top_sort_perm sub true order Ws Hord) as Hperm.
    destruct (reinsert_gates sub I order Hond c4 c5 Hc5) as [G5 Hfresh].
    assert (Hmo : forall y, memb y order = has_gate sub y).
    { intros y. destruct (has_gate sub y) eqn:E.
      - apply memb_In. eapply Permutation_in; [apply Permutation_sym, Hperm|]. apply dmem_keys, E.
      - apply memb_nIn. intros Hin. eapply Permutation_in in Hin; [|exact Hperm].
        apply dmem_keys in Hin. unfold has_gate in E; congruence. }
    (* G: outputs and users restored *)
    set (c6 := set_outputs_raw c5 (outputs c3)) in *.
    assert (Hsk : NoDup (dkeys saved)).
    { rewrite Ebg in Hsaved. apply (saved_spec c3 bg D [] saved HD); [constructor|exact Hsaved]. }
    assert (G7 : gates c' = gates c5 /\ outputs c' = outputs c3).
    { rewrite <- E7. fold restore_step.
      assert (forall sv cc, gates (fold_left restore_step sv cc) = gates cc /\
                            outputs (fold_left restore_step sv cc) = outputs cc) as Hrf.
      { induction sv as [|kv sv IHs]; intros cc; simpl; [auto|].
        destruct (IHs (restore_step cc kv)) as [-> ->]. unfold restore_step.
        destruct (dget (users cc) (fst kv)); simpl; auto. }
      destruct (Hrf saved c6) as [-> ->]. auto. }
    destruct G7 as [G7 O7].
    assert (Hget7 : forall y, dget (gates c') y =
                              if has_gate sub y && negb (memb y I) then dget (gates sub) y
                              else if memb y bg then None else dget (gates c2) y).
    { intros y. rewrite G7, G5, Hmo, G4, G3. reflexivity. }
    (* the hypotheses of the splice *)
    assert (Hkeep : forall y g, memb y bg = false -> dget (gates c2) y = Some g -> dget (gates c') y = Some g).
    { intros y g Hyb Hy. rewrite Hget7, Hyb.
      destruct (has_gate sub y && negb (memb y I)) eqn:Ec; [|exact Hy]. exfalso.
      apply andb_true_iff in Ec. destruct Ec as [E1 E2]. apply negb_true_iff, memb_nIn in E2.
      assert (has_gate c4 y = false) as Hf.
      { apply Hfresh; [|exact E2]. apply memb_In. rewrite Hmo; exact E1. }
      unfold has_gate, dmem in Hf. rewrite G4, Hyb, G3, Hy in Hf. discriminate. }
    assert (Hsub : forall y g, dget (gates sub) y = Some g -> ~ In y I -> dget (gates c') y = Some g).
    { intros y g Hy HyI. rewrite Hget7. rewrite (get_has_gate sub y g Hy).
      apply memb_nIn in HyI; rewrite HyI; simpl. exact Hy. }
    assert (Hsubin : forall y g, dget (gates sub) y = Some g -> (gtyp g = INPUT <-> In y I)).
    { intros y g Hy. split.
      - intros Ht. assert (In y (inputs sub)) as Hin by (apply (wf_inputs sub Ws); eauto).
        destruct (forallb _ (inputs sub)) eqn:E5; [|discriminate]. rewrite forallb_forall in E5.
        apply memb_In, E5, Hin.
      - intros Hi. destruct (check_sub_inputs sub _ _ H4 y Hi) as (g0 & Hg0 & Ht0). congruence. }
    assert (Hops : forall y g o, memb y bg = false -> dget (gates c2) y = Some g -> gtyp g <> INPUT ->
                                 In o (gops g) -> memb o bg = false \/ In o D).
    { intros y g o Hyb Hy _ Ho. destruct (memb o bg) eqn:Eo; [|left; reflexivity]. right.
      apply memb_In in Eo. unfold check_block_has_no_users in H7. rewrite Ebg in H7.
      destruct (check_block_loop_spec _ _ _ _ _ H7 o Eo) as [Hd|Hall]; [exact Hd|exfalso].
      assert (In y (users_of c3 o)) as Hu.
      { apply (In_users_ops c3 o y W3). unfold ops_of; rewrite G3, Hy; exact Ho. }
      apply Hall, memb_In in Hu. congruence. }
    (* the values of the cut, and the equivalence hypothesis at the level of c2 *)
    destruct (build_assignment c a rho (dkeys imap)) as [b Hbc].
    { assert (map rho (dkeys imap) = I) as ->; [|].
      - unfold dkeys, I, dvals. rewrite map_map. apply map_ext_in. intros [k v] Hin; simpl.
        apply Hkv, in_or_app; left; exact Hin.
      - apply NoDup_count; intros x. pose proof (proj1 (NoDup_count _) Hvn x) as Hx.
        rewrite count_app in Hx; lia. }
    { intros k Hk. apply (Eval_exists c a W A). apply Hkeys. rewrite dkeys_app; apply in_or_app; left; exact Hk. }
    assert (Hb : forall i, In i I -> Eval c2 a' i (aval b i)).
    { intros i Hi. destruct (HIk i Hi) as (k & Hk & <-). apply Fwd2, Hbc, Hk. }
    assert (Hequiv : forall o v, In o D -> Eval c2 a' o v -> Eval sub b o v).
    { intros o v Ho HE. destruct (HDk o Ho) as (k & Hk & <-).
      apply (Heq b Hbc k v Hk). apply Bwd2; [|exact HE].
      apply Hkeys. rewrite dkeys_app; apply in_or_app; right; exact Hk. }
    pose proof (splice_forward c2 c' sub a' b I D bg W7 Hkeep Hsub Hsubin HIbg Hops Hb Hequiv HDI) as Hsplice.
    exists bg. split; [rewrite O7, O3, O2; reflexivity|]. split; [|split].
    - (* outputs survive *)
      intros o Ho. assert (In (rho o) (outputs c3)) as Ho3 by (rewrite O3, O2; apply in_map, Ho).
      destruct (forallb _ (outputs c3)) eqn:E6; [|discriminate]. rewrite forallb_forall in E6.
      specialize (E6 _ Ho3). rewrite Ebg in E6. apply orb_true_iff in E6.
      destruct E6 as [E6|E6]; [left; apply negb_true_iff, E6|right; apply memb_In, E6].
    - (* the structural reading of "survives" *)
      intros x Hx Hx' [Hns|Hin].
      + left. unfold has_gate, dmem in Hx'. rewrite Hget7 in Hx'. unfold has_gate in Hns.
        fold (has_gate sub (rho x)) in Hx'. change (dmem (gates sub) (rho x)) with (has_gate sub (rho x)) in Hns.
        rewrite Hns in Hx'; simpl in Hx'. destruct (memb (rho x) bg); [discriminate|reflexivity].
      + apply in_app_or in Hin. destruct Hin as [Hin|Hin]; [left; apply HIbg, Hin|right; exact Hin].
    - (* semantics *)
      intros x v Hx Hsv. split; intros HE.
      + destruct (Eval_exists c a W A x Hx) as [v0 Hv0].
        assert (Eval c' a' (rho x) v0) as HE0 by (apply Hsplice; [exact Hsv|apply Fwd2, Hv0]).
        rewrite (Eval_functional _ _ _ _ _ HE HE0). exact Hv0.
      + apply Hsplice; [exact Hsv|apply Fwd2, HE].
  Qed.

  (* every surviving gate keeps its value.  A gate x of c survives iff its (renamed) label is
     still a gate and is not one of the replacement's own internal gates *)
  Theorem replace_subcircuit_sem a a' :
    (forall l, In l (inputs c) -> aval a' (rho l) = aval a l) ->
    (forall b, (forall k, In k (dkeys imap) -> Eval c a k (aval b (rho k))) ->
               forall k v, In k (dkeys omap) -> Eval c a k v -> Eval sub b (rho k) v) ->
    forall x v, has_gate c x = true -> has_gate c' (rho x) = true ->
      has_gate sub (rho x) = false \/ In (rho x) (dvals imap ++ dvals omap) ->
      (Eval c' a' (rho x) v <-> Eval c a x v).
  Proof.
    intros Ha Heq x v Hx Hx' Hs.
    destruct (replace_subcircuit_core a a' Ha Heq) as (bg & _ & _ & Hsurv & Hsem).
    apply Hsem; [exact Hx|]. apply Hsurv; assumption.
  Qed.

  (* the truth table of the whole circuit is unchanged *)
  Theorem replace_subcircuit_outputs_sem a a' :
    (forall l, In l (inputs c) -> aval a' (rho l) = aval a l) ->
    (forall b, (forall k, In k (dkeys imap) -> Eval c a k (aval b (rho k))) ->
               forall k v, In k (dkeys omap) -> Eval c a k v -> Eval sub b (rho k) v) ->
    outputs c' = map rho (outputs c) /\
    forall vs, Forall2 (Eval c' a') (outputs c') vs <-> Forall2 (Eval c a) (outputs c) vs.
  Proof.
    intros Ha Heq.
    destruct (replace_subcircuit_core a a' Ha Heq) as (bg & Ho & Hos & _ & Hsem).
    split; [exact Ho|]. intros vs. rewrite Ho, <- Forall2_map_l.
    split; intros HF; (eapply Forall2_impl_In; [exact HF|]); intros o v Hin Hv;
      apply (Hsem o v (wf_outs c W o Hin) (Hos o Hin)); exact Hv.
  Qed.

  (* the renaming: every mapped gate gets its mapped label, nothing else is renamed *)
  Theorem replace_subcircuit_rho :
    (forall k v, In (k, v) (imap ++ omap) -> rho k = v) /\
    (forall l, ~ In l (dkeys imap ++ dkeys omap) -> rho l = l).
  Proof.
    split; [|intros l Hl; apply ren_all_notkey; rewrite dkeys_app; exact Hl].
    pose proof H as H'. unfold replace_subcircuit in H'.
    binv H' u0 H0. binv H' u1 H1. binv H' u2 H2. binv H' u3 H3. binv H' u4 H4. binv H' u5 H5.
    binv H' c1 Hc1. binv H' c2 Hc2.
    destruct (nodupb (dkeys imap ++ dkeys omap)) eqn:Enk; [|discriminate]. apply nodupb_NoDup in Enk.
    assert (HA : foldM ren_step (imap ++ omap) c = Ok c2).
    { rewrite foldM_app. unfold ren_step. rewrite Hc1; simpl. exact Hc2. }
    apply (ren_all_keys _ c c2 W); [rewrite dkeys_app; assumption| |exact HA].
    intros k Hk; rewrite dkeys_app in Hk; apply in_app_or in Hk; destruct Hk as [Hk|Hk];
      [apply (check_gates_exist_unit _ _ _ H1)|apply (check_gates_exist_unit _ _ _ H2)]; exact Hk.
  Qed.
End ReplaceSub.
