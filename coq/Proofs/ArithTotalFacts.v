(* "Every add_* form works on arbitrary existing gates": the model returns Ok whenever the
   operands exist, the widths are as documented and the caller-chosen labels are new -- under
   the one hypothesis that the fresh-label retry loop succeeds (fresh_total, which holds for
   every injective naming function, TotalFacts.injective_fresh_total). *)
Require Import Cirbo.Model.Base Cirbo.Model.Gate Cirbo.Model.Circuit Cirbo.Model.Builder.
Require Import Cirbo.Generated.ArithTables Cirbo.Generated.ArithCells.
Require Import Cirbo.Model.ArithSub Cirbo.Model.ArithSum2 Cirbo.Model.ArithDiv Cirbo.Model.ArithSqrt
  Cirbo.Model.ArithMisc.
Require Import Cirbo.Proofs.DictFacts Cirbo.Proofs.BuilderFacts Cirbo.Proofs.ArithFacts
  Cirbo.Proofs.TotalFacts.

Section Total.
  Variable fresh : N -> label.
  Hypothesis Hf : fresh_total fresh.

  Ltac tt_step g s' E Hg :=
    match goal with
    | |- context [run fresh (Bind (gate_tt ?t ?x ?y) ?k) ?s] =>
      let Hx := fresh "Hx" in let Hy := fresh "Hy" in
      assert (has_gate (bc s) x = true) as Hx by has_solve;
      assert (has_gate (bc s) y = true) as Hy by has_solve;
      destruct (gate_tt_ok fresh t x y s Hf Hx Hy) as (g & s' & E & Hg);
      rewrite (bind_ok _ _ _ _ _ _ E); clear Hx Hy
    end.

  Ltac finish := cbn [run]; eexists _, _; split; [reflexivity|].

  (* ---- cells ---- *)
  Lemma add_sub2_ok x1 x2 s :
    has_gate (bc s) x1 = true -> has_gate (bc s) x2 = true ->
    exists r s', run fresh (add_sub2 [x1; x2] false) s = Ok (r, s') /\
                 exists d b, r = [d; b] /\ has_gate (bc s') d = true /\ has_gate (bc s') b = true.
  Proof.
    intros H1 H2. cbv beta iota zeta delta [add_sub2 rev_if].
    tt_step g1 s1 E1 G1. tt_step g2 s2 E2 G2. finish.
    exists g1, g2. repeat split; has_solve.
  Qed.

  Lemma add_sub3_ok x0 x1 x2 s :
    has_gate (bc s) x0 = true -> has_gate (bc s) x1 = true -> has_gate (bc s) x2 = true ->
    exists r s', run fresh (add_sub3 [x0; x1; x2] false) s = Ok (r, s') /\
                 exists d b, r = [d; b] /\ has_gate (bc s') d = true /\ has_gate (bc s') b = true.
  Proof.
    intros H0 H1 H2. cbv beta iota zeta delta [add_sub3 rev_if].
    tt_step g3 s3 E3 G3. tt_step g4 s4 E4 G4. tt_step g5 s5 E5 G5. tt_step g6 s6 E6 G6.
    tt_step g7 s7 E7 G7. finish.
    exists g6, g7. repeat split; has_solve.
  Qed.

  Lemma add_stockmeyer_block_ok x1 x2 x23 s :
    has_gate (bc s) x1 = true -> has_gate (bc s) x2 = true -> has_gate (bc s) x23 = true ->
    exists r s', run fresh (add_stockmeyer_block [x1; x2; x23]) s = Ok (r, s') /\
                 exists d b, r = [d; b] /\ has_gate (bc s') d = true /\ has_gate (bc s') b = true.
  Proof.
    intros H0 H1 H2. cbv beta iota zeta delta [add_stockmeyer_block].
    tt_step w0 s1 E1 G1. tt_step g2 s2 E2 G2. tt_step g3 s3 E3 G3. tt_step w1 s4 E4 G4. finish.
    exists w0, w1. repeat split; has_solve.
  Qed.

  (* ---- subtraction ---- *)
  Lemma sub_loop_ok a : forall b bal s,
    all_exist (bc s) a -> all_exist (bc s) b -> has_gate (bc s) bal = true ->
    exists r s', run fresh (sub_loop a b bal) s = Ok (r, s') /\
                 all_exist (bc s') (fst r) /\ has_gate (bc s') (snd r) = true /\ length (fst r) = length a.
  Proof.
    induction a as [|ai a' IH]; intros b bal s Ha Hb Hbal; cbn [sub_loop].
    - finish. cbn [fst snd]. repeat split; [constructor|exact Hbal].
    - inversion Ha as [|? ? Hai Ha']; subst.
      assert (exists r s1, run fresh (match b with
                                      | bi :: _ => add_sub3 [ai; bi; bal] false
                                      | [] => add_sub2 [ai; bal] false end) s = Ok (r, s1) /\
                exists d bl, r = [d; bl] /\ has_gate (bc s1) d = true /\ has_gate (bc s1) bl = true)
        as (r & s1 & E1 & d & bl & -> & Hd & Hbl).
      { destruct b as [|bi b']; [apply add_sub2_ok; assumption|].
        inversion Hb; subst. apply add_sub3_ok; assumption. }
      rewrite (bind_ok _ _ _ _ _ _ E1). cbn [unpack2]. cbn [run]. cbn [fst snd].
      pose proof (run_ext _ _ _ _ _ E1) as X1.
      destruct (IH (tl b) bl s1) as ([rs bal'] & s2 & E2 & Hrs & Hbal' & Lrs);
        [eapply all_exist_ext; eassumption| |exact Hbl|].
      { eapply all_exist_ext; [exact X1|]. destruct b; [constructor|inversion Hb; assumption]. }
      rewrite E2. eexists _, _. split; [reflexivity|]. cbn [fst snd] in *.
      repeat split; [constructor; [|exact Hrs]|exact Hbal'|simpl; congruence].
      apply (ext_has_gate _ _ _ (run_ext _ _ _ _ _ E2)), Hd.
  Qed.

  Lemma sub_ripple_ok a b s :
    a <> [] -> b <> [] -> all_exist (bc s) a -> all_exist (bc s) b ->
    exists r s', run fresh (sub_ripple a b) s = Ok (r, s') /\
                 all_exist (bc s') (fst r) /\ has_gate (bc s') (snd r) = true /\ length (fst r) = length a.
  Proof.
    intros Hane Hbne Ha Hb. destruct a as [|a0 a']; [contradiction|]. destruct b as [|b0 b']; [contradiction|].
    inversion Ha; subst. inversion Hb; subst.
    unfold sub_ripple, nthP, nth_res. cbn [nth_error ret_res]. cbn [run tl].
    destruct (add_sub2_ok a0 b0 s) as (r & s1 & E1 & d & bl & -> & Hd & Hbl); [assumption|assumption|].
    rewrite E1. cbn [unpack2 run fst snd].
    pose proof (run_ext _ _ _ _ _ E1) as X1.
    destruct (sub_loop_ok a' b' bl s1) as ([rs bal'] & s2 & E2 & Hrs & Hbal' & Lrs);
      [eapply all_exist_ext; eassumption|eapply all_exist_ext; eassumption|exact Hbl|].
    rewrite E2. eexists _, _. split; [reflexivity|]. cbn [fst snd] in *.
    repeat split; [constructor; [|exact Hrs]|exact Hbal'|simpl; congruence].
    apply (ext_has_gate _ _ _ (run_ext _ _ _ _ _ E2)), Hd.
  Qed.

  Lemma all_exist_rev_if c be ls : all_exist c ls -> all_exist c (rev_if be ls).
  Proof. destruct be; simpl; [apply Forall_rev|auto]. Qed.

  Lemma rev_if_nonempty {A} be (l : list A) : l <> [] -> rev_if be l <> [].
  Proof.
    intros H E. apply H. apply (f_equal (@length A)) in E. rewrite rev_if_length in E.
    destruct l; [reflexivity|discriminate].
  Qed.

  Theorem add_sub_two_numbers_total xs ys be s :
    xs <> [] -> ys <> [] -> all_exist (bc s) xs -> all_exist (bc s) ys ->
    exists r s', run fresh (add_sub_two_numbers xs ys be) s = Ok (r, s').
  Proof.
    intros Hx Hy Ax Ay. unfold add_sub_two_numbers.
    destruct (sub_ripple_ok (rev_if be xs) (rev_if be ys) s) as (r & s1 & E & _);
      [apply rev_if_nonempty, Hx|apply rev_if_nonempty, Hy|apply all_exist_rev_if, Ax|apply all_exist_rev_if, Ay|].
    rewrite (bind_ok _ _ _ _ _ _ E). cbn [run]. eauto.
  Qed.

  Lemma all_exist_pad c n x ls : all_exist c ls -> has_gate c x = true -> all_exist c (pad_to n x ls).
  Proof.
    intros H Hx. unfold pad_to. apply Forall_app. split; [exact H|].
    induction (n - length ls)%nat; simpl; constructor; auto.
  Qed.

  Lemma add_subtract_with_compare_ok xs ys be s :
    xs <> [] -> ys <> [] -> all_exist (bc s) xs -> all_exist (bc s) ys ->
    exists r s', run fresh (add_subtract_with_compare xs ys be) s = Ok (r, s') /\
                 all_exist (bc s') (fst r) /\ has_gate (bc s') (snd r) = true /\
                 length (fst r) = Nat.max (length xs) (length ys).
  Proof.
    intros Hx Hy Ax Ay. unfold add_subtract_with_compare.
    destruct xs as [|x0 xs']; [contradiction|]. destruct ys as [|y0 ys']; [contradiction|].
    unfold nthP, nth_res. cbn [nth_error ret_res]. cbn [run].
    assert (has_gate (bc s) x0 = true) as H0 by (inversion Ax; assumption).
    assert (has_gate (bc s) y0 = true) as H1 by (inversion Ay; assumption).
    destruct (gate_tt_ok fresh tt_false x0 y0 s Hf H0 H1) as (af & s1 & E1 & Haf).
    rewrite E1. pose proof (run_ext _ _ _ _ _ E1) as X1.
    set (n := Nat.max (length (rev_if be (x0 :: xs'))) (length (rev_if be (y0 :: ys')))).
    destruct (sub_ripple_ok (pad_to n af (rev_if be (x0 :: xs'))) (pad_to n af (rev_if be (y0 :: ys'))) s1)
      as ([rs bal] & s2 & E2 & Hrs & Hbal & Lrs).
    { unfold pad_to. intros E. apply app_eq_nil in E as (E & _). revert E. apply rev_if_nonempty. discriminate. }
    { unfold pad_to. intros E. apply app_eq_nil in E as (E & _). revert E. apply rev_if_nonempty. discriminate. }
    { apply all_exist_pad; [apply all_exist_rev_if; eapply all_exist_ext; eassumption|exact Haf]. }
    { apply all_exist_pad; [apply all_exist_rev_if; eapply all_exist_ext; eassumption|exact Haf]. }
    rewrite E2. eexists _, _. split; [reflexivity|]. cbn [fst snd] in *.
    split; [apply all_exist_rev_if, Hrs|]. split; [exact Hbal|].
    rewrite rev_if_length, Lrs. unfold pad_to. rewrite app_length, repeat_length.
    unfold n. rewrite !rev_if_length. lia.
  Qed.

  Theorem add_subtract_with_compare_total xs ys be s :
    xs <> [] -> ys <> [] -> all_exist (bc s) xs -> all_exist (bc s) ys ->
    exists r s', run fresh (add_subtract_with_compare xs ys be) s = Ok (r, s').
  Proof.
    intros. destruct (add_subtract_with_compare_ok xs ys be s) as (r & s' & E & _); eauto.
  Qed.

  (* ---- add_sum_two_numbers ---- *)
  Lemma sum_bits2_ok p q s :
    has_gate (bc s) p = true -> has_gate (bc s) q = true ->
    exists r s', run fresh (sum_bits2 p q) s = Ok (r, s') /\
                 has_gate (bc s') (fst r) = true /\ has_gate (bc s') (snd r) = true.
  Proof.
    intros Hp Hq. unfold sum_bits2. tt_step xy s1 E1 G1. tt_step cy s2 E2 G2. finish.
    cbn [fst snd]. split; has_solve.
  Qed.

  Lemma sum_bits3_ok p q r0 s :
    has_gate (bc s) p = true -> has_gate (bc s) q = true -> has_gate (bc s) r0 = true ->
    exists r s', run fresh (sum_bits3 p q r0) s = Ok (r, s') /\
                 has_gate (bc s') (fst r) = true /\ has_gate (bc s') (snd r) = true.
  Proof.
    intros Hp Hq Hr. unfold sum_bits3. tt_step xy s1 E1 G1.
    destruct (add_stockmeyer_block_ok p r0 xy s1) as (st & s2 & E2 & d & b & -> & Hd & Hb); try has_solve.
    rewrite (bind_ok _ _ _ _ _ _ E2). cbn [unpack2 run]. eexists _, _. split; [reflexivity|].
    cbn [fst snd]. split; assumption.
  Qed.

  Lemma sum_loop_ok a : forall b cy s,
    all_exist (bc s) a -> all_exist (bc s) b -> has_gate (bc s) cy = true ->
    exists r s', run fresh (sum_loop a b cy) s = Ok (r, s') /\ all_exist (bc s') r /\ length r = S (length a).
  Proof.
    induction a as [|ai a' IH]; intros b cy s Ha Hb Hcy; cbn [sum_loop].
    - finish. split; [constructor; [exact Hcy|constructor]|reflexivity].
    - inversion Ha as [|? ? Hai Ha']; subst.
      assert (exists r s1, run fresh (match b with
                                      | bi :: _ => sum_bits3 cy ai bi
                                      | [] => sum_bits2 cy ai end) s = Ok (r, s1) /\
                has_gate (bc s1) (fst r) = true /\ has_gate (bc s1) (snd r) = true)
        as ([sv cv] & s1 & E1 & Hs & Hc).
      { destruct b as [|bi b']; [apply sum_bits2_ok; assumption|].
        inversion Hb; subst. apply sum_bits3_ok; assumption. }
      rewrite (bind_ok _ _ _ _ _ _ E1). cbn [fst snd] in *. cbn [run].
      pose proof (run_ext _ _ _ _ _ E1) as X1.
      destruct (IH (tl b) cv s1) as (rs & s2 & E2 & Hrs & Lrs);
        [eapply all_exist_ext; eassumption| |exact Hc|].
      { eapply all_exist_ext; [exact X1|]. destruct b; [constructor|inversion Hb; assumption]. }
      rewrite E2. eexists _, _. split; [reflexivity|].
      split; [constructor; [|exact Hrs]|simpl; congruence].
      apply (ext_has_gate _ _ _ (run_ext _ _ _ _ _ E2)), Hs.
  Qed.

  Lemma add_sum_two_numbers_ok xs ys be s :
    xs <> [] -> ys <> [] -> all_exist (bc s) xs -> all_exist (bc s) ys ->
    exists r s', run fresh (add_sum_two_numbers xs ys be) s = Ok (r, s') /\ all_exist (bc s') r /\
                 length r = S (Nat.max (length xs) (length ys)).
  Proof.
    intros Hx Hy Ax Ay. unfold add_sum_two_numbers.
    assert (forall a b, a <> [] -> b <> [] -> all_exist (bc s) a -> all_exist (bc s) b ->
              exists r s', run fresh (bdo a0 <- nthP a 0; bdo b0 <- nthP b 0; bdo sc <- sum_bits2 a0 b0;
                                      bdo rs <- sum_loop (tl a) (tl b) (snd sc);
                                      Ret (rev_if be (fst sc :: rs))) s = Ok (r, s') /\
                           all_exist (bc s') r /\ length r = S (length a)) as Hgen.
    { intros a b Ha Hb Aa Ab. destruct a as [|a0 a']; [contradiction|]. destruct b as [|b0 b']; [contradiction|].
      inversion Aa; subst. inversion Ab; subst.
      unfold nthP, nth_res. cbn [nth_error ret_res]. cbn [run tl].
      destruct (sum_bits2_ok a0 b0 s) as ([sv cv] & s1 & E1 & Hs & Hc); [assumption|assumption|].
      rewrite E1. cbn [fst snd] in *. pose proof (run_ext _ _ _ _ _ E1) as X1.
      destruct (sum_loop_ok a' b' cv s1) as (rs & s2 & E2 & Hrs & Lrs);
        [eapply all_exist_ext; eassumption|eapply all_exist_ext; eassumption|exact Hc|].
      rewrite E2. eexists _, _. split; [reflexivity|].
      split; [apply all_exist_rev_if; constructor; [|exact Hrs]|rewrite rev_if_length; simpl; congruence].
      apply (ext_has_gate _ _ _ (run_ext _ _ _ _ _ E2)), Hs. }
    rewrite !rev_if_length.
    destruct (length xs <? length ys)%nat eqn:E.
    - apply Nat.ltb_lt in E.
      destruct (Hgen (rev_if be ys) (rev_if be xs)) as (r & s' & Er & Hr & Lr);
        [apply rev_if_nonempty, Hy|apply rev_if_nonempty, Hx|apply all_exist_rev_if, Ay|apply all_exist_rev_if, Ax|].
      exists r, s'. split; [exact Er|]. split; [exact Hr|]. rewrite Lr, rev_if_length. f_equal. lia.
    - apply Nat.ltb_ge in E.
      destruct (Hgen (rev_if be xs) (rev_if be ys)) as (r & s' & Er & Hr & Lr);
        [apply rev_if_nonempty, Hx|apply rev_if_nonempty, Hy|apply all_exist_rev_if, Ax|apply all_exist_rev_if, Ay|].
      exists r, s'. split; [exact Er|]. split; [exact Hr|]. rewrite Lr, rev_if_length. f_equal. lia.
  Qed.

  (* ---- three-gate selection loops (mux_loop of div_mod, sel_loop of sqrt) ---- *)
  Lemma mux_loop_ok q hi : forall sub s,
    has_gate (bc s) q = true -> all_exist (bc s) sub -> all_exist (bc s) hi ->
    (length hi <= length sub)%nat ->
    exists r s', run fresh (mux_loop q sub hi) s = Ok (r, s') /\ all_exist (bc s') r /\ length r = length hi.
  Proof.
    induction hi as [|h hi IH]; intros sub s Hq Hs Hh L; cbn [mux_loop].
    - finish. split; [constructor|reflexivity].
    - destruct sub as [|s0 sub']; [simpl in L; lia|]. inversion Hs; subst. inversion Hh; subst.
      unfold nthP, nth_res. cbn [nth_error ret_res tl].
      rewrite (bind_ok fresh (Ret s0) _ s s0 s eq_refl).
      tt_step t1 s1 E1 G1. tt_step t2 s2 E2 G2. tt_step g s3 E3 G3.
      destruct (IH sub' s3) as (rest & s4 & E4 & Hrest & Lrest); try has_solve.
      { eapply all_exist_ext; [|eassumption].
        eapply ext_trans; [eapply ext_trans|]; eapply run_ext; eassumption. }
      { eapply all_exist_ext; [|eassumption].
        eapply ext_trans; [eapply ext_trans|]; eapply run_ext; eassumption. }
      { simpl in L. lia. }
      rewrite (bind_ok _ _ _ _ _ _ E4). finish.
      split; [constructor; [has_solve|exact Hrest]|simpl; congruence].
  Qed.

  Lemma sel_loop_ok per hi : forall alt s,
    has_gate (bc s) per = true -> all_exist (bc s) alt -> all_exist (bc s) hi ->
    (length hi <= length alt)%nat ->
    exists r s', run fresh (sel_loop per alt hi) s = Ok (r, s') /\ all_exist (bc s') r /\ length r = length hi.
  Proof.
    induction hi as [|h hi IH]; intros alt s Hq Hs Hh L; cbn [sel_loop].
    - finish. split; [constructor|reflexivity].
    - destruct alt as [|s0 alt']; [simpl in L; lia|]. inversion Hs; subst. inversion Hh; subst.
      unfold nthP, nth_res. cbn [nth_error ret_res tl].
      rewrite (bind_ok fresh (Ret s0) _ s s0 s eq_refl).
      tt_step t1 s1 E1 G1. tt_step t2 s2 E2 G2. tt_step g s3 E3 G3.
      destruct (IH alt' s3) as (rest & s4 & E4 & Hrest & Lrest); try has_solve.
      { eapply all_exist_ext; [|eassumption].
        eapply ext_trans; [eapply ext_trans|]; eapply run_ext; eassumption. }
      { eapply all_exist_ext; [|eassumption].
        eapply ext_trans; [eapply ext_trans|]; eapply run_ext; eassumption. }
      { simpl in L. lia. }
      rewrite (bind_ok _ _ _ _ _ _ E4). finish.
      split; [constructor; [has_solve|exact Hrest]|simpl; congruence].
  Qed.

  Lemma all_exist_firstn c n ls : all_exist c ls -> all_exist c (firstn n ls).
  Proof. unfold all_exist. intros H; revert n; induction H; intros [|n]; simpl; constructor; auto. Qed.
  Lemma all_exist_skipn c n ls : all_exist c ls -> all_exist c (skipn n ls).
  Proof. unfold all_exist. intros H; revert n; induction H; intros [|n]; simpl; try constructor; auto. Qed.
  Lemma all_exist_app c l1 l2 : all_exist c l1 -> all_exist c l2 -> all_exist c (l1 ++ l2).
  Proof. intros; apply Forall_app; split; assumption. Qed.

  Lemma removelast_len {A} (l : list A) : length (removelast l) = (length l - 1)%nat.
  Proof.
    induction l as [|x l IH]; [reflexivity|]. destruct l as [|y l]; [reflexivity|].
    change (removelast (x :: y :: l)) with (x :: removelast (y :: l)). cbn [length] in *. lia.
  Qed.

  (* ---- div_mod ---- *)
  Lemma or_chain_ok ls : forall acc s,
    has_gate (bc s) acc = true -> all_exist (bc s) ls ->
    exists r s', run fresh (or_chain acc ls) s = Ok (r, s') /\ all_exist (bc s') r /\ length r = length ls.
  Proof.
    induction ls as [|x ls IH]; intros acc s Ha Hl; cbn [or_chain].
    - finish. split; [constructor|reflexivity].
    - inversion Hl; subst. tt_step g s1 E1 G1.
      destruct (IH g s1) as (rest & s2 & E2 & Hrest & Lrest); [exact G1| |].
      { eapply all_exist_ext; [eapply run_ext; eassumption|assumption]. }
      rewrite (bind_ok _ _ _ _ _ _ E2). finish.
      split; [constructor; [has_solve|exact Hrest]|simpl; congruence].
  Qed.

  Lemma div_stage_ok b n prov i now s :
    all_exist (bc s) b -> all_exist (bc s) now -> length b = n -> length now = n -> (i < n)%nat ->
    match prov with Some p => has_gate (bc s) p = true | None => True end ->
    exists r s', run fresh (div_stage b n prov i now) s = Ok (r, s') /\
                 has_gate (bc s') (fst r) = true /\ all_exist (bc s') (snd r) /\ length (snd r) = n.
  Proof.
    intros Hb Hnow Lb Ln Hi Hp. unfold div_stage.
    destruct (add_subtract_with_compare_ok (skipn i now) (firstn (n - i) b) false s)
      as ([sub per] & s1 & E1 & Hsub & Hper & Lsub).
    { intros E. apply (f_equal (@length label)) in E. rewrite skipn_length in E. simpl in E. lia. }
    { intros E. apply (f_equal (@length label)) in E. rewrite firstn_length in E. simpl in E. lia. }
    { apply all_exist_skipn, Hnow. } { apply all_exist_firstn, Hb. }
    rewrite (bind_ok _ _ _ _ _ _ E1). cbn [fst snd] in *.
    pose proof (run_ext _ _ _ _ _ E1) as X1.
    assert (has_gate (bc s1) (match prov with Some p => p | None => per end) = true) as Hpp.
    { destruct prov; [eapply ext_has_gate; eassumption|exact Hper]. }
    destruct (gate_tt_ok fresh tt_nor _ per s1 Hf Hpp Hper) as (q & s2 & E2 & Hq).
    rewrite (bind_ok _ _ _ _ _ _ E2). pose proof (run_ext _ _ _ _ _ E2) as X2.
    destruct (mux_loop_ok q (skipn i now) sub s2) as (hi & s3 & E3 & Hhi & Lhi).
    { exact Hq. } { eapply all_exist_ext; eassumption. }
    { apply all_exist_skipn. eapply all_exist_ext; [exact (ext_trans _ _ _ X1 X2)|exact Hnow]. }
    { rewrite Lsub, skipn_length, firstn_length. lia. }
    rewrite (bind_ok _ _ _ _ _ _ E3). finish. cbn [fst snd].
    pose proof (run_ext _ _ _ _ _ E3) as X3.
    split; [eapply ext_has_gate; eassumption|].
    split; [apply all_exist_app; [apply all_exist_firstn|exact Hhi]|].
    - eapply all_exist_ext; [|exact Hnow]. exact (ext_trans _ _ _ (ext_trans _ _ _ X1 X2) X3).
    - rewrite app_length, firstn_length, Lhi, skipn_length. lia.
  Qed.

  Lemma div_loop_ok b pref n : forall i now s,
    all_exist (bc s) b -> all_exist (bc s) now -> all_exist (bc s) pref ->
    length b = n -> length now = n -> (i < n)%nat -> (i <= length pref)%nat ->
    exists r s', run fresh (div_loop b pref n i now) s = Ok (r, s') /\
                 all_exist (bc s') (fst r) /\ all_exist (bc s') (snd r) /\ length (snd r) = n.
  Proof.
    induction i as [|i IH]; intros now s Hb Hnow Hpref Lb Ln Hi Hip; cbn [div_loop].
    - finish. cbn [fst snd]. repeat split; [constructor|exact Hnow|exact Ln].
    - unfold nthP, nth_res. destruct (nth_error pref i) as [prov|] eqn:Ep; [|apply nth_error_None in Ep; lia].
      cbn [ret_res]. rewrite (bind_ok fresh (Ret prov) _ s prov s eq_refl).
      assert (has_gate (bc s) prov = true) as Hprov.
      { eapply Forall_forall in Hpref; [exact Hpref|eapply nth_error_In; eassumption]. }
      destruct (div_stage_ok b n (Some prov) (S i) now s) as ([q now1] & s1 & E1 & Hq & Hn1 & Ln1); try assumption.
      rewrite (bind_ok _ _ _ _ _ _ E1). cbn [fst snd] in *. pose proof (run_ext _ _ _ _ _ E1) as X1.
      destruct (IH now1 s1) as ([qs now2] & s2 & E2 & Hqs & Hn2 & Ln2);
        try assumption; try lia; try (eapply all_exist_ext; eassumption).
      rewrite (bind_ok _ _ _ _ _ _ E2). finish. cbn [fst snd] in *.
      repeat split; [apply all_exist_app; [exact Hqs|constructor; [|constructor]]|exact Hn2|exact Ln2].
      eapply ext_has_gate; [eapply run_ext; eassumption|exact Hq].
  Qed.

  Lemma mask_ok nz ls : forall s,
    has_gate (bc s) nz = true -> all_exist (bc s) ls ->
    exists r s', run fresh (mapP (fun r => gate_tt tt_and r nz) ls) s = Ok (r, s') /\ all_exist (bc s') r.
  Proof.
    induction ls as [|l ls IH]; intros s Hnz Hl; cbn [mapP].
    - finish. constructor.
    - inversion Hl; subst. tt_step g s1 E1 G1.
      destruct (IH s1) as (rest & s2 & E2 & Hrest); [has_solve|eapply all_exist_ext; [eapply run_ext; eassumption|assumption]|].
      rewrite (bind_ok _ _ _ _ _ _ E2). finish. constructor; [has_solve|exact Hrest].
  Qed.

  Lemma lastP_ok {A} (l : list A) s : l <> [] -> exists x, run fresh (lastP l) s = Ok (x, s) /\ In x l.
  Proof.
    intros Hne. unfold lastP. destruct (rev l) as [|x t] eqn:E.
    - apply (f_equal (@length A)) in E. rewrite rev_length in E. destruct l; [contradiction|discriminate].
    - exists x. split; [reflexivity|]. apply in_rev. rewrite E. left. reflexivity.
  Qed.

  Theorem add_div_mod_total xs ys be s :
    xs <> [] -> length ys = length xs -> all_exist (bc s) xs -> all_exist (bc s) ys ->
    exists r s', run fresh (add_div_mod xs ys be) s = Ok (r, s').
  Proof.
    intros Hx L Ax Ay. unfold add_div_mod. rewrite !rev_if_length, L, Nat.eqb_refl. cbn [negb].
    set (a := rev_if be xs). set (b := rev_if be ys). set (n := length xs).
    assert (1 <= n)%nat as Hn by (unfold n; destruct xs; [contradiction|simpl; lia]).
    assert (all_exist (bc s) a) as Aa by apply all_exist_rev_if, Ax.
    assert (all_exist (bc s) b) as Ab by apply all_exist_rev_if, Ay.
    assert (length a = n) as La by apply rev_if_length.
    assert (length b = n) as Lb by (unfold b; rewrite rev_if_length; exact L).
    destruct (lastP_ok b s) as (top & Etop & Itop); [destruct b; [simpl in Lb; lia|discriminate]|].
    rewrite (bind_ok _ _ _ _ _ _ Etop).
    assert (has_gate (bc s) top = true) as Htop by (eapply Forall_forall in Ab; eassumption).
    destruct (or_chain_ok (removelast (tl (rev b))) top s) as (pr & s1 & E1 & Hpr & Lpr); [exact Htop| |].
    { apply Forall_forall. intros x Hin. eapply Forall_forall in Ab; [exact Ab|].
      apply in_rev. assert (In x (tl (rev b))) as Ht.
      { clear -Hin. induction (tl (rev b)) as [|y t IHt]; [contradiction|].
        destruct t as [|z t]; [contradiction|]. destruct Hin as [<-|Hin]; [left; reflexivity|right; auto]. }
      destruct (rev b); [contradiction|right; exact Ht]. }
    rewrite (bind_ok _ _ _ _ _ _ E1). pose proof (run_ext _ _ _ _ _ E1) as X1.
    assert (all_exist (bc s1) (top :: pr)) as Hpref by (constructor; [eapply ext_has_gate; eassumption|exact Hpr]).
    assert (length (top :: pr) = Nat.max 1 (n - 1)) as Lpref.
    { cbn [length]. rewrite Lpr. pose proof (removelast_len (tl (rev b))) as Hl.
      rewrite Hl. assert (length (tl (rev b)) = (n - 1)%nat) as ->; [|lia].
      pose proof (rev_length b) as Hr. destruct (rev b); simpl in *; lia. }
    destruct (div_loop_ok b (top :: pr) n (n - 1) a s1) as ([qs now1] & s2 & E2 & Hqs & Hn1 & Ln1);
      try assumption; try lia; try (eapply all_exist_ext; eassumption).
    rewrite (bind_ok _ _ _ _ _ _ E2). cbn [fst snd] in *. pose proof (run_ext _ _ _ _ _ E2) as X2.
    destruct (div_stage_ok b n None 0 now1 s2) as ([q0 now2] & s3 & E3 & Hq0 & Hn2 & Ln2);
      try assumption; try lia; try exact I.
    { eapply all_exist_ext; [exact (ext_trans _ _ _ X1 X2)|exact Ab]. }
    rewrite (bind_ok _ _ _ _ _ _ E3). cbn [fst snd] in *. pose proof (run_ext _ _ _ _ _ E3) as X3.
    destruct (lastP_ok (top :: pr) s3) as (plast & Epl & Ipl); [discriminate|].
    rewrite (bind_ok _ _ _ _ _ _ Epl).
    assert (ext (bc s1) (bc s3)) as X13 by exact (ext_trans _ _ _ X2 X3).
    assert (has_gate (bc s3) plast = true) as Hpl.
    { eapply ext_has_gate; [exact X13|]. eapply Forall_forall in Hpref; eassumption. }
    unfold nthP, nth_res. destruct b as [|b0 b'] eqn:Eb; [simpl in Lb; lia|]. cbn [nth_error ret_res].
    rewrite (bind_ok fresh (Ret b0) _ s3 b0 s3 eq_refl).
    assert (has_gate (bc s3) b0 = true) as Hb0.
    { eapply ext_has_gate; [eapply ext_trans; [exact X1|exact X13]|]. inversion Ab; assumption. }
    destruct (gate_tt_ok fresh tt_or plast b0 s3 Hf Hpl Hb0) as (nz & s4 & E4 & Hnz).
    rewrite (bind_ok _ _ _ _ _ _ E4). pose proof (run_ext _ _ _ _ _ E4) as X4.
    destruct (mask_ok nz (q0 :: qs) s4) as (res' & s5 & E5 & _); [exact Hnz| |].
    { constructor; [eapply ext_has_gate; eassumption|].
      eapply all_exist_ext; [exact (ext_trans _ _ _ X3 X4)|exact Hqs]. }
    rewrite (bind_ok _ _ _ _ _ _ E5). pose proof (run_ext _ _ _ _ _ E5) as X5.
    destruct (mask_ok nz now2 s5) as (now' & s6 & E6 & _).
    { eapply ext_has_gate; eassumption. }
    { eapply all_exist_ext; [exact (ext_trans _ _ _ X4 X5)|exact Hn2]. }
    rewrite (bind_ok _ _ _ _ _ _ E6). cbn [run]. eauto.
  Qed.

  Lemma half_facts' n0 :
    let half := if Nat.odd n0 then S (n0 / 2) else (n0 / 2)%nat in
    let n := if Nat.odd n0 then S n0 else n0 in
    n = (2 * half)%nat /\ half = ((n0 + 1) / 2)%nat.
  Proof.
    cbv zeta. pose proof (Nat.div_mod n0 2 ltac:(lia)) as Edm.
    assert (n0 mod 2 = if Nat.odd n0 then 1 else 0)%nat as Em.
    { rewrite <- Nat.bit0_mod, Nat.bit0_odd. destruct (Nat.odd n0); reflexivity. }
    destruct (Nat.odd n0).
    - split; [lia|]. replace (n0 + 1)%nat with ((n0 / 2 + 1) * 2)%nat by lia.
      rewrite Nat.div_mul by lia. lia.
    - split; [lia|]. replace (n0 + 1)%nat with (1 + (n0 / 2) * 2)%nat by lia.
      rewrite Nat.div_add by lia. simpl. lia.
  Qed.

  (* ---- sqrt ---- *)
  Lemma all_exist_removelast c ls : all_exist c ls -> all_exist c (removelast ls).
  Proof.
    unfold all_exist. induction 1 as [|x l Hx Hl IH]; [constructor|]. destruct l as [|y l]; [constructor|].
    change (removelast (x :: y :: l)) with (x :: removelast (y :: l)). constructor; assumption.
  Qed.

  Lemma all_exist_repeat c x n : has_gate c x = true -> all_exist c (repeat x n).
  Proof. intros H. induction n; simpl; constructor; auto. Qed.

  Lemma sqrt_stage_ok ZERO UNO st x cl n s :
    has_gate (bc s) ZERO = true -> has_gate (bc s) UNO = true ->
    all_exist (bc s) x -> all_exist (bc s) cl -> length x = n -> length cl = n -> (2 * st + 2 <= n)%nat ->
    exists r s', run fresh (sqrt_stage ZERO UNO st (x, cl)) s = Ok (r, s') /\
                 all_exist (bc s') (fst r) /\ all_exist (bc s') (snd r) /\
                 length (fst r) = n /\ length (snd r) = n.
  Proof.
    intros HZ HU Ax Ac Lx Lc Hk. unfold sqrt_stage. set (k := (2 * st)%nat).
    assert (forall l : list label, length l = n -> skipn k l <> []) as Hne.
    { intros l Ll E. apply (f_equal (@length label)) in E. rewrite skipn_length in E. simpl in E. unfold k in E. lia. }
    destruct (add_sum_two_numbers_ok (skipn k cl) [UNO] false s) as (sm0 & s1 & E1 & Hsm0 & Lsm0);
      [apply Hne, Lc|discriminate|apply all_exist_skipn, Ac|constructor; [exact HU|constructor]|].
    rewrite (bind_ok _ _ _ _ _ _ E1). pose proof (run_ext _ _ _ _ _ E1) as X1.
    rewrite skipn_length, Lc in Lsm0. cbn [length] in Lsm0. rewrite Nat.max_l in Lsm0 by (unfold k; lia).
    destruct (add_subtract_with_compare_ok (skipn k x) (removelast sm0) false s1)
      as ([sub per] & s2 & E2 & Hsub & Hper & Lsub).
    { apply Hne, Lx. }
    { intros E. apply (f_equal (@length label)) in E. rewrite removelast_len, Lsm0 in E. simpl in E. unfold k in E. lia. }
    { apply all_exist_skipn. eapply all_exist_ext; eassumption. }
    { apply all_exist_removelast, Hsm0. }
    rewrite (bind_ok _ _ _ _ _ _ E2). cbn [fst snd] in *. pose proof (run_ext _ _ _ _ _ E2) as X2.
    rewrite skipn_length, Lx, removelast_len, Lsm0 in Lsub.
    destruct (sel_loop_ok per (skipn k x) sub s2) as (xhi & s3 & E3 & Hxhi & Lxhi).
    { exact Hper. } { exact Hsub. }
    { apply all_exist_skipn. eapply all_exist_ext; [exact (ext_trans _ _ _ X1 X2)|exact Ax]. }
    { rewrite Lsub, skipn_length, Lx. lia. }
    rewrite (bind_ok _ _ _ _ _ _ E3). pose proof (run_ext _ _ _ _ _ E3) as X3.
    assert (ext (bc s) (bc s3)) as X03 by exact (ext_trans _ _ _ (ext_trans _ _ _ X1 X2) X3).
    set (c1 := tl cl ++ [ZERO]).
    assert (length c1 = n) as Lc1 by (unfold c1; rewrite app_length; destruct cl; simpl in *; lia).
    assert (all_exist (bc s3) c1) as Ac1.
    { unfold c1. apply all_exist_app; [|constructor; [eapply ext_has_gate; eassumption|constructor]].
      eapply all_exist_ext; [exact X03|]. destruct cl; [constructor|inversion Ac; assumption]. }
    destruct (add_sum_two_numbers_ok (skipn k c1) [UNO] false s3) as (sm1 & s4 & E4 & Hsm1 & Lsm1);
      [apply Hne, Lc1|discriminate|apply all_exist_skipn, Ac1|constructor; [eapply ext_has_gate; eassumption|constructor]|].
    rewrite (bind_ok _ _ _ _ _ _ E4). pose proof (run_ext _ _ _ _ _ E4) as X4.
    rewrite skipn_length, Lc1 in Lsm1. cbn [length] in Lsm1. rewrite Nat.max_l in Lsm1 by (unfold k; lia).
    destruct (sel_loop_ok per (skipn k c1) (removelast sm1) s4) as (chi & s5 & E5 & Hchi & Lchi).
    { eapply ext_has_gate; [exact (ext_trans _ _ _ X3 X4)|exact Hper]. }
    { apply all_exist_removelast, Hsm1. }
    { apply all_exist_skipn. eapply all_exist_ext; eassumption. }
    { rewrite removelast_len, Lsm1, skipn_length, Lc1. lia. }
    rewrite (bind_ok _ _ _ _ _ _ E5). pose proof (run_ext _ _ _ _ _ E5) as X5. finish. cbn [fst snd].
    split; [apply all_exist_app; [apply all_exist_firstn|]|].
    { eapply all_exist_ext; [exact (ext_trans _ _ _ X03 (ext_trans _ _ _ X4 X5))|exact Ax]. }
    { eapply all_exist_ext; [exact (ext_trans _ _ _ X4 X5)|exact Hxhi]. }
    split; [apply all_exist_app; [apply all_exist_firstn; eapply all_exist_ext; [exact (ext_trans _ _ _ X4 X5)|exact Ac1]|exact Hchi]|].
    split; rewrite app_length, firstn_length, ?Lxhi, ?Lchi, skipn_length; unfold k; lia.
  Qed.

  Lemma sqrt_loop_ok ZERO UNO n : forall h x cl s,
    has_gate (bc s) ZERO = true -> has_gate (bc s) UNO = true ->
    all_exist (bc s) x -> all_exist (bc s) cl -> length x = n -> length cl = n -> (2 * h <= n)%nat ->
    exists r s', run fresh (sqrt_loop ZERO UNO h (x, cl)) s = Ok (r, s').
  Proof.
    induction h as [|st IH]; intros x cl s HZ HU Ax Ac Lx Lc Hh; cbn [sqrt_loop].
    - cbn [run]. eauto.
    - destruct (sqrt_stage_ok ZERO UNO st x cl n s) as ([x1 c1] & s1 & E1 & Ax1 & Ac1 & Lx1 & Lc1);
        try assumption; try lia.
      rewrite (bind_ok _ _ _ _ _ _ E1). cbn [fst snd] in *. pose proof (run_ext _ _ _ _ _ E1) as X1.
      apply IH; try assumption; try lia; eapply ext_has_gate; eassumption.
  Qed.

  Theorem add_sqrt_total xs be s :
    xs <> [] -> all_exist (bc s) xs -> exists r s', run fresh (add_sqrt xs be) s = Ok (r, s').
  Proof.
    intros Hx Ax. unfold add_sqrt.
    destruct (rev_if be xs) as [|x0 x'] eqn:Ex; [exfalso; revert Ex; apply rev_if_nonempty, Hx|].
    assert (all_exist (bc s) (x0 :: x')) as Ax' by (rewrite <- Ex; apply all_exist_rev_if, Ax).
    assert (has_gate (bc s) x0 = true) as H0 by (inversion Ax'; assumption).
    unfold nthP, nth_res. cbn [nth_error ret_res]. rewrite (bind_ok fresh (Ret x0) _ s x0 s eq_refl).
    destruct (gate_tt_ok fresh tt_xor x0 x0 s Hf H0 H0) as (ZERO & s1 & E1 & HZ).
    rewrite (bind_ok _ _ _ _ _ _ E1). pose proof (run_ext _ _ _ _ _ E1) as X1.
    assert (has_gate (bc s1) x0 = true) as H0' by (eapply ext_has_gate; eassumption).
    destruct (gate_tt_ok fresh tt_nxor x0 x0 s1 Hf H0' H0') as (UNO & s2 & E2 & HU).
    rewrite (bind_ok _ _ _ _ _ _ E2). pose proof (run_ext _ _ _ _ _ E2) as X2.
    set (n0 := length xs).
    pose proof (half_facts' n0) as (En & _). cbv zeta in En.
    set (half := if Nat.odd n0 then S (n0 / 2) else (n0 / 2)%nat) in *.
    set (n := if Nat.odd n0 then S n0 else n0) in *.
    set (x := if Nat.odd n0 then (x0 :: x') ++ [ZERO] else x0 :: x').
    assert (length (x0 :: x') = n0) as L0 by (rewrite <- Ex, rev_if_length; reflexivity).
    assert (length x = n) as Lx by (unfold x, n; destruct (Nat.odd n0); [rewrite app_length; simpl in *; lia|exact L0]).
    assert (has_gate (bc s2) ZERO = true) as HZ2 by (eapply ext_has_gate; eassumption).
    destruct (sqrt_loop_ok ZERO UNO n half x (repeat ZERO n) s2) as (r & s3 & E3); try assumption.
    { unfold x. assert (all_exist (bc s2) (x0 :: x')) as A2 by (eapply all_exist_ext; [exact (ext_trans _ _ _ X1 X2)|exact Ax']).
      destruct (Nat.odd n0); [apply all_exist_app; [exact A2|constructor; [exact HZ2|constructor]]|exact A2]. }
    { apply all_exist_repeat, HZ2. } { apply repeat_length. } { lia. }
    rewrite (bind_ok _ _ _ _ _ _ E3). cbn [run]. eauto.
  Qed.

  (* ---- add_equal ---- *)
  Lemma eq_literals_ok bits : forall inps s,
    all_exist (bc s) inps -> length bits = length inps ->
    exists r s', run fresh (eq_literals bits inps) s = Ok (r, s') /\ all_exist (bc s') r /\ length r = length inps.
  Proof.
    induction bits as [|bit bits IH]; intros inps s Hi L; destruct inps as [|inp inps]; try discriminate;
      cbn [eq_literals].
    - finish. split; [constructor|reflexivity].
    - inversion Hi; subst.
      assert (exists g s1, run fresh (if bit then Ret inp else gate_new NOT [inp]) s = Ok (g, s1) /\
                           has_gate (bc s1) g = true) as (g & s1 & E1 & Hg).
      { destruct bit; [exists inp, s; split; [reflexivity|assumption]|].
        apply gate_new_ok; [exact Hf|discriminate|constructor; [assumption|constructor]]. }
      rewrite (bind_ok _ _ _ _ _ _ E1). pose proof (run_ext _ _ _ _ _ E1) as X1.
      destruct (IH inps s1) as (rest & s2 & E2 & Hrest & Lrest);
        [eapply all_exist_ext; eassumption|simpl in L; lia|].
      rewrite (bind_ok _ _ _ _ _ _ E2). finish.
      split; [constructor; [has_solve|exact Hrest]|simpl; congruence].
  Qed.

  Lemma and_chain_ok rest : forall l0 s,
    has_gate (bc s) l0 = true -> all_exist (bc s) rest ->
    exists r s', run fresh (foldP (fun last out => gate_new AND [last; out]) rest l0) s = Ok (r, s').
  Proof.
    induction rest as [|o rest IH]; intros l0 s H0 Hr; cbn [foldP].
    - cbn [run]. eauto.
    - inversion Hr; subst.
      destruct (gate_new_ok fresh AND [l0; o] s Hf) as (g & s1 & E1 & Hg);
        [discriminate|constructor; [assumption|constructor; [assumption|constructor]]|].
      rewrite (bind_ok _ _ _ _ _ _ E1). apply IH; [exact Hg|].
      eapply all_exist_ext; [eapply run_ext; eassumption|assumption].
  Qed.

  Theorem add_equal_total xs num s :
    xs <> [] -> all_exist (bc s) xs -> exists r s', run fresh (add_equal xs num) s = Ok (r, s').
  Proof.
    intros Hx Ax. unfold add_equal. destruct (const_fits num (length xs)); cbn [negb].
    - destruct (eq_literals_ok (const_bits num (length xs)) xs s Ax) as (gs & s1 & E1 & Hgs & Lgs).
      { clear. generalize (length xs) as n. intros n; revert num; induction n; intros; simpl; auto. }
      rewrite (bind_ok _ _ _ _ _ _ E1).
      destruct (fresh_ok fresh [] s1 Hf) as (l & s2 & E2 & Ec & Hl & _).
      rewrite (bind_ok _ _ _ _ _ _ E2).
      destruct gs as [|g0 [|g1 rest]].
      + destruct xs; [contradiction|discriminate].
      + cbn [run]. eauto.
      + inversion Hgs as [|? ? H0 Hgs']; subst. inversion Hgs' as [|? ? H1 Hrest]; subst.
        destruct (addgate_ok fresh l AND [g0; g1] s2) as (s3 & E3 & Hl3 & _);
          [discriminate|rewrite Ec; exact Hl|rewrite Ec; constructor; [assumption|constructor; [assumption|constructor]]|].
        rewrite (bind_ok _ _ _ _ _ _ E3). apply and_chain_ok; [exact Hl3|].
        eapply all_exist_ext; [eapply run_ext; eassumption|]. rewrite Ec. exact Hrest.
    - destruct (gate_new_ok fresh ALWAYS_FALSE [] s Hf) as (l & s1 & E1 & _); [discriminate|constructor|].
      eauto.
  Qed.
End Total.
