(* C05 (i): every REGENERATED clause template (Generated/Tseytin.v) is exact:
   for every arity the gate type accepts, the clauses hold under sigma iff the top literal
   has the value of the gate's Boolean function applied to the operand literals' values.
   n-ary templates (AND/NAND/OR/NOR/XOR/NXOR) by induction on the operand list.
   Re-proved against what cirbo/sat/cnf/tseytin.py says now. *)
Require Import Cirbo.Model.Base Cirbo.Model.Gate Cirbo.Model.Den Cirbo.Model.Cnf.
Require Import Cirbo.Generated.Tseytin.
Local Open Scope Z_scope.

(* ---------- literals, clauses ------------------------------------------------------ *)
Lemma lval_opp s l : l <> 0 -> lval s (- l) = negb (lval s l).
Proof.
  intros Hl. unfold lval.
  destruct (Z.ltb_spec l 0), (Z.ltb_spec (- l) 0); try lia.
  - rewrite negb_involutive. reflexivity.
  - rewrite Z.opp_involutive. reflexivity.
Qed.

Lemma lval_pos s l : 0 < l -> lval s l = s l.
Proof. intros H. unfold lval. destruct (Z.ltb_spec l 0); [lia|reflexivity]. Qed.

Lemma sat_app s f g : sat s (f ++ g) = sat s f && sat s g.
Proof. apply forallb_app. Qed.

Lemma sat_cons s c f : sat s (c :: f) = csat s c && sat s f.
Proof. reflexivity. Qed.

Lemma csat_app s c d : csat s (c ++ d) = csat s c || csat s d.
Proof. apply existsb_app. Qed.

Lemma sat_map_cons s x f : sat s (map (cons x) f) = lval s x || sat s f.
Proof.
  induction f as [|c f IH]; [cbn; rewrite orb_true_r; reflexivity|].
  cbn [map]. rewrite !sat_cons, IH. cbn [csat existsb]. destruct (lval s x); reflexivity.
Qed.

(* ---------- the shapes of loops the translator emits ------------------------------- *)
Lemma fold_append_spec {A B} (h : list B -> A -> list B) (k : A -> B) :
  (forall acc x, h acc x = acc ++ [k x]) ->
  forall l acc, fold_left h l acc = acc ++ map k l.
Proof.
  intros Hh l; induction l as [|x l IH]; intros acc; simpl; [rewrite app_nil_r; reflexivity|].
  rewrite Hh, IH, <- app_assoc. reflexivity.
Qed.

Lemma fold_pair_spec {A B C} (h : list B * list C -> A -> list B * list C) (f : A -> B) (g : A -> C) :
  (forall c k x, h (c, k) x = (c ++ [f x], k ++ [g x])) ->
  forall l c k, fold_left h l (c, k) = (c ++ map f l, k ++ map g l).
Proof.
  intros Hh l; induction l as [|x l IH]; intros c k; simpl; [rewrite !app_nil_r; reflexivity|].
  rewrite Hh, IH, <- !app_assoc. reflexivity.
Qed.

(* clause set  { [f l; q] | l in lits }  +  [p :: map g lits]   (AND / NAND / OR / NOR) *)
Definition common_shape (p q : Z) (f g : Z -> Z) (lits : list Z) : list (list Z) :=
  map (fun l => [f l; q]) lits ++ [p :: map g lits].

Lemma common_shape_sat s p q f g lits :
  sat s (common_shape p q f g lits) =
  (forallb (fun l => lval s (f l)) lits || lval s q) && (lval s p || existsb (fun l => lval s (g l)) lits).
Proof.
  unfold common_shape. rewrite sat_app. f_equal.
  - induction lits as [|l lits IH]; [reflexivity|].
    cbn [map]. rewrite sat_cons, IH. cbn [csat existsb forallb].
    destruct (lval s (f l)), (lval s q), (forallb (fun l0 => lval s (f l0)) lits); reflexivity.
  - cbn [sat forallb csat existsb]. rewrite andb_true_r. f_equal.
    induction lits as [|l lits IH]; [reflexivity|]. cbn [map existsb]. rewrite IH. reflexivity.
Qed.

Lemma tpl_and_shape top lits :
  tpl_process_and top lits = Ok (common_shape top (- top) (fun l => l) Z.opp lits).
Proof.
  unfold tpl_process_and, common_shape. cbv zeta.
  erewrite fold_pair_spec; [reflexivity|]. intros; reflexivity.
Qed.
Lemma tpl_nand_shape top lits :
  tpl_process_nand top lits = Ok (common_shape (- top) top (fun l => l) Z.opp lits).
Proof.
  unfold tpl_process_nand, common_shape. cbv zeta.
  erewrite fold_pair_spec; [reflexivity|]. intros; reflexivity.
Qed.
Lemma tpl_or_shape top lits :
  tpl_process_or top lits = Ok (common_shape (- top) top Z.opp (fun l => l) lits).
Proof.
  unfold tpl_process_or, common_shape. cbv zeta.
  erewrite fold_pair_spec; [reflexivity|]. intros; reflexivity.
Qed.
Lemma tpl_nor_shape top lits :
  tpl_process_nor top lits = Ok (common_shape top (- top) Z.opp (fun l => l) lits).
Proof.
  unfold tpl_process_nor, common_shape. cbv zeta.
  erewrite fold_pair_spec; [reflexivity|]. intros; reflexivity.
Qed.

(* ---------- folds of the denotation ------------------------------------------------- *)
Lemma fold_andb l : forall a, fold_left andb l a = a && forallb (fun b => b) l.
Proof. induction l as [|x l IH]; intros a; simpl; [rewrite andb_true_r; reflexivity|]. rewrite IH, andb_assoc. reflexivity. Qed.
Lemma fold_orb l : forall a, fold_left orb l a = a || existsb (fun b => b) l.
Proof. induction l as [|x l IH]; intros a; simpl; [rewrite orb_false_r; reflexivity|]. rewrite IH, orb_assoc. reflexivity. Qed.

Fixpoint parity (bs : list bool) : bool :=
  match bs with [] => false | b :: r => xorb b (parity r) end.

Lemma fold_xorb l : forall a, fold_left xorb l a = xorb a (parity l).
Proof. induction l as [|x l IH]; intros a; simpl; [rewrite xorb_false_r; reflexivity|]. rewrite IH, xorb_assoc. reflexivity. Qed.

Lemma den_and bs : (2 <= length bs)%nat -> den AND bs = Some (forallb (fun b => b) bs).
Proof. destruct bs as [|a [|b r]]; simpl; try lia. intros _. rewrite fold_andb. destruct a, b; reflexivity. Qed.
Lemma den_or bs : (2 <= length bs)%nat -> den OR bs = Some (existsb (fun b => b) bs).
Proof. destruct bs as [|a [|b r]]; simpl; try lia. intros _. rewrite fold_orb. destruct a, b; reflexivity. Qed.
Lemma den_xor bs : (2 <= length bs)%nat -> den XOR bs = Some (parity bs).
Proof. destruct bs as [|a [|b r]]; simpl; try lia. intros _. rewrite fold_xorb. destruct a, b, (parity r); reflexivity. Qed.

Lemma forallb_map_id {A} (f : A -> bool) l : forallb (fun b => b) (map f l) = forallb f l.
Proof. induction l as [|x l IH]; simpl; [reflexivity|rewrite IH; reflexivity]. Qed.
Lemma existsb_map_id {A} (f : A -> bool) l : existsb (fun b => b) (map f l) = existsb f l.
Proof. induction l as [|x l IH]; simpl; [reflexivity|rewrite IH; reflexivity]. Qed.

Lemma existsb_opp s lits : Forall (fun l => l <> 0) lits ->
  existsb (fun l => lval s (- l)) lits = negb (forallb (lval s) lits).
Proof.
  induction 1 as [|l lits Hl _ IH]; [reflexivity|]. cbn [existsb forallb].
  rewrite IH, lval_opp by exact Hl. destruct (lval s l), (forallb (lval s) lits); reflexivity.
Qed.
Lemma forallb_opp s lits : Forall (fun l => l <> 0) lits ->
  forallb (fun l => lval s (- l)) lits = negb (existsb (lval s) lits).
Proof.
  induction 1 as [|l lits Hl _ IH]; [reflexivity|]. cbn [existsb forallb].
  rewrite IH, lval_opp by exact Hl. destruct (lval s l), (existsb (lval s) lits); reflexivity.
Qed.

(* ---------- XOR / NXOR: one clause per sign vector ---------------------------------- *)
Definition xclause (p q : Z) (lits signs : list Z) : list Z :=
  map (fun '((sign, l) : Z * Z) => sign * l) (combine signs lits)
  ++ [if py_truthy (py_count signs (-1) mod 2) then p else q].

Lemma tpl_xor_shape top lits :
  tpl_process_xor top lits =
  Ok (map (xclause top (- top) lits) (py_product_repeat [-1; 1] (length lits))).
Proof.
  unfold tpl_process_xor. cbv zeta.
  erewrite fold_append_spec; [reflexivity|]. intros; reflexivity.
Qed.
Lemma tpl_nxor_shape top lits :
  tpl_process_nxor top lits =
  Ok (map (xclause (- top) top lits) (py_product_repeat [-1; 1] (length lits))).
Proof.
  unfold tpl_process_nxor. cbv zeta.
  erewrite fold_append_spec; [reflexivity|]. intros; reflexivity.
Qed.

Lemma py_count_cons_eq x r : py_count (x :: r) x = 1 + py_count r x.
Proof.
  unfold py_count. cbn [filter]. rewrite Z.eqb_refl. cbn [List.length]. lia.
Qed.
Lemma py_count_cons_neq x y r : x <> y -> py_count (y :: r) x = py_count r x.
Proof.
  intros H. unfold py_count. cbn [filter].
  destruct (Z.eqb_spec x y); [contradiction|reflexivity].
Qed.
Lemma py_count_nonneg l x : 0 <= py_count l x.
Proof. unfold py_count. lia. Qed.

Lemma truthy_mod2_succ n : 0 <= n -> py_truthy ((1 + n) mod 2) = negb (py_truthy (n mod 2)).
Proof.
  intros Hn. unfold py_truthy.
  assert (H1 := Z.mod_pos_bound n 2 ltac:(lia)).
  assert (H2 := Z.mod_pos_bound (1 + n) 2 ltac:(lia)).
  assert (Hd := Z.div_mod n 2 ltac:(lia)).
  assert (Hd2 := Z.div_mod (1 + n) 2 ltac:(lia)).
  destruct (Z.eqb_spec ((1 + n) mod 2) 0), (Z.eqb_spec (n mod 2) 0); simpl; try reflexivity; lia.
Qed.

Lemma xclause_neg p q l lits r :
  xclause p q (l :: lits) (-1 :: r) = (- l) :: xclause q p lits r.
Proof.
  unfold xclause. cbn [combine map app].
  rewrite py_count_cons_eq, truthy_mod2_succ by apply py_count_nonneg.
  replace (-1 * l) with (- l) by lia.
  destruct (py_truthy (py_count r (-1) mod 2)); reflexivity.
Qed.
Lemma xclause_pos p q l lits r :
  xclause p q (l :: lits) (1 :: r) = l :: xclause p q lits r.
Proof.
  unfold xclause. cbn [combine map app].
  rewrite py_count_cons_neq by lia.
  replace (1 * l) with l by lia. reflexivity.
Qed.

Lemma xor_shape_sat s lits : Forall (fun l => l <> 0) lits -> forall p q,
  sat s (map (xclause p q lits) (py_product_repeat [-1; 1] (length lits))) =
  if parity (map (lval s) lits) then lval s p else lval s q.
Proof.
  induction 1 as [|l lits Hl _ IH]; intros p q.
  - cbn. rewrite orb_false_r, andb_true_r. reflexivity.
  - cbn [length py_product_repeat flat_map]. rewrite app_nil_r, map_app, !map_map, sat_app.
    rewrite (map_ext _ (fun r => (- l) :: xclause q p lits r)) by (intros; apply xclause_neg).
    rewrite (map_ext (fun r => xclause p q (l :: lits) (1 :: r)) (fun r => l :: xclause p q lits r))
      by (intros; apply xclause_pos).
    rewrite <- (map_map (xclause q p lits) (cons (- l))), <- (map_map (xclause p q lits) (cons l)).
    rewrite !sat_map_cons, !IH, lval_opp by exact Hl.
    cbn [map parity].
    destruct (lval s l), (parity (map (lval s) lits)), (lval s p), (lval s q); reflexivity.
Qed.

(* ---------- (i) the per-template theorem -------------------------------------------- *)
Lemma length_2 {A} (l : list A) : (length l =? 2)%nat = true -> exists a b, l = [a; b].
Proof. destruct l as [|a [|b [|c r]]]; simpl; try discriminate. eauto. Qed.
Lemma length_1 {A} (l : list A) : (length l =? 1)%nat = true -> exists a, l = [a].
Proof. destruct l as [|a [|b r]]; simpl; try discriminate. eauto. Qed.

Ltac bool_cases s :=
  repeat match goal with
         | |- context [lval s ?x] => let b := fresh "b" in remember (lval s x) as b; destruct b
         end; cbn; split; congruence.

Theorem template_exact g top lits cl s :
  top <> 0 -> Forall (fun l => l <> 0) lits ->
  den_accepts g (length lits) = true ->
  template_of g top lits = Ok cl ->
  (sat s cl = true <-> den g (map (lval s) lits) = Some (lval s top)).
Proof.
  intros Htop Hlits Hacc Htpl.
  destruct g; cbn [den_accepts] in Hacc; try discriminate; cbn [template_of] in Htpl.
  - (* ALWAYS_TRUE *) injection Htpl as <-. cbn. destruct (lval s top); cbn; split; congruence.
  - (* ALWAYS_FALSE *) injection Htpl as <-. cbn. rewrite lval_opp by exact Htop.
    destruct (lval s top); cbn; split; congruence.
  - (* AND *) rewrite tpl_and_shape in Htpl. injection Htpl as <-.
    apply Nat.leb_le in Hacc.
    rewrite den_and by (rewrite map_length; exact Hacc).
    rewrite common_shape_sat, existsb_opp, lval_opp, forallb_map_id by assumption.
    destruct (lval s top), (forallb (lval s) lits); cbn; split; congruence.
  - (* GEQ *) destruct (length_2 _ Hacc) as (a & b & ->). injection Htpl as <-.
    inversion Hlits as [|? ? Ha Hl2]; subst. inversion Hl2 as [|? ? Hb _]; subst.
    cbn [sat csat forallb existsb map den bin]. rewrite !lval_opp by assumption. bool_cases s.
  - (* GT *) destruct (length_2 _ Hacc) as (a & b & ->). injection Htpl as <-.
    inversion Hlits as [|? ? Ha Hl2]; subst. inversion Hl2 as [|? ? Hb _]; subst.
    cbn [sat csat forallb existsb map den bin]. rewrite !lval_opp by assumption. bool_cases s.
  - (* IFF *) destruct (length_1 _ Hacc) as (a & ->). injection Htpl as <-.
    inversion Hlits as [|? ? Ha _]; subst.
    cbn [sat csat forallb existsb map den un]. rewrite !lval_opp by assumption. bool_cases s.
  - (* LEQ *) destruct (length_2 _ Hacc) as (a & b & ->). injection Htpl as <-.
    inversion Hlits as [|? ? Ha Hl2]; subst. inversion Hl2 as [|? ? Hb _]; subst.
    cbn [sat csat forallb existsb map den bin]. rewrite !lval_opp by assumption. bool_cases s.
  - (* LIFF *) destruct (length_2 _ Hacc) as (a & b & ->). injection Htpl as <-.
    inversion Hlits as [|? ? Ha Hl2]; subst. inversion Hl2 as [|? ? Hb _]; subst.
    cbn [sat csat forallb existsb map den bin]. rewrite !lval_opp by assumption. bool_cases s.
  - (* LNOT *) destruct (length_2 _ Hacc) as (a & b & ->). injection Htpl as <-.
    inversion Hlits as [|? ? Ha Hl2]; subst. inversion Hl2 as [|? ? Hb _]; subst.
    cbn [sat csat forallb existsb map den bin]. rewrite !lval_opp by assumption. bool_cases s.
  - (* LT *) destruct (length_2 _ Hacc) as (a & b & ->). injection Htpl as <-.
    inversion Hlits as [|? ? Ha Hl2]; subst. inversion Hl2 as [|? ? Hb _]; subst.
    cbn [sat csat forallb existsb map den bin]. rewrite !lval_opp by assumption. bool_cases s.
  - (* NAND *) rewrite tpl_nand_shape in Htpl. injection Htpl as <-.
    apply Nat.leb_le in Hacc.
    change (den NAND (map (lval s) lits)) with (option_map negb (den AND (map (lval s) lits))).
    rewrite den_and by (rewrite map_length; exact Hacc). cbn [option_map].
    rewrite common_shape_sat, existsb_opp, lval_opp, forallb_map_id by assumption.
    destruct (lval s top), (forallb (lval s) lits); cbn; split; congruence.
  - (* NOR *) rewrite tpl_nor_shape in Htpl. injection Htpl as <-.
    apply Nat.leb_le in Hacc.
    change (den NOR (map (lval s) lits)) with (option_map negb (den OR (map (lval s) lits))).
    rewrite den_or by (rewrite map_length; exact Hacc). cbn [option_map].
    rewrite common_shape_sat, forallb_opp, lval_opp, existsb_map_id by assumption.
    destruct (lval s top), (existsb (lval s) lits); cbn; split; congruence.
  - (* NOT *) destruct (length_1 _ Hacc) as (a & ->). injection Htpl as <-.
    inversion Hlits as [|? ? Ha _]; subst.
    cbn [sat csat forallb existsb map den un]. rewrite !lval_opp by assumption. bool_cases s.
  - (* NXOR *) rewrite tpl_nxor_shape in Htpl. injection Htpl as <-.
    apply Nat.leb_le in Hacc.
    change (den NXOR (map (lval s) lits)) with (option_map negb (den XOR (map (lval s) lits))).
    rewrite den_xor by (rewrite map_length; exact Hacc). cbn [option_map].
    rewrite xor_shape_sat, lval_opp by assumption.
    destruct (lval s top), (parity (map (lval s) lits)); cbn; split; congruence.
  - (* OR *) rewrite tpl_or_shape in Htpl. injection Htpl as <-.
    apply Nat.leb_le in Hacc.
    rewrite den_or by (rewrite map_length; exact Hacc).
    rewrite common_shape_sat, forallb_opp, lval_opp, existsb_map_id by assumption.
    destruct (lval s top), (existsb (lval s) lits); cbn; split; congruence.
  - (* RIFF *) destruct (length_2 _ Hacc) as (a & b & ->). injection Htpl as <-.
    inversion Hlits as [|? ? Ha Hl2]; subst. inversion Hl2 as [|? ? Hb _]; subst.
    cbn [sat csat forallb existsb map den bin]. rewrite !lval_opp by assumption. bool_cases s.
  - (* RNOT *) destruct (length_2 _ Hacc) as (a & b & ->). injection Htpl as <-.
    inversion Hlits as [|? ? Ha Hl2]; subst. inversion Hl2 as [|? ? Hb _]; subst.
    cbn [sat csat forallb existsb map den bin]. rewrite !lval_opp by assumption. bool_cases s.
  - (* XOR *) rewrite tpl_xor_shape in Htpl. injection Htpl as <-.
    apply Nat.leb_le in Hacc.
    rewrite den_xor by (rewrite map_length; exact Hacc).
    rewrite xor_shape_sat, lval_opp by assumption.
    destruct (lval s top), (parity (map (lval s) lits)); cbn; split; congruence.
Qed.

(* every accepted arity is accepted by the template (no IndexError) *)
Theorem template_accepts g top lits :
  den_accepts g (length lits) = true -> exists cl, template_of g top lits = Ok cl.
Proof.
  intros Hacc.
  destruct g; cbn [den_accepts] in Hacc; try discriminate; cbn [template_of];
    try (destruct (length_2 _ Hacc) as (a & b & ->); eexists; reflexivity);
    try (destruct (length_1 _ Hacc) as (a & ->); eexists; reflexivity);
    try (eexists; reflexivity);
    rewrite ?tpl_and_shape, ?tpl_nand_shape, ?tpl_or_shape, ?tpl_nor_shape, ?tpl_xor_shape, ?tpl_nxor_shape;
    eauto.
Qed.

(* the only exception a template can raise is IndexError *)
Theorem template_errors g top lits e : template_of g top lits = Err e -> e = PyIndexError.
Proof.
  destruct g; cbn [template_of];
    rewrite ?tpl_and_shape, ?tpl_nand_shape, ?tpl_or_shape, ?tpl_nor_shape, ?tpl_xor_shape, ?tpl_nxor_shape;
    try discriminate;
    destruct lits as [|a [|b r]]; cbn; intros H; try discriminate; injection H as <-; reflexivity.
Qed.

(* INPUT gates contribute no clause *)
Lemma template_input top lits : template_of INPUT top lits = Ok [].
Proof. reflexivity. Qed.
