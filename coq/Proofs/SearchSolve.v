(* C06: find_circuit with an arbitrary sound and complete SAT solver (a Section variable):
   it returns a circuit of the class, reports NoSolutionError exactly when the class is empty,
   and does nothing else.  Also: reflection of the well-formedness of a spec. *)
Require Import Cirbo.Model.Base Cirbo.Model.Gate Cirbo.Model.Den Cirbo.Model.Search.
Require Import Cirbo.Proofs.SearchFacts Cirbo.Proofs.SearchSound Cirbo.Proofs.SearchComplete.
Local Open Scope nat_scope.

Section Solver.
  Variable solve : list clause -> option asg.
  Hypothesis solve_sound : forall f s, solve f = Some s -> Sat s f.
  Hypothesis solve_complete : forall f, solve f = None -> forall s, ~ Sat s f.

  Theorem find_circuit_valid sp c : spec_wf sp -> find_circuit solve sp = Ok c -> Valid sp c.
  Proof.
    intros Hwf. unfold find_circuit. destruct (has_empty_clause (encode sp)); [discriminate|].
    destruct (solve (encode sp)) as [s|] eqn:Es; [|discriminate]. intros Hd.
    destruct (encode_sound sp s Hwf (solve_sound _ _ Es)) as [c' [Hd' Hv]]. congruence.
  Qed.

  Theorem find_circuit_no_solution sp : spec_wf sp ->
    (find_circuit solve sp = Err NoSolutionError <-> forall c, ~ Valid sp c).
  Proof.
    intros Hwf. unfold find_circuit. split.
    - intros H c Hv. destruct (encode_complete sp c Hwf Hv) as [s [Hs _]].
      destruct (has_empty_clause (encode sp)) eqn:Ee; [exact (has_empty_clause_unsat s _ Ee Hs)|].
      destruct (solve (encode sp)) as [s'|] eqn:Es; [|exact (solve_complete _ Es s Hs)].
      destruct (encode_sound sp s' Hwf (solve_sound _ _ Es)) as [c' [Hd' _]]. congruence.
    - intros H. destruct (has_empty_clause (encode sp)); [reflexivity|].
      destruct (solve (encode sp)) as [s|] eqn:Es; [|reflexivity].
      destruct (encode_sound sp s Hwf (solve_sound _ _ Es)) as [c [_ Hv]]. destruct (H c Hv).
  Qed.

  Theorem find_circuit_total sp : spec_wf sp ->
    (exists c, find_circuit solve sp = Ok c) \/ find_circuit solve sp = Err NoSolutionError.
  Proof.
    intros Hwf. unfold find_circuit. destruct (has_empty_clause (encode sp)); [right; reflexivity|].
    destruct (solve (encode sp)) as [s|] eqn:Es; [|right; reflexivity].
    destruct (encode_sound sp s Hwf (solve_sound _ _ Es)) as [c [Hd _]]. left. exists c. exact Hd.
  Qed.
End Solver.

(* ---------- executable reflections ---------------------------------- *)
Lemma spec_wfb_spec sp : spec_wfb sp = true -> spec_wf sp.
Proof.
  unfold spec_wfb. rewrite andb_true_iff. intros [Hf Hc]. constructor.
  - intros t. unfold forb_okb in Hf. rewrite forallb_forall in Hf.
    assert (Ht : In t all_tt4) by (destruct t as [[[[] []] []] []]; vm_compute; tauto).
    specialize (Hf t Ht). apply Bool.eqb_prop in Hf.
    rewrite <- !mem_tt_In. rewrite Hf. destruct (mem_tt t (sp_basis sp)); simpl; split; congruence.
  - intros k Hk. rewrite forallb_forall in Hc. apply Hc, Hk.
Qed.

Lemma gates_okb_spec sp gs : forall i0, gates_okb sp i0 gs = true ->
  forall i g, nth_error gs i = Some g -> gate_ok sp (i0 + i) g.
Proof.
  induction gs as [|g0 gs IH]; intros i0 H i g E; [destruct i; discriminate|].
  simpl in H. rewrite !andb_true_iff in H. destruct H as [[[[H1 H2] H3] H4] H5].
  destruct i as [|i]; simpl in E.
  - inversion E; subst g0. rewrite Nat.add_0_r. unfold gate_ok.
    apply Nat.ltb_lt in H1, H2. apply mem_tt_In in H3.
    repeat split; try assumption. intros Hn. rewrite Hn in H4. apply negb_true_iff in H4. exact H4.
  - replace (i0 + S i) with (S i0 + i) by lia. apply (IH (S i0)); assumption.
Qed.

Lemma cons_holdsb_spec sp c k : cons_holdsb sp c k = true -> cons_holds sp c k.
Proof.
  destruct k as [g fp sd gt|from to]; simpl.
  - destruct (nth_error (ck_gates c) (g - sp_n sp)) as [x|]; [|discriminate].
    rewrite andb_true_iff. intros [H1 H2]. exists x. split; [reflexivity|]. split.
    + destruct fp as [f|], sd as [d|]; simpl; try exact I.
      * apply andb_true_iff in H1. rewrite !Nat.eqb_eq in H1. exact H1.
      * apply orb_true_iff in H1. rewrite !Nat.eqb_eq in H1. exact H1.
      * apply orb_true_iff in H1. rewrite !Nat.eqb_eq in H1. exact H1.
    + destruct gt as [t|]; [|exact I]. unfold opt_tt_eqb in H2.
      destruct (fix_table t) as [tb|]; [|discriminate]. apply tt4_eqb_eq' in H2. congruence.
  - destruct (nth_error (ck_gates c) (to - sp_n sp)) as [x|]; [|discriminate].
    rewrite andb_true_iff, !negb_true_iff, !Nat.eqb_neq. intros [H1 H2]. exists x. auto.
Qed.

Lemma in_combine_nth {A B} (l1 : list A) : forall (l2 : list B) h a b,
  nth_error l1 h = Some a -> nth_error l2 h = Some b -> In (a, b) (combine l1 l2).
Proof.
  induction l1 as [|x l1 IH]; intros l2 h a b E1 E2; [destruct h; discriminate|].
  destruct l2 as [|y l2]; [destruct h; discriminate|].
  destruct h as [|h]; simpl in *.
  - inversion E1; inversion E2; subst. left; reflexivity.
  - right. eapply IH; eassumption.
Qed.

Lemma agreeb_spec sp c : agreeb sp c = true ->
  forall h t v o, t < 2 ^ sp_n sp -> out_at sp h t = Some v -> nth_error (ck_outs c) h = Some o ->
                  value (sp_n sp) (ck_gates c) t o = v.
Proof.
  unfold agreeb. rewrite forallb_forall. intros H h t v o Ht Eo En.
  destruct (out_at_live sp h t v Ht Eo) as [_ Hh].
  assert (Hin : In (h, o) (combine (seq 0 (sp_m sp)) (ck_outs c))).
  { assert (E1 : nth_error (seq 0 (sp_m sp)) h = Some h).
    { rewrite nth_error_nth' with (d := 0) by (rewrite seq_length; exact Hh). rewrite seq_nth by exact Hh. reflexivity. }
    exact (in_combine_nth _ _ _ _ _ E1 En). }
  specialize (H _ Hin). simpl in H. rewrite forallb_forall in H.
  specialize (H t). assert (Hr : In t (rows sp)) by (apply in_seq; lia). specialize (H Hr).
  rewrite Eo in H. apply Bool.eqb_prop in H. exact H.
Qed.

Theorem validb_sound sp c : validb sp c = true -> Valid sp c.
Proof.
  unfold validb. rewrite !andb_true_iff. intros [[[[[H1 H2] H3] H4] H5] H6]. constructor.
  - apply Nat.eqb_eq, H1.
  - intros i g E. apply (gates_okb_spec sp _ 0 H2 i g E).
  - apply Nat.eqb_eq, H3.
  - intros o Ho. rewrite forallb_forall in H4. specialize (H4 o Ho).
    apply andb_true_iff in H4. destruct H4 as [Ha Hb]. apply Nat.leb_le in Ha. apply Nat.ltb_lt in Hb. lia.
  - apply agreeb_spec, H5.
  - intros k Hk. rewrite forallb_forall in H6. apply cons_holdsb_spec, H6, Hk.
Qed.

(* ---------- and conversely: validb decides the class ------------------- *)
Lemma gates_okb_complete sp gs : forall i0,
  (forall i g, nth_error gs i = Some g -> gate_ok sp (i0 + i) g) -> gates_okb sp i0 gs = true.
Proof.
  induction gs as [|g0 gs IH]; intros i0 H; [reflexivity|]. simpl.
  destruct (H 0 g0 eq_refl) as [H1 [H2 [H3 H4]]]. rewrite Nat.add_0_r in H2.
  rewrite !andb_true_iff. repeat split.
  - apply Nat.ltb_lt, H1.
  - apply Nat.ltb_lt, H2.
  - apply mem_tt_In, H3.
  - destruct (sp_norm sp); [|reflexivity]. rewrite H4; reflexivity.
  - apply IH. intros i g E. replace (S i0 + i) with (i0 + S i) by lia. apply H. exact E.
Qed.

Lemma cons_holdsb_complete sp c k : cons_holds sp c k -> cons_holdsb sp c k = true.
Proof.
  destruct k as [g fp sd gt|from to]; simpl.
  - intros [x [E [Hp Ht]]]. rewrite E. apply andb_true_iff. split.
    + destruct fp as [f|], sd as [d|]; simpl in Hp; try reflexivity.
      * destruct Hp as [-> ->]. rewrite !Nat.eqb_refl. reflexivity.
      * apply orb_true_iff. rewrite !Nat.eqb_eq. exact Hp.
      * apply orb_true_iff. rewrite !Nat.eqb_eq. exact Hp.
    + destruct gt as [t|]; [|reflexivity]. rewrite Ht. simpl. apply tt4_eqb_eq'. reflexivity.
  - intros [x [E [Ha Hb]]]. rewrite E. rewrite andb_true_iff, !negb_true_iff, !Nat.eqb_neq. auto.
Qed.

Lemma in_combine_seq {B} (l : list B) : forall s k h o,
  In (h, o) (combine (seq s k) l) -> s <= h /\ nth_error l (h - s) = Some o.
Proof.
  induction l as [|y l IH]; intros s k h o Hin; [destruct (seq s k); destruct Hin|].
  destruct k as [|k]; [destruct Hin|]. simpl in Hin. destruct Hin as [E|Hin].
  - inversion E; subst. rewrite Nat.sub_diag. auto.
  - apply IH in Hin. destruct Hin as [Hle E]. split; [lia|].
    replace (h - s) with (S (h - S s)) by lia. exact E.
Qed.

Lemma agreeb_complete sp c :
  (forall h t v o, t < 2 ^ sp_n sp -> out_at sp h t = Some v -> nth_error (ck_outs c) h = Some o ->
                   value (sp_n sp) (ck_gates c) t o = v) -> agreeb sp c = true.
Proof.
  intros H. unfold agreeb. apply forallb_forall. intros [h o] Hin. simpl.
  apply in_combine_seq in Hin. destruct Hin as [_ En]. rewrite Nat.sub_0_r in En.
  apply forallb_forall. intros t Ht. apply in_seq in Ht.
  destruct (out_at sp h t) as [v|] eqn:Eo; [|reflexivity].
  apply Bool.eqb_true_iff. apply (H h t v o); [lia|exact Eo|exact En].
Qed.

Theorem validb_complete sp c : Valid sp c -> validb sp c = true.
Proof.
  intros Hv. unfold validb. rewrite !andb_true_iff. repeat split.
  - apply Nat.eqb_eq, (v_len sp c Hv).
  - apply gates_okb_complete. intros i g E. apply (v_gates sp c Hv i g E).
  - apply Nat.eqb_eq, (v_outs_len sp c Hv).
  - apply forallb_forall. intros o Ho. pose proof (v_outs sp c Hv o Ho) as [H1 H2].
    apply andb_true_iff. split; [apply Nat.leb_le, H1|apply Nat.ltb_lt, H2].
  - apply agreeb_complete, (v_agree sp c Hv).
  - apply forallb_forall. intros k Hk. apply cons_holdsb_complete, (v_cons sp c Hv k Hk).
Qed.

Theorem validb_spec sp c : validb sp c = true <-> Valid sp c.
Proof. split; [apply validb_sound|apply validb_complete]. Qed.
