(* Facts about the GENERATED synthesis tables (Generated/SearchTables.v), re-proved against
   what circuit_search.py contains now:
   - _tt_to_gate_type maps every 4-bit table to a gate type whose denotation IS that table
     (index convention 2p+q), and is injective;
   - every Operation member's value is the table of the operator it is named after;
   - the Basis lists are duplicate-free sub-lists of FULL, FULL contains every member, and the
     member values are pairwise different and exhaust the 16 tables. *)
Require Import Cirbo.Model.Base Cirbo.Model.Gate Cirbo.Model.Den Cirbo.Model.Search.
Require Import Cirbo.Generated.SearchTables Cirbo.Generated.GateTypes Cirbo.Proofs.OpFacts.

Lemma tt4_eqb_eq s t : tt4_eqb s t = true <-> s = t.
Proof.
  destruct s as [[[a b] c] d], t as [[[a' b'] c'] d']; unfold tt4_eqb.
  rewrite !andb_true_iff, !Bool.eqb_true_iff.
  split; [intros [[[-> ->] ->] ->]; reflexivity|inversion 1; auto].
Qed.

Lemma all_tt4_complete t : In t all_tt4.
Proof. destruct t as [[[[] []] []] []]; vm_compute; tauto. Qed.

(* den (tt_to_gate_type t) [p; q] = bit 2p+q of t *)
Theorem tt_to_gate_type_den t p q : den (tt_to_gate_type t) [p; q] = Some (tt_get t p q).
Proof. destruct t as [[[[] []] []] []], p, q; reflexivity. Qed.

Theorem tt_to_gate_type_fix_table t : fix_table (tt_to_gate_type t) = Some t.
Proof. destruct t as [[[[] []] []] []]; reflexivity. Qed.

Theorem tt_to_gate_type_inj s t : tt_to_gate_type s = tt_to_gate_type t -> s = t.
Proof.
  intros H. assert (E : fix_table (tt_to_gate_type s) = fix_table (tt_to_gate_type t)) by (rewrite H; reflexivity).
  rewrite !tt_to_gate_type_fix_table in E. congruence.
Qed.

(* a gate type that has a binary table is the image of that table *)
Theorem fix_table_tt_to_gate_type g t : fix_table g = Some t -> tt_to_gate_type t = g.
Proof. destruct g; vm_compute; intros H; inversion H; reflexivity. Qed.

(* every Operation's table equals the table of the operator it is named after *)
Theorem op_table_named o p q : den (op_named_type o) [p; q] = Some (tt_get (op_table o) p q).
Proof. destruct o, p, q; reflexivity. Qed.

Theorem op_table_named_type o : tt_to_gate_type (op_table o) = op_named_type o.
Proof. destruct o; reflexivity. Qed.

(* the same against the GENERATED three-valued operator of that gate type (translator T1):
   Operation.x_.value is the table of the Python function x_ of operators.py *)
Theorem op_table_operator o p q :
  operator_of (op_named_type o) [inj p; inj q] = Ok (inj (tt_get (op_table o) p q)).
Proof.
  change [inj p; inj q] with (map inj [p; q]). rewrite operator_of_den, op_table_named. reflexivity.
Qed.

Definition operation_eqb (a b : operation) : bool := tt4_eqb (op_table a) (op_table b).

Theorem op_table_inj a b : op_table a = op_table b -> a = b.
Proof. destruct a, b; vm_compute; intros H; try reflexivity; discriminate H. Qed.

Theorem all_operations_complete o : In o all_operations.
Proof. destruct o; vm_compute; tauto. Qed.

Theorem op_table_surj t : exists o, op_table o = t.
Proof.
  assert (H : forallb (fun t => existsb (fun o => tt4_eqb (op_table o) t) all_operations) all_tt4 = true)
    by (vm_compute; reflexivity).
  rewrite forallb_forall in H. specialize (H t (all_tt4_complete t)).
  apply existsb_exists in H. destruct H as [o [_ E]]. exists o. apply tt4_eqb_eq, E.
Qed.

(* bases: duplicate-free, inside FULL; FULL is everything *)
Fixpoint op_nodupb (l : list operation) : bool :=
  match l with [] => true | x :: xs => negb (existsb (operation_eqb x) xs) && op_nodupb xs end.

Lemma operation_eqb_eq a b : operation_eqb a b = true <-> a = b.
Proof. unfold operation_eqb. rewrite tt4_eqb_eq. split; [apply op_table_inj|intros ->; reflexivity]. Qed.

Lemma op_nodupb_NoDup l : op_nodupb l = true -> NoDup l.
Proof.
  induction l as [|x xs IH]; simpl; [constructor|].
  rewrite andb_true_iff, negb_true_iff. intros [H1 H2]. constructor; [|auto].
  intros Hin. assert (existsb (operation_eqb x) xs = true); [|congruence].
  apply existsb_exists. exists x. split; [exact Hin|apply operation_eqb_eq; reflexivity].
Qed.

Theorem bases_nodup : forall nm b, In (nm, b) all_bases -> NoDup b.
Proof.
  assert (H : forallb (fun nb => op_nodupb (snd nb)) all_bases = true) by (vm_compute; reflexivity).
  rewrite forallb_forall in H. intros nm b Hin. apply op_nodupb_NoDup. apply (H _ Hin).
Qed.

Theorem full_is_everything o : In o basis_FULL.
Proof. destruct o; vm_compute; tauto. Qed.

Theorem bases_in_full : forall nm b, In (nm, b) all_bases -> incl b basis_FULL.
Proof. intros nm b _ o _. apply full_is_everything. Qed.

Theorem str_to_basis_names : forall nm b, In (nm, b) str_to_basis -> In (nm, b) all_bases.
Proof. vm_compute. tauto. Qed.

(* the tables of FULL are all 16 tables: so "forbidden = FULL minus basis" is exactly the
   complement of the basis among all binary operations *)
Theorem full_tables_everything t : In t (map op_table basis_FULL).
Proof.
  destruct (op_table_surj t) as [o <-]. apply in_map, full_is_everything.
Qed.
