(* The regenerated RemoveRedundantGates._transform (Generated/PassesGen.v, translator T15) equals the hand model
   Passes.remove_redundant_gates, for both values of the flag and every circuit. *)
Require Import Cirbo.Model.Base Cirbo.Model.Gate Cirbo.Model.Circuit Cirbo.Model.Traverse Cirbo.Model.Eval
               Cirbo.Model.Passes.
Require Import Cirbo.Generated.GateTypes Cirbo.Generated.PassesGen.
Require Import Cirbo.Proofs.PassesGenBase.

Theorem gen_rr_eq allow c :
  gen_RemoveRedundantGates_transform allow c = remove_redundant_gates allow c.
Proof.
  unfold gen_RemoveRedundantGates_transform, remove_redundant_gates, dfs_emission.
  rewrite pg_bind_assoc.
  destruct (traverse DFS false c (Some (outputs c)) false no_abort) as [log|e] eqn:Ht; cbn [bind]; [|reflexivity].
  rewrite app_nil_r.
  rewrite (hook_fold_exit _ (fun n l => do g <- get_gate c l; gen_RemoveRedundantGates_transform_on_exit_hook_impl n l g)
             (fun _ _ => eq_refl) (fun _ _ => eq_refl) (fun _ _ => eq_refl) (fun _ _ _ => eq_refl)
             (fun _ _ => eq_refl) (fun _ => eq_refl) _ _ _ _ _ _ _ _ Ht).
  rewrite (pg_foldM_ext _ (fun n l => do g <- get_gate c l; emplace_gate n l (gtyp g) (gops g))).
  2:{ intros s l. apply pg_bind_ext. intros g.
      unfold gen_RemoveRedundantGates_transform_on_exit_hook_impl. apply pg_bind_ok_r. }
  destruct (foldM _ (exits log) empty_circuit) as [n1|e]; cbn [bind]; [|reflexivity].
  destruct allow; cbn [negb bind].
  - apply pg_bind_ext. intros n3. apply pg_bind_ok_r.
  - rewrite pg_bind_ok_r.
    destruct (add_inputs n1 _) as [n2|e]; cbn [bind]; [|reflexivity].
    apply pg_bind_ext. intros n3. apply pg_bind_ok_r.
Qed.
