(* C08: the UNCONDITIONAL statements of Properties/C08.v.  For every injective naming function of the uuid
   counter, every host and every choice of existing operand gates (non-empty operand lists) each multiplier
   / squarer RETURNS, with the stated number of result bits, and the bits decode to the product / square:
   termination (ArithMulTotal*.v, ArithMulWallaceTotal.v, ArithSquareTotal.v) + the value theorems
   (ArithMulFinal.v).  The side conditions of the value theorems on the FINAL circuit ("" /
   '_PLACEHOLDER_STR_' is not a gate) follow from the same condition on the host and on the naming function
   (FreshOnly.fo_absent). *)
Require Import Cirbo.Model.Base Cirbo.Model.Gate Cirbo.Model.Den Cirbo.Model.Circuit
  Cirbo.Model.Eval Cirbo.Model.Sem Cirbo.Model.Builder.
Require Import Cirbo.Generated.ArithTables Cirbo.Generated.ArithCells.
Require Import Cirbo.Model.ArithSub Cirbo.Model.ArithSum2 Cirbo.Model.ArithSumN Cirbo.Model.ArithSumW
  Cirbo.Model.ArithGen Cirbo.Model.ArithMul Cirbo.Model.ArithSquare.
Require Import Cirbo.Proofs.DictFacts Cirbo.Proofs.BuilderFacts Cirbo.Proofs.ArithFacts
  Cirbo.Proofs.TotalFacts Cirbo.Proofs.ArithTotalFacts Cirbo.Proofs.FreshOnly
  Cirbo.Proofs.ArithMulFacts Cirbo.Proofs.ArithMulPow2 Cirbo.Proofs.ArithMulKara Cirbo.Proofs.ArithMulWallace
  Cirbo.Proofs.ArithSquareFacts Cirbo.Proofs.ArithMulLen Cirbo.Proofs.ArithMulFinal
  Cirbo.Proofs.ArithMulTotal Cirbo.Proofs.ArithMulWallaceShape Cirbo.Proofs.ArithMulWallaceTotal
  Cirbo.Proofs.ArithMulTotalKara Cirbo.Proofs.ArithMulTotalW Cirbo.Proofs.ArithMulTotalP
  Cirbo.Proofs.ArithSquareTotal.
Require Import Coq.Logic.FinFun.
Open Scope Z_scope.

Definition total_product (fresh : N -> label) (gen : list label -> list label -> bool -> prog (list label))
           (xs ys : list label) (be : bool) (s : bstate) : Prop :=
  exists rs s', run fresh (gen xs ys be) s = Ok (rs, s') /\
    ext (bc s) (bc s') /\ inputs (bc s') = inputs (bc s) /\ outputs (bc s') = outputs (bc s) /\
    length rs = mul_len (length xs) (length ys) /\
    forall asg xv yv, bvals (bc s) asg xs xv -> bvals (bc s) asg ys yv ->
      exists rv, bvals (bc s') asg rs rv /\ decode be rv = decode be xv * decode be yv.

Definition total_square (fresh : N -> label) (gen : list label -> bool -> prog (list label))
           (xs : list label) (be : bool) (s : bstate) : Prop :=
  exists rs s', run fresh (gen xs be) s = Ok (rs, s') /\
    ext (bc s) (bc s') /\ inputs (bc s') = inputs (bc s) /\ outputs (bc s') = outputs (bc s) /\
    length rs = sq_len (length xs) /\
    forall asg xv, bvals (bc s) asg xs xv ->
      exists rv, bvals (bc s') asg rs rv /\ decode be rv = decode be xv * decode be xv.

(* ---- Wallace: the exact length of every successful run ---------------------------------------------------------------- *)
Theorem add_mul_wallace_final_exact fresh xs ys be s rs s' :
  run fresh (add_mul_wallace xs ys be) s = Ok (rs, s') ->
  ext (bc s) (bc s') /\ inputs (bc s') = inputs (bc s) /\ outputs (bc s') = outputs (bc s) /\
  (has_gate (bc s') PLACEHOLDER_STR = false ->
   ((1 <= length xs)%nat -> length rs = mul_len (length xs) (length ys)) /\
   product_clause (bc s) (bc s') xs ys rs be).
Proof.
  intros H. pose proof (add_mul_wallace_length _ _ _ _ _ _ _ H) as L.
  apply add_mul_wallace_final in H as (X & I & O & _ & V). repeat split; auto.
Qed.

Section Final.
  Variable fresh : N -> label.
  Hypothesis Hinj : Injective fresh.
  Let Hf : fresh_total fresh := injective_fresh_total fresh Hinj.

  Lemma nonnil1 {A} (l : list A) : l <> [] -> (1 <= length l)%nat.
  Proof. destruct l; [contradiction|simpl; lia]. Qed.

  (* ---- modes without a side condition ---- *)
  Theorem add_mul_total_exact xs ys be s :
    xs <> [] -> ys <> [] -> all_exist (bc s) xs -> all_exist (bc s) ys -> total_product fresh add_mul xs ys be s.
  Proof.
    intros Hx Hy Ax Ay. destruct (add_mul_total fresh Hf xs ys be s Hx Hy Ax Ay) as (rs & s' & E).
    exists rs, s'. split; [exact E|]. apply add_mul_final in E as (X & I & O & L & V). repeat split; assumption.
  Qed.

  Theorem add_mul_alter_total_exact xs ys be s :
    xs <> [] -> ys <> [] -> all_exist (bc s) xs -> all_exist (bc s) ys -> total_product fresh add_mul_alter xs ys be s.
  Proof.
    intros Hx Hy Ax Ay. destruct (add_mul_alter_total fresh Hf xs ys be s Hx Hy Ax Ay) as (rs & s' & E).
    exists rs, s'. split; [exact E|]. apply add_mul_alter_final in E as (X & I & O & L & V).
    repeat split; try assumption. apply L, nonnil1, Hx.
  Qed.

  Theorem add_mul_dadda_total_exact xs ys be s :
    xs <> [] -> ys <> [] -> all_exist (bc s) xs -> all_exist (bc s) ys -> total_product fresh add_mul_dadda xs ys be s.
  Proof.
    intros Hx Hy Ax Ay. destruct (add_mul_dadda_total fresh Hf xs ys be s Hx Hy Ax Ay) as (rs & s' & E).
    exists rs, s'. split; [exact E|]. apply add_mul_dadda_final in E as (X & I & O & L & V). repeat split; assumption.
  Qed.

  Theorem add_mul_karatsuba_eff_total_exact xs ys be s :
    xs <> [] -> ys <> [] -> all_exist (bc s) xs -> all_exist (bc s) ys ->
    total_product fresh add_mul_karatsuba_with_efficient_sum xs ys be s.
  Proof.
    intros Hx Hy Ax Ay. destruct (add_mul_karatsuba_eff_ok fresh Hf xs ys be s Hx Hy Ax Ay) as (rs & s' & E & _).
    exists rs, s'. split; [exact E|].
    apply add_mul_karatsuba_with_efficient_sum_final in E as (X & I & O & L & V).
    repeat split; try assumption. apply L; apply nonnil1; assumption.
  Qed.

  (* the private helper: equal widths, or a single bit *)
  Theorem last_step_total_exact xs ys be s :
    xs <> [] -> ys <> [] -> (length ys = length xs \/ length xs = 1%nat \/ length ys = 1%nat) ->
    all_exist (bc s) xs -> all_exist (bc s) ys ->
    total_product fresh last_step_sum_with_new_powers_sum xs ys be s.
  Proof.
    intros Hx Hy Hw Ax Ay. destruct (last_step_ok fresh Hf xs ys be s Hx Hy Hw Ax Ay) as (rs & s' & E & _).
    exists rs, s'. split; [exact E|]. apply last_step_final in E as (X & I & O & L & _ & V). repeat split; assumption.
  Qed.

  (* ---- Wallace ---- *)
  Theorem add_mul_wallace_total_exact xs ys be s :
    (forall k, fresh k <> PLACEHOLDER_STR) -> has_gate (bc s) PLACEHOLDER_STR = false ->
    xs <> [] -> ys <> [] -> all_exist (bc s) xs -> all_exist (bc s) ys -> total_product fresh add_mul_wallace xs ys be s.
  Proof.
    intros HPf HP Hx Hy Ax Ay.
    destruct (add_mul_wallace_total fresh Hf HPf xs ys be s Hx Hy Ax Ay HP) as (rs & s' & E).
    exists rs, s'. split; [exact E|].
    pose proof (fo_absent fresh _ _ _ _ _ (fo_add_mul_wallace _ _ _) E HPf HP) as HP'.
    apply add_mul_wallace_final_exact in E as (X & I & O & V). destruct (V HP') as (L & V').
    repeat split; try assumption. apply L, nonnil1, Hx.
  Qed.

  (* ---- the modes over add_sum_pow2_m1 ---- *)
  Section NoEmpty.
    Hypothesis Hfr : forall k, fresh k <> ""%string.

    Theorem add_mul_pow2_m1_total_exact xs ys be s :
      has_gate (bc s) "" = false ->
      xs <> [] -> ys <> [] -> all_exist (bc s) xs -> all_exist (bc s) ys -> total_product fresh add_mul_pow2_m1 xs ys be s.
    Proof.
      intros H0 Hx Hy Ax Ay.
      destruct (add_mul_pow2_m1_ok fresh Hf Hfr xs ys be s Hx Hy Ax Ay H0) as (rs & s' & E & _).
      exists rs, s'. split; [exact E|].
      pose proof (fo_absent fresh _ _ _ _ _ (fo_add_mul_pow2_m1 _ _ _) E Hfr H0) as H0'.
      apply add_mul_pow2_m1_final in E as (X & I & O & L & V). repeat split; try assumption. exact (V H0').
    Qed.

    Theorem add_mul_karatsuba_total_exact xs ys be s :
      has_gate (bc s) "" = false ->
      xs <> [] -> ys <> [] -> all_exist (bc s) xs -> all_exist (bc s) ys -> total_product fresh add_mul_karatsuba xs ys be s.
    Proof.
      intros H0 Hx Hy Ax Ay.
      destruct (add_mul_karatsuba_ok fresh Hf Hfr xs ys be s Hx Hy Ax Ay H0) as (rs & s' & E & _).
      exists rs, s'. split; [exact E|].
      pose proof (fo_absent fresh _ _ _ _ _ (fo_add_mul_karatsuba _ _ _) E Hfr H0) as H0'.
      apply add_mul_karatsuba_final in E as (X & I & O & L & V). repeat split; try assumption; [|exact (V H0')].
      apply L; apply nonnil1; assumption.
    Qed.

    Theorem add_square_total_exact xs be s :
      has_gate (bc s) "" = false -> xs <> [] -> all_exist (bc s) xs -> total_square fresh add_square xs be s.
    Proof.
      intros H0 Hx Ax. destruct (add_square_total_ok fresh Hf Hfr xs be s Hx Ax H0) as (rs & s' & E & _).
      exists rs, s'. split; [exact E|].
      pose proof (fo_absent fresh _ _ _ _ _ (fo_add_square _ _) E Hfr H0) as H0'.
      apply add_square_final in E as (X & I & O & L & V). repeat split; try assumption. exact (V H0').
    Qed.

    Theorem add_square_pow2_m1_total_exact xs be s :
      has_gate (bc s) "" = false -> xs <> [] -> all_exist (bc s) xs -> total_square fresh add_square_pow2_m1 xs be s.
    Proof.
      intros H0 Hx Ax. destruct (add_square_pow2_m1_ok fresh Hf Hfr xs be s Hx Ax H0) as (rs & s' & E & _).
      exists rs, s'. split; [exact E|].
      pose proof (fo_absent fresh _ _ _ _ _ (fo_add_square_pow2_m1 _ _) E Hfr H0) as H0'.
      apply add_square_pow2_m1_final in E as (X & I & O & L & V). repeat split; try assumption. exact (V H0').
    Qed.
  End NoEmpty.
End Final.

(* the naming function of the harness meets the hypotheses *)
Lemma short_label_nonempty' k : short_label k <> ""%string.
Proof. destruct k; discriminate. Qed.
