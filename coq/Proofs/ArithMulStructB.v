Require Import Cirbo.Model.Base Cirbo.Model.MulCases Cirbo.Proofs.ArithMulStruct.
Lemma mul_struct_wallace_upto6 : forallb (mul_struct_ok FWallace) (pairs_upto 6) = true.
Proof. vm_compute. reflexivity. Qed.
Lemma mul_struct_pow2_m1_upto6 : forallb (mul_struct_ok FPow2m1) (pairs_upto 6) = true.
Proof. vm_compute. reflexivity. Qed.
