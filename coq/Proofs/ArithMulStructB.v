Require Import Cirbo.Model.Base Cirbo.Model.MulCases Cirbo.Proofs.ArithMulStruct.
Lemma mul_struct_dadda_upto8 : forallb (mul_struct_ok FDadda) (pairs_upto 8) = true.
Proof. vm_compute. reflexivity. Qed.
Lemma mul_struct_wallace_upto8 : forallb (mul_struct_ok FWallace) (pairs_upto 8) = true.
Proof. vm_compute. reflexivity. Qed.
