(* C07, part 1: bookkeeping shared by all summation proofs
     - [adds T c c' n]: c' is c plus exactly n gates, all of a type in T (basis set and gate count);
     - [gsum V l t]: the items of l have the values summing to t (solo bits, (x, x xor y) pairs
       counted as x + y, and their weighted versions);
     - the arithmetic identity, gate count and type set of every regenerated cell, by exhaustive
       case analysis on the operand values. *)
Require Import Cirbo.Model.Base Cirbo.Model.Gate Cirbo.Model.Den Cirbo.Model.Circuit
  Cirbo.Model.Eval Cirbo.Model.Sem Cirbo.Model.Builder.
Require Import Cirbo.Generated.ArithTables Cirbo.Generated.ArithCells.
Require Import Cirbo.Model.ArithSub Cirbo.Model.ArithSum2 Cirbo.Model.ArithSumN.
Require Import Cirbo.Proofs.DictFacts Cirbo.Proofs.BuilderFacts Cirbo.Proofs.ArithFacts.
Open Scope Z_scope.

(* ---- the gate types each basis may add ------------------------------------------------------ *)
(* read off the cells: the AIG cells use '0111' (OR), '0001' (AND), '0010' (GT); the XAIG cells
   additionally '0110' (XOR) *)
Definition t_aig (t : gtype) : bool := match t with AND | OR | GT => true | _ => false end.
Definition t_xaig (t : gtype) : bool := match t with AND | OR | GT | XOR => true | _ => false end.
Definition t_of (b : gen_basis) : gtype -> bool := match b with AIG => t_aig | XAIG => t_xaig end.

Lemma t_aig_xaig t : t_aig t = true -> t_xaig t = true.
Proof. destruct t; simpl; congruence. Qed.

(* ---- adds -------------------------------------------------------------------------------------- *)
Definition adds (T : gtype -> bool) (c c' : circuit) (n : nat) : Prop :=
  exists ng, gates c' = gates c ++ ng /\ Forall (fun kg => T (gtyp (snd kg)) = true) ng /\ length ng = n.

Lemma adds_refl T c : adds T c c 0.
Proof. exists []. rewrite app_nil_r. repeat split; constructor. Qed.

Lemma adds_same T c c' : gates c' = gates c -> adds T c c' 0.
Proof. intros E. exists []. rewrite app_nil_r. repeat split; [exact E|constructor]. Qed.

Lemma adds_trans T c1 c2 c3 n m : adds T c1 c2 n -> adds T c2 c3 m -> adds T c1 c3 (n + m).
Proof.
  intros (g1 & E1 & F1 & L1) (g2 & E2 & F2 & L2). exists (g1 ++ g2).
  rewrite E2, E1, app_assoc. repeat split; [apply Forall_app; tauto|rewrite app_length; congruence].
Qed.

Lemma adds_weaken (T T' : gtype -> bool) c c' n :
  (forall t, T t = true -> T' t = true) -> adds T c c' n -> adds T' c c' n.
Proof.
  intros HT (g & E & F & L). exists g. repeat split; auto.
  eapply Forall_impl; [|exact F]. intros kg; apply HT.
Qed.

Lemma adds_eq T c c' n m : adds T c c' n -> n = m -> adds T c c' m.
Proof. intros H <-; exact H. Qed.

Lemma adds_one T c c' l t x y :
  gates c' = gates c ++ [(l, mkGate (binary_tt_to_type t) [x; y])] -> T (binary_tt_to_type t) = true ->
  adds T c c' 1.
Proof. intros E HT. exists [(l, mkGate (binary_tt_to_type t) [x; y])]. repeat split; auto. Qed.

Lemma adds_size T c c' n : adds T c c' n -> size c' = (size c + n)%nat.
Proof. intros (g & E & _ & L). unfold size. rewrite E, app_length, L. reflexivity. Qed.

(* gate_tt_bind with the shape of the new gate map *)
Lemma gate_tt_bind2 fresh t x y {B} (k : label -> prog B) s r s' :
  run fresh (Bind (gate_tt t x y) k) s = Ok (r, s') ->
  exists l s1, run fresh (k l) s1 = Ok (r, s') /\ ext (bc s) (bc s1) /\ has_tt (bc s1) l t x y /\
               outputs (bc s1) = outputs (bc s) /\
               gates (bc s1) = gates (bc s) ++ [(l, mkGate (binary_tt_to_type t) [x; y])].
Proof.
  intros H. apply run_bind_inv in H as (l & s1 & H1 & H). exists l, s1.
  apply gate_tt_spec in H1 as (Hx & Hl & _ & _ & G & O & _).
  repeat split; auto. unfold has_tt. rewrite G, dget_app.
  unfold has_gate, dmem in Hl. destruct (dget (gates (bc s)) l); [discriminate|].
  simpl. rewrite leqb_refl. reflexivity.
Qed.

Lemma unpack2_inv fresh {A} (l : list A) s r s' :
  run fresh (unpack2 l) s = Ok (r, s') -> l = [fst r; snd r] /\ s' = s.
Proof.
  destruct l as [|x [|y [|z l]]]; simpl; try discriminate. intros [= <- <-]. split; reflexivity.
Qed.

Lemma unpack3_inv fresh {A} (l : list A) s r s' :
  run fresh (unpack3 l) s = Ok (r, s') -> l = [fst (fst r); snd (fst r); snd r] /\ s' = s.
Proof.
  destruct l as [|x [|y [|z [|w l]]]]; simpl; try discriminate. intros [= <- <-]. split; reflexivity.
Qed.

(* ---- sums of values ------------------------------------------------------------------------------ *)
Inductive gsum {A} (V : A -> Z -> Prop) : list A -> Z -> Prop :=
| gsum_nil : gsum V [] 0
| gsum_cons a l va t : V a va -> gsum V l t -> gsum V (a :: l) (va + t).

Lemma gsum_eq {A} (V : A -> Z -> Prop) l t t' : gsum V l t -> t = t' -> gsum V l t'.
Proof. intros H <-; exact H. Qed.

Lemma gsum_app {A} (V : A -> Z -> Prop) l1 l2 t1 t2 :
  gsum V l1 t1 -> gsum V l2 t2 -> gsum V (l1 ++ l2) (t1 + t2).
Proof.
  induction 1 as [|a l va t Ha Hl IH]; intros H2; simpl; [exact H2|].
  eapply gsum_eq; [apply gsum_cons; [exact Ha|apply IH, H2]|lia].
Qed.

Lemma gsum_app_inv {A} (V : A -> Z -> Prop) l1 l2 t :
  gsum V (l1 ++ l2) t -> exists t1 t2, gsum V l1 t1 /\ gsum V l2 t2 /\ t = t1 + t2.
Proof.
  revert t; induction l1 as [|a l1 IH]; simpl; intros t H.
  - exists 0, t. repeat split; [constructor|exact H].
  - inversion H as [|? ? va t0 Ha Hl]; subst. destruct (IH _ Hl) as (t1 & t2 & H1 & H2 & ->).
    exists (va + t1), t2. repeat split; [constructor; assumption|exact H2|lia].
Qed.

Lemma gsum_single {A} (V : A -> Z -> Prop) a va : V a va -> gsum V [a] va.
Proof. intros H. eapply gsum_eq; [apply gsum_cons; [exact H|constructor]|lia]. Qed.

Lemma gsum_rev {A} (V : A -> Z -> Prop) l t : gsum V l t -> gsum V (rev l) t.
Proof.
  induction 1 as [|a l va t Ha Hl IH]; simpl; [constructor|].
  eapply gsum_eq; [apply gsum_app; [exact IH|apply gsum_single, Ha]|lia].
Qed.

Lemma gsum_rev_inv {A} (V : A -> Z -> Prop) l t : gsum V (rev l) t -> gsum V l t.
Proof. intros H. rewrite <- (rev_involutive l). apply gsum_rev, H. Qed.

Lemma gsum_inv_cons {A} (V : A -> Z -> Prop) a l t :
  gsum V (a :: l) t -> exists va t0, V a va /\ gsum V l t0 /\ t = va + t0.
Proof. inversion 1; subst; eauto. Qed.

Lemma gsum_inv_nil {A} (V : A -> Z -> Prop) t : gsum V [] t -> t = 0.
Proof. inversion 1; reflexivity. Qed.

Section Values.
  Variable c : circuit.
  Variable asg : assignment.

  (* a single bit *)
  Definition vsolo (l : label) (z : Z) : Prop := exists b, bval c asg l b /\ z = Z.b2z b.
  (* a pair (x, x xor y) stands for the two bits x and y *)
  Definition vpair (p : label * label) (z : Z) : Prop :=
    exists bx bxy, bval c asg (fst p) bx /\ bval c asg (snd p) bxy /\ z = Z.b2z bx + Z.b2z (xorb bx bxy).
  (* the same with a level: weight 2^level *)
  Definition vwsolo (it : N * label) (z : Z) : Prop :=
    exists b, bval c asg (snd it) b /\ z = 2 ^ Z.of_N (fst it) * Z.b2z b.
  Definition vwpair (it : N * label * label) (z : Z) : Prop :=
    exists bx bxy, bval c asg (snd (fst it)) bx /\ bval c asg (snd it) bxy /\
                   z = 2 ^ Z.of_N (fst (fst it)) * (Z.b2z bx + Z.b2z (xorb bx bxy)).

  Lemma vsolo_intro l b : bval c asg l b -> vsolo l (Z.b2z b).
  Proof. intros H; exists b; auto. Qed.
  Lemma vpair_intro x xy bx bxy :
    bval c asg x bx -> bval c asg xy bxy -> vpair (x, xy) (Z.b2z bx + Z.b2z (xorb bx bxy)).
  Proof. intros H1 H2; exists bx, bxy; auto. Qed.
End Values.

(* number of ones *)
Fixpoint ones (v : list bool) : Z :=
  match v with [] => 0 | b :: r => Z.b2z b + ones r end.

Lemma ones_app a b : ones (a ++ b) = ones a + ones b.
Proof. induction a as [|x a IH]; simpl; [lia|]. rewrite IH. lia. Qed.

Lemma ones_rev a : ones (rev a) = ones a.
Proof. induction a as [|x a IH]; simpl; [reflexivity|]. rewrite ones_app, IH. simpl. lia. Qed.

Lemma ones_rev_if be a : ones (rev_if be a) = ones a.
Proof. destruct be; simpl; [apply ones_rev|reflexivity]. Qed.

Lemma bvals_gsum c asg xs xv : bvals c asg xs xv -> gsum (vsolo c asg) xs (ones xv).
Proof.
  induction 1 as [|x b xs xv Hx _ IH]; simpl; [constructor|].
  apply gsum_cons; [apply vsolo_intro, Hx|exact IH].
Qed.

Lemma gsum_bvals c asg xs t : gsum (vsolo c asg) xs t -> exists xv, bvals c asg xs xv /\ t = ones xv.
Proof.
  induction 1 as [|x xs va t (b & Hb & ->) _ (xv & Hv & ->)]; [exists []; split; [constructor|reflexivity]|].
  exists (b :: xv). split; [constructor; assumption|reflexivity].
Qed.

(* induction two elements at a time *)
Lemma list_ind2 {A} (P : list A -> Prop) :
  P [] -> (forall a, P [a]) -> (forall a b l, P l -> P (a :: b :: l)) -> forall l, P l.
Proof.
  intros H0 H1 H2. fix IH 1. intros [|a [|b l]]; [exact H0|apply H1|apply H2, IH].
Qed.

(* ---- the cells --------------------------------------------------------------------------------- *)
(* two bits in, sum and carry out *)
Definition cell2_spec (T : gtype -> bool) (n2 : nat) (cell : list label -> prog (list label)) : Prop :=
  forall fresh a b s r s', run fresh (cell [a; b]) s = Ok (r, s') ->
    exists x y, r = [x; y] /\ outputs (bc s') = outputs (bc s) /\ adds T (bc s) (bc s') n2 /\
      forall c, ext (bc s') c -> forall asg va vb, bval c asg a va -> bval c asg b vb ->
        exists vx vy, bval c asg x vx /\ bval c asg y vy /\
                      Z.b2z va + Z.b2z vb = Z.b2z vx + 2 * Z.b2z vy.

Definition cell3_spec (T : gtype -> bool) (n3 : nat) (cell : list label -> prog (list label)) : Prop :=
  forall fresh a b d s r s', run fresh (cell [a; b; d]) s = Ok (r, s') ->
    exists x y, r = [x; y] /\ outputs (bc s') = outputs (bc s) /\ adds T (bc s) (bc s') n3 /\
      forall c, ext (bc s') c -> forall asg va vb vd, bval c asg a va -> bval c asg b vb -> bval c asg d vd ->
        exists vx vy, bval c asg x vx /\ bval c asg y vy /\
                      Z.b2z va + Z.b2z vb + Z.b2z vd = Z.b2z vx + 2 * Z.b2z vy.

(* peel one add_gate_from_tt off the program *)
Ltac tt_step H g s1 Hx Ht O G :=
  apply gate_tt_bind2 in H as (g & s1 & H & Hx & Ht & O & G).

Ltac adds_close :=
  repeat match goal with
         | G : gates (bc ?s1) = gates (bc ?s0) ++ [_] |- _ =>
           apply (adds_one t_xaig) in G; [|reflexivity]
         end.

Ltac solve_adds T :=
  match goal with
  | |- adds _ ?c ?c' _ =>
    eexists; split;
    [repeat match goal with G : gates _ = _ ++ [_] |- _ => rewrite G; clear G end;
     rewrite <- ?app_assoc; simpl app; reflexivity
    |split; [repeat constructor|reflexivity]]
  end.

Theorem add_sum2_cell : cell2_spec t_xaig 2 add_sum2.
Proof.
  intros fresh a b s r s' H. cbv beta iota zeta delta [add_sum2] in H.
  tt_step H g1 s1 Hx1 Ht1 O1 G1. tt_step H g2 s2 Hx2 Ht2 O2 G2.
  apply run_ret_inv in H as (-> & ->).
  exists g1, g2. split; [reflexivity|]. split; [congruence|]. split; [solve_adds t_xaig|].
  intros c Hc asg va vb Va Vb. to_final c.
  pose proof (has_tt_val _ _ _ _ _ _ _ _ Ht1 Va Vb) as V1.
  pose proof (has_tt_val _ _ _ _ _ _ _ _ Ht2 Va Vb) as V2.
  destruct va, vb; simpl in V1, V2; eexists _, _; (split; [exact V1|split; [exact V2|reflexivity]]).
Qed.

Theorem add_sum2_aig_cell : cell2_spec t_aig 3 add_sum2_aig.
Proof.
  intros fresh a b s r s' H. cbv beta iota zeta delta [add_sum2_aig] in H.
  tt_step H g1 s1 Hx1 Ht1 O1 G1. tt_step H g2 s2 Hx2 Ht2 O2 G2. tt_step H g3 s3 Hx3 Ht3 O3 G3.
  apply run_ret_inv in H as (-> & ->).
  exists g3, g2. split; [reflexivity|]. split; [congruence|]. split; [solve_adds t_aig|].
  intros c Hc asg va vb Va Vb. to_final c.
  pose proof (has_tt_val _ _ _ _ _ _ _ _ Ht1 Va Vb) as V1.
  pose proof (has_tt_val _ _ _ _ _ _ _ _ Ht2 Va Vb) as V2.
  pose proof (has_tt_val _ _ _ _ _ _ _ _ Ht3 V1 V2) as V3.
  destruct va, vb; simpl in V2, V3; eexists _, _; (split; [exact V3|split; [exact V2|reflexivity]]).
Qed.

Theorem add_sum3_cell : cell3_spec t_xaig 5 add_sum3.
Proof.
  intros fresh a b d s r s' H. cbv beta iota zeta delta [add_sum3] in H.
  tt_step H g1 s1 Hx1 Ht1 O1 G1. tt_step H g2 s2 Hx2 Ht2 O2 G2. tt_step H g3 s3 Hx3 Ht3 O3 G3.
  tt_step H g4 s4 Hx4 Ht4 O4 G4. tt_step H g5 s5 Hx5 Ht5 O5 G5.
  apply run_ret_inv in H as (-> & ->).
  exists g4, g5. split; [reflexivity|]. split; [congruence|]. split; [solve_adds t_xaig|].
  intros c Hc asg va vb vd Va Vb Vd. to_final c.
  pose proof (has_tt_val _ _ _ _ _ _ _ _ Ht1 Va Vb) as V1.
  pose proof (has_tt_val _ _ _ _ _ _ _ _ Ht2 Vb Vd) as V2.
  pose proof (has_tt_val _ _ _ _ _ _ _ _ Ht3 V1 V2) as V3.
  pose proof (has_tt_val _ _ _ _ _ _ _ _ Ht4 V1 Vd) as V4.
  pose proof (has_tt_val _ _ _ _ _ _ _ _ Ht5 V3 V4) as V5.
  destruct va, vb, vd; simpl in V4, V5; eexists _, _; (split; [exact V4|split; [exact V5|reflexivity]]).
Qed.

Theorem add_sum3_aig_cell : cell3_spec t_aig 7 add_sum3_aig.
Proof.
  intros fresh a b d s r s' H. cbv beta iota zeta delta [add_sum3_aig] in H.
  tt_step H g1 s1 Hx1 Ht1 O1 G1. tt_step H g2 s2 Hx2 Ht2 O2 G2. tt_step H g3 s3 Hx3 Ht3 O3 G3.
  tt_step H g4 s4 Hx4 Ht4 O4 G4. tt_step H g5 s5 Hx5 Ht5 O5 G5. tt_step H g6 s6 Hx6 Ht6 O6 G6.
  tt_step H g7 s7 Hx7 Ht7 O7 G7.
  apply run_ret_inv in H as (-> & ->).
  exists g6, g7. split; [reflexivity|]. split; [congruence|]. split; [solve_adds t_aig|].
  intros c Hc asg va vb vd Va Vb Vd. to_final c.
  pose proof (has_tt_val _ _ _ _ _ _ _ _ Ht1 Va Vb) as V1.
  pose proof (has_tt_val _ _ _ _ _ _ _ _ Ht2 Va Vb) as V2.
  pose proof (has_tt_val _ _ _ _ _ _ _ _ Ht3 V1 V2) as V3.
  pose proof (has_tt_val _ _ _ _ _ _ _ _ Ht4 V3 Vd) as V4.
  pose proof (has_tt_val _ _ _ _ _ _ _ _ Ht5 V3 Vd) as V5.
  pose proof (has_tt_val _ _ _ _ _ _ _ _ Ht6 V4 V5) as V6.
  pose proof (has_tt_val _ _ _ _ _ _ _ _ Ht7 V2 V5) as V7.
  destruct va, vb, vd; simpl in V6, V7; eexists _, _; (split; [exact V6|split; [exact V7|reflexivity]]).
Qed.

(* Stockmeyer block: z, and the pair (x, x xor y) *)
Theorem add_stockmeyer_block_cell fresh z x xy s r s' :
  run fresh (add_stockmeyer_block [z; x; xy]) s = Ok (r, s') ->
  exists w0 w1, r = [w0; w1] /\ outputs (bc s') = outputs (bc s) /\ adds t_xaig (bc s) (bc s') 4 /\
    forall c, ext (bc s') c -> forall asg vz vx vxy, bval c asg z vz -> bval c asg x vx -> bval c asg xy vxy ->
      exists v0 v1, bval c asg w0 v0 /\ bval c asg w1 v1 /\
                    Z.b2z vz + (Z.b2z vx + Z.b2z (xorb vx vxy)) = Z.b2z v0 + 2 * Z.b2z v1.
Proof.
  intros H. cbv beta iota zeta delta [add_stockmeyer_block] in H.
  tt_step H g1 s1 Hx1 Ht1 O1 G1. tt_step H g2 s2 Hx2 Ht2 O2 G2. tt_step H g3 s3 Hx3 Ht3 O3 G3.
  tt_step H g4 s4 Hx4 Ht4 O4 G4.
  apply run_ret_inv in H as (-> & ->).
  exists g1, g4. split; [reflexivity|]. split; [congruence|]. split; [solve_adds t_xaig|].
  intros c Hc asg vz vx vxy Vz Vx Vxy. to_final c.
  pose proof (has_tt_val _ _ _ _ _ _ _ _ Ht1 Vz Vxy) as V1.
  pose proof (has_tt_val _ _ _ _ _ _ _ _ Ht2 Vx Vxy) as V2.
  pose proof (has_tt_val _ _ _ _ _ _ _ _ Ht3 Vz Vxy) as V3.
  pose proof (has_tt_val _ _ _ _ _ _ _ _ Ht4 V2 V3) as V4.
  destruct vz, vx, vxy; simpl in V1, V4; eexists _, _; (split; [exact V1|split; [exact V4|reflexivity]]).
Qed.

(* MDFA: z and two pairs in; z' on this level and one pair on the next level out *)
Theorem add_mdfa_cell fresh z x1 xy1 x2 xy2 s r s' :
  run fresh (add_mdfa [z; x1; xy1; x2; xy2]) s = Ok (r, s') ->
  exists z' a ab, r = [z'; a; ab] /\ outputs (bc s') = outputs (bc s) /\ adds t_xaig (bc s) (bc s') 8 /\
    forall c, ext (bc s') c -> forall asg vz v1 w1 v2 w2,
      bval c asg z vz -> bval c asg x1 v1 -> bval c asg xy1 w1 -> bval c asg x2 v2 -> bval c asg xy2 w2 ->
      exists uz ua uab, bval c asg z' uz /\ bval c asg a ua /\ bval c asg ab uab /\
        Z.b2z vz + (Z.b2z v1 + Z.b2z (xorb v1 w1)) + (Z.b2z v2 + Z.b2z (xorb v2 w2)) =
        Z.b2z uz + 2 * (Z.b2z ua + Z.b2z (xorb ua uab)).
Proof.
  intros H. cbv beta iota zeta delta [add_mdfa] in H.
  tt_step H g1 s1 Hx1 Ht1 O1 G1. tt_step H g2 s2 Hx2 Ht2 O2 G2. tt_step H g3 s3 Hx3 Ht3 O3 G3.
  tt_step H g4 s4 Hx4 Ht4 O4 G4. tt_step H g5 s5 Hx5 Ht5 O5 G5. tt_step H g6 s6 Hx6 Ht6 O6 G6.
  tt_step H g7 s7 Hx7 Ht7 O7 G7. tt_step H g8 s8 Hx8 Ht8 O8 G8.
  apply run_ret_inv in H as (-> & ->).
  exists g6, g4, g8. split; [reflexivity|]. split; [congruence|]. split; [solve_adds t_xaig|].
  intros c Hc asg vz v1 w1 v2 w2 Vz Vx1 Vxy1 Vx2 Vxy2. to_final c.
  pose proof (has_tt_val _ _ _ _ _ _ _ _ Ht1 Vx1 Vz) as V1.
  pose proof (has_tt_val _ _ _ _ _ _ _ _ Ht2 Vxy1 V1) as V2.
  pose proof (has_tt_val _ _ _ _ _ _ _ _ Ht3 Vxy1 Vz) as V3.
  pose proof (has_tt_val _ _ _ _ _ _ _ _ Ht4 V2 V3) as V4.
  pose proof (has_tt_val _ _ _ _ _ _ _ _ Ht5 Vx2 V3) as V5.
  pose proof (has_tt_val _ _ _ _ _ _ _ _ Ht6 V3 Vxy2) as V6.
  pose proof (has_tt_val _ _ _ _ _ _ _ _ Ht7 V5 Vxy2) as V7.
  pose proof (has_tt_val _ _ _ _ _ _ _ _ Ht8 V2 V7) as V8.
  destruct vz, v1, w1, v2, w2; simpl in V6, V4, V8; eexists _, _, _;
    (split; [exact V6|split; [exact V4|split; [exact V8|reflexivity]]]).
Qed.

Theorem add_simplified_mdfa_cell fresh x1 xy1 x2 xy2 s r s' :
  run fresh (add_simplified_mdfa [x1; xy1; x2; xy2]) s = Ok (r, s') ->
  exists z' a ab, r = [z'; a; ab] /\ outputs (bc s') = outputs (bc s) /\ adds t_xaig (bc s) (bc s') 6 /\
    forall c, ext (bc s') c -> forall asg v1 w1 v2 w2,
      bval c asg x1 v1 -> bval c asg xy1 w1 -> bval c asg x2 v2 -> bval c asg xy2 w2 ->
      exists uz ua uab, bval c asg z' uz /\ bval c asg a ua /\ bval c asg ab uab /\
        (Z.b2z v1 + Z.b2z (xorb v1 w1)) + (Z.b2z v2 + Z.b2z (xorb v2 w2)) =
        Z.b2z uz + 2 * (Z.b2z ua + Z.b2z (xorb ua uab)).
Proof.
  intros H. cbv beta iota zeta delta [add_simplified_mdfa] in H.
  tt_step H g2 s2 Hx2 Ht2 O2 G2. tt_step H g4 s4 Hx4 Ht4 O4 G4. tt_step H g5 s5 Hx5 Ht5 O5 G5.
  tt_step H g6 s6 Hx6 Ht6 O6 G6. tt_step H g7 s7 Hx7 Ht7 O7 G7. tt_step H g8 s8 Hx8 Ht8 O8 G8.
  apply run_ret_inv in H as (-> & ->).
  exists g6, g4, g8. split; [reflexivity|]. split; [congruence|]. split; [solve_adds t_xaig|].
  intros c Hc asg v1 w1 v2 w2 Vx1 Vxy1 Vx2 Vxy2. to_final c.
  pose proof (has_tt_val _ _ _ _ _ _ _ _ Ht2 Vxy1 Vx1) as V2.
  pose proof (has_tt_val _ _ _ _ _ _ _ _ Ht4 V2 Vxy1) as V4.
  pose proof (has_tt_val _ _ _ _ _ _ _ _ Ht5 Vx2 Vxy1) as V5.
  pose proof (has_tt_val _ _ _ _ _ _ _ _ Ht6 Vxy1 Vxy2) as V6.
  pose proof (has_tt_val _ _ _ _ _ _ _ _ Ht7 V5 Vxy2) as V7.
  pose proof (has_tt_val _ _ _ _ _ _ _ _ Ht8 V2 V7) as V8.
  destruct v1, w1, v2, w2; simpl in V6, V4, V8; eexists _, _, _;
    (split; [exact V6|split; [exact V4|split; [exact V8|reflexivity]]]).
Qed.
