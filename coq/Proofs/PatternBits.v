(* Bit-level facts about N used by the pattern simulation of minimize_subcircuits (C04):
   numbers below 2^W as W-bit vectors, `2^W - 1 - x` as bitwise complement,
   closure of the bitwise operators, addition of a fresh high bit. *)
Require Import Cirbo.Model.Base.
Local Open Scope N_scope.

Lemma lt_pow2_bits_high x W m : x < 2 ^ W -> W <= m -> N.testbit x m = false.
Proof.
  intros Hx Hm. rewrite <- (N.mod_small x (2 ^ W)) by exact Hx.
  apply N.mod_pow2_bits_high; exact Hm.
Qed.

Lemma bits_high_lt_pow2 x W : (forall m, W <= m -> N.testbit x m = false) -> x < 2 ^ W.
Proof.
  intros H.
  assert (x = x mod 2 ^ W) as ->.
  { apply N.bits_inj; intros m. destruct (N.lt_ge_cases m W) as [Hlt|Hge].
    - rewrite N.mod_pow2_bits_low by exact Hlt; reflexivity.
    - rewrite N.mod_pow2_bits_high by exact Hge. apply H; exact Hge. }
  apply N.mod_lt. apply N.pow_nonzero. discriminate.
Qed.

Lemma pow2_pos W : 0 < 2 ^ W.
Proof. apply N.neq_0_lt_0, N.pow_nonzero; discriminate. Qed.

Lemma ones_pow2 W : N.ones W = 2 ^ W - 1.
Proof. rewrite N.ones_equiv, N.pred_sub; reflexivity. Qed.

(* max_pattern - x is the bitwise complement on W bits *)
Lemma compl_ldiff W x : x < 2 ^ W -> 2 ^ W - 1 - x = N.ldiff (N.ones W) x.
Proof.
  intros Hx. rewrite <- ones_pow2. apply N.sub_nocarry_ldiff.
  apply N.bits_inj; intros m. rewrite N.ldiff_spec, N.bits_0.
  destruct (N.lt_ge_cases m W) as [Hlt|Hge].
  - rewrite N.ones_spec_low by exact Hlt. apply andb_false_r.
  - rewrite (lt_pow2_bits_high x W m Hx Hge). reflexivity.
Qed.

Lemma testbit_compl W x i :
  x < 2 ^ W -> i < W -> N.testbit (2 ^ W - 1 - x) i = negb (N.testbit x i).
Proof.
  intros Hx Hi. rewrite compl_ldiff by exact Hx.
  rewrite N.ldiff_spec, N.ones_spec_low by exact Hi. reflexivity.
Qed.

Lemma compl_lt W x : 2 ^ W - 1 - x < 2 ^ W.
Proof. pose proof (pow2_pos W). lia. Qed.

Lemma land_lt W x y : x < 2 ^ W -> y < 2 ^ W -> N.land x y < 2 ^ W.
Proof.
  intros Hx Hy. apply bits_high_lt_pow2; intros m Hm.
  rewrite N.land_spec, (lt_pow2_bits_high x W m Hx Hm). reflexivity.
Qed.
Lemma lor_lt W x y : x < 2 ^ W -> y < 2 ^ W -> N.lor x y < 2 ^ W.
Proof.
  intros Hx Hy. apply bits_high_lt_pow2; intros m Hm.
  rewrite N.lor_spec, (lt_pow2_bits_high x W m Hx Hm), (lt_pow2_bits_high y W m Hy Hm). reflexivity.
Qed.
Lemma lxor_lt W x y : x < 2 ^ W -> y < 2 ^ W -> N.lxor x y < 2 ^ W.
Proof.
  intros Hx Hy. apply bits_high_lt_pow2; intros m Hm.
  rewrite N.lxor_spec, (lt_pow2_bits_high x W m Hx Hm), (lt_pow2_bits_high y W m Hy Hm). reflexivity.
Qed.

(* b in {0,1}: bits of b << k *)
Lemma testbit_bit_shiftl (b : bool) k m :
  N.testbit (N.shiftl (N.b2n b) k) m = (N.eqb m k && b)%bool.
Proof.
  destruct (N.eqb_spec m k) as [->|Hne].
  - rewrite N.shiftl_spec_high' by apply N.le_refl.
    rewrite N.sub_diag. destruct b; reflexivity.
  - destruct (N.lt_ge_cases m k) as [Hlt|Hge].
    + rewrite N.shiftl_spec_low by exact Hlt. reflexivity.
    + rewrite N.shiftl_spec_high' by exact Hge.
      destruct b; cbn [N.b2n andb]; [|rewrite N.bits_0; reflexivity].
      assert (m - k <> 0) as Hd by lia.
      destruct (m - k) as [|p] eqn:E; [contradiction|]. destruct p; reflexivity.
Qed.

(* adding a bit at a position above all bits of x *)
Lemma add_high_bit x (b : bool) k :
  x < 2 ^ k -> x + N.shiftl (N.b2n b) k = N.lor x (N.shiftl (N.b2n b) k).
Proof.
  intros Hx.
  assert (N.land x (N.shiftl (N.b2n b) k) = 0) as Hd.
  { apply N.bits_inj; intros m. rewrite N.land_spec, N.bits_0, testbit_bit_shiftl.
    destruct (N.eqb_spec m k) as [->|Hne]; [|apply andb_false_r].
    rewrite (lt_pow2_bits_high x k k Hx (N.le_refl k)). reflexivity. }
  rewrite N.add_nocarry_lxor by exact Hd.
  apply N.bits_inj; intros m. rewrite N.lxor_spec, N.lor_spec.
  apply (f_equal (fun z => N.testbit z m)) in Hd. rewrite N.land_spec, N.bits_0 in Hd.
  destruct (N.testbit x m), (N.testbit (N.shiftl (N.b2n b) k) m); try reflexivity; discriminate.
Qed.

Lemma testbit_add_high_bit x (b : bool) k m :
  x < 2 ^ k -> N.testbit (x + N.shiftl (N.b2n b) k) m = (N.testbit x m || (N.eqb m k && b))%bool.
Proof.
  intros Hx. rewrite add_high_bit by exact Hx. rewrite N.lor_spec, testbit_bit_shiftl. reflexivity.
Qed.

Lemma add_high_bit_lt x (b : bool) k : x < 2 ^ k -> x + N.shiftl (N.b2n b) k < 2 ^ (N.succ k).
Proof.
  intros Hx. rewrite N.shiftl_mul_pow2, N.pow_succ_r'. remember (2 ^ k) as p eqn:Ep.
  destruct b; cbn [N.b2n]; lia.
Qed.

(* (i >> j) & 1 is the j-th bit of i *)
Lemma shiftr_land_1 i j : N.land (N.shiftr i j) 1 = N.b2n (N.testbit i j).
Proof.
  change 1 with (N.ones 1). rewrite N.land_ones. change (2 ^ 1) with 2.
  rewrite <- N.bit0_mod, N.shiftr_spec by apply N.le_0_l. rewrite N.add_0_l. reflexivity.
Qed.
