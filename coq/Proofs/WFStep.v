(* C02: side conditions on arguments, the list of covered operations, and the step /
   history theorems assembled from the per-operation preservation lemmas. *)
Require Import Cirbo.Model.Base Cirbo.Model.Gate Cirbo.Model.Den Cirbo.Model.Circuit Cirbo.Model.Traverse
        Cirbo.Model.Connect Cirbo.Model.History Cirbo.Model.WF.
Require Import Cirbo.Proofs.DictFacts Cirbo.Proofs.WFBase Cirbo.Proofs.WFSimple Cirbo.Proofs.WFEmplace
        Cirbo.Proofs.WFRemove Cirbo.Proofs.WFReplaceInputs Cirbo.Proofs.WFRename Cirbo.Proofs.WFRename2
        Cirbo.Proofs.WFCopy Cirbo.Proofs.WFBench Cirbo.Proofs.WFReplaceSub Cirbo.Proofs.WFConnect2 Cirbo.Proofs.WFSound.

(* the invariant carried along a history: WF plus "INPUT gates have no operands" *)
Definition Inv (c : circuit) : Prop := WF c /\ inputs_nullary c.

(* comparison-like binary gate types: the bench converters read operands 0 and 1 only and
   silently ignore further operands (Proofs/WFBench.v: binary_type', binary_le') *)
Definition binary_type := binary_type'.
Definition binary_ok (c : circuit) : Prop :=
  forall l g, dget (gates c) l = Some g -> binary_type (gtyp g) = true -> length (gops g) <= 2.

(* what "valid arguments" means, per operation (may depend on the current state) *)
Definition op_ok (c : circuit) (o : op) : Prop :=
  match o with
  | OpEmplace l t ops => t = INPUT -> ops = []
  | OpConnect other _ _ _ _ _ => Inv other
  | OpConnectLeft other _ _ _ => Inv other
  | OpConnectRight other _ _ _ => Inv other
  | OpConnectInputs other _ _ => Inv other
  | OpExtend other _ _ _ _ _ => Inv other
  | OpAddCircuit other _ _ => Inv other
  | OpReplaceSubcircuit sub _ _ _ => Inv sub
  | OpIntoBench _ => binary_ok c
  | _ => True
  end.

(* every constructor of `op` has its preservation lemma: kept as a definition so that a
   constructor added to History.op later is not silently counted as proved *)
Definition covered (o : op) : bool :=
  match o with
  | OpEmplace _ _ _ | OpAddInputs _ | OpRemoveGate _
  | OpMarkOutput _ | OpSetOutputs _ | OpSetInputs _ | OpOrderInputs _ | OpOrderOutputs _
  | OpReplaceInputs _ _ | OpMakeBlock _ _ _ _ | OpMakeBlockFromSlice _ _ _
  | OpDeleteBlock _ | OpRemoveBlock _ | OpRename _ _ | OpCopy | OpBlockIntoCircuit _
  | OpIntoBench _ | OpReplaceSubcircuit _ _ _ _
  | OpConnect _ _ _ _ _ _ | OpConnectLeft _ _ _ _ | OpConnectRight _ _ _ _ | OpConnectInputs _ _ _
  | OpExtend _ _ _ _ _ _ | OpAddCircuit _ _ _ => true
  end.

Lemma covered_all o : covered o = true.
Proof. destruct o; reflexivity. Qed.

(* the simple mutators do not touch the gate map *)
Lemma simple_gates c o c' :
  match o with
  | OpMarkOutput _ | OpSetOutputs _ | OpSetInputs _ | OpOrderInputs _ | OpOrderOutputs _
  | OpMakeBlock _ _ _ _ | OpMakeBlockFromSlice _ _ _ | OpDeleteBlock _ => True
  | _ => False
  end -> step c o = Ok c' -> gates c' = gates c.
Proof.
  destruct o; try contradiction; intros _; simpl.
  - unfold mark_as_output; intros H; binv H u Hu; injection H as <-; reflexivity.
  - unfold set_outputs; intros H; binv H u Hu; injection H as <-; reflexivity.
  - unfold set_inputs; intros H; binv H u Hu. destruct (forallb _ _); [|discriminate].
    binv H a Ha; injection H as <-; reflexivity.
  - unfold order_inputs; intros H; binv H u Hu; injection H as <-; reflexivity.
  - unfold order_outputs; intros H; binv H u Hu; injection H as <-; reflexivity.
  - unfold make_block; intros H. binv H u0 H0. binv H u1 H1. binv H u2 H2. binv H i Hi.
    injection H as <-; reflexivity.
  - unfold make_block_from_slice, make_block; intros H. binv H u0 H0. binv H u1 H1. binv H u2 H2.
    binv H gs Hgs. binv H u3 H3. binv H u4 H4. binv H u5 H5. binv H i Hi. injection H as <-; reflexivity.
  - unfold delete_block; destruct (dmem _ _); [|discriminate]. intros H; injection H as <-; reflexivity.
Qed.

Theorem step_inv_partial c o c' :
  covered o = true -> Inv c -> op_ok c o -> step c o = Ok c' -> Inv c'.
Proof.
  intros Hc [W N] Hok H.
  destruct o; try discriminate Hc; simpl in H, Hok.
  - split; [eapply emplace_gate_wf|eapply emplace_gate_nullary]; eassumption.
  - split; [eapply add_inputs_wf|eapply add_inputs_nullary]; eassumption.
  - split; [eapply remove_gate_wf|eapply remove_gate_nullary]; eassumption.
  - split; [eapply rename_gate_wf|eapply rename_gate_nullary]; eassumption.
  - split; [eapply mark_as_output_wf; eassumption|].
    eapply nullary_same_gates; [|eassumption]. eapply (simple_gates c (OpMarkOutput l)); [exact I|exact H].
  - split; [eapply set_outputs_wf; eassumption|].
    eapply nullary_same_gates; [|eassumption]. eapply (simple_gates c (OpSetOutputs ls)); [exact I|exact H].
  - split; [eapply set_inputs_wf; eassumption|].
    eapply nullary_same_gates; [|eassumption]. eapply (simple_gates c (OpSetInputs ls)); [exact I|exact H].
  - split; [eapply order_inputs_wf; eassumption|].
    eapply nullary_same_gates; [|eassumption]. eapply (simple_gates c (OpOrderInputs ls)); [exact I|exact H].
  - split; [eapply order_outputs_wf; eassumption|].
    eapply nullary_same_gates; [|eassumption]. eapply (simple_gates c (OpOrderOutputs ls)); [exact I|exact H].
  - eapply replace_inputs_wf; eassumption.
  - split; [eapply make_block_wf; eassumption|].
    eapply nullary_same_gates; [|eassumption].
    eapply (simple_gates c (OpMakeBlock name gs outs ins)); [exact I|exact H].
  - split; [eapply make_block_from_slice_wf; eassumption|].
    eapply nullary_same_gates; [|eassumption].
    eapply (simple_gates c (OpMakeBlockFromSlice name ins outs)); [exact I|exact H].
  - split; [eapply delete_block_wf; eassumption|].
    eapply nullary_same_gates; [|eassumption]. eapply (simple_gates c (OpDeleteBlock name)); [exact I|exact H].
  - split; [eapply remove_block_wf|eapply remove_block_nullary]; eassumption.
  - destruct Hok as [Wo No]. eapply connect_circuit_inv; [exact W|exact N|exact Wo|exact No|exact H].
  - destruct Hok as [Wo No]. eapply connect_left_inv; [exact W|exact N|exact Wo|exact No|exact H].
  - destruct Hok as [Wo No]. eapply connect_right_inv; [exact W|exact N|exact Wo|exact No|exact H].
  - destruct Hok as [Wo No]. eapply connect_inputs_inv; [exact W|exact N|exact Wo|exact No|exact H].
  - destruct Hok as [Wo No]. eapply extend_circuit_inv; [exact W|exact N|exact Wo|exact No|exact H].
  - destruct Hok as [Wo No]. eapply add_circuit_inv; [exact W|exact N|exact Wo|exact No|exact H].
  - destruct Hok as [Wo No]. eapply replace_subcircuit_inv; [exact W|exact N|exact Wo|exact No|exact H].
  - eapply into_bench_inv_le; eassumption.
  - eapply copy_circuit_wf; eassumption.
  - binv H b Hb. eapply block_into_circuit_wf; eassumption.
Qed.

(* side conditions along a history: each call's arguments are valid in the state it is applied to *)
Fixpoint history_ok (c : circuit) (os : list op) : Prop :=
  match os with
  | [] => True
  | o :: os' => op_ok c o /\ forall c', step c o = Ok c' -> history_ok c' os'
  end.

Theorem history_inv_partial os : forall c c',
  forallb covered os = true -> Inv c -> history_ok c os -> foldM step os c = Ok c' -> Inv c'.
Proof.
  induction os as [|o os IH]; simpl; intros c c' Hc I0 Hok H; [injection H as <-; assumption|].
  apply andb_true_iff in Hc; destruct Hc as [Hc1 Hc2]. destruct Hok as [Hok1 Hok2].
  binv H c1 H1. eapply IH; [assumption| |apply Hok2; eassumption|eassumption].
  eapply step_inv_partial; eassumption.
Qed.

Theorem step_inv c o c' : Inv c -> op_ok c o -> step c o = Ok c' -> Inv c'.
Proof. apply step_inv_partial, covered_all. Qed.

Theorem history_inv os : forall c c',
  Inv c -> history_ok c os -> foldM step os c = Ok c' -> Inv c'.
Proof.
  intros c c'; apply history_inv_partial. apply forallb_forall; intros o _; apply covered_all.
Qed.

Lemma Inv_empty : Inv empty_circuit.
Proof. split; [apply WF_empty|]. intros l g H; discriminate. Qed.

(* executable version of the companion invariant, for concrete examples *)
Definition nullaryb (c : circuit) : bool :=
  forallb (fun kg : label * gate =>
             negb (gtype_beq (gtyp (snd kg)) INPUT) || match gops (snd kg) with [] => true | _ => false end)
          (gates c).

Lemma nullaryb_sound c : nullaryb c = true -> inputs_nullary c.
Proof.
  unfold nullaryb; rewrite forallb_forall. intros H l g Hg Ht.
  specialize (H (l, g) (dget_In _ _ _ Hg)); simpl in H. rewrite Ht in H; simpl in H.
  destruct (gops g); [reflexivity|discriminate].
Qed.

Lemma Inv_b c : wfb c && nullaryb c = true -> Inv c.
Proof.
  intros H; apply andb_true_iff in H; destruct H as [H1 H2].
  split; [apply WFSound.wfb_sound, H1|apply nullaryb_sound, H2].
Qed.

(* the statement of the property for circuits built from scratch *)
Theorem history_wf_from_empty os c' :
  history_ok empty_circuit os -> foldM step os empty_circuit = Ok c' -> WF c'.
Proof. intros Hok H. eapply (history_inv os empty_circuit c' Inv_empty Hok H). Qed.
