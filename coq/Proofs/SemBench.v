(* C14, part 1: the local rewrite rules of converters.py (as equations between the generated
   operators and between the denotations), the shape of the state after one convert_gate,
   and a generic induction principle over the snapshot loop of into_bench. *)
Require Import Cirbo.Model.Base Cirbo.Model.Gate Cirbo.Model.Den Cirbo.Model.Circuit Cirbo.Model.Traverse
        Cirbo.Model.Connect Cirbo.Model.Eval Cirbo.Model.Sem Cirbo.Model.WF.
Require Import Cirbo.Generated.Operators Cirbo.Generated.GateTypes.
Require Import Cirbo.Proofs.DictFacts Cirbo.Proofs.WFBase Cirbo.Proofs.WFSimple Cirbo.Proofs.WFEmplace
        Cirbo.Proofs.WFBench Cirbo.Proofs.OpFacts Cirbo.Proofs.SemFacts Cirbo.Proofs.SemExt.

(* ------------------------------------------------------------------ *)
(* the rewrite rules, on Booleans (Den.den) ... *)
Lemma den_rule_lt a b : den LT [a; b] = den AND [negb a; b]. Proof. reflexivity. Qed.
Lemma den_rule_leq a b : den LEQ [a; b] = den OR [negb a; b]. Proof. reflexivity. Qed.
Lemma den_rule_gt a b : den GT [a; b] = den AND [a; negb b]. Proof. reflexivity. Qed.
Lemma den_rule_geq a b : den GEQ [a; b] = den OR [a; negb b]. Proof. reflexivity. Qed.
Lemma den_rule_liff a b : den LIFF [a; b] = den IFF [a]. Proof. reflexivity. Qed.
Lemma den_rule_riff a b : den RIFF [a; b] = den IFF [b]. Proof. reflexivity. Qed.
Lemma den_rule_lnot a b : den LNOT [a; b] = den NOT [a]. Proof. reflexivity. Qed.
Lemma den_rule_rnot a b : den RNOT [a; b] = den NOT [b]. Proof. reflexivity. Qed.
Lemma den_rule_true bs x : den ALWAYS_TRUE bs = den OR [x; negb x]. Proof. destruct x; reflexivity. Qed.
Lemma den_rule_false bs x : den ALWAYS_FALSE bs = den AND [x; negb x]. Proof. destruct x; reflexivity. Qed.

(* ... and on the three-valued generated operators.  The comparison rules are equalities
   only on defined values; in general the rewritten gate is MORE defined (refinement). *)
Lemma op_rule_lt a b : a <> U -> b <> U -> oplt_ a b = opand_ (opnot_ a) b [].
Proof. destruct a, b; try contradiction; reflexivity. Qed.
Lemma op_rule_leq a b : a <> U -> b <> U -> opleq_ a b = opor_ (opnot_ a) b [].
Proof. destruct a, b; try contradiction; reflexivity. Qed.
Lemma op_rule_gt a b : a <> U -> b <> U -> opgt_ a b = opand_ a (opnot_ b) [].
Proof. destruct a, b; try contradiction; reflexivity. Qed.
Lemma op_rule_geq a b : a <> U -> b <> U -> opgeq_ a b = opor_ a (opnot_ b) [].
Proof. destruct a, b; try contradiction; reflexivity. Qed.
Lemma op_rule_true x : x <> U -> T = opor_ x (opnot_ x) [].
Proof. destruct x; try contradiction; reflexivity. Qed.
Lemma op_rule_false x : x <> U -> F = opand_ x (opnot_ x) [].
Proof. destruct x; try contradiction; reflexivity. Qed.

Lemma op_rule_lt_le a b : st_le (oplt_ a b) (opand_ (opnot_ a) b []).
Proof. destruct a, b; unfold st_le; simpl; auto. Qed.
Lemma op_rule_leq_le a b : st_le (opleq_ a b) (opor_ (opnot_ a) b []).
Proof. destruct a, b; unfold st_le; simpl; auto. Qed.
Lemma op_rule_gt_le a b : st_le (opgt_ a b) (opand_ a (opnot_ b) []).
Proof. destruct a, b; unfold st_le; simpl; auto. Qed.
Lemma op_rule_geq_le a b : st_le (opgeq_ a b) (opor_ a (opnot_ b) []).
Proof. destruct a, b; unfold st_le; simpl; auto. Qed.
(* the three-valued equality really fails: GT(U, True) is Undefined, AND(U, NOT True) is False *)
Lemma op_rule_gt_not_exact : opgt_ U T = U /\ opand_ U (opnot_ T) [] = F.
Proof. split; reflexivity. Qed.

(* ------------------------------------------------------------------ *)
Definition bench_type (t : gtype) : bool :=
  match t with INPUT | NOT | AND | OR | NAND | NOR | XOR | NXOR | IFF => true | _ => false end.

(* helper label created for gate l *)
Definition is_helper_label (l x : label) : Prop := exists pfx f : string, x = (pfx ++ l ++ f)%string.

(* which rule fired: type and operands of the old gate, new type, helper nl = NOT [on], new operands *)
Definition helper_rule (ty : gtype) (ops : list label) (ins : list label)
           (t : gtype) (nl on : label) (ops' : list label) : Prop :=
  (exists o0 o1 rest, ops = o0 :: o1 :: rest /\
     ((ty = LT /\ t = AND /\ on = o0 /\ ops' = [nl; o1]) \/
      (ty = LEQ /\ t = OR /\ on = o0 /\ ops' = [nl; o1]) \/
      (ty = GT /\ t = AND /\ on = o1 /\ ops' = [o0; nl]) \/
      (ty = GEQ /\ t = OR /\ on = o1 /\ ops' = [o0; nl]))) \/
  (exists rest, ins = on :: rest /\ ops' = [on; nl] /\
     ((ty = ALWAYS_TRUE /\ t = OR) \/ (ty = ALWAYS_FALSE /\ t = AND))).

Definition proj_rule (ty : gtype) (ops : list label) (t : gtype) (kept : label) : Prop :=
  exists o0 o1 rest, ops = o0 :: o1 :: rest /\
    ((ty = LIFF /\ t = IFF /\ kept = o0) \/ (ty = RIFF /\ t = IFF /\ kept = o1) \/
     (ty = LNOT /\ t = NOT /\ kept = o0) \/ (ty = RNOT /\ t = NOT /\ kept = o1)).

Inductive conv_shape (cur : circuit) (l : label) (g : gate) (c2 : circuit) : Prop :=
| CS_same : bench_type (gtyp g) = true -> c2 = cur -> conv_shape cur l g c2
| CS_helper t nl on ops' :
    is_helper_label l nl -> has_gate cur nl = false -> has_gate cur on = true ->
    gates c2 = dset (dset (gates cur) nl (mkGate NOT [on])) l (mkGate t ops') ->
    inputs c2 = inputs cur -> outputs c2 = outputs cur ->
    blocks c2 = blocks (add_new_gate_to_blocks cur l nl) ->
    helper_rule (gtyp g) (gops g) (inputs cur) t nl on ops' ->
    conv_shape cur l g c2
| CS_proj t kept :
    gates c2 = dset (gates cur) l (mkGate t [kept]) ->
    inputs c2 = inputs cur -> outputs c2 = outputs cur -> blocks c2 = blocks cur ->
    proj_rule (gtyp g) (gops g) t kept ->
    conv_shape cur l g c2.

Lemma op_at_01 g o0 o1 : op_at g 0 = Ok o0 -> op_at g 1 = Ok o1 -> exists rest, gops g = o0 :: o1 :: rest.
Proof.
  unfold op_at. destruct (gops g) as [|a [|b r]]; simpl; try discriminate.
  intros [= <-] [= <-]; eauto.
Qed.

Lemma anb_blocks_only c c0 l nl : blocks c0 = blocks c ->
  blocks (add_new_gate_to_blocks c0 l nl) = blocks (add_new_gate_to_blocks c l nl).
Proof. unfold add_new_gate_to_blocks; simpl; intros ->; reflexivity. Qed.

Lemma convert_cmp_shape c l g pfx f neg t c' :
  convert_cmp c l g pfx f neg t = Ok c' ->
  exists o0 o1 rest, gops g = o0 :: o1 :: rest /\
    let nl := (pfx ++ l ++ f)%string in
    let on := if Nat.eqb neg 0 then o0 else o1 in
    has_gate c nl = false /\ has_gate c on = true /\
    gates c' = dset (dset (gates c) nl (mkGate NOT [on])) l
                    (mkGate t (if Nat.eqb neg 0 then [nl; o1] else [o0; nl])) /\
    inputs c' = inputs c /\ outputs c' = outputs c /\
    blocks c' = blocks (add_new_gate_to_blocks c l nl).
Proof.
  unfold convert_cmp; intros H. binv H o0 H0. binv H o1 H1. binv H c1 Hc1. injection H as <-.
  destruct (op_at_01 g o0 o1 H0 H1) as [rest Eops]. exists o0, o1, rest. split; [assumption|].
  cbv zeta. set (nl := (pfx ++ l ++ f)%string) in *. set (on := if Nat.eqb neg 0 then o0 else o1) in *.
  apply emplace_gate_inv in Hc1. destruct Hc1 as (Hnl & Hon & ->).
  split; [assumption|]. split; [apply Hon; left; reflexivity|].
  set (c1 := emplace_gate_raw c nl NOT [on]).
  destruct (remove_user_frame c1 on l) as (Rg & Ri & Ro & Rb).
  destruct (add_user_frame (remove_user c1 on l) nl l) as (Ag & Ai & Ao & Ab).
  split; [simpl; rewrite Ag, Rg; unfold c1; rewrite emplace_raw_gates; reflexivity|].
  split; [simpl; rewrite Ai, Ri; unfold c1; rewrite emplace_raw_inputs; reflexivity|].
  split; [simpl; rewrite Ao, Ro; unfold c1; rewrite emplace_raw_outputs; reflexivity|].
  apply anb_blocks_only. simpl. rewrite Ab, Rb. unfold c1; apply emplace_raw_blocks.
Qed.

Lemma convert_proj_shape c l g keep t c' :
  convert_proj c l g keep t = Ok c' ->
  exists o0 o1 rest, gops g = o0 :: o1 :: rest /\
    gates c' = dset (gates c) l (mkGate t [if Nat.eqb keep 0 then o0 else o1]) /\
    inputs c' = inputs c /\ outputs c' = outputs c /\ blocks c' = blocks c.
Proof.
  unfold convert_proj; intros H. binv H o0 H0. binv H o1 H1. injection H as <-.
  destruct (op_at_01 g o0 o1 H0 H1) as [rest Eops]. exists o0, o1, rest. split; [assumption|].
  destruct (remove_user_frame c (if Nat.eqb keep 0 then o1 else o0) l) as (Rg & Ri & Ro & Rb).
  simpl. rewrite Rg, Ri, Ro, Rb. auto.
Qed.

Lemma convert_const_shape c l g pfx f t c' :
  convert_const c l g pfx f t = Ok c' ->
  exists fi0 rest, inputs c = fi0 :: rest /\
    let nl := (pfx ++ l ++ f)%string in
    has_gate c nl = false /\ has_gate c fi0 = true /\
    gates c' = dset (dset (gates c) nl (mkGate NOT [fi0])) l (mkGate t [fi0; nl]) /\
    inputs c' = inputs c /\ outputs c' = outputs c /\
    blocks c' = blocks (add_new_gate_to_blocks c l nl).
Proof.
  unfold convert_const; intros H. binv H fi0 Hf. binv H c1 Hc1. injection H as <-.
  destruct (inputs c) as [|i rest] eqn:Ei; [discriminate|]. injection Hf as ->.
  exists fi0, rest. split; [reflexivity|]. cbv zeta. set (nl := (pfx ++ l ++ f)%string) in *.
  apply emplace_gate_inv in Hc1. destruct Hc1 as (Hnl & Hon & ->).
  split; [assumption|]. split; [apply Hon; left; reflexivity|].
  set (c1 := emplace_gate_raw c nl NOT [fi0]).
  destruct (remove_users_frame c1 (gops g) l) as (Rg & Ri & Ro & Rb).
  destruct (add_user_frame (remove_users c1 (gops g) l) fi0 l) as (Ag & Ai & Ao & Ab).
  destruct (add_user_frame (add_user (remove_users c1 (gops g) l) fi0 l) nl l) as (Bg & Bi & Bo & Bb).
  split; [simpl; rewrite Bg, Ag, Rg; unfold c1; rewrite emplace_raw_gates; reflexivity|].
  split; [simpl; rewrite Bi, Ai, Ri; unfold c1; rewrite emplace_raw_inputs; simpl; exact Ei|].
  split; [simpl; rewrite Bo, Ao, Ro; unfold c1; rewrite emplace_raw_outputs; reflexivity|].
  apply anb_blocks_only. simpl. rewrite Bb, Ab, Rb. unfold c1; apply emplace_raw_blocks.
Qed.

Theorem convert_gate_shape cur l g f c2 : convert_gate cur l g f = Ok c2 -> conv_shape cur l g c2.
Proof.
  unfold convert_gate; intros H.
  destruct (gtyp g) eqn:Et;
    try (injection H as <-; apply CS_same; [rewrite Et; reflexivity|reflexivity]).
  - (* ALWAYS_TRUE *)
    apply convert_const_shape in H. destruct H as (fi0 & rest & Ei & Hnl & Hf & Hg & Hi & Ho & Hb).
    eapply (CS_helper cur l g c2 OR _ fi0); try eassumption; [eexists _, _; reflexivity|].
    right. exists rest. rewrite Et. auto.
  - apply convert_const_shape in H. destruct H as (fi0 & rest & Ei & Hnl & Hf & Hg & Hi & Ho & Hb).
    eapply (CS_helper cur l g c2 AND _ fi0); try eassumption; [eexists _, _; reflexivity|].
    right. exists rest. rewrite Et. auto.
  - (* GEQ *)
    apply convert_cmp_shape in H. destruct H as (o0 & o1 & rest & Eo & Hnl & Hon & Hg & Hi & Ho & Hb).
    eapply (CS_helper cur l g c2 OR _ o1); try eassumption; [eexists _, _; reflexivity|].
    left. exists o0, o1, rest. rewrite Et. auto 10.
  - (* GT *)
    apply convert_cmp_shape in H. destruct H as (o0 & o1 & rest & Eo & Hnl & Hon & Hg & Hi & Ho & Hb).
    eapply (CS_helper cur l g c2 AND _ o1); try eassumption; [eexists _, _; reflexivity|].
    left. exists o0, o1, rest. rewrite Et. auto 10.
  - (* LEQ *)
    apply convert_cmp_shape in H. destruct H as (o0 & o1 & rest & Eo & Hnl & Hon & Hg & Hi & Ho & Hb).
    eapply (CS_helper cur l g c2 OR _ o0); try eassumption; [eexists _, _; reflexivity|].
    left. exists o0, o1, rest. rewrite Et. auto 10.
  - (* LIFF *)
    apply convert_proj_shape in H. destruct H as (o0 & o1 & rest & Eo & Hg & Hi & Ho & Hb).
    eapply (CS_proj cur l g c2 IFF o0); try eassumption. exists o0, o1, rest. rewrite Et. auto 10.
  - (* LNOT *)
    apply convert_proj_shape in H. destruct H as (o0 & o1 & rest & Eo & Hg & Hi & Ho & Hb).
    eapply (CS_proj cur l g c2 NOT o0); try eassumption. exists o0, o1, rest. rewrite Et. auto 10.
  - (* LT *)
    apply convert_cmp_shape in H. destruct H as (o0 & o1 & rest & Eo & Hnl & Hon & Hg & Hi & Ho & Hb).
    eapply (CS_helper cur l g c2 AND _ o0); try eassumption; [eexists _, _; reflexivity|].
    left. exists o0, o1, rest. rewrite Et. auto 10.
  - (* RIFF *)
    apply convert_proj_shape in H. destruct H as (o0 & o1 & rest & Eo & Hg & Hi & Ho & Hb).
    eapply (CS_proj cur l g c2 IFF o1); try eassumption. exists o0, o1, rest. rewrite Et. auto 10.
  - (* RNOT *)
    apply convert_proj_shape in H. destruct H as (o0 & o1 & rest & Eo & Hg & Hi & Ho & Hb).
    eapply (CS_proj cur l g c2 NOT o1); try eassumption. exists o0, o1, rest. rewrite Et. auto 10.
Qed.

(* ------------------------------------------------------------------ *)
(* induction over the snapshot loop: an invariant indexed by the not yet visited entries *)
Lemma bench_loop_ind (Q : list (label * gate) -> circuit -> Prop) :
  (forall l g rest cur f c2,
      WF cur -> inputs_nullary cur -> dget (gates cur) l = Some g ->
      WF c2 -> inputs_nullary c2 ->
      ~ In l (map fst rest) ->
      Q ((l, g) :: rest) cur -> convert_gate cur l g f = Ok c2 -> Q rest c2) ->
  forall rest cur fr r,
    WF cur -> inputs_nullary cur ->
    (forall l g, In (l, g) rest -> dget (gates cur) l = Some g) ->
    NoDup (map fst rest) ->
    (forall l g, In (l, g) rest -> binary_type' (gtyp g) = true -> length (gops g) <= 2) ->
    Q rest cur ->
    foldM bench_step rest (cur, fr) = Ok r -> Q [] (fst r).
Proof.
  intros Hstep. induction rest as [|[l g] rest IH]; intros cur fr r W N Hsnap Hnd Hbin HQ H.
  - simpl in H; injection H as <-; exact HQ.
  - change (foldM bench_step ((l, g) :: rest) (cur, fr))
      with (do s' <- bench_step (cur, fr) (l, g); foldM bench_step rest s') in H.
    binv H st' Hst. apply bench_step_inv in Hst; destruct Hst as [f Hcv].
    destruct st' as [c2 fr2]; cbn [fst] in Hcv.
    simpl in Hnd; inversion Hnd as [|? ? Hnotin Hnd']; subst.
    destruct (convert_gate_step cur l g f c2 W N) as (W2 & N2 & Hkeep); try assumption.
    + apply Hsnap; left; reflexivity.
    + apply (Hbin l g); left; reflexivity.
    + apply (IH c2 fr2 r W2 N2); [| exact Hnd' | | |exact H].
      * intros l' g' Hin. apply Hkeep; [|apply Hsnap; right; assumption].
        intros ->. apply Hnotin. apply (in_map fst) in Hin; exact Hin.
      * intros l' g' Hin; apply (Hbin l' g'); right; assumption.
      * apply (Hstep l g rest cur f c2 W N); try assumption. apply Hsnap; left; reflexivity.
Qed.

Theorem into_bench_ind (Q : list (label * gate) -> circuit -> Prop) :
  (forall l g rest cur f c2,
      WF cur -> inputs_nullary cur -> dget (gates cur) l = Some g ->
      WF c2 -> inputs_nullary c2 ->
      ~ In l (map fst rest) ->
      Q ((l, g) :: rest) cur -> convert_gate cur l g f = Ok c2 -> Q rest c2) ->
  forall c fresh c', WF c -> inputs_nullary c -> binary_le' c ->
    Q (gates c) c -> into_bench c fresh = Ok c' -> Q [] c'.
Proof.
  intros Hstep c fresh c' W N B HQ H. rewrite into_bench_unfold in H. binv H r Hr. injection H as <-.
  eapply (bench_loop_ind Q Hstep); try eassumption.
  - intros l g Hin. apply In_dget; [apply (wf_gkeys c W)|assumption].
  - apply (wf_gkeys c W).
  - intros l g Hin. apply (B l g). apply In_dget; [apply (wf_gkeys c W)|assumption].
Qed.

(* arity_ok gives the side condition of C02 for into_bench *)
Lemma arity_ok_binary_le c : arity_ok c -> binary_le' c.
Proof.
  intros A l g Hg Hb. assert (gtyp g <> INPUT) as Ht by (intros E; rewrite E in Hb; discriminate).
  pose proof (A l g Hg Ht) as Hacc. destruct (gtyp g); try discriminate Hb; simpl in Hacc;
    apply Nat.eqb_eq in Hacc; lia.
Qed.
