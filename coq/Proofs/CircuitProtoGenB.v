(* T25: the protocol methods of Circuit whose code is specific to the class - is_monotone (per output a pair
   change_value / current_value, kept in two Python lists updated in place) and is_monotone_at - and the two
   accessors output_size / index_of_output, as regenerated from cirbo/core/circuit/circuit.py, equal the hand model
   (circ_is_monotone, circ_is_monotone_at of Model/FuncProto.v on circ_rep c).  Side condition of the two queries:
   fuel_ok c (Proofs/CircuitProtoGenLib.v).

   The loop lemmas are generic in the loop body and in what follows the loop (a per-iteration specification is a
   hypothesis; the body is found by unification), so they do not repeat the generated text. *)
Require Import Cirbo.Model.Base Cirbo.Model.Gate Cirbo.Model.Circuit Cirbo.Model.Eval Cirbo.Model.FuncProto.
Require Import Cirbo.Generated.CircuitCore Cirbo.Generated.CircuitAlgos.
Require Import Cirbo.Proofs.CircuitAlgosGen Cirbo.Proofs.CircuitAlgosGen2.
Require Import Cirbo.Proofs.FuncProtoEnum Cirbo.Proofs.FuncProtoLoops.
Require Import Cirbo.Generated.TruthTableCore Cirbo.Proofs.TruthTableGenPrim.
Require Import Cirbo.Generated.CircuitProtoGen Cirbo.Proofs.CircuitProtoGenLib.

(* ---------------------------------------------------------------- is_monotone_at *)
Lemma mono_at_loop_gen {X} (ev : X -> res bool)
      (body : bool * bool -> X -> res (ctl (bool * bool) bool)) (k : (bool * bool) + bool -> res bool) xs :
  (forall ch cur x, In x xs ->
     body (ch, cur) x
     = do v <- ev x;
       Ok (if Bool.eqb v cur then LContinue (ch, cur)
           else if ch then LReturn false else LContinue (true, negb cur))) ->
  (forall s, k (inl s) = Ok true) -> (forall r, k (inr r) = Ok r) ->
  forall ch cur, (do c <- loopM body xs (ch, cur); k c) = circ_mono_at_loop ev ch cur xs.
Proof.
  intros Hbody Hk1 Hk2. induction xs as [|x xs IH]; intros ch cur.
  - cbn [loopM bind circ_mono_at_loop]. apply Hk1.
  - cbn [loopM circ_mono_at_loop]. rewrite Hbody by (left; reflexivity). rewrite bind_assoc.
    assert (IH' : forall ch cur, (do c <- loopM body xs (ch, cur); k c) = circ_mono_at_loop ev ch cur xs).
    { apply IH. intros; apply Hbody; right; assumption. }
    destruct (ev x) as [v|]; [|reflexivity]. cbn [bind].
    destruct (Bool.eqb v cur); cbn [bind]; [apply IH'|].
    destruct ch; cbn [bind]; [apply Hk2|apply IH'].
Qed.

(* ---------------------------------------------------------------- is_monotone: one row *)
Definition g2 (p : bool * bool) : st := inj (snd p).
(* the two Python lists that stand for the list of pairs of the hand model *)
Definition enc (s : list (bool * bool)) : list bool * list st := (map fst s, map g2 s).

(* the body of the inner loop: for i, v in enumerate(<row>) *)
Definition row_step (s : list bool * list st) (iv : Z * st) : res (ctl (list bool * list st) bool) :=
  do t <- py_index (snd s) (fst iv);
  if negb (st_beq (snd iv) t) then
    do ch <- py_index (fst s) (fst iv);
    if ch then Ok (LReturn false)
    else do cv <- py_setitem (fst s) (fst iv) true;
         do cur <- py_setitem (snd s) (fst iv) (snd iv);
         Ok (LContinue (cv, cur))
  else Ok (LContinue s).

Lemma update_nth_app {A} (g : A -> A) : forall (pre : list A) a s,
  update_nth (length pre) g (pre ++ a :: s) = Ok (pre ++ g a :: s).
Proof.
  induction pre as [|p pre IH]; intros a s; simpl; [reflexivity|]. rewrite IH. reflexivity.
Qed.

Lemma nth_res_app {A} : forall (pre : list A) a s, nth_res (pre ++ a :: s) (length pre) = Ok a.
Proof.
  intros pre a s. unfold nth_res. rewrite nth_error_app2 by lia. rewrite Nat.sub_diag. reflexivity.
Qed.

Lemma enc_app pre ch cu s :
  enc (pre ++ (ch, cu) :: s) = (map fst pre ++ ch :: map fst s, map g2 pre ++ inj cu :: map g2 s).
Proof. unfold enc. rewrite !map_app. reflexivity. Qed.

Lemma row_loop_gen (body : list bool * list st -> Z * st -> res (ctl (list bool * list st) bool)) :
  (forall s iv, body s iv = row_step s iv) ->
  forall (vs : bvec) (pre s : list (bool * bool)) k, k = length pre ->
  loopM body (map (fun p => (Z.of_nat (fst p), snd p)) (combine (seq k (length vs)) (map inj vs))) (enc (pre ++ s))
  = do r <- circ_mono_row vs s;
    Ok (match r with Some s' => inl (enc (pre ++ s')) | None => inr false end).
Proof.
  intros Hbody. induction vs as [|v vs IH]; intros pre s k Hk.
  - reflexivity.
  - cbn [length seq map combine loopM circ_mono_row]. rewrite Hbody. unfold row_step.
    cbn [fst snd]. rewrite py_index_nat.
    destruct s as [|[ch cu] s].
    + unfold enc. cbn [snd]. rewrite nth_res_err by (rewrite map_length, app_nil_r; lia). reflexivity.
    + subst k.
      assert (Hcont : forall ch' cu',
                loopM body (map (fun p => (Z.of_nat (fst p), snd p))
                                (combine (seq (S (length pre)) (length vs)) (map inj vs)))
                      (map fst pre ++ ch' :: map fst s, map g2 pre ++ inj cu' :: map g2 s)
                = do r <- (do r <- circ_mono_row vs s; Ok (option_map (cons (ch', cu')) r));
                  Ok (match r with Some s' => inl (enc (pre ++ s')) | None => inr false end)).
      { intros ch' cu'. rewrite <- enc_app.
        replace (pre ++ (ch', cu') :: s) with ((pre ++ [(ch', cu')]) ++ s) by (rewrite <- app_assoc; reflexivity).
        rewrite (IH (pre ++ [(ch', cu')]) s (S (length pre))) by (rewrite app_length; simpl; lia).
        destruct (circ_mono_row vs s) as [[s'|]|]; cbn [bind option_map]; try reflexivity.
        rewrite <- app_assoc. reflexivity. }
      rewrite enc_app. cbn [fst snd].
      replace (length pre) with (length (map g2 pre)) at 1 by apply map_length.
      rewrite nth_res_app. cbn [bind]. rewrite st_beq_inj.
      destruct (Bool.eqb v cu) eqn:E; cbn [negb].
      * cbn [bind]. apply Hcont.
      * rewrite py_index_nat.
        replace (length pre) with (length (map fst pre)) at 1 by apply map_length.
        rewrite nth_res_app. cbn [bind]. destruct ch; [reflexivity|].
        rewrite !py_setitem_nat.
        replace (length pre) with (length (map fst pre)) at 1 by apply map_length.
        rewrite update_nth_app. cbn [bind].
        replace (length pre) with (length (map g2 pre)) at 1 by apply map_length.
        rewrite update_nth_app. cbn [bind]. apply Hcont.
Qed.

Lemma row_loop_gen0 (body : list bool * list st -> Z * st -> res (ctl (list bool * list st) bool)) :
  (forall s iv, body s iv = row_step s iv) ->
  forall (vs : bvec) (s : list (bool * bool)),
  loopM body (map (fun p => (Z.of_nat (fst p), snd p)) (combine (seq 0 (length vs)) (map inj vs))) (enc s)
  = do r <- circ_mono_row vs s; Ok (match r with Some s' => inl (enc s') | None => inr false end).
Proof. intros H vs s. exact (row_loop_gen body H vs [] s 0 eq_refl). Qed.

(* ---------------------------------------------------------------- is_monotone: the loop over the inputs *)
Lemma mono_loop_gen (ev : bvec -> res bvec)
      (body : list bool * list st -> bvec -> res (ctl (list bool * list st) bool))
      (k : (list bool * list st) + bool -> res bool) xs :
  (forall s x, In x xs ->
     body (enc s) x
     = do vs <- ev x; do r <- circ_mono_row vs s;
       Ok (match r with Some s' => LContinue (enc s') | None => LReturn false end)) ->
  (forall s, k (inl s) = Ok true) -> (forall r, k (inr r) = Ok r) ->
  forall s, (do c <- loopM body xs (enc s); k c) = circ_mono_loop ev s xs.
Proof.
  intros Hbody Hk1 Hk2. induction xs as [|x xs IH]; intros s.
  - cbn [loopM bind circ_mono_loop]. apply Hk1.
  - cbn [loopM circ_mono_loop]. rewrite Hbody by (left; reflexivity). rewrite !bind_assoc.
    destruct (ev x) as [vs|]; [|reflexivity]. cbn [bind]. rewrite bind_assoc.
    destruct (circ_mono_row vs s) as [[s'|]|]; cbn [bind]; [|apply Hk2|reflexivity].
    apply IH. intros; apply Hbody; right; assumption.
Qed.

Lemma enc_repeat inv m : (repeat false m, map inj (repeat inv m)) = enc (repeat (false, inv) m).
Proof.
  unfold enc. induction m as [|m IH]; [reflexivity|]. cbn [repeat map]. injection IH as E1 E2.
  rewrite <- E1, <- E2. reflexivity.
Qed.

Section Mono.
  Variable c : circuit.
  Hypothesis Hb : fuel_ok c.

  Ltac sizes := rewrite ?gen_input_size_eq; change (r_n (circ_rep c)) with (length (inputs c)).

  Theorem gen_is_monotone_at_eq (j : nat) inverse :
    gen_is_monotone_at at_fuel c (Z.of_nat j) inverse = circ_is_monotone_at (circ_rep c) j inverse.
  Proof.
    unfold gen_is_monotone_at, circ_is_monotone_at. cbv zeta. sizes.
    rewrite py_product_bools_nat. cbn [bind].
    pose proof (abv_length (length (inputs c))) as Hlen.
    apply mono_at_loop_gen.
    - intros ch cur x Hx. cbv beta iota. rewrite (gen_ev_at_bridge c Hb x j (Hlen x Hx)).
      destruct (r_ev_at (circ_rep c) x j) as [v|]; [|reflexivity]. cbn [rmap bind]. rewrite st_beq_inj.
      destruct (Bool.eqb v cur), ch; reflexivity.
    - intros [ch cur]. reflexivity.
    - reflexivity.
  Qed.

  Theorem gen_is_monotone_eq inverse :
    gen_is_monotone outputs_fuel c inverse = circ_is_monotone (circ_rep c) inverse.
  Proof.
    unfold gen_is_monotone, circ_is_monotone, circ_mono_loop. cbv zeta. sizes.
    change (gen_output_size c) with (length (outputs c)).
    change (r_m (circ_rep c)) with (length (outputs c)).
    rewrite py_product_bools_nat. cbn [bind]. rewrite !py_list_mul_single, enc_repeat.
    pose proof (abv_length (length (inputs c))) as Hlen.
    apply mono_loop_gen.
    - intros s x Hx. unfold enc at 1. cbv beta iota.
      rewrite (gen_ev_bridge c Hb x (Hlen x Hx)).
      destruct (r_ev (circ_rep c) x) as [vs|]; [|reflexivity]. cbn [rmap bind].
      rewrite py_enumerate_nat. fold (enc s). rewrite map_length.
      match goal with |- context [loopM ?b _ (enc s)] =>
        assert (Hstep : forall s0 iv, b s0 iv = row_step s0 iv) by (intros [? ?] [? ?]; reflexivity);
        rewrite (row_loop_gen0 b Hstep vs s)
      end.
      destruct (circ_mono_row vs s) as [[s'|]|]; reflexivity.
    - intros [cv cur]. reflexivity.
    - reflexivity.
  Qed.
End Mono.

(* ---------------------------------------------------------------- output_size, index_of_output *)
Theorem gen_output_size_eq c : gen_output_size c = length (outputs c).
Proof. reflexivity. Qed.

(* index_of_output has no counterpart in the hand model: "first outputs index which corresponds to the label" *)
Lemma list_index_of_spec x : forall (l : list label) i,
  list_index_of x l = Ok i <-> nth_error l i = Some x /\ forall j, j < i -> nth_error l j <> Some x.
Proof.
  induction l as [|y l IH]; intros i; cbn [list_index_of].
  - split; [discriminate|]. intros [H _]. destruct i; discriminate.
  - destruct (leqb_spec y x) as [->|Hne].
    + split.
      * intros [= <-]. split; [reflexivity|]. intros j Hj. lia.
      * intros [H Hmin]. destruct i as [|i]; [reflexivity|]. exfalso. apply (Hmin 0); [lia|reflexivity].
    + destruct (list_index_of x l) as [i'|e] eqn:E; cbn [bind].
      * split.
        -- intros [= <-]. destruct (proj1 (IH i') eq_refl) as [H Hmin]. split; [exact H|].
           intros [|j] Hj; simpl; [congruence|]. apply Hmin. lia.
        -- intros [H Hmin]. destruct i as [|i]; [simpl in H; congruence|]. f_equal. f_equal.
           assert (Hi : Ok i' = Ok i); [|congruence]. apply IH. split; [exact H|].
           intros j Hj. apply (Hmin (S j)). lia.
      * split; [discriminate|]. intros [H Hmin]. destruct i as [|i]; [simpl in H; congruence|]. exfalso.
        assert (Hi : Err e = Ok i); [|discriminate]. apply IH. split; [exact H|].
        intros j Hj. apply (Hmin (S j)). lia.
Qed.

Theorem gen_index_of_output_spec c l :
  (forall i, gen_index_of_output c l = Ok i <->
             nth_error (outputs c) i = Some l /\ forall j, j < i -> nth_error (outputs c) j <> Some l) /\
  (~ In l (outputs c) -> gen_index_of_output c l = Err GateDoesntExistError).
Proof.
  unfold gen_index_of_output. split.
  - intros i. destruct (memb l (outputs c)) eqn:M; cbn [negb].
    + apply list_index_of_spec.
    + split; [discriminate|]. intros [H _]. exfalso. apply nth_error_In in H.
      apply memb_In in H. congruence.
  - intros Hn. destruct (memb l (outputs c)) eqn:M; [|reflexivity]. exfalso. apply Hn, memb_In, M.
Qed.
