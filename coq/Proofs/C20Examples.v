(* Concrete circuits used by the non-vacuity examples of Properties/C20.v. *)
Require Import Cirbo.Model.Base Cirbo.Model.Gate Cirbo.Model.Circuit Cirbo.Model.Traverse Cirbo.Model.WF.
Require Import Cirbo.Proofs.TopSortWF Cirbo.Proofs.TraverseStep Cirbo.Proofs.TraverseInv
               Cirbo.Proofs.TraverseSpec Cirbo.Proofs.CycleCheck Cirbo.Proofs.TraverseFinal.

(* a DAG with sharing, a repeated operand and a part unreachable from the outputs *)
Definition c20_ex : circuit :=
  mkCircuit ["a"; "b"] ["h"]
    [("a", mkGate INPUT []); ("b", mkGate INPUT []); ("g", mkGate AND ["a"; "b"]);
     ("h", mkGate OR ["g"; "g"]); ("k", mkGate NOT ["a"])]
    [("a", ["g"; "k"]); ("b", ["g"]); ("g", ["h"; "h"])] [].

Ltac c20_cases :=
  repeat match goal with
         | |- context [leqb ?x ?y] => destruct (leqb_spec x y); subst; simpl in *; try congruence; try lia
         | H : context [leqb ?x ?y] |- _ => destruct (leqb_spec x y); subst; simpl in *; try congruence; try lia
         end.

Ltac c20_hyp :=
  repeat match goal with
         | H : context [leqb ?x ?y] |- _ => destruct (leqb_spec x y); subst; simpl in *; try congruence
         end.

Lemma c20_ex_wf : WF c20_ex.
Proof.
  constructor.
  - apply nodupb_NoDup; reflexivity.
  - apply nodupb_NoDup; reflexivity.
  - constructor.
  - intros l g o Hg Ho. unfold c20_ex in Hg; simpl in Hg.
    c20_hyp; inversion Hg; subst; simpl in Ho;
      repeat (destruct Ho as [<-|Ho]; [reflexivity|]); contradiction.
  - intros o [<-|[]]; reflexivity.
  - intros l u. unfold users_of, ops_of, c20_ex; simpl. c20_cases; reflexivity.
  - apply nodupb_NoDup; reflexivity.
  - intros l. unfold c20_ex; simpl. split.
    + intros [<-|[<-|[]]]; eexists; split; reflexivity.
    + intros (g & Hg & Ht). c20_hyp; auto; inversion Hg; subst; discriminate.
  - exists (fun l => if leqb l "g" then 1 else if leqb l "h" then 2 else if leqb l "k" then 1 else 0).
    intros l g o Hg Ho. unfold c20_ex in Hg; simpl in Hg.
    c20_hyp; inversion Hg; subst; simpl in Ho;
      repeat (destruct Ho as [<-|Ho]; [simpl; lia|]); contradiction.
  - intros b blk l H. discriminate.
Qed.

(* a netlist with a cycle x -> y -> z -> x reachable from the output, and a self-loop w that is not *)
Definition c20_cyc : circuit :=
  mkCircuit ["a"] ["x"]
    [("a", mkGate INPUT []); ("x", mkGate AND ["a"; "y"]); ("y", mkGate NOT ["z"]);
     ("z", mkGate NOT ["x"]); ("w", mkGate NOT ["w"])]
    [("a", ["x"]); ("y", ["x"]); ("z", ["y"]); ("x", ["z"]); ("w", ["w"])] [].

Lemma c20_cyc_facts :
  NoDup (dkeys (gates c20_cyc)) /\
  (forall l g o, dget (gates c20_cyc) l = Some g -> In o (gops g) -> has_gate c20_cyc o = true) /\
  (forall o, In o (outputs c20_cyc) -> has_gate c20_cyc o = true) /\
  check_circuit_has_no_cycles c20_cyc = Err CircuitValidationError /\
  check_circuit_has_no_cycles_from c20_cyc (Some ["a"]) = Ok tt /\
  check_circuit_has_no_cycles_from c20_cyc (Some ["w"]) = Err CircuitValidationError /\
  (reach (ops_of c20_cyc) (outputs c20_cyc) "x" /\ tc (ops_of c20_cyc) "x" "x").
Proof.
  split; [apply nodupb_NoDup; reflexivity|]. split.
  { intros l g o Hg Ho. unfold c20_cyc in Hg; simpl in Hg.
    c20_hyp; inversion Hg; subst; simpl in Ho;
      repeat (destruct Ho as [<-|Ho]; [reflexivity|]); contradiction. }
  split; [intros o [<-|[]]; reflexivity|].
  repeat split; try (vm_compute; reflexivity).
  - apply reach_start. left; reflexivity.
  - apply tc_step with (b := "z"); [apply tc_step with (b := "y")|]; [apply tc_one| |]; simpl; auto.
Qed.
