(* Tools for Proofs/ArithGen09*.v: extensional equality of builder programs, the monad laws, and the
   reading of the Python primitives of Model/PyPrims.v on natural-number indices. *)
Require Import Cirbo.Model.Base Cirbo.Model.Gate Cirbo.Model.Circuit Cirbo.Model.Builder Cirbo.Model.PyPrims.
From Coq Require Import ZArith Lia Ascii.
Open Scope Z_scope.

(* ---- extensional equality ----------------------------------------------------------------- *)
Definition peq {A} (p q : prog A) : Prop := forall fresh s, run fresh p s = run fresh q s.

Lemma peq_refl {A} (p : prog A) : peq p p.
Proof. intros fresh s; reflexivity. Qed.
Lemma peq_sym {A} (p q : prog A) : peq p q -> peq q p.
Proof. intros H fresh s; symmetry; apply H. Qed.
Lemma peq_trans {A} (p q r : prog A) : peq p q -> peq q r -> peq p r.
Proof. intros H1 H2 fresh s; rewrite H1; apply H2. Qed.
Lemma peq_of_eq {A} (p q : prog A) : p = q -> peq p q.
Proof. intros ->; apply peq_refl. Qed.

Lemma peq_bind {A B} (p p' : prog A) (k k' : A -> prog B) :
  peq p p' -> (forall a, peq (k a) (k' a)) -> peq (Bind p k) (Bind p' k').
Proof.
  intros Hp Hk fresh s; cbn [run]. rewrite Hp.
  destruct (run fresh p' s) as [[a s']|e]; [apply Hk|reflexivity].
Qed.

Lemma bind_ret_l {A B} (a : A) (k : A -> prog B) : peq (Bind (Ret a) k) (k a).
Proof. intros fresh s; reflexivity. Qed.
Lemma bind_ret_r {A} (p : prog A) : peq (Bind p (fun a => Ret a)) p.
Proof. intros fresh s; cbn [run]. destruct (run fresh p s) as [[a s']|e]; reflexivity. Qed.
Lemma bind_assoc {A B C} (p : prog A) (k : A -> prog B) (h : B -> prog C) :
  peq (Bind (Bind p k) h) (Bind p (fun a => Bind (k a) h)).
Proof. intros fresh s; cbn [run]. destruct (run fresh p s) as [[a s']|e]; reflexivity. Qed.
Lemma bind_fail {A B} e (k : A -> prog B) : peq (Bind (Fail e) k) (Fail e).
Proof. intros fresh s; reflexivity. Qed.

(* a property of every value a program can return *)
Definition returns {A} (p : prog A) (Q : A -> Prop) : Prop :=
  forall fresh s a s', run fresh p s = Ok (a, s') -> Q a.

Lemma peq_bind_post {A B} (p : prog A) (Q : A -> Prop) (k k' : A -> prog B) :
  returns p Q -> (forall a, Q a -> peq (k a) (k' a)) -> peq (Bind p k) (Bind p k').
Proof.
  intros Hq Hk fresh s; cbn [run].
  destruct (run fresh p s) as [[a s']|e] eqn:E; [|reflexivity]. apply Hk. eapply Hq; eauto.
Qed.

(* symbolic execution: [rs] unfolds run on Bind / Ret / Fail only (the primitives Fresh / AddGate / MarkOutput stay
   folded); [step] destructs the run of an atomic program that is the scrutinee of a match *)
Lemma run_bind fresh {A B} (p : prog A) (k : A -> prog B) s :
  run fresh (Bind p k) s = match run fresh p s with Ok (a, s') => run fresh (k a) s' | Err e => Err e end.
Proof. reflexivity. Qed.
Lemma run_ret fresh {A} (a : A) s : run fresh (Ret a) s = Ok (a, s).
Proof. reflexivity. Qed.
Lemma run_fail fresh {A} e s : run fresh (@Fail A e) s = Err e.
Proof. reflexivity. Qed.

Ltac rs := repeat (progress (rewrite ?run_bind, ?run_ret, ?run_fail); cbv beta iota zeta); cbv beta iota zeta.
(* ---- folds ---------------------------------------------------------------------------------- *)
Lemma foldP_map {A B S} (g : A -> B) (f : S -> B -> prog S) l s0 :
  peq (foldP f (map g l) s0) (foldP (fun s x => f s (g x)) l s0).
Proof.
  revert s0; induction l as [|x l IH]; intros s0 fresh s; cbn [map foldP run]; [reflexivity|].
  destruct (run fresh (f s0 (g x)) s) as [[a s']|e]; [apply IH|reflexivity].
Qed.

Lemma foldP_ext_in {A S} (f g : S -> A -> prog S) l s0 :
  (forall s x, In x l -> peq (f s x) (g s x)) -> peq (foldP f l s0) (foldP g l s0).
Proof.
  revert s0; induction l as [|x l IH]; intros s0 H fresh s; cbn [foldP run]; [reflexivity|].
  rewrite (H s0 x (or_introl eq_refl)).
  destruct (run fresh (g s0 x) s) as [[a s']|e]; [|reflexivity].
  apply IH. intros s1 y Hy. apply H. right; exact Hy.
Qed.

Lemma foldP_app {A S} (f : S -> A -> prog S) l1 l2 s0 :
  peq (foldP f (l1 ++ l2) s0) (Bind (foldP f l1 s0) (fun s1 => foldP f l2 s1)).
Proof.
  revert s0; induction l1 as [|x l IH]; intros s0 fresh s; cbn [app foldP run]; [reflexivity|].
  destruct (run fresh (f s0 x) s) as [[a s']|e]; [|reflexivity]. rewrite IH. reflexivity.
Qed.

(* ---- Python indices that are natural numbers --------------------------------------------------- *)
Lemma py_len_nat {A} (l : list A) : py_len l = Z.of_nat (length l).
Proof. reflexivity. Qed.

Lemma py_pos_nat {A} (l : list A) i : py_pos l (Z.of_nat i) = Z.of_nat i.
Proof. unfold py_pos. destruct (Z.ltb_spec (Z.of_nat i) 0); [lia|reflexivity]. Qed.

Lemma py_nth_nat {A} (l : list A) i : py_nth l (Z.of_nat i) = nthP l i.
Proof.
  unfold py_nth. rewrite py_pos_nat. destruct (Z.ltb_spec (Z.of_nat i) 0); [lia|].
  rewrite Nat2Z.id. reflexivity.
Qed.

Lemma nthP_ok {A} (l : list A) i d : (i < length l)%nat -> nthP l i = Ret (nth i l d).
Proof.
  intros H. unfold nthP, nth_res. rewrite (nth_error_nth' l d H). reflexivity.
Qed.

Lemma nthP_err {A} (l : list A) i : (length l <= i)%nat -> nthP l i = Fail PyIndexError.
Proof.
  intros H. unfold nthP, nth_res. apply nth_error_None in H. rewrite H. reflexivity.
Qed.

Lemma py_nth_ok {A} (l : list A) i d : (i < length l)%nat -> py_nth l (Z.of_nat i) = Ret (nth i l d).
Proof. intros H. rewrite py_nth_nat. apply nthP_ok, H. Qed.

Lemma py_nth_err {A} (l : list A) i : (length l <= i)%nat -> py_nth l (Z.of_nat i) = Fail PyIndexError.
Proof. intros H. rewrite py_nth_nat. apply nthP_err, H. Qed.

Lemma py_nth_0 {A} (l : list A) : py_nth l 0 = nthP l 0.
Proof. exact (py_nth_nat l 0). Qed.

(* l[-1] *)
Lemma py_nth_last {A} (l : list A) : py_nth l (-1) = lastP l.
Proof.
  unfold py_nth, py_pos, py_len, lastP. cbn [Z.ltb Z.compare].
  destruct l as [|x l'] using rev_ind.
  - reflexivity.
  - rewrite rev_app_distr. cbn [rev app]. rewrite app_length. cbn [length].
    destruct (Z.ltb_spec (-1 + Z.of_nat (length l' + 1)) 0); [lia|].
    replace (Z.to_nat (-1 + Z.of_nat (length l' + 1))) with (length l') by lia.
    unfold nthP, nth_res. rewrite nth_error_app2 by lia. rewrite Nat.sub_diag. reflexivity.
Qed.

Lemma py_set_nat {A} (l : list A) i x :
  (i < length l)%nat -> py_set l (Z.of_nat i) x = Ret (upd l i x).
Proof.
  intros H. unfold py_set. rewrite py_pos_nat. unfold py_len.
  destruct (Z.ltb_spec (Z.of_nat i) 0); [lia|].
  destruct (Z.leb_spec (Z.of_nat (length l)) (Z.of_nat i)); [lia|].
  cbn [orb]. rewrite Nat2Z.id. reflexivity.
Qed.

Lemma py_set_err {A} (l : list A) i x :
  (length l <= i)%nat -> py_set l (Z.of_nat i) x = Fail PyIndexError.
Proof.
  intros H. unfold py_set. rewrite py_pos_nat. unfold py_len.
  destruct (Z.ltb_spec (Z.of_nat i) 0); [lia|].
  destruct (Z.leb_spec (Z.of_nat (length l)) (Z.of_nat i)); [reflexivity|lia].
Qed.

Lemma upd_length {A} (l : list A) i x : length (upd l i x) = length l.
Proof. revert i; induction l as [|y l IH]; intros [|i]; cbn; auto. Qed.

Lemma upd_firstn_skipn {A} (l : list A) i x :
  (i < length l)%nat -> upd l i x = firstn i l ++ x :: skipn (S i) l.
Proof.
  revert i; induction l as [|y l IH]; intros [|i] H; cbn in *; try lia; [reflexivity|].
  rewrite IH by lia. reflexivity.
Qed.

Lemma nth_upd_same {A} (l : list A) i x d : (i < length l)%nat -> nth i (upd l i x) d = x.
Proof. revert i; induction l as [|y l IH]; intros [|i] H; cbn in *; try lia; auto. apply IH; lia. Qed.

Lemma nth_upd_other {A} (l : list A) i j x d : i <> j -> nth j (upd l i x) d = nth j l d.
Proof.
  revert i j; induction l as [|y l IH]; intros [|i] [|j] H; cbn; auto; try congruence.
Qed.

Lemma firstn_upd_ge {A} (l : list A) i k x : (k <= i)%nat -> firstn k (upd l i x) = firstn k l.
Proof.
  revert i k; induction l as [|y l IH]; intros [|i] [|k] H; cbn; auto; try lia.
  f_equal. apply IH; lia.
Qed.

Lemma skipn_upd_lt {A} (l : list A) i k x : (i < k)%nat -> skipn k (upd l i x) = skipn k l.
Proof.
  revert i k; induction l as [|y l IH]; intros [|i] [|k] H; cbn; auto; try lia.
  apply IH; lia.
Qed.

(* ---- ranges --------------------------------------------------------------------------------------- *)
Lemma map_add_seq a n : map (fun k => Z.of_nat a + Z.of_nat k) (seq 0 n) = map Z.of_nat (seq a n).
Proof.
  revert a; induction n as [|n IH]; intros a; cbn [seq map]; [reflexivity|].
  f_equal; [lia|]. rewrite <- seq_shift, map_map. rewrite <- (IH (S a)).
  apply map_ext; intros k; lia.
Qed.

Lemma py_range_nat a b : py_range (Z.of_nat a) (Z.of_nat b) = map Z.of_nat (seq a (b - a)).
Proof.
  unfold py_range. replace (Z.to_nat (Z.of_nat b - Z.of_nat a)) with (b - a)%nat by lia.
  apply map_add_seq.
Qed.

Lemma py_range_neg a b : b <= a -> py_range a b = [].
Proof. intros H. unfold py_range. replace (Z.to_nat (b - a)) with 0%nat by lia. reflexivity. Qed.

(* range(a, b, -1) for a = hi - 1, b = lo - 1: hi-1, ..., lo *)
Lemma map_sub_seq lo n :
  map (fun k => Z.of_nat (lo + n) - 1 - Z.of_nat k) (seq 0 n) = map Z.of_nat (rev (seq lo n)).
Proof.
  revert lo; induction n as [|n IH]; intros lo; [reflexivity|].
  rewrite (seq_S n lo), rev_app_distr. cbn [rev app map seq].
  f_equal; [lia|].
  rewrite <- (IH lo). rewrite <- seq_shift, map_map. apply map_ext; intros k; lia.
Qed.

Lemma py_range_down_nat hi lo :
  py_range_down (Z.of_nat hi - 1) (Z.of_nat lo - 1) = map Z.of_nat (rev (seq lo (hi - lo))).
Proof.
  unfold py_range_down.
  replace (Z.to_nat (Z.of_nat hi - 1 - (Z.of_nat lo - 1))) with (hi - lo)%nat by lia.
  destruct (Nat.le_gt_cases hi lo) as [H|H].
  - replace (hi - lo)%nat with 0%nat by lia. reflexivity.
  - rewrite <- map_sub_seq. replace (lo + (hi - lo))%nat with hi by lia. reflexivity.
Qed.

Lemma py_mul_single {A} (x : A) n : py_mul [x] (Z.of_nat n) = repeat x n.
Proof.
  unfold py_mul. rewrite Nat2Z.id. induction n as [|n IH]; cbn; [reflexivity|]. f_equal; exact IH.
Qed.

(* ---- slices ----------------------------------------------------------------------------------------- *)
Lemma py_clamp_nat {A} (l : list A) i : py_clamp l (Z.of_nat i) = Nat.min (length l) i.
Proof. unfold py_clamp. rewrite py_pos_nat. unfold py_len. lia. Qed.

Lemma py_slice_from {A} (l : list A) i : py_slice l (Some (Z.of_nat i)) None = skipn i l.
Proof.
  unfold py_slice. rewrite py_clamp_nat.
  destruct (Nat.le_gt_cases (length l) i) as [H|H].
  - rewrite Nat.min_l by lia. rewrite Nat.sub_diag. cbn [firstn]. symmetry. apply skipn_all2; lia.
  - rewrite Nat.min_r by lia. apply firstn_all2. rewrite skipn_length. lia.
Qed.

Lemma py_slice_to {A} (l : list A) i : py_slice l None (Some (Z.of_nat i)) = firstn i l.
Proof.
  unfold py_slice. rewrite py_clamp_nat. cbn [skipn]. rewrite Nat.sub_0_r.
  destruct (Nat.le_gt_cases (length l) i) as [H|H].
  - rewrite Nat.min_l by lia. rewrite !firstn_all2 by lia. reflexivity.
  - rewrite Nat.min_r by lia. reflexivity.
Qed.

(* l[:-1] *)
Lemma py_slice_butlast {A} (l : list A) : py_slice l None (Some (-1)) = removelast l.
Proof.
  unfold py_slice, py_clamp, py_pos, py_len. cbn [Z.ltb Z.compare skipn]. rewrite Nat.sub_0_r.
  destruct l as [|x l'] using rev_ind; [reflexivity|].
  rewrite removelast_last, app_length. cbn [length].
  replace (Z.to_nat (Z.max 0 (Z.min (Z.of_nat (length l' + 1)) (-1 + Z.of_nat (length l' + 1))))) with (length l') by lia.
  rewrite firstn_app, Nat.sub_diag, firstn_all. cbn [firstn]. apply app_nil_r.
Qed.

Lemma skipn_nth {A} (l : list A) i d : (i < length l)%nat -> skipn i l = nth i l d :: skipn (S i) l.
Proof.
  revert i; induction l as [|x l IH]; intros [|i] H; cbn in *; try lia; [reflexivity|]. apply IH; lia.
Qed.

Lemma py_range_0_nat b : py_range 0 (Z.of_nat b) = map Z.of_nat (seq 0 b).
Proof. rewrite <- (Nat.sub_0_r b) at 2. exact (py_range_nat 0 b). Qed.
Lemma py_range_1_nat b : py_range 1 (Z.of_nat b) = map Z.of_nat (seq 1 (b - 1)).
Proof. exact (py_range_nat 1 b). Qed.

Lemma py_len_eqb {A B} (a : list A) (b : list B) : (py_len a =? py_len b) = (length a =? length b)%nat.
Proof.
  unfold py_len. destruct (Nat.eqb_spec (length a) (length b)) as [H|H].
  - rewrite H. apply Z.eqb_refl.
  - apply Z.eqb_neq. lia.
Qed.

(* ---- symbolic execution of the pure primitives ---------------------------------------------------- *)
Global Hint Rewrite @app_length @upd_length @repeat_length @rev_length @firstn_length @skipn_length
  @map_length @seq_length : len.
Ltac lens := autorewrite with len in *; cbn [length] in *; lia.

Lemma py_nth_ok_label (l : list label) i :
  (i < length l)%nat -> py_nth l (Z.of_nat i) = Ret (nth i l ""%string).
Proof. apply py_nth_ok. Qed.

(* a pure primitive applied to concrete arguments: compute it *)
Ltac compute_prim p :=
  let v := eval cbv in p in
  lazymatch v with
  | Ret _ => change p with v
  | Fail _ => change p with v
  end.
Lemma py_nth_pred_label (l : list label) i :
  (1 <= i)%nat -> (i - 1 < length l)%nat -> py_nth l (Z.of_nat i - 1) = Ret (nth (i - 1) l ""%string).
Proof.
  intros H1 H2. replace (Z.of_nat i - 1) with (Z.of_nat (i - 1)) by lia. apply py_nth_ok_label, H2.
Qed.

Lemma rev_if_length {A} be (l : list A) : length (rev_if be l) = length l.
Proof. destruct be; [apply rev_length|reflexivity]. Qed.
Global Hint Rewrite @rev_if_length : len.

(* the joins of `if big_endian: x.reverse() ...` *)
Lemma run_if_rev1 fresh {A} (be : bool) (x : list A) s :
  run fresh (if be then Ret (rev x) else Ret x) s = Ok (rev_if be x, s).
Proof. destruct be; reflexivity. Qed.
Lemma run_if_rev2 fresh {A B} (be : bool) (x : list A) (y : list B) s :
  run fresh (if be then Ret (rev x, rev y) else Ret (x, y)) s = Ok ((rev_if be x, rev_if be y), s).
Proof. destruct be; reflexivity. Qed.

Lemma Z_ltb_nat a b : (Z.of_nat a <? Z.of_nat b) = (a <? b)%nat.
Proof.
  destruct (Nat.ltb_spec a b); [apply Z.ltb_lt|apply Z.ltb_ge]; lia.
Qed.

Lemma py_nth_pred_nat {A} (l : list A) i : (1 <= i)%nat -> py_nth l (Z.of_nat i - 1) = nthP l (i - 1).
Proof. intros H. replace (Z.of_nat i - 1) with (Z.of_nat (i - 1)) by lia. apply py_nth_nat. Qed.

Lemma lastP_app1 {A} (l : list A) x : lastP (l ++ [x]) = Ret x.
Proof. unfold lastP. rewrite rev_app_distr. reflexivity. Qed.

Lemma py_nth_0_ok_label (l : list label) : (0 < length l)%nat -> py_nth l 0 = Ret (nth 0 l ""%string).
Proof. exact (py_nth_ok_label l 0). Qed.
Lemma py_set_0_ok {A} (l : list A) x : (0 < length l)%nat -> py_set l 0 x = Ret (upd l 0 x).
Proof. exact (py_set_nat l 0 x). Qed.

Ltac prim_nth p :=
  lazymatch p with
  | py_nth ?l 0 => rewrite (py_nth_0_ok_label l) by lens
  | py_set ?l 0 ?x => rewrite (py_set_0_ok l x) by lens
  | py_nth ?l (Z.of_nat ?i - 1) => rewrite (py_nth_pred_label l i) by lens
  | py_nth ?l (Z.of_nat ?i) =>
      first [ rewrite (py_nth_ok_label l i) by lens | rewrite (py_nth_err l i) by lens ]
  | py_set ?l (Z.of_nat ?i) ?x =>
      first [ rewrite (py_set_nat l i x) by lens | rewrite (py_set_err l i x) by lens ]
  end.
Ltac step :=
  rs;
  match goal with
  | |- context [match run ?f ?p ?s with _ => _ end] =>
      lazymatch p with
      | Bind _ _ => fail
      | Ret _ => fail
      | Fail _ => fail
      | py_nth _ _ => first [compute_prim p | prim_nth p | destruct (run f p s) as [[? ?]|?]]; rs; try reflexivity
      | py_set _ _ _ => first [compute_prim p | prim_nth p | destruct (run f p s) as [[? ?]|?]]; rs; try reflexivity
      | py_unpack2 _ => first [compute_prim p | destruct (run f p s) as [[? ?]|?]]; rs; try reflexivity
      | nthP _ _ => first [compute_prim p | destruct (run f p s) as [[? ?]|?]]; rs; try reflexivity
      | _ => destruct (run f p s) as [[? ?]|?]; rs; try reflexivity
      end
  end.
Ltac steps := rs; try reflexivity; repeat step.

(* ---- more index forms ------------------------------------------------------------------------------- *)
Lemma py_range_down_to0 h : py_range_down (Z.of_nat h - 1) 0 = map Z.of_nat (rev (seq 1 (h - 1))).
Proof. exact (py_range_down_nat h 1). Qed.

Lemma py_range_down_m2 h : py_range_down (Z.of_nat h - 2) 0 = map Z.of_nat (rev (seq 1 (h - 2))).
Proof.
  destruct h as [|[|k]]; [reflexivity|reflexivity|].
  replace (Z.of_nat (S (S k)) - 2) with (Z.of_nat (S k) - 1) by lia.
  rewrite py_range_down_to0. replace (S k - 1)%nat with (S (S k) - 2)%nat by lia. reflexivity.
Qed.

Lemma py_range_down_to_m1 h : py_range_down (Z.of_nat h - 1) (-1) = map Z.of_nat (rev (seq 0 h)).
Proof. rewrite <- (Nat.sub_0_r h) at 2. exact (py_range_down_nat h 0). Qed.

Lemma py_nth_len_m1 {A} (l : list A) : py_nth l (Z.of_nat (length l) - 1) = lastP l.
Proof.
  destruct l as [|y l _] using rev_ind; [reflexivity|].
  rewrite app_length. cbn [length].
  replace (Z.of_nat (length l + 1) - 1) with (Z.of_nat (length l)) by lia.
  rewrite py_nth_nat. unfold nthP, nth_res, lastP.
  rewrite nth_error_app2, Nat.sub_diag, rev_app_distr by lia. reflexivity.
Qed.
