(* Generated/ArithGen08.v (translator T19) equals the hand model, part C: last_step_sum_with_new_powers_sum and the
   two Karatsuba multipliers of multiplication.py. *)
Require Import Cirbo.Model.Base Cirbo.Model.Gate Cirbo.Model.Circuit Cirbo.Model.Builder Cirbo.Model.PyPrims.
Require Import Cirbo.Model.ArithSub Cirbo.Model.ArithSum2 Cirbo.Model.ArithSumN Cirbo.Model.ArithSumW.
Require Import Cirbo.Model.PyPrims08 Cirbo.Model.ArithMul.
Require Import Cirbo.Generated.ArithTables Cirbo.Generated.ArithCells Cirbo.Generated.ArithGen08.
Require Import Cirbo.Proofs.ArithGen09Lib Cirbo.Proofs.ArithGen08Lib Cirbo.Proofs.ArithGen08A Cirbo.Proofs.ArithGen08B.
Require Cirbo.Proofs.ArithSum2Facts.
From Coq Require Import ZArith Lia Ascii.
Open Scope Z_scope.

(* ---- comprehensions whose element only reads ---------------------------------------------------------------- *)
Lemma mapP_pure {A B} (f : A -> prog B) (h : A -> B) : forall l,
  (forall x, In x l -> peq (f x) (Ret (h x))) -> peq (mapP f l) (Ret (map h l)).
Proof.
  intros l H. eapply peq_trans; [apply mapP_ext_in; exact H|apply mapP_ret].
Qed.

Lemma mapP_pure_fail {A B} (f : A -> prog B) (h : A -> B) e : forall l1 x l2,
  (forall y, In y l1 -> peq (f y) (Ret (h y))) -> peq (f x) (Fail e) -> peq (mapP f (l1 ++ x :: l2)) (Fail e).
Proof.
  induction l1 as [|y l1 IH]; intros x l2 H1 Hx fresh s; cbn [app mapP]; rs.
  - rewrite Hx. reflexivity.
  - rewrite (H1 y (or_introl eq_refl)). rs. rewrite IH; [reflexivity| |exact Hx].
    intros z Hz. apply H1. right; exact Hz.
Qed.

Lemma nth_firstn_lt {A} (l : list A) : forall m j d, (j < m)%nat -> nth j (firstn m l) d = nth j l d.
Proof.
  induction l as [|x l IH]; intros [|m] [|j] d H; cbn [firstn nth]; try reflexivity; try lia. apply IH. lia.
Qed.

(* [(i + j, row[j]) for j in range(len(row))] *)
Lemma zrow_weights_seq (row : list label) : forall lev,
  map (fun j => (lev + Z.of_nat j, nth j row ""%string)) (seq 0 (length row)) = zrow_weights lev row.
Proof.
  induction row as [|x row IH]; intros lev; cbn [length seq map zrow_weights nth]; [reflexivity|].
  rewrite Z.add_0_r. f_equal. rewrite <- seq_shift, map_map. rewrite <- (IH (lev + 1)).
  apply map_ext. intros j. cbn [nth]. f_equal. lia.
Qed.

Lemma zmatrix_weights_seq (c : list (list label)) : forall lev,
  concat (map (fun i => zrow_weights (lev + Z.of_nat i) (nth i c [])) (seq 0 (length c))) = zmatrix_weights lev c.
Proof.
  induction c as [|row c IH]; intros lev; cbn [length seq map concat zmatrix_weights nth]; [reflexivity|].
  rewrite Z.add_0_r. f_equal. rewrite <- seq_shift, map_map. rewrite <- (IH (lev + 1)).
  f_equal. apply map_ext. intros i. cbn [nth]. f_equal. lia.
Qed.

(* ---- last_step_sum_with_new_powers_sum ------------------------------------------------------------------------- *)
(* The hand model says IndexError whenever the widths differ (the comprehension indexes the m x n matrix as n x m).
   With ONE empty operand and the other of two or more bits the comprehension is empty instead and Python raises
   ValueError (max of an empty list inside add_sum_n_weighted_bits): outside the side condition below. *)
Theorem gen_last_step_eq a0 b0 be :
  (length a0 = 0%nat -> (length b0 <= 1)%nat) -> (length b0 = 0%nat -> (length a0 <= 1)%nat) ->
  peq (gen_last_step_sum_with_new_powers_sum a0 b0 be) (last_step_sum_with_new_powers_sum a0 b0 be).
Proof.
  intros P1 P2.
  unfold gen_last_step_sum_with_new_powers_sum, last_step_sum_with_new_powers_sum. intros fresh s. cbv zeta.
  rewrite run_bind, run_if_rev2. cbv beta iota.
  set (a := rev_if be a0). set (b := rev_if be b0).
  unfold py_len.
  replace (length a0) with (length a) in * by apply rev_if_length.
  replace (length b0) with (length b) in * by apply rev_if_length.
  clearbody a b.
  rewrite run_bind.
  rewrite pp_nest_eq by (pp_body; reflexivity).
  rs. destruct (run fresh (pp_matrix a b) s) as [[c s1]|e] eqn:E; rs; [|reflexivity].
  apply pp_matrix_returns in E. set (n := length a) in *. set (m := length b) in *.
  assert (Hcm : length c = m) by apply E.
  assert (Hrow : forall i, (i < m)%nat -> length (nth i c []) = n) by (intros i Hi; apply (is_matrix_row m n c i E Hi)).
  rewrite !Z_of_nat_eqb_1.
  destruct (Nat.eqb_spec n 1) as [Hn1|Hn1].
  { rs. rewrite <- Hcm.
    rewrite (mapP_index c _ (fun row => nthP row 0) []).
    - destruct (run fresh (mapP (fun row => nthP row 0) c) s1) as [[r s2]|e]; rs; [|reflexivity].
      rewrite gen_reverse_if_big_endian_run. reflexivity.
    - intros i Hi fr st. rs. rewrite (py_nth_ok c i []) by exact Hi. rs. rewrite py_nth_0.
      destruct (run fr (nthP (nth i c []) 0) st) as [[x s2]|e]; reflexivity. }
  destruct (Nat.eqb_spec m 1) as [Hm1|Hm1].
  { rs. rewrite py_nth_0. destruct (run fresh (nthP c 0) s1) as [[c0 s2]|e]; rs; [|reflexivity].
    rewrite gen_reverse_if_big_endian_run. reflexivity. }
  rs. rewrite !py_range_0_nat.
  destruct (Nat.eqb_spec n m) as [Hnm|Hnm]; cbn [negb]; rs.
  - (* equal widths: the comprehension lists the weights row by row *)
    rewrite (mapP_map Z.of_nat).
    rewrite (mapP_pure _ (fun i => zrow_weights (Z.of_nat i) (nth i c []))).
    2:{ intros i Hi. apply in_seq in Hi. rewrite (mapP_map Z.of_nat).
        eapply peq_trans.
        - apply (mapP_pure _ (fun j => (Z.of_nat i + Z.of_nat j, nth j (nth i c []) ""%string))).
          intros j Hj fr st. apply in_seq in Hj. rs.
          rewrite (py_nth_ok c i []) by lia. rs.
          rewrite (py_nth_ok_label _ j) by (rewrite Hrow; lia). rs. reflexivity.
        - rewrite <- Hnm. rewrite <- (Hrow i) by lia. rewrite zrow_weights_seq. apply peq_refl. }
    rs. rewrite Hnm, <- Hcm.
    replace (concat (map (fun i => zrow_weights (Z.of_nat i) (nth i c [])) (seq 0 (length c))))
      with (zmatrix_weights 0 c) by (rewrite <- zmatrix_weights_seq; reflexivity).
    unfold py_add_sum_n_weighted_bits. rs.
    change (zmatrix_weights 0 c) with (zmatrix_weights (Z.of_N 0) c).
    rewrite (zmatrix_weights_witems fresh s1 c 0). rs.
    destruct (run fresh (add_sum_n_weighted_bits (BEnum XAIG) (matrix_weights 0 c)) s1) as [[res s2]|e]; rs; [|reflexivity].
    rewrite <- Nat2Z.inj_add, py_range_0_nat, (mapP_map Z.of_nat).
    rewrite (mapP_ext_in _ (fun i => bdo it <- nthP res i; Ret (snd it))).
    + rewrite Hcm, <- Hnm.
      destruct (run fresh (mapP (fun i => bdo it <- nthP res i; Ret (snd it)) (seq 0 (n + n))) s2) as [[r s3]|e]; rs; [|reflexivity].
      rewrite gen_reverse_if_big_endian_run. reflexivity.
    + intros i _ fr st. rs. rewrite py_nth_nat. destruct (run fr (nthP res i) st) as [[it s3]|e]; reflexivity.
  - (* different widths (both non-empty by the side condition): IndexError *)
    assert (Hn : (2 <= n)%nat) by lia. assert (Hm : (2 <= m)%nat) by lia.
    rewrite (mapP_map Z.of_nat).
    destruct (Nat.lt_ge_cases n m) as [Hlt|Hge].
    + (* row 0 is indexed beyond its n elements *)
      replace n with (S (n - 1)) at 1 by lia. cbn [seq].
      change (0%nat :: seq 1 (n - 1)) with ([] ++ 0%nat :: seq 1 (n - 1)).
      rewrite (mapP_pure_fail _ (fun _ => []) PyIndexError [] 0%nat); [reflexivity|intros y []|].
      rewrite (mapP_map Z.of_nat).
      replace (seq 0 m) with (seq 0 n ++ n :: seq (S n) (m - n - 1)).
      2:{ change (n :: seq (S n) (m - n - 1)) with (seq n (S (m - n - 1))). rewrite <- seq_app. f_equal. lia. }
      apply (mapP_pure_fail _ (fun j => (Z.of_nat 0 + Z.of_nat j, nth j (nth 0 c []) ""%string))).
      * intros j Hj fr st. apply in_seq in Hj. rs. rewrite (py_nth_ok c 0 []) by lia. rs.
        rewrite (py_nth_ok_label _ j) by (rewrite Hrow; lia). rs. reflexivity.
      * intros fr st. rs. rewrite (py_nth_ok c 0 []) by lia. rs.
        rewrite (py_nth_err _ n) by (rewrite Hrow; lia). reflexivity.
    + (* there is no row m *)
      replace (seq 0 n) with (seq 0 m ++ m :: seq (S m) (n - m - 1)).
      2:{ change (m :: seq (S m) (n - m - 1)) with (seq m (S (n - m - 1))). rewrite <- seq_app. f_equal. lia. }
      rewrite (mapP_pure_fail _ (fun i => zrow_weights (Z.of_nat i) (firstn m (nth i c []))) PyIndexError); [reflexivity| |].
      * intros i Hi. apply in_seq in Hi. rewrite (mapP_map Z.of_nat).
        eapply peq_trans.
        -- apply (mapP_pure _ (fun j => (Z.of_nat i + Z.of_nat j, nth j (firstn m (nth i c [])) ""%string))).
           intros j Hj fr st. apply in_seq in Hj. rs.
           rewrite (py_nth_ok c i []) by lia. rs.
           rewrite (py_nth_ok_label _ j) by (rewrite Hrow; lia). rs.
           rewrite nth_firstn_lt by lia. reflexivity.
        -- replace m with (length (firstn m (nth i c []))) at 1
             by (rewrite firstn_length, Hrow by lia; lia).
           rewrite zrow_weights_seq. apply peq_refl.
      * rewrite (mapP_map Z.of_nat). replace m with (S (m - 1)) at 1 by lia. cbn [seq].
        change (0%nat :: seq 1 (m - 1)) with ([] ++ 0%nat :: seq 1 (m - 1)).
        apply (mapP_pure_fail _ (fun _ => (0, ""%string)) PyIndexError [] 0%nat); [intros y []|].
        intros fr st. rs. rewrite (py_nth_err c m) by lia. reflexivity.
Qed.

(* ---- Karatsuba ----------------------------------------------------------------------------------------------------- *)
Lemma kara_small_Z n : ((Z.of_nat n <? 20) && negb (Z.of_nat n =? 18)) = kara_small n.
Proof.
  unfold kara_small. change 20 with (Z.of_nat 20). change 18 with (Z.of_nat 18). rewrite Z_ltb_nat.
  f_equal. f_equal. destruct (Nat.eqb_spec n 18) as [->|H]; [reflexivity|]. apply Z.eqb_neq. lia.
Qed.

Lemma kara_pad_length a : forall k, returns (kara_pad k a) (fun zs => length zs = k).
Proof.
  induction k as [|k IH]; intros fresh s r s'; cbn [kara_pad]; rs.
  - intros H; inversion H; reflexivity.
  - destruct (run fresh (nthP a 0) s) as [[a0 s0]|e]; rs; [|discriminate].
    destruct (run fresh (gate_tt tt_xor a0 a0) s0) as [[z s1]|e]; rs; [|discriminate].
    destruct (run fresh (kara_pad k a) s1) as [[zs s2]|e] eqn:E; rs; [|discriminate].
    intros H; inversion H; subst. cbn [length]. f_equal. eapply IH; exact E.
Qed.

(* while n != len(b): b.append(add_gate_from_tt(a[0], a[0], '0110')) *)
Lemma kara_while_eq (W : list label -> prog (list label)) (a : list label) (n : nat) :
  (forall b, peq (W b) (bdo a0 <- nthP a 0; bdo z <- gate_tt tt_xor a0 a0; Ret (b ++ [z]))) ->
  forall k b, (length b + k = n)%nat ->
  peq (py_while k (fun b => negb (Z.of_nat n =? py_len b)) W b) (bdo zs <- kara_pad k a; Ret (b ++ zs)).
Proof.
  intros HW. induction k as [|k IH]; intros b Hk fresh s; cbn [py_while kara_pad]; unfold py_len.
  - replace (length b) with n by lia. rewrite Z.eqb_refl. cbn [negb]. rs. rewrite app_nil_r. reflexivity.
  - destruct (Z.eqb_spec (Z.of_nat n) (Z.of_nat (length b))); [lia|]. cbn [negb]. rs. rewrite HW. rs.
    destruct (run fresh (nthP a 0) s) as [[a0 s0]|e]; rs; [|reflexivity].
    destruct (run fresh (gate_tt tt_xor a0 a0) s0) as [[z s1]|e]; rs; [|reflexivity].
    rewrite IH by (rewrite app_length; cbn [length]; lia). rs.
    destruct (run fresh (kara_pad k a) s1) as [[zs s2]|e]; rs; [|reflexivity].
    rewrite <- app_assoc. reflexivity.
Qed.

Lemma add_sum_two_numbers_length xs ys be :
  returns (add_sum_two_numbers xs ys be) (fun r => length r = S (Nat.max (length xs) (length ys))).
Proof. intros fresh s r s' H. apply Cirbo.Proofs.ArithSum2Facts.add_sum_two_numbers_correct in H. apply H. Qed.

Ltac kstep base_rw IH :=
  rs; rewrite ?kara_small_Z, ?py_slice_to, ?py_slice_from;
  match goal with
  | |- context [run ?f (gen_reverse_if_big_endian ?l ?be) ?s] => rewrite (gen_reverse_if_big_endian_run f l be s)
  | |- context [run ?f (py_add_sum_two_numbers_with_shift (Z.of_nat ?k) ?x ?y ?be) ?s] =>
      rewrite (py_shift_nat f k x y be s)
  | |- context [match run ?f ?p ?s with _ => _ end] =>
      lazymatch p with
      | Bind _ _ => fail
      | Ret _ => fail
      | Fail _ => fail
      | (if _ then _ else _) => fail
      | add_sum_two_numbers _ _ _ =>
          let E := fresh "E" in
          destruct (run f p s) as [[? ?]|?] eqn:E; [apply add_sum_two_numbers_length in E|]
      | kara_pad _ _ =>
          let E := fresh "E" in
          destruct (run f p s) as [[? ?]|?] eqn:E; [apply kara_pad_length in E|]
      | _ => first [ base_rw | rewrite IH | destruct (run f p s) as [[? ?]|?] ]
      end
  | |- context [if ?c then _ else _] => destruct c
  end.

Ltac kara_core base_rw IH a b :=
  (* the padding loop *)
  replace (Z.abs_nat (Z.of_nat (length a) - Z.of_nat (length b))) with (length a - length b)%nat by lia;
  rewrite (kara_while_eq _ a (length a));
  [ | let fr := fresh "fr" in let st := fresh "st" in let b1 := fresh "b1" in
      intros b1 fr st; rs; rewrite !py_nth_0; change (TT false true true false) with tt_xor;
      destruct a; [reflexivity|]; cbn [nthP nth_res nth_error ret_res]; crunch
    | lia ];
  replace (Z.of_nat (length a) / 2) with (Z.of_nat (length a / 2)) by (rewrite (Nat2Z.inj_div (length a) 2); reflexivity);
  replace (Z.of_nat (length a) - Z.of_nat (length a / 2)) with (Z.of_nat (length a - length a / 2))
    by (pose proof (Nat.div_le_upper_bound (length a) 2 (length a)); lia);
  replace (2 * Z.of_nat (length a / 2)) with (Z.of_nat (2 * (length a / 2))) by lia;
  rewrite ?kara_small_Z, ?py_slice_from, ?py_slice_to;
  repeat kstep base_rw IH; rs; try reflexivity.

Theorem gen_kara_pow2_eq : forall fuel a0 b0 be,
  peq (gen_add_mul_karatsuba_rec fuel a0 b0 be) (kara (fun x y => add_mul_pow2_m1 x y false) fuel a0 b0 be).
Proof.
  induction fuel as [|f IH]; intros a0 b0 be fresh s; [reflexivity|].
  cbn [gen_add_mul_karatsuba_rec kara]. cbv zeta.
  rewrite run_bind, run_if_rev2. cbv beta iota.
  set (a := rev_if be a0). set (b := rev_if be b0). clearbody a b. unfold py_len.
  rs. rewrite !Z_of_nat_eqb_1, Z_ltb_nat.
  set (os := (length a + length b - (if ((length a =? 1)%nat || (length b =? 1)%nat) then 1 else 0))%nat).
  assert (Eos : (if ((length a =? 1)%nat || (length b =? 1)%nat)
                 then Ret (Z.of_nat (length a) + Z.of_nat (length b) - 1)
                 else Ret (Z.of_nat (length a) + Z.of_nat (length b))) = Ret (Z.of_nat os)).
  { unfold os. destruct (Nat.eqb_spec (length a) 1), (Nat.eqb_spec (length b) 1); cbn [orb]; f_equal; lia. }
  rewrite Eos. clear Eos. clearbody os. rs.
  destruct (Nat.ltb_spec (length a) (length b)) as [Hlt|Hge]; rs.
  - assert (Hab : (length a <= length b)%nat) by lia. clear Hlt.
    kara_core ltac:(rewrite gen_add_mul_pow2_m1_eq) IH b a.
  - assert (Hab : (length b <= length a)%nat) by lia. clear Hge.
    kara_core ltac:(rewrite gen_add_mul_pow2_m1_eq) IH a b.
Qed.

Theorem gen_kara_eff_eq : forall fuel a0 b0 be,
  peq (gen_add_mul_karatsuba_with_efficient_sum_rec fuel a0 b0 be)
      (kara (fun x y => last_step_sum_with_new_powers_sum x y false) fuel a0 b0 be).
Proof.
  induction fuel as [|f IH]; intros a0 b0 be fresh s; [reflexivity|].
  cbn [gen_add_mul_karatsuba_with_efficient_sum_rec kara]. cbv zeta.
  rewrite run_bind, run_if_rev2. cbv beta iota.
  set (a := rev_if be a0). set (b := rev_if be b0). clearbody a b. unfold py_len.
  rs. rewrite !Z_of_nat_eqb_1, Z_ltb_nat.
  set (os := (length a + length b - (if ((length a =? 1)%nat || (length b =? 1)%nat) then 1 else 0))%nat).
  assert (Eos : (if ((length a =? 1)%nat || (length b =? 1)%nat)
                 then Ret (Z.of_nat (length a) + Z.of_nat (length b) - 1)
                 else Ret (Z.of_nat (length a) + Z.of_nat (length b))) = Ret (Z.of_nat os)).
  { unfold os. destruct (Nat.eqb_spec (length a) 1), (Nat.eqb_spec (length b) 1); cbn [orb]; f_equal; lia. }
  rewrite Eos. clear Eos. clearbody os. rs.
  destruct (Nat.ltb_spec (length a) (length b)) as [Hlt|Hge]; rs.
  - assert (Hab : (length a <= length b)%nat) by lia. clear Hlt.
    kara_core ltac:(rewrite gen_last_step_eq by (intros; autorewrite with len in *; lia)) IH b a.
  - assert (Hab : (length b <= length a)%nat) by lia. clear Hge.
    kara_core ltac:(rewrite gen_last_step_eq by (intros; autorewrite with len in *; lia)) IH a b.
Qed.

Theorem gen_add_mul_karatsuba_eq a b be : peq (gen_add_mul_karatsuba a b be) (add_mul_karatsuba a b be).
Proof.
  unfold gen_add_mul_karatsuba, add_mul_karatsuba, kara_fuel, py_len.
  replace (Z.to_nat (Z.max (Z.of_nat (length a)) (Z.of_nat (length b)) + 1)) with (S (Nat.max (length a) (length b))) by lia.
  apply gen_kara_pow2_eq.
Qed.

Theorem gen_add_mul_karatsuba_with_efficient_sum_eq a b be :
  peq (gen_add_mul_karatsuba_with_efficient_sum a b be) (add_mul_karatsuba_with_efficient_sum a b be).
Proof.
  unfold gen_add_mul_karatsuba_with_efficient_sum, add_mul_karatsuba_with_efficient_sum, kara_fuel, py_len.
  replace (Z.to_nat (Z.max (Z.of_nat (length a)) (Z.of_nat (length b)) + 1)) with (S (Nat.max (length a) (length b))) by lia.
  apply gen_kara_eff_eq.
Qed.
