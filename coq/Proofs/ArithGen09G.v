(* Generated/ArithGen09.v (translator T14) equals the hand model, part G: the generate_* wrappers
   (Model/ArithGen.v).  The input labels the hand model takes as a parameter are the ones the source builds:
   str(0) .. str(n-1) for Circuit.bare_circuit(n), <prefix>_<i> for generation.py. *)
Require Import Cirbo.Model.Base Cirbo.Model.Gate Cirbo.Model.Circuit Cirbo.Model.Builder Cirbo.Model.PyPrims.
Require Import Cirbo.Generated.ArithTables Cirbo.Generated.ArithCells Cirbo.Generated.ArithGen09.
Require Import Cirbo.Model.ArithSub Cirbo.Model.ArithSum2 Cirbo.Model.ArithDiv Cirbo.Model.ArithSqrt
  Cirbo.Model.ArithMisc Cirbo.Model.ArithGen.
Require Import Cirbo.Proofs.ArithGenFacts.
Require Import Cirbo.Proofs.ArithGen09Lib Cirbo.Proofs.ArithGen09A Cirbo.Proofs.ArithGen09B
  Cirbo.Proofs.ArithGen09C Cirbo.Proofs.ArithGen09D Cirbo.Proofs.ArithGen09E Cirbo.Proofs.ArithGen09F.
From Coq Require Import ZArith Lia Ascii.
Open Scope Z_scope.

Lemma py_slice_to_Z {A} (l : list A) z : 0 <= z -> py_slice l None (Some z) = firstn (Z.to_nat z) l.
Proof. intros H. rewrite <- (Z2Nat.id z H) at 1. apply py_slice_to. Qed.

Lemma py_slice_from_Z {A} (l : list A) z : 0 <= z -> py_slice l (Some z) None = skipn (Z.to_nat z) l.
Proof. intros H. rewrite <- (Z2Nat.id z H) at 1. apply py_slice_from. Qed.

Lemma run_peq fresh {A} (p q : prog A) s : peq p q -> run fresh p s = run fresh q s.
Proof. intros H. apply H. Qed.

Theorem gen_generate_sub_two_numbers_eq fresh k0 sa sb be : 0 <= sa ->
  gen_generate_sub_two_numbers fresh k0 sa sb be
  = generate_sub_two_numbers fresh k0 (py_bare_labels (sa + sb)) (Z.to_nat sa) be.
Proof.
  intros Ha. unfold gen_generate_sub_two_numbers, generate_sub_two_numbers, gen_set_outputs, py_bare_circuit.
  destruct (circuit_with_inputs (py_bare_labels (sa + sb))) as [c|e] eqn:Ec; cbn [bind]; [|reflexivity].
  apply circuit_with_inputs_spec in Ec. destruct Ec as [Ei _]. rewrite Ei.
  rewrite py_slice_to_Z, py_slice_from_Z by exact Ha.
  rewrite (run_peq fresh _ _ _ (gen_add_sub_two_numbers_eq _ _ _)).
  destruct (run fresh _ _) as [[r st]|e]; rs; cbn [bind fst snd]; try reflexivity;
    destruct (set_outputs _ _); reflexivity.
Qed.

Theorem gen_generate_div_mod_eq fresh k0 n be :
  gen_generate_div_mod fresh k0 n be = generate_div_mod fresh k0 (py_bare_labels (2 * n)) (Z.to_nat n) be.
Proof.
  unfold gen_generate_div_mod, generate_div_mod, gen_set_outputs, py_bare_circuit.
  destruct (circuit_with_inputs (py_bare_labels (2 * n))) as [c|e] eqn:Ec; cbn [bind]; [|reflexivity].
  apply circuit_with_inputs_spec in Ec. destruct Ec as [Ei _]. rewrite Ei.
  assert (Es : py_slice (py_bare_labels (2 * n)) None (Some n) = firstn (Z.to_nat n) (py_bare_labels (2 * n)) /\
               py_slice (py_bare_labels (2 * n)) (Some n) None = skipn (Z.to_nat n) (py_bare_labels (2 * n))).
  { destruct (Z.le_gt_cases 0 n) as [H|H].
    - rewrite py_slice_to_Z, py_slice_from_Z by exact H. split; reflexivity.
    - unfold py_bare_labels. rewrite py_range_neg by lia. cbn [map]. unfold py_slice.
      rewrite !skipn_nil, !firstn_nil. split; reflexivity. }
  destruct Es as [-> ->].
  rewrite (run_peq fresh _ _ _ (gen_add_div_mod_eq _ _ _)). rs.
  destruct (run fresh _ _) as [[[q r] st]|e]; rs; cbn [bind fst snd]; try reflexivity;
    destruct (set_outputs _ _); reflexivity.
Qed.

Theorem gen_generate_sqrt_eq fresh k0 n be :
  gen_generate_sqrt fresh k0 n be = generate_sqrt fresh k0 (py_bare_labels n) be.
Proof.
  unfold gen_generate_sqrt, generate_sqrt, gen_set_outputs, py_bare_circuit.
  destruct (circuit_with_inputs (py_bare_labels n)) as [c|e] eqn:Ec; cbn [bind]; [|reflexivity].
  apply circuit_with_inputs_spec in Ec. destruct Ec as [Ei _]. rewrite Ei.
  rewrite (run_peq fresh _ _ _ (gen_add_sqrt_eq _ _)).
  destruct (run fresh _ _) as [[r st]|e]; rs; cbn [bind fst snd]; try reflexivity;
    destruct (set_outputs _ _); reflexivity.
Qed.

Theorem gen_generate_equal_eq fresh k0 n num :
  gen_generate_equal fresh k0 n num = generate_equal fresh k0 (py_bare_labels n) num.
Proof.
  unfold gen_generate_equal, generate_equal, gen_set_outputs, py_bare_circuit.
  destruct (circuit_with_inputs (py_bare_labels n)) as [c|e] eqn:Ec; cbn [bind]; [|reflexivity].
  apply circuit_with_inputs_spec in Ec. destruct Ec as [Ei _]. rewrite Ei.
  rewrite (run_peq fresh _ _ _ (gen_add_equal_eq _ _)). rs.
  destruct (run fresh _ _) as [[r st]|e]; rs; cbn [bind fst snd]; try reflexivity;
    destruct (set_outputs _ _); reflexivity.
Qed.

Theorem gen_generate_plus_one_eq fresh k0 il ol be :
  gen_generate_plus_one fresh k0 il ol be
  = generate_plus_one fresh k0 (rev_if be (gen__generate_labels "x" il)) (rev_if be (gen__generate_labels "z" ol)) be.
Proof.
  unfold gen_generate_plus_one, generate_plus_one, gen_marked, circuit_with_inputs.
  assert (E : (if be then (rev (gen__generate_labels "x" il), rev (gen__generate_labels "z" ol))
               else (gen__generate_labels "x" il, gen__generate_labels "z" ol))
              = (rev_if be (gen__generate_labels "x" il), rev_if be (gen__generate_labels "z" ol)))
    by (destruct be; reflexivity).
  cbv zeta. rewrite E.
  destruct (add_inputs empty_circuit _) as [c|e]; cbn [bind]; [|reflexivity].
  rewrite (run_peq fresh _ _ _ (gen_add_plus_one_eq _ _ _ _)).
  destruct (run fresh _ _) as [[r st]|e]; rs; cbn [bind fst snd]; try reflexivity;
    destruct (set_outputs _ _); reflexivity.
Qed.

Theorem gen_generate_if_then_else_eq fresh k0 :
  gen_generate_if_then_else fresh k0 = generate_if_then_else fresh k0 "if" "then" "else" "if_then_else".
Proof.
  unfold gen_generate_if_then_else, generate_if_then_else, gen_marked, circuit_with_inputs. cbv zeta.
  destruct (add_inputs empty_circuit _) as [c|e]; cbn [bind]; [|reflexivity].
  rewrite (run_peq fresh _ _ _ (gen_add_if_then_else_eq _ _ _ _ _)).
  destruct (run fresh _ _) as [[r st]|e]; rs; cbn [bind fst snd]; try reflexivity;
    destruct (set_outputs _ _); reflexivity.
Qed.

Lemma add_inputs_app l1 : forall c l2,
  add_inputs c (l1 ++ l2) = (do c' <- add_inputs c l1; add_inputs c' l2).
Proof.
  induction l1 as [|x l1 IH]; intros c l2; cbn [app add_inputs bind]; [reflexivity|].
  destruct (check_label_doesnt_exist x c); cbn [bind]; [|reflexivity].
  destruct (emplace_gate c x INPUT []); cbn [bind]; [apply IH|reflexivity].
Qed.

Theorem gen_generate_pairwise_if_then_else_eq fresh k0 n :
  gen_generate_pairwise_if_then_else fresh k0 n
  = generate_pairwise_if_then_else fresh k0 (gen__generate_labels "if" n) (gen__generate_labels "then" n)
      (gen__generate_labels "else" n) (gen__generate_labels "if_then_else" n).
Proof.
  unfold gen_generate_pairwise_if_then_else, generate_pairwise_if_then_else, gen_marked, circuit_with_inputs.
  cbv zeta. rewrite add_inputs_app.
  destruct (add_inputs empty_circuit _) as [c1|e]; cbn [bind]; [|reflexivity].
  rewrite add_inputs_app.
  destruct (add_inputs c1 _) as [c2|e]; cbn [bind]; [|reflexivity].
  destruct (add_inputs c2 _) as [c3|e]; cbn [bind]; [|reflexivity].
  rewrite (run_peq fresh _ _ _ (gen_add_pairwise_if_then_else_eq _ _ _ _ _)).
  destruct (run fresh _ _) as [[r st]|e]; rs; cbn [bind fst snd]; try reflexivity;
    destruct (set_outputs _ _); reflexivity.
Qed.

Theorem gen_generate_pairwise_xor_eq fresh k0 n :
  gen_generate_pairwise_xor fresh k0 n
  = generate_pairwise_xor fresh k0 (gen__generate_labels "x" n) (gen__generate_labels "y" n)
      (gen__generate_labels "xor" n).
Proof.
  unfold gen_generate_pairwise_xor, generate_pairwise_xor, gen_marked, circuit_with_inputs.
  cbv zeta. rewrite !add_inputs_app.
  destruct (add_inputs empty_circuit _) as [c1|e]; cbn [bind]; [|reflexivity].
  destruct (add_inputs c1 _) as [c2|e]; cbn [bind]; [|reflexivity].
  rewrite (run_peq fresh _ _ _ (gen_add_pairwise_xor_eq _ _ _ _)).
  destruct (run fresh _ _) as [[r st]|e]; rs; cbn [bind fst snd]; try reflexivity;
    destruct (set_outputs _ _); reflexivity.
Qed.

(* ---- everything together (Properties/C09.v: C09_generators_regenerated) --------------------------------- *)
Theorem generators_regenerated :
  (forall a b be fresh s,
     run fresh (gen_add_sub_two_numbers a b be) s = run fresh (add_sub_two_numbers a b be) s) /\
  (forall a b be fresh s,
     run fresh (gen_add_subtract_with_compare a b be) s = run fresh (add_subtract_with_compare a b be) s) /\
  (forall a b be fresh s,
     run fresh (gen_add_div_mod a b be) s = run fresh (add_div_mod a b be) s) /\
  (forall x be fresh s,
     run fresh (gen_add_sqrt x be) s = run fresh (add_sqrt x be) s) /\
  (forall x num fresh s,
     run fresh (gen_add_equal x num) s = run fresh (add_equal x num) s) /\
  (forall x res ao be fresh s,
     run fresh (gen_add_plus_one x res ao be) s = run fresh (add_plus_one x res ao be) s) /\
  (forall i t e res ao fresh s,
     run fresh (gen_add_if_then_else i t e res ao) s = run fresh (add_if_then_else i t e res ao) s) /\
  (forall is_ ts es res ao fresh s,
     run fresh (gen_add_pairwise_if_then_else is_ ts es res ao) s
     = run fresh (add_pairwise_if_then_else is_ ts es res ao) s) /\
  (forall xs ys res ao fresh s,
     run fresh (gen_add_pairwise_xor xs ys res ao) s = run fresh (add_pairwise_xor xs ys res ao) s) /\
  (* the generate_* wrappers, on the input labels the source builds *)
  (forall fresh k0 sa sb be, 0 <= sa ->
     gen_generate_sub_two_numbers fresh k0 sa sb be
     = generate_sub_two_numbers fresh k0 (py_bare_labels (sa + sb)) (Z.to_nat sa) be) /\
  (forall fresh k0 n be,
     gen_generate_div_mod fresh k0 n be = generate_div_mod fresh k0 (py_bare_labels (2 * n)) (Z.to_nat n) be) /\
  (forall fresh k0 n be,
     gen_generate_sqrt fresh k0 n be = generate_sqrt fresh k0 (py_bare_labels n) be) /\
  (forall fresh k0 n num,
     gen_generate_equal fresh k0 n num = generate_equal fresh k0 (py_bare_labels n) num) /\
  (forall fresh k0 il ol be,
     gen_generate_plus_one fresh k0 il ol be
     = generate_plus_one fresh k0 (rev_if be (gen__generate_labels "x" il))
         (rev_if be (gen__generate_labels "z" ol)) be) /\
  (forall fresh k0,
     gen_generate_if_then_else fresh k0 = generate_if_then_else fresh k0 "if" "then" "else" "if_then_else") /\
  (forall fresh k0 n,
     gen_generate_pairwise_if_then_else fresh k0 n
     = generate_pairwise_if_then_else fresh k0 (gen__generate_labels "if" n) (gen__generate_labels "then" n)
         (gen__generate_labels "else" n) (gen__generate_labels "if_then_else" n)) /\
  (forall fresh k0 n,
     gen_generate_pairwise_xor fresh k0 n
     = generate_pairwise_xor fresh k0 (gen__generate_labels "x" n) (gen__generate_labels "y" n)
         (gen__generate_labels "xor" n)).
Proof.
  repeat split.
  - intros; apply gen_add_sub_two_numbers_eq.
  - intros; apply gen_add_subtract_with_compare_eq.
  - intros; apply gen_add_div_mod_eq.
  - intros; apply gen_add_sqrt_eq.
  - intros; apply gen_add_equal_eq.
  - intros; apply gen_add_plus_one_eq.
  - intros; apply gen_add_if_then_else_eq.
  - intros; apply gen_add_pairwise_if_then_else_eq.
  - intros; apply gen_add_pairwise_xor_eq.
  - intros; apply gen_generate_sub_two_numbers_eq; assumption.
  - intros; apply gen_generate_div_mod_eq.
  - intros; apply gen_generate_sqrt_eq.
  - intros; apply gen_generate_equal_eq.
  - intros; apply gen_generate_plus_one_eq.
  - intros; apply gen_generate_if_then_else_eq.
  - intros; apply gen_generate_pairwise_if_then_else_eq.
  - intros; apply gen_generate_pairwise_xor_eq.
Qed.

(* the side condition of the first wrapper cannot be dropped: a negative size_of_input_a is a Python slice from the
   end (inputs[:-1] / inputs[-1:]), not the empty / whole list the hand model's nat parameter can express *)
Example generate_sub_negative_size_differs :
  gen_generate_sub_two_numbers short_label 0 (-1) 3 false
  <> generate_sub_two_numbers short_label 0 (py_bare_labels (-1 + 3)) (Z.to_nat (-1)) false.
Proof. vm_compute. discriminate. Qed.
