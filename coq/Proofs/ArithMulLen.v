(* C08, part 8: the number of result bits of add_mul_alter (all widths), and the generate_*
   wrappers. *)
Require Import Cirbo.Model.Base Cirbo.Model.Gate Cirbo.Model.Den Cirbo.Model.Circuit
  Cirbo.Model.Eval Cirbo.Model.Sem Cirbo.Model.Builder.
Require Import Cirbo.Generated.ArithTables Cirbo.Generated.ArithCells.
Require Import Cirbo.Model.ArithSub Cirbo.Model.ArithSum2 Cirbo.Model.ArithSumN Cirbo.Model.ArithSumW
  Cirbo.Model.ArithGen Cirbo.Model.ArithMul Cirbo.Model.ArithSquare.
Require Import Cirbo.Proofs.DictFacts Cirbo.Proofs.BuilderFacts Cirbo.Proofs.ArithFacts Cirbo.Proofs.ArithGenFacts
  Cirbo.Proofs.ArithSumCells Cirbo.Proofs.ArithSumPow2Facts Cirbo.Proofs.ArithMulFacts Cirbo.Proofs.ArithMulDiag
  Cirbo.Proofs.ArithMulDadda Cirbo.Proofs.ArithMulPow2 Cirbo.Proofs.ArithMulKara Cirbo.Proofs.ArithMulWallace
  Cirbo.Proofs.ArithSquareFacts.
Open Scope Z_scope.

Lemma alter_loop_length fresh n : forall rows i res s r s',
  run fresh (alter_loop i res rows) s = Ok (r, s') -> Forall (fun row => length row = n) rows ->
  ((2 <= n)%nat /\ (i < length res <= n + i)%nat -> rows <> [] -> length r = (n + i + length rows)%nat) /\
  (n = 1%nat /\ length res = i -> length r = (i + length rows)%nat).
Proof.
  induction rows as [|ci rows IH]; intros i res s r s' H F.
  - apply run_ret_inv in H as (-> & ->). split; [intros _ Hne; congruence|]. intros (_ & ->). simpl. lia.
  - cbn [alter_loop] in H. apply run_bind_inv in H as (r1 & s1 & H1 & H).
    pose proof (with_shift_length _ _ _ _ _ _ _ _ H1) as L1.
    pose proof (Forall_inv F) as Lc. pose proof (Forall_inv_tail F) as F'. cbv beta in Lc.
    destruct (IH _ _ _ _ _ H F') as (IH1 & IH2). split.
    + intros (Hn & Hi) _. destruct (length res <=? i)%nat eqn:E; [apply Nat.leb_le in E; lia|].
      rewrite Lc in L1. destruct rows as [|c2 rows'].
      * apply run_ret_inv in H as (-> & ->). simpl. lia.
      * rewrite IH1; [simpl; lia| |discriminate]. split; [exact Hn|]. lia.
    + intros (-> & Hi). destruct (length res <=? i)%nat eqn:E; [|apply Nat.leb_gt in E; lia].
      rewrite Lc in L1. rewrite IH2; [simpl; lia|]. split; [reflexivity|]. lia.
Qed.

Theorem add_mul_alter_length fresh xs ys be s rs s' :
  run fresh (add_mul_alter xs ys be) s = Ok (rs, s') -> (1 <= length xs)%nat ->
  length rs = mul_len (length xs) (length ys).
Proof.
  intros H Hn. unfold add_mul_alter in H.
  apply run_bind_inv in H as (cm & s1 & Hpp & H).
  apply pp_matrix_spec in Hpp as (_ & _ & L1 & F1 & _). rewrite rev_if_length in L1, F1.
  unfold mul_len. destruct cm as [|c0 rest]; [discriminate|]. simpl in L1.
  pose proof (Forall_inv F1) as Lc0. pose proof (Forall_inv_tail F1) as F'. cbv beta in Lc0.
  destruct rest as [|c1 rest'].
  - apply run_ret_inv in H as (-> & ->). rewrite rev_if_length, Lc0. simpl in L1. rewrite <- L1.
    rewrite orb_true_r. lia.
  - apply run_bind_inv in H as (r & s2 & Hr & H). apply run_ret_inv in H as (-> & ->). rewrite rev_if_length.
    destruct (alter_loop_length fresh (length xs) _ _ _ _ _ _ Hr F') as (A1 & A2).
    destruct (length xs =? 1)%nat eqn:E1.
    + apply Nat.eqb_eq in E1. cbn [orb]. rewrite A2; [simpl in *; lia|]. split; [exact E1|congruence].
    + apply Nat.eqb_neq in E1. destruct (length ys =? 1)%nat eqn:E2; [apply Nat.eqb_eq in E2; simpl in L1; lia|].
      cbn [orb]. rewrite A1; [simpl in *; lia| |discriminate]. split; [lia|]. rewrite Lc0. lia.
Qed.

(* ---- every mode of the dispatch table -------------------------------------------------------------------------------- *)
Theorem process_mul_correct t fresh xs ys be s rs s' :
  run fresh (process_mul t xs ys be) s = Ok (rs, s') ->
  ext (bc s) (bc s') /\ inputs (bc s') = inputs (bc s) /\ outputs (bc s') = outputs (bc s) /\
  forall c, ext (bc s') c -> has_gate c "" = false -> has_gate c PLACEHOLDER_STR = false ->
    forall asg xv yv, bvals c asg xs xv -> bvals c asg ys yv ->
    exists rv, bvals c asg rs rv /\ decode be rv = decode be xv * decode be yv.
Proof.
  destruct t; cbn [process_mul]; intros H.
  - apply add_mul_correct in H as (X & I & O & V). repeat split; auto.
  - apply add_mul_karatsuba_with_efficient_sum_correct in H as (X & I & O & _ & V). repeat split; auto.
  - apply add_mul_alter_correct in H as (X & I & O & V). repeat split; auto.
  - apply add_mul_dadda_correct in H as (X & I & O & _ & V). repeat split; auto.
  - apply add_mul_wallace_correct in H as (X & I & O & _ & V). repeat split; auto.
  - apply add_mul_pow2_m1_correct in H as (X & I & O & _ & V). repeat split; auto.
Qed.

Theorem process_square_correct t fresh xs be s rs s' :
  run fresh (process_square t xs be) s = Ok (rs, s') ->
  ext (bc s) (bc s') /\ inputs (bc s') = inputs (bc s) /\ outputs (bc s') = outputs (bc s) /\
  length rs = sq_len (length xs) /\
  forall c, ext (bc s') c -> has_gate c "" = false -> forall asg xv, bvals c asg xs xv ->
    exists rv, bvals c asg rs rv /\ decode be rv = decode be xv * decode be xv.
Proof.
  destruct t; cbn [process_square]; intros H;
    [apply add_square_correct in H|apply add_square_pow2_m1_correct in H]; exact H.
Qed.

Lemma has_gate_gates_eq c c' l : gates c = gates c' -> has_gate c l = has_gate c' l.
Proof. unfold has_gate. intros ->. reflexivity. Qed.

Theorem generate_mul_correct fresh k0 ins size_a t be c :
  generate_mul fresh k0 ins size_a t be = Ok c ->
  has_gate c "" = false -> has_gate c PLACEHOLDER_STR = false ->
  inputs c = ins /\
  forall asg bs, assigns asg ins bs ->
    exists rv, bvals c asg (outputs c) rv /\
      decode be rv = decode be (firstn size_a bs) * decode be (skipn size_a bs).
Proof.
  intros H He HP. apply gen_set_outputs_inv in H as (c0 & r & s' & H0 & Hr & G & I & O).
  apply circuit_with_inputs_spec in H0 as (I0 & _ & V0).
  apply process_mul_correct in Hr as (X & I1 & _ & V). cbn [bc] in *.
  split; [congruence|]. intros asg bs Ha. specialize (V0 asg bs Ha).
  destruct (V (bc s') (ext_refl _)) with (asg := asg) (xv := firstn size_a bs) (yv := skipn size_a bs)
    as (rv & Vr & E).
  - rewrite <- (has_gate_gates_eq _ _ _ G). exact He.
  - rewrite <- (has_gate_gates_eq _ _ _ G). exact HP.
  - eapply bvals_ext; [exact X|]. apply bvals_firstn, V0.
  - eapply bvals_ext; [exact X|]. apply bvals_skipn, V0.
  - exists rv. rewrite O. split; [eapply bvals_gates_eq; [symmetry; exact G|exact Vr]|exact E].
Qed.

Theorem generate_square_correct fresh k0 ins t be c :
  generate_square fresh k0 ins t be = Ok c -> has_gate c "" = false ->
  inputs c = ins /\ length (outputs c) = sq_len (length ins) /\
  forall asg bs, assigns asg ins bs ->
    exists rv, bvals c asg (outputs c) rv /\ decode be rv = decode be bs * decode be bs.
Proof.
  intros H He. apply gen_set_outputs_inv in H as (c0 & r & s' & H0 & Hr & G & I & O).
  apply circuit_with_inputs_spec in H0 as (I0 & _ & V0).
  apply process_square_correct in Hr as (X & I1 & _ & L & V). cbn [bc] in *.
  split; [congruence|]. split; [congruence|]. intros asg bs Ha. specialize (V0 asg bs Ha).
  destruct (V (bc s') (ext_refl _)) with (asg := asg) (xv := bs) as (rv & Vr & E).
  - rewrite <- (has_gate_gates_eq _ _ _ G). exact He.
  - eapply bvals_ext; [exact X|exact V0].
  - exists rv. rewrite O. split; [eapply bvals_gates_eq; [symmetry; exact G|exact Vr]|exact E].
Qed.
