(* C08, termination, part 3: the recursion skeletons.
   [kara_total]: Karatsuba over ANY base multiplier that works on equal widths returns Ok for all
   operand widths >= 1: the fuel max(n, m) + 1 is adequate (every recursive call is on operands of width
   n - n/2 + 1 < n, n >= 18), the padding, the three two-number adders, the subtractor and the two shifted
   adders get non-empty operands.
   [square_rec_total]: the squarer's split recursion (n >= 48) over any base squarer and any working
   Karatsuba.
   [P] is a property of the host that the base needs and every generator preserves (for the multipliers
   over add_sum_pow2_m1: "" is not a gate). *)
Require Import Cirbo.Model.Base Cirbo.Model.Gate Cirbo.Model.Den Cirbo.Model.Circuit
  Cirbo.Model.Eval Cirbo.Model.Sem Cirbo.Model.Builder.
Require Import Cirbo.Generated.ArithTables Cirbo.Generated.ArithCells.
Require Import Cirbo.Model.ArithSub Cirbo.Model.ArithSum2 Cirbo.Model.ArithSumN Cirbo.Model.ArithSumW
  Cirbo.Model.ArithMul Cirbo.Model.ArithSquare.
Require Import Cirbo.Proofs.DictFacts Cirbo.Proofs.BuilderFacts Cirbo.Proofs.ArithFacts
  Cirbo.Proofs.ArithSubFacts Cirbo.Proofs.ArithSum2Facts
  Cirbo.Proofs.TotalFacts Cirbo.Proofs.ArithTotalFacts Cirbo.Proofs.FreshOnly
  Cirbo.Proofs.ArithMulFacts Cirbo.Proofs.ArithMulPow2 Cirbo.Proofs.ArithMulKara Cirbo.Proofs.ArithSquareFacts
  Cirbo.Proofs.ArithMulTotal.

Lemma nonnil_length {A} (l : list A) : (1 <= length l)%nat -> l <> [].
Proof. intros H ->. simpl in H. lia. Qed.
Lemma length_nonnil {A} (l : list A) : l <> [] -> (1 <= length l)%nat.
Proof. destruct l; [contradiction|simpl; lia]. Qed.

Section KaraTotal.
  Variable fresh : N -> label.
  Hypothesis Hf : fresh_total fresh.
  Variable P : circuit -> Prop.
  Hypothesis Pfo : forall A (p : prog A) s r s', fo p -> run fresh p s = Ok (r, s') -> P (bc s) -> P (bc s').

  Ltac finish := cbn [run]; eexists _, _; split; [reflexivity|].
  Ltac Pstep E := (eapply Pfo; [|exact E|assumption]; auto with fo).

  (* a multiplier works on non-empty operands of equal width below W *)
  Definition mul_ok (p : list label -> list label -> prog (list label)) (W : nat) : Prop :=
    forall x y s, x <> [] -> length y = length x -> (length x < W)%nat ->
      all_exist (bc s) x -> all_exist (bc s) y -> P (bc s) ->
      exists r s', run fresh (p x y) s = Ok (r, s') /\ all_exist (bc s') r.

  Lemma add_sub_two_numbers_ok xs ys be s :
    xs <> [] -> ys <> [] -> all_exist (bc s) xs -> all_exist (bc s) ys ->
    exists r s', run fresh (add_sub_two_numbers xs ys be) s = Ok (r, s') /\ all_exist (bc s') r.
  Proof.
    intros Hx Hy Ax Ay. unfold add_sub_two_numbers.
    destruct (sub_ripple_ok fresh Hf (rev_if be xs) (rev_if be ys) s) as (r & s1 & E & Ar & _);
      [apply rev_if_nonempty, Hx|apply rev_if_nonempty, Hy|apply all_exist_rev_if, Ax|apply all_exist_rev_if, Ay|].
    rewrite (bind_ok _ _ _ _ _ _ E). finish. apply all_exist_rev_if, Ar.
  Qed.

  Lemma kara_pad_ok a : forall k s, (k = 0%nat \/ a <> []) -> all_exist (bc s) a ->
    exists zs s', run fresh (kara_pad k a) s = Ok (zs, s') /\ all_exist (bc s') zs.
  Proof.
    induction k as [|k IH]; intros s Hk Aa; cbn [kara_pad].
    - finish. constructor.
    - destruct Hk as [Hk|Hne]; [discriminate|]. destruct a as [|a0 a']; [contradiction|].
      assert (has_gate (bc s) a0 = true) as H0 by (inversion Aa; assumption).
      unfold nthP, nth_res. cbn [nth_error ret_res]. rewrite run_ret_bind.
      destruct (gate_tt_ok fresh tt_xor a0 a0 s Hf H0 H0) as (z & s1 & E1 & G1).
      rewrite (bind_ok _ _ _ _ _ _ E1). pose proof (run_ext _ _ _ _ _ E1) as X1.
      destruct (IH s1) as (r & s2 & E2 & Ar); [right; discriminate|eapply all_exist_ext; eassumption|].
      rewrite (bind_ok _ _ _ _ _ _ E2). finish.
      constructor; [eapply ext_has_gate; [eapply run_ext; exact E2|exact G1]|exact Ar].
  Qed.

  Section Base.
    Variable Q : circuit -> Prop.
    Variable base : list label -> list label -> prog (list label).
    Hypothesis Hbase : mul_spec Q base.
    Hypothesis Hbase_fo : forall x y, fo (base x y).
    Hypothesis Hbase_ok : forall W, mul_ok base W.

    Section Body.
      Variable rec : list label -> list label -> bool -> prog (list label).
      Hypothesis Hrec : mul_spec Q (fun x y => rec x y false).
      Hypothesis Hrec_fo : forall x y be, fo (rec x y be).

      Lemma msel_ok W k : mul_ok (fun x y => rec x y false) W ->
        mul_ok (fun x y => if kara_small k then base x y else rec x y false) W.
      Proof. intros Hr. destruct (kara_small k); [apply Hbase_ok|exact Hr]. Qed.

      Lemma msel_fo k x y : fo (if kara_small k then base x y else rec x y false).
      Proof. destruct (kara_small k); auto. Qed.

      Lemma kara_body_ok out_size be a b s :
        (length b <= length a)%nat -> b <> [] -> mul_ok (fun x y => rec x y false) (length a) ->
        all_exist (bc s) a -> all_exist (bc s) b -> P (bc s) ->
        exists r s', run fresh (kara_body base rec out_size be (a, b)) s = Ok (r, s') /\ all_exist (bc s') r.
      Proof.
        intros Hlen Hb Hrec_ok Aa Ab HP0. unfold kara_body. set (n := length a) in *.
        assert (1 <= length b)%nat as Hb1 by (apply length_nonnil, Hb).
        assert (a <> []) as Ha by (apply nonnil_length; fold n; lia).
        destruct (kara_pad_ok a (n - length b) s (or_intror Ha) Aa) as (zs & s0 & E0 & Azs).
        rewrite (bind_ok _ _ _ _ _ _ E0). pose proof (run_ext _ _ _ _ _ E0) as X0.
        assert (P (bc s0)) as P0 by Pstep E0.
        apply kara_pad_spec in E0 as (_ & _ & Lz & _).
        set (b' := b ++ zs) in *.
        assert (length b' = n) as Lb' by (unfold b'; rewrite app_length, Lz; lia).
        assert (all_exist (bc s0) a) as Aa0 by (eapply all_exist_ext; eassumption).
        assert (all_exist (bc s0) b') as Ab0 by (apply all_exist_app; [eapply all_exist_ext; eassumption|exact Azs]).
        destruct (kara_small n) eqn:Esmall.
        - destruct (Hbase_ok (S n) a b' s0) as (r & s1 & E1 & Ar); try assumption; [fold n; lia|].
          rewrite (bind_ok _ _ _ _ _ _ E1). finish. apply all_exist_rev_if, all_exist_firstn, Ar.
        - apply kara_small_false in Esmall. set (mid := (n / 2)%nat) in *.
          assert (2 * mid <= n < 2 * mid + 2)%nat as Hmid.
          { unfold mid. pose proof (Nat.div_mod n 2). pose proof (Nat.mod_upper_bound n 2). lia. }
          set (a1 := skipn mid a) in *. set (a0 := firstn mid a) in *.
          set (b1 := skipn mid b') in *. set (b0 := firstn mid b') in *.
          assert (length a1 = (n - mid)%nat) as La1 by (unfold a1; rewrite skipn_length; reflexivity).
          assert (length a0 = mid) as La0 by (unfold a0; rewrite firstn_length; fold n; lia).
          assert (length b1 = (n - mid)%nat) as Lb1 by (unfold b1; rewrite skipn_length, Lb'; reflexivity).
          assert (length b0 = mid) as Lb0 by (unfold b0; rewrite firstn_length, Lb'; lia).
          (* ac *)
          destruct (msel_ok n (n - mid) Hrec_ok a1 b1 s0) as (ac & s1 & E1 & Aac);
            [apply nonnil_length; lia|congruence|lia|apply all_exist_skipn, Aa0|apply all_exist_skipn, Ab0|exact P0|].
          rewrite (bind_ok _ _ _ _ _ _ E1). pose proof (run_ext _ _ _ _ _ E1) as X1.
          assert (P (bc s1)) as P1 by (eapply Pfo; [apply msel_fo|exact E1|exact P0]).
          apply (msel_spec Q base Hbase rec Hrec (n - mid)) in E1 as (_ & _ & L1 & _).
          rewrite La1, Lb1, (mul_len_eq (n - mid)) in L1 by lia. specialize (L1 ltac:(lia) ltac:(lia)).
          (* bd *)
          destruct (msel_ok n mid Hrec_ok a0 b0 s1) as (bd & s2 & E2 & Abd);
            [apply nonnil_length; lia|congruence|lia
            |apply all_exist_firstn; eapply all_exist_ext; eassumption
            |apply all_exist_firstn; eapply all_exist_ext; eassumption|exact P1|].
          rewrite (bind_ok _ _ _ _ _ _ E2). pose proof (run_ext _ _ _ _ _ E2) as X2.
          assert (P (bc s2)) as P2 by (eapply Pfo; [apply msel_fo|exact E2|exact P1]).
          apply (msel_spec Q base Hbase rec Hrec mid) in E2 as (_ & _ & L2 & _).
          rewrite La0, Lb0, (mul_len_eq mid) in L2 by lia. specialize (L2 ltac:(lia) ltac:(lia)).
          assert (ext (bc s0) (bc s2)) as X02 by (eapply ext_trans; eassumption).
          (* a_sum_b, c_sum_d *)
          destruct (add_sum_two_numbers_ok fresh Hf a1 a0 false s2) as (asb & s3 & E3 & Aasb & L3);
            [apply nonnil_length; lia|apply nonnil_length; lia
            |apply all_exist_skipn; eapply all_exist_ext; eassumption
            |apply all_exist_firstn; eapply all_exist_ext; eassumption|].
          rewrite (bind_ok _ _ _ _ _ _ E3). pose proof (run_ext _ _ _ _ _ E3) as X3.
          assert (P (bc s3)) as P3 by Pstep E3.
          destruct (add_sum_two_numbers_ok fresh Hf b1 b0 false s3) as (csd & s4 & E4 & Acsd & L4);
            [apply nonnil_length; lia|apply nonnil_length; lia
            |apply all_exist_skipn; eapply all_exist_ext; [exact (ext_trans _ _ _ X02 X3)|exact Ab0]
            |apply all_exist_firstn; eapply all_exist_ext; [exact (ext_trans _ _ _ X02 X3)|exact Ab0]|].
          rewrite (bind_ok _ _ _ _ _ _ E4). pose proof (run_ext _ _ _ _ _ E4) as X4.
          assert (P (bc s4)) as P4 by Pstep E4.
          rewrite La1, La0 in L3. rewrite Lb1, Lb0 in L4.
          replace (Nat.max (n - mid) mid) with (n - mid)%nat in * by lia.
          (* big_mul *)
          destruct (msel_ok n (length asb) Hrec_ok asb csd s4) as (big & s5 & E5 & Abig);
            [apply nonnil_length; lia|congruence|lia|eapply all_exist_ext; eassumption|exact Acsd|exact P4|].
          rewrite (bind_ok _ _ _ _ _ _ E5). pose proof (run_ext _ _ _ _ _ E5) as X5.
          assert (P (bc s5)) as P5 by (eapply Pfo; [apply msel_fo|exact E5|exact P4]).
          apply (msel_spec Q base Hbase rec Hrec (length asb)) in E5 as (_ & _ & L5 & _).
          rewrite L3, L4, (mul_len_eq (S (n - mid))) in L5 by lia. specialize (L5 ltac:(lia) ltac:(lia)).
          (* ac_sum_bd *)
          assert (ext (bc s2) (bc s5)) as X25 by (eapply ext_trans; [eapply ext_trans|]; eassumption).
          destruct (add_sum_two_numbers_ok fresh Hf ac bd false s5) as (acbd & s6 & E6 & Aacbd & L6);
            [apply nonnil_length; lia|apply nonnil_length; lia
            |eapply all_exist_ext; [exact (ext_trans _ _ _ X2 X25)|exact Aac]
            |eapply all_exist_ext; eassumption|].
          rewrite (bind_ok _ _ _ _ _ _ E6). pose proof (run_ext _ _ _ _ _ E6) as X6.
          (* res_mid *)
          destruct (add_sub_two_numbers_ok big acbd false s6) as (rmid & s7 & E7 & Armid);
            [apply nonnil_length; lia|apply nonnil_length; lia|eapply all_exist_ext; eassumption|exact Aacbd|].
          rewrite (bind_ok _ _ _ _ _ _ E7). pose proof (run_ext _ _ _ _ _ E7) as X7.
          apply add_sub_two_numbers_later in E7 as (_ & _ & Lrmid & _).
          assert (ext (bc s2) (bc s7)) as X27 by (eapply ext_trans; [eapply ext_trans|]; eassumption).
          (* res *)
          destruct (with_shift_ok fresh Hf mid bd rmid false s7) as (res & s8 & E8 & Ares);
            [apply nonnil_length; lia|left; apply nonnil_length; lia|eapply all_exist_ext; eassumption|exact Armid|].
          rewrite (bind_ok _ _ _ _ _ _ E8). pose proof (run_ext _ _ _ _ _ E8) as X8.
          apply with_shift_length in E8. rewrite L2 in E8.
          destruct (2 * mid <=? mid)%nat eqn:Ele; [apply Nat.leb_le in Ele; lia|].
          (* final_res *)
          destruct (with_shift_ok fresh Hf (2 * mid) res ac false s8) as (fin & s9 & E9 & Afin);
            [apply nonnil_length; lia|left; apply nonnil_length; lia|exact Ares
            |eapply all_exist_ext; [exact (ext_trans _ _ _ X2 (ext_trans _ _ _ X27 X8))|exact Aac]|].
          rewrite (bind_ok _ _ _ _ _ _ E9). finish. apply all_exist_rev_if, all_exist_firstn, Afin.
      Qed.
    End Body.

    Theorem kara_ok : forall fuel xs ys be s,
      (Nat.max (length xs) (length ys) < fuel)%nat -> xs <> [] -> ys <> [] ->
      all_exist (bc s) xs -> all_exist (bc s) ys -> P (bc s) ->
      exists r s', run fresh (kara base fuel xs ys be) s = Ok (r, s') /\ all_exist (bc s') r.
    Proof.
      induction fuel as [|f IH]; intros xs ys be s Hfu Hx Hy Ax Ay HP0; [lia|].
      assert (Hrec : mul_spec Q (fun x y => kara base f x y false)).
      { intros fr x y s0 r s0' H0. apply (kara_correct Q base Hbase) in H0 as (X & O & L & V). repeat split; auto. }
      assert (Hrec_fo : forall x y be0, fo (kara base f x y be0)) by (intros; apply fo_kara, Hbase_fo).
      assert (Hrec_ok : forall W, (W <= f)%nat -> mul_ok (fun x y => kara base f x y false) W).
      { intros W HW x y s0 Hxne Ly Lx Axx Ayy HPs. apply IH; try assumption; [lia|].
        apply nonnil_length. rewrite Ly. apply length_nonnil, Hxne. }
      rewrite kara_unfold. rewrite !rev_if_length.
      pose proof (length_nonnil _ Hx) as Lx1. pose proof (length_nonnil _ Hy) as Ly1.
      destruct (length xs <? length ys)%nat eqn:E.
      - apply Nat.ltb_lt in E.
        apply (kara_body_ok (fun x y be0 => kara base f x y be0) Hrec Hrec_fo); try assumption.
        + rewrite !rev_if_length. lia.
        + apply rev_if_nonempty, Hx.
        + apply Hrec_ok. rewrite rev_if_length. lia.
        + apply all_exist_rev_if, Ay.
        + apply all_exist_rev_if, Ax.
      - apply Nat.ltb_ge in E.
        apply (kara_body_ok (fun x y be0 => kara base f x y be0) Hrec Hrec_fo); try assumption.
        + rewrite !rev_if_length. lia.
        + apply rev_if_nonempty, Hy.
        + apply Hrec_ok. rewrite rev_if_length. lia.
        + apply all_exist_rev_if, Ax.
        + apply all_exist_rev_if, Ay.
    Qed.

    Corollary kara_total xs ys be s :
      xs <> [] -> ys <> [] -> all_exist (bc s) xs -> all_exist (bc s) ys -> P (bc s) ->
      exists r s', run fresh (kara base (kara_fuel xs ys) xs ys be) s = Ok (r, s') /\ all_exist (bc s') r.
    Proof. intros. apply kara_ok; try assumption. unfold kara_fuel. lia. Qed.
  End Base.

  (* ---- the squarer's split recursion ---- *)
  Section Square.
    (* the base squarer and the Karatsuba product of the two halves *)
    Hypothesis Hsq_ok : forall xs s, xs <> [] -> all_exist (bc s) xs -> P (bc s) ->
      exists r s', run fresh (add_square_pow2_m1 xs false) s = Ok (r, s') /\ all_exist (bc s') r.
    Hypothesis Hkara_ok : forall xs ys s, xs <> [] -> ys <> [] -> all_exist (bc s) xs -> all_exist (bc s) ys -> P (bc s) ->
      exists r s', run fresh (add_mul_karatsuba xs ys false) s = Ok (r, s') /\ all_exist (bc s') r.

    Theorem square_rec_ok : forall fuel xs be s,
      (length xs < fuel)%nat -> xs <> [] -> all_exist (bc s) xs -> P (bc s) ->
      exists r s', run fresh (square_rec fuel xs be) s = Ok (r, s') /\ all_exist (bc s') r.
    Proof.
      induction fuel as [|f IH]; intros xs be s Hfu Hx Ax HP0; [lia|].
      cbn [square_rec]. rewrite rev_if_length. set (n := length xs) in *.
      assert (all_exist (bc s) (rev_if be xs)) as Ax' by apply all_exist_rev_if, Ax.
      destruct (square_small n) eqn:Esmall.
      - destruct (Hsq_ok (rev_if be xs) s) as (r & s1 & E1 & Ar); [apply rev_if_nonempty, Hx|exact Ax'|exact HP0|].
        rewrite (bind_ok _ _ _ _ _ _ E1). finish. apply all_exist_rev_if, Ar.
      - apply square_small_false in Esmall. set (mid := (n / 2)%nat).
        assert (2 * mid <= n < 2 * mid + 2)%nat as Hmid.
        { unfold mid. pose proof (Nat.div_mod n 2). pose proof (Nat.mod_upper_bound n 2). lia. }
        set (a := firstn mid (rev_if be xs)). set (b := skipn mid (rev_if be xs)).
        assert (length a = mid) as La by (unfold a; rewrite firstn_length, rev_if_length; fold n; lia).
        assert (length b = (n - mid)%nat) as Lb by (unfold b; rewrite skipn_length, rev_if_length; reflexivity).
        assert (all_exist (bc s) a) as Aa by apply all_exist_firstn, Ax'.
        assert (all_exist (bc s) b) as Ab by apply all_exist_skipn, Ax'.
        destruct (IH a false s) as (aa & s1 & E1 & Aaa); [lia|apply nonnil_length; lia|exact Aa|exact HP0|].
        rewrite (bind_ok _ _ _ _ _ _ E1). pose proof (run_ext _ _ _ _ _ E1) as X1.
        assert (P (bc s1)) as P1 by (eapply Pfo; [apply fo_square_rec|exact E1|exact HP0]).
        apply square_rec_correct in E1 as (_ & _ & L1 & _). rewrite La in L1.
        destruct (IH b false s1) as (bb & s2 & E2 & Abb);
          [lia|apply nonnil_length; lia|eapply all_exist_ext; eassumption|exact P1|].
        rewrite (bind_ok _ _ _ _ _ _ E2). pose proof (run_ext _ _ _ _ _ E2) as X2.
        assert (P (bc s2)) as P2 by (eapply Pfo; [apply fo_square_rec|exact E2|exact P1]).
        apply square_rec_correct in E2 as (_ & _ & L2 & _). rewrite Lb in L2.
        assert (ext (bc s) (bc s2)) as X02 by (eapply ext_trans; eassumption).
        destruct (Hkara_ok a b s2) as (ab & s3 & E3 & Aab);
          [apply nonnil_length; lia|apply nonnil_length; lia|eapply all_exist_ext; eassumption..|exact P2|].
        rewrite (bind_ok _ _ _ _ _ _ E3). pose proof (run_ext _ _ _ _ _ E3) as X3.
        apply add_mul_karatsuba_correct in E3 as (_ & _ & _ & L3 & _). rewrite La, Lb in L3.
        specialize (L3 ltac:(lia) ltac:(lia)).
        assert (sq_len mid = (2 * mid)%nat) as Es1.
        { unfold sq_len. destruct (mid =? 1)%nat eqn:E; [apply Nat.eqb_eq in E; lia|reflexivity]. }
        assert (sq_len (n - mid) = (2 * (n - mid))%nat) as Es2.
        { unfold sq_len. destruct (n - mid =? 1)%nat eqn:E; [apply Nat.eqb_eq in E; lia|reflexivity]. }
        assert (mul_len mid (n - mid) = n) as Em.
        { unfold mul_len. destruct (mid =? 1)%nat eqn:E; [apply Nat.eqb_eq in E; lia|].
          destruct (n - mid =? 1)%nat eqn:E'; [apply Nat.eqb_eq in E'; lia|]. simpl. lia. }
        rewrite Es1 in L1. rewrite Es2 in L2. rewrite Em in L3.
        destruct (with_shift_ok fresh Hf (mid + 1) aa ab false s3) as (res & s4 & E4 & Ares);
          [apply nonnil_length; lia|left; apply nonnil_length; lia
          |eapply all_exist_ext; [exact (ext_trans _ _ _ X2 X3)|exact Aaa]|exact Aab|].
        rewrite (bind_ok _ _ _ _ _ _ E4). pose proof (run_ext _ _ _ _ _ E4) as X4.
        apply with_shift_length in E4. rewrite L1, L3 in E4.
        destruct (2 * mid <=? mid + 1)%nat eqn:Ele; [apply Nat.leb_le in Ele; lia|].
        destruct (with_shift_ok fresh Hf (2 * mid) res bb false s4) as (fin & s5 & E5 & Afin);
          [apply nonnil_length; lia|left; apply nonnil_length; lia|exact Ares
          |eapply all_exist_ext; [exact (ext_trans _ _ _ X3 X4)|exact Abb]|].
        rewrite (bind_ok _ _ _ _ _ _ E5). finish. apply all_exist_rev_if, all_exist_firstn, Afin.
    Qed.

    Corollary add_square_ok xs be s :
      xs <> [] -> all_exist (bc s) xs -> P (bc s) ->
      exists r s', run fresh (add_square xs be) s = Ok (r, s') /\ all_exist (bc s') r.
    Proof. intros. unfold add_square. apply square_rec_ok; try assumption. lia. Qed.
  End Square.
End KaraTotal.
