(* Theorems about the regenerated codec tables (Generated/CodecTables.v, translator T8):
   re-proved against whatever the source says now. *)
Require Import Cirbo.Model.Base Cirbo.Model.Gate Cirbo.Model.Den.
Require Import Cirbo.Generated.CodecTables.

Lemma code_injective a b n :
  gate_type_to_int a = Some n -> gate_type_to_int b = Some n -> a = b.
Proof. destruct a; destruct b; simpl; intros H1 H2; try discriminate; try reflexivity; congruence. Qed.

Lemma code_fits g n :
  gate_type_to_int g = Some n -> (n < 2 ^ N.of_nat GATE_TYPE_BIT_SIZE)%N.
Proof. destruct g; simpl; intros H; try discriminate; injection H as <-; reflexivity. Qed.

Lemma code_to_type g n : gate_type_to_int g = Some n -> int_to_gate_type n = Some g.
Proof. destruct g; simpl; intros H; try discriminate; injection H as <-; reflexivity. Qed.

Ltac split_pos H p d :=
  match d with
  | O => idtac
  | S ?d' =>
    destruct p as [p|p|]; simpl in H; try discriminate H;
    try (injection H as <-; reflexivity); split_pos H p d'
  end.

Lemma type_to_code g n : int_to_gate_type n = Some g -> gate_type_to_int g = Some n.
Proof.
  intros H. destruct n as [|p]; simpl in H; try discriminate H; try (injection H as <-; reflexivity).
  split_pos H p 7%nat.
Qed.

Theorem tables_inverse g n : gate_type_to_int g = Some n <-> int_to_gate_type n = Some g.
Proof. split; [apply code_to_type|apply type_to_code]. Qed.

Lemma input_has_no_code : gate_type_to_int INPUT = None.
Proof. reflexivity. Qed.

Lemma decoded_type_not_input n : int_to_gate_type n <> Some INPUT.
Proof. intros H; apply type_to_code in H; rewrite input_has_no_code in H; discriminate. Qed.

(* the operand count the format prescribes for an encodable type is one its operator accepts *)
Theorem format_arity_accepted g n :
  gate_type_to_int g = Some n -> den_accepts g (get_arity g) = true.
Proof. destruct g; simpl; intros H; try discriminate; reflexivity. Qed.
