(* C05: the fuel of the model's process_gate bounds the recursion DEPTH.
   - more fuel never changes a result (so every theorem stated for an arbitrary fuel speaks
     about the one run  tseytin c outs  with fuel size+1);
   - adequacy: on an acyclic netlist fuel size+1 is never exhausted. *)
Require Import Cirbo.Model.Base Cirbo.Model.Gate Cirbo.Model.Circuit Cirbo.Model.Cnf Cirbo.Model.TseytinAlg.
Require Import Cirbo.Generated.Tseytin.
Require Import Cirbo.Proofs.DictFacts Cirbo.Proofs.TseytinTemplates.

(* ---------- monotonicity in the fuel ------------------------------------------------ *)
Lemma mapS_mono {S A B} (f f' : S -> A -> res (S * B)) :
  (forall s x r, f s x = Ok r -> f' s x = Ok r) ->
  forall l s r, mapS f s l = Ok r -> mapS f' s l = Ok r.
Proof.
  intros H l; induction l as [|x l IH]; intros s r; cbn [mapS]; [trivial|].
  destruct (f s x) as [r1|] eqn:E1; cbn [bind]; [|discriminate].
  rewrite (H _ _ _ E1). cbn [bind].
  destruct (mapS f (fst r1) l) as [r2|] eqn:E2; cbn [bind]; [|discriminate].
  rewrite (IH _ _ E2). trivial.
Qed.

Lemma process_gate_mono c : forall fuel fuel' s l r,
  (fuel <= fuel')%nat -> process_gate fuel c s l = Ok r -> process_gate fuel' c s l = Ok r.
Proof.
  induction fuel as [|fuel IH]; intros fuel' s l r Hle; [discriminate|].
  destruct fuel' as [|fuel']; [lia|]. cbn [process_gate].
  destruct (dget (saved s) l); [trivial|].
  destruct (get_gate c l) as [g|]; cbn [bind]; [|discriminate].
  destruct (mapS (process_gate fuel c) s (gops g)) as [r1|] eqn:E; cbn [bind]; [|discriminate].
  rewrite (mapS_mono _ (process_gate fuel' c) (fun s x r => IH fuel' s x r ltac:(lia)) _ _ _ E).
  trivial.
Qed.

Lemma foldM_mono {A S} (f f' : S -> A -> res S) :
  (forall s x r, f s x = Ok r -> f' s x = Ok r) ->
  forall l s r, foldM f l s = Ok r -> foldM f' l s = Ok r.
Proof.
  intros H l; induction l as [|x l IH]; intros s r; cbn [foldM]; [trivial|].
  destruct (f s x) as [s1|] eqn:E; cbn [bind]; [|discriminate].
  rewrite (H _ _ _ E). cbn [bind]. apply IH.
Qed.

Theorem tseytin_fuel_mono c outs fuel fuel' r :
  (fuel <= fuel')%nat -> tseytin_fuel fuel c outs = Ok r -> tseytin_fuel fuel' c outs = Ok r.
Proof.
  intros Hle. unfold tseytin_fuel.
  destruct (foldM (process_output fuel c) (selected_indices c outs) (alloc_inputs c)) as [s|] eqn:E;
    cbn [bind]; [|discriminate].
  assert (Hstep : forall s0 i r0, process_output fuel c s0 i = Ok r0 -> process_output fuel' c s0 i = Ok r0).
  { intros s0 i r0. unfold process_output.
    destruct (output_at_index_z c i); cbn [bind]; [|discriminate].
    destruct (process_gate fuel c s0 l) as [r1|] eqn:Ep; cbn [bind]; [|discriminate].
    rewrite (process_gate_mono _ _ _ _ _ _ Hle Ep). trivial. }
  rewrite (foldM_mono _ _ Hstep _ _ _ E). trivial.
Qed.

(* two runs that both return agree, whatever their fuels *)
Corollary tseytin_fuel_deterministic c outs f1 f2 r1 r2 :
  tseytin_fuel f1 c outs = Ok r1 -> tseytin_fuel f2 c outs = Ok r2 -> r1 = r2.
Proof.
  intros H1 H2.
  apply (tseytin_fuel_mono _ _ _ (Nat.max f1 f2)) in H1; [|lia].
  apply (tseytin_fuel_mono _ _ _ (Nat.max f1 f2)) in H2; [|lia].
  congruence.
Qed.

(* ---------- adequacy of fuel = size + 1 on acyclic netlists ------------------------- *)
Definition acyclic (c : circuit) : Prop :=
  exists rank : label -> nat,
    forall l g o, dget (gates c) l = Some g -> In o (gops g) -> (rank o < rank l)%nat.

Lemma mapS_err {S A B} (f : S -> A -> res (S * B)) : forall l s e,
  mapS f s l = Err e -> exists s' x, In x l /\ f s' x = Err e.
Proof.
  induction l as [|x l IH]; intros s e; cbn [mapS]; [discriminate|].
  destruct (f s x) as [r1|e1] eqn:E1; cbn [bind].
  - destruct (mapS f (fst r1) l) as [r2|e2] eqn:E2; cbn [bind]; [discriminate|].
    intros [= <-]. destruct (IH _ _ E2) as (s' & y & Hy & Hf). exists s', y. split; [right; exact Hy|exact Hf].
  - intros [= <-]. exists s, x. split; [left; reflexivity|exact E1].
Qed.

Lemma foldM_err {A S} (f : S -> A -> res S) : forall l s e,
  foldM f l s = Err e -> exists s' x, In x l /\ f s' x = Err e.
Proof.
  induction l as [|x l IH]; intros s e; cbn [foldM]; [discriminate|].
  destruct (f s x) as [s1|e1] eqn:E1; cbn [bind].
  - intros H. destruct (IH _ _ H) as (s' & y & Hy & Hf). exists s', y. split; [right; exact Hy|exact Hf].
  - intros [= <-]. exists s, x. split; [left; reflexivity|exact E1].
Qed.

Section Adequacy.
  Variables (c : circuit) (rank : label -> nat).
  Hypothesis Hrank : forall l g o, dget (gates c) l = Some g -> In o (gops g) -> (rank o < rank l)%nat.

  (* stack = the labels whose process_gate calls are active (pairwise distinct gates of c) *)
  Lemma process_gate_fuel_enough : forall fuel stack s l e,
    NoDup stack -> incl stack (dkeys (gates c)) ->
    (forall x, In x stack -> (rank l < rank x)%nat) ->
    (size c < fuel + length stack)%nat ->
    process_gate fuel c s l = Err e -> e <> OutOfFuel.
  Proof.
    induction fuel as [|fuel IH]; intros stack s l e Hnd Hincl Hr Hsz.
    - exfalso. assert (H := NoDup_incl_length Hnd Hincl).
      unfold size in Hsz. unfold dkeys in H. rewrite map_length in H. lia.
    - cbn [process_gate]. destruct (dget (saved s) l); [discriminate|].
      unfold get_gate. destruct (dget (gates c) l) as [g|] eqn:Eg; cbn [bind]; [|intros [= <-]; discriminate].
      destruct (mapS (process_gate fuel c) s (gops g)) as [r|e1] eqn:Em; cbn [bind].
      + destruct (get_lit (fst r) l) as [s2 top].
        destruct (template_of (gtyp g) top (snd r)) as [cl|e2] eqn:Et; cbn [bind]; [discriminate|].
        intros [= <-]. rewrite (template_errors _ _ _ _ Et). discriminate.
      + intros [= <-]. destruct (mapS_err _ _ _ _ Em) as (s' & o & Ho & Hf).
        apply (IH (l :: stack) s' o e1); [| | | |exact Hf].
        * constructor; [|exact Hnd]. intros Hl. specialize (Hr _ Hl). lia.
        * intros x [<-|Hx]; [eapply dget_In_keys; exact Eg|apply Hincl; exact Hx].
        * intros x [<-|Hx]; [eapply Hrank; eassumption|].
          specialize (Hr _ Hx). assert (H := Hrank _ _ _ Eg Ho). lia.
        * cbn [length]. lia.
  Qed.

  Lemma output_at_index_z_err i e : output_at_index_z c i = Err e -> e <> OutOfFuel.
  Proof.
    unfold output_at_index_z, nth_res.
    destruct (_ >=? _)%Z; [intros [= <-]; discriminate|].
    destruct (_ <? _)%Z; [intros [= <-]; discriminate|].
    destruct (nth_error _ _); [discriminate|intros [= <-]; discriminate].
  Qed.

  Theorem tseytin_fuel_adequate outs e : tseytin c outs = Err e -> e <> OutOfFuel.
  Proof.
    unfold tseytin, tseytin_fuel.
    destruct (foldM (process_output (S (size c)) c) (selected_indices c outs) (alloc_inputs c)) as [s|e1] eqn:E;
      cbn [bind]; [discriminate|].
    intros [= <-]. destruct (foldM_err _ _ _ _ E) as (s' & i & _ & Hf).
    unfold process_output in Hf.
    destruct (output_at_index_z c i) as [o|e2] eqn:Eo; cbn [bind] in Hf;
      [|injection Hf as <-; eapply output_at_index_z_err; exact Eo].
    destruct (process_gate (S (size c)) c s' o) as [r|e3] eqn:Ep; cbn [bind] in Hf; [discriminate|].
    injection Hf as <-.
    apply (process_gate_fuel_enough _ [] _ _ _ (NoDup_nil _)) in Ep; [exact Ep| | |cbn; lia].
    - intros x [].
    - intros x [].
  Qed.
End Adequacy.

Theorem tseytin_never_out_of_fuel c outs e : acyclic c -> tseytin c outs = Err e -> e <> OutOfFuel.
Proof. intros (rank & Hr). eapply tseytin_fuel_adequate; exact Hr. Qed.

(* ---------- totality: on a closed, acyclic netlist with accepted arities and a valid
   selection the transformation returns (no exception) ------------------------------- *)
Lemma mapS_total {S A B} (f : S -> A -> res (S * B)) : forall l,
  (forall s x, In x l -> exists r, f s x = Ok r) ->
  forall s, exists r, mapS f s l = Ok r /\ length (snd r) = length l.
Proof.
  induction l as [|x l IH]; intros Hf s; cbn [mapS]; [eexists; split; reflexivity|].
  destruct (Hf s x (or_introl eq_refl)) as (r1 & ->). cbn [bind].
  destruct (IH (fun s y Hy => Hf s y (or_intror Hy)) (fst r1)) as (r2 & -> & Hlen). cbn [bind].
  eexists; split; [reflexivity|]. cbn [snd length]. rewrite Hlen. reflexivity.
Qed.

Lemma closedb_spec c : closedb c = true ->
  (forall l g o, dget (gates c) l = Some g -> In o (gops g) -> has_gate c o = true)
  /\ (forall o, In o (outputs c) -> has_gate c o = true).
Proof.
  unfold closedb. rewrite andb_true_iff, !forallb_forall. intros [H1 H2]. split; [|exact H2].
  intros l g o Hg Ho. specialize (H1 _ (dget_In _ _ _ Hg)). cbn [snd] in H1.
  rewrite forallb_forall in H1. apply H1; exact Ho.
Qed.

Section Totality.
  Variables (c : circuit) (rank : label -> nat).
  Hypothesis Hrank : forall l g o, dget (gates c) l = Some g -> In o (gops g) -> (rank o < rank l)%nat.
  Hypothesis Hclosed : closedb c = true.
  Hypothesis Harity : arity_okb c = true.

  Lemma process_gate_total : forall fuel stack s l,
    NoDup stack -> incl stack (dkeys (gates c)) ->
    (forall x, In x stack -> (rank l < rank x)%nat) ->
    (size c < fuel + length stack)%nat ->
    has_gate c l = true ->
    exists r, process_gate fuel c s l = Ok r.
  Proof.
    destruct (closedb_spec _ Hclosed) as [Hops _].
    induction fuel as [|fuel IH]; intros stack s l Hnd Hincl Hr Hsz Hl.
    - exfalso. assert (H := NoDup_incl_length Hnd Hincl).
      unfold size in Hsz. unfold dkeys in H. rewrite map_length in H. lia.
    - cbn [process_gate]. destruct (dget (saved s) l); [eauto|].
      unfold has_gate, dmem in Hl. unfold get_gate.
      destruct (dget (gates c) l) as [g|] eqn:Eg; [|discriminate]. cbn [bind].
      destruct (mapS_total (process_gate fuel c) (gops g)) with (s := s) as (r & Er & Hlen).
      { intros s' o Ho. apply (IH (l :: stack)).
        - constructor; [|exact Hnd]. intros Hl'. specialize (Hr _ Hl'). lia.
        - intros x [<-|Hx]; [eapply dget_In_keys; exact Eg|apply Hincl; exact Hx].
        - intros x [<-|Hx]; [eapply Hrank; eassumption|].
          specialize (Hr _ Hx). assert (H := Hrank _ _ _ Eg Ho). lia.
        - cbn [length]. lia.
        - eapply Hops; eassumption. }
      rewrite Er. cbn [bind]. destruct (get_lit (fst r) l) as [s2 top].
      destruct (gtype_beq (gtyp g) INPUT) eqn:Et.
      + apply gtype_beq_eq in Et. rewrite Et. cbn. eauto.
      + assert (Hacc : Den.den_accepts (gtyp g) (length (snd r)) = true).
        { rewrite Hlen. unfold arity_okb in Harity. rewrite forallb_forall in Harity.
          specialize (Harity _ (dget_In _ _ _ Eg)). cbn [snd] in Harity. rewrite Et in Harity. exact Harity. }
        destruct (template_accepts _ top _ Hacc) as (cl & ->). cbn [bind]. eauto.
  Qed.

  Lemma output_at_index_z_In i o : output_at_index_z c i = Ok o -> In o (outputs c).
  Proof.
    unfold output_at_index_z, nth_res.
    destruct (_ >=? _)%Z; [discriminate|]. destruct (_ <? _)%Z; [discriminate|].
    destruct (nth_error _ _) eqn:E; [|discriminate]. intros [= <-]. eapply nth_error_In; exact E.
  Qed.

  Theorem tseytin_total_rank outs sel :
    selected_outputs c outs = Ok sel -> exists r, tseytin c outs = Ok r.
  Proof.
    destruct (closedb_spec _ Hclosed) as [_ Houts].
    unfold selected_outputs, tseytin, tseytin_fuel. intros Hsel.
    apply mapM_ok_Forall2 in Hsel.
    assert (H : forall s, exists s', foldM (process_output (S (size c)) c) (selected_indices c outs) s = Ok s').
    { induction Hsel as [|i o idxs sel' Hio _ IH]; intros s; cbn [foldM]; [eauto|].
      unfold process_output at 1. rewrite Hio. cbn [bind].
      destruct (process_gate_total (S (size c)) [] s o (NoDup_nil _)) as (r & ->).
      - intros x [].
      - intros x [].
      - cbn; lia.
      - apply Houts. eapply output_at_index_z_In; exact Hio.
      - cbn [bind]. apply IH. }
    destruct (H (alloc_inputs c)) as (s' & ->). cbn [bind]. eauto.
  Qed.
End Totality.

Theorem tseytin_total c outs sel :
  acyclic c -> closedb c = true -> arity_okb c = true ->
  selected_outputs c outs = Ok sel -> exists r, tseytin c outs = Ok r.
Proof. intros (rank & Hr) Hc Ha. exact (tseytin_total_rank c rank Hr Hc Ha outs sel). Qed.
