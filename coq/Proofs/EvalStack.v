(* C01 (b): the demand-driven stack evaluator (evaluate_circuit) never runs out of the fuel
   eval_fuel c outs = 2 * (|outs| + sum of arities) + 1 on a well-formed circuit, and raises
   no other error when the arities are accepted.

   Counting argument.  A loop iteration either
     (A) pops the top label (all its operands have values) and gives it a value, or
     (B) "expands" the top label: leaves it on the stack and pushes its operand occurrences
         that have no value yet (at least one, at most arity many).
   Ghost state: the list E of labels expanded so far.  Invariant (stack_inv): an expanded label
   e without a value occurs on the stack; above its LAST occurrence there are only labels of
   smaller rank, among them all operands of e that still have no value.  Hence the top label is
   expanded at most once (if it is in E, nothing is above it, so all its operands have values
   and the step is (A)), and because of the rank condition (acyclicity) an expanded label is
   never pushed again above itself.
   Potential  |stack| + sum { 2 * arity l | l has no value and is not in E }  drops by at
   least one per iteration and is at most |outs| + 2 * sum_arity at the start. *)
Require Import Cirbo.Model.Base Cirbo.Model.Gate Cirbo.Model.Den Cirbo.Model.Circuit
        Cirbo.Model.Traverse Cirbo.Model.Eval Cirbo.Model.Sem Cirbo.Model.WF.
Require Import Cirbo.Generated.Operators Cirbo.Generated.GateTypes.
Require Import Cirbo.Proofs.DictFacts Cirbo.Proofs.OpFacts Cirbo.Proofs.SemFacts
        Cirbo.Proofs.EvalFacts Cirbo.Proofs.TopSort Cirbo.Proofs.TopSortWF
        Cirbo.Proofs.TraverseInv Cirbo.Proofs.TraverseFuel Cirbo.Proofs.EvalComplete.

(* ---- list facts ---- *)
Lemma snoc_split_last {A} (s1 s2 rest : list A) e cur :
  s1 ++ e :: s2 = rest ++ [cur] -> e <> cur ->
  exists s2', s2 = s2' ++ [cur] /\ rest = s1 ++ e :: s2'.
Proof.
  intros E Hne. destruct (exists_last (l := e :: s2)) as (s & x & Es); [discriminate|].
  destruct s2 as [|y s2].
  - exfalso. change (s1 ++ [e] = rest ++ [cur]) in E. apply app_inj_tail in E. destruct E; contradiction.
  - destruct (exists_last (l := y :: s2)) as (s2' & x' & Es2); [discriminate|].
    exists s2'. rewrite Es2 in E.
    change (s1 ++ e :: s2' ++ [x'] = rest ++ [cur]) in E.
    replace (s1 ++ e :: s2' ++ [x']) with ((s1 ++ e :: s2') ++ [x']) in E
      by (rewrite <- app_assoc; reflexivity).
    apply app_inj_tail in E. destruct E as [E1 E2]. subst x'. split; [exact Es2|symmetry; exact E1].
Qed.

Lemma snoc_split_top {A} (s1 s2 rest : list A) cur :
  s1 ++ cur :: s2 = rest ++ [cur] -> ~ In cur s2 -> s2 = [] /\ s1 = rest.
Proof.
  intros E Hn. destruct s2 as [|y s2].
  - change (s1 ++ [cur] = rest ++ [cur]) in E. apply app_inj_tail in E. tauto.
  - exfalso. destruct (exists_last (l := y :: s2)) as (s2' & x' & Es2); [discriminate|].
    rewrite Es2 in E, Hn.
    replace (s1 ++ cur :: s2' ++ [x']) with ((s1 ++ cur :: s2') ++ [x']) in E
      by (rewrite <- app_assoc; reflexivity).
    apply app_inj_tail in E. destruct E as [_ E2]. subst x'.
    apply Hn. apply in_or_app. right. left. reflexivity.
Qed.

Lemma list_sum_le_drop {A} (f f' : A -> nat) (l : list A) x0 k :
  (forall x, In x l -> f' x <= f x) -> In x0 l -> f' x0 + k <= f x0 ->
  list_sum (map f' l) + k <= list_sum (map f l).
Proof.
  induction l as [|x l IH]; intros Hle Hin Hk; [destruct Hin|]. simpl.
  assert (Hmono : forall m, (forall y, In y m -> f' y <= f y) -> list_sum (map f' m) <= list_sum (map f m)).
  { induction m as [|y m IHm]; intros H; simpl; [lia|].
    pose proof (H y (or_introl eq_refl)). assert (list_sum (map f' m) <= list_sum (map f m)) by (apply IHm; intros; apply H; right; assumption). lia. }
  destruct Hin as [->|Hin].
  - assert (list_sum (map f' l) <= list_sum (map f l)) by (apply Hmono; intros; apply Hle; right; assumption). lia.
  - pose proof (Hle x (or_introl eq_refl)).
    assert (list_sum (map f' l) + k <= list_sum (map f l)) by (apply IH; auto; intros; apply Hle; right; assumption). lia.
Qed.

Lemma list_sum_le_pointwise {A} (f f' : A -> nat) (l : list A) :
  (forall x, In x l -> f' x <= f x) -> list_sum (map f' l) <= list_sum (map f l).
Proof.
  induction l as [|y m IHm]; intros H; simpl; [lia|].
  pose proof (H y (or_introl eq_refl)).
  assert (list_sum (map f' m) <= list_sum (map f m)) by (apply IHm; intros; apply H; right; assumption). lia.
Qed.

Lemma filter_length_le {A} (p : A -> bool) l : length (filter p l) <= length l.
Proof. induction l as [|x l IH]; simpl; [lia|]. destruct (p x); simpl; lia. Qed.

Section Stack.
  Variable c : circuit.
  Variable a : assignment.
  Hypothesis Hwf : WF c.
  Hypothesis Har : arity_ok c.
  Variable rank : label -> nat.
  Hypothesis Hrank : forall l g o, dget (gates c) l = Some g -> In o (gops g) -> rank o < rank l.

  (* weight of the labels that may still be expanded *)
  Definition wt (d : assignment) (E : list label) : nat :=
    list_sum (map (fun kg : label * gate =>
                     if dmem d (fst kg) || memb (fst kg) E then 0 else 2 * length (gops (snd kg)))
                  (gates c)).

  Definition expanded_ok (d : assignment) (stack : list label) (e : label) : Prop :=
    exists s1 s2, stack = s1 ++ e :: s2 /\ ~ In e s2 /\
      (forall x, In x s2 -> rank x < rank e) /\
      (forall g o, dget (gates c) e = Some g -> In o (gops g) -> dmem d o = false -> In o s2).

  Record stack_inv (d : assignment) (stack E : list label) : Prop := {
    si_sound : sound c a d;
    si_stack : forall l, In l stack -> exists g, dget (gates c) l = Some g /\ gtyp g <> INPUT;
    si_inputs : forall l g, dget (gates c) l = Some g -> gtyp g = INPUT -> dmem d l = true;
    si_closed : forall l g, dget (gates c) l = Some g -> gtyp g <> INPUT -> dmem d l = true ->
                            forall o, In o (gops g) -> dmem d o = true;
    si_exp : forall e, In e E -> dmem d e = false -> expanded_ok d stack e }.

  Lemma wt_dset d E l v : wt (dset d l v) E <= wt d E.
  Proof.
    unfold wt. apply list_sum_le_pointwise. intros [k g] _. simpl.
    rewrite dmem_dset. destruct (dmem d k); [rewrite orb_true_r; simpl; lia|].
    destruct (leqb k l); simpl; [lia|]. destruct (memb k E); lia.
  Qed.

  Lemma wt_expand d E l g :
    dget (gates c) l = Some g -> dmem d l = false -> memb l E = false ->
    wt d (l :: E) + 2 * length (gops g) <= wt d E.
  Proof.
    intros Hg Hd HE. unfold wt. apply list_sum_le_drop with (x0 := (l, g)).
    - intros [k g'] _. simpl. destruct (dmem d k); simpl; [lia|].
      destruct (leqb k l); simpl; [lia|]. destruct (memb k E); lia.
    - apply dget_In; exact Hg.
    - simpl. rewrite leqb_refl, Hd, HE. simpl. lia.
  Qed.

  Lemma stack_loop_ok : forall fuel d stack E,
    stack_inv d stack E -> length stack + wt d E < fuel ->
    exists d', eval_stack_loop fuel c d stack = Ok d'.
  Proof.
    induction fuel as [|fuel IH]; intros d stack E Hinv Hfuel; [lia|]. simpl.
    destruct (pop_last_cases stack) as [[-> Hp]|(cur & rest & -> & Hp)]; rewrite Hp; [eauto|].
    destruct (si_stack _ _ _ Hinv cur) as (g & Hg & Ht); [apply in_or_app; right; left; reflexivity|].
    unfold get_gate. rewrite Hg. simpl.
    destruct (filter (fun op => negb (dmem d op)) (gops g)) as [|p ps] eqn:Ef.
    - (* (A) evaluate cur *)
      assert (Hops : forall o, In o (gops g) -> dmem d o = true).
      { intros o Ho. destruct (dmem d o) eqn:Em; [reflexivity|exfalso].
        assert (In o (filter (fun op => negb (dmem d op)) (gops g))) as Hin
          by (apply filter_In; split; [exact Ho|rewrite Em; reflexivity]).
        rewrite Ef in Hin. destruct Hin. }
      destruct (eval_gate_ok c a d cur g Har (si_sound _ _ _ Hinv) Hg Ht Hops) as (v & Hv & Hev).
      rewrite Hv. simpl. apply (IH _ _ E).
      + constructor.
        * apply sound_dset; [apply (si_sound _ _ _ Hinv)|exact Hev].
        * intros l Hl. apply (si_stack _ _ _ Hinv). apply in_or_app; left; exact Hl.
        * intros l g' Hg' Ht'. rewrite dmem_dset, (si_inputs _ _ _ Hinv l g' Hg' Ht'). apply orb_true_r.
        * intros l g' Hg' Ht' Hm o Ho. rewrite dmem_dset in *.
          destruct (leqb_spec l cur) as [->|Hne].
          -- rewrite Hg in Hg'. injection Hg' as <-. rewrite (Hops o Ho). apply orb_true_r.
          -- simpl in Hm. rewrite (si_closed _ _ _ Hinv l g' Hg' Ht' Hm o Ho). apply orb_true_r.
        * intros e He Hm. rewrite dmem_dset in Hm. apply orb_false_iff in Hm. destruct Hm as [Hne Hm].
          apply leqb_neq in Hne.
          destruct (si_exp _ _ _ Hinv e He Hm) as (s1 & s2 & Es & Hn & Hr & Ho).
          destruct (snoc_split_last _ _ _ _ _ (eq_sym Es) Hne) as (s2' & -> & ->).
          exists s1, s2'. split; [reflexivity|]. split; [intros Hx; apply Hn; apply in_or_app; left; exact Hx|].
          split; [intros x Hx; apply Hr; apply in_or_app; left; exact Hx|].
          intros g' o Hg' Hin Hmo. rewrite dmem_dset in Hmo. apply orb_false_iff in Hmo.
          destruct Hmo as [Hoc Hmo]. apply leqb_neq in Hoc.
          specialize (Ho g' o Hg' Hin Hmo). apply in_app_or in Ho.
          destruct Ho as [Ho|[Ho|[]]]; [exact Ho|congruence].
      + pose proof (wt_dset d E cur v). rewrite app_length in Hfuel. simpl in Hfuel. lia.
    - (* (B) expand cur *)
      set (pushed := p :: ps) in *.
      assert (Hpushed : forall o, In o pushed <-> In o (gops g) /\ dmem d o = false).
      { intros o. rewrite <- Ef, filter_In, negb_true_iff. tauto. }
      assert (Hp_in : In p pushed) by (left; reflexivity).
      assert (Hcur_un : dmem d cur = false).
      { destruct (dmem d cur) eqn:Em; [|reflexivity]. apply Hpushed in Hp_in. destruct Hp_in as [Hpo Hpm].
        rewrite (si_closed _ _ _ Hinv cur g Hg Ht Em p Hpo) in Hpm. discriminate. }
      assert (Hcur_E : memb cur E = false).
      { destruct (memb cur E) eqn:Em; [|reflexivity]. exfalso. apply memb_In in Em.
        destruct (si_exp _ _ _ Hinv cur Em Hcur_un) as (s1 & s2 & Es & Hn & Hr & Ho).
        destruct (snoc_split_top _ _ _ _ (eq_sym Es) Hn) as [-> _].
        apply Hpushed in Hp_in. destruct Hp_in as [Hpo Hpm]. apply (Ho g p Hg Hpo Hpm). }
      assert (Hlen : length pushed <= length (gops g)).
      { rewrite <- Ef. apply filter_length_le. }
      assert (Hlen1 : 1 <= length pushed) by (unfold pushed; simpl; lia).
      apply (IH _ _ (cur :: E)).
      + constructor.
        * apply (si_sound _ _ _ Hinv).
        * intros l Hl. apply in_app_or in Hl. destruct Hl as [Hl|Hl]; [apply (si_stack _ _ _ Hinv); exact Hl|].
          apply Hpushed in Hl. destruct Hl as [Hlo Hlm].
          assert (has_gate c l = true) as Hh by (eapply (wf_ops c Hwf); eauto).
          apply has_gate_dget in Hh. destruct Hh as [g' Hg']. exists g'. split; [exact Hg'|].
          intros Ht'. rewrite (si_inputs _ _ _ Hinv l g' Hg' Ht') in Hlm. discriminate.
        * apply (si_inputs _ _ _ Hinv).
        * apply (si_closed _ _ _ Hinv).
        * intros e He Hm. destruct He as [<-|He].
          -- exists rest, pushed. split; [rewrite <- app_assoc; reflexivity|].
             split; [intros Hx; apply Hpushed in Hx; destruct Hx as [Hx _]; pose proof (Hrank _ _ _ Hg Hx); lia|].
             split; [intros x Hx; apply Hpushed in Hx; destruct Hx as [Hx _]; eapply Hrank; eauto|].
             intros g' o Hg' Hin Hmo. rewrite Hg in Hg'. injection Hg' as <-. apply Hpushed. tauto.
          -- destruct (si_exp _ _ _ Hinv e He Hm) as (s1 & s2 & Es & Hn & Hr & Ho).
             assert (Hne : e <> cur) by (intros ->; apply memb_nIn in Hcur_E; contradiction).
             destruct (snoc_split_last _ _ _ _ _ (eq_sym Es) Hne) as (s2' & -> & ->).
             assert (Hrc : rank cur < rank e) by (apply Hr; apply in_or_app; right; left; reflexivity).
             exists s1, ((s2' ++ [cur]) ++ pushed). split; [rewrite <- !app_assoc; reflexivity|].
             split.
             { intros Hx. apply in_app_or in Hx. destruct Hx as [Hx|Hx]; [contradiction|].
               apply Hpushed in Hx. destruct Hx as [Hx _]. pose proof (Hrank _ _ _ Hg Hx). lia. }
             split.
             { intros x Hx. apply in_app_or in Hx. destruct Hx as [Hx|Hx]; [apply Hr; exact Hx|].
               apply Hpushed in Hx. destruct Hx as [Hx _]. pose proof (Hrank _ _ _ Hg Hx). lia. }
             intros g' o Hg' Hin Hmo. apply in_or_app. left. eapply Ho; eauto.
      + pose proof (wt_expand d E cur g Hg Hcur_un Hcur_E). rewrite !app_length in *. simpl in *. lia.
  Qed.

  Lemma wt_init d : wt d [] <= 2 * sum_arity c.
  Proof.
    rewrite sum_arity_list_sum. unfold wt.
    assert (H : forall l : list (label * gate),
               2 * list_sum (map (fun kg => length (gops (snd kg))) l) =
               list_sum (map (fun kg : label * gate => 2 * length (gops (snd kg))) l)).
    { induction l as [|x l IH]; simpl; [reflexivity|]. simpl in IH. lia. }
    rewrite H. apply list_sum_le_pointwise. intros [k g] _. simpl.
    destruct (dmem d k || false); lia.
  Qed.
End Stack.

Lemma init_stack_inv c a rank stack : WF c -> assigns_inputs_only c a ->
  (forall o, In o stack -> has_gate c o = true /\ ~ In o (inputs c)) ->
  stack_inv c a rank (init_assignment c a) stack [].
Proof.
  intros Hwf Ha Hst. constructor.
  - apply init_assignment_sound; [apply WF_inputs_are_input_gates|]; assumption.
  - intros l Hl. destruct (Hst l Hl) as [Hh Hn]. apply has_gate_dget in Hh. destruct Hh as [g Hg].
    exists g. split; [exact Hg|]. intros Ht. apply Hn. apply (wf_inputs c Hwf). eauto.
  - intros l g Hg Ht. rewrite init_assignment_mem.
    assert (In l (inputs c)) as Hi by (apply (wf_inputs c Hwf); eauto).
    apply memb_In in Hi. rewrite Hi. apply orb_true_r.
  - intros l g Hg Ht Hm. exfalso. rewrite init_assignment_mem in Hm.
    assert (In l (inputs c)) as Hi.
    { apply orb_true_iff in Hm. destruct Hm as [Hm|Hm]; [apply Ha; exact Hm|apply memb_In; exact Hm]. }
    apply (wf_inputs c Hwf) in Hi. destruct Hi as (g' & Hg' & Ht'). congruence.
  - intros e [].
Qed.

(* ---- Goal 3: fuel adequacy and totality of evaluate_circuit ---- *)
Definition requested (c : circuit) (outs : option (list label)) : list label :=
  match outs with Some o => o | None => outputs c end.

Theorem evaluate_circuit_fuel_adequate c a outs fuel : WF c -> arity_ok c -> assigns_inputs_only c a ->
  (forall o, In o (requested c outs) -> has_gate c o = true) ->
  eval_fuel c (requested c outs) <= fuel ->
  exists d, evaluate_circuit_fuel fuel c a outs = Ok d.
Proof.
  intros Hwf Har Ha Houts Hfuel. destruct (wf_acyclic c Hwf) as [rank Hrank].
  unfold evaluate_circuit_fuel. fold (requested c outs).
  set (stack := filter (fun o => negb (memb o (inputs c))) (requested c outs)).
  destruct (stack_loop_ok c a Hwf Har rank Hrank fuel (init_assignment c a) stack [])
    as [d Hd].
  - apply init_stack_inv; try assumption. intros o Ho. apply filter_In in Ho. destruct Ho as [Ho Hn].
    split; [apply Houts; exact Ho|]. apply negb_true_iff, memb_nIn in Hn. exact Hn.
  - pose proof (wt_init c (init_assignment c a)).
    pose proof (filter_length_le (fun o => negb (memb o (inputs c))) (requested c outs)).
    fold stack in H0. unfold eval_fuel in Hfuel. lia.
  - rewrite Hd. simpl. eauto.
Qed.

Theorem evaluate_circuit_total c a outs : WF c -> arity_ok c -> assigns_inputs_only c a ->
  (forall o, In o (requested c outs) -> has_gate c o = true) ->
  exists d, evaluate_circuit c a outs = Ok d.
Proof.
  intros Hwf Har Ha Houts. unfold evaluate_circuit. fold (requested c outs).
  apply evaluate_circuit_fuel_adequate; auto.
Qed.

(* totality + exactness at the requested outputs, soundness elsewhere, every gate is a key *)
Theorem evaluate_circuit_complete c a outs : WF c -> arity_ok c -> assigns_inputs_only c a ->
  (forall o, In o (requested c outs) -> has_gate c o = true) ->
  exists d, evaluate_circuit c a outs = Ok d /\
    (forall o, In o (requested c outs) -> exists v, dget d o = Some v /\ Eval c a o v) /\
    (forall l v, dget d l = Some v -> Eval c a l v \/ v = U) /\
    (forall l, has_gate c l = true <-> dmem d l = true).
Proof.
  intros Hwf Har Ha Houts. destruct (evaluate_circuit_total c a outs Hwf Har Ha Houts) as [d Hd].
  exists d. split; [exact Hd|].
  pose proof (WF_inputs_are_input_gates c Hwf) as Hin.
  destruct (evaluate_circuit_sound _ c a outs d Hin Ha Hd) as [H1 H2].
  split; [exact H2|]. split; [exact H1|].
  intros l. unfold evaluate_circuit, evaluate_circuit_fuel in Hd.
  destruct (eval_stack_loop _ c (init_assignment c a) _) as [d1|] eqn:El; simpl in Hd; [|discriminate].
  injection Hd as <-. unfold dmem. rewrite setdefaults_get. fold (has_gate c l). split.
  - intros Hl. apply has_gate_key, memb_In in Hl. rewrite Hl. destruct (dget d1 l); reflexivity.
  - intros Hm. destruct (dget d1 l) as [v|] eqn:E.
    + destruct (eval_stack_loop_sound c a _ _ _ _ (init_assignment_sound c a Hin Ha) El) as (Hs & _ & _).
      eapply Eval_has_gate. apply Hs. exact E.
    + destruct (memb l (dkeys (gates c))) eqn:Em; [|discriminate]. apply has_gate_key, memb_In. exact Em.
Qed.

(* ---- "the part of the circuit unreachable from the outputs will be Undefined" ---- *)
Lemma reach_subset nx (S S' : list label) l :
  (forall s, In s S' -> reach nx S s) -> reach nx S' l -> reach nx S l.
Proof. intros H. apply reach_closed; [exact H|]. intros x y Hx Hy. eapply reach_step; eauto. Qed.

Lemma eval_stack_loop_reach c : forall fuel d stack r,
  eval_stack_loop fuel c d stack = Ok r ->
  forall l, dmem r l = true -> dmem d l = true \/ reach (ops_of c) stack l.
Proof.
  induction fuel as [|fuel IH]; intros d stack r; simpl; [discriminate|].
  destruct (pop_last_cases stack) as [[-> Hp]|(cur & rest & -> & Hp)]; rewrite Hp.
  - intros [= <-] l Hl. left; exact Hl.
  - destruct (get_gate c cur) as [g|] eqn:Eg; simpl; [|discriminate]. apply get_gate_ok in Eg.
    destruct (filter (fun op => negb (dmem d op)) (gops g)) as [|p ps] eqn:Ef.
    + destruct (eval_gate d g) as [v|]; simpl; [|discriminate]. intros H l Hl.
      destruct (IH _ _ _ H l Hl) as [Hd|Hr].
      * rewrite dmem_dset in Hd. apply orb_true_iff in Hd. destruct Hd as [Hd|Hd]; [|left; exact Hd].
        apply leqb_eq in Hd. subst l. right. apply reach_start. apply in_or_app. right. left. reflexivity.
      * right. eapply reach_subset; [|exact Hr]. intros s Hs. apply reach_start. apply in_or_app. left. exact Hs.
    + intros H l Hl. destruct (IH _ _ _ H l Hl) as [Hd|Hr]; [left; exact Hd|right].
      eapply reach_subset; [|exact Hr]. intros s Hs. apply in_app_or in Hs. destruct Hs as [Hs|Hs].
      * apply reach_start; exact Hs.
      * apply reach_step with (a := cur); [apply reach_start; apply in_or_app; right; left; reflexivity|].
        unfold ops_of. rewrite Eg. rewrite <- Ef in Hs. apply filter_In in Hs. apply Hs.
Qed.

Theorem evaluate_circuit_unreached fuel c a outs d l :
  assigns_inputs_only c a -> evaluate_circuit_fuel fuel c a outs = Ok d ->
  has_gate c l = true -> ~ In l (inputs c) -> ~ reach (ops_of c) (requested c outs) l ->
  dget d l = Some U.
Proof.
  intros Ha. unfold evaluate_circuit_fuel. fold (requested c outs).
  destruct (eval_stack_loop fuel c (init_assignment c a) _) as [r|] eqn:El; simpl; [|discriminate].
  intros [= <-] Hl Hni Hnr. rewrite setdefaults_get.
  apply has_gate_key, memb_In in Hl. rewrite Hl.
  destruct (dget r l) as [v|] eqn:E; [exfalso|reflexivity].
  destruct (eval_stack_loop_reach c _ _ _ _ El l) as [Hd|Hr]; [unfold dmem; rewrite E; reflexivity| |].
  - rewrite init_assignment_mem in Hd. apply orb_true_iff in Hd.
    destruct Hd as [Hd|Hd]; [apply Hni, Ha, Hd|apply Hni, memb_In, Hd].
  - apply Hnr. eapply reach_subset; [|exact Hr]. intros s Hs. apply filter_In in Hs.
    apply reach_start. apply Hs.
Qed.
