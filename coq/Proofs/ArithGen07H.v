(* Generated/ArithGen07.v (translator T18) equals the hand model, part H: the three generate_* wrappers of
   summation.py (Model/ArithSumW.v), on the input labels the source builds (str(0) .. str(n-1) of
   Circuit.bare_circuit(n)), and the conjunction that Properties/C07.v states. *)
Require Import Cirbo.Model.Base Cirbo.Model.Gate Cirbo.Model.Circuit Cirbo.Model.Builder Cirbo.Model.PyPrims.
Require Import Cirbo.Generated.ArithTables Cirbo.Generated.ArithCells Cirbo.Generated.ArithGen09 Cirbo.Generated.ArithGen07.
Require Import Cirbo.Model.ArithSub Cirbo.Model.ArithSum2 Cirbo.Model.ArithSumN Cirbo.Model.ArithSumW Cirbo.Model.ArithGen
  Cirbo.Model.PyPrimsSum.
Require Import Cirbo.Proofs.ArithGenFacts.
Require Import Cirbo.Proofs.ArithGen09Lib Cirbo.Proofs.ArithGen09A.
Require Import Cirbo.Proofs.ArithGen07Lib Cirbo.Proofs.ArithGen07A Cirbo.Proofs.ArithGen07B Cirbo.Proofs.ArithGen07C
  Cirbo.Proofs.ArithGen07D Cirbo.Proofs.ArithGen07E Cirbo.Proofs.ArithGen07F Cirbo.Proofs.ArithGen07G.
From Coq Require Import ZArith Lia Ascii.
Open Scope Z_scope.

Theorem gen_generate_sum_n_bits_eq fresh k0 n basis be :
  gen_generate_sum_n_bits fresh k0 n basis be = generate_sum_n_bits fresh k0 (py_bare_labels n) basis be.
Proof.
  unfold gen_generate_sum_n_bits, generate_sum_n_bits, gen_set_outputs, py_bare_circuit.
  destruct (circuit_with_inputs (py_bare_labels n)) as [c|e] eqn:Ec; cbn [bind]; [|reflexivity].
  apply circuit_with_inputs_spec in Ec. destruct Ec as [Ei _]. rewrite Ei.
  rewrite (run_peq fresh _ _ _ _ (gen_add_sum_n_bits_eq _ _ _)). rewrite <- run_ret_r.
  destruct (run fresh _ _) as [[r st]|e]; cbn [bind fst snd]; [|reflexivity].
  destruct (set_outputs _ _); reflexivity.
Qed.

(* [(weights[i], circuit.inputs[i]) for i in range(n)] *)
Lemma mapP_combine (F : Z -> prog (Z * label)) (ws : list Z) (ins : list label) :
  length ins = length ws ->
  (forall i, (i < length ws)%nat -> peq (F (Z.of_nat i)) (Ret (nth i ws 0, nth i ins ""%string))) ->
  forall k i, (i + k = length ws)%nat ->
  peq (mapP F (map Z.of_nat (seq i k))) (Ret (combine (skipn i ws) (skipn i ins))).
Proof.
  intros Hl HF. induction k as [|k IH]; intros i Hi fr s.
  - cbn [seq map mapP]. rewrite !skipn_all2 by lia. reflexivity.
  - cbn [seq map mapP]. rewrite (run_peq fr _ _ _ _ (HF i ltac:(lia))). norm.
    rewrite (run_peq fr _ _ _ _ (IH (S i) ltac:(lia))). norm.
    rewrite (skipn_nth ws i 0), (skipn_nth ins i ""%string) by lia. reflexivity.
Qed.

Lemma toZ_combine (ws : list N) (ins : list label) : toZ (combine ws ins) = combine (map Z.of_N ws) ins.
Proof.
  revert ins; induction ws as [|w ws IH]; intros [|x ins]; try reflexivity.
  cbn [combine map toZ]. unfold toZ in IH. rewrite IH. reflexivity.
Qed.

Lemma map_snd_toZ r : map snd (toZ r) = map snd r.
Proof. unfold toZ. rewrite map_map. reflexivity. Qed.

Lemma py_bare_labels_length n : length (py_bare_labels (Z.of_nat n)) = n.
Proof. unfold py_bare_labels, py_range. rewrite !map_length, seq_length. lia. Qed.

(* the common part of the two weighted wrappers: G is gen_add_sum_n_weighted_bits(_naive), H the hand model *)
Lemma weighted_wrapper fresh k0 (ws : list N) (basis : basis_arg)
      (G : list (Z * label) -> basis_arg -> prog (list (Z * label)))
      (H : basis_arg -> list witem -> prog (list witem))
      (FM : circuit -> Z -> prog (Z * label)) :
  (forall inp b, peq (G (toZ inp) b) (bdo r <- H b inp; Ret (toZ r))) ->
  (forall c i, (i < length ws)%nat -> length (inputs c) = length ws ->
     peq (FM c (Z.of_nat i)) (Ret (nth i (map Z.of_N ws) 0, nth i (inputs c) ""%string))) ->
  (do circuit <- py_bare_circuit (py_len (map Z.of_N ws));
   do run_r <- run fresh (bdo pw <- mapP (FM circuit) (py_range 0 (py_len (map Z.of_N ws)));
                          bdo t <- G pw basis; Ret (map (fun i => snd i) t)) (mkB circuit k0);
   let '(outs, run_st) := run_r in
   let circuit := bc run_st in
   do circuit <- set_outputs circuit outs; Ok circuit)
  = gen_set_outputs fresh k0 (py_bare_labels (Z.of_nat (length ws)))
      (bdo r <- H basis (combine ws (py_bare_labels (Z.of_nat (length ws)))); Ret (map snd r)).
Proof.
  intros HG HF. unfold gen_set_outputs, py_bare_circuit, py_len. rewrite map_length.
  set (ins := py_bare_labels (Z.of_nat (length ws))).
  assert (Li : length ins = length ws) by apply py_bare_labels_length.
  destruct (circuit_with_inputs ins) as [c|e] eqn:Ec; cbn [bind]; [|reflexivity].
  apply circuit_with_inputs_spec in Ec. destruct Ec as [Ei _].
  rewrite py_range_0_nat.
  rewrite (run_peq fresh _ _ _ _ (mapP_combine _ (map Z.of_N ws) ins ltac:(rewrite map_length; exact Li)
             ltac:(intros i Hi; rewrite map_length in Hi; rewrite <- Ei; apply HF; [assumption|rewrite Ei; exact Li])
             (length ws) 0
             ltac:(rewrite map_length; reflexivity))).
  norm. cbn [skipn]. rewrite <- toZ_combine. rewrite (run_peq fresh _ _ _ _ (HG _ _)). norm.
  rewrite !run_bind. destruct (run fresh _ _) as [[r st]|e]; cbn [bind fst snd]; [|reflexivity].
  cbv beta iota. rewrite run_ret_l, !run_ret. cbn [bind fst snd].
  change (map (fun i : Z * label => snd i) (toZ r)) with (map snd (toZ r)). rewrite map_snd_toZ.
  destruct (set_outputs _ _); reflexivity.
Qed.

Theorem gen_generate_sum_weighted_bits_efficient_eq fresh k0 ws basis :
  gen_generate_sum_weighted_bits_efficient fresh k0 (map Z.of_N ws) basis
  = generate_sum_weighted_bits_efficient fresh k0 (py_bare_labels (Z.of_nat (length ws))) ws basis.
Proof.
  unfold gen_generate_sum_weighted_bits_efficient, generate_sum_weighted_bits_efficient. cbv zeta.
  apply (weighted_wrapper fresh k0 ws basis gen_add_sum_n_weighted_bits add_sum_n_weighted_bits).
  - apply gen_add_sum_n_weighted_bits_eq.
  - intros c i Hi Hl fr s. cbv beta.
    rewrite (py_nth_ok (map Z.of_N ws) i 0) by (rewrite map_length; exact Hi). norm.
    rewrite (py_nth_ok_label (inputs c) i) by lia. norm. reflexivity.
Qed.

Theorem gen_generate_sum_weighted_bits_naive_eq fresh k0 ws basis :
  gen_generate_sum_weighted_bits_naive fresh k0 (map Z.of_N ws) basis
  = generate_sum_weighted_bits_naive fresh k0 (py_bare_labels (Z.of_nat (length ws))) ws basis.
Proof.
  unfold gen_generate_sum_weighted_bits_naive, generate_sum_weighted_bits_naive. cbv zeta.
  apply (weighted_wrapper fresh k0 ws basis gen_add_sum_n_weighted_bits_naive add_sum_n_weighted_bits_naive).
  - apply gen_add_sum_n_weighted_bits_naive_eq.
  - intros c i Hi Hl fr s. cbv beta.
    rewrite (py_nth_ok (map Z.of_N ws) i 0) by (rewrite map_length; exact Hi). norm.
    rewrite (py_nth_ok_label (inputs c) i) by lia. norm. reflexivity.
Qed.

(* ---- everything together (Properties/C07.v: C07_generators_regenerated) ------------------------------------ *)
Theorem sum_generators_regenerated :
  (forall a b be fresh s,
     run fresh (gen_add_sum_two_numbers a b be) s = run fresh (add_sum_two_numbers a b be) s) /\
  (forall shift a b be fresh s,
     run fresh (gen_add_sum_two_numbers_with_shift (Z.of_nat shift) a b be) s
     = run fresh (add_sum_two_numbers_with_shift shift a b be) s) /\
  (forall xs be fresh s,
     run fresh (gen_add_sum_n_bits_easy xs be) s = run fresh (add_sum_n_bits_easy be xs) s) /\
  (forall xs be basis fresh s,
     run fresh (gen_add_sum_pow2_m1 xs be basis) s = run fresh (add_sum_pow2_m1 basis be xs) s) /\
  (forall xs basis be fresh s,
     run fresh (gen_add_sum_n_bits xs basis be) s = run fresh (add_sum_n_bits basis be xs) s) /\
  (forall xs fresh s,
     run fresh (gen__add_sum_n_bits xs) s = run fresh (add_sum_n_bits_xaig xs) s) /\
  (forall xs fresh s,
     run fresh (gen__add_sum_n_bits_aig xs) s = run fresh (add_sum_n_bits_aig xs) s) /\
  (* Python ints are Z in the generated text and N in the hand model: non-negative weights *)
  (forall inp basis fresh s,
     run fresh (gen_add_sum_n_weighted_bits_naive (map (fun p => (Z.of_N (fst p), snd p)) inp) basis) s
     = run fresh (bdo r <- add_sum_n_weighted_bits_naive basis inp; Ret (map (fun p => (Z.of_N (fst p), snd p)) r)) s) /\
  (forall inp basis fresh s,
     run fresh (gen_add_sum_n_weighted_bits (map (fun p => (Z.of_N (fst p), snd p)) inp) basis) s
     = run fresh (bdo r <- add_sum_n_weighted_bits basis inp; Ret (map (fun p => (Z.of_N (fst p), snd p)) r)) s) /\
  (* the generate_* wrappers, on the input labels the source builds *)
  (forall fresh k0 n basis be,
     gen_generate_sum_n_bits fresh k0 n basis be = generate_sum_n_bits fresh k0 (py_bare_labels n) basis be) /\
  (forall fresh k0 ws basis,
     gen_generate_sum_weighted_bits_efficient fresh k0 (map Z.of_N ws) basis
     = generate_sum_weighted_bits_efficient fresh k0 (py_bare_labels (Z.of_nat (length ws))) ws basis) /\
  (forall fresh k0 ws basis,
     gen_generate_sum_weighted_bits_naive fresh k0 (map Z.of_N ws) basis
     = generate_sum_weighted_bits_naive fresh k0 (py_bare_labels (Z.of_nat (length ws))) ws basis).
Proof.
  repeat split.
  - intros; apply gen_add_sum_two_numbers_eq.
  - intros; apply gen_add_sum_two_numbers_with_shift_eq.
  - intros; apply gen_add_sum_n_bits_easy_eq.
  - intros; apply gen_add_sum_pow2_m1_eq.
  - intros; apply gen_add_sum_n_bits_eq.
  - intros; apply gen__add_sum_n_bits_eq.
  - intros; apply gen__add_sum_n_bits_aig_eq.
  - intros; apply gen_add_sum_n_weighted_bits_naive_eq.
  - intros; apply gen_add_sum_n_weighted_bits_eq.
  - intros; apply gen_generate_sum_n_bits_eq.
  - intros; apply gen_generate_sum_weighted_bits_efficient_eq.
  - intros; apply gen_generate_sum_weighted_bits_naive_eq.
Qed.

(* the side condition shift >= 0 cannot be dropped: with shift = -1 the Python slices and ranges count from the
   end and the implementation raises IndexError, which the hand model's nat parameter cannot express *)
Example with_shift_negative_differs :
  let host := match circuit_with_inputs ["a"; "b"; "c"]%string with Ok c => c | Err _ => empty_circuit end in
  run short_label (gen_add_sum_two_numbers_with_shift (-1) ["a"; "b"] ["c"] false)%string (mkB host 0) = Err PyIndexError /\
  exists r, run short_label (add_sum_two_numbers_with_shift (Z.to_nat (-1)) ["a"; "b"] ["c"] false)%string (mkB host 0) = Ok r.
Proof. vm_compute. split; [reflexivity|eexists; reflexivity]. Qed.
