(* Generated/ArithGen08.v (translator T19) equals the hand model, part E: add_mul_dadda of multiplication.py.
   The generated code keeps the n + m deques in one list c and updates c[i] / c[i + 1] in place; the hand model walks
   down the list of columns. *)
Require Import Cirbo.Model.Base Cirbo.Model.Gate Cirbo.Model.Circuit Cirbo.Model.Builder Cirbo.Model.PyPrims.
Require Import Cirbo.Model.ArithSub Cirbo.Model.ArithSum2 Cirbo.Model.ArithSumN Cirbo.Model.ArithSumW.
Require Import Cirbo.Model.PyPrims08 Cirbo.Model.ArithMul.
Require Import Cirbo.Generated.ArithTables Cirbo.Generated.ArithCells Cirbo.Generated.ArithGen08.
Require Import Cirbo.Proofs.ArithGen09Lib Cirbo.Proofs.ArithGen08Lib Cirbo.Proofs.ArithGen08A Cirbo.Proofs.ArithGen08B
  Cirbo.Proofs.ArithGen08C.
From Coq Require Import ZArith Lia Ascii Arith.
Open Scope Z_scope.

Notation cols_t := (list (list label)) (only parsing).

(* ---- one column: while len(c[i]) >= di: <half or full adder on the first elements> ------------------------------ *)
(* the cell of one iteration, as the hand model spells it *)
Definition red_step (di : nat) (cur : list label) : prog (list label * (label * label)) :=
  if (length cur =? di)%nat
  then match cur with
       | x :: y :: cur' => bdo r <- add_sum2 [x; y]; bdo g <- unpack2 r; Ret (cur', g)
       | _ => Fail PyIndexError
       end
  else match cur with
       | x :: y :: z :: cur' => bdo r <- add_sum3 [x; y; z]; bdo g <- unpack2 r; Ret (cur', g)
       | _ => Fail PyIndexError
       end.

Definition is_nil {A} (l : list A) : bool := match l with [] => true | _ => false end.
(* c[i + 1].append(g) if there is a column i + 1 *)
Definition app_hd (tl : cols_t) (g : label) : cols_t :=
  match tl with [] => [] | nx :: r => (nx ++ [g]) :: r end.
Definition set_hd (tl : cols_t) (x : list label) : cols_t :=
  match tl with [] => [] | _ :: r => x :: r end.

Lemma app_hd_length tl g : length (app_hd tl g) = length tl.
Proof. destruct tl; reflexivity. Qed.

Lemma reduce_col_eq (CND : cols_t -> prog bool) (BDY : cols_t -> prog cols_t) (di i lt : nat) :
  (forall done cur tl, length done = i -> length tl = lt ->
     peq (CND (done ++ cur :: tl)) (Ret (Z.of_nat (length cur) >=? Z.of_nat di))) ->
  (forall done cur tl, length done = i -> length tl = lt ->
     peq (BDY (done ++ cur :: tl))
         (bdo st <- red_step di cur;
          Ret (done ++ (fst st ++ [fst (snd st)]) :: app_hd tl (snd (snd st))))) ->
  forall fuel done cur tl, length done = i -> length tl = lt ->
  peq (py_while_m fuel CND BDY (done ++ cur :: tl))
      (bdo r <- reduce_col fuel di (negb (is_nil tl)) cur (hd [] tl);
       Ret (done ++ fst r :: set_hd tl (snd r))).
Proof.
  intros HC HB. induction fuel as [|f IH]; intros done cur tl Hd Ht fresh s.
  - cbn [py_while_m reduce_col]. rs. rewrite HC by assumption. rs.
    rewrite Z.geb_leb. destruct (Nat.ltb_spec (length cur) di) as [H|H].
    + destruct (Z.leb_spec (Z.of_nat di) (Z.of_nat (length cur))); [lia|]. rs. cbn [fst snd].
      destruct tl; reflexivity.
    + destruct (Z.leb_spec (Z.of_nat di) (Z.of_nat (length cur))); [|lia]. reflexivity.
  - cbn [py_while_m reduce_col]. rs. rewrite HC by assumption. rs.
    rewrite Z.geb_leb. destruct (Nat.ltb_spec (length cur) di) as [H|H].
    + destruct (Z.leb_spec (Z.of_nat di) (Z.of_nat (length cur))); [lia|]. rs. cbn [fst snd].
      destruct tl; reflexivity.
    + destruct (Z.leb_spec (Z.of_nat di) (Z.of_nat (length cur))); [|lia]. rs.
      rewrite HB by assumption. rs. fold (red_step di cur).
      destruct (run fresh (red_step di cur) s) as [[[cur' [g1 g2]] s1]|e]; rs; [|reflexivity]. cbn [fst snd].
      rewrite (IH done (cur' ++ [g1]) (app_hd tl g2) Hd) by (rewrite app_hd_length; exact Ht). rs.
      destruct tl as [|nx tl']; cbn [app_hd is_nil negb hd set_hd]; reflexivity.
Qed.

(* ---- one pass: for i in range(1, n + m): <reduce column i> ------------------------------------------------------ *)
Lemma dadda_cols_fold (F : cols_t -> Z -> prog cols_t) (di K : nat) :
  (forall done cur tl, (length done + S (length tl) = K)%nat ->
     peq (F (done ++ cur :: tl) (Z.of_nat (length done)))
         (bdo r <- reduce_col (length cur) di (negb (is_nil tl)) cur (hd [] tl);
          Ret (done ++ fst r :: set_hd tl (snd r)))) ->
  forall tl done cur, (length done + S (length tl) = K)%nat ->
  peq (foldP F (map Z.of_nat (seq (length done) (S (length tl)))) (done ++ cur :: tl))
      (bdo t <- dadda_cols di cur tl; Ret (done ++ t)).
Proof.
  intros HF. induction tl as [|nx tl IH]; intros done cur HK fresh s.
  - cbn [length seq map foldP dadda_cols]. rs. rewrite HF by exact HK. rs. cbn [is_nil negb hd set_hd].
    destruct (run fresh (reduce_col (length cur) di false cur []) s) as [[r s1]|e]; rs; reflexivity.
  - replace (seq (length done) (S (length (nx :: tl)))) with (length done :: seq (S (length done)) (S (length tl)))
      by reflexivity.
    cbn [map foldP dadda_cols]. rs. rewrite HF by exact HK. rs. cbn [is_nil negb hd set_hd].
    destruct (run fresh (reduce_col (length cur) di true cur nx) s) as [[[c1 nx1] s1]|e]; rs; [|reflexivity].
    cbn [fst snd].
    replace (done ++ c1 :: nx1 :: tl) with ((done ++ [c1]) ++ nx1 :: tl) by (rewrite <- app_assoc; reflexivity).
    replace (S (length done)) with (length (done ++ [c1])) by (rewrite app_length; cbn [length]; lia).
    rewrite IH by (rewrite app_length; cbn [length] in *; lia). rs.
    destruct (run fresh (dadda_cols di nx1 tl) s1) as [[t s2]|e]; rs; [|reflexivity].
    rewrite <- app_assoc. reflexivity.
Qed.

Lemma dadda_pass_fold (F : cols_t -> Z -> prog cols_t) (di K : nat) :
  (forall done cur tl, (length done + S (length tl) = K)%nat ->
     peq (F (done ++ cur :: tl) (Z.of_nat (length done)))
         (bdo r <- reduce_col (length cur) di (negb (is_nil tl)) cur (hd [] tl);
          Ret (done ++ fst r :: set_hd tl (snd r)))) ->
  forall cols, length cols = K -> peq (foldP F (py_range 1 (Z.of_nat K)) cols) (dadda_pass di cols).
Proof.
  intros HF cols HK. rewrite (py_range_nat 1). subst K.
  destruct cols as [|c0 [|c1 rest]]; cbn [length dadda_pass].
  - apply peq_refl.
  - apply peq_refl.
  - replace (S (S (length rest)) - 1)%nat with (S (length rest)) by lia.
    eapply peq_trans; [apply (dadda_cols_fold F di _ HF rest [c0] c1); reflexivity|].
    intros fresh s. rs. destruct (run fresh (dadda_cols di c1 rest) s) as [[t s1]|e]; reflexivity.
Qed.

Lemma dadda_cols_length di : forall tl cur, returns (dadda_cols di cur tl) (fun t => length t = S (length tl)).
Proof.
  induction tl as [|nx tl IH]; intros cur fresh s t s'; cbn [dadda_cols]; rs.
  - destruct (run fresh (reduce_col (length cur) di false cur []) s) as [[r s1]|e]; rs; [|discriminate].
    intros H; inversion H; reflexivity.
  - destruct (run fresh (reduce_col (length cur) di true cur nx) s) as [[r s1]|e]; rs; [|discriminate].
    destruct (run fresh (dadda_cols di (snd r) tl) s1) as [[t' s2]|e] eqn:E; rs; [|discriminate].
    intros H; inversion H; subst. cbn [length]. f_equal. eapply IH; exact E.
Qed.

Lemma dadda_pass_length di cols : returns (dadda_pass di cols) (fun t => length t = length cols).
Proof.
  intros fresh s t s'. destruct cols as [|c0 [|c1 rest]]; cbn [dadda_pass]; rs; try (intros H; inversion H; reflexivity).
  destruct (run fresh (dadda_cols di c1 rest) s) as [[t' s1]|e] eqn:E; rs; [|discriminate].
  intros H; inversion H; subst. apply dadda_cols_length in E. cbn [length]. lia.
Qed.

(* ---- while di != 1: <pass>; di = 1 if di == 2 else (2 * di + 2) // 3 ------------------------------------------- *)
Definition next_di (di : nat) : nat := if (di =? 2)%nat then 1%nat else ((2 * di + 2) / 3)%nat.

Lemma dadda_main_eq (P : cols_t * Z -> prog (cols_t * Z)) (K : nat) :
  (forall cols di, length cols = K ->
     peq (P (cols, Z.of_nat di)) (bdo cols' <- dadda_pass di cols; Ret (cols', Z.of_nat (next_di di)))) ->
  forall fuel di cols, length cols = K ->
  peq (py_while fuel (fun '(c, di) => negb (di =? 1)) P (cols, Z.of_nat di))
      (bdo cols' <- dadda_main fuel di cols; Ret (cols', 1)).
Proof.
  intros HP. induction fuel as [|f IH]; intros di cols Hc fresh s; cbn [py_while dadda_main].
  - change 1 with (Z.of_nat 1) at 1. destruct (Nat.eqb_spec di 1) as [->|H].
    + rewrite Z.eqb_refl. reflexivity.
    + destruct (Z.eqb_spec (Z.of_nat di) (Z.of_nat 1)); [lia|]. reflexivity.
  - change 1 with (Z.of_nat 1) at 1. destruct (Nat.eqb_spec di 1) as [->|H].
    + rewrite Z.eqb_refl. reflexivity.
    + destruct (Z.eqb_spec (Z.of_nat di) (Z.of_nat 1)); [lia|]. cbn [negb]. rs. rewrite HP by exact Hc. rs.
      destruct (run fresh (dadda_pass di cols) s) as [[cols' s1]|e] eqn:E; rs; [|reflexivity].
      apply dadda_pass_length in E. fold (next_di di). apply IH. lia.
Qed.

(* di = 2; while 3 * di // 2 < min(n, m): di = 3 * di // 2 *)
Lemma dadda_start_eq fresh s lim : forall fuel di, (2 <= di)%nat -> (lim <= fuel + di)%nat ->
  run fresh (py_while fuel (fun di => 3 * di / 2 <? Z.of_nat lim) (fun di => Ret (3 * di / 2)) (Z.of_nat di)) s
  = Ok (Z.of_nat (dadda_start fuel di lim), s).
Proof.
  assert (E : forall di, 3 * Z.of_nat di / 2 = Z.of_nat (3 * di / 2)).
  { intros di. rewrite (Nat2Z.inj_div (3 * di) 2), Nat2Z.inj_mul. reflexivity. }
  assert (G : forall di, (2 <= di)%nat -> (di + 1 <= 3 * di / 2)%nat).
  { intros di H. pose proof (Nat.div_mod (3 * di) 2). pose proof (Nat.mod_upper_bound (3 * di) 2). lia. }
  induction fuel as [|f IH]; intros di H2 Hl; cbn [py_while dadda_start]; cbv beta; rewrite E, Z_ltb_nat.
  - destruct (Nat.ltb_spec (3 * di / 2) lim) as [H|H]; [|reflexivity]. specialize (G di H2). lia.
  - destruct (Nat.ltb_spec (3 * di / 2) lim) as [H|H]; [|reflexivity]. rs.
    specialize (G di H2). apply IH; lia.
Qed.

(* ---- out = []; for i in range(n + m): out.append(c[i].popleft()) ------------------------------------------------- *)
Lemma popleft_fold {B} (G : list label * cols_t -> Z -> prog (list label * cols_t)) (K : list label -> prog B) :
  (forall out c i, (i < length c)%nat ->
     peq (G (out, c) (Z.of_nat i)) (bdo x <- first_of (nth i c []); Ret (out ++ [x], upd c i (tl (nth i c []))))) ->
  forall k i out c, (i + k = length c)%nat ->
  peq (bdo r <- foldP G (map Z.of_nat (seq i k)) (out, c); let '(out, _) := r in K out)
      (bdo xs <- mapP first_of (skipn i c); K (out ++ xs)).
Proof.
  intros HG. induction k as [|k IH]; intros i out c Hi fresh s.
  - rewrite skipn_all2 by lia. cbn [seq map foldP mapP]. rs. rewrite app_nil_r. reflexivity.
  - rewrite (skipn_nth c i []) by lia. cbn [seq map foldP mapP]. rs. rewrite HG by lia. rs.
    destruct (run fresh (first_of (nth i c [])) s) as [[x s1]|e]; rs; [|reflexivity].
    specialize (IH (S i) (out ++ [x]) (upd c i (tl (nth i c [])))). rewrite upd_length in IH.
    specialize (IH ltac:(lia) fresh s1). rewrite run_bind in IH. rewrite IH. rs.
    rewrite skipn_upd_lt by lia.
    destruct (run fresh (mapP first_of (skipn (S i) c)) s1) as [[xs s2]|e]; rs; [|reflexivity].
    rewrite <- app_assoc. reflexivity.
Qed.

(* ---- the columns: c[i + j].append(<product of a[j] and b[i]>) ---------------------------------------------------- *)
Definition app_at (c : cols_t) (k : nat) (g : label) : cols_t := upd c k (nth k c [] ++ [g]).
Definition col_putr (c : cols_t) (i : nat) (row : list label) : cols_t :=
  put_row (fun c j g => app_at c (i + j) g) c 0 row.

Lemma put_row_app_at_nth (i : nat) : forall row c j0 k, (i + j0 + length row <= length c)%nat ->
  length (put_row (fun c j g => app_at c (i + j) g) c j0 row) = length c /\
  nth k (put_row (fun c j g => app_at c (i + j) g) c j0 row) []
  = nth k c [] ++ (if ((i + j0 <=? k) && (k <? i + j0 + length row))%nat
                   then [nth (k - i - j0) row ""%string] else []).
Proof.
  induction row as [|g row IH]; intros c j0 k Hl; cbn [put_row length] in *.
  - split; [reflexivity|].
    destruct (Nat.leb_spec (i + j0) k), (Nat.ltb_spec k (i + j0 + 0)); cbn [andb]; rewrite ?app_nil_r; try reflexivity; lia.
  - destruct (IH (app_at c (i + j0) g) (S j0) k) as [L N]; [unfold app_at; rewrite upd_length; lia|].
    assert (La : length (app_at c (i + j0) g) = length c) by (unfold app_at; apply upd_length).
    rewrite La in L. split; [exact L|]. rewrite N. unfold app_at.
    destruct (Nat.eqb_spec k (i + j0)) as [->|Hk].
    + rewrite nth_upd_same by lia.
      destruct (Nat.leb_spec (i + S j0) (i + j0)); [lia|]. cbn [andb]. rewrite app_nil_r.
      rewrite Nat.leb_refl. destruct (Nat.ltb_spec (i + j0) (i + j0 + S (length row))); [|lia]. cbn [andb].
      replace (i + j0 - i - j0)%nat with 0%nat by lia. reflexivity.
    + rewrite nth_upd_other by lia. f_equal.
      destruct (Nat.leb_spec (i + S j0) k), (Nat.leb_spec (i + j0) k), (Nat.ltb_spec k (i + S j0 + length row)),
        (Nat.ltb_spec k (i + j0 + S (length row))); cbn [andb]; try reflexivity; try lia.
      replace (k - i - j0)%nat with (S (k - i - S j0)) by lia. reflexivity.
Qed.

Lemma put_rows_col_nth (n : nat) : forall rows c i0 k, Forall (fun r => length r = n) rows ->
  (i0 + length rows + n <= S (length c))%nat ->
  length (put_rows col_putr c i0 rows) = length c /\
  nth k (put_rows col_putr c i0 rows) []
  = nth k c [] ++ flat_map (fun r => if ((r <=? k) && (k - r <? n))%nat
                                     then [nth (k - r) (nth (r - i0) rows []) ""%string] else [])
                           (seq i0 (length rows)).
Proof.
  induction rows as [|row rows IH]; intros c i0 k Hf Hl; cbn [put_rows length seq flat_map] in *.
  - split; [reflexivity|]. rewrite app_nil_r. reflexivity.
  - inversion Hf as [|? ? Hr Hf']; subst.
    destruct (put_row_app_at_nth i0 row c 0 k) as [L1 N1]; [lia|].
    destruct (IH (col_putr c i0 row) (S i0) k Hf') as [L N]; [unfold col_putr; rewrite L1; lia|].
    assert (La : length (col_putr c i0 row) = length c) by exact L1.
    rewrite La in L. split; [exact L|]. rewrite N. unfold col_putr at 1. rewrite N1.
    rewrite <- app_assoc. f_equal. rewrite Nat.sub_diag. cbn [nth]. rewrite !Nat.add_0_r. f_equal.
    + destruct (Nat.leb_spec i0 k), (Nat.ltb_spec k (i0 + length row)), (Nat.ltb_spec (k - i0) (length row));
        cbn [andb]; try reflexivity; try lia. replace (k - i0 - 0)%nat with (k - i0)%nat by lia. reflexivity.
    + apply flat_map_ext_in. intros r Hr'. apply in_seq in Hr'.
      replace (r - i0)%nat with (S (r - S i0)) by lia. reflexivity.
Qed.

Lemma diagonals_idx (c : cols_t) m n (Hc : is_matrix m n c) : forall k i,
  diagonals k (acts c m i) (skipn i c) = map (diag c m n) (seq i k).
Proof.
  induction k as [|k IH]; intros i; cbn [diagonals seq map]; [reflexivity|].
  rewrite (acts1_step c m n Hc), (heads1_acts1 c m n Hc), acts_tl, skipn_1_skipn. f_equal. apply IH.
Qed.

Lemma nth_ext_lists {A} (l1 l2 : list (list A)) :
  length l1 = length l2 -> (forall k, (k < length l1)%nat -> nth k l1 [] = nth k l2 []) -> l1 = l2.
Proof.
  revert l2; induction l1 as [|x l1 IH]; intros [|y l2] Hl H; cbn [length] in *; try reflexivity; try lia.
  f_equal; [apply (H 0%nat); lia|]. apply IH; [lia|]. intros k Hk. apply (H (S k)). lia.
Qed.

Lemma dadda_columns_eq (mat : cols_t) m n : is_matrix m n mat ->
  put_rows col_putr (repeat [] (n + m)) 0 mat = diagonals (n + m) [] mat.
Proof.
  intros Hm. destruct Hm as [Lm Fm].
  assert (Ea : acts mat m 0 = []) by reflexivity.
  replace (diagonals (n + m) [] mat) with (diagonals (n + m) (acts mat m 0) (skipn 0 mat)) by (rewrite Ea; reflexivity).
  rewrite (diagonals_idx mat m n (conj Lm Fm)).
  apply nth_ext_lists.
  - destruct (put_rows_col_nth n mat (repeat [] (n + m)) 0 0 Fm) as [L _]; [rewrite repeat_length; lia|].
    rewrite L, repeat_length, map_length, seq_length. reflexivity.
  - intros k Hk.
    destruct (put_rows_col_nth n mat (repeat [] (n + m)) 0 k Fm) as [L N]; [rewrite repeat_length; lia|].
    rewrite L, repeat_length in Hk. rewrite N.
    replace (nth k (repeat [] (n + m)) []) with (@nil label) by (symmetry; apply nth_repeat).
    cbn [app]. rewrite (nth_indep _ [] (diag mat m n 0)) by (rewrite map_length, seq_length; lia).
    rewrite map_nth. rewrite seq_nth by lia. cbn [Nat.add]. unfold diag. rewrite Lm.
    destruct (Nat.le_gt_cases (S k) m) as [H|H].
    + replace (seq 0 m) with (seq 0 (S k) ++ seq (0 + S k) (m - S k)) by (rewrite <- seq_app; f_equal; lia).
      rewrite flat_map_app. rewrite (flat_map_nil_in _ (seq (0 + S k) (m - S k))).
      * rewrite app_nil_r. apply flat_map_ext_in. intros r Hr. apply in_seq in Hr.
        destruct (Nat.leb_spec r k); [|lia]. destruct (Nat.ltb_spec r m); [|lia]. cbn [andb].
        rewrite Nat.sub_0_r. reflexivity.
      * intros r Hr. apply in_seq in Hr. destruct (Nat.leb_spec r k); [lia|]. reflexivity.
    + replace (seq 0 (S k)) with (seq 0 m ++ seq (0 + m) (S k - m)) by (rewrite <- seq_app; f_equal; lia).
      rewrite flat_map_app. rewrite (flat_map_nil_in _ (seq (0 + m) (S k - m))).
      * rewrite app_nil_r. apply flat_map_ext_in. intros r Hr. apply in_seq in Hr.
        destruct (Nat.leb_spec r k); [|lia]. destruct (Nat.ltb_spec r m); [|lia]. cbn [andb].
        rewrite Nat.sub_0_r. reflexivity.
      * intros r Hr. apply in_seq in Hr. destruct (Nat.ltb_spec r m); [lia|]. reflexivity.
Qed.

Lemma diagonals_len {A} k : forall (act pend : list (list A)), length (diagonals k act pend) = k.
Proof. induction k as [|k IH]; intros act pend; cbn [diagonals length]; [reflexivity|]. rewrite IH. reflexivity. Qed.

Lemma dadda_main_length : forall fuel di cols, returns (dadda_main fuel di cols) (fun t => length t = length cols).
Proof.
  induction fuel as [|f IH]; intros di cols fresh s t s'; cbn [dadda_main]; destruct (di =? 1)%nat; rs;
    try (intros H; inversion H; reflexivity); try discriminate.
  destruct (run fresh (dadda_pass di cols) s) as [[c1 s1]|e] eqn:E; rs; [|discriminate].
  intros H. apply IH in H. apply dadda_pass_length in E. lia.
Qed.

(* the middle of a list *)
Lemma py_nth_mid {A} (done : list A) cur tl : py_nth (done ++ cur :: tl) (Z.of_nat (length done)) = Ret cur.
Proof.
  rewrite (py_nth_ok _ (length done) cur) by (rewrite app_length; cbn [length]; lia).
  rewrite app_nth2, Nat.sub_diag by lia. reflexivity.
Qed.

Lemma py_set_mid {A} (done : list A) cur tl v :
  py_set (done ++ cur :: tl) (Z.of_nat (length done)) v = Ret (done ++ v :: tl).
Proof.
  rewrite py_set_nat by (rewrite app_length; cbn [length]; lia). f_equal.
  rewrite (upd_app_mid done cur v tl). rewrite <- app_assoc. reflexivity.
Qed.

Lemma py_nth_mid1 {A} (done : list A) cur nx tl :
  py_nth (done ++ cur :: nx :: tl) (Z.of_nat (length done) + 1) = Ret nx.
Proof.
  replace (done ++ cur :: nx :: tl) with ((done ++ [cur]) ++ nx :: tl) by (rewrite <- app_assoc; reflexivity).
  replace (Z.of_nat (length done) + 1) with (Z.of_nat (length (done ++ [cur]))) by (rewrite app_length; cbn [length]; lia).
  apply py_nth_mid.
Qed.

Lemma py_set_mid1 {A} (done : list A) cur nx tl v :
  py_set (done ++ cur :: nx :: tl) (Z.of_nat (length done) + 1) v = Ret (done ++ cur :: v :: tl).
Proof.
  replace (done ++ cur :: nx :: tl) with ((done ++ [cur]) ++ nx :: tl) by (rewrite <- app_assoc; reflexivity).
  replace (Z.of_nat (length done) + 1) with (Z.of_nat (length (done ++ [cur]))) by (rewrite app_length; cbn [length]; lia).
  rewrite py_set_mid. rewrite <- app_assoc. reflexivity.
Qed.

(* ---- add_mul_dadda ------------------------------------------------------------------------------------------------ *)
Lemma py_unpack2_unpack2' {A} (l : list A) : py_unpack2 l = unpack2 l.
Proof. reflexivity. Qed.

Ltac mid :=
  repeat (rs; first [ rewrite py_nth_mid | rewrite py_set_mid | rewrite py_nth_mid1 | rewrite py_set_mid1
                   | progress cbn [py_popleft] ]); rs.

Theorem gen_add_mul_dadda_eq a0 b0 be : peq (gen_add_mul_dadda a0 b0 be) (add_mul_dadda a0 b0 be).
Proof.
  unfold gen_add_mul_dadda, add_mul_dadda. intros fresh s. cbv zeta.
  rewrite run_bind, run_if_rev2. cbv beta iota.
  set (a := rev_if be a0). set (b := rev_if be b0).
  unfold py_len.
  replace (length a0) with (length a) by apply rev_if_length.
  replace (length b0) with (length b) by apply rev_if_length.
  clearbody a b. set (n := length a). set (m := length b).
  assert (Hn : length a = n) by reflexivity. assert (Hm : length b = m) by reflexivity. clearbody n m.
  rewrite <- !Nat2Z.inj_add. rewrite map_const_range.
  rewrite run_bind.
  rewrite !py_range_0_nat.
  rewrite (rows_fold_gen _ (pp_row a) col_putr (fun c => length c = (n + m)%nat) (fun r => length r = n) b).
  2:{ intros x. rewrite <- Hn. apply pp_row_length. }
  2:{ intros c i row Hc Hi Hr. unfold col_putr.
      destruct (put_row_app_at_nth i row c 0 0) as [L _]; [lia|]. rewrite L. exact Hc. }
  2:{ intros c i Hi Hc fr st. cbv beta. rs.
      rewrite (row_fold_gen _ (fun aj => gate_tt tt_and aj (nth i b ""%string)) (fun c j g => app_at c (i + j) g)
                 (fun c => length c = (n + m)%nat) a n); [ | lia | | | lia | exact Hc ].
      - cbn [skipn]. rewrite firstn_all2 by lia. fold (pp_row a (nth i b ""%string)). rs. fold (col_putr c i).
        destruct (run fr (pp_row a (nth i b ""%string)) st) as [[row s1]|e]; rs; reflexivity.
      - intros c' j g Hc' Hj. unfold app_at. rewrite upd_length. exact Hc'.
      - intros c' j Hj Hc' fr' st'. cbv beta. rs.
        rewrite <- Nat2Z.inj_add. rewrite (py_nth_ok c' (i + j) []) by lia. rs.
        rewrite (py_nth_ok_label _ j) by lia. rs. rewrite (py_nth_ok_label _ i) by lia. rs.
        change (TT false false false true) with tt_and.
        destruct (run fr' (gate_tt tt_and (nth j a ""%string) (nth i b ""%string)) st') as [[g s1]|e]; rs; [|reflexivity].
        rewrite py_set_nat by lia. rs. reflexivity. }
  2:{ lia. }
  2:{ apply repeat_length. }
  cbn [skipn]. fold (pp_matrix a b). rs.
  destruct (run fresh (pp_matrix a b) s) as [[mat s1]|e] eqn:E; rs; [|reflexivity].
  apply pp_matrix_returns in E. rewrite Hn, Hm in E.
  rewrite (dadda_columns_eq mat m n E).
  set (cols := diagonals (n + m) [] mat).
  assert (Lc : length cols = (n + m)%nat) by apply diagonals_len.
  clearbody cols.
  rewrite !Z_of_nat_eqb_1.
  destruct ((n =? 1)%nat || (m =? 1)%nat) eqn:E1.
  { (* a one-bit operand: the columns are the result *)
    assert (H1 : (1 <= m + n)%nat) by (apply Bool.orb_true_iff in E1 as [H|H]; apply Nat.eqb_eq in H; lia).
    set (l := firstn (m + n - 1) cols).
    assert (Ll : length l = (m + n - 1)%nat) by (unfold l; rewrite firstn_length; lia).
    replace (Z.of_nat (m + n) - 1) with (Z.of_nat (length l)) by lia. rs.
    rewrite (mapP_index l _ first_of []).
    - destruct (run fresh (mapP first_of l) s1) as [[r s2]|e]; rs; [|reflexivity].
      rewrite gen_reverse_if_big_endian_run. reflexivity.
    - intros i Hi fr st. rs. rewrite (py_nth_ok cols i []) by lia. rs. rewrite py_nth_0.
      unfold l. rewrite nth_firstn_lt by lia. destruct (nth i cols []); reflexivity. }
  rs.
  (* the height sequence starts at the largest d_j below min(n, m) *)
  rewrite <- Nat2Z.inj_min, Nat2Z.id.
  change 2 with (Z.of_nat 2) at 3.
  rewrite (dadda_start_eq fresh s1 (Nat.min n m) (Nat.min n m) 2) by lia. rs.
  set (d0 := dadda_start (Nat.min n m) 2 (Nat.min n m)).
  replace (Z.to_nat (Z.of_nat d0 + 1)) with (S d0) by lia.
  rewrite (dadda_main_eq _ (n + m)); [ | | exact Lc ].
  2:{ (* one pass *)
      intros cs di Hcs fr st. cbv beta iota. rs.
      rewrite (dadda_pass_fold _ di (n + m)); [ | | exact Hcs ].
      2:{ (* one column *)
          intros done cur tl HK fr' st'. cbv beta. rs.
          rewrite py_nth_mid. rs. rewrite Nat2Z.id.
          rewrite (reduce_col_eq _ _ di (length done) (length tl)); [ | | | reflexivity | reflexivity ].
          - rs. destruct (run fr' (reduce_col (length cur) di (negb (is_nil tl)) cur (hd [] tl)) st') as [[r s2]|e]; rs; reflexivity.
          - (* the loop condition *)
            intros done' cur' tl' Hd Ht fr2 st2. rs. rewrite <- Hd, py_nth_mid. rs. reflexivity.
          - (* the loop body *)
            intros done' cur' tl' Hd Ht fr2 st2. rs. rewrite <- Hd. unfold red_step.
            assert (Enext : (Z.of_nat (length done') + 1 <? Z.of_nat (n + m)) = negb (is_nil tl')).
            { destruct tl'; cbn [is_nil negb length] in *; [apply Z.ltb_ge|apply Z.ltb_lt]; lia. }
            rewrite Enext.
            change (Z.of_nat (length cur') =? Z.of_nat di) with (Z.of_nat (length cur') =? Z.of_nat di).
            rewrite py_nth_mid. rs.
            replace (Z.of_nat (length cur') =? Z.of_nat di) with (length cur' =? di)%nat
              by (destruct (Nat.eqb_spec (length cur') di) as [->|H]; [symmetry; apply Z.eqb_refl|symmetry; apply Z.eqb_neq; lia]).
            destruct (length cur' =? di)%nat.
            + destruct cur' as [|x [|y cur2]]; mid; try reflexivity.
              destruct (run fr2 (add_sum2 [x; y]) st2) as [[r s3]|e]; rs; [|reflexivity].
              rewrite py_unpack2_unpack2'.
              destruct (run fr2 (unpack2 r) s3) as [[[g1 g2] s4]|e]; rs; [|reflexivity]. cbn [fst snd].
              mid. destruct tl' as [|nx tl2]; cbn [is_nil negb app_hd]; mid; reflexivity.
            + destruct cur' as [|x [|y [|z cur2]]]; mid; try reflexivity.
              destruct (run fr2 (add_sum3 [x; y; z]) st2) as [[r s3]|e]; rs; [|reflexivity].
              rewrite py_unpack2_unpack2'.
              destruct (run fr2 (unpack2 r) s3) as [[[g1 g2] s4]|e]; rs; [|reflexivity]. cbn [fst snd].
              mid. destruct tl' as [|nx tl2]; cbn [is_nil negb app_hd]; mid; reflexivity. }
      rs. destruct (run fr (dadda_pass di cs) st) as [[cs' s2]|e]; rs; [|reflexivity].
      unfold next_di. change 2 with (Z.of_nat 2) at 1.
      destruct (Nat.eqb_spec di 2) as [->|H2].
      - rewrite Z.eqb_refl. rs. reflexivity.
      - destruct (Z.eqb_spec (Z.of_nat di) (Z.of_nat 2)); [lia|]. rs.
        rewrite (Nat2Z.inj_div (2 * di + 2) 3), Nat2Z.inj_add, Nat2Z.inj_mul. reflexivity. }
  rs.
  destruct (run fresh (dadda_main (S d0) d0 cols) s1) as [[cols' s2]|e] eqn:E2; rs; [|reflexivity].
  apply dadda_main_length in E2.
  (* the first element of every column *)
  rewrite <- run_bind.
  rewrite (popleft_fold _ (fun out => bdo t <- gen_reverse_if_big_endian out be; Ret t) ) with (k := (n + m)%nat) (i := 0%nat);
    [ | | lia ].
  2:{ intros out c i Hi fr st. cbv beta iota. rs. rewrite (py_nth_ok c i []) by exact Hi. rs.
      destruct (nth i c []) as [|x r]; cbn [py_popleft first_of tl]; rs; [reflexivity|].
      rewrite py_set_nat by exact Hi. rs. reflexivity. }
  cbn [skipn app]. rs.
  destruct (run fresh (mapP first_of cols') s2) as [[r s3]|e]; rs; [|reflexivity].
  rewrite gen_reverse_if_big_endian_run. reflexivity.
Qed.
