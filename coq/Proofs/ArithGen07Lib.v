(* Tools for Proofs/ArithGen07*.v (translator T18, the summation generators of C07):
   Python lists used as stacks (the hand model keeps them reversed), the primitives of Model/PyPrimsSum.v on
   such lists, unrolling of py_while / py_while_c, and symbolic-execution tactics. *)
Require Import Cirbo.Model.Base Cirbo.Model.Gate Cirbo.Model.Circuit Cirbo.Model.Builder Cirbo.Model.PyPrims.
Require Import Cirbo.Model.ArithSub Cirbo.Model.ArithSumN Cirbo.Model.ArithSumW Cirbo.Model.PyPrimsSum.
Require Import Cirbo.Proofs.ArithGen09Lib.
From Coq Require Import ZArith Lia Ascii.
Open Scope Z_scope.

(* ---- a Python list whose END is the top of a stack: l = rev st ---------------------------------- *)
Lemma py_len_rev {A} (st : list A) : py_len (rev st) = Z.of_nat (length st).
Proof. unfold py_len. rewrite rev_length. reflexivity. Qed.

Lemma nth_error_rev {A} (st : list A) k : (k < length st)%nat ->
  nth_error (rev st) (length st - S k) = nth_error st k.
Proof.
  revert k; induction st as [|a st IH]; intros k H; cbn [length] in *; [lia|].
  cbn [rev]. destruct k as [|k].
  - rewrite nth_error_app2 by (rewrite rev_length; lia).
    rewrite rev_length. replace (S (length st) - 1 - length st)%nat with 0%nat by lia. reflexivity.
  - rewrite nth_error_app1 by (rewrite rev_length; lia).
    replace (S (length st) - S (S k))%nat with (length st - S k)%nat by lia.
    cbn [nth_error]. apply IH. lia.
Qed.

(* l[-(k+1)] is element k of the stack *)
Lemma py_nth_neg {A} (st : list A) k : py_nth (rev st) (- Z.of_nat (S k)) = nthP st k.
Proof.
  unfold py_nth, py_pos. rewrite py_len_rev.
  destruct (Z.ltb_spec (- Z.of_nat (S k)) 0) as [_|H]; [|lia].
  destruct (Nat.lt_ge_cases k (length st)) as [Hk|Hk].
  - destruct (Z.ltb_spec (- Z.of_nat (S k) + Z.of_nat (length st)) 0) as [H|_]; [lia|].
    replace (Z.to_nat (- Z.of_nat (S k) + Z.of_nat (length st))) with (length st - S k)%nat by lia.
    unfold nthP, nth_res. rewrite nth_error_rev by exact Hk. reflexivity.
  - destruct (Z.ltb_spec (- Z.of_nat (S k) + Z.of_nat (length st)) 0) as [_|H]; [|lia].
    symmetry. apply nthP_err. exact Hk.
Qed.

Lemma py_nth_m1 {A} (st : list A) : py_nth (rev st) (-1) = nthP st 0.
Proof. exact (py_nth_neg st 0). Qed.
Lemma py_nth_m2 {A} (st : list A) : py_nth (rev st) (-2) = nthP st 1.
Proof. exact (py_nth_neg st 1). Qed.
Lemma py_nth_m3 {A} (st : list A) : py_nth (rev st) (-3) = nthP st 2.
Proof. exact (py_nth_neg st 2). Qed.

Lemma removelast_snoc {A} (l : list A) a : removelast (l ++ [a]) = l.
Proof. apply removelast_last. Qed.

Lemma py_pop_rev {A} (a : A) st : py_pop (rev (a :: st)) = Ret (rev st).
Proof.
  unfold py_pop. cbn [rev]. rewrite removelast_snoc.
  destruct (rev st ++ [a]) eqn:E; [|reflexivity]. destruct (rev st); discriminate E.
Qed.

Lemma rev_push {A} (st : list A) x : rev st ++ [x] = rev (x :: st).
Proof. reflexivity. Qed.

(* now[-1:-(k+1):-1] for k = 2, 3: the k topmost elements, top first *)
Lemma nth_error_rev_top {A} (pre : list A) (st : list A) j :
  (j < length pre)%nat ->
  nth_error (rev (pre ++ st)) (length st + (length pre - S j)) = nth_error pre j.
Proof.
  intros H.
  replace (length st + (length pre - S j))%nat with (length (pre ++ st) - S j)%nat by (rewrite app_length; lia).
  rewrite nth_error_rev by (rewrite app_length; lia).
  apply nth_error_app1. exact H.
Qed.

Lemma nth_error_top {A} (pre st : list A) j k x :
  nth_error pre j = Some x -> (k = length st + (length pre - S j))%nat -> nth_error (rev (pre ++ st)) k = Some x.
Proof.
  intros H ->. rewrite nth_error_rev_top; [exact H|]. apply nth_error_Some. congruence.
Qed.

Lemma py_slice_down_top3 {A} (a b c : A) st :
  py_slice_down (rev (a :: b :: c :: st)) (Some (-1)) (Some (-4)) = [a; b; c].
Proof.
  unfold py_slice_down, py_clamp_down, py_pos. rewrite py_len_rev. cbn [length].
  change (-1 <? 0) with true. change (-4 <? 0) with true. cbv iota.
  set (n := length st).
  destruct (Z.ltb_spec (-1 + Z.of_nat (S (S (S n)))) 0) as [H|_]; [lia|].
  destruct (Z.geb_spec (-1 + Z.of_nat (S (S (S n)))) (Z.of_nat (S (S (S n))))) as [H|_]; [lia|].
  assert (E : (if -4 + Z.of_nat (S (S (S n))) <? 0 then -1
               else if -4 + Z.of_nat (S (S (S n))) >=? Z.of_nat (S (S (S n)))
                    then Z.of_nat (S (S (S n))) - 1 else -4 + Z.of_nat (S (S (S n)))) = Z.of_nat n - 1).
  { destruct (Z.ltb_spec (-4 + Z.of_nat (S (S (S n)))) 0); [lia|].
    destruct (Z.geb_spec (-4 + Z.of_nat (S (S (S n)))) (Z.of_nat (S (S (S n))))); lia. }
  rewrite E. unfold py_range_down.
  replace (Z.to_nat (-1 + Z.of_nat (S (S (S n))) - (Z.of_nat n - 1))) with 3%nat by lia.
  cbn [seq map flat_map].
  change (a :: b :: c :: st) with ([a; b; c] ++ st).
  rewrite (nth_error_top [a; b; c] st 0 _ a), (nth_error_top [a; b; c] st 1 _ b),
    (nth_error_top [a; b; c] st 2 _ c) by (try reflexivity; cbn [length]; subst n; lia).
  reflexivity.
Qed.

Lemma py_slice_down_top2 {A} (a b : A) st :
  py_slice_down (rev (a :: b :: st)) (Some (-1)) (Some (-3)) = [a; b].
Proof.
  unfold py_slice_down, py_clamp_down, py_pos. rewrite py_len_rev. cbn [length].
  change (-1 <? 0) with true. change (-3 <? 0) with true. cbv iota.
  set (n := length st).
  destruct (Z.ltb_spec (-1 + Z.of_nat (S (S n))) 0) as [H|_]; [lia|].
  destruct (Z.geb_spec (-1 + Z.of_nat (S (S n))) (Z.of_nat (S (S n)))) as [H|_]; [lia|].
  assert (E : (if -3 + Z.of_nat (S (S n)) <? 0 then -1
               else if -3 + Z.of_nat (S (S n)) >=? Z.of_nat (S (S n))
                    then Z.of_nat (S (S n)) - 1 else -3 + Z.of_nat (S (S n))) = Z.of_nat n - 1).
  { destruct (Z.ltb_spec (-3 + Z.of_nat (S (S n))) 0); [lia|].
    destruct (Z.geb_spec (-3 + Z.of_nat (S (S n))) (Z.of_nat (S (S n)))); lia. }
  rewrite E. unfold py_range_down.
  replace (Z.to_nat (-1 + Z.of_nat (S (S n)) - (Z.of_nat n - 1))) with 2%nat by lia.
  cbn [seq map flat_map].
  change (a :: b :: st) with ([a; b] ++ st).
  rewrite (nth_error_top [a; b] st 0 _ a), (nth_error_top [a; b] st 1 _ b)
    by (try reflexivity; cbn [length]; subst n; lia).
  reflexivity.
Qed.

(* ---- comparisons of len with the literals the source uses ----------------------------------------- *)
Lemma py_len_gtb {A} (l : list A) k : (py_len l >? Z.of_nat k) = (k <? length l)%nat.
Proof.
  unfold py_len. rewrite Z.gtb_ltb. apply Z_ltb_nat.
Qed.
Lemma py_len_gtb0 {A} (l : list A) : (py_len l >? 0) = (0 <? length l)%nat.
Proof. exact (py_len_gtb l 0). Qed.
Lemma py_len_gtb1 {A} (l : list A) : (py_len l >? 1) = (1 <? length l)%nat.
Proof. exact (py_len_gtb l 1). Qed.
Lemma py_len_gtb2 {A} (l : list A) : (py_len l >? 2) = (2 <? length l)%nat.
Proof. exact (py_len_gtb l 2). Qed.
Lemma py_len_eqbk {A} (l : list A) k : (py_len l =? Z.of_nat k) = (length l =? k)%nat.
Proof.
  unfold py_len. destruct (Nat.eqb_spec (length l) k) as [H|H].
  - rewrite H. apply Z.eqb_refl.
  - apply Z.eqb_neq. lia.
Qed.
Lemma py_len_eqb1 {A} (l : list A) : (py_len l =? 1) = (length l =? 1)%nat.
Proof. exact (py_len_eqbk l 1). Qed.
Lemma py_len_eqb2 {A} (l : list A) : (py_len l =? 2) = (length l =? 2)%nat.
Proof. exact (py_len_eqbk l 2). Qed.
Lemma py_len_geb {A} (l : list A) k : (py_len l >=? Z.of_nat k) = (k <=? length l)%nat.
Proof.
  unfold py_len. rewrite Z.geb_leb.
  destruct (Nat.leb_spec k (length l)); [apply Z.leb_le|apply Z.leb_gt]; lia.
Qed.

(* decide a length comparison on a list of known shape *)
Ltac lendec :=
  rewrite ?py_len_gtb0, ?py_len_gtb1, ?py_len_gtb2, ?py_len_eqb1, ?py_len_eqb2;
  rewrite ?rev_length; cbn [length Nat.ltb Nat.leb Nat.eqb app].

(* ---- unrolling the loops ---------------------------------------------------------------------------- *)
Lemma py_while_false {S} f (cond : S -> bool) body s : cond s = false -> py_while f cond body s = Ret s.
Proof. intros H. destruct f; cbn [py_while]; rewrite H; reflexivity. Qed.
Lemma py_while_true {S} f (cond : S -> bool) body s : cond s = true ->
  py_while (Datatypes.S f) cond body s = Bind (body s) (fun s' => py_while f cond body s').
Proof. intros H. cbn [py_while]. rewrite H. reflexivity. Qed.
Lemma py_while_true0 {S} (cond : S -> bool) body s : cond s = true -> py_while 0 cond body s = Fail OutOfFuel.
Proof. intros H. cbn [py_while]. rewrite H. reflexivity. Qed.

Lemma py_while_c_unfold {S} f (cond : S -> prog bool) body (s : S) :
  py_while_c f cond body s =
  Bind (cond s) (fun c => if c then
    match f with
    | O => Fail OutOfFuel
    | Datatypes.S f' => Bind (body s) (fun r => match r with
                                             | LNext s' => py_while_c f' cond body s'
                                             | LBreak s' => Ret s'
                                             end)
    end else Ret s).
Proof. destruct f; reflexivity. Qed.

(* ---- two elements at a time --------------------------------------------------------------------------- *)
Lemma list_ind2 {A} (P : list A -> Prop) :
  P [] -> (forall a, P [a]) -> (forall a b l, P l -> P (a :: b :: l)) -> forall l, P l.
Proof.
  intros H0 H1 H2. fix IH 1. intros [|a [|b l]]; [exact H0|apply H1|apply H2, IH].
Qed.

(* ---- symbolic execution -------------------------------------------------------------------------------- *)
(* `x, y = r` on the result of a cell *)
Lemma run_unpack2 fresh {A B} (r : list A) (K : A * A -> prog B) s :
  run fresh (Bind (py_unpack2 r) K) s =
  match r with [x; y] => run fresh (K (x, y)) s | _ => Err PyValueError end.
Proof. destruct r as [|x [|y [|z r]]]; reflexivity. Qed.

Lemma run_unpack3 fresh {A B} (r : list A) (K : A * A * A -> prog B) s :
  run fresh (Bind (py_unpack3 r) K) s =
  match r with [x; y; z] => run fresh (K (x, y, z)) s | _ => Err PyValueError end.
Proof. destruct r as [|x [|y [|z [|w r]]]]; reflexivity. Qed.

(* the pops: `for _ in range(k): l.pop()` *)
Lemma run_pops2 fresh {A B} (a b : A) st (K : list A -> prog B) s :
  run fresh (Bind (foldP (fun l (_ : Z) => bdo l <- py_pop l; Ret l) (py_range 0 2) (rev (a :: b :: st))) K) s
  = run fresh (K (rev st)) s.
Proof.
  change (py_range 0 2) with [0; 1]. cbn [foldP]. rs. rewrite py_pop_rev. rs. rewrite py_pop_rev. rs. reflexivity.
Qed.
Lemma run_pops3 fresh {A B} (a b c : A) st (K : list A -> prog B) s :
  run fresh (Bind (foldP (fun l (_ : Z) => bdo l <- py_pop l; Ret l) (py_range 0 3) (rev (a :: b :: c :: st))) K) s
  = run fresh (K (rev st)) s.
Proof.
  change (py_range 0 3) with [0; 1; 2]. cbn [foldP]. rs.
  rewrite py_pop_rev. rs. rewrite py_pop_rev. rs. rewrite py_pop_rev. rs. reflexivity.
Qed.
Lemma run_pop1 fresh {A B} (a : A) st (K : list A -> prog B) s :
  run fresh (Bind (py_pop (rev (a :: st))) K) s = run fresh (K (rev st)) s.
Proof. rewrite py_pop_rev. reflexivity. Qed.

(* peel a common first action *)
Lemma run_bind_cong fresh {A B} (p : prog A) (K K' : A -> prog B) s :
  (forall a s', run fresh (K a) s' = run fresh (K' a) s') -> run fresh (Bind p K) s = run fresh (Bind p K') s.
Proof. intros H. rewrite !run_bind. destruct (run fresh p s) as [[a s']|e]; [apply H|reflexivity]. Qed.
Ltac peel := rewrite ?bind_assoc; apply run_bind_cong; intros ? ?.

(* evaluate a closed pure primitive *)
Ltac eval_prim p :=
  let v := eval cbv -[label] in p in
  lazymatch v with
  | Ret _ => change p with v
  | Fail _ => change p with v
  end.
Ltac eval_bool c :=
  let v := eval cbv -[label] in c in
  lazymatch v with
  | true => change c with true
  | false => change c with false
  end.

(* one step of symbolic execution of the program that is run next:
   pure primitives on lists of known shape are computed, conditions decided, the pops of a stack performed,
   anything else (a cell, a gate) is destructed on both sides at once *)
Ltac sym1 :=
  rs;
  match goal with
  | |- context [match run ?f ?p ?s with _ => _ end] =>
    lazymatch p with
    | Bind _ _ => fail
    | Ret _ => fail
    | Fail _ => fail
    | (if ?c then _ else _) => first [eval_bool c | progress lendec]; cbv iota
    | py_while _ _ _ _ =>
        first [ rewrite py_while_false by (cbv beta iota; first [reflexivity | lendec; reflexivity])
              | cbn [length]; rewrite py_while_true by (cbv beta iota; first [reflexivity | lendec; reflexivity]) ]
    | py_nth (rev _) (-1) => rewrite py_nth_m1; cbn [nthP nth_res nth_error ret_res]
    | py_nth (rev _) (-2) => rewrite py_nth_m2; cbn [nthP nth_res nth_error ret_res]
    | py_nth (rev _) (-3) => rewrite py_nth_m3; cbn [nthP nth_res nth_error ret_res]
    | py_nth _ _ => eval_prim p
    | py_pop (rev (_ :: _)) => rewrite py_pop_rev
    | py_pop _ => eval_prim p
    | py_unpack2 ?r => destruct r as [|? [|? [|? ?]]]; cbn [py_unpack2 unpack2 py_unpack3 unpack3]
    | unpack2 ?r => destruct r as [|? [|? [|? ?]]]; cbn [py_unpack2 unpack2 py_unpack3 unpack3]
    | py_unpack3 ?r => destruct r as [|? [|? [|? [|? ?]]]]; cbn [py_unpack2 unpack2 py_unpack3 unpack3]
    | unpack3 ?r => destruct r as [|? [|? [|? [|? ?]]]]; cbn [py_unpack2 unpack2 py_unpack3 unpack3]
    | foldP _ (py_range 0 2) (rev (_ :: _ :: _)) => rewrite <- run_bind, run_pops2
    | foldP _ (py_range 0 3) (rev (_ :: _ :: _ :: _)) => rewrite <- run_bind, run_pops3
    | foldP _ (py_range 0 _) _ => let v := eval cbv -[label] in p in change p with v
    | ?c (py_slice_down (rev (?x :: ?y :: ?z :: ?st)) (Some (-1)) (Some (-4))) =>
        rewrite (py_slice_down_top3 x y z st)
    | ?c (py_slice_down (rev (?x :: ?y :: ?st)) (Some (-1)) (Some (-3))) =>
        rewrite (py_slice_down_top2 x y st)
    | ?c (py_slice_down ?l ?a ?b) =>
        let v := eval cbv -[label] in (py_slice_down l a b) in change (py_slice_down l a b) with v
    | _ => destruct (run f p s) as [[? ?]|?]
    end
  end; rs; try reflexivity.
Ltac sym := rs; try reflexivity; repeat sym1.
Ltac fin := cbn [fst snd rev app]; rewrite ?rev_involutive; try reflexivity.

(* ---- symbolic execution that keeps both sides in the form  run fresh (Bind p K) s ------------------- *)
Lemma run_ret_l fresh {A B} (a : A) (K : A -> prog B) s : run fresh (Bind (Ret a) K) s = run fresh (K a) s.
Proof. reflexivity. Qed.
Lemma run_fail_l fresh {A B} e (K : A -> prog B) s : run fresh (Bind (@Fail A e) K) s = Err e.
Proof. reflexivity. Qed.
Lemma run_assoc fresh {A B C} (p : prog A) (k : A -> prog B) (h : B -> prog C) s :
  run fresh (Bind (Bind p k) h) s = run fresh (Bind p (fun a => Bind (k a) h)) s.
Proof. apply bind_assoc. Qed.
Lemma run_ret_r fresh {A} (p : prog A) s : run fresh p s = run fresh (Bind p (fun a => Ret a)) s.
Proof. symmetry. apply bind_ret_r. Qed.

Ltac norm :=
  cbv beta iota zeta;
  repeat (first [rewrite run_assoc | rewrite run_ret_l | rewrite run_fail_l | rewrite run_fail]; cbv beta iota zeta).

Ltac decide_cond c := first [eval_bool c | progress lendec].

(* one step on the head of the left-hand side *)
Ltac sx1 :=
  lazymatch goal with
  | |- run ?f (Bind ?p ?K) ?s = _ =>
    lazymatch p with
    | (if ?c then _ else _) => decide_cond c
    | py_while _ _ _ _ =>
        first [ rewrite py_while_false by (cbv beta iota; first [reflexivity | lendec; reflexivity])
              | cbn [length]; rewrite py_while_true by (cbv beta iota; first [reflexivity | lendec; reflexivity]) ]
    | py_nth (rev _) (-1) => rewrite py_nth_m1; cbn [nthP nth_res nth_error ret_res]
    | py_nth (rev _) (-2) => rewrite py_nth_m2; cbn [nthP nth_res nth_error ret_res]
    | py_nth (rev _) (-3) => rewrite py_nth_m3; cbn [nthP nth_res nth_error ret_res]
    | py_nth _ _ => eval_prim p
    | py_pop (rev (_ :: _)) => rewrite py_pop_rev
    | py_pop _ => eval_prim p
    | py_unpack2 ?r => destruct r as [|? [|? [|? ?]]]; cbn [py_unpack2 unpack2 py_unpack3 unpack3]
    | unpack2 ?r => destruct r as [|? [|? [|? ?]]]; cbn [py_unpack2 unpack2 py_unpack3 unpack3]
    | py_unpack3 ?r => destruct r as [|? [|? [|? [|? ?]]]]; cbn [py_unpack2 unpack2 py_unpack3 unpack3]
    | unpack3 ?r => destruct r as [|? [|? [|? [|? ?]]]]; cbn [py_unpack2 unpack2 py_unpack3 unpack3]
    | foldP _ (py_range 0 2) (rev (_ :: _ :: _)) => rewrite run_pops2
    | foldP _ (py_range 0 3) (rev (_ :: _ :: _ :: _)) => rewrite run_pops3
    | foldP _ (py_range 0 _) _ => let v := eval cbv -[label] in p in change p with v
    | ?c (py_slice_down (rev (?x :: ?y :: ?z :: ?st)) (Some (-1)) (Some (-4))) =>
        rewrite (py_slice_down_top3 x y z st)
    | ?c (py_slice_down (rev (?x :: ?y :: ?st)) (Some (-1)) (Some (-3))) =>
        rewrite (py_slice_down_top2 x y st)
    | ?c (py_slice_down ?l ?a ?b) =>
        let v := eval cbv -[label] in (py_slice_down l a b) in change (py_slice_down l a b) with v
    | _ => apply run_bind_cong; intros ? ?
    end
  end; norm; try reflexivity.
Ltac sx := norm; try reflexivity; repeat sx1.

(* use a proved equality of programs at the head of a run *)
Lemma run_peq fresh {A B} (p q : prog A) (K : A -> prog B) s :
  peq p q -> run fresh (Bind p K) s = run fresh (Bind q K) s.
Proof. intros H. rewrite !run_bind, H. reflexivity. Qed.
