(* C02: emplace_gate / add_gate / add_inputs preserve well-formedness. *)
Require Import Cirbo.Model.Base Cirbo.Model.Gate Cirbo.Model.Circuit Cirbo.Model.WF.
Require Import Cirbo.Proofs.DictFacts Cirbo.Proofs.WFBase Cirbo.Proofs.WFSimple.

(* INPUT gates have no operands.  Not part of WF (Model/WF.v) but needed as a companion
   invariant: replace_inputs and the bench converters assume it silently. *)
Definition inputs_nullary (c : circuit) : Prop :=
  forall l g, dget (gates c) l = Some g -> gtyp g = INPUT -> gops g = [].

Lemma emplace_raw_gates c l t ops :
  gates (emplace_gate_raw c l t ops) = dset (gates c) l (mkGate t ops).
Proof.
  unfold emplace_gate_raw. destruct (add_users_frame c ops l) as (A & _).
  destruct (gtype_beq t INPUT); simpl; rewrite A; reflexivity.
Qed.

Lemma emplace_raw_users c l t ops :
  users (emplace_gate_raw c l t ops) = users (add_users c ops l).
Proof. unfold emplace_gate_raw; destruct (gtype_beq t INPUT); reflexivity. Qed.

Lemma emplace_raw_users_of c l t ops x :
  users_of (emplace_gate_raw c l t ops) x = users_of (add_users c ops l) x.
Proof. unfold users_of; rewrite emplace_raw_users; reflexivity. Qed.

Lemma emplace_raw_outputs c l t ops : outputs (emplace_gate_raw c l t ops) = outputs c.
Proof.
  unfold emplace_gate_raw. destruct (add_users_frame c ops l) as (_ & _ & A & _).
  destruct (gtype_beq t INPUT); simpl; rewrite A; reflexivity.
Qed.

Lemma emplace_raw_blocks c l t ops : blocks (emplace_gate_raw c l t ops) = blocks c.
Proof.
  unfold emplace_gate_raw. destruct (add_users_frame c ops l) as (_ & _ & _ & A).
  destruct (gtype_beq t INPUT); simpl; rewrite A; reflexivity.
Qed.

Lemma emplace_raw_inputs c l t ops :
  inputs (emplace_gate_raw c l t ops) = if gtype_beq t INPUT then inputs c ++ [l] else inputs c.
Proof.
  unfold emplace_gate_raw. destruct (add_users_frame c ops l) as (_ & A & _ & _).
  destruct (gtype_beq t INPUT); simpl; rewrite A; reflexivity.
Qed.

Lemma emplace_raw_has_gate c l t ops x :
  has_gate (emplace_gate_raw c l t ops) x = leqb x l || has_gate c x.
Proof. unfold has_gate; rewrite emplace_raw_gates; apply dmem_dset. Qed.

Lemma emplace_raw_ops_of c l t ops x :
  ops_of (emplace_gate_raw c l t ops) x = if leqb x l then ops else ops_of c x.
Proof. unfold ops_of; rewrite emplace_raw_gates, dget_dset. destruct (leqb x l); reflexivity. Qed.

Lemma emplace_gate_raw_wf c l t ops :
  WF c -> has_gate c l = false -> (forall o, In o ops -> has_gate c o = true) ->
  WF (emplace_gate_raw c l t ops).
Proof.
  intros W Hl Hops.
  assert (Hlops : ~ In l ops) by (intros H; apply Hops in H; congruence).
  constructor.
  - rewrite emplace_raw_gates; apply NoDup_dkeys_dset, (wf_gkeys c W).
  - rewrite emplace_raw_users; apply add_users_ukeys, (wf_ukeys c W).
  - rewrite emplace_raw_blocks; apply (wf_bkeys c W).
  - intros x g o Hg Ho. rewrite emplace_raw_has_gate. rewrite emplace_raw_gates, dget_dset in Hg.
    destruct (leqb x l).
    + injection Hg as <-; simpl in Ho. rewrite (Hops o Ho); apply orb_true_r.
    + rewrite (wf_ops c W x g o Hg Ho); apply orb_true_r.
  - intros o Ho; rewrite emplace_raw_outputs in Ho. rewrite emplace_raw_has_gate, (wf_outs c W o Ho).
    apply orb_true_r.
  - intros x u. rewrite emplace_raw_users_of, count_users_add_users, emplace_raw_ops_of.
    destruct (leqb_spec u l) as [->|Hne].
    + rewrite (users_of_nonuser c x l W Hl); reflexivity.
    + rewrite (wf_users c W); lia.
  - rewrite emplace_raw_inputs. destruct (gtype_beq t INPUT); [|apply (wf_inputs_nodup c W)].
    apply NoDup_count; intros x; rewrite count_app; simpl.
    pose proof (proj1 (NoDup_count _) (wf_inputs_nodup c W) x) as Hx.
    destruct (leqb_spec x l) as [->|]; [|lia].
    assert (~ In l (inputs c)) as Hn.
    { intros Hin; apply (wf_inputs c W) in Hin; destruct Hin as [g [Hg _]].
      apply get_has_gate in Hg; congruence. }
    apply count_zero_nIn in Hn; lia.
  - intros x. rewrite emplace_raw_inputs, emplace_raw_gates, dget_dset.
    destruct (leqb_spec x l) as [->|Hne].
    + destruct (gtype_beq t INPUT) eqn:Et.
      * split; [intros _|intros _; apply in_or_app; right; left; reflexivity].
        eexists; split; [reflexivity|]. apply gtype_beq_eq, Et.
      * split.
        -- intros Hin; apply (wf_inputs c W) in Hin; destruct Hin as [g [Hg _]].
           apply get_has_gate in Hg; congruence.
        -- intros [g [[= <-] Ht]]; simpl in Ht. apply gtype_beq_eq in Ht; congruence.
    + rewrite <- (wf_inputs c W). destruct (gtype_beq t INPUT); [|tauto].
      rewrite in_app_iff; simpl. split; [|tauto]. intros [H|[H|[]]]; [assumption|congruence].
  - destruct (wf_acyclic c W) as [rank Hr].
    exists (fun x => if leqb x l then S (max_rank rank ops) else rank x).
    intros x g o Hg Ho. rewrite emplace_raw_gates, dget_dset in Hg.
    destruct (leqb_spec x l) as [->|Hne].
    + injection Hg as <-; simpl in Ho.
      destruct (leqb_spec o l) as [->|]; [contradiction|]. apply (max_rank_ge rank) in Ho; lia.
    + destruct (leqb_spec o l) as [->|].
      * apply (wf_ops c W) with (o := l) in Hg; [congruence|assumption].
      * eapply Hr; eassumption.
  - intros b blk x Hb Hx. rewrite emplace_raw_blocks in Hb. rewrite emplace_raw_has_gate.
    rewrite (wf_blocks c W b blk x Hb Hx); apply orb_true_r.
Qed.

Lemma emplace_gate_raw_nullary c l t ops :
  inputs_nullary c -> (t = INPUT -> ops = []) -> inputs_nullary (emplace_gate_raw c l t ops).
Proof.
  intros N H x g Hg Ht. rewrite emplace_raw_gates, dget_dset in Hg. destruct (leqb x l).
  - injection Hg as <-; simpl in *; auto.
  - eapply N; eassumption.
Qed.

Lemma check_label_doesnt_exist_ok l c u : check_label_doesnt_exist l c = Ok u -> has_gate c l = false.
Proof. unfold check_label_doesnt_exist; destruct (has_gate c l); [discriminate|reflexivity]. Qed.

Lemma emplace_gate_inv c l t ops c' :
  emplace_gate c l t ops = Ok c' ->
  has_gate c l = false /\ (forall o, In o ops -> has_gate c o = true) /\ c' = emplace_gate_raw c l t ops.
Proof.
  unfold emplace_gate; intros H. binv H u0 H0. binv H u1 H1. injection H as <-.
  split; [eapply check_label_doesnt_exist_ok; eassumption|].
  split; [eapply check_gates_exist_unit; eassumption|reflexivity].
Qed.

Lemma emplace_gate_wf c l t ops c' : WF c -> emplace_gate c l t ops = Ok c' -> WF c'.
Proof.
  intros W H; apply emplace_gate_inv in H; destruct H as (H1 & H2 & ->).
  apply emplace_gate_raw_wf; assumption.
Qed.

Lemma emplace_gate_nullary c l t ops c' :
  inputs_nullary c -> (t = INPUT -> ops = []) -> emplace_gate c l t ops = Ok c' -> inputs_nullary c'.
Proof.
  intros N Ht H; apply emplace_gate_inv in H; destruct H as (H1 & H2 & ->).
  apply emplace_gate_raw_nullary; assumption.
Qed.

Lemma add_inputs_wf ls : forall c c', WF c -> add_inputs c ls = Ok c' -> WF c'.
Proof.
  induction ls as [|l ls IH]; simpl; intros c c' W H; [injection H as <-; assumption|].
  binv H u0 H0. binv H c1 H1. eapply IH; [|eassumption]. eapply emplace_gate_wf; eassumption.
Qed.

Lemma add_inputs_nullary ls : forall c c', inputs_nullary c -> add_inputs c ls = Ok c' -> inputs_nullary c'.
Proof.
  induction ls as [|l ls IH]; simpl; intros c c' W H; [injection H as <-; assumption|].
  binv H u0 H0. binv H c1 H1. eapply IH; [|eassumption].
  eapply emplace_gate_nullary; [eassumption| |eassumption]. reflexivity.
Qed.

(* companion invariant under the simple mutators *)
Lemma nullary_same_gates c c' : gates c' = gates c -> inputs_nullary c -> inputs_nullary c'.
Proof. unfold inputs_nullary; intros ->; auto. Qed.
