(* C03: the per-pass theorems assembled, and the pipeline theorems with the hypothesis of
   Proofs/PassPipeline.v discharged. *)
Require Import Cirbo.Model.Base Cirbo.Model.Gate Cirbo.Model.Den Cirbo.Model.Circuit Cirbo.Model.Traverse
        Cirbo.Model.Eval Cirbo.Model.Sem Cirbo.Model.WF Cirbo.Model.Passes.
Require Import Cirbo.Proofs.PassRebuild Cirbo.Proofs.PassRR Cirbo.Proofs.PassMU Cirbo.Proofs.PassMD
        Cirbo.Proofs.PassME Cirbo.Proofs.PassPipeline Cirbo.Proofs.PassTotal Cirbo.Proofs.PassTruth.

Theorem leaf_pres t c c' :
  WF c -> arity_ok c -> transform_leaf t c = Ok c' -> Pres (tv_of t) (keep_of t) c c'.
Proof.
  intros W A H. destruct t as [air| | | |ts]; simpl in H.
  - pose proof (rr_pres air c c' W A H) as P. destruct air; exact P.
  - apply mu_pres; assumption.
  - apply md_pres; assumption.
  - apply me_pres; assumption.
  - discriminate.
Qed.

Theorem pipeline_pres c ts c' :
  WF c -> arity_ok c -> apply_transformers c ts = Ok c' ->
  Pres (forallb (all_leaves tv_of) ts) (forallb (all_leaves keep_of) ts) c c'.
Proof. apply apply_transformers_pres, leaf_pres. Qed.

Theorem transform_pipeline_pres t c c' :
  WF c -> arity_ok c -> transform t c = Ok c' -> Pres (all_leaves tv_of t) (all_leaves keep_of t) c c'.
Proof. apply transform_pres, leaf_pres. Qed.

Theorem cleanup_pipeline_pres c b c' :
  WF c -> arity_ok c -> cleanup c b = Ok c' -> Pres (negb b) true c c'.
Proof. apply cleanup_pres, leaf_pres. Qed.

(* ---------------- explicit readings of Pres (the forms restated in Properties/C03.v) -------- *)
Require Import Cirbo.Proofs.TraverseInv Cirbo.Proofs.WFSound.

Lemma pres_explicit tv keep c c' : Pres tv keep c c' ->
  WF c' /\ arity_ok c' /\
  inputs c' = filter (has_gate c') (inputs c) /\ (keep = true -> inputs c' = inputs c) /\
  length (outputs c') = length (outputs c) /\
  (forall a a', tv = true \/ total_on c a -> (forall x, In x (inputs c') -> aval a x = aval a' x) ->
     forall i d d' v, i < length (outputs c) ->
       (Eval c' a' (nth i (outputs c') d') v <-> Eval c a (nth i (outputs c) d) v)) /\
  size c' <= size c.
Proof.
  intros P. split; [exact (pr_wf _ _ _ _ P)|]. split; [exact (pr_arity _ _ _ _ P)|].
  split; [exact (pr_inputs _ _ _ _ P)|]. split; [exact (pr_keep _ _ _ _ P)|].
  split; [exact (pr_outs _ _ _ _ P)|]. split; [|exact (pr_size _ _ _ _ P)].
  intros a a' Ha Hag i d d' v Hi. eapply Pres_restrict; eassumption.
Qed.

(* function preserved on every three-valued assignment, inputs kept *)
Lemma pres_keep3 c c' : Pres true true c c' ->
  WF c' /\ arity_ok c' /\ inputs c' = inputs c /\ length (outputs c') = length (outputs c) /\
  (forall a i d d' v, i < length (outputs c) ->
     (Eval c' a (nth i (outputs c') d') v <-> Eval c a (nth i (outputs c) d) v)) /\
  size c' <= size c.
Proof.
  intros P. destruct (pres_explicit _ _ _ _ P) as (H1 & H2 & _ & H4 & H5 & H6 & H7).
  split; [exact H1|]. split; [exact H2|]. split; [apply H4; reflexivity|]. split; [exact H5|]. split; [|exact H7].
  intros a i d d' v Hi. apply (H6 a a); auto.
Qed.

(* function preserved on total assignments, inputs kept *)
Lemma pres_keep_total c c' : Pres false true c c' ->
  WF c' /\ arity_ok c' /\ inputs c' = inputs c /\ length (outputs c') = length (outputs c) /\
  (forall a, total_on c a -> forall i d d' v, i < length (outputs c) ->
     (Eval c' a (nth i (outputs c') d') v <-> Eval c a (nth i (outputs c) d) v)) /\
  size c' <= size c.
Proof.
  intros P. destruct (pres_explicit _ _ _ _ P) as (H1 & H2 & _ & H4 & H5 & H6 & H7).
  split; [exact H1|]. split; [exact H2|]. split; [apply H4; reflexivity|]. split; [exact H5|]. split; [|exact H7].
  intros a Ha i d d' v Hi. apply (H6 a a); auto.
Qed.

Theorem rr_false_explicit c c' : WF c -> arity_ok c -> remove_redundant_gates false c = Ok c' ->
  WF c' /\ arity_ok c' /\ inputs c' = inputs c /\ length (outputs c') = length (outputs c) /\
  (forall a i d d' v, i < length (outputs c) ->
     (Eval c' a (nth i (outputs c') d') v <-> Eval c a (nth i (outputs c) d) v)) /\
  size c' <= size c.
Proof. intros W A H. apply pres_keep3. exact (rr_pres false c c' W A H). Qed.

Theorem mu_explicit c c' : WF c -> arity_ok c -> merge_unary_operators c = Ok c' ->
  WF c' /\ arity_ok c' /\ inputs c' = inputs c /\ length (outputs c') = length (outputs c) /\
  (forall a i d d' v, i < length (outputs c) ->
     (Eval c' a (nth i (outputs c') d') v <-> Eval c a (nth i (outputs c) d) v)) /\
  size c' <= size c.
Proof. intros W A H. apply pres_keep3. exact (mu_pres c c' W A H). Qed.

Theorem md_explicit c c' : WF c -> arity_ok c -> merge_duplicate_gates c = Ok c' ->
  WF c' /\ arity_ok c' /\ inputs c' = inputs c /\ length (outputs c') = length (outputs c) /\
  (forall a i d d' v, i < length (outputs c) ->
     (Eval c' a (nth i (outputs c') d') v <-> Eval c a (nth i (outputs c) d) v)) /\
  size c' <= size c.
Proof. intros W A H. apply pres_keep3. exact (md_pres c c' W A H). Qed.

Theorem me_explicit c c' : WF c -> arity_ok c -> merge_equivalent_gates c = Ok c' ->
  WF c' /\ arity_ok c' /\ inputs c' = inputs c /\ length (outputs c') = length (outputs c) /\
  (forall a, total_on c a -> forall i d d' v, i < length (outputs c) ->
     (Eval c' a (nth i (outputs c') d') v <-> Eval c a (nth i (outputs c) d) v)) /\
  size c' <= size c.
Proof. intros W A H. apply pres_keep_total. exact (me_pres c c' W A H). Qed.

(* allow_inputs_removal = True: the inputs of the result are the inputs reachable from the outputs,
   in the original order; the removed inputs cannot matter (the assignment a' of the result may
   differ from a arbitrarily outside the remaining inputs) *)
Theorem rr_true_explicit c c' : WF c -> arity_ok c -> remove_redundant_gates true c = Ok c' ->
  WF c' /\ arity_ok c' /\
  inputs c' = filter (has_gate c') (inputs c) /\
  (forall x, has_gate c' x = true <-> reach (ops_of c) (outputs c) x) /\
  outputs c' = outputs c /\
  (forall a a', (forall x, In x (inputs c') -> aval a x = aval a' x) ->
     forall i d d' v, i < length (outputs c) ->
       (Eval c' a' (nth i (outputs c') d') v <-> Eval c a (nth i (outputs c) d) v)) /\
  size c' <= size c.
Proof.
  intros W A H. destruct (pres_explicit _ _ _ _ (rr_pres true c c' W A H)) as (H1 & H2 & H3 & _ & _ & H6 & H7).
  split; [exact H1|]. split; [exact H2|]. split; [exact H3|]. split.
  - intros x. rewrite (rr_gates true c c' W H x). split; [intros [Hx|[Hx _]]; [exact Hx|discriminate]|auto].
  - split; [destruct (rr_rebuilt true c c' W H) as (_ & _ & _ & Ho & _); exact Ho|].
    split; [|exact H7]. intros a a' Hag. apply H6; auto.
Qed.

Theorem pipeline_explicit c ts c' : WF c -> arity_ok c -> apply_transformers c ts = Ok c' ->
  WF c' /\ arity_ok c' /\
  inputs c' = filter (has_gate c') (inputs c) /\
  (forallb (all_leaves keep_of) ts = true -> inputs c' = inputs c) /\
  length (outputs c') = length (outputs c) /\
  (forall a a', forallb (all_leaves tv_of) ts = true \/ total_on c a ->
     (forall x, In x (inputs c') -> aval a x = aval a' x) ->
     forall i d d' v, i < length (outputs c) ->
       (Eval c' a' (nth i (outputs c') d') v <-> Eval c a (nth i (outputs c) d) v)) /\
  size c' <= size c.
Proof. intros W A H. apply pres_explicit. exact (pipeline_pres c ts c' W A H). Qed.

Theorem cleanup_explicit c b c' : WF c -> arity_ok c -> cleanup c b = Ok c' ->
  WF c' /\ arity_ok c' /\ inputs c' = inputs c /\ length (outputs c') = length (outputs c) /\
  (forall a, b = false \/ total_on c a -> forall i d d' v, i < length (outputs c) ->
     (Eval c' a (nth i (outputs c') d') v <-> Eval c a (nth i (outputs c) d) v)) /\
  size c' <= size c.
Proof.
  intros W A H. destruct (pres_explicit _ _ _ _ (cleanup_pipeline_pres c b c' W A H)) as (H1 & H2 & _ & H4 & H5 & H6 & H7).
  split; [exact H1|]. split; [exact H2|]. split; [apply H4; reflexivity|]. split; [exact H5|]. split; [|exact H7].
  intros a Ha i d d' v Hi. apply (H6 a a); auto. destruct Ha as [->|Ha]; auto.
Qed.

(* ---------------- executable arity check and the example circuit ---------------- *)
Definition arity_okb (c : circuit) : bool :=
  forallb (fun kg : label * gate =>
             gtype_beq (gtyp (snd kg)) INPUT || den_accepts (gtyp (snd kg)) (length (gops (snd kg)))) (gates c).

Lemma arity_okb_sound c : arity_okb c = true -> arity_ok c.
Proof.
  intros H l g Hg Ht. unfold arity_okb in H. rewrite forallb_forall in H.
  specialize (H (l, g) (DictFacts.dget_In _ _ _ Hg)). simpl in H. apply orb_true_iff in H.
  destruct H as [H|H]; [apply gtype_beq_eq in H; contradiction|exact H].
Qed.

(* inputs a b u (u unused); n1 = NOT a; n2 = NOT n1 (double negation); g1 = AND(n2, b);
   g2 = AND(b, n2) (duplicate of g1 up to operand order); e = OR(g1, g2); d = NOT b (dead);
   outputs e, g2, n2 *)
Definition c03_ex : circuit :=
  mkCircuit ["a"; "b"; "u"] ["e"; "g2"; "n2"]
    [("a", mkGate INPUT []); ("b", mkGate INPUT []); ("u", mkGate INPUT []);
     ("n1", mkGate NOT ["a"]); ("n2", mkGate NOT ["n1"]);
     ("g1", mkGate AND ["n2"; "b"]); ("g2", mkGate AND ["b"; "n2"]);
     ("e", mkGate OR ["g1"; "g2"]); ("d", mkGate NOT ["b"])]
    [("a", ["n1"]); ("b", ["g1"; "g2"; "d"]); ("n1", ["n2"]); ("n2", ["g1"; "g2"]);
     ("g1", ["e"]); ("g2", ["e"])]
    [].

Lemma c03_ex_ok : WF c03_ex /\ arity_ok c03_ex.
Proof. split; [apply wfb_sound|apply arity_okb_sound]; vm_compute; reflexivity. Qed.

Lemma c03_ex_runs :
  (exists c', remove_redundant_gates false c03_ex = Ok c' /\ size c' = 8) /\
  (exists c', remove_redundant_gates true c03_ex = Ok c' /\ size c' = 7 /\ inputs c' = ["a"; "b"]) /\
  (exists c', merge_unary_operators c03_ex = Ok c' /\ outputs c' = ["e"; "g2"; "a"]) /\
  (exists c', merge_duplicate_gates c03_ex = Ok c' /\ dget (gates c') "e" = Some (mkGate OR ["g2"; "g2"])) /\
  (exists c', merge_equivalent_gates c03_ex = Ok c' /\ outputs c' = ["g1"; "g1"; "a"]) /\
  (exists c', cleanup c03_ex true = Ok c' /\ size c' = 4 /\ inputs c' = ["a"; "b"; "u"] /\
              outputs c' = ["g2"; "g2"; "a"]).
Proof.
  repeat split; eexists; (split; [vm_compute; reflexivity|]); repeat split; vm_compute; reflexivity.
Qed.

(* ---------------- totality of pipelines ---------------- *)
Lemma leaf_total t c : is_leaf t = true -> WF c -> arity_ok c -> exists c', transform_leaf t c = Ok c'.
Proof.
  intros Hl W A. destruct t as [air| | | |ts]; simpl; [apply rr_total|apply mu_total|apply md_total|apply me_total|discriminate];
    assumption.
Qed.

Lemma apply_linear_total ts : forallb is_leaf ts = true -> forall c, WF c -> arity_ok c ->
  exists c', apply_linear ts c = Ok c'.
Proof.
  induction ts as [|t ts IH]; intros Hl c W A; unfold apply_linear; simpl; [eauto|].
  simpl in Hl. apply andb_true_iff in Hl. destruct Hl as [Ht Hts].
  destruct (leaf_total t c Ht W A) as [c1 H1]. rewrite H1. simpl.
  pose proof (leaf_pres t c c1 W A H1) as P1.
  apply IH; [exact Hts|exact (pr_wf _ _ _ _ P1)|exact (pr_arity _ _ _ _ P1)].
Qed.

Theorem pipeline_total c ts : WF c -> arity_ok c -> exists c', apply_transformers c ts = Ok c'.
Proof.
  intros W A. unfold apply_transformers. apply apply_linear_total; [|exact W|exact A].
  unfold linearize_reduce, linearize. apply reduce_from_forallb.
  rewrite forallb_flat_map. apply forallb_forall. intros t _. apply as_distinct_is_leaf.
Qed.

Theorem cleanup_total c b : WF c -> arity_ok c -> exists c', cleanup c b = Ok c'.
Proof. intros W A. unfold cleanup. apply pipeline_total; assumption. Qed.

(* ---------------- identical truth tables ---------------- *)
Theorem pipeline_truth_table c ts c' t t' :
  WF c -> arity_ok c -> forallb (all_leaves keep_of) ts = true -> apply_transformers c ts = Ok c' ->
  get_truth_table c = Ok t -> get_truth_table c' = Ok t' -> t = t'.
Proof.
  intros W A Hk H. pose proof (pipeline_pres c ts c' W A H) as P. rewrite Hk in P.
  eapply truth_table_equal; eassumption.
Qed.

Theorem cleanup_truth_table c b c' t t' :
  WF c -> arity_ok c -> cleanup c b = Ok c' ->
  get_truth_table c = Ok t -> get_truth_table c' = Ok t' -> t = t'.
Proof.
  intros W A H. eapply truth_table_equal; [exact W|]. exact (cleanup_pipeline_pres c b c' W A H).
Qed.
