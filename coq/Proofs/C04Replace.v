(* C04: the care-set substitution theorem for the FUNCTION Connect.replace_subcircuit.
   If replace_subcircuit c sub imap omap fresh returns c' and the executable cone check accepts
   the pair (host cone between the keys of imap and the keys of omap, replacement between the
   values of imap and the values of omap) on the care set, and the care set covers every leaf
   vector that occurs under some Boolean primary-input vector (care_covers), then under every
   Boolean primary-input vector every surviving gate of the host keeps its value.
   Combination of the validator facts (ValidatorFacts.check_step_map_sound_Eval,
   CareFacts.care_covers_sound) with the semantic theorem of replace_subcircuit (C19,
   SemReplaceSub2): acceptance by the check implies, per host assignment, the equivalence
   hypothesis of that theorem. *)
Require Import Cirbo.Model.Base Cirbo.Model.Gate Cirbo.Model.Den Cirbo.Model.Circuit Cirbo.Model.Traverse
        Cirbo.Model.Connect Cirbo.Model.Eval Cirbo.Model.Sem Cirbo.Model.WF
        Cirbo.Model.PatternSim Cirbo.Model.SubcircuitValidator.
Require Import Cirbo.Generated.GateTypes.
Require Import Cirbo.Proofs.DictFacts Cirbo.Proofs.WFBase Cirbo.Proofs.WFSimple Cirbo.Proofs.WFEmplace
        Cirbo.Proofs.WFStep Cirbo.Proofs.SemFacts Cirbo.Proofs.EvalFacts Cirbo.Proofs.EvalComplete
        Cirbo.Proofs.EvalEntry Cirbo.Proofs.TruthTable
        Cirbo.Proofs.SemReplaceSub Cirbo.Proofs.SemReplaceSub2 Cirbo.Proofs.C19Final
        Cirbo.Proofs.ValidatorFacts Cirbo.Proofs.CareFacts.

(* what the argument checks of replace_subcircuit establish *)
Lemma replace_subcircuit_checks c sub imap omap fresh c' :
  replace_subcircuit c sub imap omap fresh = Ok c' ->
  (forall k, In k (dkeys imap ++ dkeys omap) -> has_gate c k = true) /\
  (forall i, In i (dvals imap) -> exists g, dget (gates sub) i = Some g /\ gtyp g = INPUT) /\
  (forall o, In o (dvals omap) -> has_gate sub o = true).
Proof.
  intros H. unfold replace_subcircuit in H.
  binv H u0 H0. binv H u1 H1. binv H u2 H2. binv H u3 H3. binv H u4 H4.
  split; [|split].
  - intros k Hk. apply in_app_or in Hk. destruct Hk as [Hk|Hk];
      [apply (check_gates_exist_unit _ _ _ H1)|apply (check_gates_exist_unit _ _ _ H2)]; exact Hk.
  - apply (check_sub_inputs sub _ _ H4).
  - apply (check_gates_exist_unit _ _ _ H3).
Qed.

Lemma bool_vector_exists c a ls :
  (forall k, In k ls -> exists b, Eval c a k (inj b)) ->
  exists v, length v = length ls /\ Forall2 (fun l b => Eval c a l (inj b)) ls v.
Proof.
  induction ls as [|k ls IH]; intros H; [exists []; split; [reflexivity|constructor]|].
  destruct (H k (or_introl eq_refl)) as [b Hb].
  destruct IH as (v & Hl & HF); [intros k' Hk'; apply H; right; exact Hk'|].
  exists (b :: v). split; [simpl; rewrite Hl; reflexivity|constructor; assumption].
Qed.

Lemma st_is_bool v : v <> U -> exists b, v = inj b.
Proof. destruct v; [exists false|exists true|]; try reflexivity. intros H; contradiction H; reflexivity. Qed.

Lemma Forall2_fst_snd {B} (P Q : label -> B -> Prop) (m : dict label) v :
  Forall2 P (map fst m) v ->
  (forall k i b, In (k, i) m -> P k b -> Q i b) ->
  Forall2 Q (map snd m) v.
Proof.
  revert v. induction m as [|[k i] m IH]; intros v HF Himp; simpl in *; inversion HF; subst; constructor.
  - eapply Himp; [left; reflexivity|assumption].
  - apply IH; [assumption|]. intros k' i' b' Hin; apply Himp; right; exact Hin.
Qed.

Section CareReplace.
  Variables (c sub : circuit) (imap omap : dict label) (fresh : string) (c' : circuit)
            (care : option (list (list bool))).
  Hypothesis Ic : Inv c.
  Hypothesis Is : Inv sub.
  Hypothesis A : arity_ok c.
  Hypothesis H : replace_subcircuit c sub imap omap fresh = Ok c'.
  (* the cones agree on every compared vector: imap / omap are the lists of pairs
     (label in the host, label in the replacement) *)
  Hypothesis Hstep : check_step_map c sub imap omap care = true.
  (* the care set contains every leaf vector that occurs under a Boolean input vector *)
  Hypothesis Hcare : match care with Some K => care_covers c (dkeys imap) K = true | None => True end.

  Local Notation rho := (ren_all (imap ++ omap)).

  (* under a Boolean input vector the cut carries a compared vector *)
  Lemma cut_carries_compared x : length x = length (inputs c) ->
    exists v, compared (length imap) care v /\
              Forall2 (fun l b => Eval c (bool_assignment c x) l (inj b)) (dkeys imap) v.
  Proof.
    intros Hx. pose proof Ic as [W N].
    assert (Hlen : length (inputs c) <= length (map inj x)) by (rewrite map_length, Hx; apply le_n).
    destruct care as [K|].
    - destruct (care_covers_sound c (dkeys imap) K (WF_inputs_are_input_gates c W) Hcare x Hx)
        as (a & v & Hz & Hv & HF).
      rewrite (zip_inputs_wf c _ W Hlen) in Hz. injection Hz as <-. exists v. split; [exact Hv|exact HF].
    - destruct (replace_subcircuit_checks _ _ _ _ _ _ H) as (Hk & _ & _).
      destruct (bool_vector_exists c (bool_assignment c x) (dkeys imap)) as (v & Hl & HF).
      + intros k Hin. destruct (Eval_exists c (bool_assignment c x) W A k) as [v0 Hv0];
          [apply Hk, in_or_app; left; exact Hin|].
        destruct (st_is_bool v0) as [b ->]; [|eauto].
        eapply Eval_total; [|exact Hv0]. apply vec_assignment_total; [exact W|].
        rewrite Hx; apply le_n.
      + exists v. split; [|exact HF]. simpl. rewrite Hl. unfold dkeys. apply map_length.
  Qed.

  (* acceptance by the check gives, per Boolean input vector, the equivalence hypothesis of the
     semantic theorem of replace_subcircuit *)
  Lemma check_gives_equivalence x : length x = length (inputs c) ->
    forall b, (forall k, In k (dkeys imap) -> Eval c (bool_assignment c x) k (aval b (rho k))) ->
      forall k v, In k (dkeys omap) -> Eval c (bool_assignment c x) k v -> Eval sub b (rho k) v.
  Proof.
    intros Hx b Hb k v0 Hk Hv0. pose proof Ic as [W N].
    destruct (replace_subcircuit_rho' c sub imap omap fresh c' Ic H) as [Hrho _].
    destruct (replace_subcircuit_checks _ _ _ _ _ _ H) as (_ & Hin & _).
    destruct (cut_carries_compared x Hx) as (v & Hcmp & HF).
    assert (HFs : Forall2 (fun l bv => Eval sub b l (inj bv)) (map snd imap) v).
    { apply (Forall2_fst_snd (fun l bv => Eval c (bool_assignment c x) l (inj bv))); [exact HF|].
      intros k0 i bv Hki Hkv.
      assert (Hr : rho k0 = i) by (apply Hrho, in_or_app; left; exact Hki).
      assert (Hk0 : In k0 (dkeys imap)) by (apply (in_map fst) in Hki; exact Hki).
      pose proof (Hb k0 Hk0) as Hbk. rewrite Hr in Hbk.
      rewrite <- (Eval_functional _ _ _ _ _ Hbk Hkv).
      destruct (Hin i) as (g & Hg & Ht); [apply (in_map snd) in Hki; exact Hki|].
      eapply EvalInput; eassumption. }
    unfold dkeys in Hk. apply in_map_iff in Hk. destruct Hk as ([k1 o'] & Hk1 & Hko). simpl in Hk1. subst k1.
    destruct (check_step_map_sound_Eval c sub imap omap care _ b v Hstep Hcmp HF HFs k o' Hko)
      as (bb & H1 & H2).
    assert (Hr : rho k = o') by (apply Hrho, in_or_app; right; exact Hko).
    rewrite Hr, (Eval_functional _ _ _ _ _ Hv0 H1). exact H2.
  Qed.

  (* THE THEOREM: every surviving gate keeps its value under every Boolean primary-input vector
     (a' is any assignment of the result that gives the renamed inputs the same values) *)
  Theorem care_set_replace_subcircuit x a' : length x = length (inputs c) ->
    (forall l, In l (inputs c) -> aval a' (rho l) = aval (bool_assignment c x) l) ->
    forall g v, has_gate c g = true -> has_gate c' (rho g) = true ->
      has_gate sub (rho g) = false \/ In (rho g) (dvals imap ++ dvals omap) ->
      (Eval c' a' (rho g) v <-> Eval c (bool_assignment c x) g v).
  Proof.
    intros Hx Ha. apply (replace_subcircuit_sem' c sub imap omap fresh c' _ a' Ic Is A H Ha).
    apply check_gives_equivalence; exact Hx.
  Qed.

  (* in particular the circuit outputs: same output vector *)
  Theorem care_set_replace_subcircuit_outputs x a' : length x = length (inputs c) ->
    (forall l, In l (inputs c) -> aval a' (rho l) = aval (bool_assignment c x) l) ->
    outputs c' = map rho (outputs c) /\
    forall vs, Forall2 (Eval c' a') (outputs c') vs <-> Forall2 (Eval c (bool_assignment c x)) (outputs c) vs.
  Proof.
    intros Hx Ha. apply (replace_subcircuit_outputs_sem' c sub imap omap fresh c' _ a' Ic Is A H Ha).
    apply check_gives_equivalence; exact Hx.
  Qed.
End CareReplace.

(* ---- non-vacuity: a replacement that is correct only on the care set ----
   host (C04Examples.c04_dc_old): u = a AND b, v = a OR b, t = (u LEQ v); under every input
   vector (u, v) is one of (0,0) (0,1) (1,1), so the slice {t} between the cut {u, v} and t may
   be replaced by t = (u GEQ u) (constant true): the cones differ on the leaf vector (1,0),
   which is outside the care set *)
Require Import Cirbo.Proofs.SemExt Cirbo.Proofs.C04Examples.

Definition c04_dc_sub : circuit :=
  mkCircuit ["u"; "v"] ["t"]
    [("u", mkGate INPUT []); ("v", mkGate INPUT []); ("t", mkGate GEQ ["u"; "u"])]
    [("u", ["t"; "t"])] [].
Definition c04_dc_imap : dict label := [("u", "u"); ("v", "v")].
Definition c04_dc_omap : dict label := [("t", "t")].

Lemma c04_dc_replace_ok :
  Inv c04_dc_old /\ Inv c04_dc_sub /\ arity_ok c04_dc_old /\
  (exists c', replace_subcircuit c04_dc_old c04_dc_sub c04_dc_imap c04_dc_omap "f" = Ok c' /\
              gates c' = gates c04_dc_new) /\
  check_step_map c04_dc_old c04_dc_sub c04_dc_imap c04_dc_omap (Some c04_dc_care) = true /\
  check_step_map c04_dc_old c04_dc_sub c04_dc_imap c04_dc_omap None = false /\
  care_covers c04_dc_old (dkeys c04_dc_imap) c04_dc_care = true.
Proof.
  split; [apply Inv_b; vm_compute; reflexivity|].
  split; [apply Inv_b; vm_compute; reflexivity|].
  split; [apply arity_okb_sound; vm_compute; reflexivity|].
  split; [eexists; split; vm_compute; reflexivity|].
  repeat split; vm_compute; reflexivity.
Qed.

(* ---- at the entry points: same results of evaluate on every Boolean input vector and the same
   truth table, when the replacement has accepted arities too and no primary input is removed
   (inputs c' = the renamed inputs of c; an input that is itself a replaced cone output would be
   removed) ---- *)
Require Import Cirbo.Proofs.EntryEq Cirbo.Proofs.SemReplaceSubEntry.

Theorem care_set_replace_subcircuit_entry c sub imap omap fresh c' care :
  Inv c -> Inv sub -> arity_ok c -> arity_ok sub ->
  replace_subcircuit c sub imap omap fresh = Ok c' ->
  check_step_map c sub imap omap care = true ->
  match care with Some K => care_covers c (dkeys imap) K = true | None => True end ->
  inputs c' = map (ren_all (imap ++ omap)) (inputs c) ->
  (forall x, length x = length (inputs c) -> evaluate c' (map inj x) = evaluate c (map inj x)) /\
  get_truth_table c' = get_truth_table c.
Proof.
  intros Ic Is A As H Hstep Hcare Hin.
  assert (Hev : forall x, length x = length (inputs c) -> evaluate c' (map inj x) = evaluate c (map inj x)).
  { intros x Hx. apply (replace_subcircuit_evaluate_at c sub imap omap fresh c' Ic Is A As H Hin).
    exact (check_gives_equivalence c sub imap omap fresh c' care Ic A H Hstep Hcare x Hx). }
  split; [exact Hev|].
  apply get_truth_table_eq_of_evaluate; [rewrite Hin, map_length; reflexivity| |exact Hev].
  destruct Ic as [W _]. destruct Is as [Ws _].
  rewrite (replace_subcircuit_outputs c sub imap omap fresh c' W Ws H), map_length. reflexivity.
Qed.

Lemma c04_dc_replace_entry :
  arity_ok c04_dc_sub /\
  exists c', replace_subcircuit c04_dc_old c04_dc_sub c04_dc_imap c04_dc_omap "f" = Ok c' /\
    inputs c' = map (ren_all (c04_dc_imap ++ c04_dc_omap)) (inputs c04_dc_old) /\
    get_truth_table c' = Ok [[T; T; T; T]] /\ get_truth_table c04_dc_old = Ok [[T; T; T; T]].
Proof.
  split; [apply arity_okb_sound; vm_compute; reflexivity|].
  eexists; split; [vm_compute; reflexivity|]. repeat split; vm_compute; reflexivity.
Qed.
