(* T21, _eval_dont_cares (part 1): the in-place binary counter over the input assignment enumerates
   Eval.all_bool_vectors. *)
Require Import Cirbo.Model.Base Cirbo.Model.Gate Cirbo.Model.Circuit Cirbo.Model.Eval.
Require Import Cirbo.Model.SubcircuitPrims Cirbo.Model.SubcircuitAlg.
Require Import Cirbo.Generated.SubcircuitAlgGen Cirbo.Proofs.SubcircuitPrimsFacts.

(* ---- big-endian increment ---- *)
Fixpoint incr (v : list bool) : list bool * bool :=
  match v with
  | [] => ([], true)
  | b :: r => let (r', c) := incr r in (xorb b c :: r', b && c)
  end.

Lemma incr_length u : length (fst (incr u)) = length u.
Proof. induction u as [|b r IH]; simpl; [reflexivity|]. destruct (incr r) as [r' c]. simpl in *. congruence. Qed.

Lemma incr_all_true k : incr (repeat true k) = (repeat false k, true).
Proof. induction k as [|k IH]; simpl; [reflexivity|]. rewrite IH. reflexivity. Qed.

Lemma incr_decomp : forall u w, incr u = (w, false) ->
  exists pre k, u = pre ++ false :: repeat true k /\ w = pre ++ true :: repeat false k.
Proof.
  induction u as [|b r IH]; intros w H; simpl in H; [discriminate|].
  destruct (incr r) as [r' c] eqn:E. destruct c.
  - (* carry from the tail: the tail was all true *)
    destruct b; simpl in H; [discriminate|]. inversion H; subst w. clear H.
    assert (Hr : r = repeat true (length r) /\ r' = repeat false (length r)).
    { clear IH. revert r' E. induction r as [|a r IHr]; intros r' E; simpl in E.
      - inversion E; split; reflexivity.
      - destruct (incr r) as [r2 c2] eqn:E2. destruct a, c2; simpl in E; inversion E; subst.
        destruct (IHr _ eq_refl) as [H1 H2]. simpl. split; congruence. }
    destruct Hr as [H1 H2]. exists [], (length r). simpl. rewrite <- H1, <- H2. split; reflexivity.
  - destruct (IH _ eq_refl) as (pre & k & H1 & H2). rewrite andb_false_r, xorb_false_r in H.
    inversion H; subst. exists (b :: pre), k. split; reflexivity.
Qed.

(* consecutive vectors of all_bool_vectors are successors: chain_to u l z - the vectors of l follow u one
   increment at a time (without overflow) and end in z *)
Inductive chain_to : list bool -> list (list bool) -> list bool -> Prop :=
| ct_nil u : chain_to u [] u
| ct_cons u w rest z : incr u = (w, false) -> chain_to w rest z -> chain_to u (w :: rest) z.

Lemma ct_app u l1 m l2 z : chain_to u l1 m -> chain_to m l2 z -> chain_to u (l1 ++ l2) z.
Proof. induction 1 as [u|u w rest m Hi Hc IH]; intros H2; simpl; [exact H2|]. constructor; [exact Hi|apply IH; exact H2]. Qed.

Lemma ct_map_cons b u l z : chain_to u l z -> chain_to (b :: u) (map (cons b) l) (b :: z).
Proof.
  induction 1 as [u|u w rest z Hi Hc IH]; simpl; constructor; [|exact IH].
  simpl. rewrite Hi. rewrite andb_false_r, xorb_false_r. reflexivity.
Qed.

Lemma abv_shape n : exists rest,
  all_bool_vectors n = repeat false n :: rest /\ chain_to (repeat false n) rest (repeat true n).
Proof.
  induction n as [|n (rest & E & Hc)]; [exists []; split; [reflexivity|constructor]|].
  cbn [all_bool_vectors]. rewrite E. cbn [map app].
  exists (map (cons false) rest ++ (true :: repeat false n) :: map (cons true) rest). split; [reflexivity|].
  apply (ct_app _ _ (false :: repeat true n)); [apply (ct_map_cons false); exact Hc|].
  constructor.
  - simpl. rewrite incr_all_true. reflexivity.
  - apply (ct_map_cons true). exact Hc.
Qed.

(* ---- an assignment as the association list of the inputs with a vector of states ---- *)
Lemma py_zindex_app_len {A} (IL : list A) y IR :
  py_zindex (IL ++ y :: IR) (Z.of_nat (length IL)) = Ok y.
Proof.
  unfold py_zindex. rewrite app_length. cbn [length].
  replace ((Z.of_nat (length IL) <? - Z.of_nat (length IL + S (length IR)))%Z) with false by (symmetry; apply Z.ltb_ge; lia).
  replace ((Z.of_nat (length IL + S (length IR)) <=? Z.of_nat (length IL))%Z) with false by (symmetry; apply Z.leb_gt; lia).
  cbn [orb]. replace ((Z.of_nat (length IL) <? 0)%Z) with false by (symmetry; apply Z.ltb_ge; lia).
  rewrite Nat2Z.id. unfold nth_res. rewrite nth_error_app2 by lia. rewrite Nat.sub_diag. reflexivity.
Qed.

Lemma dget_combine_app {V} (IL : list label) y IR (VL : list V) v VR :
  ~ In y IL -> length IL = length VL ->
  dget (combine (IL ++ y :: IR) (VL ++ v :: VR)) y = Some v.
Proof.
  revert VL; induction IL as [|x IL IH]; intros [|a VL] Hn Hl; simpl in *; try discriminate.
  - rewrite leqb_refl. reflexivity.
  - destruct (leqb_spec y x) as [->|Hne]; [exfalso; apply Hn; left; reflexivity|].
    apply IH; [intros H; apply Hn; right; exact H|lia].
Qed.

Lemma dset_combine_app {V} (IL : list label) y IR (VL : list V) v v' VR :
  ~ In y IL -> length IL = length VL ->
  dset (combine (IL ++ y :: IR) (VL ++ v :: VR)) y v' = combine (IL ++ y :: IR) (VL ++ v' :: VR).
Proof.
  revert VL; induction IL as [|x IL IH]; intros [|a VL] Hn Hl; simpl in *; try discriminate.
  - rewrite leqb_refl. reflexivity.
  - destruct (leqb_spec y x) as [->|Hne]; [exfalso; apply Hn; left; reflexivity|].
    f_equal. apply IH; [intros H; apply Hn; right; exact H|lia].
Qed.

Lemma NoDup_app_mid {A} (IL : list A) y IR : NoDup (IL ++ y :: IR) -> ~ In y IL.
Proof. intros H Hin. apply NoDup_remove_2 in H. apply H. apply in_or_app. left; exact Hin. Qed.

(* ---- the while loop: clear the trailing ones ---- *)
Lemma while_clears ipre x : forall imid idone vpre fuel,
  NoDup (ipre ++ x :: imid ++ idone) -> length ipre = length vpre -> length imid < fuel ->
  gen_eval_dont_cares_while2 fuel (ipre ++ x :: imid ++ idone)
    (combine (ipre ++ x :: imid ++ idone) (vpre ++ F :: repeat T (length imid) ++ repeat F (length idone)),
     Z.of_nat (length ipre + length imid)) =
  Ok (combine (ipre ++ x :: imid ++ idone) (vpre ++ F :: repeat F (length imid) ++ repeat F (length idone)),
      Z.of_nat (length ipre)).
Proof.
  induction imid as [|y imid IH] using rev_ind; intros idone vpre fuel Hnd Hlen Hfuel.
  - destruct fuel as [|fuel]; [simpl in Hfuel; lia|].
    cbn [gen_eval_dont_cares_while2 length repeat app]. cbv beta iota. rewrite Nat.add_0_r.
    rewrite py_zindex_app_len. cbn [bind]. unfold py_dict_getitem.
    rewrite dget_combine_app by (try exact Hlen; eapply NoDup_app_mid; exact Hnd).
    cbn [bind py_state_truthy]. reflexivity.
  - destruct fuel as [|fuel]; [lia|]. rewrite app_length in Hfuel. cbn [length] in Hfuel.
    cbn [gen_eval_dont_cares_while2]. cbv beta iota.
    (* the position of y *)
    set (IL := ipre ++ x :: imid).
    assert (EI : ipre ++ x :: (imid ++ [y]) ++ idone = IL ++ y :: idone)
      by (unfold IL; rewrite <- (app_assoc ipre); cbn [app]; rewrite <- (app_assoc imid); reflexivity).
    assert (EV : vpre ++ F :: repeat T (length (imid ++ [y])) ++ repeat F (length idone)
                 = (vpre ++ F :: repeat T (length imid)) ++ T :: repeat F (length idone)).
    { rewrite app_length. cbn [length]. rewrite Nat.add_1_r.
      replace (repeat T (S (length imid))) with (repeat T (length imid) ++ [T])
        by (clear; induction (length imid) as [|k IHk]; simpl; [reflexivity|rewrite IHk; reflexivity]).
      rewrite <- (app_assoc vpre). cbn [app]. rewrite <- (app_assoc (repeat T (length imid))). reflexivity. }
    assert (EL : length IL = length (vpre ++ F :: repeat T (length imid)))
      by (unfold IL; rewrite !app_length; cbn [length]; rewrite repeat_length; lia).
    assert (Hy : ~ In y IL) by (rewrite EI in Hnd; eapply NoDup_app_mid; exact Hnd).
    assert (EZ : Z.of_nat (length ipre + length (imid ++ [y])) = Z.of_nat (length IL))
      by (unfold IL; rewrite !app_length; cbn [length]; f_equal; lia).
    rewrite EZ, EI, EV. rewrite py_zindex_app_len. cbn [bind]. unfold py_dict_getitem.
    rewrite dget_combine_app by assumption. cbn [bind py_state_truthy].
    rewrite dset_combine_app by assumption. cbn [inj].
    replace (Z.of_nat (length IL) - 1)%Z with (Z.of_nat (length ipre + length imid))
      by (unfold IL; rewrite app_length; cbn [length]; lia).
    (* back to the shape of the induction hypothesis, with y among the cleared positions *)
    replace (IL ++ y :: idone) with (ipre ++ x :: imid ++ (y :: idone))
      by (unfold IL; rewrite <- app_assoc; reflexivity).
    replace ((vpre ++ F :: repeat T (length imid)) ++ F :: repeat F (length idone))
      with (vpre ++ F :: repeat T (length imid) ++ repeat F (length (y :: idone)))
      by (rewrite <- app_assoc; reflexivity).
    rewrite IH; [|rewrite EI in Hnd; unfold IL in Hnd; rewrite <- app_assoc in Hnd; exact Hnd|exact Hlen|lia].
    f_equal. f_equal. f_equal. f_equal.
    rewrite app_length. cbn [length]. rewrite Nat.add_1_r. cbn [repeat].
    replace (F :: repeat F (length imid)) with (repeat F (length imid) ++ [F])
      by (clear; induction (length imid) as [|k IHk]; simpl; [reflexivity|rewrite IHk; reflexivity]).
    rewrite <- app_assoc. reflexivity.
Qed.

Lemma while_clears0 ipre x imid vpre fuel :
  NoDup (ipre ++ x :: imid) -> length ipre = length vpre -> length imid < fuel ->
  gen_eval_dont_cares_while2 fuel (ipre ++ x :: imid)
    (combine (ipre ++ x :: imid) (vpre ++ F :: repeat T (length imid)), Z.of_nat (length ipre + length imid)) =
  Ok (combine (ipre ++ x :: imid) (vpre ++ F :: repeat F (length imid)), Z.of_nat (length ipre)).
Proof.
  intros Hnd Hl Hf. pose proof (while_clears ipre x imid [] vpre fuel) as H.
  cbn [length repeat] in H. rewrite !app_nil_r in H. apply H; assumption.
Qed.

Lemma map_inj_repeat b k : map inj (repeat b k) = repeat (inj b) k.
Proof. induction k; simpl; congruence. Qed.

(* ---- one iteration of the first loop ---- *)
Definition row_step (c : circuit) (tt : dict (list N)) (a : dict st) : res (dict (list N)) :=
  do d <- evaluate_full_circuit c a; foldM gen_eval_dont_cares_for3 d tt.

Lemma for1_zero fuel c ins a tt :
  gen_eval_dont_cares_for1 fuel c ins (a, tt) 0%N = do tt' <- row_step c tt a; Ok (a, tt').
Proof.
  unfold gen_eval_dont_cares_for1, row_step. cbv beta iota. cbn [py_bool_of_N N.eqb negb bind].
  destruct (evaluate_full_circuit c a); cbn [bind]; [|reflexivity].
  destruct (foldM gen_eval_dont_cares_for3 a0 tt); reflexivity.
Qed.

Lemma for1_succ fuel c ins u w tt i :
  NoDup ins -> length u = length ins -> incr u = (w, false) -> length ins < fuel -> i <> 0%N ->
  gen_eval_dont_cares_for1 fuel c ins (combine ins (map inj u), tt) i =
  do tt' <- row_step c tt (combine ins (map inj w)); Ok (combine ins (map inj w), tt').
Proof.
  intros Hnd Hlen Hinc Hfuel Hi.
  destruct (incr_decomp _ _ Hinc) as (pre & k & Eu & Ew).
  assert (Hsplit : exists ipre x isuf, ins = ipre ++ x :: isuf /\ length ipre = length pre /\ length isuf = k).
  { subst u. rewrite app_length in Hlen. cbn [length] in Hlen. rewrite repeat_length in Hlen.
    exists (firstn (length pre) ins).
    destruct (skipn (length pre) ins) as [|x isuf] eqn:Es.
    - apply (f_equal (@length label)) in Es. rewrite skipn_length in Es. simpl in Es. lia.
    - exists x, isuf. split; [rewrite <- Es; symmetry; apply firstn_skipn|].
      split; [apply firstn_length_le; lia|].
      apply (f_equal (@length label)) in Es. rewrite skipn_length in Es. simpl in Es. lia. }
  destruct Hsplit as (ipre & x & isuf & Eins & Hpre & Hsuf). subst ins.
  unfold gen_eval_dont_cares_for1, row_step. cbv beta iota.
  replace (py_bool_of_N i) with true by (unfold py_bool_of_N; destruct (N.eqb_spec i 0); [contradiction|reflexivity]).
  assert (Hidx : (Z.of_N (py_len (ipre ++ x :: isuf)) - 1)%Z = Z.of_nat (length ipre + length isuf)).
  { unfold py_len. rewrite app_length. cbn [length]. lia. }
  rewrite Hidx.
  assert (E1 : map inj u = map inj pre ++ F :: repeat T (length isuf)).
  { rewrite Eu, map_app. cbn [map]. rewrite map_inj_repeat, Hsuf. reflexivity. }
  assert (E2 : map inj w = map inj pre ++ T :: repeat F (length isuf)).
  { rewrite Ew, map_app. cbn [map]. rewrite map_inj_repeat, Hsuf. reflexivity. }
  rewrite E1, E2.
  rewrite while_clears0;
    [|exact Hnd|rewrite map_length; exact Hpre|rewrite app_length in Hfuel; cbn [length] in Hfuel; lia].
  cbn [bind]. rewrite py_zindex_app_len. cbn [bind].
  rewrite dset_combine_app;
    [|apply (NoDup_app_mid ipre x isuf); exact Hnd|rewrite map_length; exact Hpre].
  cbn [inj bind].
  destruct (evaluate_full_circuit c (combine (ipre ++ x :: isuf) (map inj pre ++ T :: repeat F (length isuf))));
    cbn [bind]; [|reflexivity].
  destruct (foldM gen_eval_dont_cares_for3 a tt); reflexivity.
Qed.

(* ---- the first loop over a chain of vectors ---- *)
Lemma first_loop_chain fuel c ins : NoDup ins -> length ins < fuel ->
  forall vs u z idxs tt, chain_to u vs z -> length u = length ins -> length idxs = length vs ->
  Forall (fun i => i <> 0%N) idxs ->
  foldM (gen_eval_dont_cares_for1 fuel c ins) idxs (combine ins (map inj u), tt) =
  do tt' <- foldM (row_step c) (map (fun v => combine ins (map inj v)) vs) tt;
  Ok (combine ins (map inj z), tt').
Proof.
  intros Hnd Hfuel vs u z idxs tt Hc. revert idxs tt.
  induction Hc as [u|u w rest z Hi Hc IH]; intros idxs tt Hlen Hidx Hnz.
  - destruct idxs; [reflexivity|discriminate].
  - destruct idxs as [|i idxs]; [discriminate|]. cbn [foldM map]. inversion Hnz; subst.
    rewrite (for1_succ fuel c ins u w tt i Hnd Hlen Hi Hfuel) by assumption.
    destruct (row_step c tt (combine ins (map inj w))) as [tt1|e]; cbn [bind]; [|reflexivity].
    apply IH; [|simpl in Hidx; lia|assumption].
    (* the length of the successor *)
    rewrite <- Hlen. pose proof (incr_length u) as Hl. rewrite Hi in Hl. exact Hl.
Qed.
