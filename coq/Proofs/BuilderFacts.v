(* The two generic lemmas of the builder layer (extension and step) and what follows from
   them.  Everything here is proved once, for every program, by induction on [prog]. *)
Require Import Cirbo.Model.Base Cirbo.Model.Gate Cirbo.Model.Den Cirbo.Model.Circuit
  Cirbo.Model.Eval Cirbo.Model.Sem Cirbo.Model.Builder.
Require Import Cirbo.Generated.GateTypes Cirbo.Generated.ArithTables.
Require Import Cirbo.Proofs.DictFacts Cirbo.Proofs.OpFacts Cirbo.Proofs.SemFacts.

(* ------------------------------------------------------------------------------------ *)
(* c' is reachable from c by adding non-INPUT gates (with emplace_gate's checks) and marking
   outputs: the only two mutations a builder program can perform. *)
Inductive ext : circuit -> circuit -> Prop :=
| ext_refl c : ext c c
| ext_gate c c1 c' l t ops :
    ext c c1 -> t <> INPUT -> emplace_gate c1 l t ops = Ok c' -> ext c c'
| ext_out c c1 c' l :
    ext c c1 -> mark_as_output c1 l = Ok c' -> ext c c'.

Lemma ext_trans c1 c2 c3 : ext c1 c2 -> ext c2 c3 -> ext c1 c3.
Proof.
  intros H12 H23; revert c1 H12; induction H23; intros c0 Hc0;
    [exact Hc0|eapply ext_gate; [apply IHext; exact Hc0|eassumption|eassumption]
    |eapply ext_out; [apply IHext; exact Hc0|eassumption]].
Qed.

(* any invariant of the two primitive mutators is an invariant of every builder run *)
Theorem ext_invariant (P : circuit -> Prop) :
  (forall c l t ops c', P c -> t <> INPUT -> emplace_gate c l t ops = Ok c' -> P c') ->
  (forall c l c', P c -> mark_as_output c l = Ok c' -> P c') ->
  forall c c', ext c c' -> P c -> P c'.
Proof. intros Hg Ho c c' H; induction H; eauto. Qed.

(* ---- what one primitive step does to the fields ------------------------------------- *)
Lemma add_users_fields c ops u :
  gates (add_users c ops u) = gates c /\ inputs (add_users c ops u) = inputs c /\
  outputs (add_users c ops u) = outputs c /\ blocks (add_users c ops u) = blocks c.
Proof.
  unfold add_users. apply fold_left_inv; [|tauto].
  intros s x _ (H1 & H2 & H3 & H4). unfold add_user. destruct (dget (users s) x); simpl; tauto.
Qed.

Lemma dset_new {V} (d : dict V) k v : dmem d k = false -> dset d k v = d ++ [(k, v)].
Proof.
  unfold dmem; induction d as [|[k' v'] d IH]; simpl; [reflexivity|].
  destruct (leqb k k'); [discriminate|]. intros H; rewrite IH; auto.
Qed.

Lemma check_gates_exist_ok ls c : check_gates_exist ls c = Ok tt <-> Forall (fun l => has_gate c l = true) ls.
Proof.
  induction ls as [|l ls IH]; simpl; [split; constructor|].
  destruct (has_gate c l) eqn:E.
  - rewrite IH. split; [constructor; assumption|inversion 1; assumption].
  - split; [discriminate|inversion 1; congruence].
Qed.

Lemma check_gates_exist_inv ls c u : check_gates_exist ls c = Ok u -> Forall (fun l => has_gate c l = true) ls.
Proof. destruct u; apply check_gates_exist_ok. Qed.

Lemma emplace_gate_inv c l t ops c' :
  emplace_gate c l t ops = Ok c' -> t <> INPUT ->
  has_gate c l = false /\ Forall (fun o => has_gate c o = true) ops /\
  gates c' = gates c ++ [(l, mkGate t ops)] /\
  inputs c' = inputs c /\ outputs c' = outputs c /\ blocks c' = blocks c.
Proof.
  unfold emplace_gate, check_label_doesnt_exist. intros H Ht.
  destruct (has_gate c l) eqn:Hl; [discriminate|]. simpl in H.
  destruct (check_gates_exist ops c) as [u|] eqn:Hops; [|discriminate]. simpl in H.
  injection H as <-. apply check_gates_exist_inv in Hops.
  destruct (add_users_fields c ops l) as (G & I & O & B).
  unfold emplace_gate_raw. destruct (gtype_beq t INPUT) eqn:E; [apply gtype_beq_eq in E; contradiction|].
  simpl. rewrite G, I, O, B. repeat split; auto.
  apply dset_new. exact Hl.
Qed.

Lemma mark_as_output_inv c l c' :
  mark_as_output c l = Ok c' ->
  has_gate c l = true /\ gates c' = gates c /\ inputs c' = inputs c /\
  outputs c' = outputs c ++ [l] /\ blocks c' = blocks c.
Proof.
  unfold mark_as_output. destruct (check_gates_exist [l] c) as [u|] eqn:E; [|discriminate]. simpl.
  intros [= <-]. apply check_gates_exist_inv in E. inversion E; subst. simpl. tauto.
Qed.

Lemma NoDup_app_single {A} (l : list A) x : NoDup l -> ~ In x l -> NoDup (l ++ [x]).
Proof.
  induction l as [|y l IH]; simpl; intros Hnd Hn; [constructor; [tauto|constructor]|].
  inversion Hnd; subst. constructor.
  - rewrite in_app_iff; simpl. intros [H|[H|[]]]; [tauto|]. apply Hn; left; congruence.
  - apply IH; tauto.
Qed.

(* ---- extension: the shape of the result ----------------------------------------------- *)
Definition new_entry (c : circuit) (kg : label * gate) : Prop :=
  dmem (gates c) (fst kg) = false /\ gtyp (snd kg) <> INPUT.

Theorem ext_fields c c' :
  ext c c' ->
  exists ng m, gates c' = gates c ++ ng /\ Forall (new_entry c) ng /\ NoDup (dkeys ng) /\
               inputs c' = inputs c /\ blocks c' = blocks c /\ outputs c' = outputs c ++ m.
Proof.
  induction 1 as [c|c c1 c' l t ops _ IH Ht He|c c1 c' l _ IH Ho].
  - exists [], []. rewrite !app_nil_r. repeat split; constructor.
  - destruct IH as (ng & m & G & F & N & I & B & O).
    destruct (emplace_gate_inv _ _ _ _ _ He Ht) as (Hl & _ & G' & I' & O' & B').
    exists (ng ++ [(l, mkGate t ops)]), m.
    unfold has_gate in Hl. rewrite G in Hl.
    assert (dmem (gates c) l = false /\ ~ In l (dkeys ng)) as (Hl1 & Hl2).
    { unfold dmem in *. rewrite dget_app in Hl. destruct (dget (gates c) l); [discriminate|].
      split; [reflexivity|]. apply dget_None_keys. destruct (dget ng l); [discriminate|reflexivity]. }
    repeat split; try congruence.
    + rewrite G', G, app_assoc; reflexivity.
    + apply Forall_app; split; [exact F|]. constructor; [split; assumption|constructor].
    + unfold dkeys in *. rewrite map_app. simpl. apply NoDup_app_single; assumption.
  - destruct IH as (ng & m & G & F & N & I & B & O).
    destruct (mark_as_output_inv _ _ _ Ho) as (_ & G' & I' & O' & B').
    exists ng, (m ++ [l]). repeat split; try congruence.
    rewrite O', O, app_assoc; reflexivity.
Qed.

Lemma ext_dget c c' l g : ext c c' -> dget (gates c) l = Some g -> dget (gates c') l = Some g.
Proof.
  intros H Hg. destruct (ext_fields _ _ H) as (ng & m & G & _).
  rewrite G, dget_app, Hg. reflexivity.
Qed.

Lemma ext_has_gate c c' l : ext c c' -> has_gate c l = true -> has_gate c' l = true.
Proof.
  unfold has_gate, dmem. intros H. destruct (dget (gates c) l) eqn:E; [|discriminate].
  rewrite (ext_dget _ _ _ _ H E). reflexivity.
Qed.

Lemma ext_inputs c c' : ext c c' -> inputs c' = inputs c.
Proof. intros H; destruct (ext_fields _ _ H) as (ng & m & _ & _ & _ & I & _); exact I. Qed.
Lemma ext_blocks c c' : ext c c' -> blocks c' = blocks c.
Proof. intros H; destruct (ext_fields _ _ H) as (ng & m & _ & _ & _ & _ & B & _); exact B. Qed.
Lemma ext_outputs c c' : ext c c' -> exists m, outputs c' = outputs c ++ m.
Proof. intros H; destruct (ext_fields _ _ H) as (ng & m & _ & _ & _ & _ & _ & O); eauto. Qed.

(* "pre-existing gates keep their function", direction 1: every value derivable in c is
   derivable in c' (and, Eval being functional, is THE value in c') *)
Theorem Eval_ext c c' a l v : ext c c' -> Eval c a l v -> Eval c' a l v.
Proof.
  intros H He; induction He as [l g Hg Ht|l g vs v Hg Ht Hops IH Hop] using Eval_ind2.
  - eapply EvalInput; [eapply ext_dget; eassumption|exact Ht].
  - eapply EvalGate; [eapply ext_dget; eassumption|exact Ht|exact IH|exact Hop].
Qed.

(* closedness: every operand of every gate names a gate *)
Definition closed (c : circuit) : Prop :=
  forall l g, dget (gates c) l = Some g -> Forall (fun o => has_gate c o = true) (gops g).

Theorem ext_closed c c' : ext c c' -> closed c -> closed c'.
Proof.
  apply (ext_invariant closed).
  - intros c0 l t ops c1 Hc Ht He. destruct (emplace_gate_inv _ _ _ _ _ He Ht) as (Hl & Hops & G & _).
    assert (ext c0 c1) as Hx by (eapply ext_gate; [apply ext_refl|eassumption|eassumption]).
    intros k g. rewrite G, dget_app. destruct (dget (gates c0) k) eqn:E.
    + intros [= <-]. eapply Forall_impl; [|apply (Hc _ _ E)]. intros o; apply ext_has_gate, Hx.
    + simpl. destruct (leqb k l); [|discriminate]. intros [= <-]. simpl.
      eapply Forall_impl; [|exact Hops]. intros o; apply ext_has_gate, Hx.
  - intros c0 l c1 Hc Ho. destruct (mark_as_output_inv _ _ _ Ho) as (_ & G & _).
    intros k g. unfold has_gate. rewrite G. apply Hc.
Qed.

(* direction 2: on a closed host, the value of an OLD gate in c' is its value in c *)
Theorem Eval_ext_inv c c' a l v :
  closed c -> ext c c' -> has_gate c l = true -> Eval c' a l v -> Eval c a l v.
Proof.
  intros Hc H Hl He; revert Hl.
  induction He as [l g Hg Ht|l g vs v Hg Ht Hops IH Hop] using Eval_ind2; intros Hl;
    unfold has_gate, dmem in Hl; destruct (dget (gates c) l) as [g0|] eqn:E; try discriminate;
    rewrite (ext_dget _ _ _ _ H E) in Hg; injection Hg as ->.
  - eapply EvalInput; eassumption.
  - eapply EvalGate; [exact E|exact Ht| |exact Hop].
    specialize (Hc _ _ E). clear -Hc IH. induction IH; constructor; inversion Hc; subst; auto.
Qed.

(* ---- Boolean values -------------------------------------------------------------------- *)
Definition bval (c : circuit) (a : assignment) (l : label) (b : bool) : Prop := (Eval c a l (inj b)).
Notation bvals c a := (Forall2 (bval c a)).

Lemma inj_inj b b' : inj b = inj b' -> b = b'.
Proof. destruct b, b'; simpl; congruence. Qed.

Lemma bval_fun c a l b b' : bval c a l b -> bval c a l b' -> b = b'.
Proof. intros H H'. apply inj_inj. eapply Eval_functional; eassumption. Qed.

Lemma bvals_fun c a ls bs bs' : bvals c a ls bs -> bvals c a ls bs' -> bs = bs'.
Proof.
  intros H; revert bs'; induction H; intros bs' H'; inversion H'; subst; [reflexivity|].
  f_equal; [eapply bval_fun; eassumption|auto].
Qed.

Lemma bval_ext c c' a l b : ext c c' -> bval c a l b -> bval c' a l b.
Proof. intros H; apply Eval_ext, H. Qed.

Lemma bvals_ext c c' a ls bs : ext c c' -> bvals c a ls bs -> bvals c' a ls bs.
Proof. intros H Hv; induction Hv; constructor; [eapply bval_ext; eassumption|assumption]. Qed.

Lemma bval_has_gate c a l b : bval c a l b -> has_gate c l = true.
Proof. unfold bval, has_gate, dmem. intros H; inversion H; subst; rewrite H0 || rewrite H1; reflexivity. Qed.

Lemma bvals_length c a ls bs : bvals c a ls bs -> length ls = length bs.
Proof. induction 1; simpl; congruence. Qed.

Lemma bvals_app c a l1 l2 b1 b2 : bvals c a l1 b1 -> bvals c a l2 b2 -> bvals c a (l1 ++ l2) (b1 ++ b2).
Proof. apply Forall2_app. Qed.

Lemma bvals_rev c a ls bs : bvals c a ls bs -> bvals c a (rev ls) (rev bs).
Proof.
  induction 1; simpl; [constructor|]. apply Forall2_app; [assumption|constructor; [assumption|constructor]].
Qed.

(* step: a non-INPUT gate has the value den of its operands' values *)
Theorem bval_gate c a l t ops bs b :
  dget (gates c) l = Some (mkGate t ops) -> t <> INPUT ->
  bvals c a ops bs -> den t bs = Some b -> bval c a l b.
Proof.
  intros Hg Ht Hops Hd. eapply EvalGate with (vs := map inj bs); [exact Hg|exact Ht| |].
  - simpl. clear -Hops. induction Hops; constructor; assumption.
  - simpl. rewrite operator_of_den, Hd. reflexivity.
Qed.

(* ---- the regenerated table denotes the truth-table string --------------------------- *)
Theorem binary_tt_to_type_den t l r : den (binary_tt_to_type t) [l; r] = Some (tt_fun t l r).
Proof. destruct t as [[] [] [] []], l, r; reflexivity. Qed.

Lemma binary_tt_to_type_not_input t : binary_tt_to_type t <> INPUT.
Proof. destruct t as [[] [] [] []]; discriminate. Qed.

(* ---- inversion of runs ------------------------------------------------------------------ *)
Lemma run_bind_inv fresh {A B} (p : prog A) (k : A -> prog B) s r s' :
  run fresh (Bind p k) s = Ok (r, s') ->
  exists a s1, run fresh p s = Ok (a, s1) /\ run fresh (k a) s1 = Ok (r, s').
Proof. simpl. destruct (run fresh p s) as [[a s1]|]; [eauto|discriminate]. Qed.

Lemma run_ret_inv fresh {A} (a : A) s r s' : run fresh (Ret a) s = Ok (r, s') -> r = a /\ s' = s.
Proof. simpl; intros [= <- <-]; tauto. Qed.

Lemma fresh_loop_inv fresh c restr fuel k l k' :
  fresh_loop fresh c restr fuel k = Ok (l, k') ->
  has_gate c l = false /\ ~ In l restr /\ (k < k')%N.
Proof.
  revert k; induction fuel as [|f IH]; simpl; intros k; [discriminate|].
  destruct (has_gate c (fresh k) || memb (fresh k) restr) eqn:E.
  - intros H; destruct (IH _ H) as (H1 & H2 & H3). repeat split; auto; lia.
  - intros [= <- <-]. apply orb_false_iff in E as (E1 & E2). apply memb_nIn in E2.
    repeat split; auto; lia.
Qed.

Lemma run_fresh_inv fresh restr s l s' :
  run fresh (Fresh restr) s = Ok (l, s') ->
  bc s' = bc s /\ has_gate (bc s) l = false /\ ~ In l restr /\ (bk s < bk s')%N.
Proof.
  cbn [run]. destruct (fresh_loop fresh (bc s) restr (fresh_fuel (bc s) restr) (bk s)) as [[l0 k0]|] eqn:E;
    [|discriminate].
  cbn [bind fst snd]. intros [= <- <-]. cbn [bc bk]. apply fresh_loop_inv in E. tauto.
Qed.

Lemma run_addgate_inv fresh l t ops s u s' :
  run fresh (AddGate l t ops) s = Ok (u, s') ->
  t <> INPUT /\ emplace_gate (bc s) l t ops = Ok (bc s') /\ bk s' = bk s.
Proof.
  simpl. destruct (gtype_beq t INPUT) eqn:E; [discriminate|].
  unfold add_gate. destruct (emplace_gate (bc s) l t ops) as [c'|]; [|discriminate].
  simpl. intros [= <- <-]. simpl. repeat split; auto.
  intros ->. discriminate.
Qed.

Lemma run_markoutput_inv fresh l s u s' :
  run fresh (MarkOutput l) s = Ok (u, s') -> mark_as_output (bc s) l = Ok (bc s') /\ bk s' = bk s.
Proof.
  simpl. destruct (mark_as_output (bc s) l) as [c'|]; [|discriminate].
  simpl. intros [= <- <-]. simpl. tauto.
Qed.

(* ---- EXTENSION, for every program ------------------------------------------------------ *)
Theorem run_ext fresh {A} (p : prog A) : forall s r s', run fresh p s = Ok (r, s') -> ext (bc s) (bc s').
Proof.
  induction p as [A a|A B p IHp k IHk|A e|restr|l t ops|l]; intros s r s' H.
  - apply run_ret_inv in H as (_ & ->). apply ext_refl.
  - apply run_bind_inv in H as (a & s1 & H1 & H2). eapply ext_trans; [eapply IHp|eapply IHk]; eassumption.
  - discriminate.
  - apply run_fresh_inv in H as (-> & _). apply ext_refl.
  - apply run_addgate_inv in H as (Ht & He & _). eapply ext_gate; [apply ext_refl|eassumption|eassumption].
  - apply run_markoutput_inv in H as (Ho & _). eapply ext_out; [apply ext_refl|eassumption].
Qed.

(* the uuid counter only grows *)
Theorem run_counter fresh {A} (p : prog A) : forall s r s', run fresh p s = Ok (r, s') -> (bk s <= bk s')%N.
Proof.
  induction p as [A a|A B p IHp k IHk|A e|restr|l t ops|l]; intros s r s' H.
  - apply run_ret_inv in H as (_ & ->). lia.
  - apply run_bind_inv in H as (a & s1 & H1 & H2). apply IHp in H1. apply IHk in H2. lia.
  - discriminate.
  - apply run_fresh_inv in H as (_ & _ & _ & H). lia.
  - apply run_addgate_inv in H as (_ & _ & ->). lia.
  - apply run_markoutput_inv in H as (_ & ->). lia.
Qed.

(* ---- STEP ---------------------------------------------------------------------------------- *)
Theorem gate_new_spec fresh t ops s l s' :
  run fresh (gate_new t ops) s = Ok (l, s') ->
  ext (bc s) (bc s') /\ t <> INPUT /\ has_gate (bc s) l = false /\
  Forall (fun o => has_gate (bc s) o = true) ops /\
  gates (bc s') = gates (bc s) ++ [(l, mkGate t ops)] /\
  outputs (bc s') = outputs (bc s) /\
  forall a bs b, bvals (bc s) a ops bs -> den t bs = Some b -> bval (bc s') a l b.
Proof.
  intros H. pose proof (run_ext _ _ _ _ _ H) as Hx. unfold gate_new in H.
  apply run_bind_inv in H as (l0 & s1 & H1 & H). apply run_fresh_inv in H1 as (E1 & Hl & _).
  apply run_bind_inv in H as (u & s2 & H2 & H). apply run_ret_inv in H as (<- & ->).
  apply run_addgate_inv in H2 as (Ht & He & _). rewrite E1 in He.
  destruct (emplace_gate_inv _ _ _ _ _ He Ht) as (_ & Hops & G & _ & O & _).
  repeat split; auto.
  intros a bs b Hv Hd. eapply bval_gate; [|exact Ht|eapply bvals_ext; eassumption|exact Hd].
  rewrite G, dget_app. unfold has_gate, dmem in Hl. destruct (dget (gates (bc s)) l); [discriminate|].
  simpl. rewrite leqb_refl. reflexivity.
Qed.

Theorem gate_tt_spec fresh t x y s l s' :
  run fresh (gate_tt t x y) s = Ok (l, s') ->
  ext (bc s) (bc s') /\ has_gate (bc s) l = false /\
  has_gate (bc s) x = true /\ has_gate (bc s) y = true /\
  gates (bc s') = gates (bc s) ++ [(l, mkGate (binary_tt_to_type t) [x; y])] /\
  outputs (bc s') = outputs (bc s) /\
  forall a bx by_, bval (bc s) a x bx -> bval (bc s) a y by_ -> bval (bc s') a l (tt_fun t bx by_).
Proof.
  intros H. apply gate_new_spec in H as (Hx & _ & Hl & Hops & G & O & Hv).
  unfold gate_tt_operands in *. inversion Hops as [|? ? Hx1 Hops']; subst. inversion Hops'; subst.
  repeat split; auto.
  intros a bx by_ Hbx Hby. eapply Hv; [constructor; [eassumption|constructor; [eassumption|constructor]]|].
  apply binary_tt_to_type_den.
Qed.

(* what `ext c c'` says, in one statement *)
Theorem ext_meaning c c' :
  ext c c' ->
  (exists ng m, gates c' = gates c ++ ng /\ Forall (new_entry c) ng /\ NoDup (dkeys ng) /\
                inputs c' = inputs c /\ blocks c' = blocks c /\ outputs c' = outputs c ++ m) /\
  (forall a l v, Eval c a l v -> Eval c' a l v) /\
  (closed c -> closed c' /\ forall a l v, has_gate c l = true -> Eval c' a l v -> Eval c a l v).
Proof.
  intros H. split; [apply ext_fields, H|]. split; [intros; eapply Eval_ext; eassumption|].
  intros Hc. split; [eapply ext_closed; eassumption|]. intros; eapply Eval_ext_inv; eassumption.
Qed.
