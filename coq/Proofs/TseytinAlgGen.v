(* The regenerated ALGORITHM of cirbo/sat/cnf/tseytin.py (Generated/TseytinAlgGen.v, translator T13:
   tseytin_transformation and its closures __register_new_gate / get_lit / process_gate, statement by
   statement) equals the hand model Model/TseytinAlg.v - for ALL arguments and every fuel.
   The proofs never mention a bound variable of the generated terms, so renaming a local of the Python
   source does not disturb them. *)
Require Import Cirbo.Model.Base Cirbo.Model.Gate Cirbo.Model.Circuit Cirbo.Model.Cnf Cirbo.Model.TseytinAlg.
Require Import Cirbo.Generated.CircuitCore Cirbo.Generated.Tseytin Cirbo.Generated.TseytinAlgGen.
Require Import Cirbo.Proofs.CircuitCoreGen Cirbo.Proofs.CircuitCoreGen2.
Local Open Scope Z_scope.

(* ---------------------------------------------------------------- generic facts *)
Lemma tstate_eta (s : tstate) : mkT (saved s) (next_lit s) (clauses s) = s.
Proof. destruct s; reflexivity. Qed.

Lemma mapS_ext {S A B} (f g : S -> A -> res (S * B)) :
  (forall s x, f s x = g s x) -> forall l s, mapS f s l = mapS g s l.
Proof.
  intros H l. induction l as [|x xs IH]; intro s; simpl; [reflexivity|].
  rewrite H. destruct (g s x) as [r|e]; simpl; [|reflexivity].
  rewrite IH. reflexivity.
Qed.

Lemma foldM_ext {A S} (f g : S -> A -> res S) :
  (forall s x, f s x = g s x) -> forall l s, foldM f l s = foldM g l s.
Proof.
  intros H l. induction l as [|x xs IH]; intro s; simpl; [reflexivity|].
  rewrite H. destruct (g s x) as [r|e]; simpl; [apply IH|reflexivity].
Qed.

(* a loop whose body cannot fail is a plain fold *)
Lemma foldM_total {A S} (f : S -> A -> S) : forall l s, foldM (fun s x => Ok (f s x)) l s = Ok (fold_left f l s).
Proof. induction l as [|x xs IH]; intro s; simpl; [reflexivity|apply IH]. Qed.

(* ---------------------------------------------------------------- the closures *)
(* __register_new_gate: next_lit += 1; return next_lit *)
Lemma gen_register_new_gate_eq s :
  gen___register_new_gate s = Ok (mkT (saved s) (next_lit s + 1) (clauses s), next_lit s + 1).
Proof. reflexivity. Qed.

(* saved_lits[label] on the defaultdict = the model's get_lit *)
Lemma defaultdict_getitem_eq s l :
  defaultdict_getitem gen___register_new_gate s l = Ok (get_lit s l).
Proof.
  unfold defaultdict_getitem, get_lit. destruct (dget (saved s) l); reflexivity.
Qed.

Lemma gen_get_lit_eq s l : gen_get_lit s l = Ok (get_lit s l).
Proof.
  unfold gen_get_lit. rewrite defaultdict_getitem_eq. destruct (get_lit s l); reflexivity.
Qed.

(* a key that is present is returned unchanged *)
Lemma get_lit_present s l v : dget (saved s) l = Some v -> get_lit s l = (s, v).
Proof. intro H. unfold get_lit. rewrite H. reflexivity. Qed.

(* process_gate *)
Lemma gen_process_gate_eq : forall fuel c s l,
  gen_process_gate fuel c s l = process_gate fuel c s l.
Proof.
  induction fuel as [|fuel IH]; intros c s l; [reflexivity|].
  cbn [gen_process_gate process_gate].
  unfold dmem. destruct (dget (saved s) l) as [v|] eqn:E.
  - rewrite defaultdict_getitem_eq, (get_lit_present _ _ _ E). reflexivity.
  - rewrite gen_get_gate_eq. destruct (get_gate c l) as [g|e]; [|reflexivity].
    cbn [bind].
    rewrite (mapS_ext (fun st x => do (st0, t) <- gen_process_gate fuel c st x; Ok (st0, t))
                      (process_gate fuel c)).
    2:{ intros s0 x. rewrite IH. destruct (process_gate fuel c s0 x) as [[s1 v]|e]; reflexivity. }
    destruct (mapS (process_gate fuel c) s (gops g)) as [[s1 lits]|e]; [|reflexivity].
    cbn [bind fst snd].
    rewrite gen_get_lit_eq. cbn [bind].
    destruct (get_lit s1 l) as [s2 top].
    destruct (template_of (gtyp g) top lits) as [cl|e]; reflexivity.
Qed.

(* ---------------------------------------------------------------- the outer function *)
(* for input_label in circuit.inputs: _ = saved_lits[input_label] *)
Lemma gen_alloc_inputs_eq (ins : list label) s :
  foldM (fun st x => do (st0, t) <- defaultdict_getitem gen___register_new_gate st x; Ok st0) ins s
  = Ok (fold_left (fun s i => fst (get_lit s i)) ins s).
Proof.
  rewrite <- foldM_total. apply foldM_ext. intros s0 x.
  rewrite defaultdict_getitem_eq. destruct (get_lit s0 x); reflexivity.
Qed.

(* the body of `for output_index in outputs` *)
Lemma gen_process_output_eq fuel c s i :
  (do t2 <- gen_output_at_index c i;
   do (st, t3) <- gen_process_gate fuel c s t2;
   Ok (set_clauses st (clauses st ++ [[t3]])))
  = process_output fuel c s i.
Proof.
  unfold process_output. rewrite gen_output_at_index_z.
  destruct (output_at_index_z c i) as [o|e]; [|reflexivity].
  cbn [bind]. rewrite gen_process_gate_eq.
  destruct (process_gate fuel c s o) as [[s1 v]|e]; reflexivity.
Qed.

(* if outputs is None: outputs = list(range(circuit.output_size)) *)
Lemma gen_selected_indices_eq c outs :
  match outs with None => map Z.of_nat (seq 0 (gen_output_size c)) | Some o => o end = selected_indices c outs.
Proof. destruct outs; reflexivity. Qed.

(* the final closure state and the returned raw clause list, against the model's run *)
Theorem gen_tseytin_transformation_run : forall fuel c outs,
  gen_tseytin_transformation fuel c outs
  = do s <- foldM (process_output fuel c) (selected_indices c outs) (alloc_inputs c); Ok (s, clauses s).
Proof.
  intros fuel c outs. unfold gen_tseytin_transformation.
  change (set_saved (set_next_lit (mkT [] 0 []) 0) []) with t_init.
  rewrite gen_alloc_inputs_eq. cbn [bind].
  fold (alloc_inputs c).
  rewrite gen_selected_indices_eq.
  assert (Hc : set_clauses (alloc_inputs c) [] = alloc_inputs c).
  { unfold alloc_inputs.
    assert (H : forall ins s, clauses s = [] -> clauses (fold_left (fun s i => fst (get_lit s i)) ins s) = []).
    { induction ins as [|x xs IH]; intros s H0; simpl; [exact H0|].
      apply IH. unfold get_lit. destruct (dget (saved s) x); simpl; exact H0. }
    specialize (H (inputs c) t_init eq_refl).
    unfold set_clauses. rewrite <- H. apply tstate_eta. }
  rewrite Hc.
  rewrite (foldM_ext _ (process_output fuel c)); [reflexivity|].
  intros s i. rewrite <- gen_process_output_eq.
  destruct (gen_output_at_index c i) as [o|e]; [|reflexivity].
  cbn [bind]. destruct (gen_process_gate fuel c s o) as [[s1 v]|e]; reflexivity.
Qed.

(* what the hand model returns (clause list, label -> variable map) is the raw list of the returned Cnf
   object and the final saved_lits of the regenerated function; the raw list IS the final clause list *)
Theorem gen_tseytin_transformation_eq : forall fuel c outs,
  (do r <- gen_tseytin_transformation fuel c outs; Ok (snd r, saved (fst r))) = tseytin_fuel fuel c outs.
Proof.
  intros fuel c outs. rewrite gen_tseytin_transformation_run. unfold tseytin_fuel.
  destruct (foldM (process_output fuel c) (selected_indices c outs) (alloc_inputs c)); reflexivity.
Qed.

Theorem gen_tseytin_transformation_raw : forall fuel c outs st raw,
  gen_tseytin_transformation fuel c outs = Ok (st, raw) -> raw = clauses st.
Proof.
  intros fuel c outs st raw. rewrite gen_tseytin_transformation_run.
  destruct (foldM (process_output fuel c) (selected_indices c outs) (alloc_inputs c)); [|discriminate].
  cbn [bind]. intro H. inversion H. reflexivity.
Qed.

(* the statement used by Properties/C05.v: at every fuel, and at the fuel of `tseytin` / `tseytin_cnf` *)
Theorem algorithm_regenerated : forall c outs,
  (forall fuel, (do r <- gen_tseytin_transformation fuel c outs; Ok (snd r, saved (fst r)))
                = tseytin_fuel fuel c outs) /\
  (do r <- gen_tseytin_transformation (S (size c)) c outs; Ok (snd r, saved (fst r))) = tseytin c outs /\
  (do r <- gen_tseytin_transformation (S (size c)) c outs; Ok (snd r)) = tseytin_cnf c outs.
Proof.
  intros c outs. split; [|split].
  - intro fuel. apply gen_tseytin_transformation_eq.
  - apply gen_tseytin_transformation_eq.
  - unfold tseytin_cnf, tseytin. rewrite <- gen_tseytin_transformation_eq.
    destruct (gen_tseytin_transformation (S (size c)) c outs) as [[s r]|e]; reflexivity.
Qed.
