(* Shared lemmas for the equality proofs of the regenerated simplification passes (Generated/PassesGen.v,
   translator T15) with the hand model Model/Passes.v:
   - monad / fold plumbing;
   - the traversal idiom: a fold of the hooks over the event log of `traverse`, in order, equals the fold over
     `exits log ++ unvisiteds log` of the hand model (dfs_emission) - for every circuit, no hypothesis;
   - sorted(...) against the permutation test of the hand model. *)
Require Import Cirbo.Model.Base Cirbo.Model.Gate Cirbo.Model.Circuit Cirbo.Model.Traverse Cirbo.Model.Eval
               Cirbo.Model.Passes.
Require Import Cirbo.Generated.GateTypes Cirbo.Generated.PassesGen.
Require Import Cirbo.Proofs.TraverseStep Cirbo.Proofs.TraverseInv Cirbo.Proofs.TraverseSpec.
From Coq Require Import Permutation Sorted.

(* ---------------- plumbing ---------------- *)
Lemma pg_bind_assoc {A B C} (r : res A) (f : A -> res B) (g : B -> res C) :
  bind (bind r f) g = bind r (fun x => bind (f x) g).
Proof. destruct r; reflexivity. Qed.

Lemma pg_bind_ext {A B} (r : res A) (f g : A -> res B) :
  (forall x, f x = g x) -> bind r f = bind r g.
Proof. intros H. destruct r; simpl; auto. Qed.

Lemma pg_bind_ok_r {A} (r : res A) : bind r (fun x => Ok x) = r.
Proof. destruct r; reflexivity. Qed.

Lemma pg_foldM_ext {A S} (f g : S -> A -> res S) l :
  (forall s x, f s x = g s x) -> forall s, foldM f l s = foldM g l s.
Proof.
  intros H. induction l as [|x xs IH]; intros s; simpl; [reflexivity|].
  rewrite H. apply pg_bind_ext. exact IH.
Qed.

Lemma pg_foldM_app {A S} (f : S -> A -> res S) l1 l2 : forall s,
  foldM f (l1 ++ l2) s = bind (foldM f l1 s) (foldM f l2).
Proof.
  induction l1 as [|x xs IH]; intros s; simpl; [reflexivity|].
  rewrite pg_bind_assoc. apply pg_bind_ext. exact IH.
Qed.

Lemma pg_foldM_id {A S} (l : list A) (s : S) : foldM (fun s _ => Ok s) l s = Ok s.
Proof. induction l; simpl; auto. Qed.

Lemma pg_mapM_ext {A B} (f g : A -> res B) l : (forall x, f x = g x) -> mapM f l = mapM g l.
Proof.
  intros H. induction l as [|x xs IH]; simpl; [reflexivity|]. rewrite H, IH. reflexivity.
Qed.

(* a fold over a state that is a function of another state *)
Lemma pg_foldM_rel {A S1 S2} (R : S1 -> S2 -> Prop) (f1 : S1 -> A -> res S1) (f2 : S2 -> A -> res S2) l :
  (forall s1 s2 x, R s1 s2 ->
     match f1 s1 x, f2 s2 x with
     | Ok a, Ok b => R a b
     | Err e1, Err e2 => e1 = e2
     | _, _ => False
     end) ->
  forall s1 s2, R s1 s2 ->
    match foldM f1 l s1, foldM f2 l s2 with
    | Ok a, Ok b => R a b
    | Err e1, Err e2 => e1 = e2
    | _, _ => False
    end.
Proof.
  intros H. induction l as [|x xs IH]; intros s1 s2 HR; simpl; [exact HR|].
  specialize (H s1 s2 x HR).
  destruct (f1 s1 x) as [a|e1], (f2 s2 x) as [b|e2]; simpl; try contradiction; [apply IH; exact H|exact H].
Qed.

(* a fold over a state that is the image of another state *)
Lemma fold_iso {A S1 S2} (to : S2 -> S1) (f1 : S1 -> A -> res S1) (f2 : S2 -> A -> res S2) :
  (forall s x, f1 (to s) x = bind (f2 s x) (fun s' => Ok (to s'))) ->
  forall l s, foldM f1 l (to s) = bind (foldM f2 l s) (fun s' => Ok (to s')).
Proof.
  intros H. induction l as [|x xs IH]; intros s; simpl; [reflexivity|].
  rewrite H, !pg_bind_assoc. apply pg_bind_ext. intros s'. simpl. apply IH.
Qed.

(* ---------------- the traversal idiom ---------------- *)
Lemma passes_exits_eq log : Passes.exits log = TraverseInv.exits log.
Proof. reflexivity. Qed.
Lemma passes_unvisiteds_eq log : Passes.unvisiteds log = TraverseInv.unvisited_of log.
Proof. reflexivity. Qed.

(* shape of every log that `traverse` returns: loop events, then the unvisited events, then EvEnd *)
Lemma traverse_log_shape mode inverse c starts tu abort log :
  traverse mode inverse c starts tu abort = Ok log ->
  log = [] \/ exists log0 unv, log = log0 ++ map EvUnvisited unv ++ [EvEnd] /\ Forall loop_event log0.
Proof.
  intros Ht.
  assert (Hd : gates c = [] \/ gates c <> []) by (destruct (gates c); [left; reflexivity|right; discriminate]).
  destruct Hd as [Hd|Hd].
  { rewrite (traverse_empty _ _ _ _ _ _ Hd) in Ht. injection Ht as <-. left; reflexivity. }
  rewrite (traverse_nonempty _ _ _ _ _ _ Hd) in Ht.
  destruct (traverse_loop (traverse_fuel c (start_list inverse c starts)) mode inverse c abort []
                          (start_list inverse c starts) []) as [[sts log0]|e] eqn:El; cbn [bind] in Ht; [|discriminate].
  destruct (if tu then top_sort true c else Ok (dkeys (gates c))) as [order|e]; cbn [bind] in Ht; [|discriminate].
  injection Ht as <-. right. do 2 eexists. split; [reflexivity|].
  apply loop_ok_steps in El.
  exact (InvL_steps mode inverse c abort _ _ El (Forall_nil _)).
Qed.

Section HookFold.
  Context {S : Type}.
  Variable h : S -> event -> res S.
  Variable fe fu : S -> label -> res S.
  Hypothesis h_exit : forall s l, h s (EvExit l) = fe s l.
  Hypothesis h_unv : forall s l, h s (EvUnvisited l) = fu s l.
  Hypothesis h_enter : forall s l, h s (EvEnter l) = Ok s.
  Hypothesis h_disc : forall s l t, h s (EvDiscover l t) = Ok s.
  Hypothesis h_yield : forall s l, h s (EvYield l) = Ok s.
  Hypothesis h_end : forall s, h s EvEnd = Ok s.

  Lemma hook_fold_loop log0 : Forall loop_event log0 -> forall s,
    foldM h log0 s = foldM fe (Passes.exits log0) s.
  Proof.
    induction 1 as [|e l He _ IH]; intros s; [reflexivity|].
    destruct e; simpl in He; try contradiction; simpl.
    - rewrite h_enter. simpl. apply IH.
    - rewrite h_disc. simpl. apply IH.
    - rewrite h_exit. apply pg_bind_ext. exact IH.
    - rewrite h_yield. simpl. apply IH.
  Qed.

  Lemma hook_fold_tail unv : forall s,
    foldM h (map EvUnvisited unv ++ [EvEnd]) s = foldM fu unv s.
  Proof.
    induction unv as [|l ls IH]; intros s; simpl.
    - rewrite h_end. reflexivity.
    - rewrite h_unv. apply pg_bind_ext. exact IH.
  Qed.

  Lemma exits_tail_nil unv : Passes.exits (map EvUnvisited unv ++ [EvEnd]) = [].
  Proof. induction unv; simpl; auto. Qed.
  Lemma unvisiteds_tail unv : Passes.unvisiteds (map EvUnvisited unv ++ [EvEnd]) = unv.
  Proof. induction unv as [|l ls IH]; simpl; [reflexivity|rewrite IH; reflexivity]. Qed.
  Lemma unvisiteds_loop log0 : Forall loop_event log0 -> Passes.unvisiteds log0 = [].
  Proof. intros H. apply loop_event_unvisited in H. exact (proj1 H). Qed.

  (* the fold of the hooks over the log, in order = the exit hook over the exits, then the unvisited hook over
     the unvisited gates *)
  Theorem hook_fold_traverse mode inverse c starts tu abort log s :
    traverse mode inverse c starts tu abort = Ok log ->
    foldM h log s = bind (foldM fe (Passes.exits log) s) (foldM fu (Passes.unvisiteds log)).
  Proof.
    intros Ht. destruct (traverse_log_shape _ _ _ _ _ _ _ Ht) as [->|(log0 & unv & -> & Hl)]; [reflexivity|].
    assert (E1 : Passes.exits (log0 ++ map EvUnvisited unv ++ [EvEnd]) = Passes.exits log0).
    { unfold Passes.exits. rewrite flat_map_app. fold (Passes.exits log0) (Passes.exits (map EvUnvisited unv ++ [EvEnd])).
      rewrite exits_tail_nil, app_nil_r. reflexivity. }
    assert (E2 : Passes.unvisiteds (log0 ++ map EvUnvisited unv ++ [EvEnd]) = unv).
    { unfold Passes.unvisiteds. rewrite flat_map_app.
      fold (Passes.unvisiteds log0) (Passes.unvisiteds (map EvUnvisited unv ++ [EvEnd])).
      rewrite unvisiteds_tail, (unvisiteds_loop log0 Hl). reflexivity. }
    rewrite E1, E2, pg_foldM_app, (hook_fold_loop log0 Hl).
    apply pg_bind_ext. intros s1. apply hook_fold_tail.
  Qed.
End HookFold.

(* both hooks are the same function: the fold over exits ++ unvisiteds *)
Lemma hook_fold_same {S} (h : S -> event -> res S) (f : S -> label -> res S) :
  (forall s l, h s (EvExit l) = f s l) -> (forall s l, h s (EvUnvisited l) = f s l) ->
  (forall s l, h s (EvEnter l) = Ok s) -> (forall s l t, h s (EvDiscover l t) = Ok s) ->
  (forall s l, h s (EvYield l) = Ok s) -> (forall s, h s EvEnd = Ok s) ->
  forall mode inverse c starts tu abort log s,
    traverse mode inverse c starts tu abort = Ok log ->
    foldM h log s = foldM f (Passes.exits log ++ Passes.unvisiteds log) s.
Proof.
  intros H1 H2 H3 H4 H5 H6 mode inverse c starts tu abort log s Ht.
  rewrite (hook_fold_traverse h f f H1 H2 H3 H4 H5 H6 _ _ _ _ _ _ _ s Ht), pg_foldM_app. reflexivity.
Qed.

(* only an exit hook *)
Lemma hook_fold_exit {S} (h : S -> event -> res S) (f : S -> label -> res S) :
  (forall s l, h s (EvExit l) = f s l) -> (forall s l, h s (EvUnvisited l) = Ok s) ->
  (forall s l, h s (EvEnter l) = Ok s) -> (forall s l t, h s (EvDiscover l t) = Ok s) ->
  (forall s l, h s (EvYield l) = Ok s) -> (forall s, h s EvEnd = Ok s) ->
  forall mode inverse c starts tu abort log s,
    traverse mode inverse c starts tu abort = Ok log ->
    foldM h log s = foldM f (Passes.exits log) s.
Proof.
  intros H1 H2 H3 H4 H5 H6 mode inverse c starts tu abort log s Ht.
  rewrite (hook_fold_traverse h f (fun s _ => Ok s) H1 H2 H3 H4 H5 H6 _ _ _ _ _ _ _ s Ht).
  destruct (foldM f (Passes.exits log) s); simpl; [apply pg_foldM_id|reflexivity].
Qed.

(* ---------------- sorted(...) ---------------- *)
Lemma py_insert_perm x l : Permutation (x :: l) (py_insert x l).
Proof.
  induction l as [|y ys IH]; simpl; [reflexivity|].
  destruct (String.leb x y); [reflexivity|].
  rewrite perm_swap. constructor. exact IH.
Qed.

Lemma py_sorted_perm l : Permutation l (py_sorted l).
Proof.
  induction l as [|x xs IH]; simpl; [constructor|].
  rewrite <- py_insert_perm. constructor. exact IH.
Qed.

Definition sle (a b : label) : Prop := String.leb a b = true.

Lemma sle_trans : forall a b c, sle a b -> sle b c -> sle a c.
Proof.
  unfold sle, String.leb.
  induction a as [|x a IH]; intros [|y b] [|z c]; simpl; try congruence; auto.
  unfold Ascii.compare.
  destruct (N.compare_spec (N_of_ascii x) (N_of_ascii y)), (N.compare_spec (N_of_ascii y) (N_of_ascii z)),
           (N.compare_spec (N_of_ascii x) (N_of_ascii z));
    intros Hab Hbc; try discriminate; try reflexivity; try lia; eauto.
Qed.

Lemma py_insert_sorted x l : StronglySorted sle l -> StronglySorted sle (py_insert x l).
Proof.
  induction 1 as [|y ys Hs IH Hall]; simpl; [repeat constructor|].
  destruct (String.leb x y) eqn:E.
  - constructor; [constructor; assumption|]. constructor; [exact E|].
    eapply Forall_impl; [|exact Hall]. intros z Hz. eapply sle_trans; eauto.
  - constructor; [exact IH|].
    assert (Hyx : sle y x). { destruct (String.leb_total x y) as [H|H]; [congruence|exact H]. }
    eapply Permutation_Forall; [apply py_insert_perm|]. constructor; assumption.
Qed.

Lemma py_sorted_sorted l : StronglySorted sle (py_sorted l).
Proof. induction l; simpl; [constructor|apply py_insert_sorted; assumption]. Qed.

Lemma sorted_perm_eq a : forall b, StronglySorted sle a -> StronglySorted sle b -> Permutation a b -> a = b.
Proof.
  induction a as [|x xs IH]; intros b Ha Hb Hp.
  - apply Permutation_nil in Hp. subst; reflexivity.
  - destruct b as [|y ys]; [apply Permutation_sym, Permutation_nil in Hp; discriminate|].
    inversion Ha as [|? ? Hxs Hax]; subst. inversion Hb as [|? ? Hys Hby]; subst.
    assert (x = y).
    { assert (Hx : In x (y :: ys)) by (eapply Permutation_in; [exact Hp|left; reflexivity]).
      assert (Hy : In y (x :: xs)) by (eapply Permutation_in; [apply Permutation_sym; exact Hp|left; reflexivity]).
      destruct Hx as [->|Hx]; [reflexivity|]. destruct Hy as [->|Hy]; [reflexivity|].
      rewrite Forall_forall in Hax, Hby. apply String.leb_antisym; [apply Hax; exact Hy|apply Hby; exact Hx]. }
    subst y. f_equal. apply IH; auto. eapply Permutation_cons_inv; exact Hp.
Qed.

Lemma py_sorted_eq_iff a b : py_sorted a = py_sorted b <-> Permutation a b.
Proof.
  split; intros H.
  - rewrite (py_sorted_perm a), (py_sorted_perm b), H. reflexivity.
  - apply sorted_perm_eq; try apply py_sorted_sorted.
    rewrite <- (py_sorted_perm a), <- (py_sorted_perm b). exact H.
Qed.
