(* The regenerated decoder gen__get_circuit_by_model (Generated/SearchEncGen.v, translator T17) equals the hand
   model `decode` + `to_typed` + `build_circuit` (Model/Search.v, Model/SearchCircuit.v) on every model list that
   - says something about every predecessor variable of the spec (the `assert -v in model` of the source),
   - does not set an output variable at an input gate (those names are not in the pool when the solver runs:
     the loop over self._gates allocates them after the fact),
   - selects a pair of predecessors for every gate (decode succeeds),
   i.e. on every model a SAT solver returns for the CNF.  Outside these conditions the hand model answers before
   any circuit is built while the source fails inside Circuit.add_gate; that case is not compared here.
   No proof mentions a bound variable of a generated term. *)
Require Import Cirbo.Model.Base Cirbo.Model.Gate Cirbo.Model.Circuit Cirbo.Model.Search Cirbo.Model.SearchCircuit
               Cirbo.Model.SearchPy.
Require Import Cirbo.Generated.SearchTables Cirbo.Generated.SearchEncGen.
Require Import Cirbo.Proofs.SearchFacts Cirbo.Proofs.SearchEncGenLib Cirbo.Proofs.SearchEncGenA Cirbo.Proofs.SearchEncGenB.
From Coq Require Import Lia Arith PeanoNat Bool.
Local Open Scope nat_scope.

(* the assignment a model list denotes: v is true iff the positive literal is in the list *)
Definition asg_of_model (model : list lit) : asg := fun v => lit_in (pos v) model.

Definition model_total (sp : spec) (model : list lit) : Prop :=
  forall g a b, In g (internal sp) -> a < b -> b < g ->
    lit_in (pos (VS g a b)) model = true \/ lit_in (neg (VS g a b)) model = true.

Definition no_input_outputs (sp : spec) (model : list lit) : Prop :=
  forall h i, h < sp_m sp -> i < sp_n sp -> lit_in (pos (VG h i)) model = false.

(* ---------------------------------------------------------------- generic loops *)
Lemma sfoldM_pure {A S} (F : S -> A -> sres S) (step : S -> A -> S) (l : list A) :
  (forall s x, In x l -> F s x = SOk (step s x)) -> forall s, sfoldM F l s = SOk (fold_left step l s).
Proof.
  induction l as [|x xs IH]; intros H s; [reflexivity|].
  cbn [sfoldM fold_left]. rewrite (H s x (or_introl eq_refl)), sbind_ok. apply IH.
  intros s' y Hy. apply H. right. exact Hy.
Qed.

Lemma sfoldM_lift {A S} (F : S -> A -> sres S) (f : S -> A -> res S) (l : list A) :
  (forall s x, In x l -> F s x = lift (f s x)) -> forall s, sfoldM F l s = lift (foldM f l s).
Proof.
  induction l as [|x xs IH]; intros H s; [reflexivity|].
  cbn [sfoldM foldM]. rewrite (H s x (or_introl eq_refl)).
  destruct (f s x) as [s'|e]; cbn [lift sbind bind]; [|reflexivity].
  apply IH. intros s'' y Hy. apply H. right. exact Hy.
Qed.

Lemma lift_bind {A B} (r : res A) (f : A -> res B) : lift (bind r f) = sbind (lift r) (fun a => lift (f a)).
Proof. destruct r; reflexivity. Qed.

Lemma sbind_lift_ret {A} (r : res A) : sbind (lift r) (fun a => SOk a) = lift r.
Proof. destruct r; reflexivity. Qed.

Lemma foldM_app {A S} (f : S -> A -> res S) (l1 l2 : list A) (s : S) :
  foldM f (l1 ++ l2) s = bind (foldM f l1 s) (foldM f l2).
Proof.
  revert s. induction l1 as [|x xs IH]; intros s; [reflexivity|].
  cbn [foldM app]. destruct (f s x) as [s'|e]; cbn [bind]; [apply IH|reflexivity].
Qed.

Lemma foldM_skip {A S} (f : S -> A -> res S) (l : list A) :
  (forall s x, In x l -> f s x = Ok s) -> forall s, foldM f l s = Ok s.
Proof.
  induction l as [|x xs IH]; intros H s; [reflexivity|].
  cbn [foldM]. rewrite (H s x (or_introl eq_refl)). cbn [bind]. apply IH. intros s' y Hy. apply H. right. exact Hy.
Qed.

Lemma foldM_cond {A S} (p : A -> bool) (f : S -> A -> res S) (l : list A) (s : S) :
  foldM (fun s x => if p x then f s x else Ok s) l s = foldM f (filter p l) s.
Proof.
  revert s. induction l as [|x xs IH]; intros s; [reflexivity|].
  cbn [foldM filter]. destruct (p x); cbn [foldM bind].
  - destruct (f s x) as [s'|e]; cbn [bind]; [apply IH|reflexivity].
  - apply IH.
Qed.

Lemma foldM_flat_map {A B S} (f : S -> B -> res S) (g : A -> list B) (l : list A) (s : S) :
  foldM (fun s x => foldM f (g x) s) l s = foldM f (flat_map g l) s.
Proof.
  revert s. induction l as [|x xs IH]; intros s; [reflexivity|].
  cbn [foldM flat_map]. rewrite foldM_app. destruct (foldM f (g x) s) as [s'|e]; cbn [bind]; [apply IH|reflexivity].
Qed.

Lemma foldM_ext_in' {A S} (f g : S -> A -> res S) (l : list A) :
  (forall s x, In x l -> f s x = g s x) -> forall s, foldM f l s = foldM g l s.
Proof.
  induction l as [|x xs IH]; intros H s; [reflexivity|].
  cbn [foldM]. rewrite (H s x (or_introl eq_refl)). destruct (g s x) as [s'|e]; cbn [bind]; [|reflexivity].
  apply IH. intros s'' y Hy. apply H. right. exact Hy.
Qed.

(* the pair of Optionals the source keeps against the Optional pair of find_pair *)
Lemma find_pair_split (p : nat * nat -> bool) (l : list (nat * nat)) : forall acc : option (nat * nat),
  fold_left (fun (st : option nat * option nat) ab => if p ab then (Some (fst ab), Some (snd ab)) else st) l
            (option_map fst acc, option_map snd acc)
  = (option_map fst (fold_left (fun acc ab => if p ab then Some ab else acc) l acc),
     option_map snd (fold_left (fun acc ab => if p ab then Some ab else acc) l acc)).
Proof.
  induction l as [|ab l IH]; intros acc; [reflexivity|].
  cbn [fold_left]. destruct (p ab).
  - apply (IH (Some ab)).
  - apply IH.
Qed.

Section Dec.
  Variables (sp : spec) (b1 b2 : bool) (c : list clause) (model : list lit).
  Notation n := (sp_n sp).
  Notation r := (sp_r sp).
  Notation s := (asg_of_model model).
  Notation self := (fin sp c b1 b2).

  (* the gate type read off the model for gate g *)
  Definition tt_of (g : nat) : tt4 :=
    (s (VF g false false), s (VF g false true), s (VF g true false), s (VF g true true)).

  (* one iteration of the gate loop of the hand model, on the gate index itself *)
  Definition gate_step (acc : circuit) (g : nat) : res circuit :=
    match find_pair s g with
    | Some ab => add_gate acc ("s" ++ nat_str g)%string (tt_to_gate_type (tt_of g))
                          [gate_label n (fst ab); gate_label n (snd ab)]
    | None => Err CircuitValidationError
    end.

  Lemma fuse_gates : forall k n0 i0 gs acc, n0 = n + i0 ->
    mapM (decode_gate s) (seq n0 k) = Ok gs ->
    foldM gate_step (seq n0 k) acc =
    foldM (fun acc ig => add_gate acc ("s" ++ nat_str (n + fst ig))%string (tty (snd ig))
                                  [gate_label n (ta (snd ig)); gate_label n (tb (snd ig))])
          (combine (seq i0 (length (map (to_tgate tt_to_gate_type) gs))) (map (to_tgate tt_to_gate_type) gs)) acc.
  Proof.
    induction k as [|k IH]; intros n0 i0 gs acc Hn H.
    - cbn in H. inversion H. reflexivity.
    - cbn [seq mapM] in H. unfold decode_gate at 1 in H.
      destruct (find_pair s n0) as [ab|] eqn:Ep; [|discriminate]. cbn [bind] in H.
      destruct (mapM (decode_gate s) (seq (S n0) k)) as [gs'|] eqn:Em; [|discriminate]. cbn [bind] in H.
      inversion H; subst gs. clear H.
      cbn [seq foldM map length combine]. unfold gate_step at 1. rewrite Ep. cbn [fst snd to_tgate ta tb tty ga gb gtt].
      replace (n + i0) with n0 by lia. fold (tt_of n0).
      destruct (add_gate acc _ _ _) as [acc'|e]; cbn [bind]; [|reflexivity].
      apply IH; [lia|exact Em].
  Qed.

  Hypothesis Htot : model_total sp model.
  Hypothesis Hin : no_input_outputs sp model.

  Theorem gen_decode_eq ck : decode sp s = Ok ck ->
    gen__get_circuit_by_model self model = lift (build_circuit n (to_typed tt_to_gate_type ck)).
  Proof.
    intros Hd. unfold decode in Hd.
    destruct (mapM (decode_gate s) (internal sp)) as [gs|] eqn:Em; [|discriminate]. cbn [bind] in Hd.
    inversion Hd; subst ck; clear Hd.
    unfold gen__get_circuit_by_model, build_circuit. cbv zeta.
    cbn [to_typed tc_gates tc_outs ck_gates ck_outs].
    (* the inputs *)
    rewrite fin_inputs.
    rewrite (sfoldM_lift _ (fun acc i => add_gate acc (nat_str i) INPUT [])).
    2:{ intros acc i _. apply sbind_lift_ret. }
    rewrite lift_bind. destruct (foldM _ (seq 0 n) empty_circuit) as [c0|e]; cbn [lift sbind]; [|reflexivity].
    (* the gates *)
    rewrite fin_internal.
    rewrite (sfoldM_lift _ gate_step).
    2:{ intros acc g Hg. pose proof (internal_lt sp g Hg) as Hlt. cbv beta zeta.
        (* the predecessor pair *)
        rewrite (sfoldM_pure _ (fun (st : option nat * option nat) ab =>
                   if s (VS g (fst ab) (snd ab)) then (Some (fst ab), Some (snd ab)) else st)).
        2:{ intros [fp sd] [a b] Hab. apply in_pairs in Hab. cbn [fst snd]. cbv beta.
            rewrite !gen_pred_var by (try assumption; lia). rewrite !sbind_ok. cbv beta zeta.
            unfold asg_of_model. destruct (lit_in (pos (VS g a b)) model) eqn:Ep; rewrite ?sbind_ok; [reflexivity|].
            destruct (Htot g a b Hg) as [H|H]; try lia; [congruence|].
            change (lneg (pos (VS g a b))) with (neg (VS g a b)). rewrite H, sbind_ok. reflexivity. }
        rewrite sbind_ok. cbv beta.
        change (@None nat, @None nat) with (option_map (@fst nat nat) None, option_map (@snd nat nat) None).
        rewrite (find_pair_split (fun ab => s (VS g (fst ab) (snd ab)))). fold (pairs g). fold (find_pair s g).
        (* the truth table *)
        rewrite (sfoldM_pure _ (fun (l : list bool) pq => l ++ [s (VF g (nz (fst pq)) (nz (snd pq)))])).
        2:{ intros l [p q] Hpq. apply in_product2_bits in Hpq. cbn [fst snd]. cbv beta.
            rewrite gen_type_var by lia. rewrite sbind_ok. cbv beta zeta. unfold asg_of_model.
            destruct (lit_in _ model); rewrite sbind_ok; reflexivity. }
        rewrite sbind_ok. cbv beta. cbn [py_product2 seq flat_map map app fold_left fst snd nz Nat.eqb negb].
        cbn [tt4_of_list]. rewrite sbind_ok. cbv beta. fold (tt_of g).
        unfold gate_step. rewrite ?fin_inputs.
        destruct (find_pair s g) as [[a b]|] eqn:Ep.
        - cbn [option_map fst snd opt_mem_nat opt_nat_str]. rewrite !mem_nat_seq0. apply sbind_lift_ret.
        - (* decode succeeded: every gate has a pair *)
          exfalso. destruct (mapM_ok_inv _ _ _ Em) as [_ Hall].
          destruct (In_nth_error _ _ Hg) as [i Hi]. destruct (Hall i g Hi) as [y [_ Hy]].
          assert (Hex : exists y, decode_gate s g = Ok y) by (exists y; exact Hy). clear Hy y.
          destruct Hex as [y Hy]. unfold decode_gate in Hy. rewrite Ep in Hy. discriminate. }
    unfold internal. rewrite (fuse_gates r n 0 gs c0) by (try lia; exact Em).
    rewrite lift_bind.
    destruct (foldM _ (combine _ _) c0) as [c1|e]; cbn [lift sbind]; [|reflexivity].
    (* the outputs *)
    rewrite fin_outputs.
    rewrite (sfoldM_lift _ (fun acc h => foldM (fun acc o => mark_as_output acc ("s" ++ nat_str o)%string)
                                               (filter (fun g => s (VG h g)) (internal sp)) acc)).
    2:{ intros acc h Hh. apply in_seq in Hh. cbv beta. rewrite fin_gates.
        rewrite (sfoldM_lift _ (fun acc g => if s (VG h g) then mark_as_output acc ("s" ++ nat_str g)%string else Ok acc)).
        2:{ intros acc' g Hg. apply in_seq in Hg. cbv beta. rewrite gen_out_var by lia. rewrite sbind_ok. cbv beta.
            unfold asg_of_model. destruct (lit_in (pos (VG h g)) model); [rewrite !sbind_lift_ret|]; reflexivity. }
        rewrite sbind_lift_ret. f_equal.
        rewrite seq_app, foldM_app. cbn [Nat.add].
        rewrite foldM_skip.
        2:{ intros acc' i Hi. apply in_seq in Hi. unfold asg_of_model. rewrite Hin by lia. reflexivity. }
        cbn [bind]. apply foldM_cond. }
    rewrite sbind_lift_ret. f_equal. apply foldM_flat_map.
  Qed.
End Dec.

(* ---- encoder and decoder in one statement (Properties/C06.v: C06_encoder_regenerated) ---- *)
Theorem encoder_decoder_regenerated :
  encoder_regenerated_statement /\
  (forall sp c b1 b2 model ck, model_total sp model -> no_input_outputs sp model ->
     decode sp (asg_of_model model) = Ok ck ->
     gen__get_circuit_by_model (fin sp c b1 b2) model = lift (build_circuit (sp_n sp) (to_typed tt_to_gate_type ck))).
Proof.
  split; [exact encoder_regenerated|]. intros. apply gen_decode_eq; assumption.
Qed.
