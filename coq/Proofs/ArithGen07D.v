(* Generated/ArithGen07.v (translator T18) equals the hand model, part D: the weighted sums, common tools and
   add_sum_n_weighted_bits_naive.

   The generated functions take the levels as Python ints (Z) and keep the SENTINELS (inf, "inf_label") /
   (inf, "inf_label", "inf_label") at the end of the sorted work lists; the hand model (Model/ArithSumW.v) has the
   levels in N and no sentinel (Fail PyAssertionError where Python would `break`).  Representation:
       generated single = toZ single ++ [sen inf]         generated pairs = toZ3 pairs ++ [sen3 inf]
   and the invariant of Proofs/ArithSumTotalW.v (all pending levels < bnd, bnd + measure <= inf) shows that the head
   level never reaches inf and that every new element is inserted before the sentinel. *)
Require Import Cirbo.Model.Base Cirbo.Model.Gate Cirbo.Model.Circuit Cirbo.Model.Builder Cirbo.Model.PyPrims.
Require Import Cirbo.Generated.ArithTables Cirbo.Generated.ArithCells Cirbo.Generated.ArithGen09 Cirbo.Generated.ArithGen07.
Require Import Cirbo.Model.ArithSub Cirbo.Model.ArithSum2 Cirbo.Model.ArithSumN Cirbo.Model.ArithSumW Cirbo.Model.PyPrimsSum.
Require Import Cirbo.Proofs.ArithGen09Lib Cirbo.Proofs.ArithGen09A Cirbo.Proofs.ArithGen07Lib Cirbo.Proofs.ArithGen07A
  Cirbo.Proofs.ArithGen07B.
Require Import Cirbo.Proofs.ArithSumTotalW.
From Coq Require Import ZArith Lia Ascii.
Open Scope Z_scope.

(* ---- the embedding of the hand model's work lists ------------------------------------------------------ *)
Definition embZ (p : witem) : Z * label := (Z.of_N (fst p), snd p).
Definition embZ3 (p : wpair) : Z * label * label := (Z.of_N (fst (fst p)), snd (fst p), snd p).
Definition toZ (l : list witem) : list (Z * label) := map (fun p => (Z.of_N (fst p), snd p)) l.
Definition toZ3 (l : list wpair) : list (Z * label * label) := map embZ3 l.

Definition sen (inf : N) : Z * label := (Z.of_N inf, "inf_label"%string).
Definition sen3 (inf : N) : Z * label * label := (Z.of_N inf, "inf_label"%string, "inf_label"%string).

Notation ltZ := (py_lex_ltb Z.ltb Z.eqb String.ltb).
Notation ltZ3 := (py_lex_ltb (py_lex_ltb Z.ltb Z.eqb String.ltb) (py_pair_eqb Z.eqb String.eqb) String.ltb).
Notation eqZ := (py_pair_eqb Z.eqb String.eqb).
Notation eqZ3 := (py_pair_eqb (py_pair_eqb Z.eqb String.eqb) String.eqb).

Lemma toZ_map l : toZ l = map embZ l.
Proof. reflexivity. Qed.

Lemma toZ_cons x l : toZ (x :: l) = embZ x :: toZ l.
Proof. reflexivity. Qed.
Lemma toZ3_cons x l : toZ3 (x :: l) = embZ3 x :: toZ3 l.
Proof. reflexivity. Qed.

Lemma toZ_app a b : toZ (a ++ b) = toZ a ++ toZ b.
Proof. apply map_app. Qed.
Lemma toZ3_app a b : toZ3 (a ++ b) = toZ3 a ++ toZ3 b.
Proof. apply map_app. Qed.
Lemma toZ_length l : length (toZ l) = length l.
Proof. apply map_length. Qed.
Lemma toZ3_length l : length (toZ3 l) = length l.
Proof. apply map_length. Qed.

Lemma ZofN_ltb a b : (Z.of_N a <? Z.of_N b) = (a <? b)%N.
Proof. destruct (N.ltb_spec a b); [apply Z.ltb_lt|apply Z.ltb_ge]; lia. Qed.
Lemma ZofN_eqb a b : (Z.of_N a =? Z.of_N b) = (a =? b)%N.
Proof. destruct (N.eqb_spec a b) as [->|H]; [apply Z.eqb_refl|apply Z.eqb_neq; lia]. Qed.

Lemma ltZ_emb a b : ltZ (embZ a) (embZ b) = witem_ltb a b.
Proof.
  destruct a as [la xa], b as [lb xb]. unfold py_lex_ltb, embZ, witem_ltb. cbn [fst snd].
  rewrite ZofN_ltb, ZofN_eqb. reflexivity.
Qed.

Lemma ltZ3_emb a b : ltZ3 (embZ3 a) (embZ3 b) = wpair_ltb a b.
Proof.
  destruct a as [[la xa] ya], b as [[lb xb] yb]. unfold py_lex_ltb, py_pair_eqb, embZ3, wpair_ltb. cbn [fst snd].
  rewrite ZofN_ltb, ZofN_eqb.
  destruct (la <? lb)%N; [reflexivity|]. cbn [orb].
  destruct (la =? lb)%N; [|reflexivity]. cbn [andb]. reflexivity.
Qed.

Lemma eqZ_refl x : eqZ x x = true.
Proof. unfold py_pair_eqb. rewrite Z.eqb_refl, String.eqb_refl. reflexivity. Qed.
Lemma eqZ3_refl x : eqZ3 x x = true.
Proof. unfold py_pair_eqb. rewrite Z.eqb_refl, !String.eqb_refl. reflexivity. Qed.

(* SortedList.add on the embedded lists, without and with the sentinel *)
Lemma sl_add_emb {A B} (ltA : A -> A -> bool) (ltB : B -> B -> bool) (e : A -> B) :
  (forall a b, ltB (e a) (e b) = ltA a b) ->
  forall x l, sl_add ltB (e x) (map e l) = map e (sl_add ltA x l).
Proof.
  intros H x l. induction l as [|y l IH]; [reflexivity|]. cbn [map sl_add]. rewrite H.
  destruct (ltA x y); cbn [map]; [reflexivity|]. rewrite IH. reflexivity.
Qed.

Lemma sl_add_emb_sent {A B} (ltA : A -> A -> bool) (ltB : B -> B -> bool) (e : A -> B) (z : B) :
  (forall a b, ltB (e a) (e b) = ltA a b) ->
  forall x l, ltB (e x) z = true -> sl_add ltB (e x) (map e l ++ [z]) = map e (sl_add ltA x l) ++ [z].
Proof.
  intros H x l Hz. induction l as [|y l IH]; cbn [map sl_add app]; [rewrite Hz; reflexivity|]. rewrite H.
  destruct (ltA x y); cbn [map app]; [reflexivity|]. rewrite IH. reflexivity.
Qed.

Lemma ltZ_sen x inf : (fst x < inf)%N -> ltZ (embZ x) (sen inf) = true.
Proof.
  intros H. unfold py_lex_ltb, embZ, sen. cbn [fst snd]. rewrite ZofN_ltb.
  apply N.ltb_lt in H. rewrite H. reflexivity.
Qed.
Lemma ltZ3_sen x inf : (fst (fst x) < inf)%N -> ltZ3 (embZ3 x) (sen3 inf) = true.
Proof.
  intros H. unfold py_lex_ltb, embZ3, sen3. cbn [fst snd]. rewrite ZofN_ltb.
  apply N.ltb_lt in H. rewrite H. reflexivity.
Qed.

Lemma sl_add_toZ_sent x l inf : (fst x < inf)%N ->
  sl_add ltZ (embZ x) (toZ l ++ [sen inf]) = toZ (sl_add witem_ltb x l) ++ [sen inf].
Proof. intros H. apply (sl_add_emb_sent witem_ltb ltZ embZ (sen inf) ltZ_emb). apply ltZ_sen, H. Qed.

Lemma sl_add_toZ3_sent x l inf : (fst (fst x) < inf)%N ->
  sl_add ltZ3 (embZ3 x) (toZ3 l ++ [sen3 inf]) = toZ3 (sl_add wpair_ltb x l) ++ [sen3 inf].
Proof. intros H. apply (sl_add_emb_sent wpair_ltb ltZ3 embZ3 (sen3 inf) ltZ3_emb). apply ltZ3_sen, H. Qed.

Lemma sl_fold_toZ l acc :
  fold_left (fun acc x => sl_add ltZ x acc) (toZ l) (toZ acc)
  = toZ (fold_left (fun acc x => sl_add witem_ltb x acc) l acc).
Proof.
  revert acc. induction l as [|x l IH]; intros acc; [reflexivity|]. rewrite toZ_cons. cbn [fold_left].
  rewrite (toZ_map acc), (sl_add_emb witem_ltb ltZ embZ ltZ_emb). apply IH.
Qed.

Lemma sl_of_list_toZ l : sl_of_list ltZ (toZ l) = toZ (sl_of_list witem_ltb l).
Proof. exact (sl_fold_toZ l []). Qed.

(* the sentinel goes to the end *)
Lemma sl_add_sen l inf : sbelow inf l -> sl_add ltZ (sen inf) (toZ l) = toZ l ++ [sen inf].
Proof.
  induction 1 as [|y l Hy Hl IH]; [reflexivity|]. rewrite toZ_cons. cbn [sl_add app].
  replace (ltZ (sen inf) (embZ y)) with false; [rewrite IH; reflexivity|].
  unfold py_lex_ltb, sen, embZ. cbn [fst snd]. rewrite ZofN_ltb, ZofN_eqb.
  destruct (N.ltb_spec inf (fst y)); [lia|]. destruct (N.eqb_spec inf (fst y)); [lia|]. reflexivity.
Qed.

(* for label in next_solo: single.add((now_level + 1, label)) *)
Lemma add_singles_toZ_sent lev inf next single : (lev < inf)%N ->
  fold_left (fun acc y => sl_add ltZ (Z.of_N lev, y) acc) next (toZ single ++ [sen inf])
  = toZ (add_singles lev next single) ++ [sen inf].
Proof.
  intros H. unfold add_singles. revert single. induction next as [|y next IH]; intros single; [reflexivity|].
  cbn [fold_left]. change (Z.of_N lev, y) with (embZ (lev, y)). rewrite sl_add_toZ_sent by exact H. apply IH.
Qed.

Lemma add_pairs_toZ3_sent lev inf (next : list (label * label)) pairs : (lev < inf)%N ->
  fold_left (fun acc p => sl_add ltZ3 (Z.of_N lev, fst p, snd p) acc) next (toZ3 pairs ++ [sen3 inf])
  = toZ3 (add_pairs lev next pairs) ++ [sen3 inf].
Proof.
  intros H. unfold add_pairs. revert pairs. induction next as [|y next IH]; intros pairs; [reflexivity|].
  cbn [fold_left]. change (Z.of_N lev, fst y, snd y) with (embZ3 (lev, fst y, snd y)).
  rewrite sl_add_toZ3_sent by exact H. apply IH.
Qed.

(* ---- max([i[0] for i in inp]) + len(inp) + 1 ------------------------------------------------------------ *)
Lemma fold_left_Zmax r a :
  fold_left Z.max (map Z.of_N r) (Z.of_N a) = Z.of_N (N.max a (fold_right N.max 0%N r)).
Proof.
  revert a; induction r as [|b r IH]; intros a; cbn [map fold_left fold_right].
  - f_equal. lia.
  - rewrite <- N2Z.inj_max, IH. f_equal. lia.
Qed.

Lemma py_max_toZ inp :
  py_max (map (fun i => fst i) (toZ inp)) =
  match inp with [] => Fail PyValueError | _ => Ret (Z.of_N (fold_right N.max 0%N (map fst inp))) end.
Proof.
  destruct inp as [|[a x] inp]; [reflexivity|]. unfold toZ. rewrite map_map. cbn [map fst py_max fold_right].
  rewrite <- fold_left_Zmax. do 2 f_equal. rewrite map_map. reflexivity.
Qed.

(* ---- facts about everything a program can return ----------------------------------------------------------- *)
Lemma returns_ret {A} (a : A) (Q : A -> Prop) : Q a -> returns (Ret a) Q.
Proof. intros H fr s a' s' E. cbn [run] in E. injection E as <- _. exact H. Qed.
Lemma returns_fail {A} e (Q : A -> Prop) : returns (Fail e) Q.
Proof. intros fr s a' s' E. discriminate E. Qed.
Lemma returns_bind {A B} (p : prog A) (k : A -> prog B) (Q1 : A -> Prop) (Q : B -> Prop) :
  returns p Q1 -> (forall a, Q1 a -> returns (k a) Q) -> returns (Bind p k) Q.
Proof.
  intros H1 H2 fr s b s' E. rewrite run_bind in E.
  destruct (run fr p s) as [[a s1]|e] eqn:E1; [|discriminate E].
  exact (H2 a (H1 fr s a s1 E1) fr s1 b s' E).
Qed.
Lemma returns_true {A} (p : prog A) : returns p (fun _ => True).
Proof. intros fr s a s' _. exact I. Qed.
Lemma returns_weaken {A} (p : prog A) (Q Q' : A -> Prop) : returns p Q -> (forall a, Q a -> Q' a) -> returns p Q'.
Proof. intros H HQ fr s a s' E. apply HQ. exact (H fr s a s' E). Qed.

Lemma run_bind_post fr {A B} (p : prog A) (Q : A -> Prop) (K K' : A -> prog B) s :
  returns p Q -> (forall a s', Q a -> run fr (K a) s' = run fr (K' a) s') ->
  run fr (Bind p K) s = run fr (Bind p K') s.
Proof.
  intros HQ H. rewrite !run_bind. destruct (run fr p s) as [[a s']|e] eqn:E; [|reflexivity].
  apply H. exact (HQ fr s a s' E).
Qed.

(* solo_loop does the unpack2 itself: the number of carries is determined by the length of the stack *)
Lemma solo_loop_len c3 c2 : forall rest top nx,
  returns (solo_loop c3 c2 top rest nx) (fun r => (length (snd r) <= length nx + length rest)%nat).
Proof.
  induction rest as [|b|b c rest IH] using list_ind2; intros top nx; cbn [solo_loop].
  - apply returns_ret. cbn [snd length]. lia.
  - eapply returns_bind; [apply returns_true|]. intros r _.
    eapply returns_bind; [apply returns_true|]. intros xy _. apply returns_ret. cbn [snd length]. lia.
  - eapply returns_bind; [apply returns_true|]. intros r _.
    eapply returns_bind; [apply returns_true|]. intros xy _.
    eapply returns_weaken; [apply IH|]. cbv beta. intros r0 H. cbn [length] in *. lia.
Qed.

Lemma solo_level_post c3 c2 lev now rest :
  returns (solo_level c3 c2 lev now rest)
          (fun st => exists cs, snd st = add_singles (lev + 1) cs rest /\ (length cs + 1 <= length now)%nat).
Proof.
  unfold solo_level. destruct (rev now) as [|top others] eqn:E; [apply returns_fail|].
  eapply returns_bind; [apply solo_loop_len|]. cbv beta. intros r Hr. apply returns_ret.
  exists (rev (snd r)). split; [reflexivity|].
  apply (f_equal (@length label)) in E. rewrite rev_length in E. rewrite rev_length. cbn [length] in *. lia.
Qed.

(* ---- heads ------------------------------------------------------------------------------------------------- *)
Lemma py_nth_cons0 {A} (x : A) l : py_nth (x :: l) 0 = Ret x.
Proof. reflexivity. Qed.

Lemma discard_hd {A} (eqb : A -> A -> bool) x l : eqb x x = true -> py_sl_discard eqb x (x :: l) = l.
Proof. intros H. cbn [py_sl_discard]. rewrite H. reflexivity. Qed.

(* ---- while l[0][0] == now_level: now.append(payload of l[0]); l.discard(l[0]) ------------------------------ *)
Section Take.
  Variable fr : N -> label.
  Context {A P : Type}.
  Variables (lv : A -> Z) (pay : A -> P) (mk : P -> A) (lev : Z).
  Notation st := (list P * list A)%type.

  Lemma while_take (cond : st -> prog bool) (body : st -> prog (lctl st)) :
    (forall ns x l B (K : bool -> prog B) s, run fr (Bind (cond (ns, x :: l)) K) s = run fr (K (lv x =? lev)) s) ->
    (forall ns p l B (K : lctl st -> prog B) s,
        run fr (Bind (body (ns, mk p :: l)) K) s = run fr (K (LNext (ns ++ [pay (mk p)], l))) s) ->
    (forall p, lv (mk p) = lev) -> (forall p, pay (mk p) = p) ->
    forall f now y r ns B (K : st -> prog B) s, lv y <> lev -> (length now <= f)%nat ->
      run fr (Bind (py_while_c f cond body (ns, map mk now ++ y :: r)) K) s = run fr (K (ns ++ now, y :: r)) s.
  Proof.
    intros Hc Hb Hlv Hpay. induction f as [|f IH]; intros now y r ns B K s Hy Hf.
    - destruct now; [|cbn in Hf; lia]. cbn [map app]. rewrite py_while_c_unfold, run_assoc, Hc.
      apply Z.eqb_neq in Hy. rewrite Hy, app_nil_r. reflexivity.
    - destruct now as [|p now].
      + cbn [map app]. rewrite py_while_c_unfold, run_assoc, Hc.
        apply Z.eqb_neq in Hy. rewrite Hy, app_nil_r. reflexivity.
      + cbn [map app]. rewrite py_while_c_unfold, run_assoc, Hc. rewrite Hlv, Z.eqb_refl.
        rewrite run_assoc, Hb. rewrite Hpay. rewrite IH by (cbn [length] in Hf; try assumption; lia).
        rewrite <- app_assoc. reflexivity.
  Qed.
End Take.

Lemma take_level_spec lev l : forall now rest, take_level lev l = (now, rest) ->
  l = map (fun x => (lev, x)) now ++ rest /\ match rest with [] => True | y :: _ => fst y <> lev end.
Proof.
  induction l as [|[lv x] l IH]; cbn [take_level]; intros now rest E; [injection E as <- <-; split; [reflexivity|exact I]|].
  destruct (N.eqb_spec lv lev) as [->|Hne]; [|injection E as <- <-; split; [reflexivity|exact Hne]].
  destruct (take_level lev l) as [a b]. injection E as <- <-. destruct (IH a b eq_refl) as (-> & H).
  split; [reflexivity|exact H].
Qed.

Lemma take_level_pairs_spec lev l : forall now rest, take_level_pairs lev l = (now, rest) ->
  l = map (fun p => (lev, fst p, snd p)) now ++ rest /\ match rest with [] => True | y :: _ => fst (fst y) <> lev end.
Proof.
  induction l as [|[[lv x] z] l IH]; cbn [take_level_pairs]; intros now rest E;
    [injection E as <- <-; split; [reflexivity|exact I]|].
  destruct (N.eqb_spec lv lev) as [->|Hne]; [|injection E as <- <-; split; [reflexivity|exact Hne]].
  destruct (take_level_pairs lev l) as [a b]. injection E as <- <-. destruct (IH a b eq_refl) as (-> & H).
  split; [reflexivity|exact H].
Qed.

Section TakeW.
  Variable fr : N -> label.
  Variables (lev inf : N).
  Hypothesis Hlt : (lev < inf)%N.

  Lemma while_take_single (cond : list label * list (Z * label) -> prog bool) body :
    (forall ns x l B (K : bool -> prog B) s,
        run fr (Bind (cond (ns, x :: l)) K) s = run fr (K (fst x =? Z.of_N lev)) s) ->
    (forall ns p l B (K : lctl _ -> prog B) s,
        run fr (Bind (body (ns, (Z.of_N lev, p) :: l)) K) s = run fr (K (LNext (ns ++ [p], l))) s) ->
    forall f single ns B (K : _ -> prog B) s, (length single <= f)%nat ->
      run fr (Bind (py_while_c f cond body (ns, toZ single ++ [sen inf])) K) s
    = run fr (K (ns ++ fst (take_level lev single), toZ (snd (take_level lev single)) ++ [sen inf])) s.
  Proof.
    intros Hc Hb f single ns B K s Hf.
    destruct (take_level lev single) as [now rest] eqn:Et. cbn [fst snd].
    destruct (take_level_spec _ _ _ _ Et) as (-> & Hr).
    assert (exists y r, toZ rest ++ [sen inf] = y :: r /\ fst y <> Z.of_N lev) as (y & r & E & Hy).
    { destruct rest as [|y rest]; [exists (sen inf), []; split; [reflexivity|cbn [sen fst]; lia]|].
      exists (embZ y), (toZ rest ++ [sen inf]). split; [reflexivity|]. cbn [embZ fst]. lia. }
    rewrite toZ_app, <- app_assoc, E. unfold toZ. rewrite map_map. cbn [fst snd].
    rewrite (while_take fr (fun x : Z * label => fst x) (fun x : Z * label => snd x)
                        (fun p : label => (Z.of_N lev, p)) (Z.of_N lev)); try assumption; try reflexivity.
    rewrite app_length, map_length in Hf. lia.
  Qed.

  Lemma while_take_pairs (cond : list (label * label) * list (Z * label * label) -> prog bool) body :
    (forall ns x l B (K : bool -> prog B) s,
        run fr (Bind (cond (ns, x :: l)) K) s = run fr (K (fst (fst x) =? Z.of_N lev)) s) ->
    (forall ns a b l B (K : lctl _ -> prog B) s,
        run fr (Bind (body (ns, (Z.of_N lev, a, b) :: l)) K) s = run fr (K (LNext (ns ++ [(a, b)], l))) s) ->
    forall f pairs ns B (K : _ -> prog B) s, (length pairs <= f)%nat ->
      run fr (Bind (py_while_c f cond body (ns, toZ3 pairs ++ [sen3 inf])) K) s
    = run fr (K (ns ++ fst (take_level_pairs lev pairs), toZ3 (snd (take_level_pairs lev pairs)) ++ [sen3 inf])) s.
  Proof.
    intros Hc Hb f pairs ns B K s Hf.
    destruct (take_level_pairs lev pairs) as [now rest] eqn:Et. cbn [fst snd].
    destruct (take_level_pairs_spec _ _ _ _ Et) as (-> & Hr).
    assert (exists y r, toZ3 rest ++ [sen3 inf] = y :: r /\ fst (fst y) <> Z.of_N lev) as (y & r & E & Hy).
    { destruct rest as [|y rest]; [exists (sen3 inf), []; split; [reflexivity|cbn [sen3 fst]; lia]|].
      exists (embZ3 y), (toZ3 rest ++ [sen3 inf]). split; [reflexivity|]. cbn [embZ3 fst]. lia. }
    rewrite toZ3_app, <- app_assoc, E. unfold toZ3. rewrite map_map. unfold embZ3. cbn [fst snd].
    rewrite (while_take fr (fun x : Z * label * label => fst (fst x)) (fun x : Z * label * label => (snd (fst x), snd x))
                        (fun p : label * label => (Z.of_N lev, fst p, snd p)) (Z.of_N lev)); try assumption; try reflexivity.
    - intros ns0 p l B0 K0 s0. cbn [fst snd]. apply Hb.
    - intros [a b]. reflexivity.
    - rewrite app_length, map_length in Hf. lia.
  Qed.
End TakeW.

(* ---- the sum3 / sum2 loop of the naive generator and of the AIG mode ------------------------------------------
   while len(now_solo) > 2: x, y, z = now_solo[-1], [-2], [-3]; g, carry = cell3([x, y, z]); pop 3;
                            now_solo.append(g); single.add((now_level + 1, carry))
   generic in the second component sg of the loop state and in what is done with a carry (addf) *)
Section SoloW.
  Variable fr : N -> label.
  Variables c3 c2 : list label -> prog (list label).
  Context {S : Type}.
  Variable addf : label -> S -> S.

  Fixpoint solo3w (top : label) (rest : list label) (sg : S) : prog (list label * S) :=
    match rest with
    | b :: c :: rest' =>
      bdo r <- c3 [top; b; c]; bdo xy <- unpack2 r; solo3w (fst xy) rest' (addf (snd xy) sg)
    | _ => Ret (rev (top :: rest), sg)
    end.

  Lemma while_solo3w (cond : list label * S -> bool) body :
    (forall l sg, cond (l, sg) = (py_len l >? 2)) ->
    (forall top b c rest sg B (K : list label * S -> prog B) s,
        run fr (Bind (body (rev (top :: b :: c :: rest), sg)) K) s
      = run fr (bdo r <- c3 [top; b; c]; bdo xy <- unpack2 r; K (rev (fst xy :: rest), addf (snd xy) sg)) s) ->
    forall f top rest sg B (K : list label * S -> prog B) s, (length rest <= f)%nat ->
        run fr (Bind (py_while f cond body (rev (top :: rest), sg)) K) s
      = run fr (Bind (solo3w top rest sg) K) s.
  Proof.
    intros Hc Hb. induction f as [|f IH]; intros top rest sg B K s Hf.
    - destruct rest; [|cbn in Hf; lia]. rewrite py_while_false by (rewrite Hc; reflexivity). reflexivity.
    - destruct rest as [|b [|c rest]].
      + rewrite py_while_false by (rewrite Hc; reflexivity). reflexivity.
      + rewrite py_while_false by (rewrite Hc; reflexivity). reflexivity.
      + rewrite py_while_true by (rewrite Hc, py_len_gtb2, rev_length; reflexivity).
        rewrite bind_assoc. rewrite Hb. cbn [solo3w]. rewrite !run_assoc. peel. peel.
        apply IH. cbn [length] in Hf. lia.
  Qed.

  Definition foldadd (l : list label) (sg : S) : S := fold_left (fun acc y => addf y acc) l sg.

  Lemma foldadd_snoc y nx sg0 : addf y (foldadd (rev nx) sg0) = foldadd (rev (y :: nx)) sg0.
  Proof. unfold foldadd. cbn [rev]. rewrite fold_left_app. reflexivity. Qed.

  Lemma solo3w_then {B} (sg0 : S) (K2 : list label * S -> prog B) (K3 : label * list label -> prog B) :
    (forall t nx s, run fr (K2 ([t], foldadd (rev nx) sg0)) s = run fr (K3 (t, nx)) s) ->
    (forall t b nx s, run fr (K2 ([b; t], foldadd (rev nx) sg0)) s
        = run fr (bdo r <- c2 [t; b]; bdo xy <- unpack2 r; K3 (fst xy, snd xy :: nx)) s) ->
    forall rest top nx s,
      run fr (Bind (solo3w top rest (foldadd (rev nx) sg0)) K2) s = run fr (Bind (solo_loop c3 c2 top rest nx) K3) s.
  Proof.
    intros H1 H2 rest. induction rest as [|b|b c rest IH] using list_ind2; intros top nx s.
    - cbn [solo3w solo_loop rev app]. rewrite !run_ret_l. apply H1.
    - cbn [solo3w solo_loop rev app]. rewrite !run_ret_l. rewrite H2. rewrite !run_assoc. peel. peel. reflexivity.
    - cbn [solo3w solo_loop]. rewrite !run_assoc. peel. peel.
      rewrite foldadd_snoc. apply IH.
  Qed.
End SoloW.

(* one level: the loop above, then `if len(now_solo) == 2: <cell2>`, then res.append((now_level, now_solo[0])),
   given as the continuation K2 of the loop; against solo_level.  prs is whatever else the state of the outer
   loop contains. *)
Lemma solo_level_gen fr c3 c2 (lev inf : N) {PR B : Type} (prs : PR) (res : list (Z * label))
      (cond3 : list label * list (Z * label) -> bool) body3
      (K2 : list label * list (Z * label) -> prog B)
      (K : lctl (list (Z * label) * PR * list (Z * label)) -> prog B) :
  let addf := fun (y : label) (sg : list (Z * label)) => sl_add ltZ (Z.of_N lev + 1, y) sg in
  (forall l sg, cond3 (l, sg) = (py_len l >? 2)) ->
  (forall top b c rest sg B' (K' : list label * list (Z * label) -> prog B') s,
      run fr (Bind (body3 (rev (top :: b :: c :: rest), sg)) K') s
    = run fr (bdo r <- c3 [top; b; c]; bdo xy <- unpack2 r; K' (rev (fst xy :: rest), addf (snd xy) sg)) s) ->
  (forall sg s, run fr (K2 ([], sg)) s = Err PyIndexError) ->
  (forall t sg s, run fr (K2 ([t], sg)) s = run fr (K (LNext (sg, prs, res ++ [(Z.of_N lev, t)]))) s) ->
  (forall t b sg s, run fr (K2 ([b; t], sg)) s
      = run fr (bdo r <- c2 [t; b]; bdo xy <- unpack2 r;
                K (LNext (addf (snd xy) sg, prs, res ++ [(Z.of_N lev, fst xy)]))) s) ->
  (lev + 1 < inf)%N ->
  forall now rest s,
    run fr (Bind (py_while (Datatypes.S (length now)) cond3 body3 (now, toZ rest ++ [sen inf])) K2) s
  = run fr (Bind (solo_level c3 c2 lev now rest)
                 (fun st => K (LNext (toZ (snd st) ++ [sen inf], prs, res ++ [(Z.of_N lev, fst st)])))) s.
Proof.
  intros addf Hc Hb H0 H1 H2 Hlt now rest s. unfold solo_level.
  destruct (rev now) as [|top others] eqn:E.
  - apply (f_equal (@rev label)) in E. rewrite rev_involutive in E. subst now. cbn [rev].
    rewrite py_while_false by (rewrite Hc; reflexivity). rewrite run_ret_l, run_fail_l. apply H0.
  - apply (f_equal (@rev label)) in E. rewrite rev_involutive in E. subst now.
    rewrite (while_solo3w fr c3 addf) by (try assumption; rewrite rev_length; cbn [length]; lia).
    rewrite run_assoc.
    assert (Hfold : forall nx, foldadd addf (rev nx) (toZ rest ++ [sen inf])
                               = toZ (add_singles (lev + 1) (rev nx) rest) ++ [sen inf]).
    { intros nx. unfold foldadd, addf. replace (Z.of_N lev + 1) with (Z.of_N (lev + 1)) by lia.
      apply add_singles_toZ_sent. exact Hlt. }
    change (toZ rest ++ [sen inf]) with (foldadd addf (rev []) (toZ rest ++ [sen inf])) at 1.
    apply (solo3w_then fr c3 c2 addf (toZ rest ++ [sen inf]) K2
             (fun r => bdo a <- Ret (fst r, add_singles (lev + 1) (rev (snd r)) rest);
                       K (LNext (toZ (snd a) ++ [sen inf], prs, res ++ [(Z.of_N lev, fst a)])))).
    + intros t nx s0. rewrite H1, run_ret_l. cbn [fst snd]. rewrite Hfold. reflexivity.
    + intros t b nx s0. rewrite H2. peel. peel. rewrite run_ret_l. cbn [fst snd].
      rewrite <- Hfold. rewrite <- (foldadd_snoc addf). reflexivity.
Qed.

(* ---- the loop over the levels of the naive generator ---------------------------------------------------------- *)
Lemma py_len_single_gt1 (y : witem) l inf : (py_len (toZ (y :: l) ++ [sen inf]) >? 1) = true.
Proof.
  rewrite py_len_gtb1, app_length, toZ_length. cbn [length].
  destruct (Nat.ltb_spec 1 (S (length l) + 1)); [reflexivity|lia].
Qed.
Lemma py_len_pairs_gt1 (y : wpair) l inf : (py_len (toZ3 (y :: l) ++ [sen3 inf]) >? 1) = true.
Proof.
  rewrite py_len_gtb1, app_length, toZ3_length. cbn [length].
  destruct (Nat.ltb_spec 1 (S (length l) + 1)); [reflexivity|lia].
Qed.

Section Naive.
  Variable fr : N -> label.
  Variables c3 c2 : list label -> prog (list label).
  Variable inf : N.
  Notation stt := (list (Z * label) * list (Z * label * label) * list (Z * label))%type.

  Lemma while_naive (cond : stt -> prog bool) body :
    (forall sg pr res, cond (sg, pr, res) = Ret ((py_len sg >? 1) || (py_len pr >? 1))) ->
    (forall lev x single' res B (K : lctl stt -> prog B) s, (lev + 1 < inf)%N ->
        run fr (Bind (body (toZ ((lev, x) :: single') ++ [sen inf], [sen3 inf], res)) K) s
      = run fr (Bind (let '(now, rest) := take_level lev ((lev, x) :: single') in solo_level c3 c2 lev now rest)
                     (fun st => K (LNext (toZ (snd st) ++ [sen inf], [sen3 inf], res ++ [(Z.of_N lev, fst st)])))) s) ->
    forall f single bnd res B (K : stt -> prog B) s,
      sbelow bnd single -> (bnd + N.of_nat (length single) <= inf)%N ->
        run fr (Bind (py_while_c f cond body (toZ single ++ [sen inf], [sen3 inf], res)) K) s
      = run fr (Bind (naive_loop f inf c3 c2 single) (fun rs => K ([sen inf], [sen3 inf], res ++ toZ rs))) s.
  Proof.
    intros Hc Hb. induction f as [|f IH]; intros single bnd res B K s Sb Li.
    - rewrite py_while_c_unfold, run_assoc, Hc, run_ret_l.
      destruct single as [|[lev x] single'].
      + change ((py_len (toZ [] ++ [sen inf]) >? 1) || (py_len [sen3 inf] >? 1)) with false. cbv iota.
        cbn [naive_loop]. rewrite !run_ret_l. cbn [toZ map app]. rewrite app_nil_r. reflexivity.
      + rewrite py_len_single_gt1. reflexivity.
    - rewrite py_while_c_unfold, run_assoc, Hc, run_ret_l.
      destruct single as [|[lev x] single'].
      + change ((py_len (toZ [] ++ [sen inf]) >? 1) || (py_len [sen3 inf] >? 1)) with false. cbv iota.
        cbn [naive_loop]. rewrite !run_ret_l. cbn [toZ map app]. rewrite app_nil_r. reflexivity.
      + rewrite py_len_single_gt1. cbn [orb]. cbv iota.
        assert (lev < bnd)%N as Hlt by (inversion Sb; subst; assumption).
        cbn [length] in Li.
        rewrite run_assoc, Hb by lia. cbn [naive_loop].
        destruct (N.leb_spec inf lev) as [Hle|_]; [lia|].
        destruct (take_level lev ((lev, x) :: single')) as [now rest] eqn:Et.
        pose proof (take_level_eq _ _ _ _ Et) as El. unfold witem in *. rewrite ?Et.
        rewrite run_assoc. apply run_bind_post with (1 := solo_level_post c3 c2 lev now rest).
        intros st s' (cs & Ecs & Lcs).
        rewrite (IH (snd st) (bnd + 1)%N).
        * rewrite run_assoc. apply run_bind_cong. intros rs s2. rewrite run_ret_l.
          rewrite toZ_cons, <- app_assoc. reflexivity.
        * rewrite Ecs. rewrite El in Sb. apply Forall_app in Sb as (_ & Sb1).
          apply add_singles_Forall; [apply Forall_forall; intros y _; cbn [fst]; lia|].
          eapply sbelow_weaken; [|exact Sb1]. lia.
        * rewrite Ecs, add_singles_len.
          assert (S (length single') = length now + length rest)%nat as E2.
          { apply (f_equal (@length witem)) in El. rewrite app_length, map_length in El. exact El. }
          unfold witem in *. lia.
  Qed.
End Naive.

(* ---- add_sum_n_weighted_bits_naive ---------------------------------------------------------------------------- *)
Ltac take_cond := intros; norm; rewrite py_nth_cons0; norm; reflexivity.
Ltac take_body :=
  intros; norm; repeat (rewrite py_nth_cons0; norm); cbn [fst snd];
  rewrite discard_hd by (first [apply eqZ_refl | apply eqZ3_refl]); reflexivity.

(* the part of a level that the naive generator and the AIG mode share: the sum3 / sum2 loop with the carries
   added to `single` *)
Ltac solo_level_tac fr c3 c2 lev infN prs res K :=
  apply (solo_level_gen fr c3 c2 lev infN prs res _ _ _ K);
  [ intros; reflexivity
  | intros; cbv beta iota; sx
  | intros; cbv beta iota; sx
  | intros; cbv beta iota; sx
  | intros; cbv beta iota; sx
  | lia ].

(* one basis of the naive generator *)
Ltac naive_branch fr c3 c2 mx infN Sb Li :=
  rewrite (while_naive fr c3 c2 infN) with (bnd := (mx + 1)%N);
    [ rewrite run_assoc, run_ret_l; reflexivity | intros; reflexivity | | exact Sb | exact Li ];
  let lev := fresh "lev" in let x := fresh "x" in let res := fresh "res" in let K := fresh "K" in
  intros lev x ? res ? K ? ?; cbv beta iota zeta;
  match goal with |- context [Bind (py_nth (toZ ?l ++ ?t) 0)] =>
    change (py_nth (toZ l ++ t) 0) with (Ret (Z.of_N lev, x)) end; norm;
  change (py_nth [sen3 infN] 0) with (Ret (Z.of_N infN, "inf_label"%string, "inf_label"%string)); norm;
  rewrite (Z.min_l (Z.of_N lev) (Z.of_N infN)) by lia;
  rewrite (ZofN_eqb lev infN), (proj2 (N.eqb_neq lev infN)) by lia; norm;
  rewrite (while_take_single fr lev infN);
    [ | lia | take_cond | take_body | rewrite app_length, toZ_length; lia ];
  match goal with |- context [take_level lev ?l] => destruct (take_level lev l) as [? ?] end;
  cbn [fst snd app]; norm;
  rewrite (while_take_pairs fr lev infN) with (pairs := @nil wpair);
    [ | lia | take_cond | take_body | cbn [length]; lia ];
  cbn [take_level_pairs fst snd toZ3 map app]; norm;
  solo_level_tac fr c3 c2 lev infN [sen3 infN] res K.

Theorem gen_add_sum_n_weighted_bits_naive_eq inp basis :
  peq (gen_add_sum_n_weighted_bits_naive (toZ inp) basis)
      (bdo r <- add_sum_n_weighted_bits_naive basis inp; Ret (toZ r)).
Proof.
  intros fr s. unfold gen_add_sum_n_weighted_bits_naive, add_sum_n_weighted_bits_naive. cbv zeta.
  rewrite (run_resolve_basis fr basis). rewrite run_assoc. apply run_bind_cong. intros b s1.
  rewrite py_max_toZ. unfold w_inf.
  destruct inp as [|i0 inp0] eqn:Einp; [reflexivity|]. rewrite <- Einp.
  assert (Hne : inp <> []) by (rewrite Einp; discriminate). clear Einp i0 inp0.
  cbn [ret_res]. rewrite !run_ret_l.
  set (mx := fold_right N.max 0%N (map fst inp)).
  set (infN := (mx + N.of_nat (length inp) + 1)%N).
  replace (Z.of_N mx + py_len (toZ inp) + 1) with (Z.of_N infN)
    by (unfold py_len, infN; rewrite toZ_length; lia).
  rewrite sl_of_list_toZ.
  change (Z.of_N infN, "inf_label"%string) with (sen infN).
  change (sl_add ltZ3 (sen infN, "inf_label"%string) []) with [sen3 infN].
  assert (Sb : sbelow (mx + 1) (sl_of_list witem_ltb inp)) by (apply sl_of_list_Forall, sbelow_max).
  rewrite sl_add_sen by (eapply sbelow_weaken; [|exact Sb]; unfold infN; lia).
  rewrite toZ_length.
  assert (Li : (mx + 1 + N.of_nat (length (sl_of_list witem_ltb inp)) <= infN)%N)
    by (rewrite sl_of_list_len; unfold infN, witem; lia).
  destruct b.
  - naive_branch fr add_sum3 add_sum2 mx infN Sb Li.
  - naive_branch fr add_sum3_aig add_sum2_aig mx infN Sb Li.
Qed.
