(* Identifier tables of the encoder: generated labels are injective, the dictionary
   label -> identifier built by _enumerate_gates numbers its keys 0..n-1 in insertion order,
   and (repaired code) every operand of a numbered gate has a smaller identifier. *)
Require Import Cirbo.Model.Base Cirbo.Model.Gate Cirbo.Model.Circuit Cirbo.Model.BitIO Cirbo.Model.Codec.
Require Import Cirbo.Proofs.DictFacts Cirbo.Proofs.DictIOFacts.
From Coq Require Import DecimalString DecimalN Permutation.

(* ---- small list facts ---- *)
Lemma NoDup_app_iff {A} (a b : list A) :
  NoDup (a ++ b) <-> NoDup a /\ NoDup b /\ (forall x, In x a -> ~ In x b).
Proof.
  induction a as [|x a IH]; simpl.
  - split; [intros H; repeat split; [constructor|exact H|tauto]|tauto].
  - split.
    + intros H; inversion H as [|? ? Hx Hn]; subst. apply IH in Hn as (Ha & Hb & Hd).
      repeat split; [constructor; [intros Hi; apply Hx, in_or_app; left; exact Hi|exact Ha]|exact Hb|].
      intros y [<-|Hy] Hb'; [apply Hx, in_or_app; right; exact Hb'|eapply Hd; eassumption].
    + intros (Ha & Hb & Hd). inversion Ha as [|? ? Hx Hn]; subst. constructor.
      * intros Hi; apply in_app_or in Hi as [Hi|Hi]; [contradiction|]. eapply Hd; [left; reflexivity|exact Hi].
      * apply IH. repeat split; [exact Hn|exact Hb|]. intros y Hy; apply Hd; right; exact Hy.
Qed.

Lemma nth_error_map_seq {A} (g : nat -> A) k n j :
  (j < n)%nat -> nth_error (map g (seq k n)) j = Some (g (k + j)%nat).
Proof.
  intros H. rewrite (map_nth_error g j (seq k n) (d := (k + j)%nat)); [reflexivity|].
  rewrite nth_error_nth' with (d := O) by (rewrite seq_length; exact H). rewrite seq_nth by exact H. reflexivity.
Qed.

Lemma concat_all_nil {A} (l : list (list A)) : Forall (fun x => x = []) l -> concat l = [].
Proof. induction 1 as [|x l -> _ IH]; simpl; [reflexivity|exact IH]. Qed.

Lemma mapM_app_inv {A B} (f : A -> res B) a b r :
  mapM f (a ++ b) = Ok r -> exists ra rb, mapM f a = Ok ra /\ mapM f b = Ok rb /\ r = ra ++ rb.
Proof.
  revert r; induction a as [|x a IH]; intros r; simpl.
  - intros H; exists [], r; auto.
  - destruct (f x) as [y|]; simpl; [|discriminate].
    destruct (mapM f (a ++ b)) as [ys|] eqn:E; simpl; [|discriminate]. intros [= <-].
    destruct (IH _ eq_refl) as (ra & rb & -> & H2 & ->). exists (y :: ra), rb. simpl. auto.
Qed.

Lemma mapM_length {A B} (f : A -> res B) l r : mapM f l = Ok r -> length r = length l.
Proof.
  revert r; induction l as [|x l IH]; intros r; simpl; [intros [= <-]; reflexivity|].
  destruct (f x); simpl; [|discriminate]. destruct (mapM f l) eqn:E; simpl; [|discriminate].
  intros [= <-]. simpl. rewrite (IH _ eq_refl); reflexivity.
Qed.

(* ---- generated labels ---- *)
Definition glab (i : nat) : label := gen_label (N.of_nat i).

Lemma gen_label_inj a b : gen_label a = gen_label b -> a = b.
Proof.
  unfold gen_label. simpl. intros H. injection H as H.
  apply (f_equal NilEmpty.uint_of_string) in H. rewrite !NilEmpty.usu in H. injection H as H.
  apply (f_equal N.of_uint) in H. rewrite !DecimalN.Unsigned.of_to in H. exact H.
Qed.

Lemma glab_inj a b : glab a = glab b -> a = b.
Proof. intros H; apply gen_label_inj in H. lia. Qed.

Lemma gen_label_not_not i s : gen_label i <> ("not_" ++ s)%string.
Proof. unfold gen_label; simpl; discriminate. Qed.

Lemma glab_fresh k : ~ In (glab k) (map glab (seq 0 k)).
Proof.
  intros H. apply in_map_iff in H as (j & Hj & Hin). apply glab_inj in Hj. apply in_seq in Hin. lia.
Qed.

(* ---- association lists with distinct keys ---- *)
Lemma dget_nth {V} (d : dict V) l v : dget d l = Some v -> exists k, nth_error d k = Some (l, v).
Proof.
  induction d as [|[l' v'] d IH]; simpl; [discriminate|].
  destruct (leqb_spec l l') as [->|Hne].
  - intros [= ->]. exists O; reflexivity.
  - intros H; destruct (IH H) as (k & Hk). exists (S k); exact Hk.
Qed.

Lemma In_dget {V} (d : dict V) l v : NoDup (dkeys d) -> In (l, v) d -> dget d l = Some v.
Proof.
  induction d as [|[l' v'] d IH]; simpl; [tauto|]. intros Hnd [H|H].
  - injection H as -> ->. rewrite leqb_refl; reflexivity.
  - inversion Hnd as [|? ? Hx Hn]; subst. destruct (leqb_spec l l') as [->|Hne]; [|apply IH; assumption].
    exfalso; apply Hx. apply (in_map fst) in H; exact H.
Qed.

Lemma dget_map_inj {A V} (f : A -> label) (g : A -> V) (L : list A) x :
  (forall a b, In a L -> In b L -> f a = f b -> a = b) -> In x L ->
  dget (map (fun a => (f a, g a)) L) (f x) = Some (g x).
Proof.
  induction L as [|y L IH]; intros Hinj Hx; simpl; [contradiction|].
  destruct (leqb_spec (f x) (f y)) as [E|Hne].
  - apply Hinj in E; [subst; reflexivity|exact Hx|left; reflexivity].
  - destruct Hx as [->|Hx]; [congruence|]. apply IH; [|exact Hx].
    intros a b Ha Hb; apply Hinj; right; assumption.
Qed.

(* ---- identifier tables ---- *)
Definition ids_ok (d : ids) : Prop :=
  NoDup (dkeys d) /\ map snd d = map N.of_nat (seq 0 (length d)).

Lemma ids_ok_nil : ids_ok [].
Proof. split; [constructor|reflexivity]. Qed.

Lemma ids_add_new d l :
  ids_ok d -> dmem d l = false ->
  ids_add d l = d ++ [(l, N.of_nat (length d))] /\ ids_ok (ids_add d l).
Proof.
  intros [Hnd Hv] Hm. unfold ids_add. rewrite dset_new by exact Hm. split; [reflexivity|]. split.
  - unfold dkeys. rewrite map_app. simpl. apply NoDup_app_iff. repeat split; [exact Hnd|constructor; [simpl; tauto|constructor]|].
    intros x Hx [<-|[]]. apply dmem_keys in Hx. congruence.
  - rewrite map_app, app_length. simpl. rewrite Nat.add_1_r, seq_S, map_app, Hv. reflexivity.
Qed.

Lemma dkeys_ids_add d l : ids_ok d -> dmem d l = false -> dkeys (ids_add d l) = dkeys d ++ [l].
Proof.
  intros H1 H2. destruct (ids_add_new d l H1 H2) as (-> & _). unfold dkeys; rewrite map_app; reflexivity.
Qed.

Lemma ids_get_nth d l i :
  ids_ok d -> dget d l = Some i ->
  exists k, i = N.of_nat k /\ nth_error (dkeys d) k = Some l /\ (k < length d)%nat.
Proof.
  intros [Hnd Hv] H. apply dget_nth in H as (k & Hk). exists k.
  assert (k < length d)%nat as Hlt by (apply nth_error_Some; congruence).
  pose proof (map_nth_error snd _ _ Hk) as H1. rewrite Hv in H1. simpl in H1.
  rewrite nth_error_map_seq in H1 by exact Hlt. simpl in H1. injection H1 as <-.
  split; [reflexivity|]. split; [|exact Hlt]. apply (map_nth_error fst) in Hk. exact Hk.
Qed.

Lemma ids_nth_get d l k :
  ids_ok d -> nth_error (dkeys d) k = Some l -> dget d l = Some (N.of_nat k).
Proof.
  intros [Hnd Hv] H. unfold dkeys in H.
  destruct (nth_error d k) as [[l' v]|] eqn:E.
  - pose proof (map_nth_error fst _ _ E) as H1. rewrite H in H1; simpl in H1; injection H1 as <-.
    pose proof (map_nth_error snd _ _ E) as H2. rewrite Hv in H2. simpl in H2.
    assert (k < length d)%nat as Hlt by (apply nth_error_Some; congruence).
    rewrite nth_error_map_seq in H2 by exact Hlt. simpl in H2. injection H2 as <-.
    apply In_dget; [exact Hnd|]. eapply nth_error_In; exact E.
  - apply nth_error_None in E. assert (k < length (map fst d))%nat by (apply nth_error_Some; congruence).
    rewrite map_length in *. lia.
Qed.

Lemma ids_get_lt d l i : ids_ok d -> dget d l = Some i -> (i < N.of_nat (length d))%N.
Proof. intros H1 H2. destruct (ids_get_nth _ _ _ H1 H2) as (k & -> & _ & Hk). lia. Qed.

Lemma ids_get_inj d a b i : ids_ok d -> dget d a = Some i -> dget d b = Some i -> a = b.
Proof.
  intros H Ha Hb. destruct (ids_get_nth _ _ _ H Ha) as (k & -> & Hk & _).
  destruct (ids_get_nth _ _ _ H Hb) as (k' & E & Hk' & _). apply Nat2N.inj in E; subst k'. congruence.
Qed.

Lemma fold_ids_add ls : forall d,
  ids_ok d -> NoDup ls -> (forall l, In l ls -> dmem d l = false) ->
  ids_ok (fold_left ids_add ls d) /\ dkeys (fold_left ids_add ls d) = dkeys d ++ ls.
Proof.
  induction ls as [|l ls IH]; intros d Hok Hnd Hfresh; simpl.
  - rewrite app_nil_r; auto.
  - inversion Hnd as [|? ? Hx Hn]; subst.
    destruct (ids_add_new d l Hok (Hfresh l (or_introl eq_refl))) as (E & Hok').
    destruct (IH (ids_add d l) Hok' Hn) as (H1 & H2).
    + intros x Hxin. unfold ids_add. rewrite dmem_dset. rewrite Hfresh by (right; exact Hxin).
      destruct (leqb_spec x l) as [->|]; [contradiction|reflexivity].
    + split; [exact H1|]. rewrite H2, (dkeys_ids_add d l Hok (Hfresh l (or_introl eq_refl))). rewrite <- app_assoc; reflexivity.
Qed.

(* ---- the dependency-order invariant of the repaired _enumerate_gates ---- *)
Record enum_inv (c : circuit) (d : ids) : Prop := {
  ei_ok : ids_ok d;
  ei_before : forall l g il, dget d l = Some il -> dget (gates c) l = Some g -> gtyp g <> INPUT ->
              forall o, In o (gops g) -> exists io, dget d o = Some io /\ (io < il)%N }.

Lemma get_gate_ok c l g : get_gate c l = Ok g <-> dget (gates c) l = Some g.
Proof.
  unfold get_gate. destruct (dget (gates c) l); split; intros H; try discriminate; congruence.
Qed.

Lemma enum_inv_add c d l g :
  enum_inv c d -> dmem d l = false -> dget (gates c) l = Some g ->
  forallb (fun op => dmem d op) (gops g) = true -> enum_inv c (ids_add d l).
Proof.
  intros [Hok Hb] Hm Hg Hall. destruct (ids_add_new d l Hok Hm) as (E & Hok'). split; [exact Hok'|].
  intros l' g' il Hl' Hg' Ht o Ho. rewrite E in *. rewrite dget_app in Hl'.
  destruct (dget d l') as [i|] eqn:El'.
  - injection Hl' as <-. destruct (Hb _ _ _ El' Hg' Ht o Ho) as (io & H1 & H2).
    exists io. rewrite dget_app, H1. auto.
  - simpl in Hl'. destruct (leqb_spec l' l) as [->|]; [|discriminate]. injection Hl' as <-.
    rewrite Hg in Hg'; injection Hg' as <-. rewrite forallb_forall in Hall. specialize (Hall o Ho).
    unfold dmem in Hall. destruct (dget d o) as [io|] eqn:Eo; [|discriminate].
    exists io. rewrite dget_app, Eo. split; [reflexivity|]. eapply ids_get_lt; eassumption.
Qed.

Lemma enum_pass_spec c : forall P d post0 d' post,
  enum_pass c P d post0 = Ok (d', post) ->
  enum_inv c d -> NoDup P -> (forall l, In l P -> dmem d l = false) ->
  exists placed postponed,
    post = post0 ++ postponed /\ dkeys d' = dkeys d ++ placed /\ enum_inv c d' /\
    Permutation P (placed ++ postponed).
Proof.
  induction P as [|l P IH]; intros d post0 d' post H Hinv Hnd Hfresh; simpl in H.
  - injection H as <- <-. exists [], []. rewrite !app_nil_r. auto.
  - destruct (get_gate c l) as [g|] eqn:Eg; simpl in H; [|discriminate]. apply get_gate_ok in Eg.
    inversion Hnd as [|? ? Hx Hn]; subst.
    destruct (forallb (fun op => dmem d op) (gops g)) eqn:Eall.
    + assert (dmem d l = false) as Hl by (apply Hfresh; left; reflexivity).
      pose proof (enum_inv_add _ _ _ _ Hinv Hl Eg Eall) as Hinv'.
      destruct (IH _ _ _ _ H Hinv' Hn) as (pl & pp & -> & Hk & Hi & Hp).
      { intros x Hxin. unfold ids_add; rewrite dmem_dset, Hfresh by (right; exact Hxin).
        destruct (leqb_spec x l) as [->|]; [contradiction|reflexivity]. }
      exists (l :: pl), pp. split; [reflexivity|]. split.
      { rewrite Hk, dkeys_ids_add by (try apply Hinv; exact Hl). rewrite <- app_assoc; reflexivity. }
      split; [exact Hi|]. simpl. apply perm_skip; exact Hp.
    + destruct (IH _ _ _ _ H Hinv Hn) as (pl & pp & -> & Hk & Hi & Hp).
      { intros x Hxin; apply Hfresh; right; exact Hxin. }
      exists pl, (l :: pp). split; [rewrite <- app_assoc; reflexivity|]. split; [exact Hk|].
      split; [exact Hi|]. apply Permutation_cons_app; exact Hp.
Qed.

Lemma enum_pass_err c : forall P d post0 e, enum_pass c P d post0 = Err e -> e = GateDoesntExistError.
Proof.
  induction P as [|l P IH]; intros d post0 e; simpl; [discriminate|].
  unfold get_gate. destruct (dget (gates c) l) as [g|]; simpl; [|intros [= <-]; reflexivity].
  destruct (forallb _ _); apply IH.
Qed.

Lemma enum_pass_total c : forall P d post0,
  (forall l, In l P -> dmem (gates c) l = true) -> exists r, enum_pass c P d post0 = Ok r.
Proof.
  induction P as [|l P IH]; intros d post0 H; simpl; [eauto|].
  assert (dmem (gates c) l = true) as Hl by (apply H; left; reflexivity).
  unfold get_gate, dmem in *. destruct (dget (gates c) l) as [g|]; [|discriminate]. simpl.
  destruct (forallb _ _); apply IH; intros x Hx; apply H; right; exact Hx.
Qed.

Lemma enum_pass_length c : forall P d post0 d' post,
  enum_pass c P d post0 = Ok (d', post) -> (length post <= length post0 + length P)%nat.
Proof.
  induction P as [|l P IH]; intros d post0 d' post; simpl.
  - intros [= _ <-]. lia.
  - destruct (get_gate c l) as [g|]; simpl; [|discriminate].
    destruct (forallb _ _); intros H; apply IH in H; [lia|]. rewrite app_length in H; simpl in H; lia.
Qed.

(* a gate all of whose operands are numbered is numbered by the sweep *)
Lemma enum_pass_progress c : forall P d post0 d' post,
  enum_pass c P d post0 = Ok (d', post) -> ids_ok d -> NoDup P -> (forall l, In l P -> dmem d l = false) ->
  (exists m g, In m P /\ dget (gates c) m = Some g /\ forallb (fun op => dmem d op) (gops g) = true) ->
  (length post < length post0 + length P)%nat.
Proof.
  induction P as [|l P IH]; intros d post0 d' post H Hok Hnd Hfresh (m & g & Hm & Hg & Hall); [contradiction|].
  simpl in H. destruct (get_gate c l) as [gl|] eqn:Eg; simpl in H; [|discriminate]. apply get_gate_ok in Eg.
  inversion Hnd as [|? ? Hx Hn]; subst.
  destruct (forallb (fun op => dmem d op) (gops gl)) eqn:Eall.
  - apply enum_pass_length in H. simpl; lia.
  - destruct Hm as [->|Hm]; [rewrite Eg in Hg; injection Hg as <-; congruence|].
    apply IH in H; [rewrite app_length in H; simpl in *; lia|exact Hok|exact Hn| |].
    + intros x Hxin; apply Hfresh; right; exact Hxin.
    + exists m, g. auto.
Qed.

Lemma enum_loop_S fuel c l P d :
  enum_loop (S fuel) c (l :: P) d =
  (do r <- enum_pass c (l :: P) d [];
   if (length (snd r) =? length (l :: P))%nat then Err CircuitEncodingError
   else enum_loop fuel c (snd r) (fst r)).
Proof. reflexivity. Qed.

Lemma enum_loop_nil fuel c d : enum_loop fuel c [] d = Ok d.
Proof. destruct fuel; reflexivity. Qed.

Lemma enum_loop_spec c : forall fuel P d d',
  enum_loop fuel c P d = Ok d' -> enum_inv c d -> NoDup P -> (forall l, In l P -> dmem d l = false) ->
  enum_inv c d' /\ exists pl, dkeys d' = dkeys d ++ pl /\ Permutation pl P.
Proof.
  induction fuel as [|fuel IH]; intros P d d' H Hinv Hnd Hfresh.
  - destruct P; simpl in H; [|discriminate]. injection H as <-. split; [exact Hinv|].
    exists []; rewrite app_nil_r; auto.
  - destruct P as [|l0 P0]; [simpl in H; injection H as <-; split; [exact Hinv|]; exists []; rewrite app_nil_r; auto|].
    rewrite enum_loop_S in H. set (P := l0 :: P0) in *.
    destruct (enum_pass c P d []) as [[d1 post]|] eqn:Ep; cbv beta iota delta [bind fst snd] in H; [|discriminate].
    destruct (length post =? length P)%nat; [discriminate|].
    destruct (enum_pass_spec _ _ _ _ _ _ Ep Hinv Hnd Hfresh) as (pl & pp & Epost & Hk & Hi & Hp).
    simpl in Epost; subst post.
    assert (NoDup (pl ++ pp)) as Hnd' by (eapply Permutation_NoDup; eassumption).
    apply NoDup_app_iff in Hnd' as (_ & Hndpp & Hdisj).
    destruct (IH _ _ _ H Hi Hndpp) as (Hi' & pl' & Hk' & Hp').
    { intros x Hxin. destruct (dmem d1 x) eqn:E; [|reflexivity]. apply dmem_keys in E. rewrite Hk in E.
      apply in_app_or in E as [E|E].
      - apply dmem_keys in E. rewrite Hfresh in E; [discriminate|].
        eapply Permutation_in; [apply Permutation_sym; exact Hp|]. apply in_or_app; right; exact Hxin.
      - exfalso; eapply Hdisj; eassumption. }
    split; [exact Hi'|]. exists (pl ++ pl'). split; [rewrite Hk', Hk, <- app_assoc; reflexivity|].
    eapply Permutation_trans; [|apply Permutation_sym; exact Hp]. apply Permutation_app_head; exact Hp'.
Qed.

(* the only way the (repaired) enumeration fails on existing labels is the codec error;
   in particular `length pending` rounds are always enough (no OutOfFuel) *)
Lemma enum_loop_err c : forall fuel P d e,
  enum_loop fuel c P d = Err e -> (forall l, In l P -> dmem (gates c) l = true) -> enum_inv c d -> NoDup P ->
  (forall l, In l P -> dmem d l = false) -> (length P <= fuel)%nat -> e = CircuitEncodingError.
Proof.
  induction fuel as [|fuel IH]; intros P d e H Hex Hinv Hnd Hfresh Hlen.
  - destruct P; [discriminate|simpl in Hlen; lia].
  - destruct P as [|l0 P0]; [discriminate|]. rewrite enum_loop_S in H. set (P := l0 :: P0) in *.
    destruct (enum_pass_total c P d [] Hex) as ([d1 post] & Ep). rewrite Ep in H. cbv beta iota delta [bind fst snd] in H.
    destruct (Nat.eqb_spec (length post) (length P)) as [|Hne]; [injection H as <-; reflexivity|].
    pose proof (enum_pass_length _ _ _ _ _ _ Ep) as Hle. simpl in Hle.
    destruct (enum_pass_spec _ _ _ _ _ _ Ep Hinv Hnd Hfresh) as (pl & pp & Epost & Hk & Hi & Hp).
    simpl in Epost; subst post.
    assert (NoDup (pl ++ pp)) as Hnd' by (eapply Permutation_NoDup; eassumption).
    apply NoDup_app_iff in Hnd' as (_ & Hndpp & Hdisj).
    eapply IH; [exact H| |exact Hi|exact Hndpp| |unfold P in *; simpl in *; lia].
    + intros x Hx. apply Hex. eapply Permutation_in; [apply Permutation_sym; exact Hp|].
      apply in_or_app; right; exact Hx.
    + intros x Hxin. destruct (dmem d1 x) eqn:E; [|reflexivity]. apply dmem_keys in E. rewrite Hk in E.
      apply in_app_or in E as [E|E].
      * apply dmem_keys in E. rewrite Hfresh in E; [discriminate|].
        eapply Permutation_in; [apply Permutation_sym; exact Hp|]. apply in_or_app; right; exact Hxin.
      * exfalso; eapply Hdisj; eassumption.
Qed.
