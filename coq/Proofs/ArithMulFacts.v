(* C08, part 1: the partial-product matrix, add_mul (default mode) and add_mul_alter.

   Notation: a matrix of Boolean values [rows] (row i = the values of c[i][0..n-1]) has the value
   [mval rows] = sum_i 2^i * bits_val row_i; for the partial products of a and b this is a * b. *)
Require Import Cirbo.Model.Base Cirbo.Model.Gate Cirbo.Model.Den Cirbo.Model.Circuit
  Cirbo.Model.Eval Cirbo.Model.Sem Cirbo.Model.Builder.
Require Import Cirbo.Generated.ArithTables Cirbo.Generated.ArithCells.
Require Import Cirbo.Model.ArithSub Cirbo.Model.ArithSum2 Cirbo.Model.ArithSumN Cirbo.Model.ArithSumW
  Cirbo.Model.ArithMul.
Require Import Cirbo.Proofs.DictFacts Cirbo.Proofs.BuilderFacts Cirbo.Proofs.ArithFacts
  Cirbo.Proofs.ArithSumCells Cirbo.Proofs.ArithSumNFacts Cirbo.Proofs.ArithSumTopFacts
  Cirbo.Proofs.ArithSumWFacts Cirbo.Proofs.ArithSum2Facts.
Open Scope Z_scope.

(* ---- values of a matrix ----------------------------------------------------------------------------- *)
Fixpoint mval (rows : list (list bool)) : Z :=
  match rows with [] => 0 | r :: rest => bits_val r + 2 * mval rest end.

Definition and_row (av : list bool) (vb : bool) : list bool := map (fun x => andb x vb) av.
Definition pp_vals (av bv : list bool) : list (list bool) := map (and_row av) bv.

Lemma bits_val_and_row av vb : bits_val (and_row av vb) = Z.b2z vb * bits_val av.
Proof.
  induction av as [|x av IH]; [simpl; lia|].
  change (and_row (x :: av) vb) with ((x && vb)%bool :: and_row av vb). rewrite !bits_val_cons, IH.
  destruct x, vb; simpl; lia.
Qed.

Lemma mval_pp av bv : mval (pp_vals av bv) = bits_val av * bits_val bv.
Proof.
  induction bv as [|vb bv IH]; [simpl; lia|].
  change (pp_vals av (vb :: bv)) with (and_row av vb :: pp_vals av bv). cbn [mval].
  rewrite IH, bits_val_and_row, bits_val_cons. lia.
Qed.

Lemma and_row_length av vb : length (and_row av vb) = length av.
Proof. apply map_length. Qed.

Notation mvals c asg := (Forall2 (bvals c asg)).

(* ---- pp_row / pp_matrix ------------------------------------------------------------------------------ *)
Lemma run_ret_bind fresh {A B} (a : A) (k : A -> prog B) s : run fresh (Bind (Ret a) k) s = run fresh (k a) s.
Proof. reflexivity. Qed.

Lemma pp_row_spec fresh bi : forall a s row s',
  run fresh (pp_row a bi) s = Ok (row, s') ->
  ext (bc s) (bc s') /\ outputs (bc s') = outputs (bc s) /\ length row = length a /\
  forall c, ext (bc s') c -> forall asg av vb, bvals c asg a av -> bval c asg bi vb ->
    bvals c asg row (and_row av vb).
Proof.
  unfold pp_row. induction a as [|aj a IH]; intros s row s' H.
  - apply run_ret_inv in H as (-> & ->). repeat split; [apply ext_refl|].
    intros c _ asg av vb Hav _. inversion Hav; subst. constructor.
  - cbn [mapP] in H. apply gate_tt_bind in H as (g & s1 & H & Hx1 & Ht & O1).
    apply run_bind_inv in H as (r & s2 & Hr & H). apply run_ret_inv in H as (-> & ->).
    apply IH in Hr as (Hx2 & O2 & L & V).
    split; [eapply ext_trans; eassumption|]. split; [congruence|]. split; [simpl; congruence|].
    intros c Hc asg av vb Hav Hvb. inversion Hav as [|? x ? av' Hx Hav']; subst. simpl. constructor.
    + assert (ext (bc s1) c) as Hc1 by (eapply ext_trans; eassumption).
      apply (has_tt_ext _ _ _ _ _ _ Hc1) in Ht.
      pose proof (has_tt_val _ _ _ _ _ asg _ _ Ht Hx Hvb) as Vg.
      replace (tt_fun tt_and x vb) with (x && vb)%bool in Vg by (destruct x, vb; reflexivity). exact Vg.
    + apply V; assumption.
Qed.

Lemma pp_matrix_spec fresh a : forall b s c s',
  run fresh (pp_matrix a b) s = Ok (c, s') ->
  ext (bc s) (bc s') /\ outputs (bc s') = outputs (bc s) /\ length c = length b /\
  Forall (fun row => length row = length a) c /\
  forall cf, ext (bc s') cf -> forall asg av bv, bvals cf asg a av -> bvals cf asg b bv ->
    mvals cf asg c (pp_vals av bv).
Proof.
  unfold pp_matrix. induction b as [|bi b IH]; intros s c s' H.
  - apply run_ret_inv in H as (-> & ->). repeat split; [apply ext_refl|constructor|].
    intros cf _ asg av bv _ Hbv. inversion Hbv; subst. constructor.
  - cbn [mapP] in H. apply run_bind_inv in H as (row & s1 & Hrow & H).
    apply run_bind_inv in H as (r & s2 & Hr & H). apply run_ret_inv in H as (-> & ->).
    apply pp_row_spec in Hrow as (Hx1 & O1 & L1 & V1). apply IH in Hr as (Hx2 & O2 & L2 & F2 & V2).
    split; [eapply ext_trans; eassumption|]. split; [congruence|]. split; [simpl; congruence|].
    split; [constructor; assumption|].
    intros cf Hc asg av bv Hav Hbv. inversion Hbv as [|? vb ? bv' Hvb Hbv']; subst. simpl. constructor.
    + apply V1; [eapply ext_trans; eassumption|assumption|assumption].
    + apply V2; assumption.
Qed.

(* ---- consecutive levels ------------------------------------------------------------------------------ *)
Fixpoint nseq (lo : N) (k : nat) : list N :=
  match k with O => [] | S k' => lo :: nseq (N.succ lo) k' end.

Lemma wvalue_nseq lo : forall vs, wvalue (nseq lo (length vs)) vs = 2 ^ Z.of_N lo * bits_val vs.
Proof.
  intros vs; revert lo; induction vs as [|v vs IH]; intros lo; simpl; [lia|].
  rewrite IH. rewrite N2Z.inj_succ, Z.pow_succ_r by lia. lia.
Qed.

(* membership in the sorted work lists *)
Lemma sl_add_In {A} (ltb : A -> A -> bool) x l y : In y (sl_add ltb x l) <-> y = x \/ In y l.
Proof.
  induction l as [|z l IH]; simpl; [intuition|].
  destruct (ltb x z); simpl; [intuition|]. rewrite IH. intuition.
Qed.

Lemma sl_of_list_In {A} (ltb : A -> A -> bool) l y : In y (sl_of_list ltb l) <-> In y l.
Proof.
  unfold sl_of_list.
  assert (forall acc, In y (fold_left (fun acc x => sl_add ltb x acc) l acc) <-> In y l \/ In y acc) as H.
  { induction l as [|x l IH]; simpl; intros acc; [intuition|]. rewrite IH, sl_add_In. intuition. }
  rewrite H. simpl. intuition.
Qed.

Lemma add_singles_In lev next : forall single y,
  In y (add_singles lev next single) <-> In y single \/ exists l, In l next /\ y = (lev, l).
Proof.
  unfold add_singles. induction next as [|x next IH]; simpl; intros single y.
  - split; [auto|intros [H|(l & [] & _)]; exact H].
  - rewrite IH, sl_add_In. split.
    + intros [[->|H]|(l & Hl & ->)]; [right; exists x; auto|auto|right; exists l; auto].
    + intros [H|(l & [<-|Hl] & ->)]; [auto|auto|right; exists l; auto].
Qed.

Lemma add_pairs_In lev next : forall pairs y,
  In y (add_pairs lev next pairs) -> In y pairs \/ plev y = lev.
Proof.
  unfold add_pairs. induction next as [|x next IH]; simpl; intros pairs y H; [auto|].
  apply IH in H as [H|H]; [|auto]. apply sl_add_In in H as [->|H]; [right; reflexivity|auto].
Qed.

Lemma take_level_In lev l : forall now rest, take_level lev l = (now, rest) ->
  (forall x, In x rest -> In x l) /\ (forall x, In x l -> fst x <> lev -> In x rest).
Proof.
  induction l as [|[lv x] l IH]; simpl; intros now rest E.
  - injection E as <- <-. split; auto.
  - destruct (N.eqb_spec lv lev) as [->|Hne].
    + destruct (take_level lev l) as [a b]. injection E as <- <-. destruct (IH a b eq_refl) as (H1 & H2).
      split; [intros y Hy; right; apply H1, Hy|].
      intros y [<-|Hy] Hn; [simpl in Hn; congruence|apply H2; assumption].
    + injection E as <- <-. split; auto.
Qed.

Lemma take_level_pairs_In lev l : forall now rest, take_level_pairs lev l = (now, rest) ->
  forall x, In x rest -> In x l.
Proof.
  induction l as [|[[lv x] y] l IH]; simpl; intros now rest E.
  - injection E as <- <-. auto.
  - destruct (N.eqb_spec lv lev) as [->|Hne].
    + destruct (take_level_pairs lev l) as [a b]. injection E as <- <-.
      intros z Hz; right; eapply IH; [reflexivity|exact Hz].
    + injection E as <- <-. auto.
Qed.

Lemma sorted_head_le (l : list witem) a x : ssorted (a :: l) -> In x (a :: l) -> (fst a <= fst x)%N.
Proof.
  intros Hs [<-|Hx]; [lia|]. inversion Hs as [|? ? Hlb _]; subst.
  unfold lb in Hlb. rewrite Forall_forall in Hlb. apply Hlb, Hx.
Qed.

(* the work lists hold levels in [lo, hi] and every level in [lo, hi) is present among the singles:
   then the loop emits the levels lo, lo + 1, lo + 2, ... without a gap *)
Definition lev_in (lo hi : N) (single : list witem) (pairs : list wpair) : Prop :=
  (forall x, In x single -> (lo <= fst x <= hi)%N) /\ (forall p, In p pairs -> (lo <= plev p <= hi)%N).
Definition covered (lo hi : N) (single : list witem) : Prop :=
  forall l, (lo <= l < hi)%N -> exists x, In (l, x) single.

Lemma eff_loop_levels fresh inf : forall fuel single pairs s res s' lo hi,
  run fresh (eff_loop fuel inf XAIG single pairs) s = Ok (res, s') ->
  ssorted single -> psorted pairs -> lev_in lo hi single pairs -> covered lo hi single -> (lo <= hi)%N ->
  map fst res = nseq lo (length res).
Proof.
  induction fuel as [|f IH]; intros single pairs s res s' lo hi H Hs Hp (Hin1 & Hin2) Hcov Hle.
  { destruct single, pairs; try discriminate. apply run_ret_inv in H as (-> & _). reflexivity. }
  set (lev := N.min (head_level inf fst single) (head_level inf (fun p : wpair => fst (fst p)) pairs)).
  assert (Hstep : (single <> [] \/ pairs <> []) -> run fresh
      (if (inf <=? lev)%N then Fail PyAssertionError
       else let '(now_singles, single1) := take_level lev single in
            let '(now_pairs, pairs1) := take_level_pairs lev pairs in
            bdo st <- pair_up (rev now_singles) (rev now_pairs);
            bdo lv <- xaig_level (fst st) (snd st);
            let '(r, next_solo, next_xxy) := lv in
            bdo rs <- eff_loop f inf XAIG (add_singles (lev + 1) (rev next_solo) single1)
                                       (add_pairs (lev + 1) (rev next_xxy) pairs1);
            Ret ((lev, r) :: rs)) s = Ok (res, s') -> map fst res = nseq lo (length res)).
  { clear H. intros Hne H. destruct (inf <=? lev)%N eqn:Einf; [discriminate|]. apply N.leb_gt in Einf.
    assert (slb lo single) as Hlb by (apply Forall_forall; intros x Hx; apply Hin1 in Hx; lia).
    assert (plb lo pairs) as Hplb by (apply Forall_forall; intros x Hx; apply Hin2 in Hx; lia).
    assert (lev = lo) as Elev.
    { assert (lo <= lev)%N as Hlo.
      { unfold lev in *. destruct single as [|a ?], pairs as [|p ?]; cbn [head_level] in *.
        - destruct Hne as [Hne|Hne]; congruence.
        - pose proof (Hin2 p (or_introl eq_refl)) as Hb. unfold plev in Hb. lia.
        - pose proof (Hin1 a (or_introl eq_refl)). lia.
        - pose proof (Hin1 a (or_introl eq_refl)). pose proof (Hin2 p (or_introl eq_refl)) as Hb. unfold plev in Hb. lia. }
      destruct (N.eq_dec lo hi) as [Ehi|Hnehi].
      - (* every pending item sits on level lo *)
        subst hi. unfold lev in *. destruct single as [|a ?], pairs as [|p ?]; cbn [head_level] in *.
        + destruct Hne as [Hne|Hne]; congruence.
        + pose proof (Hin2 p (or_introl eq_refl)) as Hb. unfold plev in Hb. lia.
        + pose proof (Hin1 a (or_introl eq_refl)). lia.
        + pose proof (Hin1 a (or_introl eq_refl)). lia.
      - destruct (Hcov lo) as (x & Hx); [lia|].
        destruct single as [|a single']; [destruct Hx|].
        pose proof (sorted_head_le _ _ _ Hs Hx) as Hh. simpl in Hh.
        unfold lev in *. cbn [head_level] in *. lia. }
    rewrite Elev in *. clear Elev.
    destruct (take_level lo single) as [now single1] eqn:Et.
    destruct (take_level_pairs lo pairs) as [nowp pairs1] eqn:Etp.
    destruct (take_level_spec lo _ _ _ Et Hs Hlb) as (_ & Srest & Brest & _).
    destruct (take_level_pairs_spec lo _ _ _ Etp Hp Hplb) as (Sprest & Bprest & _).
    destruct (take_level_In lo _ _ _ Et) as (T1 & T2).
    pose proof (take_level_pairs_In lo _ _ _ Etp) as T3.
    apply run_bind_inv in H as (st & s1 & Hpu & H).
    apply run_bind_inv in H as ([[r ns] nx] & s2 & Hlv & H).
    apply run_bind_inv in H as (rs & s3 & Hrec & H). apply run_ret_inv in H as (-> & ->).
    destruct (add_singles_spec (lo + 1) (rev ns) single1 Srest) as (S3 & _).
    destruct (add_pairs_spec (lo + 1) (rev nx) pairs1 Sprest) as (S4 & _).
    cbn [map length nseq fst]. f_equal.
    replace (N.succ lo) with (lo + 1)%N by lia.
    apply (IH _ _ _ _ _ (lo + 1)%N (N.max hi (lo + 1))) in Hrec; [exact Hrec|exact S3|exact S4| | |lia].
    - split.
      + intros x Hx. apply add_singles_In in Hx as [Hx|(l & _ & ->)]; [|simpl; lia].
        unfold lb in Brest. rewrite Forall_forall in Brest. pose proof (Brest _ Hx). apply T1, Hin1 in Hx. lia.
      + intros q Hq. apply add_pairs_In in Hq as [Hq|Hq]; [|lia].
        unfold lb in Bprest. rewrite Forall_forall in Bprest. pose proof (Bprest _ Hq). apply T3, Hin2 in Hq. lia.
    - intros l Hl. destruct (Hcov l) as (x & Hx); [lia|]. exists x. apply add_singles_In. left.
      apply T2; [exact Hx|simpl; lia]. }
  destruct single as [|a single'], pairs as [|p pairs'].
  - apply run_ret_inv in H as (-> & _). reflexivity.
  - apply Hstep; [right; discriminate|exact H].
  - apply Hstep; [left; discriminate|exact H].
  - apply Hstep; [left; discriminate|exact H].
Qed.

(* ---- the weights of the partial-product matrix --------------------------------------------------------- *)
Lemma wvalue_app l1 : forall v1 l2 v2, length l1 = length v1 ->
  wvalue (l1 ++ l2) (v1 ++ v2) = wvalue l1 v1 + wvalue l2 v2.
Proof.
  induction l1 as [|x l1 IH]; intros [|v v1] l2 v2 L; simpl in *; try discriminate; [lia|].
  rewrite IH by lia. lia.
Qed.

Lemma row_weights_snd row : forall lev, map snd (row_weights lev row) = row.
Proof. induction row as [|x row IH]; intros lev; simpl; [reflexivity|]. rewrite IH. reflexivity. Qed.

Lemma row_weights_fst row : forall lev, map fst (row_weights lev row) = nseq lev (length row).
Proof. induction row as [|x row IH]; intros lev; simpl; [reflexivity|]. rewrite IH. reflexivity. Qed.

Lemma matrix_weights_snd c : forall lev, map snd (matrix_weights lev c) = concat c.
Proof.
  induction c as [|row c IH]; intros lev; simpl; [reflexivity|]. rewrite map_app, row_weights_snd, IH. reflexivity.
Qed.

Lemma mvals_concat c asg rows vals : mvals c asg rows vals -> bvals c asg (concat rows) (concat vals).
Proof. induction 1; simpl; [constructor|apply bvals_app; assumption]. Qed.

Lemma matrix_weights_value cf asg c : forall cv lev, mvals cf asg c cv ->
  wvalue (map fst (matrix_weights lev c)) (concat cv) = 2 ^ Z.of_N lev * mval cv.
Proof.
  induction c as [|row c IH]; intros cv lev H; inversion H as [|? rv ? cv' Hr Hc]; subst; simpl; [lia|].
  assert (length (map fst (row_weights lev row)) = length rv) as Lrow.
  { rewrite row_weights_fst. clear -Hr. apply bvals_length in Hr. rewrite <- Hr.
    generalize lev. generalize (length row). clear. intros k. induction k as [|k IHk]; intros l0; simpl; [reflexivity|].
    rewrite IHk. reflexivity. }
  rewrite map_app, (wvalue_app _ _ _ _ Lrow), (IH _ _ Hc).
  rewrite row_weights_fst, (bvals_length _ _ _ _ Hr), wvalue_nseq.
  rewrite N2Z.inj_succ, Z.pow_succ_r by lia. lia.
Qed.

Lemma nseq_In lo k l : In l (nseq lo k) <-> (lo <= l < lo + N.of_nat k)%N.
Proof.
  revert lo; induction k as [|k IH]; intros lo; simpl; [lia|]. rewrite IH. lia.
Qed.

Lemma row_weights_In row lev l :
  (exists x, In (l, x) (row_weights lev row)) <-> (lev <= l < lev + N.of_nat (length row))%N.
Proof.
  rewrite <- nseq_In, <- row_weights_fst. split.
  - intros (x & Hx). apply in_map_iff. exists (l, x). auto.
  - intros H. apply in_map_iff in H as ([l' x] & E & Hx). simpl in E. subst l'. eauto.
Qed.

Lemma matrix_weights_bound n c : forall lev x, Forall (fun row => length row = n) c ->
  In x (matrix_weights lev c) -> (lev <= fst x < lev + N.of_nat (length c + n))%N.
Proof.
  induction c as [|row c IH]; intros lev x F H; simpl in *; [destruct H|].
  inversion F as [|? ? Lr Fc]; subst. apply in_app_iff in H as [H|H].
  - assert (exists y, In (fst x, y) (row_weights lev row)) as H' by (exists (snd x); destruct x; exact H).
    apply row_weights_In in H'. lia.
  - apply (IH (N.succ lev)) in H; [|exact Fc]. lia.
Qed.

Lemma matrix_weights_cover n c : forall lev, c <> [] -> Forall (fun row => length row = n) c -> (1 <= n)%nat ->
  forall l, (lev <= l < lev + N.of_nat (length c + n - 1))%N -> exists x, In (l, x) (matrix_weights lev c).
Proof.
  induction c as [|row c IH]; intros lev Hne F Hn l Hl; [congruence|].
  inversion F as [|? ? Lr Fc]; subst. simpl matrix_weights.
  destruct (N.ltb_spec l (lev + N.of_nat (length row))) as [Hlt|Hge].
  - destruct (proj2 (row_weights_In row lev l)) as (x & Hx); [lia|]. exists x. apply in_app_iff. auto.
  - destruct c as [|row2 c']; [simpl in Hl; lia|].
    destruct (IH (N.succ lev)) with (l := l) as (x & Hx); [discriminate|exact Fc|exact Hn| |].
    + simpl length in *. lia.
    + exists x. apply in_app_iff. auto.
Qed.

(* the levels returned by the weighted sum of a gap-free weight vector are 0, 1, 2, ... *)
Lemma weighted_levels_dense fresh inp s res s' hi :
  run fresh (add_sum_n_weighted_bits (BEnum XAIG) inp) s = Ok (res, s') ->
  (forall x, In x inp -> (fst x <= hi)%N) -> covered 0 hi inp ->
  map fst res = nseq 0 (length res).
Proof.
  intros H Hb Hc. unfold add_sum_n_weighted_bits in H.
  apply run_bind_inv in H as (b & s0 & Hb0 & H). apply ret_res_inv in Hb0 as (Hb0 & ->).
  simpl in Hb0. injection Hb0 as <-.
  apply run_bind_inv in H as (inf & s0 & Hi & H). apply run_w_inf in Hi as (_ & ->).
  eapply eff_loop_levels with (lo := 0%N) (hi := hi) in H; [exact H| |constructor| | |lia].
  - apply sl_of_list_sorted; [apply witem_ltb_true|apply witem_ltb_false].
  - split; [|intros p []]. intros x Hx. apply sl_of_list_In in Hx. apply Hb in Hx. lia.
  - intros l Hl. destruct (Hc l Hl) as (x & Hx). exists x. apply sl_of_list_In, Hx.
Qed.

(* ---- add_mul ------------------------------------------------------------------------------------------- *)
Theorem add_mul_correct fresh xs ys be s rs s' :
  run fresh (add_mul xs ys be) s = Ok (rs, s') ->
  ext (bc s) (bc s') /\ inputs (bc s') = inputs (bc s) /\ outputs (bc s') = outputs (bc s) /\
  forall c, ext (bc s') c -> forall asg xv yv, bvals c asg xs xv -> bvals c asg ys yv ->
    exists rv, bvals c asg rs rv /\ decode be rv = decode be xv * decode be yv.
Proof.
  intros H. pose proof (run_ext _ _ _ _ _ H) as Hx. unfold add_mul in H.
  apply run_bind_inv in H as (cm & s1 & Hpp & H). apply run_bind_inv in H as (out & s2 & Hw & H).
  apply run_ret_inv in H as (-> & ->).
  apply pp_matrix_spec in Hpp as (Hx1 & O1 & L1 & F1 & V1).
  pose proof Hw as Hw'.
  apply add_sum_n_weighted_bits_correct in Hw as (b & _ & Hx2 & _ & O2 & _ & _ & V2).
  split; [exact Hx|]. split; [apply ext_inputs, Hx|]. split; [congruence|].
  intros c Hc asg xv yv Hxv Hyv.
  assert (ext (bc s1) c) as Hc1 by (eapply ext_trans; eassumption).
  specialize (V1 c Hc1 asg _ _ (bvals_rev_if _ _ be _ _ Hxv) (bvals_rev_if _ _ be _ _ Hyv)).
  destruct (V2 c Hc asg (concat (pp_vals (rev_if be xv) (rev_if be yv)))) as (rv & Vrv & Erv).
  { rewrite matrix_weights_snd. apply mvals_concat, V1. }
  exists (rev_if be rv). split; [apply bvals_rev_if, Vrv|].
  rewrite decode_rev_if. rewrite (matrix_weights_value _ _ _ _ _ V1), mval_pp in Erv.
  change (Z.of_N 0) with 0 in Erv. rewrite Z.pow_0_r, Z.mul_1_l in Erv. unfold decode. rewrite <- Erv.
  (* the levels are 0 .. len - 1 *)
  assert (map fst out = nseq 0 (length out)) as Elev.
  { destruct (rev_if be ys) as [|y0 ys'] eqn:Eys.
    { (* no rows: max([]) raises *)
      apply bvals_length in Hyv. simpl in L1. destruct cm; [|discriminate]. simpl in Hw'.
      unfold add_sum_n_weighted_bits in Hw'. simpl in Hw'. discriminate. }
    destruct (rev_if be xs) as [|x0 xs'] eqn:Exs.
    { (* rows of length 0: the weight vector is empty *)
      assert (matrix_weights 0 cm = []) as E0.
      { clear -F1. generalize 0%N. induction cm as [|row cm IH]; intros lev; [reflexivity|].
        inversion F1 as [|? ? Lr Fc]; subst. destruct row; [|discriminate]. simpl. apply IH, Fc. }
      rewrite E0 in Hw'. unfold add_sum_n_weighted_bits in Hw'. simpl in Hw'. discriminate. }
    eapply weighted_levels_dense with (hi := N.of_nat (length cm + length (x0 :: xs') - 1)); [exact Hw'| |].
    - intros x Hxin. apply (matrix_weights_bound _ _ _ _ F1) in Hxin. simpl length in *. lia.
    - intros l Hl. apply (matrix_weights_cover (length (x0 :: xs'))); [|exact F1|simpl; lia|lia].
      intros ->. discriminate. }
  rewrite Elev. replace (length out) with (length rv)
    by (rewrite <- (bvals_length _ _ _ _ Vrv); apply map_length).
  rewrite wvalue_nseq. change (Z.of_N 0) with 0. rewrite Z.pow_0_r. lia.
Qed.

(* ---- the shifted adder: number of result bits ------------------------------------------------------------ *)
Lemma with_shift_length fresh sh xs ys be s rs s' :
  run fresh (add_sum_two_numbers_with_shift sh xs ys be) s = Ok (rs, s') ->
  length rs = if (length xs <=? sh)%nat then (sh + length ys)%nat
              else (sh + S (Nat.max (length xs - sh) (length ys)))%nat.
Proof.
  intros H. unfold add_sum_two_numbers_with_shift in H. rewrite rev_if_length in H.
  destruct (length xs <=? sh)%nat eqn:E.
  - apply Nat.leb_le in E.
    apply run_bind_inv in H as (zs & s1 & Hz & H). apply run_ret_inv in H as (-> & ->).
    rewrite rev_if_length, !app_length, !rev_if_length.
    destruct (sh =? length xs)%nat eqn:E2.
    + apply Nat.eqb_eq in E2. apply run_ret_inv in Hz as (-> & ->). simpl. lia.
    + apply run_bind_inv in Hz as (a0 & s0 & Ha0 & Hz). apply nthP_inv in Ha0 as (_ & ->).
      apply gate_tt_bind in Hz as (z & s2 & Hz & _). apply run_ret_inv in Hz as (-> & ->).
      rewrite repeat_length. lia.
  - apply Nat.leb_gt in E.
    apply run_bind_inv in H as (sm & s1 & Hs & H). apply run_ret_inv in H as (-> & ->).
    apply add_sum_two_numbers_correct in Hs as (_ & _ & _ & L & _).
    rewrite rev_if_length, app_length, L, firstn_length, skipn_length, !rev_if_length. lia.
Qed.

(* ---- add_mul_alter ----------------------------------------------------------------------------------------- *)
Lemma decode_false v : decode false v = bits_val v.
Proof. reflexivity. Qed.

Lemma alter_loop_spec fresh : forall rows i res s r s',
  run fresh (alter_loop i res rows) s = Ok (r, s') ->
  ext (bc s) (bc s') /\ outputs (bc s') = outputs (bc s) /\
  forall c, ext (bc s') c -> forall asg resv rowsv, bvals c asg res resv -> mvals c asg rows rowsv ->
    exists rv, bvals c asg r rv /\ bits_val rv = bits_val resv + 2 ^ Z.of_nat i * mval rowsv.
Proof.
  induction rows as [|ci rows IH]; intros i res s r s' H.
  - apply run_ret_inv in H as (-> & ->). split; [apply ext_refl|]. split; [reflexivity|].
    intros c _ asg resv rowsv Hres Hrows. inversion Hrows; subst. exists resv. split; [exact Hres|simpl; lia].
  - cbn [alter_loop] in H. apply run_bind_inv in H as (r1 & s1 & H1 & H).
    apply add_sum_two_numbers_with_shift_correct in H1 as (Hx1 & _ & O1 & V1).
    apply IH in H as (Hx2 & O2 & V2).
    split; [eapply ext_trans; eassumption|]. split; [congruence|].
    intros c Hc asg resv rowsv Hres Hrows. inversion Hrows as [|? cv ? rowsv' Hci Hrows']; subst.
    assert (ext (bc s1) c) as Hc1 by (eapply ext_trans; eassumption).
    destruct (V1 c Hc1 asg resv cv Hres Hci) as (r1v & Vr1 & E1). rewrite !decode_false in E1.
    destruct (V2 c Hc asg r1v rowsv' Vr1 Hrows') as (rv & Vr & E2).
    exists rv. split; [exact Vr|]. rewrite E2, E1. cbn [mval]. rewrite pow2_succ. unfold decode, rev_if. lia.
Qed.

Theorem add_mul_alter_correct fresh xs ys be s rs s' :
  run fresh (add_mul_alter xs ys be) s = Ok (rs, s') ->
  ext (bc s) (bc s') /\ inputs (bc s') = inputs (bc s) /\ outputs (bc s') = outputs (bc s) /\
  forall c, ext (bc s') c -> forall asg xv yv, bvals c asg xs xv -> bvals c asg ys yv ->
    exists rv, bvals c asg rs rv /\ decode be rv = decode be xv * decode be yv.
Proof.
  intros H. pose proof (run_ext _ _ _ _ _ H) as Hx. unfold add_mul_alter in H.
  apply run_bind_inv in H as (cm & s1 & Hpp & H).
  apply pp_matrix_spec in Hpp as (Hx1 & O1 & L1 & F1 & V1).
  split; [exact Hx|]. split; [apply ext_inputs, Hx|].
  destruct cm as [|c0 rest]; [discriminate|].
  assert (exists r, (rest = [] /\ r = c0 /\ s' = s1 \/
                     rest <> [] /\ run fresh (alter_loop 1 c0 rest) s1 = Ok (r, s')) /\ rs = rev_if be r)
    as (r & Hr & ->).
  { destruct rest as [|c1 rest'].
    - apply run_ret_inv in H as (-> & ->). exists c0. split; [left; auto|reflexivity].
    - apply run_bind_inv in H as (r & s2 & Hr & H). apply run_ret_inv in H as (-> & ->).
      exists r. split; [right; split; [discriminate|exact Hr]|reflexivity]. }
  assert (ext (bc s1) (bc s') /\ outputs (bc s') = outputs (bc s1) /\
          forall c, ext (bc s') c -> forall asg c0v restv, bvals c asg c0 c0v -> mvals c asg rest restv ->
            exists rv, bvals c asg r rv /\ bits_val rv = mval (c0v :: restv)) as (Hx2 & O2 & V2).
  { destruct Hr as [(-> & -> & ->)|(_ & Hr)].
    - split; [apply ext_refl|]. split; [reflexivity|]. intros c _ asg c0v restv Hc0 Hrest. inversion Hrest; subst.
      exists c0v. split; [exact Hc0|simpl; lia].
    - apply alter_loop_spec in Hr as (Hx2 & O2 & V2). split; [exact Hx2|]. split; [exact O2|].
      intros c Hc asg c0v restv Hc0 Hrest. destruct (V2 c Hc asg c0v restv Hc0 Hrest) as (rv & Vr & E).
      exists rv. split; [exact Vr|]. rewrite E. cbn [mval]. change (2 ^ Z.of_nat 1) with 2. lia. }
  split; [congruence|].
  intros c Hc asg xv yv Hxv Hyv.
  assert (ext (bc s1) c) as Hc1 by (eapply ext_trans; eassumption).
  specialize (V1 c Hc1 asg _ _ (bvals_rev_if _ _ be _ _ Hxv) (bvals_rev_if _ _ be _ _ Hyv)).
  inversion V1 as [|? c0v ? restv Hc0 Hrest E1 E2]; subst.
  destruct (V2 c Hc asg c0v restv Hc0 Hrest) as (rv & Vr & E).
  exists (rev_if be rv). split; [apply bvals_rev_if, Vr|].
  rewrite decode_rev_if, E, E2, mval_pp. reflexivity.
Qed.
